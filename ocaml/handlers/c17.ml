(* C17 commands: the Z model of the diagnostic classes on a whole configuration.
   Sections of a request are separated by the token "|".  Only text <-> datatype conversion here. *)
open Model
open Mr

let nats l = List.map nat_of_int (ints l)
let zs l = List.map z_of_int (ints l)
let kind_of = function
  | "l2" -> DgL2 | "l1" -> DgL1 | "n" -> DgN | "ke" -> DgKE | s -> failwith ("kind " ^ s)
let show_z z = string_of_int (int_of_z z)
let show_oz = function None -> "inf" | Some z -> show_z z
let show_nats l = String.concat "," (List.map (fun n -> string_of_int (int_of_nat n)) l)
let rec pairs_of = function
  | [] -> [] | a :: b :: r -> (nat_of_int a, nat_of_int b) :: pairs_of r | _ -> failwith "odd pairs"
let cfg n world sel dims etas re im =
  { dg_N = nats n; dg_world = nats world; dg_sel = nats sel; dg_dims = nats dims;
    dg_etas = List.map zs etas; dg_re = zs re; dg_im = zs im }

let () =
  (* dgsum KIND | N | world | sel | dims | re | im | eta0 | eta1 | ...  ->  locals = reduced serial denominator replication
     (?guard unless dg_wf and dg_link_ok, the hypotheses of c17_reduced_eq_serial, hold) *)
  register "dgsum" (fun t -> match split_on "|" t with
    | [k] :: n :: world :: sel :: dims :: re :: im :: etas ->
        let c = cfg n world sel dims etas re im in
        if not (dg_wf c && dg_link_ok c) then "?guard" else
        let k = kind_of k in
        String.concat " " (List.map show_z (dg_all k c)) ^ " = " ^ show_z (dg_reduced k c) ^ " "
          ^ show_z (dg_serial k c) ^ " " ^ show_z (dg_denominator k c) ^ " " ^ string_of_int (int_of_nat (dg_replication c))
    | _ -> "?args");
  (* dgext min|max | N | world | sel | dims | re | ax fix ax fix ...  ->  what every rank hands to reduce = reduced *)
  register "dgext" (fun t -> match split_on "|" t with
    | [[m]; n; world; sel; dims; re; pr] ->
        let c = cfg n world sel dims [] re [] in
        if not (dg_link_ok c) then "?guard" else
        let mx = (m = "max") in
        let pr = pairs_of (ints pr) in
        String.concat " " (List.map show_oz (dg_all_ext mx c pr)) ^ " = " ^ show_oz (dg_reduced_ext mx c pr)
    | _ -> "?args");
  (* dgcext min|max | N | world | sel | dims | re  ->  _f.min() of every rank = MIN-Reduce (the collector) *)
  register "dgcext" (fun t -> match split_on "|" t with
    | [[m]; n; world; sel; dims; re] ->
        let c = cfg n world sel dims [] re [] in
        if not (dg_link_ok c) then "?guard" else
        let mx = (m = "max") in
        String.concat " " (List.map (fun wc -> show_oz (dg_local_ext mx c wc)) (dg_coords c.dg_world))
          ^ " = " ^ show_oz (dg_collector_ext mx c)
    | _ -> "?args");
  (* dglay | N | world | sel | dims  ->  per rank starts:shape *)
  register "dglay" (fun t -> match split_on "|" t with
    | [[]; n; world; sel; dims] ->
        let c = cfg n world sel dims [] [] [] in
        String.concat " " (List.map (fun wc -> show_nats (dg_starts c wc) ^ ":" ^ show_nats (dg_shape c wc))
                             (dg_coords c.dg_world))
    | _ -> "?args");
  register "dgtrap2" (fun t -> String.concat " " (List.map show_z (dg_trap2 (zs t))));
  register "dgslot" (fun t -> match ints t with
    | [tt; dt; s] -> show_z (dg_slot (z_of_int tt) (z_of_int dt) (z_of_int s))
    | _ -> "?args");
  (* dgtable dt saveStep | t0 t1 ...  ->  per slot the number of the collect() call it holds, or - *)
  register "dgtable" (fun t -> match split_on "|" t with
    | [[dt; s]; ts] ->
        String.concat " " (List.map (function None -> "-" | Some n -> string_of_int (int_of_nat n))
                             (dg_table (z_of_int (int_of_string dt)) (z_of_int (int_of_string s)) (zs ts)))
    | _ -> "?args")
