(* C01 commands: one transpose step / a route of steps of the list-level model (payload = OCaml int).
   Lists separated by "|", layouts of a route by "/", per-rank buffers by ";" *)
open Model
open Mr

let nats toks = List.map (fun s -> nat_of_int (int_of_string s)) toks
let show_bufs bs = String.concat " ; " (List.map (fun b -> str_ints b) bs)

let parse_head toks =
  (* N | nprocs | cur | route(/-separated)  ;  bufs *)
  match split_on ";" toks with
  | head :: bufs ->
      (match split_on "|" head with
       | [n; np; cur; route] ->
           (nats n, nats np, nats cur, List.map nats (split_on "/" route), List.map ints bufs)
       | _ -> failwith "head")
  | _ -> failwith "args"

let () =
  (* rok N | nprocs | cur | l1 / l2 / ... : are all steps of the route acceptable to the theorem? *)
  register "rok" (fun t ->
    let (n, np, cur, route, _) = parse_head t in
    let d' = nat_of_int (List.length n - 1) in
    if route_ok_b n np d' cur route then "1" else "0");
  (* troute N | nprocs | cur | l1 / l2 / ... ; buf0 ; buf1 ; ...  ->  destination prefixes per rank *)
  register "troute" (fun t ->
    let (n, np, cur, route, bufs) = parse_head t in
    let d' = nat_of_int (List.length n - 1) in
    show_bufs (run_route (-1) n np d' cur route bufs))
