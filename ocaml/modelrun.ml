(* Line-oriented driver around the extracted Coq models (coq/extract/model.ml).
   One request per input line: <command> <space-separated integers>; one answer line each.
   Nothing here computes a result: it only converts between text and the extracted
   datatypes (nat, positive, Z stay the inductive types of the Coq standard library). *)
open Model

let rec pos_of_int n = if n = 1 then XH else if n land 1 = 0 then XO (pos_of_int (n lsr 1)) else XI (pos_of_int (n lsr 1))
let z_of_int n = if n = 0 then Z0 else if n > 0 then Zpos (pos_of_int n) else Zneg (pos_of_int (-n))
let rec int_of_pos = function XH -> 1 | XO p -> 2 * int_of_pos p | XI p -> 2 * int_of_pos p + 1
let int_of_z = function Z0 -> 0 | Zpos p -> int_of_pos p | Zneg p -> - (int_of_pos p)
let rec nat_of_int n = if n <= 0 then O else S (nat_of_int (n - 1))
let rec int_of_nat = function O -> 0 | S n -> 1 + int_of_nat n

let ints_of_line toks = List.map int_of_string toks
let str_ints l = String.concat " " (List.map string_of_int l)

(* Python: max_proc/nprocs evaluated in binary64, ratio = max/min, new_ratio < ratio *)
let better_float m1 m2 new1 new2 n1 n2 =
  let r a b = let d1 = float_of_int m1 /. float_of_int a and d2 = float_of_int m2 /. float_of_int b in
    (if d1 < d2 then d2 else d1) /. (if d2 < d1 then d2 else d1) in
  r (int_of_z new1) (int_of_z new2) < r (int_of_z n1) (int_of_z n2)

let show_res = function
  | Ok (a, b) -> Printf.sprintf "ok %d %d" (int_of_z a) (int_of_z b)
  | Err -> "err"
  | OOF -> "oof"

let handle cmd args =
  match cmd, args with
  | "pg", [mpi; m1; m2] ->
      show_res (compute (z_of_int mpi) (z_of_int m1) (z_of_int m2) (better_float m1 m2))
  | "pgx", [mpi; m1; m2] ->
      show_res (compute (z_of_int mpi) (z_of_int m1) (z_of_int m2) (better_exact (z_of_int m1) (z_of_int m2)))
  | "starts", [n; p] ->
      str_ints (List.map int_of_nat (starts_table (nat_of_int n) (nat_of_int p)))
  | "bmax", [n; p] -> string_of_int (int_of_nat (bmax (nat_of_int n) (nat_of_int p)))
  | "owner", [n; p; g] -> string_of_int (int_of_nat (owner (nat_of_int n) (nat_of_int p) (nat_of_int g)))
  | _ -> "?bad-request"

let () =
  try
    while true do
      let line = input_line stdin in
      match String.split_on_char ' ' (String.trim line) with
      | [] | [""] -> print_endline ""
      | cmd :: rest ->
          let out = (try handle cmd (ints_of_line (List.filter (fun s -> s <> "") rest))
                     with e -> "?exn " ^ Printexc.to_string e) in
          print_endline out
    done
  with End_of_file -> ()
