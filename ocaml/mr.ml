(* Shared plumbing of the model driver: conversions between text and the extracted datatypes,
   and the command registry.  Nothing here computes a model result. *)
open Model

let rec pos_of_int n = if n = 1 then XH else if n land 1 = 0 then XO (pos_of_int (n lsr 1)) else XI (pos_of_int (n lsr 1))
let z_of_int n = if n = 0 then Z0 else if n > 0 then Zpos (pos_of_int n) else Zneg (pos_of_int (-n))
let rec int_of_pos = function XH -> 1 | XO p -> 2 * int_of_pos p | XI p -> 2 * int_of_pos p + 1
let int_of_z = function Z0 -> 0 | Zpos p -> int_of_pos p | Zneg p -> - (int_of_pos p)
let rec nat_of_int n = if n <= 0 then O else S (nat_of_int (n - 1))
let int_of_nat n = let rec go acc = function O -> acc | S m -> go (acc + 1) m in go 0 n

(* arbitrary-size integers travel as hexadecimal: [-]hhhh *)
let hexval c = match c with
  | '0'..'9' -> Char.code c - 48 | 'a'..'f' -> Char.code c - 87 | 'A'..'F' -> Char.code c - 55
  | _ -> failwith "hex digit"
let pos_of_hex s =
  (* most significant digit first *)
  let bits = Buffer.create (4 * String.length s) in
  String.iter (fun c -> let v = hexval c in
    for k = 3 downto 0 do Buffer.add_char bits (if (v lsr k) land 1 = 1 then '1' else '0') done) s;
  let b = Buffer.contents bits in
  let n = String.length b in
  let i = ref 0 in
  while !i < n && b.[!i] = '0' do incr i done;
  if !i >= n then failwith "pos_of_hex: zero";
  let p = ref XH in
  for j = !i + 1 to n - 1 do p := (if b.[j] = '1' then XI !p else XO !p) done;
  !p
let z_of_hex s =
  let neg = String.length s > 0 && s.[0] = '-' in
  let body = if neg then String.sub s 1 (String.length s - 1) else s in
  let allzero = ref true in String.iter (fun c -> if c <> '0' then allzero := false) body;
  if !allzero then Z0 else if neg then Zneg (pos_of_hex body) else Zpos (pos_of_hex body)
let hex_of_pos p =
  let rec bits acc = function XH -> 1 :: acc | XO q -> bits (0 :: acc) q | XI q -> bits (1 :: acc) q in
  (* bits p gives most significant first when accumulated this way? build lsb-first list then reverse *)
  let rec lsb = function XH -> [1] | XO q -> 0 :: lsb q | XI q -> 1 :: lsb q in
  ignore bits;
  let l = lsb p in
  let rec nibbles = function
    | [] -> []
    | a :: b :: c :: d :: r -> (a + 2*b + 4*c + 8*d) :: nibbles r
    | l -> let rec pad l = if List.length l < 4 then pad (l @ [0]) else l in nibbles (pad l) in
  let ns = List.rev (nibbles l) in
  let s = String.concat "" (List.map (Printf.sprintf "%x") ns) in
  (* strip leading zeros *)
  let n = String.length s in let i = ref 0 in
  while !i < n - 1 && s.[!i] = '0' do incr i done;
  String.sub s !i (n - !i)
let hex_of_z = function Z0 -> "0" | Zpos p -> hex_of_pos p | Zneg p -> "-" ^ hex_of_pos p

let ints toks = List.map int_of_string toks
let str_ints l = String.concat " " (List.map string_of_int l)

(* split a token list on a separator token *)
let split_on sep toks =
  let rec go cur acc = function
    | [] -> List.rev (List.rev cur :: acc)
    | t :: r when t = sep -> go [] (List.rev cur :: acc) r
    | t :: r -> go (t :: cur) acc r in
  go [] [] toks

let registry : (string, string list -> string) Hashtbl.t = Hashtbl.create 64
let register name f = Hashtbl.replace registry name f
