(* One request per input line: <command> <tokens>; one answer line each. *)
let () =
  try
    while true do
      let line = input_line stdin in
      match List.filter (fun s -> s <> "") (String.split_on_char ' ' (String.trim line)) with
      | [] -> print_endline ""
      | cmd :: rest ->
          let out =
            (match Hashtbl.find_opt Mr.registry cmd with
             | None -> "?bad-request " ^ cmd
             | Some f -> (try f rest with e -> "?exn " ^ Printexc.to_string e)) in
          print_endline out
    done
  with End_of_file -> ()
