(* Extraction of the executable models.  ExtrOcamlBasic only: bool, option, unit, list,
   prod, sumbool, sumor map to OCaml's; nat, positive, Z, Qc stay inductive. *)
From Coq Require Extraction.
From Coq Require Import ExtrOcamlBasic.
From PGV Require Import Blocks ProcGrid.
Extraction Language OCaml.
Extraction "model.ml"
  Blocks.bstart Blocks.blen Blocks.bmax Blocks.owner Blocks.starts_table
  ProcGrid.compute ProcGrid.better_exact.
