(** C04 — Grid layout changes and save/restore behave like a single global array.
    [cstep] is the concrete state machine of pygyro.model.grid.Grid (two or three physical buffers,
    rotating indices, notSaved flag, savedLayout), with the transposes entering through the contract
    proved in C01/C03; [astep] is one undistributed array with an optional saved copy. *)
From Coq Require Import List Arith Bool.
Import ListNotations.
From PGV Require Import GridSM.

(** for every operation history (with and without save memory), refusals included, the final state
    refines the single-array specification *)
Theorem c04_grid_refines : forall (field layout : Type) (hasSave : bool) (dfield : field) os s a,
  R field layout hasSave s a ->
  snd (crun field layout hasSave dfield s os) = snd (arun field layout hasSave a os) /\
  R field layout hasSave (fst (crun field layout hasSave dfield s os)) (fst (arun field layout hasSave a os)).
Proof. exact grid_refines. Qed.
Print Assumptions c04_grid_refines.

(** after every operation of every history from the initial fill, the outcome (done / refused), the
    current layout and the field visible through the grid are those of the single array *)
Theorem c04_observations_refine : forall (field layout : Type) (hasSave : bool) (dfield g0 : field) (l0 : layout) os,
  ctrace field layout hasSave dfield (cinit field layout g0 l0) os
  = atrace field layout hasSave (ainit field layout g0 l0) os.
Proof. exact grid_refines_from_init. Qed.
Print Assumptions c04_observations_refine.

(** restore brings back exactly the field and layout present at save time, whatever layout changes and
    writes intervene (a held save is never clobbered) *)
Theorem c04_save_restore_exact : forall (field layout : Type) (hasSave : bool) (g0 : field) (l0 : layout)
  (os1 os2 : list (op field layout)) (a1 : ast field layout),
  fst (arun field layout hasSave (ainit field layout g0 l0) os1) = a1 ->
  asaved field layout a1 = None -> hasSave = true ->
  Forall (fun o => match o with SetLayout _ _ _ | Write _ _ _ => True | _ => False end) os2 ->
  aobs field layout (fst (astep field layout hasSave
      (fst (arun field layout hasSave (fst (astep field layout hasSave a1 (Save field layout))) os2))
      (Restore field layout))) = aobs field layout a1.
Proof. exact save_restore_exact. Qed.
Print Assumptions c04_save_restore_exact.

(** non-vacuity: save; change layout twice; write; restore — on the concrete machine *)
Example c04_example :
  ctrace nat nat true 0 (cinit nat nat 7 0)
    [Save nat nat; SetLayout nat nat 1; SetLayout nat nat 2; Write nat nat 9; Save nat nat; Restore nat nat; Restore nat nat]
  = [(Done, (0, Some 7)); (Done, (1, Some 7)); (Done, (2, Some 7)); (Done, (2, Some 9)); (Refused, (2, Some 9));
     (Done, (0, Some 7)); (Refused, (0, Some 7))].
Proof. vm_compute. reflexivity. Qed.
