(** C09 - spline quadrature weights integrate the interpolant (get_quadrature_coefficients of
    spline_interpolators.py, BSplines._build_integrals of splines.py).
    Only statements, [exact]s and [Print Assumptions]; proofs in InterpTheory.v, QuadTheory.v, GrevilleTheory.v, QuadSumTheory.v, CirculantTheory.v, CubicQuadTheory.v, UniformPeriodicTheory.v, UniformIntegralTheory.v (model: InterpModel.v; seeds:
    Sums.weights_dual, CoxDeBoorGen.basis_eq_delta) and InterpQc.v (Qc instance, witnesses).  Every theorem holds for every field with a
    compatible decidable total order, every degree and size.

    Model: [ip_integrals] is _build_integrals as written (general branch: degree-raised basis on the knots
    extended by one at both ends, max/min with the domain, sum(values[min_idx:]), for ALL ncells + d unwrapped
    pieces - repair 38b0bf4, the pinned tree mirrored the last d; uniform-cubic branch with its three edge cuts step_i = dx*sum(values[:3-i]) SUBTRACTED at i and -i-1
    from integrals[:] = dx - repair 974ae9f); [ip_quad_from ... I] is get_quadrature_coefficients for the integrals I (transposed solve;
    periodic folding basis_quads[:p] += integrals[n:] = [ip_quad_rhs]); [ip_quadrature] composes them.

    NOT proved here (see the evidence, "uncovered_clauses"):
    - that (t_{j+p+1} - t_j)/(p+1) IS the integral of B_j (classical identity, cited) - the harness integrates
      every basis function piecewise exactly, independently of the model;
    [c09_quadrature_periodic_nonuniform_ok] is the instance that failed on the pinned tree (defect 6, repaired by 38b0bf4);
    the general statement is [c09_weights_sum_general].

    Nothing is refuted any more: the three defects of the pinned tree (DESIGN section 9: 6, 7, 10) are repaired in /repo
    (38b0bf4, 974ae9f, 6a5dc09), the model follows the repaired code and the former witnesses are positive examples
    ([c09_quadrature_periodic_nonuniform_ok], [c09_integrals_cubic_clamped_small_ok]). *)
From Coq Require Import List Arith Lia ZArith Bool QArith Qcanon.
Import ListNotations.
From PGV Require Import BasisCoxDeBoor CoxDeBoorGen FindSpan CubicUniform CollocRow Sums SplineModel SplineTheory SplineQc InterpModel InterpTheory Interp2D QuadTheory GrevilleTheory QuadSumTheory CirculantTheory CubicQuadTheory MarsdenTheory EndValueTheory UniformPeriodicTheory UniformIntegralTheory InterpQc.

(** the weights solve the TRANSPOSED collocation system C^T w = q, q = integrals (clamped) or the folded integrals (periodic) *)
Theorem c09_quad_from_spec :
  forall (F : Type) (K : sp_ops F),
  sp_laws K ->
  forall (knots : list F) (degree : nat) (periodic cubic : bool) (xs I w : list F),
  ip_quad_from F K knots degree periodic cubic xs I = SpOk w ->
  let nb := ip_nbasis F K knots degree periodic cubic in
  length w = nb /\
  (exists A : list (list F),
  ip_colloc F K nb knots degree periodic cubic xs = SpOk A /\
  (forall j : nat,
  (j < nb)%nat ->
  ip_sum F K nb (fun i : nat => spmul K (ip_mget F K A i j) (nth i w (sp0 K))) =
  nth j (ip_quad_rhs F K nb degree periodic I) (sp0 K))).
Proof. exact (@ip_quad_from_spec). Qed.
Print Assumptions c09_quad_from_spec.

(** HEADLINE: for ANY data u, sum_i w_i u_i = sum_j q_j c_j where c are the coefficients of the interpolant of u (no hypothesis on the space beyond success of the two calls) *)
Theorem c09_quadrature_integrates_interpolant :
  forall (F : Type) (K : sp_ops F),
  sp_laws K ->
  forall (knots : list F) (degree : nat) (periodic cubic : bool) (xs I w u c : list F),
  ip_quad_from F K knots degree periodic cubic xs I = SpOk w ->
  ip_interp1d F K knots degree periodic cubic xs u = SpOk c ->
  let nb := ip_nbasis F K knots degree periodic cubic in
  ip_sum F K nb (fun i : nat => spmul K (nth i w (sp0 K)) (nth i u (sp0 K))) =
  ip_sum F K nb
  (fun j : nat => spmul K (nth j (ip_quad_rhs F K nb degree periodic I) (sp0 K)) (nth j c (sp0 K))).
Proof. exact (@ip_quadrature_dual). Qed.
Print Assumptions c09_quadrature_integrates_interpolant.

(** periodic spaces: the folded right-hand side against the first n coefficients is the sum over ALL ncells + p stored integrals against the wrapped coefficient array (c[n+j] = c[j] by c08_wrap_consistent) *)
Theorem c09_quadrature_all_integrals :
  forall (F : Type) (K : sp_ops F),
  sp_laws K ->
  forall (n degree : nat) (I c : list F),
  (degree <= n)%nat ->
  (forall j : nat, (j < degree)%nat -> nth (n + j) c (sp0 K) = nth j c (sp0 K)) ->
  ip_sum F K n
  (fun j : nat => spmul K (nth j (ip_quad_rhs F K n degree true I) (sp0 K)) (nth j c (sp0 K))) =
  ip_sum F K (n + degree) (fun j : nat => spmul K (nth j I (sp0 K)) (nth j c (sp0 K))).
Proof. exact (@ip_quad_rhs_unfold). Qed.
Print Assumptions c09_quadrature_all_integrals.

(** the weights sum to the sum of the basis integrals whenever the rows of the collocation matrix sum to one *)
Theorem c09_weights_sum :
  forall (F : Type) (K : sp_ops F),
  sp_laws K ->
  forall (knots : list F) (degree : nat) (periodic cubic : bool) (xs I w : list F) (A : list (list F)),
  let nb := ip_nbasis F K knots degree periodic cubic in
  ip_quad_from F K knots degree periodic cubic xs I = SpOk w ->
  ip_colloc F K nb knots degree periodic cubic xs = SpOk A ->
  ip_rows_sum_one F K nb A ->
  ip_sum F K nb (fun i : nat => nth i w (sp0 K)) =
  ip_sum F K nb (fun j : nat => nth j (ip_quad_rhs F K nb degree periodic I) (sp0 K)).
Proof. exact (@ip_weights_sum). Qed.
Print Assumptions c09_weights_sum.

(** rows sum to one: uniform-cubic path, any points *)
Theorem c09_rows_sum_one_cubic :
  forall (F : Type) (K : sp_ops F),
  sp_laws K ->
  forall (knots : list F) (degree : nat) (periodic : bool) (xs : list F) (A : list (list F)),
  let nb := ip_nbasis F K knots degree periodic true in
  ip_colloc F K nb knots degree periodic true xs = SpOk A ->
  length xs = nb -> degree = 3%nat -> ip_rows_sum_one F K nb A.
Proof. exact (@ip_rows_sum_one_cubic). Qed.
Print Assumptions c09_rows_sum_one_cubic.

(** rows sum to one: general path, points in the closed domain of a sorted knot vector *)
Theorem c09_rows_sum_one_nu :
  forall (F : Type) (K : sp_ops F),
  sp_laws K ->
  forall (knots : list F) (degree : nat) (periodic : bool) (xs : list F) (A : list (list F)),
  let nb := ip_nbasis F K knots degree periodic false in
  ip_colloc F K nb knots degree periodic false xs = SpOk A ->
  length xs = nb ->
  sp_sorted F K knots ->
  (2 * degree + 1 < length knots)%nat ->
  sp_lt K (sp_kn F K knots degree) (sp_kn F K knots (S degree)) ->
  sp_lt K (sp_kn F K knots (length knots - degree - 2)) (sp_kn F K knots (length knots - 1 - degree)) ->
  (forall i : nat,
  (i < nb)%nat ->
  sp_le K (sp_kn F K knots degree) (nth i xs (sp0 K)) /\
  sp_le K (nth i xs (sp0 K)) (sp_kn F K knots (length knots - 1 - degree))) ->
  ip_rows_sum_one F K nb A.
Proof. exact (@ip_rows_sum_one_nu). Qed.
Print Assumptions c09_rows_sum_one_nu.

(** integral_formula_clamped: on a clamped space (knots as make_knots builds them: [ip_clamped]) the degree-raised evaluation of _build_integrals - nu_find_span / nu_basis_funs of degree p+1 on the extended knots at max(a, t_i) and min(b, t_{i+p+1}), sum(values[min_idx:]) - returns (t_{i+p+1} - t_i)/(p+1) for EVERY basis function (cumulated value 0 at the lower bound: last value of A2.2 at a knot / clamped left end values; 1 at the upper bound: partition of unity / clamped right end values) *)
Theorem c09_integral_formula_clamped :
  forall (F : Type) (K : sp_ops F),
  sp_laws K ->
  forall (knots : list F) (d i : nat),
  ip_clamped F K knots d ->
  (i < length knots - d - 1)%nat ->
  ip_integral_general F K knots (ip_kx F K knots) d i =
  SpOk
  (spmul K (spsub K (sp_kn F K knots (i + d + 1)) (sp_kn F K knots i))
  (spdiv K (sp1 K) (sp_ofnat F K (S d)))).
Proof. exact (@ip_integral_clamped). Qed.
Print Assumptions c09_integral_formula_clamped.

(** hence BSplines.integrals of a clamped general space is the list of (t_{i+p+1} - t_i)/(p+1) *)
Theorem c09_integrals_clamped :
  forall (F : Type) (K : sp_ops F),
  sp_laws K ->
  forall (knots : list F) (d : nat),
  ip_clamped F K knots d ->
  ip_space_ok F K knots d false false = true ->
  ip_integrals F K knots d false false =
  SpOk
  (map
  (fun i : nat =>
  spmul K (spsub K (sp_kn F K knots (i + d + 1)) (sp_kn F K knots i))
  (spdiv K (sp1 K) (sp_ofnat F K (S d)))) (seq 0 (length knots - d - 1))).
Proof. exact (@ip_integrals_clamped). Qed.
Print Assumptions c09_integrals_clamped.

(** which sums (telescoping) to the length b - a of the domain *)
Theorem c09_integrals_clamped_sum :
  forall (F : Type) (K : sp_ops F),
  sp_laws K ->
  forall (knots : list F) (d : nat),
  ip_clamped F K knots d ->
  sumn F (sp0 K) (spadd K) (length knots - d - 1)
  (fun i : nat =>
  spmul K (spsub K (sp_kn F K knots (i + d + 1)) (sp_kn F K knots i))
  (spdiv K (sp1 K) (sp_ofnat F K (S d)))) =
  spsub K (sp_kn F K knots (length knots - 1 - d)) (sp_kn F K knots d).
Proof. exact (@ip_integrals_clamped_sum). Qed.
Print Assumptions c09_integrals_clamped_sum.

(** the quadrature weights of a clamped general space, for interpolation points in the domain, sum to the length of the domain *)
Theorem c09_weights_sum_clamped :
  forall (F : Type) (K : sp_ops F),
  sp_laws K ->
  forall (knots : list F) (d : nat) (xs w : list F),
  ip_clamped F K knots d ->
  ip_quadrature F K knots d false false xs = SpOk w ->
  (forall i : nat,
  (i < ip_nbasis F K knots d false false)%nat ->
  sp_le K (sp_kn F K knots d) (nth i xs (sp0 K)) /\
  sp_le K (nth i xs (sp0 K)) (sp_kn F K knots (length knots - 1 - d))) ->
  ip_sum F K (ip_nbasis F K knots d false false) (fun i : nat => nth i w (sp0 K)) =
  spsub K (sp_kn F K knots (length knots - 1 - d)) (sp_kn F K knots d).
Proof. exact (@ip_weights_sum_clamped). Qed.
Print Assumptions c09_weights_sum_clamped.

(** every stored integral of the general branch (clamped or periodic, breakpoints strictly increasing: [ip_simple_breaks]) is c_i (u_i - l_i) with c_i = (t_{i+p+1} - t_i)/(p+1), l_i / u_i = the sums over k > i of the degree p+1 basis values at a / at b (windows [ip_Va], [ip_Vb]) *)
Theorem c09_piece :
  forall (F : Type) (K : sp_ops F),
  sp_laws K ->
  forall (knots : list F) (d : nat),
  ip_simple_breaks F K knots d ->
  forall i : nat,
  (i < length knots - d - 1)%nat ->
  ip_integral_general F K knots (ip_kx F K knots) d i =
  SpOk
  (spmul K
  (spmul K (spsub K (sp_kn F K knots (i + d + 1)) (sp_kn F K knots i))
  (spdiv K (sp1 K) (sp_ofnat F K (S d))))
  (spsub K
  (sumn F (sp0 K) (spadd K) (S (S d))
  (fun q : nat =>
  if (i + 2 + 2 * d + 1 - length knots <=? q)%nat then ip_Vb F K knots d q else sp0 K))
  (sumn F (sp0 K) (spadd K) (S (S d))
  (fun q : nat => if (S i <=? q)%nat then ip_Va F K knots d q else sp0 K)))).
Proof. exact (@ip_piece). Qed.
Print Assumptions c09_piece.

(** summation by parts + the Greville identity of degree p+1 at both ends: the pieces sum to b - a *)
Theorem c09_pieces_sum :
  forall (F : Type) (K : sp_ops F),
  sp_laws K ->
  forall (knots : list F) (d : nat),
  ip_simple_breaks F K knots d ->
  sumn F (sp0 K) (spadd K) (length knots - d - 1)
  (fun i : nat =>
  spmul K
  (spmul K (spsub K (sp_kn F K knots (i + d + 1)) (sp_kn F K knots i))
  (spdiv K (sp1 K) (sp_ofnat F K (S d))))
  (spsub K
  (sumn F (sp0 K) (spadd K) (S (S d))
  (fun q : nat =>
  if (i + 2 + 2 * d + 1 - length knots <=? q)%nat then ip_Vb F K knots d q else sp0 K))
  (sumn F (sp0 K) (spadd K) (S (S d))
  (fun q : nat => if (S i <=? q)%nat then ip_Va F K knots d q else sp0 K)))) =
  spsub K (sp_kn F K knots (length knots - 1 - d)) (sp_kn F K knots d).
Proof. exact (@ip_pieces_sum). Qed.
Print Assumptions c09_pieces_sum.

(** BSplines.integrals of EVERY general space - clamped or periodic (repaired code: all ncells + p pieces), uniform or not - has ncells + p entries that sum to the length of the domain *)
Theorem c09_integrals_general_sum :
  forall (F : Type) (K : sp_ops F),
  sp_laws K ->
  forall (knots : list F) (d : nat) (periodic : bool) (Il : list F),
  ip_simple_breaks F K knots d ->
  ip_integrals F K knots d periodic false = SpOk Il ->
  length Il = (length knots - d - 1)%nat /\
  sumn F (sp0 K) (spadd K) (length knots - d - 1) (fun j : nat => nth j Il (sp0 K)) =
  spsub K (sp_kn F K knots (length knots - 1 - d)) (sp_kn F K knots d).
Proof. exact (@ip_integrals_general_sum). Qed.
Print Assumptions c09_integrals_general_sum.

(** GENERAL: the quadrature weights of every general space, clamped or periodic, for interpolation points in the domain, sum to the length of the domain (= the period) *)
Theorem c09_weights_sum_general :
  forall (F : Type) (K : sp_ops F),
  sp_laws K ->
  forall (knots : list F) (d : nat) (periodic : bool) (xs w : list F),
  ip_simple_breaks F K knots d ->
  ip_quadrature F K knots d periodic false xs = SpOk w ->
  (forall i : nat,
  (i < ip_nbasis F K knots d periodic false)%nat ->
  sp_le K (sp_kn F K knots d) (nth i xs (sp0 K)) /\
  sp_le K (nth i xs (sp0 K)) (sp_kn F K knots (length knots - 1 - d))) ->
  ip_sum F K (ip_nbasis F K knots d periodic false) (fun i : nat => nth i w (sp0 K)) =
  spsub K (sp_kn F K knots (length knots - 1 - d)) (sp_kn F K knots d).
Proof. exact (@ip_weights_sum_general). Qed.
Print Assumptions c09_weights_sum_general.

(** a collocation matrix whose rows are shifted copies of the same basis vector (uniform periodic space) has columns that sum to the sum of the basis values *)
Theorem c09_cols_sum_circulant :
  forall (F : Type) (K : sp_ops F),
  sp_laws K ->
  forall (n d sigma : nat) (b : list F) (A : list (list F)),
  (1 <= n)%nat ->
  (d <= sigma)%nat ->
  (forall i : nat, (i < n)%nat -> nth i A [] = ip_row_of F K n d (i + sigma) true b) ->
  forall k : nat,
  (k < n)%nat ->
  ip_sum F K n (fun i : nat => ip_mget F K A i k) =
  sumn F (sp0 K) (spadd K) (S d) (fun j : nat => nth j b (sp0 K)).
Proof. exact (@ip_cols_sum_circulant). Qed.
Print Assumptions c09_cols_sum_circulant.

(** uniform_periodic_equal on the uniform-cubic path: knots (xmin, xmax, dx, n), points x_i = xmin + i dx, int() = floor on non-negative numbers ([sp_trunc_ok], proved for the Qc instance in AdvQc.advq_trunc_ok): every weight is dx, the only per-instance hypothesis being the checked inverse *)
Theorem c09_weights_equal_cubic :
  forall (F : Type) (K : sp_ops F),
  sp_laws K ->
  forall (xmin xmax dx fn : F) (n : nat) (xs w : list F) (A Ainv : list (list F)),
  let knots := [xmin; xmax; dx; fn] in
  sp_trunc_ok F K ->
  dx <> sp0 K ->
  sptrunc K fn = Z.of_nat n ->
  xs = map (fun i : nat => spadd K xmin (spmul K (sp_ofnat F K i) dx)) (seq 0 n) ->
  ip_quadrature F K knots 3 true true xs = SpOk w ->
  ip_colloc F K n knots 3 true true xs = SpOk A ->
  ip_inverse_ok F K n A Ainv = true -> forall i : nat, (i < n)%nat -> nth i w (sp0 K) = dx.
Proof. exact (@ip_weights_equal_cubic). Qed.
Print Assumptions c09_weights_equal_cubic.

(** Algorithm A2.2 depends on the knots and on x only through left[k] = x - t_{s-k} and right[k] = t_{s+1+k} - x, k < p (translation invariance) *)
Theorem c09_A22_ext :
  forall (F : Type) (K : sp_ops F) (knots knots' : list F) (p : nat) (x x' : F) (s s' : nat),
  (forall i : nat,
  (i < p)%nat ->
  spsub K (sp_kn F K knots (s + 1 + i)) x = spsub K (sp_kn F K knots' (s' + 1 + i)) x' /\
  spsub K x (sp_kn F K knots (s - i)) = spsub K x' (sp_kn F K knots' (s' - i))) ->
  sp_A22 F K knots p x s = sp_A22 F K knots' p x' s'.
Proof. exact (@ip_A22_ext). Qed.
Print Assumptions c09_A22_ext.

(** exactly uniform knots t_j = t_0 + j dx, points x_i = x_0 + i dx with x_0 in the first cell: the i-th point has span p + i and the basis values of the first point *)
Theorem c09_unif_span_basis :
  forall (F : Type) (K : sp_ops F),
  sp_laws K ->
  forall (knots : list F) (p : nat) (t0 dx x0 : F),
  sp_lt K (sp0 K) dx ->
  (2 * p + 1 < length knots)%nat ->
  (forall j : nat,
  (j < length knots)%nat -> sp_kn F K knots j = spadd K t0 (spmul K (sp_ofnat F K j) dx)) ->
  sp_le K (sp_kn F K knots p) x0 /\ ~ sp_le K (sp_kn F K knots (S p)) x0 ->
  forall i : nat,
  (i < length knots - 2 * p - 1)%nat ->
  sp_nu_find_span F K knots p (spadd K x0 (spmul K (sp_ofnat F K i) dx)) = SpOk (p + i)%nat /\
  sp_A22 F K knots p (spadd K x0 (spmul K (sp_ofnat F K i) dx)) (p + i) = sp_A22 F K knots p x0 p.
Proof. exact (@ip_unif_span_basis). Qed.
Print Assumptions c09_unif_span_basis.

(** hence the collocation matrix of a uniform periodic space of ANY degree (general path) is circulant and its columns sum to one *)
Theorem c09_cols_sum_one_uniform :
  forall (F : Type) (K : sp_ops F),
  sp_laws K ->
  forall (knots : list F) (p : nat) (t0 dx x0 : F),
  sp_lt K (sp0 K) dx ->
  (2 * p + 1 < length knots)%nat ->
  (forall j : nat,
  (j < length knots)%nat -> sp_kn F K knots j = spadd K t0 (spmul K (sp_ofnat F K j) dx)) ->
  sp_le K (sp_kn F K knots p) x0 /\ ~ sp_le K (sp_kn F K knots (S p)) x0 ->
  forall A : list (list F),
  ip_colloc F K (length knots - 2 * p - 1) knots p true false
  (map (fun i : nat => spadd K x0 (spmul K (sp_ofnat F K i) dx)) (seq 0 (length knots - 2 * p - 1))) =
  SpOk A ->
  forall k : nat,
  (k < length knots - 2 * p - 1)%nat ->
  ip_sum F K (length knots - 2 * p - 1) (fun i : nat => ip_mget F K A i k) = sp1 K.
Proof. exact (@ip_cols_sum_one_uniform). Qed.
Print Assumptions c09_cols_sum_one_uniform.

(** uniform_periodic_equal, general path, any degree: every weight is dx as soon as the folded integrals are all dx and the collocation matrix has a checked inverse (the column hypothesis of c09_weights_equal_cert is discharged) *)
Theorem c09_weights_equal_uniform :
  forall (F : Type) (K : sp_ops F),
  sp_laws K ->
  forall (knots : list F) (p : nat) (t0 dx x0 : F),
  sp_lt K (sp0 K) dx ->
  (2 * p + 1 < length knots)%nat ->
  (forall j : nat,
  (j < length knots)%nat -> sp_kn F K knots j = spadd K t0 (spmul K (sp_ofnat F K j) dx)) ->
  sp_le K (sp_kn F K knots p) x0 /\ ~ sp_le K (sp_kn F K knots (S p)) x0 ->
  forall (Il w : list F) (A Ainv : list (list F)) (dx' : F),
  ip_nbasis F K knots p true false = (length knots - 2 * p - 1)%nat ->
  ip_quad_from F K knots p true false
  (map (fun i : nat => spadd K x0 (spmul K (sp_ofnat F K i) dx)) (seq 0 (length knots - 2 * p - 1)))
  Il = SpOk w ->
  ip_colloc F K (length knots - 2 * p - 1) knots p true false
  (map (fun i : nat => spadd K x0 (spmul K (sp_ofnat F K i) dx)) (seq 0 (length knots - 2 * p - 1))) =
  SpOk A ->
  ip_inverse_ok F K (length knots - 2 * p - 1) A Ainv = true ->
  (forall j : nat,
  (j < length knots - 2 * p - 1)%nat ->
  nth j (ip_quad_rhs F K (length knots - 2 * p - 1) p true Il) (sp0 K) = dx') ->
  forall i : nat, (i < length knots - 2 * p - 1)%nat -> nth i w (sp0 K) = dx'.
Proof. exact (@ip_weights_equal_uniform). Qed.
Print Assumptions c09_weights_equal_uniform.

(** continuity across a simple knot: at x = t_{s+1} the Cox - de Boor triangles above the indicators of the spans s and s+1 agree from degree 1 on *)
Theorem c09_Nd_cont :
  forall (F : Type) (K : sp_ops F),
  sp_laws K ->
  forall (knots : list F) (s : nat),
  sp_lt K (sp_kn F K knots s) (sp_kn F K knots (S s)) ->
  sp_lt K (sp_kn F K knots (S s)) (sp_kn F K knots (S (S s))) ->
  forall k : nat,
  (1 <= k)%nat ->
  forall i : nat,
  Ng F (sp0 K) (spadd K) (spmul K) (spsub K) (spdiv K) (sp_kn F K knots) (sp_kn F K knots (S s))
  (speqb K) (delta F (sp0 K) (sp1 K) s) k i =
  Ng F (sp0 K) (spadd K) (spmul K) (spsub K) (spdiv K) (sp_kn F K knots) (sp_kn F K knots (S s))
  (speqb K) (delta F (sp0 K) (sp1 K) (S s)) k i.
Proof. exact (@ip_Nd_cont). Qed.
Print Assumptions c09_Nd_cont.

(** translation invariance of A2.2 at the left end of a span: the last right[] value does not matter there *)
Theorem c09_A22_ext_left_end :
  forall (F : Type) (K : sp_ops F),
  sp_laws K ->
  forall (knots knots' : list F) (d : nat) (x x' : F) (s s' : nat),
  (forall i : nat,
  (i < d)%nat ->
  spsub K (sp_kn F K knots (s + 1 + i)) x = spsub K (sp_kn F K knots' (s' + 1 + i)) x' /\
  spsub K x (sp_kn F K knots (s - i)) = spsub K x' (sp_kn F K knots' (s' - i))) ->
  spsub K x (sp_kn F K knots (s - d)) = spsub K x' (sp_kn F K knots' (s' - d)) ->
  spsub K x (sp_kn F K knots s) = sp0 K ->
  spsub K x' (sp_kn F K knots' s') = sp0 K ->
  spsub K (sp_kn F K knots (s + 1 + d)) x <> sp0 K ->
  spsub K (sp_kn F K knots' (s' + 1 + d)) x' <> sp0 K ->
  sp_A22 F K knots (S d) x s = sp_A22 F K knots' (S d) x' s'.
Proof. exact (@ip_A22_ext_left_end). Qed.
Print Assumptions c09_A22_ext_left_end.

(** exactly uniform periodic knots, any degree d >= 1 (repaired code): every folded integral integrals[j] + integrals[n+j] (j < d) is dx *)
Theorem c09_unif_folded :
  forall (F : Type) (K : sp_ops F),
  sp_laws K ->
  forall (knots : list F) (d : nat) (t0 dx : F),
  sp_lt K (sp0 K) dx ->
  (1 <= d)%nat ->
  (2 * d + 1 < length knots)%nat ->
  (forall j : nat,
  (j < length knots)%nat -> sp_kn F K knots j = spadd K t0 (spmul K (sp_ofnat F K j) dx)) ->
  (d <= length knots - 2 * d - 1)%nat ->
  forall Il : list F,
  ip_integrals F K knots d true false = SpOk Il ->
  forall j : nat,
  (j < length knots - 2 * d - 1)%nat ->
  nth j (ip_quad_rhs F K (length knots - 2 * d - 1) d true Il) (sp0 K) = dx.
Proof. exact (@ip_unif_folded). Qed.
Print Assumptions c09_unif_folded.

(** uniform_periodic_equal, general path, EVERY degree: knots t_j = t_0 + j dx, points x_i = x_0 + i dx with x_0 in the first cell: every quadrature weight is dx; the only per-instance hypothesis is the checked inverse of the collocation matrix *)
Theorem c09_weights_equal_uniform_periodic :
  forall (F : Type) (K : sp_ops F),
  sp_laws K ->
  forall (knots : list F) (d : nat) (t0 dx : F),
  sp_lt K (sp0 K) dx ->
  (1 <= d)%nat ->
  (2 * d + 1 < length knots)%nat ->
  (forall j : nat,
  (j < length knots)%nat -> sp_kn F K knots j = spadd K t0 (spmul K (sp_ofnat F K j) dx)) ->
  (d <= length knots - 2 * d - 1)%nat ->
  forall (x0 : F) (w : list F) (A Ainv : list (list F)),
  let xs :=
  map (fun i : nat => spadd K x0 (spmul K (sp_ofnat F K i) dx)) (seq 0 (length knots - 2 * d - 1))
  in
  sp_le K (sp_kn F K knots d) x0 ->
  ~ sp_le K (sp_kn F K knots (S d)) x0 ->
  ip_quadrature F K knots d true false xs = SpOk w ->
  ip_colloc F K (length knots - 2 * d - 1) knots d true false xs = SpOk A ->
  ip_inverse_ok F K (length knots - 2 * d - 1) A Ainv = true ->
  forall i : nat, (i < length knots - 2 * d - 1)%nat -> nth i w (sp0 K) = dx.
Proof. exact (@ip_weights_equal_uniform_periodic). Qed.
Print Assumptions c09_weights_equal_uniform_periodic.

(** uniform periodic spaces, certificate form: columns of C sum to one, folded integrals all dx, checked inverse  ==>  every weight is dx *)
Theorem c09_weights_equal_cert :
  forall (F : Type) (K : sp_ops F),
  sp_laws K ->
  forall (knots : list F) (degree : nat) (periodic cubic : bool) (xs I w : list F)
  (A Ainv : list (list F)) (dx : F),
  let nb := ip_nbasis F K knots degree periodic cubic in
  ip_quad_from F K knots degree periodic cubic xs I = SpOk w ->
  ip_colloc F K nb knots degree periodic cubic xs = SpOk A ->
  ip_inverse_ok F K nb A Ainv = true ->
  (forall j : nat, (j < nb)%nat -> ip_sum F K nb (fun i : nat => ip_mget F K A i j) = sp1 K) ->
  (forall j : nat, (j < nb)%nat -> nth j (ip_quad_rhs F K nb degree periodic I) (sp0 K) = dx) ->
  forall i : nat, (i < nb)%nat -> nth i w (sp0 K) = dx.
Proof. exact (@ip_weights_equal_cert). Qed.
Print Assumptions c09_weights_equal_cert.

(** periodic NON-UNIFORM instance on Qc (degree 1, breakpoints 0, 1, 3; failed on the pinned tree, defect 6): integrals (1/2, 3/2, 1), weights (3/2, 3/2) sum to the period 3 *)
Theorem c09_quadrature_periodic_nonuniform_ok :
  ip_space_ok Qc spq_ops ipq_w6_knots 1 true false = true /\
  match ip_quadrature Qc spq_ops ipq_w6_knots 1 true false ipq_w6_xs with
  | SpOk w =>
  map spq_show w = [(3, 2%positive); (3, 2%positive)] /\ spq_show (ipq_total w) = (3, 1%positive)
  | _ => False
  end /\
  spq_show (nth 3 ipq_w6_knots (Q2Qc 0) - nth 1 ipq_w6_knots (Q2Qc 0)) = (3, 1%positive) /\
  match ip_integrals Qc spq_ops ipq_w6_knots 1 true false with
  | SpOk ints => map spq_show ints = [(1, 2%positive); (3, 2%positive); (1, 1%positive)]
  | _ => False
  end.
Proof. exact (@ipq_quadrature_periodic_nonuniform_ok). Qed.
Print Assumptions c09_quadrature_periodic_nonuniform_ok.

(** uniform-cubic CLAMPED path (repaired code): for EVERY ncells >= 1 and dx > 0 the ncells + 3 stored integrals sum to ncells * dx (each cut lowers the total by step_i whatever the overlap; step_0 + step_1 + step_2 = 3 dx / 2 from the partition of unity, the Greville identity of degree 4 and the vanishing last value at a knot) *)
Theorem c09_integrals_cubic_clamped_sum :
  forall (F : Type) (K : sp_ops F),
  sp_laws K ->
  forall (xmin xmax dx fn : F) (n : nat),
  sp_lt K (sp0 K) dx ->
  sptrunc K fn = Z.of_nat n ->
  (1 <= n)%nat ->
  exists Il : list F,
  ip_integrals F K [xmin; xmax; dx; fn] 3 false true = SpOk Il /\
  length Il = (n + 3)%nat /\ sumF F (sp0 K) (spadd K) Il = spmul K (sp_ofnat F K n) dx.
Proof. exact (@ip_integrals_cubic_clamped_sum). Qed.
Print Assumptions c09_integrals_cubic_clamped_sum.

(** hence the quadrature weights of a uniform-cubic clamped space sum to ncells * dx (no certificate needed: rows sum to one on this path unconditionally) *)
Theorem c09_weights_sum_cubic_clamped :
  forall (F : Type) (K : sp_ops F),
  sp_laws K ->
  forall (xmin xmax dx fn : F) (n : nat) (xs w : list F),
  sp_lt K (sp0 K) dx ->
  sptrunc K fn = Z.of_nat n ->
  ip_quadrature F K [xmin; xmax; dx; fn] 3 false true xs = SpOk w ->
  ip_sum F K (n + 3) (fun i : nat => nth i w (sp0 K)) = spmul K (sp_ofnat F K n) dx.
Proof. exact (@ip_weights_sum_cubic_clamped). Qed.
Print Assumptions c09_weights_sum_cubic_clamped.

(** the instances that failed on the pinned tree (defect 7, repaired by 974ae9f), on Qc: 1 cell 1/24, 11/24, 11/24, 1/24 (sum 1); 2 cells 1/24, 1/2, 11/12, 1/2, 1/24 (sum 2); 3 cells sum 3 *)
Theorem c09_integrals_cubic_clamped_small_ok :
  match ip_integrals Qc spq_ops (ipq_z [0; 1; 1; 1]) 3 false true with
  | SpOk ints =>
  map spq_show ints = [(1, 24%positive); (11, 24%positive); (11, 24%positive); (1, 24%positive)] /\
  spq_show (ipq_total ints) = (1, 1%positive)
  | _ => False
  end /\
  match ip_integrals Qc spq_ops (ipq_z [0; 2; 1; 2]) 3 false true with
  | SpOk ints =>
  map spq_show ints =
  [(1, 24%positive); (1, 2%positive); (11, 12%positive); (1, 2%positive); (1, 24%positive)] /\
  spq_show (ipq_total ints) = (2, 1%positive)
  | _ => False
  end /\
  match ip_integrals Qc spq_ops (ipq_z [0; 3; 1; 3]) 3 false true with
  | SpOk ints =>
  map spq_show ints =
  [(1, 24%positive); (1, 2%positive); (23, 24%positive); (23, 24%positive); (
  1, 2%positive); (1, 24%positive)] /\ spq_show (ipq_total ints) = (3, 1%positive)
  | _ => False
  end.
Proof. exact (@ipq_integrals_cubic_clamped_small_ok). Qed.
Print Assumptions c09_integrals_cubic_clamped_small_ok.

(** the executed instance satisfies the laws *)
Theorem c09_qc_laws :
  sp_laws spq_ops.
Proof. exact (@spq_laws). Qed.
Print Assumptions c09_qc_laws.

(** non-vacuity on Qc: clamped non-uniform cubic space on [0,4]: the weights sum to 4 and the integrals are
    (t_{j+4} - t_j)/4 *)
Example c09_ex_quadrature :
  match ip_quadrature Qc spq_ops ipq_ex_knots 3 false false ipq_ex_xs with
  | SpOk w => spq_show (ipq_total w) = (4%Z, 1%positive)
  | _ => False
  end /\
  match ip_integrals Qc spq_ops ipq_ex_knots 3 false false with
  | SpOk ints => map spq_show ints = [(1%Z, 4%positive); (3%Z, 4%positive); (1%Z, 1%positive); (1%Z, 1%positive); (3%Z, 4%positive); (1%Z, 4%positive)]
  | _ => False
  end.
Proof. exact ipq_ex_quadrature. Qed.
