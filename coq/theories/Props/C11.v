(** C11 - v-parallel advection evaluates the interpolant at v - c*dt; boundary rule.
    Only statements, [exact]s and [Print Assumptions]; the proofs live in VParAdv.v.
    The model mirrors v_parallel_advection_eval_step (three boundary modes, strict comparisons
    v < vMin or v > vMax, the two while loops of the periodic mode with explicit fuel) and f_eq / n0 / Ti
    with exp, tanh, sqrt, pi as parameters.  [ev] is the spline of the old nodal values, [feq] is
    f_eq(rPos, .).

    NOT proved here: rounding; that the spline interpolates the nodal values (C08 - hypothesis of
    c11_zero_speed_id); the grid-level use of the parallel gradient as speed (C05). *)
From Coq Require Import List Arith Lia ZArith Bool QArith Qcanon.
Import ListNotations.
From PGV Require Import BasisCoxDeBoor FindSpan CubicUniform Sums SplineModel SplineTheory SplineQc
  InterpModel InterpTheory AdvCommon FluxAdv VParAdv ParGrad AdvInterp AdvQc.

(** what is written at a node whose foot is v: the interpolant at the foot when vMin <= v <= vMax (all three modes); outside: f_eq(r, foot) / 0 / the interpolant at a periodic image lying in [vMin, vMax] *)
Theorem c11_vpar_formula :
  forall (F : Type) (K : sp_ops F),
  sp_laws K ->
  forall (ev feq : F -> sp_res F) (bound : Z) (vMin vMax old v : F),
  (sp_le K vMin v /\ sp_le K v vMax ->
  bound = 0%Z \/ bound = 1%Z \/ bound = 2%Z -> vp_point F K ev feq bound vMin vMax old v = ev v) /\
  (sp_lt K v vMin \/ sp_lt K vMax v -> bound = 0%Z -> vp_point F K ev feq bound vMin vMax old v = feq v) /\
  (sp_lt K v vMin \/ sp_lt K vMax v -> bound = 1%Z -> vp_point F K ev feq bound vMin vMax old v = SpOk (sp0 K)) /\
  (adv_trunc_ok F K ->
  sp_lt K vMin vMax ->
  bound = 2%Z ->
  exists a b : nat,
  let w :=
  spsub K (spadd K v (spmul K (sp_ofnat F K a) (spsub K vMax vMin)))
  (spmul K (sp_ofnat F K b) (spsub K vMax vMin)) in
  sp_le K vMin w /\ sp_le K w vMax /\ vp_point F K ev feq bound vMin vMax old v = ev w).
Proof. exact vp_point_formula. Qed.
Print Assumptions c11_vpar_formula.

(** node i is written from foot vPts[i] only *)
Theorem c11_loop_spec :
  forall (F : Type) (K : sp_ops F) (ev feq : F -> sp_res F) (bound : Z) (vMin vMax : F) (f vPts g : list F),
  length f = length vPts ->
  length g = length vPts ->
  (forall i : nat,
  (i < length vPts)%nat ->
  vp_point F K ev feq bound vMin vMax (nth i f (sp0 K)) (nth i vPts (sp0 K)) = SpOk (nth i g (sp0 K))) ->
  vp_loop F K ev feq bound vMin vMax f vPts = SpOk g.
Proof. exact vp_loop_spec. Qed.
Print Assumptions c11_loop_spec.

(** for vMin < vMax the two while loops stop within floor(distance/width)+1 iterations each (the fuel the model computes), at a periodic image of the foot inside [vMin, vMax] *)
Theorem c11_periodic_wrap_terminates :
  forall (F : Type) (K : sp_ops F),
  sp_laws K ->
  forall v vMin vMax : F,
  adv_trunc_ok F K ->
  sp_lt K vMin vMax ->
  exists a b : nat,
  vp_wrap F K v vMin vMax =
  SpOk
  (spsub K (spadd K v (spmul K (sp_ofnat F K a) (spsub K vMax vMin)))
  (spmul K (sp_ofnat F K b) (spsub K vMax vMin))) /\
  sp_le K vMin
  (spsub K (spadd K v (spmul K (sp_ofnat F K a) (spsub K vMax vMin)))
  (spmul K (sp_ofnat F K b) (spsub K vMax vMin))) /\
  sp_le K
  (spsub K (spadd K v (spmul K (sp_ofnat F K a) (spsub K vMax vMin)))
  (spmul K (sp_ofnat F K b) (spsub K vMax vMin))) vMax.
Proof. exact vp_wrap_ok. Qed.
Print Assumptions c11_periodic_wrap_terminates.

(** stated guard: for vMax <= vMin the first loop never stops on a foot below vMin, whatever the fuel *)
Theorem c11_wrap_diverges_guard :
  forall (F : Type) (K : sp_ops F),
  sp_laws K ->
  forall vMin vMax : F,
  sp_le K vMax vMin ->
  forall (n : nat) (v : F), sp_lt K v vMin -> vp_up F K n v vMin (spsub K vMax vMin) = SpFuelErr.
Proof. exact vp_wrap_diverges. Qed.
Print Assumptions c11_wrap_diverges_guard.

(** zero speed (every foot is a node inside the interval) and exact interpolation: the step is the identity in every mode *)
Theorem c11_zero_speed_id :
  forall (F : Type) (K : sp_ops F),
  sp_laws K ->
  forall (ev feq : F -> sp_res F) (bound : Z) (vMin vMax : F) (f vPts : list F),
  bound = 0%Z \/ bound = 1%Z \/ bound = 2%Z ->
  length f = length vPts ->
  (forall i : nat, (i < length vPts)%nat -> sp_le K vMin (nth i vPts (sp0 K)) /\ sp_le K (nth i vPts (sp0 K)) vMax) ->
  (forall i : nat, (i < length vPts)%nat -> ev (nth i vPts (sp0 K)) = SpOk (nth i f (sp0 K))) ->
  vp_loop F K ev feq bound vMin vMax f vPts = SpOk f.
Proof. exact vp_zero_speed_id. Qed.
Print Assumptions c11_zero_speed_id.

(* ---- interpolate-then-operate: composed with C08 (AdvInterp.v) ---- *)

(** VParallelAdvection.step = compute_interpolant (C08: ip_interp1d) on the old nodal values, then the evaluation step; with c*dt = 0 the nodal values are returned unchanged in each of the three modes (no interpolation hypothesis left; [ip_spans_in_range] is vacuous on clamped spaces) *)
Theorem c11_interp_then_zero_speed_id :
  forall (F : Type) (K : sp_ops F),
  sp_laws K ->
  forall (cu : bool) (knots : list F) (deg : nat) (periodic : bool) (points f coeffs : list F)
  (dt c rPos CN0 kN0 dRN0 rp CTi kTi dRTi : F) (X : vp_ext F) (bound : Z),
  let nb := ip_nbasis F K knots deg periodic cu in
  bound = 0%Z \/ bound = 1%Z \/ bound = 2%Z ->
  spmul K c dt = sp0 K ->
  length points = nb ->
  length f = nb ->
  (0 < nb)%nat ->
  (forall i : nat,
  (i < nb)%nat ->
  sp_le K (nth 0 points (sp0 K)) (nth i points (sp0 K)) /\ sp_le K (nth i points (sp0 K)) (last points (sp0 K))) ->
  ip_spans_in_range F K knots deg periodic cu points ->
  ip_interp1d F K knots deg periodic cu points f = SpOk coeffs ->
  vp_step F K X f points dt c rPos knots deg coeffs CN0 kN0 dRN0 rp CTi kTi dRTi bound cu = SpOk f.
Proof. exact ai_vp_interp_then_zero_speed_id. Qed.
Print Assumptions c11_interp_then_zero_speed_id.

(** any shift: a node whose foot is again an interpolation point lying in [vMin, vMax] receives the old nodal value of that point.  This is the exact content of 'a shift by a whole number of uniform cells moves nodal values': it holds for the nodes of the uniform part of the grid; on a clamped cubic space the Greville points next to the ends (a + h/3, b - h/3) are off the lattice a + k*h, their feet are not nodes, so no whole-vector shift statement is true *)
Theorem c11_interp_then_foot_on_node :
  forall (F : Type) (K : sp_ops F),
  sp_laws K ->
  forall (cu : bool) (knots : list F) (deg : nat) (periodic : bool) (points u coeffs : list F)
  (feq : F -> sp_res F) (bound : Z) (vMin vMax : F) (f vPts g : list F) (i j : nat),
  let nb := ip_nbasis F K knots deg periodic cu in
  bound = 0%Z \/ bound = 1%Z \/ bound = 2%Z ->
  ip_spans_in_range F K knots deg periodic cu points ->
  ip_interp1d F K knots deg periodic cu points u = SpOk coeffs ->
  vp_loop F K (adv_ev F K cu knots deg coeffs) feq bound vMin vMax f vPts = SpOk g ->
  length f = length vPts ->
  (i < length vPts)%nat ->
  (j < nb)%nat ->
  nth i vPts (sp0 K) = nth j points (sp0 K) ->
  sp_le K vMin (nth j points (sp0 K)) ->
  sp_le K (nth j points (sp0 K)) vMax -> nth i g (sp0 K) = nth j u (sp0 K).
Proof. exact ai_vp_foot_on_node. Qed.
Print Assumptions c11_interp_then_foot_on_node.

Theorem c11_qc_instance : sp_laws spq_ops /\ adv_trunc_ok Qc spq_ops.
Proof. exact (conj spq_laws advq_trunc_ok). Qed.
Print Assumptions c11_qc_instance.

(* ---- non-vacuity on Qc: uniform cubic on [-3, 3], 4 cells ---- *)
Definition c11_ex_knots : list Qc := [spq_of (-3) 1; spq_of 3 1; spq_of 3 2; spq_of 4 1].
Definition c11_ex_coeffs : list Qc := map (fun t => spq_of t 3) [1; 4; 2; 7; 3; 5; 6]%Z.
Definition c11_ex_pts : list Qc := map (fun t => spq_of t 2) [-23; -6; 0; 6; 9]%Z.   (* -11.5, -3, 0, 3, 4.5 *)
Definition c11_ex_run (bound : Z) :=
  vpq_eval_step [Q2Qc 0; Q2Qc 0; Q2Qc 0; Q2Qc 0; Q2Qc 0] c11_ex_pts (spq_of 1 2) (spq_of (-3) 1) (spq_of 3 1)
    c11_ex_knots 3 c11_ex_coeffs (spq_of 1 1) (spq_of 1 10) (spq_of 1 5) (spq_of 1 2) (spq_of 1 1) (spq_of 1 4) (spq_of 1 10) bound true.
Definition c11_ex_S (v : Qc) := advq_ev true c11_ex_knots 3 c11_ex_coeffs v.
Definition c11_ex_feq (v : Qc) := vpq_f_eq (spq_of 1 2) v (spq_of 1 1) (spq_of 1 10) (spq_of 1 5) (spq_of 1 2) (spq_of 1 1) (spq_of 1 4) (spq_of 1 10).
Example c11_ex_modes :
  (* feet exactly on vMin and vMax are inside (strict comparisons) *)
  (c11_ex_run 0 = sp_mapM (fun x => x) [c11_ex_feq (spq_of (-23) 2); c11_ex_S (spq_of (-3) 1); c11_ex_S (spq_of 0 1); c11_ex_S (spq_of 3 1); c11_ex_feq (spq_of 9 2)])
  /\ (c11_ex_run 1 = sp_mapM (fun x => x) [SpOk (Q2Qc 0); c11_ex_S (spq_of (-3) 1); c11_ex_S (spq_of 0 1); c11_ex_S (spq_of 3 1); SpOk (Q2Qc 0)])
  /\ (c11_ex_run 2 = sp_mapM (fun x => x) [c11_ex_S (spq_of 1 2); c11_ex_S (spq_of (-3) 1); c11_ex_S (spq_of 0 1); c11_ex_S (spq_of 3 1); c11_ex_S (spq_of (-3) 2)])
  /\ (exists l, c11_ex_run 2 = SpOk l)
  /\ spq_show_res (vpq_wrap (spq_of (-23) 2) (spq_of (-3) 1) (spq_of 3 1)) = SpOk (1%Z, 2%positive)
  /\ vp_up Qc spq_ops 50 (spq_of (-1) 1) (spq_of 0 1) (spq_of 0 1 - spq_of 0 1)%Qc = SpFuelErr.
Proof. vm_compute. repeat split. eexists. reflexivity. Qed.

(* ---- non-vacuity of the interpolate-then-step theorems: clamped uniform cubic on [-3, 3], 4 cells, Greville points ---- *)
Definition c11_ex_nodes : list Qc := map (fun t => spq_of t 2) [-6; -5; -3; 0; 3; 5; 6]%Z.
Definition c11_ex_f : list Qc := map (fun t => spq_of t 3) [2; -1; 4; 7; 0; 5; 1]%Z.
Example c11_ex_interp_then_zero_speed :
  match ip_interp1d Qc spq_ops c11_ex_knots 3 false true c11_ex_nodes c11_ex_f with
  | SpOk c =>
      (forall b, In b [0; 1; 2]%Z ->
         spq_show_list (vpq_step c11_ex_f c11_ex_nodes (spq_of 0 1) (spq_of 7 3) (spq_of 1 2) c11_ex_knots 3 c
                          (spq_of 1 1) (spq_of 1 10) (spq_of 1 5) (spq_of 1 2) (spq_of 1 1) (spq_of 1 4) (spq_of 1 10) b true)
         = spq_show_list (SpOk c11_ex_f))
      (* a shift by one cell (3/2): the nodes 0, 3/2 of the uniform part receive the old values of -3/2, 0;
         the Greville point -5/2 next to the end has its foot -4 outside, 5/2 has its foot 1 off the nodes *)
      /\ match vpq_step c11_ex_f c11_ex_nodes (spq_of 1 1) (spq_of 3 2) (spq_of 1 2) c11_ex_knots 3 c
                         (spq_of 1 1) (spq_of 1 10) (spq_of 1 5) (spq_of 1 2) (spq_of 1 1) (spq_of 1 4) (spq_of 1 10) 1 true with
         | SpOk g => spq_show (nth 3 g (Q2Qc 0)) = spq_show (nth 2 c11_ex_f (Q2Qc 0))
                     /\ spq_show (nth 4 g (Q2Qc 0)) = spq_show (nth 3 c11_ex_f (Q2Qc 0))
                     /\ spq_show (nth 5 g (Q2Qc 0)) <> spq_show (nth 4 c11_ex_f (Q2Qc 0))
         | _ => False end
  | _ => False end.
Proof.
  vm_compute. split.
  - intros b [<-|[<-|[<-|[]]]]; reflexivity.
  - split; [reflexivity|split; [reflexivity|discriminate]].
Qed.
