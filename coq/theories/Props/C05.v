(** C05 — simulation results do not depend on the process decomposition.
    Statements only; proofs in GridSteps.v (uses Blocks.v). *)
From Coq Require Import List Arith Lia PeanoNat Bool.
Import ListNotations.
From PGV Require Import Blocks GridSteps.

(** a parameter looked up the way the (repaired) operators do it — in a table built for the rank's own
    block and indexed locally, or in a table built for the whole grid and indexed by start + local index —
    is the entry of the slice's own global coordinate, for every extent, process count, rank, local index *)
Theorem c05_sound_lookup : forall (T : Type) (dT : T) k tab n p a i,
  k <> GlobalTabLocalIdx -> 0 < p -> a < p -> length tab = n -> i < blen n p a ->
  resolve T dT k tab (bstart n p a) (blen n p a) i = nth (bstart n p a + i) tab dT.
Proof. exact sound_lookup_params. Qed.
Print Assumptions c05_sound_lookup.

(** every operator of the model uses only such lookups *)
Theorem c05_all_ops_sound : forallb op_sound all_ops = true.
Proof. exact all_ops_sound. Qed.
Print Assumptions c05_all_ops_sound.

(** then, for any slice kernel, the field assembled from the blocks of any process grid is the serial result *)
Theorem c05_assembled_eq_serial : forall (S P : Type) (K : P -> S -> S) n0 n1 p0 p1,
  0 < p0 -> 0 < p1 -> forall (F : nat -> nat -> S) (Pglob : nat -> nat -> P) (Ploc : nat -> nat -> nat -> nat -> P),
  (forall a b i j, a < p0 -> b < p1 -> i < blen n0 p0 a -> j < blen n1 p1 b ->
     Ploc a b i j = Pglob (bstart n0 p0 a + i) (bstart n1 p1 b + j)) ->
  forall I J, I < n0 -> J < n1 ->
  assembled S P K n0 n1 p0 p1 F Ploc I J = serial_result S P K F Pglob I J.
Proof. exact assembled_eq_serial. Qed.
Print Assumptions c05_assembled_eq_serial.

(** and any two process grids give the same global field *)
Theorem c05_decomposition_free : forall (S P : Type) (K : P -> S -> S) n0 n1 p0 p1 q0 q1 F Pglob Ploc Ploc',
  0 < p0 -> 0 < p1 -> 0 < q0 -> 0 < q1 ->
  (forall a b i j, a < p0 -> b < p1 -> i < blen n0 p0 a -> j < blen n1 p1 b ->
     Ploc a b i j = Pglob (bstart n0 p0 a + i) (bstart n1 p1 b + j)) ->
  (forall a b i j, a < q0 -> b < q1 -> i < blen n0 q0 a -> j < blen n1 q1 b ->
     Ploc' a b i j = Pglob (bstart n0 q0 a + i) (bstart n1 q1 b + j)) ->
  forall I J, I < n0 -> J < n1 ->
  assembled S P K n0 n1 p0 p1 F Ploc I J = assembled S P K n0 n1 q0 q1 F Ploc' I J.
Proof. exact decomposition_free. Qed.
Print Assumptions c05_decomposition_free.

(** nothing else is computed: each local slice of each rank is a global slice with that slice's parameters *)
Theorem c05_rank_result_is_serial : forall (S P : Type) (K : P -> S -> S) n0 n1 p0 p1 F Pglob Ploc,
  (forall a b i j, a < p0 -> b < p1 -> i < blen n0 p0 a -> j < blen n1 p1 b ->
     Ploc a b i j = Pglob (bstart n0 p0 a + i) (bstart n1 p1 b + j)) ->
  forall a b i j, a < p0 -> b < p1 -> i < blen n0 p0 a -> j < blen n1 p1 b ->
  rank_result S P K n0 n1 p0 p1 F Ploc a b i j
  = serial_result S P K F Pglob (bstart n0 p0 a + i) (bstart n1 p1 b + j).
Proof. exact rank_result_is_serial. Qed.
Print Assumptions c05_rank_result_is_serial.

(** non-vacuity, and the defect of the pinned tree as a refutation: indexing a whole-grid table by the local
    index selects another coordinate's parameter on a rank whose block does not start at 0 *)
Example c05_example :
  resolve nat 0 LocalTab [10; 11; 12; 13; 14] (bstart 5 2 1) (blen 5 2 1) 1 = 13 /\
  resolve nat 0 GlobalTab [10; 11; 12; 13; 14] (bstart 5 2 1) (blen 5 2 1) 1 = 13 /\
  resolve nat 0 GlobalTabLocalIdx [10; 11; 12; 13; 14] (bstart 5 2 1) (blen 5 2 1) 1 = 11.
Proof. vm_compute. repeat split. Qed.
