(** C14 - the elliptic solver DiffEqSolver returns the per-mode Galerkin solution of the radial equation
      A phi'' + B phi' + C phi - m^2 D phi = E rho     (cylindrical measure r dr).

    Model: GalerkinModel.v (executed at Qc: GalerkinQc.v).  The quadrature rule (points of every cell,
    weights, multFactor) and the values of A, B, C, D, E at the points are inputs; B-spline values and
    derivatives at the points are those of SplineModel.v; the assembly is the code's diagonal storage
    with its overlap ranges; the linear solve is Gauss-Jordan followed by the checks  Ai A = I  and
    A x = b, so that its specification holds by construction.

    Every theorem is stated for an arbitrary ordered field [K] satisfying [sp_laws] (the instance [Qc]
    is [spq_laws]), every degree, every number of cells and of quadrature points. *)
From Coq Require Import List Arith Lia ZArith QArith Qcanon Bool.
Import ListNotations.
From PGV Require Import Sums SplineModel SplineTheory SplineQc QuadTheory MarsdenTheory GalerkinModel GalerkinTheory GalerkinQc.

(** band_eq_dense.  [gk_assemble] succeeds only if every point of cell c has span p + c (checked by
    the model: [gk_spans_ok]).  Then, for each of the five matrices, the entry (a, b) that
    scipy.sparse.diags reads from the diagonal storage written by the constructor (sums restricted to
    [max(start_i,start_j), min(end_i,end_j)), one shared array for the diagonals +k and -k of the
    symmetric matrices) equals the dense double sum over ALL cells and points of the integrand,
    and it is zero when |a - b| > p. *)
Theorem c14_band_eq_dense (F : Type) (K : sp_ops F) (HK : sp_laws K) :
  forall knots p nc nq pts wts mf At Bt Ct Dt Et S k a b,
  gk_assemble F K knots p nc nq pts wts mf At Bt Ct Dt Et = SpOk S -> (a < nc + p)%nat -> (b < nc + p)%nat ->
  let M := match k with GkMass => gka_mass F S | GkK2 => gka_k2 F S | GkPhiPsi => gka_phipsi F S
                      | GkDD => gka_dd F S | GkD1 => gka_d1 F S end in
  gk_entry F K p M a b
  = gk_dense F K nc nq (gk_phi F K p (gka_tab F S)) (gk_Wf F K wts mf) (gk_at F K pts) (gk_at F K At) (gk_at F K Bt)
      (gk_at F K Ct) (gk_at F K Dt) (gk_at F K Et) k a b
  /\ ((a + p < b \/ b + p < a)%nat -> gk_entry F K p M a b = sp0 K).
Proof. exact (gk_assembled_band_eq_dense F K HK). Qed.
Print Assumptions c14_band_eq_dense.

(** stiffness_is_weak_form: the matrix of mode m, (self._stiffnessMatrix - m^2 self._k2PhiPsi)[a, b], is
      sum_{cells, points} w * ( -A phi_b' (psi_a' r + psi_a) + B phi_b' psi_a r + C phi_b psi_a r - m^2 D phi_b psi_a r )
    with test function psi_a = B_a and trial function phi_b = B_b:  the bilinear form of
    A phi'' + B phi' + C phi - m^2 D phi after integration by parts of the first term in the measure r dr. *)
Theorem c14_stiffness_is_weak_form (F : Type) (K : sp_ops F) (HK : sp_laws K) :
  forall knots p nc nq pts wts mf At Bt Ct Dt Et S m a b,
  gk_assemble F K knots p nc nq pts wts mf At Bt Ct Dt Et = SpOk S -> (a < nc + p)%nat -> (b < nc + p)%nat ->
  gk_stiff F K S m a b
  = gk_weak F K nc nq (gk_phi F K p (gka_tab F S)) (gk_Wf F K wts mf) (gk_at F K pts) (gk_at F K At) (gk_at F K Bt)
      (gk_at F K Ct) (gk_at F K Dt) (gk_msq F K m) a b.
Proof. exact (gk_stiffness_is_weak_form F K HK). Qed.
Print Assumptions c14_stiffness_is_weak_form.

(** the mass matrix (right-hand side of the discrete path): sum w * E * phi_b psi_a r *)
Theorem c14_mass_is_weak_form (F : Type) (K : sp_ops F) (HK : sp_laws K) :
  forall knots p nc nq pts wts mf At Bt Ct Dt Et S a b,
  gk_assemble F K knots p nc nq pts wts mf At Bt Ct Dt Et = SpOk S -> (a < nc + p)%nat -> (b < nc + p)%nat ->
  gk_entry F K (gka_p F S) (gka_mass F S) a b
  = gk_weak_mass F K nc nq (gk_phi F K p (gka_tab F S)) (gk_Wf F K wts mf) (gk_at F K pts) (gk_at F K Et) a b.
Proof. exact (gk_mass_is_weak_form F K HK). Qed.
Print Assumptions c14_mass_is_weak_form.

(** the Galerkin system is what is solved: for every test function that is an unknown of mode m,
      sum_b stiffness_m(a, b) c_b = rhs(a)
    where c is the FULL coefficient vector returned (boundary coefficients of Dirichlet sides are 0) *)
Theorem c14_solution_is_galerkin (F : Type) (K : sp_ops F) (HK : sp_laws K) :
  forall S lN uN m buf rhs c,
  gk_solve_rhs F K S lN uN m buf rhs = SpOk c -> (2 <= gka_nb F S)%nat ->
  forall i, (i < gk_coeff_hi (gka_nb F S) uN m - gk_coeff_lo lN m)%nat ->
  Sums.sumn F (sp0 K) (spadd K) (gka_nb F S) (fun b => spmul K (gk_stiff F K S m (gk_coeff_lo lN m + i) b) (nth b c (sp0 K))) = nth i rhs (sp0 K).
Proof. exact (gk_solution_is_galerkin F K HK). Qed.
Print Assumptions c14_solution_is_galerkin.

(** the solution of the system is unique: every vector that satisfies the mode's linear system is the
    one returned (the checked solve carries a left inverse) *)
Theorem c14_lin_solve_spec (F : Type) (K : sp_ops F) (HK : sp_laws K) :
  forall n A b x, gk_lin_solve F K n A b = SpOk x ->
  length x = n /\ gk_solves F K n A x b /\
  (forall y, gk_solves F K n A y b -> forall i, (i < n)%nat -> nth i y (sp0 K) = nth i x (sp0 K)).
Proof. exact (gk_lin_solve_spec F K HK). Qed.
Print Assumptions c14_lin_solve_spec.

(** ranges_consistent *)
Theorem c14_ranges_consistent :
  forall nb lN uN m, (2 <= nb)%nat ->
  (gk_start_range lN + gk_stiff_lo lN m = gk_coeff_lo lN m)%nat /\
  (gk_start_range lN + gk_stiff_hi nb lN uN m = gk_coeff_hi nb uN m)%nat /\
  (gk_stiff_hi nb lN uN m <= gk_nunk nb lN uN)%nat /\
  (gk_coeff_lo lN m <= 1)%nat /\ (nb - 1 <= gk_coeff_hi nb uN m <= nb)%nat /\
  (gk_coeff_lo lN m = 0%nat <-> gk_memZ m lN = true) /\
  (gk_coeff_hi nb uN m = nb <-> gk_memZ m uN = true).
Proof. exact gk_ranges_consistent. Qed.
Print Assumptions c14_ranges_consistent.

(** dirichlet_zero (coefficients): c_0 = 0 on a lower Dirichlet side, c_last = 0 on an upper one *)
Theorem c14_dirichlet_zero (F : Type) (K : sp_ops F) (HK : sp_laws K) :
  forall S lN uN m buf rhs c, (2 <= gka_nb F S)%nat ->
  gk_solve_rhs F K S lN uN m buf rhs = SpOk c ->
  length c = gka_nb F S /\
  (gk_memZ m lN = false -> nth 0 c (sp0 K) = sp0 K) /\
  (gk_memZ m uN = false -> nth (gka_nb F S - 1) c (sp0 K) = sp0 K).
Proof. exact (gk_dirichlet_coeffs F K). Qed.
Print Assumptions c14_dirichlet_zero.

(** modes_independent: the loop over the modes with its shared buffer self._coeffs returns for each
    mode exactly what this mode alone returns *)
Theorem c14_modes_independent (F : Type) (K : sp_ops F) (HK : sp_laws K) :
  forall S lN uN nc nq pts wts mf work buf,
  gk_solve_all F K S lN uN nc nq pts wts mf buf work
  = sp_mapM (gk_solve_item F K S lN uN nc nq pts wts mf []) work.
Proof. exact (gk_modes_independent F K). Qed.
Print Assumptions c14_modes_independent.

(** depends_on_m_squared *)
Theorem c14_depends_on_m_squared (F : Type) (K : sp_ops F) (HK : sp_laws K) :
  forall S lN uN nc nq pts wts mf buf m d,
  gk_memZ (- m) lN = gk_memZ m lN -> gk_memZ (- m) uN = gk_memZ m uN ->
  gk_solve_item F K S lN uN nc nq pts wts mf buf (- m, d)%Z = gk_solve_item F K S lN uN nc nq pts wts mf buf (m, d).
Proof. exact (gk_depends_on_m_squared F K). Qed.
Print Assumptions c14_depends_on_m_squared.

(** linear_in_rho: discrete right-hand side ... *)
Theorem c14_linear_in_rho (F : Type) (K : sp_ops F) (HK : sp_laws K) :
  forall S lN uN m buf rho1 rho2 rho3 c1 c2 c3 al be,
  gk_solve_mode F K S lN uN m buf rho1 = SpOk c1 -> gk_solve_mode F K S lN uN m buf rho2 = SpOk c2 ->
  gk_solve_mode F K S lN uN m buf rho3 = SpOk c3 ->
  (forall b, (b < gka_nb F S)%nat -> nth b rho3 (sp0 K) = spadd K (spmul K al (nth b rho1 (sp0 K))) (spmul K be (nth b rho2 (sp0 K)))) ->
  forall i, (i < gka_nb F S)%nat -> nth i c3 (sp0 K) = spadd K (spmul K al (nth i c1 (sp0 K))) (spmul K be (nth i c2 (sp0 K))).
Proof. exact (gk_linear_in_rho F K HK). Qed.
Print Assumptions c14_linear_in_rho.

(** ... and right-hand side given as a function *)
Theorem c14_linear_in_rho_func (F : Type) (K : sp_ops F) (HK : sp_laws K) :
  forall S lN uN m buf nc nq pts wts mf t1 t2 t3 c1 c2 c3 al be,
  gk_solve_mode_func F K S lN uN m buf nc nq pts wts mf t1 = SpOk c1 ->
  gk_solve_mode_func F K S lN uN m buf nc nq pts wts mf t2 = SpOk c2 ->
  gk_solve_mode_func F K S lN uN m buf nc nq pts wts mf t3 = SpOk c3 ->
  (forall c q, (c < nc)%nat -> (q < nq)%nat -> gk_at F K t3 c q = spadd K (spmul K al (gk_at F K t1 c q)) (spmul K be (gk_at F K t2 c q))) ->
  forall i, (i < gka_nb F S)%nat -> nth i c3 (sp0 K) = spadd K (spmul K al (nth i c1 (sp0 K))) (spmul K be (nth i c2 (sp0 K))).
Proof. exact (gk_linear_in_rho_func F K HK). Qed.
Print Assumptions c14_linear_in_rho_func.

(** refuses_iff: the exact test of the constructor *)
Theorem c14_refuses_iff (F : Type) (K : sp_ops F) (HK : sp_laws K) :
  forall lN uN Ctab,
  gk_refuses F K lN uN Ctab = true <->
  (exists b, In b lN /\ In b uN) /\ (forall row v, In row Ctab -> In v row -> v = sp0 K).
Proof. exact (gk_refuses_iff F K HK). Qed.
Print Assumptions c14_refuses_iff.

(** the load vector of the function path: sum w * B_a(x) * x * E(x) * rho(x), E = rhoFactor at the points *)
Theorem c14_rhs_func_spec (F : Type) (K : sp_ops F) (HK : sp_laws K) :
  forall S nc nq pts wts mf rhot lo hi i, (i < hi - lo)%nat ->
  nth i (gk_rhs_func F K S nc nq pts wts mf rhot lo hi) (sp0 K)
  = Sums.sumn F (sp0 K) (spadd K) nc (fun c => Sums.sumn F (sp0 K) (spadd K) nq (fun q =>
      spmul K (spmul K (spmul K (spmul K (gk_Wf F K wts mf c q) (gk_phi F K (gka_p F S) (gka_tab F S) 0 (lo + i) c q)) (gk_at F K pts c q))
                       (gk_at F K (gka_E F S) c q))
              (gk_at F K rhot c q))).
Proof. exact (gk_rhs_func_spec F K). Qed.
Print Assumptions c14_rhs_func_spec.

(** function path = discrete path: when the function rho takes at the quadrature points the values of the
    spline with coefficients rho_b (sum_b rho_b B_b(x)), _solveModeFunc and _solveMode solve the same system
    (same matrix, same right-hand side  sum w E rho B_a r) and return the same coefficients *)
Theorem c14_func_path_eq_discrete_path (F : Type) (K : sp_ops F) (HK : sp_laws K) :
  forall knots p nc nq pts wts mf At Bt Ct Dt Et S lN uN m buf rho rhot,
  gk_assemble F K knots p nc nq pts wts mf At Bt Ct Dt Et = SpOk S ->
  (forall c q, (c < nc)%nat -> (q < nq)%nat ->
     gk_at F K rhot c q = Sums.sumn F (sp0 K) (spadd K) (nc + p)
                            (fun b => spmul K (gk_phi F K p (gka_tab F S) 0 b c q) (nth b rho (sp0 K)))) ->
  gk_solve_mode_func F K S lN uN m buf nc nq pts wts mf rhot = gk_solve_mode F K S lN uN m buf rho.
Proof. exact (gk_func_path_eq_discrete_path F K HK). Qed.
Print Assumptions c14_func_path_eq_discrete_path.

(** dirichlet_value_zero.  The radial space of DiffEqSolver is ALWAYS the general clamped space (for a cubic_uniform
    radial spline the constructor rebuilds BSplines(make_knots(breaks, 3, False), 3, False, False)), and phi is
    evaluated with nu_eval_spline_1d on it.  On a clamped knot vector (C08: c08_clamped_end_eval) the solution
    spline evaluates to 0 at a Dirichlet end. *)
Theorem c14_dirichlet_value_zero (F : Type) (K : sp_ops F) (HK : sp_laws K) :
  forall S lN uN m buf rhs c knots p,
  ip_clamped F K knots p -> (1 <= p)%nat -> gka_nb F S = (length knots - p - 1)%nat ->
  gk_solve_rhs F K S lN uN m buf rhs = SpOk c ->
  (gk_memZ m lN = false -> sp_nu_eval_1d_scalar F K (sp_kn F K knots p) knots p c 0 = SpOk (sp0 K)) /\
  (gk_memZ m uN = false ->
   sp_nu_eval_1d_scalar F K (sp_kn F K knots (length knots - 1 - p)) knots p c 0 = SpOk (sp0 K)).
Proof. exact (gk_dirichlet_value_zero F K HK). Qed.
Print Assumptions c14_dirichlet_value_zero.

(** manufactured solutions, algebraic core: a coefficient vector cu (zero on the Dirichlet sides) whose spline has the
    values u0, derivative values u1 at the quadrature points, for which
      (IBP) sum w (-A) u1 (B_a' r + B_a) = sum w A u2 B_a r   for every test function B_a that is an unknown, and
      (EQ)  A u2 + B u1 + C u0 - m^2 D u0 = E rho             at every quadrature point,
    IS the vector returned by the solver (it satisfies the mode's linear system, which has a unique solution).
    (IBP) is the quadrature-level integration by parts: it follows from the exactness of the rule for the degree of the
    integrands on every cell, the continuity of B_a and the vanishing of the boundary term A u' B_a r; it is a
    hypothesis here, checked numerically by the harness through the manufactured cases. *)
Theorem c14_manufactured_core (F : Type) (K : sp_ops F) (HK : sp_laws K) :
  forall knots p nc nq pts wts mf At Bt Ct Dt Et S lN uN m buf rhot c (cu : nat -> F) (u0 u1 u2 : nat -> nat -> F),
  gk_assemble F K knots p nc nq pts wts mf At Bt Ct Dt Et = SpOk S ->
  gk_solve_mode_func F K S lN uN m buf nc nq pts wts mf rhot = SpOk c ->
  (2 <= nc + p)%nat ->
  (forall b, (b < gk_coeff_lo lN m \/ gk_coeff_hi (nc + p) uN m <= b)%nat -> cu b = sp0 K) ->
  (forall c q, (c < nc)%nat -> (q < nq)%nat ->
     Sums.sumn F (sp0 K) (spadd K) (nc + p) (fun b => spmul K (cu b) (gk_phi F K p (gka_tab F S) 0 b c q)) = u0 c q) ->
  (forall c q, (c < nc)%nat -> (q < nq)%nat ->
     Sums.sumn F (sp0 K) (spadd K) (nc + p) (fun b => spmul K (cu b) (gk_phi F K p (gka_tab F S) 1 b c q)) = u1 c q) ->
  (forall a, (gk_coeff_lo lN m <= a < gk_coeff_hi (nc + p) uN m)%nat ->
     Sums.sumn F (sp0 K) (spadd K) nc (fun c => Sums.sumn F (sp0 K) (spadd K) nq (fun q =>
        spmul K (gk_Wf F K wts mf c q) (spmul K (spmul K (spopp K (gk_at F K At c q)) (u1 c q))
          (spadd K (spmul K (gk_phi F K p (gka_tab F S) 1 a c q) (gk_at F K pts c q)) (gk_phi F K p (gka_tab F S) 0 a c q)))))
     = Sums.sumn F (sp0 K) (spadd K) nc (fun c => Sums.sumn F (sp0 K) (spadd K) nq (fun q =>
        spmul K (gk_Wf F K wts mf c q) (spmul K (spmul K (spmul K (gk_at F K At c q) (u2 c q))
          (gk_phi F K p (gka_tab F S) 0 a c q)) (gk_at F K pts c q))))) ->
  (forall c q, (c < nc)%nat -> (q < nq)%nat ->
     spsub K (spadd K (spadd K (spmul K (gk_at F K At c q) (u2 c q)) (spmul K (gk_at F K Bt c q) (u1 c q)))
                      (spmul K (gk_at F K Ct c q) (u0 c q)))
             (spmul K (gk_msq F K m) (spmul K (gk_at F K Dt c q) (u0 c q)))
     = spmul K (gk_at F K Et c q) (gk_at F K rhot c q)) ->
  forall i, (i < nc + p)%nat -> nth i c (sp0 K) = cu i.
Proof. exact (gk_manufactured_core F K HK). Qed.
Print Assumptions c14_manufactured_core.

(** for a polynomial of degree <= p the hypothesis "u0" above holds with cu = ip_poly_coeff (Marsden coefficients,
    C08: c08_poly_spline): its spline takes the value of the polynomial at every quadrature point *)
Theorem c14_poly_at_nodes (F : Type) (K : sp_ops F) (HK : sp_laws K) :
  forall knots p nc nq pts wts mf At Bt Ct Dt Et Sv a c q,
  gk_assemble F K knots p nc nq pts wts mf At Bt Ct Dt Et = SpOk Sv ->
  ip_clamped F K knots p -> length knots = (nc + 2 * p + 1)%nat -> (length a <= S p)%nat ->
  (c < nc)%nat -> (q < nq)%nat -> (c < length pts)%nat -> (q < length (nth c pts []))%nat ->
  Sums.sumn F (sp0 K) (spadd K) (nc + p) (fun b => spmul K (ip_poly_coeff F K knots p a b) (gk_phi F K p (gka_tab F Sv) 0 b c q))
  = ip_polyval F K a (gk_at F K pts c q).
Proof. exact (gk_poly_at_nodes F K HK). Qed.
Print Assumptions c14_poly_at_nodes.

(* ------------------------------------------------------------------------------------------------ *)
(** the executed instance *)
Theorem c14_qc_laws : sp_laws spq_ops.
Proof. exact spq_laws. Qed.
Print Assumptions c14_qc_laws.

(** non-vacuity: quadratic splines on two cells of [1,3], two points per cell; the hypotheses of the
    theorems hold (assembly succeeds, modes are solved) *)
Definition c14q (n : Z) (d : positive) : Qc := spq_of n d.
Definition c14_kn : list Qc := [c14q 1 1; c14q 1 1; c14q 1 1; c14q 2 1; c14q 3 1; c14q 3 1; c14q 3 1].
Definition c14_pts : list (list Qc) := [[c14q 5 4; c14q 7 4]; [c14q 9 4; c14q 11 4]].
Definition c14_wts : list Qc := [c14q 1 1; c14q 1 1].
Definition c14_mf : list Qc := [c14q 1 4; c14q 1 4].
Definition c14_cst (v : Qc) : list (list Qc) := [[v; v]; [v; v]].
Definition c14_ones : list Qc := [c14q 1 1; c14q 1 1; c14q 1 1; c14q 1 1].
Definition c14_asm (E : Qc) := gkq_assemble c14_kn 2 2 2 c14_pts c14_wts c14_mf
  (c14_cst (c14q (-1) 1)) (c14_cst (c14q 1 2)) (c14_cst (c14q 1 3)) (c14_cst (c14q (-1) 1)) (c14_cst E).

Definition c14_get {A : Type} (d : A) (r : sp_res A) : A := match r with SpOk a => a | _ => d end.
Definition c14_S2 : gk_asm Qc := Eval vm_compute in c14_get (GkAsm Qc 0 0 [] [] [] [] [] [] []) (c14_asm (c14q 2 1)).

Example c14_ex_assembles : c14_asm (c14q 2 1) = SpOk c14_S2 /\ gka_nb Qc c14_S2 = 4%nat
  /\ spq_show (gk_stiff Qc spq_ops c14_S2 1 1 2) = (2071%Z, 3072%positive)
  /\ spq_show (gk_stiff Qc spq_ops c14_S2 1 0 3) = (0%Z, 1%positive).
Proof. vm_compute. repeat split. Qed.

Definition c14_c0 : list Qc := Eval vm_compute in c14_get [] (gk_solve_mode Qc spq_ops c14_S2 [0%Z] [] 0 [] c14_ones).
Definition c14_c1 : list Qc := Eval vm_compute in c14_get [] (gk_solve_mode Qc spq_ops c14_S2 [0%Z] [] 1 [] c14_ones).

Example c14_ex_solves :
  gk_solve_mode Qc spq_ops c14_S2 [0%Z] [] 0 [] c14_ones = SpOk c14_c0          (* Neumann below, Dirichlet above *)
  /\ gk_solve_mode Qc spq_ops c14_S2 [0%Z] [] 1 [] c14_ones = SpOk c14_c1       (* Dirichlet on both sides *)
  /\ gk_solve_mode Qc spq_ops c14_S2 [0%Z] [] (-1) c14_c0 c14_ones = SpOk c14_c1
  /\ map spq_show c14_c1 = [(0%Z, 1%positive); (spq_show (nth 1 c14_c1 (Q2Qc 0))); (spq_show (nth 2 c14_c1 (Q2Qc 0))); (0%Z, 1%positive)]
  /\ Qc_eq_bool (nth 0 c14_c0 (Q2Qc 0)) (Q2Qc 0) = false /\ spq_show (nth 3 c14_c0 (Q2Qc 0)) = (0%Z, 1%positive).
Proof. vm_compute. repeat split. Qed.

Example c14_ex_refuses :
  gkq_refuses [0%Z; 2%Z] [5%Z; 2%Z] (c14_cst (c14q 0 1)) = true
  /\ gkq_refuses [0%Z; 2%Z] [5%Z; 2%Z] (c14_cst (c14q 1 3)) = false
  /\ gkq_refuses [0%Z; 2%Z] [5%Z] (c14_cst (c14q 0 1)) = false.
Proof. vm_compute. repeat split. Qed.

(** the function path applies rhoFactor (repair c0d120c of /repo; before it the clause "= E rho" was refuted for
    right-hand sides given as functions): with E = 2 and rho = 1 - as a spline all coefficients 1, as a function 1 at
    every point - solveEquation and solveEquationForFunction return the same potential *)
Definition c14_cd : list Qc := Eval vm_compute in c14_get [] (gk_solve_mode Qc spq_ops c14_S2 [] [] 0 [] c14_ones).
Definition c14_cf : list Qc := Eval vm_compute in
  c14_get [] (gk_solve_mode_func Qc spq_ops c14_S2 [] [] 0 [] 2 2 c14_pts c14_wts c14_mf (c14_cst (c14q 1 1))).

Example c14_ex_func_rhs_applies_E :
  gk_solve_mode Qc spq_ops c14_S2 [] [] 0 [] c14_ones = SpOk c14_cd
  /\ gk_solve_mode_func Qc spq_ops c14_S2 [] [] 0 [] 2 2 c14_pts c14_wts c14_mf (c14_cst (c14q 1 1)) = SpOk c14_cf
  /\ map spq_show c14_cd = map spq_show c14_cf
  /\ Qc_eq_bool (nth 1 c14_cd (Q2Qc 0)) (Q2Qc 0) = false.
Proof. vm_compute. repeat split. Qed.

(** the uniform-cubic fast path is NOT what DiffEqSolver evaluates with - and could not be: on that path
    S(xmin) = (c_0 + 4 c_1 + c_2)/6 (C08: c08_cubic_end_eval), so a zero first coefficient does not make the value
    vanish.  Coefficients (0, 1, 1, 1, 1) on [0,2], dx = 1, 2 cells: the uniform-cubic evaluator gives 5/6 at xmin, the
    general evaluator on the clamped knots of the same breaks gives 0. *)
Example c14_ex_cubic_path_end_value :
  spq_show_res (spq_cu_eval_1d_scalar (c14q 0 1) [c14q 0 1; c14q 2 1; c14q 1 1; c14q 2 1] 3
                  [c14q 0 1; c14q 1 1; c14q 1 1; c14q 1 1; c14q 1 1] 0) = SpOk (5%Z, 6%positive)
  /\ spq_show_res (spq_nu_eval_1d_scalar (c14q 0 1)
                  [c14q 0 1; c14q 0 1; c14q 0 1; c14q 0 1; c14q 1 1; c14q 2 1; c14q 2 1; c14q 2 1; c14q 2 1] 3
                  [c14q 0 1; c14q 1 1; c14q 1 1; c14q 1 1; c14q 1 1] 0) = SpOk (0%Z, 1%positive).
Proof. vm_compute. split; reflexivity. Qed.
