(** C13 - the parallel gradient is the field-aligned finite-difference derivative.
    Only statements, [exact]s and [Print Assumptions]; the proofs live in ParGrad.v.
    The model mirrors ParallelGradient.getCoeffsFirstDeriv (shifts, forward/backward steps),
    _getThetaVals / fieldline and parallel_gradient (scatter-add, the three loops, numpy index semantics
    in the loop without modulo).  V i k q is the theta-spline of z-row i at thetaVals[i, k, q]
    (= (theta_q + iota*dz*s_k/R0) mod 2 pi);  pgr_val z q = bz*inv_dz * sum_k c_k V ((z+s_k) mod nz) k q.
    The finite-difference weights are a certificate: the code's weights are compared with the exact
    solution of the moment system, which [pgr_moments_ok] checks exactly (sum_k c_k s_k^i = delta_{i1}).

    NOT proved here: the convergence order; rounding (and the conditioning of the Vandermonde solve);
    that the theta-spline interpolates the potential (C08); the radius index plumbing (C05). *)
From Coq Require Import List Arith Lia ZArith Bool QArith Qcanon.
Import ListNotations.
From PGV Require Import BasisCoxDeBoor FindSpan CubicUniform Sums SplineModel SplineTheory SplineQc
  InterpModel InterpTheory AdvCommon FluxAdv VParAdv ParGrad AdvInterp AdvQc.

(** the loop that writes der[(i-s), :] without modulo addresses, on its rows [fwd, nz-bkwd), exactly the row (i - s) % nz and never raises (for odd orders this relies on numpy's negative indices) *)
Theorem c13_regimes_eq_modulo :
  forall n nz i k : nat,
  (1 <= n)%nat ->
  (n <= nz)%nat ->
  (k < n)%nat ->
  (pgr_fwd n <= i < nz - pgr_bkwd n)%nat ->
  pgr_pyidx nz (Z.of_nat i - nth k (pgr_shifts n) 0%Z) = pgr_modidx nz (Z.of_nat i - nth k (pgr_shifts n) 0%Z).
Proof. exact pgr_regimes_eq_modulo. Qed.
Print Assumptions c13_regimes_eq_modulo.

(** der[z, q] = bz/dz * sum_k c_k * S_{(z+s_k) mod nz}(thetaVals[(z+s_k) mod nz, k, q]): the three loops together are the single formula with mod nz everywhere; nothing raises *)
Theorem c13_pargrad_formula :
  forall (F : Type) (K : sp_ops F),
  sp_laws K ->
  forall (ev : list F -> F -> sp_res F) (nz nq n : nat) (cs : list (list F)) (thetaVals : list (list (list F)))
  (coeffs : list F) (bz inv_dz : F) (V : nat -> nat -> nat -> F),
  (1 <= n)%nat ->
  (n <= nz)%nat ->
  length cs = nz ->
  length thetaVals = nz ->
  length coeffs = n ->
  (forall i : nat, (i < nz)%nat -> length (nth i thetaVals nil) = n) ->
  (forall i k : nat, (i < nz)%nat -> (k < n)%nat -> length (nth k (nth i thetaVals nil) nil) = nq) ->
  (forall i k q : nat,
  (i < nz)%nat ->
  (k < n)%nat ->
  (q < nq)%nat -> ev (nth i cs nil) (nth q (nth k (nth i thetaVals nil) nil) (sp0 K)) = SpOk (V i k q)) ->
  pgr_parallel_gradient F K ev nz nq n cs thetaVals (pgr_shifts n) coeffs bz inv_dz =
  SpOk (map (fun z : nat => map (fun q : nat => pgr_val F K nz n coeffs bz inv_dz V z q) (seq 0 nq)) (seq 0 nz)).
Proof. exact pgr_pargrad_formula. Qed.
Print Assumptions c13_pargrad_formula.

(** linearity in the potential (through the spline values) *)
Theorem c13_pargrad_linear :
  forall (F : Type) (K : sp_ops F),
  sp_laws K ->
  forall (nz n : nat) (coeffs : list F) (bz inv_dz : F) (V1 V2 V3 : nat -> nat -> nat -> F) (a b : F) (z q : nat),
  (forall m k : nat, V3 m k q = spadd K (spmul K a (V1 m k q)) (spmul K b (V2 m k q))) ->
  pgr_val F K nz n coeffs bz inv_dz V3 z q =
  spadd K (spmul K a (pgr_val F K nz n coeffs bz inv_dz V1 z q))
  (spmul K b (pgr_val F K nz n coeffs bz inv_dz V2 z q)).
Proof. exact pgr_pargrad_linear. Qed.
Print Assumptions c13_pargrad_linear.

(** ... and the spline evaluation is linear in the coefficients *)
Theorem c13_ev_linear :
  forall (F : Type) (K : sp_ops F),
  sp_laws K ->
  forall (cu : bool) (knots : list F) (deg : nat) (a b : F) (c1 c2 c3 : list F) (x v1 v2 : F),
  length c1 = length c3 ->
  length c2 = length c3 ->
  (forall n : nat, nth n c3 (sp0 K) = spadd K (spmul K a (nth n c1 (sp0 K))) (spmul K b (nth n c2 (sp0 K)))) ->
  adv_ev F K cu knots deg c1 x = SpOk v1 ->
  adv_ev F K cu knots deg c2 x = SpOk v2 ->
  adv_ev F K cu knots deg c3 x = SpOk (spadd K (spmul K a v1) (spmul K b v2)).
Proof. exact adv_ev_linear. Qed.
Print Assumptions c13_ev_linear.

(** constants have zero gradient, from the zeroth moment condition of the certified weights *)
Theorem c13_pargrad_const_zero :
  forall (F : Type) (K : sp_ops F),
  sp_laws K ->
  forall (nz n : nat) (shifts : list Z) (coeffs : list F) (bz inv_dz : F) (V : nat -> nat -> nat -> F)
  (z q : nat) (c : F),
  pgr_moments_ok F K shifts coeffs = true ->
  length coeffs = n ->
  (2 <= n)%nat -> (forall m k : nat, V m k q = c) -> pgr_val F K nz n coeffs bz inv_dz V z q = sp0 K.
Proof. exact pgr_const_zero. Qed.
Print Assumptions c13_pargrad_const_zero.

(** a function that is constant along the field line through (z, theta_q) has zero gradient there *)
Theorem c13_aligned_zero :
  forall (F : Type) (K : sp_ops F),
  sp_laws K ->
  forall (nz n : nat) (coeffs : list F) (bz inv_dz : F) (V : nat -> nat -> nat -> F) (z q : nat) (g : F),
  length coeffs = n ->
  adv_sum F K n (fun k : nat => nth k coeffs (sp0 K)) = sp0 K ->
  (forall k : nat, (k < n)%nat -> V (fx_src nz z (nth k (pgr_shifts n) 0%Z)) k q = g) ->
  pgr_val F K nz n coeffs bz inv_dz V z q = sp0 K.
Proof. exact pgr_aligned_zero. Qed.
Print Assumptions c13_aligned_zero.

(** commutation with circular shifts in z *)
Theorem c13_commutes_with_z_shift :
  forall (F : Type) (K : sp_ops F) (nz n : nat) (coeffs : list F) (bz inv_dz : F) (V V' : nat -> nat -> nat -> F)
  (r : Z) (z q : nat),
  (0 < nz)%nat ->
  (forall m k : nat, (m < nz)%nat -> V' m k q = V (fx_src nz m r) k q) ->
  pgr_val F K nz n coeffs bz inv_dz V' z q = pgr_val F K nz n coeffs bz inv_dz V (fx_src nz z r) q.
Proof. exact pgr_commutes_with_z_shift. Qed.
Print Assumptions c13_commutes_with_z_shift.

(** even order: centred stencil -m..m *)
Theorem c13_centred_when_even :
  forall m k : nat,
  (k < 2 * m + 1)%nat ->
  nth k (pgr_shifts (2 * m + 1)) 0%Z = (Z.of_nat k - Z.of_nat m)%Z /\
  pgr_fwd (2 * m + 1) = m /\ pgr_bkwd (2 * m + 1) = m.
Proof. exact pgr_centred_when_even. Qed.
Print Assumptions c13_centred_when_even.

(** odd order: stencil 1-m..m *)
Theorem c13_shifts_odd_order :
  forall m k : nat,
  (1 <= m)%nat ->
  (k < 2 * m)%nat ->
  nth k (pgr_shifts (2 * m)) 0%Z = (Z.of_nat k + 1 - Z.of_nat m)%Z /\
  pgr_fwd (2 * m) = (m - 1)%nat /\ pgr_bkwd (2 * m) = m.
Proof. exact pgr_shifts_odd_order. Qed.
Print Assumptions c13_shifts_odd_order.

(** constants reproduce (uniform-cubic path): whenever the evaluation succeeds a theta-spline whose coefficients
    are all c has the value c - the hypothesis [V m k j = c] of c13_pargrad_const_zero for a constant potential *)
Theorem c13_ev_const_cu :
  forall (F : Type) (K : sp_ops F),
  sp_laws K ->
  forall (knots : list F) (deg : nat) (coeffs : list F) (c x v : F),
  (forall i : nat, (i < length coeffs)%nat -> nth i coeffs (sp0 K) = c) ->
  adv_ev F K true knots deg coeffs x = SpOk v -> v = c.
Proof. exact adv_ev_const_cu. Qed.
Print Assumptions c13_ev_const_cu.

(** the same on the general path (sorted knots, the span found is a non-empty interval) *)
Theorem c13_ev_const_nu :
  forall (F : Type) (K : sp_ops F),
  sp_laws K ->
  forall (knots : list F) (deg : nat) (coeffs : list F) (c x v : F),
  sp_sorted F K knots ->
  (forall s : nat, sp_nu_find_span F K knots deg x = SpOk s -> sp_span_ok F K knots s) ->
  (forall i : nat, (i < length coeffs)%nat -> nth i coeffs (sp0 K) = c) ->
  adv_ev F K false knots deg coeffs x = SpOk v -> v = c.
Proof. exact adv_ev_const_nu. Qed.
Print Assumptions c13_ev_const_nu.

(* ---- interpolate-then-operate: composed with C08 (AdvInterp.v) ---- *)

(** compute_interpolant (C08) on a constant potential on every z plane, the table of feet built by _getThetaVals for ANY rotational transform, certified weights: parallel_gradient returns zero everywhere (no hypothesis on spline values) *)
Theorem c13_interp_then_constants_zero :
  forall (F : Type) (K : sp_ops F),
  sp_laws K ->
  forall (cu : bool) (knots : list F) (deg : nat) (pi : F) (nz n : nat) (qVals : list F)
  (us cs A Ainv : list (list F)) (kappa dz iota R0 : F) (tv : list (list (list F)))
  (coeffs : list F) (bz inv_dz : F),
  let nb := ip_nbasis F K knots deg true cu in
  let twopi := spmul K (sp_two F K) pi in
  adv_trunc_ok F K ->
  sp_lt K (sp0 K) twopi ->
  ai_space F K cu knots deg (sp0 K) twopi ->
  (2 <= n)%nat ->
  (n <= nz)%nat ->
  length us = nz ->
  length cs = nz ->
  ip_colloc F K nb knots deg true cu qVals = SpOk A ->
  ip_inverse_ok F K nb A Ainv = true ->
  ip_rows_sum_one F K nb A ->
  (forall m : nat, (m < nz)%nat -> ip_interp1d F K knots deg true cu qVals (nth m us []) = SpOk (nth m cs [])) ->
  (forall m i : nat, (m < nz)%nat -> (i < nb)%nat -> nth i (nth m us []) (sp0 K) = kappa) ->
  pgr_theta_vals F K nz (pgr_shifts n) qVals dz iota R0 pi = SpOk tv ->
  pgr_moments_ok F K (pgr_shifts n) coeffs = true ->
  pgr_parallel_gradient F K (adv_ev F K cu knots deg) nz (length qVals) n cs tv (pgr_shifts n) coeffs bz inv_dz =
  SpOk (map (fun _ : nat => map (fun _ : nat => sp0 K) (seq 0 (length qVals))) (seq 0 nz)).
Proof. exact ai_pgr_interp_then_constants_zero. Qed.
Print Assumptions c13_interp_then_constants_zero.

(** shift invariance of uniform-cubic periodic splines: with periodic coefficients c[i] = g((i - r) mod n) ([ai_per g n r]), translating the point by t cells modulo the period and rotating the coefficients by t cells gives the same value ([ai_pt a o] = (a + o)*dx, the point of cell a with offset o) *)
Theorem c13_cu_shift_eval :
  forall (F : Type) (K : sp_ops F),
  sp_laws K ->
  forall (dx xmax fn : F) (rest : list F) (n : nat),
  adv_trunc_ok F K ->
  sp_lt K (sp0 K) dx ->
  (3 <= n)%nat ->
  sptrunc K fn = Z.of_nat n ->
  xmax = spmul K (sp_ofnat F K n) dx ->
  forall (g : Z -> F) (r t : Z) (a : nat) (o : F),
  (a < n)%nat ->
  sp_le K (sp0 K) o ->
  sp_lt K o (sp1 K) ->
  adv_ev F K true (sp0 K :: xmax :: dx :: fn :: rest) 3 (ai_per F g n (r + t))
  (adv_mod F K (spadd K (ai_pt F K dx a o) (spmul K (sp_ofZ F K t) dx)) xmax) =
  adv_ev F K true (sp0 K :: xmax :: dx :: fn :: rest) 3 (ai_per F g n r) (ai_pt F K dx a o).
Proof. exact ai_cu_shift_eval. Qed.
Print Assumptions c13_cu_shift_eval.

(** iota <> 0: when the twist per z cell iota*dz/R0 is a whole number c of theta cells and n | c*nz (the field line closes after the z period), the potentials whose theta-spline on plane m is the spline of plane 0 rotated by c*m cells - phi(theta, z_m) = phi_0(theta - iota*z_m/R0), constant along field lines, arbitrary periodic phi_0 in the spline space - have zero parallel gradient (certified weights).  When the twist per cell is not a whole number of theta cells, the translate of a non-constant spline by the twist has knots off the lattice and is not in the space: no non-constant field-aligned potential is representable plane by plane, and c13_aligned_zero then speaks about approximations only *)
Theorem c13_aligned_family_zero :
  forall (F : Type) (K : sp_ops F),
  sp_laws K ->
  forall (dx xmax fn : F) (rest : list F) (n : nat),
  adv_trunc_ok F K ->
  sp_lt K (sp0 K) dx ->
  (3 <= n)%nat ->
  sptrunc K fn = Z.of_nat n ->
  xmax = spmul K (sp_ofnat F K n) dx ->
  forall (g : Z -> F) (c : Z) (pi : F) (nz nord : nat) (qVals : list F) (aq : nat -> nat)
  (oq : nat -> F) (cs : list (list F)) (dz iota R0 : F) (tv : list (list (list F)))
  (coeffs : list F) (bz inv_dz : F),
  spmul K (sp_two F K) pi = xmax ->
  R0 <> sp0 K ->
  spdiv K (spmul K iota dz) R0 = spmul K (sp_ofZ F K c) dx ->
  ((c * Z.of_nat nz) mod Z.of_nat n)%Z = 0%Z ->
  (2 <= nord)%nat ->
  (nord <= nz)%nat ->
  length cs = nz ->
  (forall q : nat,
  (q < length qVals)%nat ->
  nth q qVals (sp0 K) = ai_pt F K dx (aq q) (oq q) /\
  (aq q < n)%nat /\ sp_le K (sp0 K) (oq q) /\ sp_lt K (oq q) (sp1 K)) ->
  (forall m : nat, (m < nz)%nat -> nth m cs [] = ai_per F g n (c * Z.of_nat m)) ->
  pgr_theta_vals F K nz (pgr_shifts nord) qVals dz iota R0 pi = SpOk tv ->
  pgr_moments_ok F K (pgr_shifts nord) coeffs = true ->
  pgr_parallel_gradient F K (adv_ev F K true (sp0 K :: xmax :: dx :: fn :: rest) 3) nz
  (length qVals) nord cs tv (pgr_shifts nord) coeffs bz inv_dz =
  SpOk (map (fun _ : nat => map (fun _ : nat => sp0 K) (seq 0 (length qVals))) (seq 0 nz)).
Proof. exact ai_pgr_aligned_family_zero. Qed.
Print Assumptions c13_aligned_family_zero.

Theorem c13_qc_instance : sp_laws spq_ops.
Proof. exact spq_laws. Qed.
Print Assumptions c13_qc_instance.

(* ---- non-vacuity on Qc: order 2 and order 3 on nz = 5, uniform cubic theta spline, pi := 22/7 ---- *)
Definition c13_ex_pi : Qc := spq_of 22 7.
Definition c13_ex_knots : list Qc := [spq_of 0 1; spq_of 44 7; spq_of 11 7; spq_of 4 1].
Definition c13_ex_q : list Qc := [spq_of 0 1; spq_of 11 7; spq_of 22 7; spq_of 33 7].
Definition c13_ex_cs : list (list Qc) :=
  map (fun m => map (fun t => spq_of (Z.of_nat ((m * 3 + t * 5) mod 11)) 3) [0; 1; 2; 3; 0; 1; 2]%nat) (seq 0 5).
Definition c13_ex_tv (n : nat) := pgrq_theta_vals 5 (pgr_shifts n) c13_ex_q (spq_of 1 2) (spq_of 4 5) (spq_of 3 1) c13_ex_pi.
Definition c13_ex_V (tv : list (list (list Qc))) (i k q : nat) : Qc :=
  match advq_ev true c13_ex_knots 3 (nth i c13_ex_cs []) (nth q (nth k (nth i tv []) []) (Q2Qc 0)) with SpOk v => v | _ => Q2Qc 0 end.
Definition c13_ex_w2 : list Qc := [spq_of (-1) 2; spq_of 0 1; spq_of 1 2].
Definition c13_ex_w3 : list Qc := [spq_of (-1) 3; spq_of (-1) 2; spq_of 1 1; spq_of (-1) 6].
Example c13_ex_weights :
  pgrq_steps 3 = ([-1; 0; 1]%Z, 1%nat, 1%nat) /\ pgrq_steps 4 = ([-1; 0; 1; 2]%Z, 1%nat, 2%nat)
  /\ pgrq_steps 7 = ([-3; -2; -1; 0; 1; 2; 3]%Z, 3%nat, 3%nat)
  /\ pgrq_moments_ok [-1; 0; 1]%Z c13_ex_w2 = true /\ pgrq_moments_ok [-1; 0; 1; 2]%Z c13_ex_w3 = true
  /\ pgrq_moments_ok [-1; 0; 1]%Z [spq_of (-1) 2; spq_of 1 1; spq_of 1 2] = false.
Proof. vm_compute. repeat split. Qed.
Example c13_ex_gradient :
  match c13_ex_tv 3, c13_ex_tv 4 with
  | SpOk tv3, SpOk tv4 =>
      pgrq_parallel_gradient 5 4 3 c13_ex_cs tv3 (pgr_shifts 3) c13_ex_w2 (spq_of 9 10) (spq_of 2 1) c13_ex_knots 3 true
      = SpOk (map (fun z => map (fun q => pgr_val Qc spq_ops 5 3 c13_ex_w2 (spq_of 9 10) (spq_of 2 1) (c13_ex_V tv3) z q) (seq 0 4)) (seq 0 5))
      /\ pgrq_parallel_gradient 5 4 4 c13_ex_cs tv4 (pgr_shifts 4) c13_ex_w3 (spq_of 9 10) (spq_of 2 1) c13_ex_knots 3 true
      = SpOk (map (fun z => map (fun q => pgr_val Qc spq_ops 5 4 c13_ex_w3 (spq_of 9 10) (spq_of 2 1) (c13_ex_V tv4) z q) (seq 0 4)) (seq 0 5))
      /\ (exists d, pgrq_parallel_gradient 5 4 4 c13_ex_cs tv4 (pgr_shifts 4) c13_ex_w3 (spq_of 9 10) (spq_of 2 1) c13_ex_knots 3 true = SpOk d
                    /\ spq_show (nth 0 (nth 0 d []) (Q2Qc 0)) <> (0%Z, 1%positive))
  | _, _ => False end.
Proof. vm_compute. split; [reflexivity|split; [reflexivity|]]. eexists. split; [reflexivity|]. discriminate. Qed.

(* ---- non-vacuity of the interpolate-then-gradient theorems and of the field-aligned family (iota <> 0) ---- *)
(* uniform cubic, 4 theta cells of width 11/7, nz = 4, order 2; twist per z cell = 1 theta cell:
   iota*dz/R0 = 11/7 with dz = 1, R0 = 1, iota = 11/7;  c*nz = 4 = n *)
Definition c13_ex_g (i : Z) : Qc := nth (Z.to_nat i) [spq_of 1 1; spq_of 5 1; spq_of 2 1; spq_of 7 1] (Q2Qc 0).
Definition c13_ex_rows : list (list Qc) := map (fun m => ai_per Qc c13_ex_g 4 (1 * Z.of_nat m)) (seq 0 4).
Definition c13_ex_tv1 := pgrq_theta_vals 4 (pgr_shifts 3) c13_ex_q (spq_of 1 1) (spq_of 11 7) (spq_of 1 1) c13_ex_pi.
Example c13_ex_aligned_family :
  match c13_ex_tv1 with
  | SpOk tv =>
      (* the family: zero gradient *)
      advq_show_rows (pgrq_parallel_gradient 4 4 3 c13_ex_rows tv (pgr_shifts 3) c13_ex_w2 (spq_of 9 10) (spq_of 1 1) c13_ex_knots 3 true)
      = advq_show_rows (SpOk (map (fun _ => map (fun _ => Q2Qc 0) (seq 0 4)) (seq 0 4)))
      (* it is not trivial: the planes differ, and the same plane repeated (not field aligned) has a non-zero gradient *)
      /\ map spq_show (nth 0 c13_ex_rows []) <> map spq_show (nth 1 c13_ex_rows [])
      /\ advq_show_rows (pgrq_parallel_gradient 4 4 3 (map (fun _ => nth 0 c13_ex_rows []) (seq 0 4)) tv (pgr_shifts 3) c13_ex_w2
                           (spq_of 9 10) (spq_of 1 1) c13_ex_knots 3 true)
         <> advq_show_rows (SpOk (map (fun _ => map (fun _ => Q2Qc 0) (seq 0 4)) (seq 0 4)))
  | _ => False end.
Proof. vm_compute. split; [reflexivity|split; discriminate]. Qed.
Example c13_ex_interp_then_constants_zero :
  match c13_ex_tv 4, ip_interp1d Qc spq_ops c13_ex_knots 3 true true c13_ex_q [spq_of 5 3; spq_of 5 3; spq_of 5 3; spq_of 5 3] with
  | SpOk tv, SpOk c =>
      advq_show_rows (pgrq_parallel_gradient 5 4 4 [c; c; c; c; c] tv (pgr_shifts 4) c13_ex_w3 (spq_of 9 10) (spq_of 2 1) c13_ex_knots 3 true)
      = advq_show_rows (SpOk (map (fun _ => map (fun _ => Q2Qc 0) (seq 0 4)) (seq 0 5)))
  | _, _ => False end.
Proof. vm_compute. reflexivity. Qed.
