(** C10 - flux-surface advection is a field-aligned shift along z.
    Only statements, [exact]s and [Print Assumptions]; the proofs live in FluxAdv.v / AdvCommon.v.
    The model (FluxAdv.v) mirrors get_lagrange_vals / flux_advection / FluxSurfaceAdvection.step /
    _getLagrangePts as written (uninitialised [vals], row bookkeeping (i - s) % nz, first barycentric
    form with the on-node [where]); every theorem holds for every field with a compatible decidable
    total order ([sp_laws]), hence for the instance on Qc that is extracted and run.  [ev] is the
    theta-spline evaluator (any function; the executed one is [adv_ev cu knots deg] = the
    eval_spline_1d_scalar of SplineModel.v chosen by cubic_uniform_splines).

    Reading of the formula: V m k j is the theta-spline of z-row m evaluated at
    (theta_k + thetaShift_j) mod 2 pi;  fx_src nz i s = (i + s) mod nz;  fx_new k i is the value that
    step writes at (theta_k, z_i):  sum_j c_j * V ((i + s_j) mod nz) k j.

    NOT proved here: convergence order; rounding; that the theta-spline interpolates the data (C08 - it
    enters c10_integer_shift_exact and c10_preserves_constants only as a hypothesis on the values);
    the grid-level loops (C05). *)
From Coq Require Import List Arith Lia ZArith Bool QArith Qcanon.
Import ListNotations.
From PGV Require Import BasisCoxDeBoor FindSpan CubicUniform Sums SplineModel SplineTheory SplineQc
  InterpModel InterpTheory AdvCommon FluxAdv VParAdv ParGrad AdvInterp AdvQc.

(** the property's first sentence: step returns, at (theta_k, z_i), sum_j c_j * S_{(i+s_j) mod nz}(wrap(theta_k + thetaShift_j)); in particular it does not raise and reads no unwritten cell of [vals] *)
Theorem c10_step_formula :
  forall (F : Type) (K : sp_ops F),
  sp_laws K ->
  forall (ev : list F -> F -> sp_res F) (pi : F) (nz : nat) (qVals : list F) (cs : list (list F))
  (shifts : list Z) (tss lc : list F) (V : nat -> nat -> nat -> F),
  (0 < nz)%nat ->
  spmul K (sp_two F K) pi <> sp0 K ->
  length cs = nz ->
  length tss = length shifts ->
  (forall m k j : nat,
  (m < nz)%nat ->
  (k < length qVals)%nat ->
  (j < length shifts)%nat ->
  ev (nth m cs nil) (adv_mod F K (spadd K (nth k qVals (sp0 K)) (nth j tss (sp0 K))) (spmul K (sp_two F K) pi)) =
  SpOk (V m k j)) ->
  length lc = length shifts ->
  (0 < length shifts)%nat ->
  fx_step F K ev pi nz qVals cs shifts tss lc =
  SpOk (map (fun k : nat => map (fun i : nat => fx_new F K nz shifts lc V k i) (seq 0 nz)) (seq 0 (length qVals))).
Proof. exact fx_step_formula. Qed.
Print Assumptions c10_step_formula.

(** the left-to-right accumulation of flux_advection is the sum *)
Theorem c10_new_sum :
  forall (F : Type) (K : sp_ops F),
  sp_laws K ->
  forall (nz : nat) (shifts : list Z) (lc : list F) (V : nat -> nat -> nat -> F),
  length lc = length shifts ->
  forall k i : nat,
  fx_new F K nz shifts lc V k i =
  adv_sum F K (length shifts) (fun j : nat => spmul K (nth j lc (sp0 K)) (V (fx_src nz i (nth j shifts 0%Z)) k j)).
Proof. exact fx_new_sum. Qed.
Print Assumptions c10_new_sum.

(** the degree-5 coefficients of _getLagrangePts (any six pairwise distinct nodes, foot anywhere) sum to one *)
Theorem c10_lagrange_sum_one :
  forall (F : Type) (K : sp_ops F),
  sp_laws K ->
  forall x t0 t1 t2 t3 t4 t5 : F,
  t0 <> t1 ->
  t0 <> t2 ->
  t0 <> t3 ->
  t0 <> t4 ->
  t0 <> t5 ->
  t1 <> t2 ->
  t1 <> t3 ->
  t1 <> t4 ->
  t1 <> t5 ->
  t2 <> t3 ->
  t2 <> t4 ->
  t2 <> t5 ->
  t3 <> t4 ->
  t3 <> t5 ->
  t4 <> t5 ->
  adv_sum F K 6 (fun j : nat => nth j (fx_lag_coeffs F K (t0 :: t1 :: t2 :: t3 :: t4 :: t5 :: nil) x) (sp0 K)) =
  sp1 K.
Proof. exact fx_lagrange_sum_one. Qed.
Print Assumptions c10_lagrange_sum_one.

(** foot on a stencil node: the coefficients are the indicator of that node (any number of nodes) *)
Theorem c10_lagrange_on_node :
  forall (F : Type) (K : sp_ops F),
  sp_laws K ->
  forall (zPts : list F) (j0 : nat),
  (j0 < length zPts)%nat ->
  (forall j : nat, (j < length zPts)%nat -> j <> j0 -> nth j zPts (sp0 K) <> nth j0 zPts (sp0 K)) ->
  forall j : nat,
  (j < length zPts)%nat ->
  nth j (fx_lag_coeffs F K zPts (nth j0 zPts (sp0 K))) (sp0 K) = (if (j =? j0)%nat then sp1 K else sp0 K).
Proof. exact fx_lagrange_on_node. Qed.
Print Assumptions c10_lagrange_on_node.

(** constants are preserved (given that the theta-splines reproduce the constant and the coefficients sum to one) *)
Theorem c10_preserves_constants :
  forall (F : Type) (K : sp_ops F),
  sp_laws K ->
  forall (nz : nat) (shifts : list Z) (lc : list F) (V : nat -> nat -> nat -> F) (c : F) (k i : nat),
  length lc = length shifts ->
  (forall m j : nat, V m k j = c) ->
  adv_sum F K (length lc) (fun j : nat => nth j lc (sp0 K)) = sp1 K -> fx_new F K nz shifts lc V k i = c.
Proof. exact fx_preserves_constants. Qed.
Print Assumptions c10_preserves_constants.

(** the step is linear in the advected function (through the values of the theta-splines) *)
Theorem c10_step_linear :
  forall (F : Type) (K : sp_ops F),
  sp_laws K ->
  forall (nz : nat) (shifts : list Z) (lc : list F) (V1 V2 V3 : nat -> nat -> nat -> F) (a b : F) (k i : nat),
  length lc = length shifts ->
  (forall m j : nat, V3 m k j = spadd K (spmul K a (V1 m k j)) (spmul K b (V2 m k j))) ->
  fx_new F K nz shifts lc V3 k i =
  spadd K (spmul K a (fx_new F K nz shifts lc V1 k i)) (spmul K b (fx_new F K nz shifts lc V2 k i)).
Proof. exact fx_step_linear. Qed.
Print Assumptions c10_step_linear.

(** ... and the theta-spline evaluation is linear in the spline coefficients *)
Theorem c10_ev_linear :
  forall (F : Type) (K : sp_ops F),
  sp_laws K ->
  forall (cu : bool) (knots : list F) (deg : nat) (a b : F) (c1 c2 c3 : list F) (x v1 v2 : F),
  length c1 = length c3 ->
  length c2 = length c3 ->
  (forall n : nat, nth n c3 (sp0 K) = spadd K (spmul K a (nth n c1 (sp0 K))) (spmul K b (nth n c2 (sp0 K)))) ->
  adv_ev F K cu knots deg c1 x = SpOk v1 ->
  adv_ev F K cu knots deg c2 x = SpOk v2 ->
  adv_ev F K cu knots deg c3 x = SpOk (spadd K (spmul K a v1) (spmul K b v2)).
Proof. exact adv_ev_linear. Qed.
Print Assumptions c10_ev_linear.

(** the step commutes with circular shifts in z *)
Theorem c10_commutes_with_z_shift :
  forall (F : Type) (K : sp_ops F) (nz : nat) (shifts : list Z) (lc : list F) (V V' : nat -> nat -> nat -> F)
  (r : Z) (k i : nat),
  (0 < nz)%nat ->
  (forall m j : nat, (m < nz)%nat -> V' m k j = V (fx_src nz m r) k j) ->
  fx_new F K nz shifts lc V' k i = fx_new F K nz shifts lc V k (fx_src nz i r).
Proof. exact fx_commutes_with_z_shift. Qed.
Print Assumptions c10_commutes_with_z_shift.

(** displacement of a whole number of cells, no twist: exact circular shift by s_{j0} cells *)
Theorem c10_integer_shift_exact :
  forall (F : Type) (K : sp_ops F),
  sp_laws K ->
  forall (nz : nat) (shifts : list Z) (zPts : list F) (V : nat -> nat -> nat -> F) (f : nat -> nat -> F)
  (j0 k i : nat),
  length zPts = length shifts ->
  (j0 < length zPts)%nat ->
  (forall j : nat, (j < length zPts)%nat -> j <> j0 -> nth j zPts (sp0 K) <> nth j0 zPts (sp0 K)) ->
  (forall m j : nat, V m k j = f k m) ->
  fx_new F K nz shifts (fx_lag_coeffs F K zPts (nth j0 zPts (sp0 K))) V k i =
  f k (fx_src nz i (nth j0 shifts 0%Z)).
Proof. exact fx_integer_shift_exact. Qed.
Print Assumptions c10_integer_shift_exact.

(** the stencil is centred on the foot for either sign of the displacement (floor, not truncation) *)
Theorem c10_stencil_centred :
  forall (F : Type) (K : sp_ops F),
  sp_laws K ->
  forall zDist dz : F,
  adv_trunc_ok F K ->
  fx_shifts F K 6 zDist dz =
  map (Z.add (adv_floor F K (spdiv K zDist dz))) ((-2)%Z :: (-1)%Z :: 0%Z :: 1%Z :: 2%Z :: 3%Z :: nil) /\
  sp_le K (sp_ofZ F K (nth 2 (fx_shifts F K 6 zDist dz) 0%Z)) (spdiv K zDist dz) /\
  sp_lt K (spdiv K zDist dz) (sp_ofZ F K (nth 3 (fx_shifts F K 6 zDist dz) 0%Z)).
Proof. exact fx_stencil_centred. Qed.
Print Assumptions c10_stencil_centred.

(** constants reproduce (uniform-cubic path): whenever the evaluation succeeds a theta-spline whose coefficients
    are all c has the value c - the hypothesis [V m k j = c] of c10_preserves_constants for constant data *)
Theorem c10_ev_const_cu :
  forall (F : Type) (K : sp_ops F),
  sp_laws K ->
  forall (knots : list F) (deg : nat) (coeffs : list F) (c x v : F),
  (forall i : nat, (i < length coeffs)%nat -> nth i coeffs (sp0 K) = c) ->
  adv_ev F K true knots deg coeffs x = SpOk v -> v = c.
Proof. exact adv_ev_const_cu. Qed.
Print Assumptions c10_ev_const_cu.

(** the same on the general path (sorted knots, the span found is a non-empty interval) *)
Theorem c10_ev_const_nu :
  forall (F : Type) (K : sp_ops F),
  sp_laws K ->
  forall (knots : list F) (deg : nat) (coeffs : list F) (c x v : F),
  sp_sorted F K knots ->
  (forall s : nat, sp_nu_find_span F K knots deg x = SpOk s -> sp_span_ok F K knots s) ->
  (forall i : nat, (i < length coeffs)%nat -> nth i coeffs (sp0 K) = c) ->
  adv_ev F K false knots deg coeffs x = SpOk v -> v = c.
Proof. exact adv_ev_const_nu. Qed.
Print Assumptions c10_ev_const_nu.

(* ---- interpolate-then-operate: composed with C08 (AdvInterp.v) ---- *)

(** compute_interpolant (C08: ip_interp1d) on a constant field on every z plane, then the flux step: the constant, for any twist and any displacement. No hypothesis on spline values is left: [ai_space] = the space is regular (sorted knots with non-empty end cells, or xmin <= 0, 2pi <= xmax = xmin + ncells*dx, dx > 0) so that evaluation does not raise on [0, 2pi]; the inverse certificate and the unit row sums are C08's (c08_inverse_spec, c08_rows_sum_one_cubic / _nu); sum of the Lagrange coefficients: c10_lagrange_sum_one *)
Theorem c10_interp_then_step_constants :
  forall (F : Type) (K : sp_ops F),
  sp_laws K ->
  forall (cu : bool) (knots : list F) (deg : nat) (pi : F) (nz : nat) (qVals : list F)
  (us cs A Ainv : list (list F)) (kappa : F) (shifts : list Z) (tss lc : list F),
  let nb := ip_nbasis F K knots deg true cu in
  let twopi := spmul K (sp_two F K) pi in
  adv_trunc_ok F K ->
  sp_lt K (sp0 K) twopi ->
  ai_space F K cu knots deg (sp0 K) twopi ->
  (0 < nz)%nat ->
  length us = nz ->
  length cs = nz ->
  ip_colloc F K nb knots deg true cu qVals = SpOk A ->
  ip_inverse_ok F K nb A Ainv = true ->
  ip_rows_sum_one F K nb A ->
  (forall m : nat, (m < nz)%nat -> ip_interp1d F K knots deg true cu qVals (nth m us []) = SpOk (nth m cs [])) ->
  (forall m i : nat, (m < nz)%nat -> (i < nb)%nat -> nth i (nth m us []) (sp0 K) = kappa) ->
  length tss = length shifts ->
  length lc = length shifts ->
  (0 < length shifts)%nat ->
  adv_sum F K (length lc) (fun j : nat => nth j lc (sp0 K)) = sp1 K ->
  fx_step F K (adv_ev F K cu knots deg) pi nz qVals cs shifts tss lc =
  SpOk (map (fun _ : nat => map (fun _ : nat => kappa) (seq 0 nz)) (seq 0 (length qVals))).
Proof. exact ai_fx_interp_then_step_constants. Qed.
Print Assumptions c10_interp_then_step_constants.

(** compute_interpolant on arbitrary nodal data us[m][k] = f(theta_k, z_m), displacement a whole number of cells (foot = stencil node j0), no twist: the flux step returns exactly the circular shift f(theta_k, z_{(i+s_j0) mod nz}) of the nodal data (C08 c08_interp1d_exact composed with c10_step_formula and c10_lagrange_on_node) *)
Theorem c10_interp_then_integer_shift :
  forall (F : Type) (K : sp_ops F),
  sp_laws K ->
  forall (cu : bool) (knots : list F) (deg : nat) (pi : F) (nz : nat) (qVals : list F)
  (us cs : list (list F)) (shifts : list Z) (tss zPts : list F) (j0 : nat),
  let nb := ip_nbasis F K knots deg true cu in
  let twopi := spmul K (sp_two F K) pi in
  adv_trunc_ok F K ->
  sp_lt K (sp0 K) twopi ->
  (0 < nz)%nat ->
  length us = nz ->
  length cs = nz ->
  length qVals = nb ->
  (forall k : nat, (k < nb)%nat -> sp_le K (sp0 K) (nth k qVals (sp0 K)) /\ sp_lt K (nth k qVals (sp0 K)) twopi) ->
  ip_spans_in_range F K knots deg true cu qVals ->
  (forall m : nat, (m < nz)%nat -> ip_interp1d F K knots deg true cu qVals (nth m us []) = SpOk (nth m cs [])) ->
  length tss = length shifts ->
  (forall j : nat, (j < length shifts)%nat -> nth j tss (sp0 K) = sp0 K) ->
  length zPts = length shifts ->
  (j0 < length zPts)%nat ->
  (forall j : nat, (j < length zPts)%nat -> j <> j0 -> nth j zPts (sp0 K) <> nth j0 zPts (sp0 K)) ->
  fx_step F K (adv_ev F K cu knots deg) pi nz qVals cs shifts tss (fx_lag_coeffs F K zPts (nth j0 zPts (sp0 K))) =
  SpOk
  (map
  (fun k : nat =>
  map (fun i : nat => nth k (nth (fx_src nz i (nth j0 shifts 0%Z)) us []) (sp0 K)) (seq 0 nz))
  (seq 0 (length qVals))).
Proof. exact ai_fx_interp_then_integer_shift. Qed.
Print Assumptions c10_interp_then_integer_shift.

(** a spline with constant coefficients is that constant on every point of [lo, hi] (both evaluation paths, no success hypothesis) *)
Theorem c10_const_spline :
  forall (F : Type) (K : sp_ops F),
  sp_laws K ->
  forall (cu : bool) (knots : list F) (deg : nat) (lo hi : F) (c : list F) (kappa x : F),
  ai_space F K cu knots deg lo hi ->
  length c = ip_ncoeffs F K knots deg cu ->
  (forall i : nat, (i < length c)%nat -> nth i c (sp0 K) = kappa) ->
  sp_le K lo x -> sp_le K x hi -> adv_ev F K cu knots deg c x = SpOk kappa.
Proof. exact ai_const_spline. Qed.
Print Assumptions c10_const_spline.

(** Python's % with a positive modulus lands in [0, m): the wrapped feet are in the theta domain *)
Theorem c10_mod_range :
  forall (F : Type) (K : sp_ops F),
  sp_laws K ->
  forall x m : F,
  adv_trunc_ok F K -> sp_lt K (sp0 K) m -> sp_le K (sp0 K) (adv_mod F K x m) /\ sp_lt K (adv_mod F K x m) m.
Proof. exact ai_mod_range. Qed.
Print Assumptions c10_mod_range.

(** the executed instance satisfies the hypotheses [sp_laws] and [adv_trunc_ok] *)
Theorem c10_qc_instance : sp_laws spq_ops /\ adv_trunc_ok Qc spq_ops.
Proof. exact (conj spq_laws advq_trunc_ok). Qed.
Print Assumptions c10_qc_instance.

(* ---- non-vacuity: a concrete uniform-cubic instance on Qc (pi := 22/7, 4 theta cells, nz = 7) ---- *)
Definition c10_ex_pi : Qc := spq_of 22 7.
Definition c10_ex_knots : list Qc := [spq_of 0 1; spq_of 44 7; spq_of 11 7; spq_of 4 1].
Definition c10_ex_q : list Qc := [spq_of 0 1; spq_of 11 7; spq_of 22 7; spq_of 33 7].
Definition c10_ex_cs : list (list Qc) :=
  map (fun m => map (fun t => spq_of (Z.of_nat ((m * 5 + t * 3) mod 7)) 2) [0; 1; 2; 3; 0; 1; 2]%nat) (seq 0 7).
(* dz = 1/2, dtheta = 1/5, zDist = -13/10 (negative, 2.6 cells), z = 1/2 *)
Definition c10_ex_pts := fxq_get_lagrange_pts 6 (spq_of 1 2) (spq_of 1 5) (spq_of (-13) 10) (spq_of 1 2).
Definition c10_ex_V (sh : list Z) (tss : list Qc) (m k j : nat) : Qc :=
  match advq_ev true c10_ex_knots 3 (nth m c10_ex_cs []) (advq_mod (nth k c10_ex_q (Q2Qc 0) + nth j tss (Q2Qc 0)) (sp_two Qc spq_ops * c10_ex_pi))%Qc with
  | SpOk v => v | _ => Q2Qc 0 end.
Example c10_ex_lagrange :
  match c10_ex_pts with
  | SpOk (sh, tss, lc) =>
      sh = [-5; -4; -3; -2; -1; 0]%Z /\ spq_show (adv_sum Qc spq_ops 6 (fun j => nth j lc (Q2Qc 0))) = (1%Z, 1%positive)
      /\ map spq_show tss = map spq_show (map (fun s => spq_of s 5) sh)
  | _ => False end.
Proof. vm_compute. repeat split. Qed.
Example c10_ex_step :
  match c10_ex_pts with
  | SpOk (sh, tss, lc) =>
      fxq_step c10_ex_pi 7 c10_ex_q c10_ex_cs sh tss lc c10_ex_knots 3 true
      = SpOk (map (fun k => map (fun i => fx_new Qc spq_ops 7 sh lc (c10_ex_V sh tss) k i) (seq 0 7)) (seq 0 4))
      /\ forallb (fun m => forallb (fun k => forallb (fun j =>
            match advq_ev true c10_ex_knots 3 (nth m c10_ex_cs []) (advq_mod (nth k c10_ex_q (Q2Qc 0) + nth j tss (Q2Qc 0)) (sp_two Qc spq_ops * c10_ex_pi))%Qc with
            | SpOk _ => true | _ => false end) (seq 0 6)) (seq 0 4)) (seq 0 7) = true
  | _ => False end.
Proof. vm_compute. split; reflexivity. Qed.
(* foot on a node: zDist = -3/2 = -3 dz: indicator of the node with shift -3, i.e. an exact shift *)
Example c10_ex_on_node :
  match fxq_get_lagrange_pts 6 (spq_of 1 2) (spq_of 0 1) (spq_of (-3) 2) (spq_of 1 2) with
  | SpOk (sh, tss, lc) => sh = [-5; -4; -3; -2; -1; 0]%Z /\ map spq_show lc = map spq_show [Q2Qc 0; Q2Qc 0; Q2Qc 1; Q2Qc 0; Q2Qc 0; Q2Qc 0]
  | _ => False end.
Proof. vm_compute. repeat split. Qed.

(* ---- non-vacuity of the interpolate-then-step theorems: uniform cubic, 4 theta cells, nz = 7 ---- *)
Definition c10_ex_us : list (list Qc) :=
  map (fun m => map (fun t => spq_of (Z.of_nat ((m * 3 + t * 5) mod 11)) 2) [0; 1; 2; 3]%nat) (seq 0 7).
Definition c10_ex_ics : list (list Qc) :=
  map (fun u => match ip_interp1d Qc spq_ops c10_ex_knots 3 true true c10_ex_q u with SpOk c => c | _ => [] end) c10_ex_us.
Example c10_ex_interp_then_integer_shift :
  (* the interpolations succeed; foot on the node with shift -3 (zDist = -3 dz), no twist *)
  forallb (fun u => match ip_interp1d Qc spq_ops c10_ex_knots 3 true true c10_ex_q u with SpOk _ => true | _ => false end) c10_ex_us = true
  /\ match fxq_get_lagrange_pts 6 (spq_of 1 2) (spq_of 0 1) (spq_of (-3) 2) (spq_of 1 2) with
     | SpOk (sh, tss, lc) =>
         advq_show_rows (fxq_step c10_ex_pi 7 c10_ex_q c10_ex_ics sh tss lc c10_ex_knots 3 true)
         = advq_show_rows (SpOk (map (fun k => map (fun i => nth k (nth (fx_src 7 i (-3)) c10_ex_us []) (Q2Qc 0)) (seq 0 7)) (seq 0 4)))
     | _ => False end.
Proof. vm_compute. split; reflexivity. Qed.
Example c10_ex_interp_then_constants :
  (* constant field 5/3, twist and a 2.6-cell negative displacement (c10_ex_pts) *)
  match c10_ex_pts, ip_interp1d Qc spq_ops c10_ex_knots 3 true true c10_ex_q [spq_of 5 3; spq_of 5 3; spq_of 5 3; spq_of 5 3] with
  | SpOk (sh, tss, lc), SpOk c =>
      advq_show_rows (fxq_step c10_ex_pi 7 c10_ex_q [c; c; c; c; c; c; c] sh tss lc c10_ex_knots 3 true)
      = advq_show_rows (SpOk (map (fun _ => map (fun _ => spq_of 5 3) (seq 0 7)) (seq 0 4)))
  | _, _ => False end.
Proof. vm_compute. reflexivity. Qed.
