(** C18 — checkpoints round-trip exactly and a restarted run continues the original one.
    Only statements, [exact]s and [Print Assumptions]; proofs live in Checkpoint.v, Driver.v, CkNames.v.
    The pinned tree violated several clauses (final-window rows, rows after unaligned restarts, latest file for
    t >= 10^6, float time steps); they are repaired in /repo and the theorems below describe the repaired code. *)
From Coq Require Import List Arith NArith ZArith Lia Permutation.
Import ListNotations.
From PGV Require Import Blocks NdIndex Checkpoint Driver CkNames ConstantsIO.

(** ** checkpoint files *)

(** After all ranks of the process grid [grd] (in any order, [ranks] may list them in any way) have
    written their hyperslab, every rank [crd'] of ANY process grid [grd'] reads exactly the cells of
    the global field that belong to its own block - payloads are only copied, for any number of axes,
    any extents (also extents not divisible by the grid, also empty blocks). *)
Theorem write_read_any_grid : forall (V : Type) shp grd (fld : list nat -> V) ranks grd' crd',
  ck_grid_ok shp grd -> (forall c, inb grd c -> In c ranks) ->
  ck_grid_ok shp grd' -> inb grd' crd' ->
  ck_read V shp grd' crd' (ck_write_all V shp grd ranks fld) = map Some (ck_block V shp grd' crd' fld).
Proof. exact ck_write_read_any_grid. Qed.
Print Assumptions write_read_any_grid.

(** the file itself is the global array in row-major order of the recorded layout *)
Theorem file_is_global_array : forall (V : Type) shp grd (fld : list nat -> V) ranks,
  ck_grid_ok shp grd -> (forall c, inb grd c -> In c ranks) ->
  forall g, inb shp g -> nth (ravel shp g) (ck_write_all V shp grd ranks fld) None = Some (fld g).
Proof. exact ck_file_is_global. Qed.
Print Assumptions file_is_global_array.

(** every cell has a single writer (the collective write has no overlapping hyperslabs) ... *)
Theorem single_writer : forall shp grd c1 c2 g,
  Forall (fun p => 0 < p) grd -> inb grd c1 -> inb grd c2 ->
  ck_inblockb shp grd c1 g = true -> ck_inblockb shp grd c2 g = true -> c1 = c2.
Proof. exact ck_owner_unique. Qed.
Print Assumptions single_writer.

(** ... and a cell whose owner did not write is visibly missing (the model does not invent data) *)
Theorem unwritten_cell_is_none : forall (V : Type) shp grd (fld : list nat -> V) ranks A,
  A < size shp -> (forall c, In c ranks -> ck_inblockb shp grd c (unravel shp A) = false) ->
  nth A (ck_write_all V shp grd ranks fld) None = None.
Proof. exact ck_unwritten_none. Qed.
Print Assumptions unwritten_cell_is_none.

(** ** which checkpoint is the latest (repaired selection 2367528 / a4e5b38:
       max(files, key = float(time text of the name)), t = that float, int when integral) *)

(** time stamps in half units (t = h/2; int stamps "{:06}".format(int), float stamps of a float time
    step "{:06}".format(float), e.g. grid_0001.5.h5): the key read back from a name is the time written *)
Theorem name_time_roundtrip : forall s, ck_stamp_ok s -> ck_key (ck_stamp_name s) = fst s.
Proof. exact ck_key_name. Qed.
Print Assumptions name_time_roundtrip.

(** hence the checkpoint chosen is the one with the largest time - for ALL times (any number of digits
    below 10^20; Python writes floats >= 10^16 in exponent notation, outside this model), int and
    half-integer stamps mixed *)
Theorem latest_is_numeric_max : forall stamps, Forall ck_stamp_ok stamps ->
  ck_latest_name (map ck_stamp_name stamps) =
  option_map ck_stamp_name (ck_pymax (fun a b => (fst a <? fst b)%N) stamps).
Proof. exact ck_latest_by_key. Qed.
Print Assumptions latest_is_numeric_max.

Theorem numeric_max_is_max : forall (stamps : list ck_stamp) s,
  ck_pymax (fun a b => (fst a <? fst b)%N) stamps = Some s ->
  In s stamps /\ forall u, In u stamps -> (fst u <= fst s)%N.
Proof. exact (@ck_pymax_val_is_max ck_stamp fst). Qed.
Print Assumptions numeric_max_is_max.

(** behaviour of the PINNED tree (before 2367528), kept as documentation of the repaired defect: plain
    max(files) is the string order, which is the numeric order only below 10^6 ... *)
Theorem lexicographic_order_below_1e6 : forall a b, (a < 1000000)%N -> (b < 1000000)%N ->
  ck_lex_lt (ck_name a) (ck_name b) = (a <? b)%N.
Proof. exact ck_name_order. Qed.
Print Assumptions lexicographic_order_below_1e6.

(** ... and not beyond: "grid_1000000.h5" < "grid_999999.h5" as strings *)
Theorem lexicographic_latest_refuted_pinned :
  ck_lex_lt (ck_name 1000000) (ck_name 999999) = true /\
  ck_pymax ck_lex_lt (map ck_name [999999; 1000000]%N) = Some (ck_name 999999).
Proof. exact ck_latest_refuted. Qed.
Print Assumptions lexicographic_latest_refuted_pinned.

(** ** the driver *)

(** the start index of a restart recovers the step count from the time stamp of the checkpoint: exactly
    for an integer dt; for a float dt (times are integer multiples of a common binary unit) the nearest step
    int(t/dt + 0.5) of eb78f61 / 56219e6 is k whenever the accumulated time is closer to k*dt than dt/2,
    whereas the floor t // dt of the pinned tree is one short for any time just below k*dt *)
Theorem restart_time_index : forall dt k, 0 < dt -> ck_ti_of_time dt (k * dt) = k.
Proof. exact ck_ti_roundtrip. Qed.
Print Assumptions restart_time_index.

Theorem restart_time_index_nearest : forall dt t k, (0 < dt)%Z -> (2 * Z.abs (t - k * dt) < dt)%Z ->
  ck_nearest_step dt t = k.
Proof. exact ck_nearest_step_spec. Qed.
Print Assumptions restart_time_index_nearest.

Theorem floor_time_index_short_pinned : forall dt t k, (0 < dt)%Z -> (k * dt - dt <= t < k * dt)%Z ->
  ck_floor_step dt t = (k - 1)%Z.
Proof. exact ck_floor_step_short. Qed.
Print Assumptions floor_time_index_short_pinned.

(** a run ends after [ck_count] iterations (bounded by tN, cut by the wall-clock oracle) with the field
    advanced that many steps; every stop point is reachable *)
Theorem run_state : forall (F D : Type) (step : F -> F) (diag : F -> D) S tN orc st,
  ck_ti F D (ck_run F D step diag S tN orc st) = ck_stop tN orc (ck_ti F D st) /\
  ck_fld F D (ck_run F D step diag S tN orc st) = ck_pow F step (ck_count (tN - ck_ti F D st) orc) (ck_fld F D st).
Proof. exact ck_run_state. Qed.
Print Assumptions run_state.

Theorem every_stop_point_reachable : forall n N, 1 <= N <= n -> ck_count n (repeat true (N - 1) ++ [false]) = N.
Proof. exact ck_count_stop. Qed.
Print Assumptions every_stop_point_reachable.

(** the checkpoints of a new simulation that ended after N steps: times 0, the multiples of saveStep
    up to N, and N; each holds the field of its time *)
Theorem run_files_spec : forall (F D : Type) (step : F -> F) (diag : F -> D) S, 0 < S ->
  forall tN orc f0 k g,
  let N := ck_count tN orc in
  In (k, g) (ck_files F D (ck_run F D step diag S tN orc (ck_fresh F D diag S f0))) <->
  (g = ck_pow F step k f0 /\ k <= N /\ (k mod S = 0 \/ k = N)).
Proof. exact ck_fresh_files_spec. Qed.
Print Assumptions run_files_spec.

(** the checkpoint with the largest time is the final state of the stopped run *)
Theorem latest_checkpoint_is_final_state : forall (F D : Type) (step : F -> F) (diag : F -> D) S, 0 < S ->
  forall tN orc f0,
  let N := ck_count tN orc in
  ck_latest F (ck_files F D (ck_run F D step diag S tN orc (ck_fresh F D diag S f0))) = Some (N, ck_pow F step N f0).
Proof. exact ck_latest_is_final. Qed.
Print Assumptions latest_checkpoint_is_final_state.

(** [restart_equiv], time / field / checkpoints: for every save interval >= 1, every stop point N
    (tEnd or wall clock) and every continuation, the restarted run ends with the time and field of the
    uninterrupted run; the folder holds the same checkpoint writes, plus the checkpoint of the stop time
    N when N is not a multiple of saveStep *)
Theorem restart_equiv : forall (F D : Type) (step : F -> F) (diag : F -> D) S, 0 < S ->
  forall tN1 orc1 tN2 orc2 tNu orcu f0,
  let N := ck_count tN1 orc1 in
  let st1 := ck_run F D step diag S tN1 orc1 (ck_fresh F D diag S f0) in
  forall st2r, ck_restart F D diag S (ck_files F D st1) = Some st2r ->
  let st2 := ck_run F D step diag S tN2 orc2 st2r in
  let stu := ck_run F D step diag S tNu orcu (ck_fresh F D diag S f0) in
  ck_count tNu orcu = N + ck_count (tN2 - N) orc2 ->
  ck_ti F D st2 = ck_ti F D stu /\ ck_fld F D st2 = ck_fld F D stu /\
  exists A B, ck_files F D stu = A ++ B /\
              ck_files F D st1 ++ ck_files F D st2 = A ++ ck_final_save F S N (ck_pow F step N f0) ++ B.
Proof. exact ck_restart_equiv_state. Qed.
Print Assumptions restart_equiv.

(** [restart_equiv], diagnostic lines: if the stop time is a multiple of saveStep, phiDat.txt of the
    stopped-and-restarted simulation is exactly (same rows, same order) that of the uninterrupted one *)
Theorem restart_equiv_lines_aligned : forall (F D : Type) (step : F -> F) (diag : F -> D) S, 0 < S ->
  forall tN1 orc1 tN2 orc2 tNu orcu f0,
  let N := ck_count tN1 orc1 in
  let st1 := ck_run F D step diag S tN1 orc1 (ck_fresh F D diag S f0) in
  N mod S = 0 ->
  forall st2r, ck_restart F D diag S (ck_files F D st1) = Some st2r ->
  let st2 := ck_run F D step diag S tN2 orc2 st2r in
  let stu := ck_run F D step diag S tNu orcu (ck_fresh F D diag S f0) in
  ck_count tNu orcu = N + ck_count (tN2 - N) orc2 ->
  ck_lines F D stu = ck_lines F D st1 ++ ck_lines F D st2 /\
  ck_files F D stu = ck_files F D st1 ++ ck_files F D st2.
Proof. exact ck_restart_equiv_aligned. Qed.
Print Assumptions restart_equiv_lines_aligned.

(** the rows of ANY uninterrupted run, ending T = q * saveStep + r steps after the start (r < saveStep):
    at every save step the row of that time followed by the rows of the saveStep-1 times before it, and
    after the loop the rows of the r times since the last save - every time 0..T exactly once, each with
    the diagnostics of the field of its time (since the repair f107601 of the final block) *)
Theorem run_rows : forall (F D : Type) (step : F -> F) (diag : F -> D) S, 0 < S ->
  forall tN orc f0,
  ck_lines F D (ck_run F D step diag S tN orc (ck_fresh F D diag S f0)) =
  ck_rows_spec_any F D step diag S f0 (ck_count tN orc).
Proof. exact ck_run_rows_any. Qed.
Print Assumptions run_rows.

Theorem rows_each_time_once : forall (F D : Type) (step : F -> F) (diag : F -> D) S, 0 < S ->
  forall f0 T, Permutation (ck_rows_spec_any F D step diag S f0 T)
                           (map (ck_L F D step diag f0) (seq 0 (T + 1))).
Proof. exact ck_rows_spec_any_perm. Qed.
Print Assumptions rows_each_time_once.

(** special case T = q * saveStep *)
Theorem run_rows_aligned : forall (F D : Type) (step : F -> F) (diag : F -> D) S, 0 < S ->
  forall tN orc f0 q, ck_count tN orc = q * S ->
  ck_lines F D (ck_run F D step diag S tN orc (ck_fresh F D diag S f0)) = ck_rows_spec F D step diag S f0 q.
Proof. exact ck_run_rows_aligned. Qed.
Print Assumptions run_rows_aligned.

(** a run stopped at a multiple of saveStep and restarted, ending anywhere: every time 0..T exactly once *)
Theorem restart_aligned_rows_each_time_once : forall (F D : Type) (step : F -> F) (diag : F -> D) S, 0 < S ->
  forall tN1 orc1 tN2 orc2 f0,
  let N := ck_count tN1 orc1 in
  let st1 := ck_run F D step diag S tN1 orc1 (ck_fresh F D diag S f0) in
  N mod S = 0 ->
  forall st2r, ck_restart F D diag S (ck_files F D st1) = Some st2r ->
  let st2 := ck_run F D step diag S tN2 orc2 st2r in
  Permutation (ck_lines F D st1 ++ ck_lines F D st2)
              (map (ck_L F D step diag f0) (seq 0 (N + ck_count (tN2 - N) orc2 + 1))).
Proof. exact ck_restart_aligned_rows_once. Qed.
Print Assumptions restart_aligned_rows_each_time_once.

(** [restart_equiv] IN FULL (tree after b2d9318), for every save interval >= 1 and every history: a new
    simulation followed by any number of restarts from its folder, every run ending wherever its tEnd / the
    wall clock says (stop points anywhere, also not on save steps, also runs of zero steps).  With T the end
    of the last run: the field is step^T of the initial one; the rows of all runs together are the times
    0..T, each exactly once, each with the diagnostics of the field of its time; the folder holds exactly
    the checkpoints of the multiples of saveStep up to T and of the stop points, each with the field of its
    time; and the next restart would resume from (T, field at T). *)
Theorem restart_equiv_full : forall (F D : Type) (step : F -> F) (diag : F -> D) S, 0 < S ->
  forall f0 st folder rows stops,
  ck_hist F D step diag S f0 st folder rows stops ->
  let T := ck_ti F D st in
  ck_fld F D st = ck_pow F step T f0 /\
  Permutation rows (map (ck_L F D step diag f0) (seq 0 (T + 1))) /\
  (forall k g, In (k, g) folder <-> g = ck_pow F step k f0 /\ ((k mod S = 0 /\ k <= T) \/ In k stops)) /\
  (forall N, In N stops -> N <= T) /\ In T stops /\
  ck_latest F folder = Some (T, ck_pow F step T f0).
Proof. exact ck_hist_spec. Qed.
Print Assumptions restart_equiv_full.

(** compared with the run that was never stopped: same time, same field, the same rows up to their order,
    the same checkpoints plus those of the stop points *)
Theorem restart_vs_uninterrupted : forall (F D : Type) (step : F -> F) (diag : F -> D) S, 0 < S ->
  forall f0 st folder rows stops,
  ck_hist F D step diag S f0 st folder rows stops ->
  let stu := ck_run F D step diag S (ck_ti F D st) [] (ck_fresh F D diag S f0) in
  ck_ti F D stu = ck_ti F D st /\ ck_fld F D stu = ck_fld F D st /\ Permutation rows (ck_lines F D stu) /\
  (forall k g, In (k, g) (ck_files F D stu) -> In (k, g) folder) /\
  (forall k g, In (k, g) folder -> In (k, g) (ck_files F D stu) \/ In k stops).
Proof. exact ck_hist_vs_uninterrupted. Qed.
Print Assumptions restart_vs_uninterrupted.

(** ** the constants file (ConstantsIO.v: get_constants / eval_expr / Constants.__str__ as written) *)

(** the worklist loop of get_constants always ends within fuel = number of entries + 1 (possibly with one
    of its two assertions) *)
Theorem parse_terminates : forall (V : Type) add sub mul div neg mid kmin kmax krp,
  kmin <> krp -> kmax <> krp -> kmin <> kmax ->
  forall l, cp_parse V add sub mul div neg mid kmin kmax krp l <> CPFuel V.
Proof. exact cp_parse_terminates. Qed.
Print Assumptions parse_terminates.

(** [parse_order_independent]: if the keys are distinct, rp is not given, every identifier of every
    expression is a key of the file and the dependencies decrease along a rank ([cp_wfb rank l = true], a
    boolean check), then for every permutation of the entries the parser raises no assertion and the
    constants - also after set_defaults - are the same, whatever the (deterministic) arithmetic *)
Theorem parse_order_independent : forall (V : Type) add sub mul div neg mid kmin kmax krp,
  kmin <> krp -> kmax <> krp -> kmin <> kmax ->
  forall rank d l l', cp_wfb V krp rank l = true -> Permutation l l' ->
  exists s s', cp_get_constants V add sub mul div neg mid kmin kmax krp d l = Some s /\
               cp_get_constants V add sub mul div neg mid kmin kmax krp d l' = Some s' /\
               forall k, s k = s' k.
Proof. exact cp_get_constants_order_independent. Qed.
Print Assumptions parse_order_independent.

(** ... and what they are: the unique solution of the file read as a system of equations *)
Theorem parse_is_solution : forall (V : Type) add sub mul div neg mid kmin kmax krp,
  kmin <> krp -> kmax <> krp -> kmin <> kmax ->
  forall rank l, cp_wf V krp rank l ->
  exists st, cp_parse V add sub mul div neg mid kmin kmax krp l = CPOk V st /\
             cp_sol V add sub mul div neg mid kmin kmax krp l st.
Proof. exact cp_parse_sol. Qed.
Print Assumptions parse_is_solution.

(** [print_parse_roundtrip]: every public attribute other than rp that Constants.__str__ prints (all as
    literals, any order of the attributes) comes back equal, and nothing else is set *)
Theorem print_parse_roundtrip : forall (V : Type) add sub mul div neg mid kmin kmax krp,
  kmin <> krp -> kmax <> krp -> kmin <> kmax ->
  forall pub st l, NoDup pub -> cp_print V pub st = Some l ->
  exists st', cp_parse V add sub mul div neg mid kmin kmax krp l = CPOk V st' /\
    (forall k, In k pub -> k <> krp -> st' k = st k) /\
    (forall k, ~ In k pub -> k <> krp -> st' k = None).
Proof. exact cp_print_parse_roundtrip. Qed.
Print Assumptions print_parse_roundtrip.

(** rp itself comes back when it is the midpoint the setters compute (not customised) ... *)
Theorem print_parse_roundtrip_rp_midpoint : forall (V : Type) add sub mul div neg mid kmin kmax krp,
  kmin <> krp -> kmax <> krp -> kmin <> kmax ->
  forall pub st l a b, NoDup pub -> In krp pub -> cp_print V pub st = Some l ->
  st kmin = Some a -> st kmax = Some b -> st krp = Some (mid a b) ->
  exists st', cp_parse V add sub mul div neg mid kmin kmax krp l = CPOk V st' /\ st' krp = st krp.
Proof. exact cp_print_parse_roundtrip_rp. Qed.
Print Assumptions print_parse_roundtrip_rp_midpoint.

(** ... and not when it was customised (known finding constants:rp-not-roundtripped): rp = 3, rMin = 1,
    rMax = 9 is kept for the key order [rp, rMin, rMax], reset to 5 for [rMin, rMax, rp] and for the file
    Constants.__str__ prints *)
Theorem rp_roundtrip_refuted :
  cp_get_nat [] [(2, CNum nat 3); (0, CNum nat 1); (1, CNum nat 9)]
    = Some [Some 1; Some 9; Some 3; None; None; None; None; None] /\
  cp_get_nat [] [(0, CNum nat 1); (1, CNum nat 9); (2, CNum nat 3)]
    = Some [Some 1; Some 9; Some 5; None; None; None; None; None] /\
  (let st := fun k => nth k [Some 1; Some 9; Some 3] None in
   match cp_print nat [1; 0; 2] st with
   | Some l => cp_get_nat [] l = Some [Some 1; Some 9; Some 5; None; None; None; None; None]
   | None => False
   end).
Proof. exact cp_rp_roundtrip_refuted. Qed.
Print Assumptions rp_roundtrip_refuted.

(** ** non-vacuity *)
(** a 3 x 4 array written by a 2 x 1 grid and read by rank (0,2) of a 1 x 3 grid (column starts 0,1,2,4): columns 2..3 *)
Example roundtrip_example :
  ck_roundtrip [3; 4] [2; 1] [1; 3] [0; 2] [0;1;2;3; 10;11;12;13; 20;21;22;23]
  = [Some 2; Some 3; Some 12; Some 13; Some 22; Some 23] /\
  ck_slab [3; 4] [1; 3] [0; 2] = ([0; 2], [3; 2]).
Proof. vm_compute. split; reflexivity. Qed.

(** saveStep 2, tEnd = 5 steps, wall clock stops after the 3rd iteration, restart to 5 *)
Example driver_example :
  ck_run_nat 2 5 None [true; true; false] =
    (3, 3, 3, [(0, 0); (2, 2); (3, 3)], [Some (0, 0); Some (2, 2); Some (1, 1); Some (3, 3)]) /\
  ck_run_nat 2 5 (Some 3) [] =
    (5, 5, 2, [(4, 4); (5, 5)], [Some (4, 4); Some (5, 5)]).
Proof. vm_compute. split; reflexivity. Qed.

(** saveStep 3, 7 steps: the final block prints the row of time 7 (before f107601: row 6 a second time) *)
Example final_window_example :
  ck_lines_unsplit_nat 3 7 = [Some 0; Some 3; Some 1; Some 2; Some 6; Some 4; Some 5; Some 7].
Proof. vm_compute. reflexivity. Qed.

Example latest_examples :
  ck_latest_name (map ck_stamp_name [(1999998, false); (2000000, false)]%N) = Some (ck_name 1000000) /\
  ck_latest_name (map ck_stamp_name [(2, false); (3, true); (0, false)]%N) =
    Some (ck_prefix ++ [48; 48; 48; 49; 46; 53]%N ++ ck_suffix).
Proof. vm_compute. split; reflexivity. Qed.

(** histories with restarts off the save steps: every time once (before b2d9318: [0;1;1;2;6;4;5], [0;1;2;-;2;3]) *)
Example restart_unaligned_examples :
  ck_lines_split_nat 3 1 6 = [Some 0; Some 1; Some 3; Some 2; Some 6; Some 4; Some 5] /\
  ck_lines_split_nat 4 2 3 = [Some 0; Some 1; Some 2; Some 3].
Proof. vm_compute. split; reflexivity. Qed.

(** binary64 0.1 and 0.5 as multiples of 2^-55: 0.5 // 0.1 = 4 but the nearest step is 5 *)
Example tenth_example :
  ck_floor_step 3602879701896397 18014398509481984 = 4%Z /\
  ck_nearest_step 3602879701896397 18014398509481984 = 5%Z.
Proof. vm_compute. split; reflexivity. Qed.

(** a two-level expression chain satisfying the hypotheses of parse_order_independent (rank = key) *)
Example constants_wf_example :
  let l := [(5, CExpr nat (EBin nat OAdd (EId nat 4) (EId nat 3))); (3, CNum nat 7);
            (4, CExpr nat (EBin nat OMul (ELit nat 2) (EId nat 3)))] in
  cp_wfb nat 2 (fun k => k) l = true /\
  cp_get_nat [] l = Some [None; None; None; Some 7; Some 14; Some 21; None; None] /\
  cp_get_nat [] (rev l) = cp_get_nat [] l.
Proof. exact cp_wf_example. Qed.

Example names_example : ck_name 40 = [103;114;105;100;95; 48;48;48;48;52;48; 46;104;53]%N.
Proof. vm_compute. reflexivity. Qed.
