(** C02 — block decomposition is an exact balanced partition; accessors and buffer sizes agree with it.
    Statements only; proofs in Blocks.v, Handler.v. *)
From Coq Require Import List Arith Lia PeanoNat.
Import ListNotations.
From PGV Require Import NdIndex Blocks Layouts Handler HandlerBuf TransposeExec Accessors.

(** the blocks start at 0, end at n, and are in rank order *)
Theorem c02_starts_0 : forall n p, bstart n p 0 = 0.
Proof. exact bstart_0. Qed.
Print Assumptions c02_starts_0.
Theorem c02_starts_p : forall n p, 0 < p -> bstart n p p = n.
Proof. exact bstart_p. Qed.
Print Assumptions c02_starts_p.
Theorem c02_starts_mono : forall n p k k', 0 < p -> k <= k' -> bstart n p k <= bstart n p k'.
Proof. exact bstart_mono. Qed.
Print Assumptions c02_starts_mono.

(** every global index is owned by exactly one block: no gap, no overlap *)
Theorem c02_blocks_tile : forall n p g, 0 < p -> g < n ->
  exists k, (k < p /\ bstart n p k <= g < bstart n p (S k)) /\
            forall k', k' < p -> bstart n p k' <= g < bstart n p (S k') -> k' = k.
Proof. exact blocks_tile. Qed.
Print Assumptions c02_blocks_tile.

(** block lengths differ by at most one; none is empty when p <= n *)
Theorem c02_blen_bounds : forall n p k, 0 < p -> n / p <= blen n p k <= S (n / p).
Proof. exact blen_bounds. Qed.
Print Assumptions c02_blen_bounds.
Theorem c02_blen_balanced : forall n p k k', 0 < p -> blen n p k <= S (blen n p k').
Proof. exact blen_balanced. Qed.
Print Assumptions c02_blen_balanced.
Theorem c02_blen_pos : forall n p k, 0 < p -> p <= n -> 1 <= blen n p k.
Proof. exact blen_pos. Qed.
Print Assumptions c02_blen_pos.

(** the advertised maximum block shape is an upper bound of every block and is attained *)
Theorem c02_bmax_is_max : forall n p, 0 < p ->
  (forall k, k < p -> blen n p k <= bmax n p) /\ exists k, k < p /\ blen n p k = bmax n p.
Proof. exact bmax_is_max. Qed.
Print Assumptions c02_bmax_is_max.

(** advertised shape = ends - starts on every axis of every layout *)
Theorem c02_shape_ends_starts : forall N nprocs dims coords i, i < length dims -> 0 < np_at nprocs i ->
  nth i (l_starts N nprocs dims coords) 0 + nth i (l_shape N nprocs dims coords) 0
  = nth i (l_ends N nprocs dims coords) 0.
Proof. exact shape_eq_ends_minus_starts. Qed.
Print Assumptions c02_shape_ends_starts.

(** local-to-global accessor: entry dims[i] of getGlobalIndices is the local index plus the start of axis i *)
Theorem c02_global_indices : forall starts dims idx i,
  length dims = length starts -> length idx = length starts ->
  NoDup dims -> (forall a, a < length dims -> nth a dims 0 < length dims) ->
  i < length dims ->
  nth (nth i dims 0) (global_indices starts dims idx) 0 = nth i idx 0 + nth i starts 0.
Proof. exact global_indices_spec. Qed.
Print Assumptions c02_global_indices.

(** the advertised buffer size covers the first layout's block and the padded p-fold send buffer of every
    compatible pair the constructor enumerates *)
Theorem c02_bufsize_first : forall N nprocs coords l0 ls,
  l_size N nprocs l0 coords <= handler_bufsize N nprocs coords (l0 :: ls).
Proof. exact bufsize_ge_first. Qed.
Print Assumptions c02_bufsize_first.
Theorem c02_bufsize_pair : forall N nprocs coords layouts l1 l2,
  In (l1, l2) (all_pairs nprocs [] layouts) ->
  pair_bufsize N nprocs coords l1 l2 <= handler_bufsize N nprocs coords layouts.
Proof. exact bufsize_ge_pair. Qed.
Print Assumptions c02_bufsize_pair.

(** the padded p-fold send buffer of a compatible pair is at least as large as the block of the layout it is
    filled from, on every rank (so bufferSize covers the block of every layout that occurs as the later member of
    an enumerated pair, besides the first layout) *)
Theorem c02_pair_bufsize_ge_size : forall N nprocs coords l1 l2 : list nat,
  length l2 = length l1 -> NoDup l2 ->
  (forall a, a < length l1 -> In (nth a l2 0) l1) ->
  length nprocs <= length l1 ->
  (forall a, 0 < np_at nprocs a) -> (forall a, rk_at coords a < np_at nprocs a) ->
  compatible nprocs l1 l2 = true ->
  l_size N nprocs l1 coords <= pair_bufsize N nprocs coords l1 l2.
Proof. exact pair_bufsize_ge_size. Qed.
Print Assumptions c02_pair_bufsize_ge_size.

(** non-vacuity: 7 points on 3 processes *)
(** value-level accessors of Grid: getCoordVals(i) / getCoords(i) return exactly the block of the coordinate array of the
    dimension carried by axis i; getEta(e) is getCoords at the position of dimension e in the layout (its index in
    dims_order, not dims_order[e]); the blocks of the ranks of a process direction concatenate to the whole array *)
Theorem c02_coord_vals : forall (A : Type) (dv : A) eta N nprocs dims coords i,
  i < length dims -> 0 < np_at nprocs i -> rk_at coords i < np_at nprocs i ->
  length (nth (nth i dims 0) eta []) = ax_n N dims i ->
  length (acc_coord_vals A eta N nprocs dims coords i) = nth i (l_shape N nprocs dims coords) 0 /\
  forall k, k < nth i (l_shape N nprocs dims coords) 0 ->
    nth k (acc_coord_vals A eta N nprocs dims coords i) dv
    = nth (nth i (l_starts N nprocs dims coords) 0 + k) (nth (nth i dims 0) eta []) dv.
Proof. exact coord_vals_spec. Qed.
Print Assumptions c02_coord_vals.

Theorem c02_get_coords : forall (A : Type) (dv : A) eta N nprocs dims coords i,
  i < length dims -> 0 < np_at nprocs i -> rk_at coords i < np_at nprocs i ->
  length (nth (nth i dims 0) eta []) = ax_n N dims i ->
  map fst (acc_get_coords A eta N nprocs dims coords i) = seq 0 (nth i (l_shape N nprocs dims coords) 0) /\
  map snd (acc_get_coords A eta N nprocs dims coords i) = acc_coord_vals A eta N nprocs dims coords i.
Proof. exact get_coords_spec. Qed.
Print Assumptions c02_get_coords.

Theorem c02_get_eta : forall (A : Type) d eta N nprocs dims coords e,
  perm_b d dims = true -> e < d ->
  acc_get_eta A eta N nprocs dims coords e = acc_get_coords A eta N nprocs dims coords (index_of dims e).
Proof. exact get_eta_is_get_coords. Qed.
Print Assumptions c02_get_eta.

Theorem c02_coord_blocks_concat : forall (A : Type) (dv : A) (l : list A) p, 0 < p ->
  blocks_concat A l (length l) p p = l.
Proof. exact blocks_concat_all. Qed.
Print Assumptions c02_coord_blocks_concat.

Example c02_example : starts_table 7 3 = [0; 2; 4; 7] /\ bmax 7 3 = 3 /\ owner 7 3 4 = 2
  /\ handler_bufsize [4;5;7;8] [1;3] [0;1] [flux_surface; v_parallel; poloidal] = 540.
Proof. vm_compute. repeat split. Qed.

(** buffer sufficiency in both orientations (BufExtent.v): for a compatible pair the constructor's size does not depend
    on the order of the two layouts, holds the block of either layout, and bounds the cells touched by the step
    l1 -> l2 and by the step l2 -> l1 (destination block and the p padded send/receive blocks); with
    c02_bufsize_pair: all of it is at most handler_bufsize for every enumerated pair.  No n >= p hypothesis. *)
From PGV Require BufExtent TransposeFrameExec.
Theorem c02_bufsize_both_orientations :
  forall (Nl nprocs l1 l2 : list nat) (d' : nat),
  cfg_wf_b Nl nprocs l1 l2 d' = true -> compatible nprocs l1 l2 = true ->
  forall r, r < nranks nprocs ->
  pair_bufsize Nl nprocs (unravel nprocs r) l1 l2 = pair_bufsize Nl nprocs (unravel nprocs r) l2 l1 /\
  (l_size Nl nprocs l1 (unravel nprocs r) <= pair_bufsize Nl nprocs (unravel nprocs r) l1 l2 /\
   l_size Nl nprocs l2 (unravel nprocs r) <= pair_bufsize Nl nprocs (unravel nprocs r) l1 l2) /\
  (TransposeFrameExec.mh_extent Nl nprocs d' l1 l2 r <= pair_bufsize Nl nprocs (unravel nprocs r) l1 l2 /\
   TransposeFrameExec.mh_extent Nl nprocs d' l2 l1 r <= pair_bufsize Nl nprocs (unravel nprocs r) l1 l2).
Proof.
  intros. split; [apply (BufExtent.pair_bufsize_sym Nl nprocs l1 l2 d'); assumption|].
  split; [apply (BufExtent.pair_bufsize_ge_both Nl nprocs l1 l2 d'); assumption|apply BufExtent.step_extent_le_pair; assumption].
Qed.
Print Assumptions c02_bufsize_both_orientations.
Theorem c02_bufsize_both_orientations_handler :
  forall (Nl nprocs : list nat) (d' : nat) (layouts : list (list nat)) (l1 l2 : list nat) r,
  cfg_wf_b Nl nprocs l1 l2 d' = true -> compatible nprocs l1 l2 = true -> r < nranks nprocs ->
  In (l1, l2) (all_pairs nprocs [] layouts) ->
  TransposeFrameExec.mh_extent Nl nprocs d' l1 l2 r <= handler_bufsize Nl nprocs (unravel nprocs r) layouts /\
  TransposeFrameExec.mh_extent Nl nprocs d' l2 l1 r <= handler_bufsize Nl nprocs (unravel nprocs r) layouts.
Proof. exact BufExtent.step_extent_le_bufsize. Qed.
Print Assumptions c02_bufsize_both_orientations_handler.
