(** C19 — accelerated kernels compute the same results as the pure-Python reference.
    The equality of a COMPILED artefact with its source cannot be a theorem here (no formal semantics of
    pyccel/gfortran output); it is validated per input by harness/props/c19.py.  What is proved: at the
    points where Python and Fortran/C integer semantics differ, the kernels' index expressions are either
    on the common side or in range only for the floored operation, and the spline kernels never index
    outside their arrays on the closed domain (so no out-of-bounds read can hide behind the missing bounds
    checks of compiled code). *)
From Coq Require Import ZArith Lia List.
Import ListNotations.
From PGV Require Import Kernels SplineModel SplineTheory.

Theorem c19_floor_trunc_mod_agree : forall a n : Z, (0 <= a -> 0 < n -> a mod n = Z.rem a n)%Z.
Proof. exact floor_trunc_mod_agree. Qed.
Print Assumptions c19_floor_trunc_mod_agree.
Theorem c19_floor_trunc_div_agree : forall a n : Z, (0 <= a -> 0 < n -> a / n = Z.quot a n)%Z.
Proof. exact floor_trunc_div_agree. Qed.
Print Assumptions c19_floor_trunc_div_agree.
Theorem c19_lagrange_row_in_range : forall i s nz : Z, (0 < nz -> 0 <= (i - s) mod nz < nz)%Z.
Proof. exact lagrange_row_in_range. Qed.
Print Assumptions c19_lagrange_row_in_range.
Theorem c19_lagrange_row_needs_floor_mod : exists i s nz : Z, (0 < nz /\ 0 <= i < nz /\ Z.rem (i - s) nz < 0)%Z.
Proof. exact lagrange_row_needs_floor_mod. Qed.
Print Assumptions c19_lagrange_row_needs_floor_mod.
Theorem c19_trunc_is_floor_nonneg : forall num den : Z, (0 <= num -> 0 < den -> Z.quot num den = num / den)%Z.
Proof. exact trunc_is_floor_nonneg. Qed.
Print Assumptions c19_trunc_is_floor_nonneg.

(** the general spline evaluation never raises an index error on the closed domain: every coeffs / knots /
    basis index it forms is in range (the model returns SpIndexErr for any out-of-range access) *)
Theorem c19_nu_eval_in_bounds :
  forall (F : Type) (K : sp_ops F), sp_laws K ->
  forall (knots : list F) (degree : nat) (coeffs : list F) (x : F),
  sp_sorted F K knots -> (2 * degree + 1 < length knots)%nat ->
  sp_lt K (sp_kn F K knots degree) (sp_kn F K knots (S degree)) ->
  sp_lt K (sp_kn F K knots (length knots - degree - 2)) (sp_kn F K knots (length knots - 1 - degree)) ->
  sp_le K (sp_kn F K knots degree) x -> sp_le K x (sp_kn F K knots (length knots - 1 - degree)) ->
  length coeffs = (length knots - degree - 1)%nat ->
  exists v, sp_nu_eval_1d_scalar F K x knots degree coeffs 0 = SpOk v.
Proof.
  intros F K HL knots degree coeffs x H1 H2 H3 H4 H5 H6 H7.
  destruct (sp_nu_eval_1d_closed F K HL knots degree coeffs x H1 H2 H3 H4 H5 H6 H7) as [s [_ [_ E]]].
  eexists. exact E.
Qed.
Print Assumptions c19_nu_eval_in_bounds.
