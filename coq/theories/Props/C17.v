(** C17 - diagnostics and global reductions equal the serial quadrature of the global field.
    Only statements, [exact]s and [Print Assumptions]; proofs live in Diagnostics.v, Sums.v, Blocks.v.
    Exact arithmetic throughout: rounding and re-association of the floating-point Reduce are outside. *)
From Coq Require Import ZArith List Lia Field.
Import ListNotations.
From Coq Require Import QArith Qround PrimFloat SpecFloat FloatOps.
From PGV Require Import Blocks Sums Diagnostics TransposeExec DiagnosticsLink DiagnosticsSlotQ.
Close Scope Q_scope.

(** (a) 1-D: the local weighted sums over the blocks [bstart k, bstart (k+1)) add up to the global
    weighted sum, for every extent n, process count p and integrand *)
Theorem c17_sum_over_blocks_1d : forall n p (w g : nat -> Z), 0 < p ->
  dg_sum 0 p (fun k => dg_sum (bstart n p k) (blen n p k) (fun i => w i * g i)%Z) = dg_sum 0 n (fun i => w i * g i)%Z.
Proof. intros n p w g. exact (dg_sum_blocks n p (fun i => w i * g i)%Z). Qed.
Print Assumptions c17_sum_over_blocks_1d.

(** the same over any field (Sums.v), e.g. the rationals *)
Theorem c17_sum_over_blocks_field : forall (F : Type) (f0 f1 : F) (fadd fmul fsub fdiv : F -> F -> F) (fopp finv : F -> F),
  field_theory f0 f1 fadd fmul fsub fopp fdiv finv (@eq F) ->
  forall n p (w g : nat -> F), 0 < p ->
  sumr F f0 fadd 0 p (fun k => sumr F f0 fadd (bstart n p k) (blen n p k) (fun i => fmul (w i) (g i)))
  = sumr F f0 fadd 0 n (fun i => fmul (w i) (g i)).
Proof. exact sum_over_blocks. Qed.
Print Assumptions c17_sum_over_blocks_field.

(** (a) 2-D distributed grid, product-of-weights form of [_factor1]: the sum over ranks (k1,k2) of the
    local sums of w1*w2*g is the global double sum *)
Theorem c17_sum_over_blocks_2d : forall n1 n2 p1 p2 (w1 w2 : nat -> Z) (g : nat -> nat -> Z), 0 < p1 -> 0 < p2 ->
  dg_sum 0 p1 (fun k1 => dg_sum 0 p2 (fun k2 =>
    dg_sum (bstart n1 p1 k1) (blen n1 p1 k1) (fun i =>
      dg_sum (bstart n2 p2 k2) (blen n2 p2 k2) (fun j => w1 i * w2 j * g i j)%Z)))
  = dg_sum 0 n1 (fun i => dg_sum 0 n2 (fun j => w1 i * w2 j * g i j)%Z).
Proof. exact dg_sum_blocks_2d. Qed.
Print Assumptions c17_sum_over_blocks_2d.

(** (a) N-d, any number of axes each with its own extent and process count (1 for the axes that are
    not distributed), arbitrary integrand of the global multi-index *)
Theorem c17_sum_over_blocks_nd : forall (axes : list (nat * nat)), Forall (fun np => 0 < snd np) axes ->
  forall h : list nat -> Z,
  dg_ndsum (dg_rank_ranges axes) (fun ks => dg_ndsum (dg_blocks axes ks) h) = dg_ndsum (dg_full_ranges axes) h.
Proof. exact dg_Z_ndsum_blocks. Qed.
Print Assumptions c17_sum_over_blocks_nd.

(** Reduce(SUM) over the list of all ranks in Create_cart order is that nested sum *)
Theorem c17_reduce_is_nested_sum : forall (ps : list nat) (g : list nat -> Z),
  dg_reduce Z.add 0%Z (map g (dg_coords ps)) = dg_ndsum (map (fun p => (0, p)) ps) g.
Proof. exact (dg_reduce_coords Z.add 0%Z Z.add_assoc Z.add_comm Z.add_0_l). Qed.
Print Assumptions c17_reduce_is_nested_sum.

(** the order of the axes (dims_order) does not matter: exchanging two adjacent axes *)
Theorem c17_axis_order_irrelevant : forall pre a b post (h : list nat -> Z),
  dg_ndsum (pre ++ a :: b :: post) h = dg_ndsum (pre ++ b :: a :: post) (fun idx => h (dg_swap_at (length pre) idx)).
Proof. exact (dg_ndfold_swap_adj Z.add 0%Z Z.add_assoc Z.add_comm Z.add_0_l). Qed.
Print Assumptions c17_axis_order_irrelevant.

(** the weight slices: index j of l[s:e] is index s+j of l, and a sum over local indices of a block
    is the sum over its global indices *)
Theorem c17_local_index_shift : forall rs (h : list nat -> Z),
  dg_ndsum (map (fun r => (0, snd r)) rs) (fun j => h (dg_addv (map fst rs) j)) = dg_ndsum rs h.
Proof. exact (dg_ndfold_shift Z.add 0%Z). Qed.
Print Assumptions c17_local_index_shift.

(** (b) replication: if the layout does not use a process direction of extent R, the SUM over ALL ranks
    is R times the global quadrature (so a collector built on such a layout would be wrong by R) *)
Theorem c17_replicated_sum_1d : forall n p R (f : nat -> Z), 0 < p ->
  dg_sum 0 p (fun k1 => dg_sum 0 R (fun _ => dg_sum (bstart n p k1) (blen n p k1) f)) = (Z.of_nat R * dg_sum 0 n f)%Z
  /\ dg_sum 0 R (fun _ => dg_sum 0 p (fun k2 => dg_sum (bstart n p k2) (blen n p k2) f)) = (Z.of_nat R * dg_sum 0 n f)%Z.
Proof. intros n p R f Hp. exact (conj (dg_sum_replicated_inner n p R f Hp) (dg_sum_replicated_outer n p R f Hp)). Qed.
Print Assumptions c17_replicated_sum_1d.

Theorem c17_replicated_sum_nd : forall axes R (h : list nat -> Z), Forall (fun np => 0 < snd np) axes ->
  dg_ndsum ((0, R) :: dg_rank_ranges axes) (fun kks => dg_ndsum (dg_blocks axes (tl kks)) h)
  = (Z.of_nat R * dg_ndsum (dg_full_ranges axes) h)%Z.
Proof. exact dg_ndsum_replicated. Qed.
Print Assumptions c17_replicated_sum_nd.

(** (c) minima / maxima.  [None] is the neutral element (+inf for MIN, -inf for MAX).
    MIN over ranks of the local minima = fold over the whole index space ... *)
Theorem c17_minmax_global : forall (axes : list (nat * nat)), Forall (fun np => 0 < snd np) axes ->
  forall h : list nat -> option Z,
  dg_ndfold dg_omin None (dg_rank_ranges axes) (fun ks => dg_ndfold dg_omin None (dg_blocks axes ks) h)
    = dg_ndfold dg_omin None (dg_full_ranges axes) h
  /\ dg_ndfold dg_omax None (dg_rank_ranges axes) (fun ks => dg_ndfold dg_omax None (dg_blocks axes ks) h)
    = dg_ndfold dg_omax None (dg_full_ranges axes) h.
Proof. intros axes Hax h. exact (conj (dg_min_blocks axes Hax h) (dg_max_blocks axes Hax h)). Qed.
Print Assumptions c17_minmax_global.

(** ... and that fold is the minimum (maximum): a lower bound of all values in the box that is attained,
    [None] exactly when there is no value *)
Theorem c17_fold_is_minimum : forall rs (h : list nat -> option Z),
  dg_is_ext Z.le (dg_inbox rs) h (dg_ndfold dg_omin None rs h).
Proof. exact dg_min_is_min. Qed.
Print Assumptions c17_fold_is_minimum.

Theorem c17_fold_is_maximum : forall rs (h : list nat -> option Z),
  dg_is_ext Z.ge (dg_inbox rs) h (dg_ndfold dg_omax None rs h).
Proof. exact dg_max_is_max. Qed.
Print Assumptions c17_fold_is_maximum.

(** fixed-index slices: a rank contributes the extremum over its part of the slice if its block contains
    every fixed index and the neutral element otherwise; the reduction over all ranks is the extremum
    over the slice of the global index space *)
Theorem c17_slice_minmax_neutral : forall (axes : list (nat * nat)) fixs (h : list nat -> option Z),
  Forall (fun np => 0 < snd np) axes ->
  dg_ndfold dg_omin None (dg_rank_ranges axes) (fun ks => dg_slice_fold dg_omin None (dg_blocks axes ks) fixs h)
    = dg_slice_fold dg_omin None (dg_full_ranges axes) fixs h
  /\ dg_ndfold dg_omax None (dg_rank_ranges axes) (fun ks => dg_slice_fold dg_omax None (dg_blocks axes ks) fixs h)
    = dg_slice_fold dg_omax None (dg_full_ranges axes) fixs h.
Proof. intros axes fixs h Hax. exact (conj (dg_min_slice_blocks axes fixs h Hax) (dg_max_slice_blocks axes fixs h Hax)). Qed.
Print Assumptions c17_slice_minmax_neutral.

(** the slice contribution is the fold of the function that is neutral off the slice - hence, with
    [c17_fold_is_minimum], the extremum over exactly the indices matching the fixed values *)
Theorem c17_slice_is_masked_fold : forall rs fixs (h : list nat -> option Z),
  dg_slice_fold dg_omin None rs fixs h = dg_ndfold dg_omin None rs (fun idx => if dg_matches fixs idx then h idx else None).
Proof. exact (dg_slice_fold_delta dg_omin None dg_omin_comm dg_omin_e_l). Qed.
Print Assumptions c17_slice_is_masked_fold.

(** every index is owned by exactly one block (Blocks.blocks_tile) and in 1-D only the owner's value survives *)
Theorem c17_slice_owner_unique : forall n p g, 0 < p -> g < n ->
  exists k, (k < p /\ bstart n p k <= g < bstart n p (S k)) /\
            forall k', k' < p -> bstart n p k' <= g < bstart n p (S k') -> k' = k.
Proof. exact blocks_tile. Qed.
Print Assumptions c17_slice_owner_unique.

Theorem c17_slice_1d : forall n p x (h : nat -> option Z), 0 < p -> x < n ->
  dg_fold dg_omin None 0 p (fun k => if dg_inrange (bstart n p k, blen n p k) x then h x else None) = h x.
Proof. exact (dg_slice_1d dg_omin None dg_omin_assoc dg_omin_comm dg_omin_e_l). Qed.
Print Assumptions c17_slice_1d.

(** an empty local block contributes the neutral element (the [_f.size == 0] branch) *)
Theorem c17_empty_block_neutral : forall rs (h : list nat -> option Z),
  fold_right Nat.mul 1 (map snd rs) = 0 -> dg_ndfold dg_omin None rs h = None.
Proof. exact (dg_ndfold_empty dg_omin None dg_omin_e_l). Qed.
Print Assumptions c17_empty_block_neutral.

(** (d) for a field equal to one the reduced result is the product of the per-axis weight sums *)
Theorem c17_field_one_is_volume : forall axes (ws : list (nat -> Z)),
  Forall (fun np => 0 < snd np) axes -> length ws = length axes ->
  dg_ndsum (dg_rank_ranges axes) (fun ks => dg_ndsum (dg_blocks axes ks) (fun idx => dg_prodw ws idx * 1)%Z)
  = dg_prod_sums (dg_full_ranges axes) ws.
Proof. exact dg_field_one. Qed.
Print Assumptions c17_field_one_is_volume.

(** (d') the weights themselves.  Index j of the slice l[start:end] is index start+j of l, so the local
    weight of a local index is the global weight of its global index; the (doubled) trapezoid weights
    [dr[0], dr[0]+dr[1], ..., dr[-1]] sum to 2 (x_max - x_min), and against the linear integrand r they give
    exactly r_max^2 - r_min^2: with f = 1 the radial and velocity factors of every diagnostic are the analytic
    (rMax^2 - rMin^2)/2 and vMax - vMin (theta and z contribute dq * dz per point: rectangle rule) *)
Theorem c17_weight_slice : forall l s e j, j < e - s -> dg_zn (dg_slice l s e) j = dg_zn l (s + j).
Proof. exact dg_slice_nth. Qed.
Print Assumptions c17_weight_slice.

Theorem c17_trapezoid_weight_sum : forall a b t, dg_lsum (dg_trap2 (a :: b :: t)) = (2 * (last (a :: b :: t) 0 - a))%Z.
Proof. exact dg_trap2_sum. Qed.
Print Assumptions c17_trapezoid_weight_sum.

Theorem c17_trapezoid_r_weighted : forall a b t,
  dg_dot (dg_trap2 (a :: b :: t)) (a :: b :: t) = (last (a :: b :: t) 0 * last (a :: b :: t) 0 - a * a)%Z.
Proof. exact dg_trap2_dot. Qed.
Print Assumptions c17_trapezoid_r_weighted.

(** (e) the time slot.  The code computes ti = int(t/dt + 0.5) and idx = int(ti % saveStep): the nearest step,
    half up (t >= 0).  On integers, in exact arithmetic: every time closer than dt/2 to k dt (at most dt/2
    below it) lands in slot k mod saveStep - in particular t = k dt -, the slot is a valid index, the next
    step fills the next slot (cyclically), and saveStep consecutive steps fill pairwise different slots. *)
Theorem c17_slot_of_step : forall k dt s r, (0 < dt -> - dt <= 2 * r < dt -> dg_slot (k * dt + r) dt s = k mod s)%Z.
Proof. exact dg_slot_of_step. Qed.
Print Assumptions c17_slot_of_step.

Theorem c17_slot_on_grid : forall k dt s, (0 < dt -> dg_slot (k * dt) dt s = k mod s)%Z.
Proof. exact dg_slot_on_grid. Qed.
Print Assumptions c17_slot_on_grid.

Theorem c17_slot_valid_index : forall t dt s, (0 < s -> 0 <= dg_slot t dt s < s)%Z.
Proof. exact dg_slot_range. Qed.
Print Assumptions c17_slot_valid_index.

Theorem c17_slot_consecutive : forall t dt s, (0 < dt -> dg_slot (t + dt) dt s = (dg_slot t dt s + 1) mod s)%Z.
Proof. exact dg_slot_next. Qed.
Print Assumptions c17_slot_consecutive.

Theorem c17_slot_no_overwrite : forall t dt s i j, (0 < dt -> 0 < s -> 0 <= i < j -> j < s ->
  dg_slot (t + i * dt) dt s <> dg_slot (t + j * dt) dt s)%Z.
Proof. exact dg_slot_distinct. Qed.
Print Assumptions c17_slot_no_overwrite.

(** * The executable model itself (DiagnosticsLink.v): the functions that are extracted and run against /repo.
    [dg_link_ok c] is the boolean guard the model driver evaluates: dims_order is a permutation of 0..d-1,
    d >= 1, the grid directions used by the layout are distinct and exist, at most d of them, every process
    count >= 1. *)

(** (1) what a rank computes - local index ranges, weight lists sliced [start:end], the flat field read through
    ravel and dims_order - is the fold over the rank's index box (global indices, layout axis order) of
    integrand(field value) x weight product, times dq dz *)
Theorem c17_local_is_block_fold : forall k c wc, perm_b (dg_ndims c) (dg_dims c) = true -> 0 < dg_ndims c ->
  dg_local k c wc = (dg_ndsum (dg_global_ranges c wc) (dg_G k c) * dg_factor2 c)%Z.
Proof. exact dg_local_block_fold. Qed.
Print Assumptions c17_local_is_block_fold.

(** (2) end to end: Reduce(SUM) over all ranks of the process grid, in Create_cart order, of the local values
    = (number of copies of each block) x the serial quadrature computed by the same code on one process - for
    l2, l1, particle number and kinetic energy alike, any global shape, process grid, permutation dims_order
    and choice of grid directions; [dg_replication] is the product of the extents of the unused directions
    (1 for the layouts the collector uses) *)
Theorem c17_reduced_eq_serial : forall k c, dg_link_ok c = true ->
  dg_reduced k c = (Z.of_nat (dg_replication c) * dg_serial k c)%Z.
Proof. exact dg_reduced_eq_serial. Qed.
Print Assumptions c17_reduced_eq_serial.

(** (4) any permutation of the axes: generic statement and its use - the serial quadrature is the canonical
    nested sum over (r, theta, z [, v]) with no reference to dims_order, two layouts of the same field have
    the same serial value, and the reduction over the ranks of any layout equals replication x the serial
    value of any other layout *)
Theorem c17_axis_permutation : forall (dims : list nat) (d : nat) (R : nat -> nat * nat) (H : list nat -> Z),
  perm_b d dims = true ->
  dg_ndsum (map R dims) (fun g => H (map (fun x => nth (Handler.index_of dims x) g 0) (seq 0 d)))
  = dg_ndsum (map R (seq 0 d)) H.
Proof. exact (dg_ndfold_perm Z.add 0%Z Z.add_assoc Z.add_comm Z.add_0_l). Qed.
Print Assumptions c17_axis_permutation.

Theorem c17_serial_canonical : forall k c, perm_b (dg_ndims c) (dg_dims c) = true -> 0 < dg_ndims c ->
  dg_serial k c = (dg_ndsum (dg_canon_full c) (dg_Gc k c) * dg_factor2 c)%Z.
Proof. exact dg_serial_canonical. Qed.
Print Assumptions c17_serial_canonical.

Theorem c17_reduced_any_layout : forall k c c', dg_link_ok c = true ->
  dg_N c = dg_N c' -> dg_etas c = dg_etas c' -> dg_re c = dg_re c' -> dg_im c = dg_im c' ->
  dg_ndims c = dg_ndims c' -> perm_b (dg_ndims c') (dg_dims c') = true ->
  dg_reduced k c = (Z.of_nat (dg_replication c) * dg_serial k c')%Z.
Proof. exact dg_reduced_any_layout. Qed.
Print Assumptions c17_reduced_any_layout.

(** (3) minima / maxima on the executable functions ([mx = false]: MIN with +inf, [true]: MAX with -inf):
    the collector's Reduce of the local extrema is the extremum of the global field (replication does not
    matter), i.e. a bound of every cell of the global array that is attained *)
Theorem c17_collector_ext_eq_serial : forall mx c, dg_link_ok c = true ->
  dg_collector_ext mx c = dg_local_ext mx (dg_serial_cfg c) (map (fun _ => 0) (dg_world c)).
Proof. exact dg_collector_ext_eq_serial. Qed.
Print Assumptions c17_collector_ext_eq_serial.

Theorem c17_collector_min_is_global_min : forall c, dg_link_ok c = true ->
  dg_is_ext Z.le (dg_inbox (dg_canon_full c)) (fun idx => Some (dg_zn (dg_re c) (NdIndex.ravel (dg_N c) idx)))
    (dg_collector_ext false c).
Proof. exact dg_collector_min_spec. Qed.
Print Assumptions c17_collector_min_is_global_min.

Theorem c17_collector_max_is_global_max : forall c, dg_link_ok c = true ->
  dg_is_ext Z.ge (dg_inbox (dg_canon_full c)) (fun idx => Some (dg_zn (dg_re c) (NdIndex.ravel (dg_N c) idx)))
    (dg_collector_ext true c).
Proof. exact dg_collector_max_spec. Qed.
Print Assumptions c17_collector_max_is_global_max.

(** getMin / getMax with a drawing rank and fixed indices: the reduce over all ranks of what they hand in
    (neutral element unless the rank owns every fixed index and is not empty) is what the same function gives
    on one process, and is the extremum over exactly the cells of the global index space matching the fixed
    values *)
Theorem c17_reduced_ext_eq_serial : forall mx c pairs, dg_link_ok c = true ->
  dg_reduced_ext mx c pairs = dg_local_slice_ext mx (dg_serial_cfg c) pairs (map (fun _ => 0) (dg_world c))
  /\ dg_reduced_ext mx c pairs
     = dg_slice_fold (dg_ext mx) None (dg_full c) (dg_fixs c pairs) (fun g => Some (dg_cell (dg_re c) c g)).
Proof. exact dg_reduced_ext_eq_serial. Qed.
Print Assumptions c17_reduced_ext_eq_serial.

Theorem c17_reduced_ext_is_slice_extremum : forall c pairs, dg_link_ok c = true ->
  dg_is_ext Z.le (dg_inbox (dg_full c))
    (fun g => if dg_matches (dg_fixs c pairs) g then Some (dg_cell (dg_re c) c g) else None) (dg_reduced_ext false c pairs)
  /\ dg_is_ext Z.ge (dg_inbox (dg_full c))
    (fun g => if dg_matches (dg_fixs c pairs) g then Some (dg_cell (dg_re c) c g) else None) (dg_reduced_ext true c pairs).
Proof. exact dg_reduced_ext_spec. Qed.
Print Assumptions c17_reduced_ext_is_slice_extremum.

(** the same in canonical coordinates (r, theta, z, v), with no reference to the layout: the extremum over the
    cells of the global array whose coordinate along every given axis equals the given fixValue *)
Theorem c17_getminmax_canonical : forall c pairs, dg_link_ok c = true ->
  dg_is_ext Z.le (dg_inbox (dg_canon_full c))
    (fun idx => if dg_matches (dg_cfixs c pairs) idx then Some (dg_zn (dg_re c) (NdIndex.ravel (dg_N c) idx)) else None)
    (dg_reduced_ext false c pairs)
  /\ dg_is_ext Z.ge (dg_inbox (dg_canon_full c))
    (fun idx => if dg_matches (dg_cfixs c pairs) idx then Some (dg_zn (dg_re c) (NdIndex.ravel (dg_N c) idx)) else None)
    (dg_reduced_ext true c pairs).
Proof. exact dg_reduced_ext_canonical_spec. Qed.
Print Assumptions c17_getminmax_canonical.

(** (e') float arguments of collect(), read as the exact rationals they are: a time t with
    k dt - dt/2 <= t < k dt + dt/2 goes to slot k mod saveStep - so a time accumulated from k steps of dt with
    an error below dt/2 lands in the slot of step k, whatever dt (0.1, 1/3, ...); on integers this model is
    [dg_slot].  The evaluation of t/dt + 0.5 in binary64 is [dg_slot_f] (PrimFloat; compared with the
    implementation by the harness, see also [c17_example_slot_tenth]). *)
Theorem c17_slot_q_of_step : forall (t dt : Q) (k s : Z), (0 < dt)%Q ->
  (inject_Z k * dt - dt * (1 # 2) <= t)%Q -> (t < inject_Z k * dt + dt * (1 # 2))%Q ->
  dg_slot_q t dt s = (k mod s)%Z.
Proof. exact dg_slot_q_of_step. Qed.
Print Assumptions c17_slot_q_of_step.

Theorem c17_slot_q_on_integers : forall t dt s : Z, (0 < dt)%Z -> dg_slot_q (inject_Z t) (inject_Z dt) s = dg_slot t dt s.
Proof. exact dg_slot_q_Z. Qed.
Print Assumptions c17_slot_q_on_integers.

Theorem c17_slot_q_exact : forall (dt : Q) (k s : Z), (0 < dt)%Q -> dg_slot_q (inject_Z k * dt) dt s = (k mod s)%Z.
Proof. exact dg_slot_q_exact. Qed.
Print Assumptions c17_slot_q_exact.

(** non-vacuity: 7 points on 3 processes, blocks [0,2) [2,4) [4,7); weights 1,2,..; a 2x3 grid; a slice;
    slots of steps 0..4 with saveStep 3 *)
Example c17_example_blocks : map (bstart 7 3) [0; 1; 2; 3] = [0; 2; 4; 7]
  /\ dg_sum 0 3 (fun k => dg_sum (bstart 7 3 k) (blen 7 3 k) (fun i => Z.of_nat (S i) * Z.of_nat (i * i))%Z) = 532%Z
  /\ dg_sum 0 7 (fun i => Z.of_nat (S i) * Z.of_nat (i * i))%Z = 532%Z.
Proof. vm_compute. repeat split. Qed.

Example c17_example_minslice :
  let h := fun idx : list nat => Some (Z.sub (Z.of_nat (nth 0 idx 0)) (Z.mul 2%Z (Z.of_nat (nth 1 idx 0)))) in
  map (fun ks => dg_slice_fold dg_omin None (dg_blocks [(5, 2); (4, 3)] ks) [None; Some 2] h) (dg_coords [2; 3])
    = [None; None; Some (-4)%Z; None; None; Some (-2)%Z]
  /\ dg_slice_fold dg_omin None (dg_full_ranges [(5, 2); (4, 3)]) [None; Some 2] h = Some (-4)%Z
  /\ dg_ndfold dg_omin None (dg_full_ranges [(5, 2); (4, 3)]) h = Some (-6)%Z.
Proof. vm_compute. repeat split. Qed.

Example c17_example_trap : dg_trap2 [1; 2; 4; 7]%Z = [1; 3; 5; 3]%Z /\ dg_lsum (dg_trap2 [1; 2; 4; 7]%Z) = 12%Z
  /\ dg_dot (dg_trap2 [1; 2; 4; 7]%Z) [1; 2; 4; 7]%Z = 48%Z /\ dg_slice [10; 11; 12; 13; 14]%Z 1 3 = [11; 12]%Z.
Proof. vm_compute. repeat split. Qed.

Example c17_example_slots : map (fun t => dg_slot t 2 3) [0; 2; 4; 6; 8; 9]%Z = [0; 1; 2; 0; 1; 2]%Z
  /\ dg_table 2 3 [0; 2; 4; 6]%Z = [Some 3; Some 1; Some 2].
Proof. vm_compute. repeat split. Qed.

(** the model itself on a small configuration: 2 x 3 x 3 x 2 grid on a 2 x 1 process grid, v_parallel *)
Example c17_example_model :
  let c := {| dg_N := [2; 3; 3; 2]; dg_world := [2; 1]; dg_sel := [0; 1]; dg_dims := [0; 2; 1; 3];
              dg_etas := [[1; 3]; [0; 1; 2]; [0; 2; 4]; [-1; 1]]%Z;
              dg_re := map Z.of_nat (seq 1 36); dg_im := repeat 0%Z 36 |} in
  dg_wf c = true /\ dg_all DgN c = [1368; 11880]%Z /\ dg_reduced DgN c = 13248%Z /\ dg_serial DgN c = 13248%Z
  /\ dg_collector_ext false c = Some 1%Z /\ dg_reduced_ext true c [(0, 0)] = Some 18%Z.
Proof. vm_compute. repeat split. Qed.

(** dt = 0.1 as a double is larger than 1/10: the step at t = 0.5 (five steps) goes to slot 5 - exactly and in
    binary64 - whereas floor(t / dt) (the code before 56219e6) sent it to slot 4 *)
Example c17_example_slot_tenth :
  dg_slot_q (1 # 2) (3602879701896397 # 36028797018963968) 6 = 5%Z
  /\ dg_slot_f 0.5%float 0x1.999999999999ap-4%float 6 = 5%Z
  /\ (Qfloor ((1 # 2) / (3602879701896397 # 36028797018963968)) mod 6 = 4)%Z.
Proof. vm_compute. repeat split. Qed.

(** the end-to-end theorem is not vacuous: a 3-D layout using only the second direction of a 3 x 2 grid *)
Example c17_example_link :
  let c := {| dg_N := [3; 3; 4]; dg_world := [3; 2]; dg_sel := [1]; dg_dims := [2; 1; 0];
              dg_etas := [[1; 2; 4]; [0; 1; 2]; [0; 2; 4; 6]]%Z;
              dg_re := map Z.of_nat (seq 1 36); dg_im := map Z.of_nat (seq 5 36) |} in
  dg_wf c = true /\ dg_link_ok c = true /\ dg_replication c = 3 /\ dg_serial DgL2 c = 541560%Z
  /\ dg_reduced DgL2 c = 1624680%Z /\ dg_collector_ext true c = Some 36%Z.
Proof. vm_compute. repeat split. Qed.
