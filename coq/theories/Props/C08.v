(** C08 - interpolants reproduce their data (SplineInterpolator1D / 2D of spline_interpolators.py).
    Only statements, [exact]s and [Print Assumptions]; the proofs live in InterpTheory.v, Interp2D.v, GrevilleTheory.v, MarsdenTheory.v and EndValueTheory.v (model: InterpModel.v,
    evaluation: SplineModel.v / SplineTheory.v of C07, seed: CollocRow.row_dot_is_eval) and InterpQc.v (the
    instance on Qc that is extracted and run, and the witnesses computed with it).  Every theorem holds for
    every field with a compatible decidable total order ([sp_laws]), every degree and every size.

    Model conventions: [ip_interp1d knots degree periodic cubic xs u] is compute_interpolant on the space that
    BSplines(knots, degree, periodic, uniform) describes ([cubic] = the uniform-cubic fast path, where [knots] is
    the 4-vector xmin, xmax, dx, ncells), with the interpolation points [xs] as an input (the code's own rounded
    Greville points in the tie); the result is the coefficient array Spline1D.coeffs (ncells + degree entries, the
    periodic wrap included).  [ip_eval1d] is Spline1D.eval at a scalar.  The linear solver is elimination FOLLOWED
    BY the check A.X = B ([c08_lin_solve_spec] holds by construction); LAPACK / SuperLU are modelled by it.

    NOT proved here (see the evidence, "uncovered_clauses"):
    - non-singularity of the collocation matrix for all admissible spaces (Schoenberg-Whitney): the theorems that
      need uniqueness carry the per-instance certificate [ip_inverse_ok] (checked at run time);
    - floating-point rounding, LAPACK ?gbtrf/?gbtrs, SuperLU.

    Periodic spaces with ncells = degree (accepted by make_knots) are COVERED: since repair 6a5dc09 the collocation
    rows accumulate basis values that wrap onto the same column (np.add.at), the model does the same
    ([ip_row_acc]) and [c08_row_acc_dot] holds for every column map, so the headline carries no hypothesis on
    nbasis.  [c08_lww_row_pinned_tree] documents the last-write-wins assignment of the pinned tree (defect 10). *)
From Coq Require Import List Arith Lia ZArith Bool QArith Qcanon.
Import ListNotations.
From PGV Require Import BasisCoxDeBoor CoxDeBoorGen FindSpan CubicUniform CollocRow Sums SplineModel SplineTheory SplineQc InterpModel InterpTheory Interp2D QuadTheory GrevilleTheory QuadSumTheory CirculantTheory CubicQuadTheory MarsdenTheory EndValueTheory InterpQc.

(** the solver: a returned X has the shape n x m and satisfies A.X = B (by construction: the check is part of the definition) *)
Theorem c08_lin_solve_spec :
  forall (F : Type) (K : sp_ops F),
  sp_laws K ->
  forall (n m : nat) (A B X : list (list F)),
  ip_lin_solve F K n m A B = SpOk X ->
  length X = n /\
  (forall i : nat, (i < n)%nat -> length (nth i X []) = m) /\
  (forall i j : nat,
  (i < n)%nat ->
  (j < m)%nat ->
  ip_sum F K n (fun k : nat => spmul K (ip_mget F K A i k) (ip_mget F K X k j)) = ip_mget F K B i j).
Proof. exact (@ip_lin_solve_spec). Qed.
Print Assumptions c08_lin_solve_spec.

(** the certificate of non-singularity: an accepted candidate is a two-sided inverse *)
Theorem c08_inverse_ok_spec :
  forall (F : Type) (K : sp_ops F),
  sp_laws K ->
  forall (n : nat) (A Ainv : list (list F)),
  ip_inverse_ok F K n A Ainv = true ->
  (forall i j : nat,
  (i < n)%nat ->
  (j < n)%nat ->
  ip_sum F K n (fun k : nat => spmul K (ip_mget F K Ainv i k) (ip_mget F K A k j)) = ip_delta F K i j) /\
  (forall i j : nat,
  (i < n)%nat ->
  (j < n)%nat ->
  ip_sum F K n (fun k : nat => spmul K (ip_mget F K A i k) (ip_mget F K Ainv k j)) = ip_delta F K i j).
Proof. exact (@ip_inverse_ok_spec). Qed.
Print Assumptions c08_inverse_ok_spec.

(** the inverse computed by the model itself is accepted by the certificate checker *)
Theorem c08_inverse_spec :
  forall (F : Type) (K : sp_ops F) (n : nat) (A Ainv : list (list F)),
  ip_inverse F K n A = SpOk Ainv -> ip_inverse_ok F K n A Ainv = true.
Proof. exact (@ip_inverse_spec). Qed.
Print Assumptions c08_inverse_spec.

(** HEADLINE (1-D, clamped and periodic, general and uniform-cubic path): if compute_interpolant returns coefficients c then Spline1D.eval gives u_i at every interpolation point x_i.  ALL periodic spaces, ncells = degree included (no hypothesis on nbasis); [ip_spans_in_range]: evaluation at x_i reads inside the coefficient array (discharged for general spaces in [c08_interp1d_exact_nu]) *)
Theorem c08_interp1d_exact :
  forall (F : Type) (K : sp_ops F),
  sp_laws K ->
  forall (knots : list F) (degree : nat) (periodic cubic : bool) (xs u c : list F),
  ip_interp1d F K knots degree periodic cubic xs u = SpOk c ->
  ip_spans_in_range F K knots degree periodic cubic xs ->
  forall i : nat,
  (i < ip_nbasis F K knots degree periodic cubic)%nat ->
  ip_eval1d F K knots degree cubic c (nth i xs (sp0 K)) = SpOk (nth i u (sp0 K)).
Proof. exact (@ip_interp1d_exact). Qed.
Print Assumptions c08_interp1d_exact.

(** the span hypothesis holds on every general space whose domain is not degenerate *)
Theorem c08_spans_in_range_nu :
  forall (F : Type) (K : sp_ops F),
  sp_laws K ->
  forall (knots : list F) (degree : nat) (periodic : bool) (xs : list F),
  (2 * degree + 1 < length knots)%nat ->
  sp_lt K (sp_kn F K knots degree) (sp_kn F K knots (length knots - 1 - degree)) ->
  ip_spans_in_range F K knots degree periodic false xs.
Proof. exact (@ip_span_in_range_nu). Qed.
Print Assumptions c08_spans_in_range_nu.

(** the headline on general (non uniform-cubic) spaces, with nu_eval_spline_1d_scalar spelled out and no hypothesis on the points *)
Theorem c08_interp1d_exact_nu :
  forall (F : Type) (K : sp_ops F),
  sp_laws K ->
  forall (knots : list F) (degree : nat) (periodic : bool) (xs u c : list F),
  ip_interp1d F K knots degree periodic false xs u = SpOk c ->
  sp_lt K (sp_kn F K knots degree) (sp_kn F K knots (length knots - 1 - degree)) ->
  forall i : nat,
  (i < ip_nbasis F K knots degree periodic false)%nat ->
  sp_nu_eval_1d_scalar F K (nth i xs (sp0 K)) knots degree c 0 = SpOk (nth i u (sp0 K)).
Proof. exact (@ip_interp1d_exact_nu). Qed.
Print Assumptions c08_interp1d_exact_nu.

(** the same for several data vectors solved with one factorisation (the sweeps of the 2-D interpolator) *)
Theorem c08_interp_many_exact :
  forall (F : Type) (K : sp_ops F),
  sp_laws K ->
  forall (knots : list F) (degree : nat) (periodic cubic : bool) (xs : list F) (us cs : list (list F)),
  ip_interp_many F K knots degree periodic cubic xs us = SpOk cs ->
  ip_spans_in_range F K knots degree periodic cubic xs ->
  forall r i : nat,
  (r < length us)%nat ->
  (i < ip_nbasis F K knots degree periodic cubic)%nat ->
  ip_eval1d F K knots degree cubic (nth r cs []) (nth i xs (sp0 K)) =
  SpOk (nth i (nth r us []) (sp0 K)).
Proof. exact (@ip_interp_many_exact). Qed.
Print Assumptions c08_interp_many_exact.

(** HEADLINE (2-D, all four clamped / periodic combinations, general and uniform-cubic path): if SplineInterpolator2D.compute_interpolant (two sweeps of 1-D solves, both transposes, both wraps) returns w then Spline2D.eval gives u[i][j] at every point (x1_i, x2_j) of the tensor grid *)
Theorem c08_interp2d_exact :
  forall (F : Type) (K : sp_ops F),
  sp_laws K ->
  forall (k1 : list F) (d1 : nat) (per1 : bool) (xs1 k2 : list F) (d2 : nat)
  (per2 : bool) (xs2 : list F) (cubic : bool) (ug w : list (list F)),
  ip_interp2d F K k1 d1 per1 xs1 k2 d2 per2 xs2 cubic ug = SpOk w ->
  ip_spans_in_range F K k1 d1 per1 cubic xs1 ->
  ip_spans_in_range F K k2 d2 per2 cubic xs2 ->
  forall i j : nat,
  (i < ip_nbasis F K k1 d1 per1 cubic)%nat ->
  (j < ip_nbasis F K k2 d2 per2 cubic)%nat ->
  ip_eval2d F K k1 d1 k2 d2 cubic w (nth i xs1 (sp0 K)) (nth j xs2 (sp0 K)) =
  SpOk (nth j (nth i ug []) (sp0 K)).
Proof. exact (@ip_interp2d_exact). Qed.
Print Assumptions c08_interp2d_exact.

(** Spline2D.eval at a point whose spans / bases are (s1, b1), (s2, b2) is the tensor sum over the coefficient block *)
Theorem c08_eval2d_of_span_basis :
  forall (F : Type) (K : sp_ops F),
  sp_laws K ->
  forall (k1 : list F) (d1 : nat) (k2 : list F) (d2 : nat) (cubic : bool)
  (w : list (list F)) (x y : F) (s1 : nat) (b1 : list F) (s2 : nat) (b2 : list F),
  ip_span_basis F K k1 d1 cubic x = SpOk (s1, b1) ->
  ip_span_basis F K k2 d2 cubic y = SpOk (s2, b2) ->
  (cubic = true -> d1 = 3%nat /\ d2 = 3%nat) ->
  (d1 <= s1)%nat ->
  (s1 < length w)%nat ->
  (d2 <= s2)%nat ->
  Forall (fun row : list F => (s2 < length row)%nat) w ->
  ip_eval2d F K k1 d1 k2 d2 cubic w x y =
  SpOk
  (sumn F (sp0 K) (spadd K) (S d1)
  (fun a : nat =>
  spmul K
  (sumn F (sp0 K) (spadd K) (S d2)
  (fun b : nat =>
  spmul K (nth (s2 - d2 + b) (nth (s1 - d1 + a) w []) (sp0 K)) (nth b b2 (sp0 K))))
  (nth a b1 (sp0 K)))).
Proof. exact (@ip_eval2d_of_span_basis). Qed.
Print Assumptions c08_eval2d_of_span_basis.

(** the coefficient array has ncells + degree entries and periodic interpolants keep their wrapped coefficients consistent: c[n+j] = c[j], j < degree *)
Theorem c08_wrap_consistent :
  forall (F : Type) (K : sp_ops F),
  sp_laws K ->
  forall (knots : list F) (degree : nat) (periodic cubic : bool) (xs u c : list F),
  ip_interp1d F K knots degree periodic cubic xs u = SpOk c ->
  length c = ip_ncoeffs F K knots degree cubic /\
  (periodic = true ->
  forall j : nat,
  (j < degree)%nat -> nth (ip_nbasis F K knots degree periodic cubic + j) c (sp0 K) = nth j c (sp0 K)).
Proof. exact (@ip_interp1d_wrap). Qed.
Print Assumptions c08_wrap_consistent.

(** the coefficients solve the collocation system C c = u with the matrix written by collocation_matrix *)
Theorem c08_interp1d_system :
  forall (F : Type) (K : sp_ops F),
  sp_laws K ->
  forall (knots : list F) (degree : nat) (periodic cubic : bool) (xs u c : list F),
  ip_interp1d F K knots degree periodic cubic xs u = SpOk c ->
  let nb := ip_nbasis F K knots degree periodic cubic in
  exists A : list (list F),
  ip_colloc F K nb knots degree periodic cubic xs = SpOk A /\
  (forall i : nat,
  (i < nb)%nat ->
  ip_sum F K nb (fun k : nat => spmul K (ip_mget F K A i k) (nth k c (sp0 K))) = nth i u (sp0 K)).
Proof. exact (@ip_interp1d_system). Qed.
Print Assumptions c08_interp1d_system.

(** linearity in the data (given the checked inverse): hence complex data = real part + i * imaginary part *)
Theorem c08_interp1d_linear :
  forall (F : Type) (K : sp_ops F),
  sp_laws K ->
  forall (knots : list F) (degree : nat) (periodic cubic : bool) (xs : list F)
  (A Ainv : list (list F)) (u v w cu cv cw : list F) (a b : F),
  let nb := ip_nbasis F K knots degree periodic cubic in
  ip_colloc F K nb knots degree periodic cubic xs = SpOk A ->
  ip_inverse_ok F K nb A Ainv = true ->
  ip_interp1d F K knots degree periodic cubic xs u = SpOk cu ->
  ip_interp1d F K knots degree periodic cubic xs v = SpOk cv ->
  ip_interp1d F K knots degree periodic cubic xs w = SpOk cw ->
  (forall i : nat,
  (i < nb)%nat ->
  nth i w (sp0 K) = spadd K (spmul K a (nth i u (sp0 K))) (spmul K b (nth i v (sp0 K)))) ->
  forall k : nat,
  (k < nb)%nat ->
  nth k cw (sp0 K) = spadd K (spmul K a (nth k cu (sp0 K))) (spmul K b (nth k cv (sp0 K))).
Proof. exact (@ip_interp1d_linear). Qed.
Print Assumptions c08_interp1d_linear.

(** constant data give constant coefficients (rows sum to one + checked inverse) *)
Theorem c08_interp1d_const :
  forall (F : Type) (K : sp_ops F),
  sp_laws K ->
  forall (knots : list F) (degree : nat) (periodic cubic : bool) (xs : list F)
  (A Ainv : list (list F)) (u c : list F) (kappa : F),
  let nb := ip_nbasis F K knots degree periodic cubic in
  ip_colloc F K nb knots degree periodic cubic xs = SpOk A ->
  ip_inverse_ok F K nb A Ainv = true ->
  ip_rows_sum_one F K nb A ->
  ip_interp1d F K knots degree periodic cubic xs u = SpOk c ->
  (forall i : nat, (i < nb)%nat -> nth i u (sp0 K) = kappa) ->
  forall k : nat, (k < ip_ncoeffs F K knots degree cubic)%nat -> nth k c (sp0 K) = kappa.
Proof. exact (@ip_interp1d_const). Qed.
Print Assumptions c08_interp1d_const.

(** complex data (zgbtrs on the real collocation matrix): a complex coefficient vector zr + i zi that solves C (zr + i zi) = ur + i ui - componentwise, C being real - is the pair of the real interpolants of ur and ui (corollary of uniqueness / c08_interp1d_linear); with c08_interp1d_exact both parts take their data values *)
Theorem c08_interp1d_complex :
  forall (F : Type) (K : sp_ops F),
  sp_laws K ->
  forall (knots : list F) (degree : nat) (periodic cubic : bool) (xs : list F)
  (A Ainv : list (list F)) (ur ui cr ci : list F) (zr zi : nat -> F),
  let nb := ip_nbasis F K knots degree periodic cubic in
  ip_colloc F K nb knots degree periodic cubic xs = SpOk A ->
  ip_inverse_ok F K nb A Ainv = true ->
  ip_interp1d F K knots degree periodic cubic xs ur = SpOk cr ->
  ip_interp1d F K knots degree periodic cubic xs ui = SpOk ci ->
  (forall i : nat,
  (i < nb)%nat ->
  ip_sum F K nb (fun k : nat => spmul K (ip_mget F K A i k) (zr k)) = nth i ur (sp0 K)) ->
  (forall i : nat,
  (i < nb)%nat ->
  ip_sum F K nb (fun k : nat => spmul K (ip_mget F K A i k) (zi k)) = nth i ui (sp0 K)) ->
  forall k : nat, (k < nb)%nat -> zr k = nth k cr (sp0 K) /\ zi k = nth k ci (sp0 K).
Proof. exact (@ip_interp1d_complex). Qed.
Print Assumptions c08_interp1d_complex.

(** rows of the collocation matrix sum to one: uniform-cubic path, any points *)
Theorem c08_rows_sum_one_cubic :
  forall (F : Type) (K : sp_ops F),
  sp_laws K ->
  forall (knots : list F) (degree : nat) (periodic : bool) (xs : list F) (A : list (list F)),
  let nb := ip_nbasis F K knots degree periodic true in
  ip_colloc F K nb knots degree periodic true xs = SpOk A ->
  length xs = nb -> degree = 3%nat -> ip_rows_sum_one F K nb A.
Proof. exact (@ip_rows_sum_one_cubic). Qed.
Print Assumptions c08_rows_sum_one_cubic.

(** rows of the collocation matrix sum to one: general path, points in the closed domain of a sorted knot vector *)
Theorem c08_rows_sum_one_nu :
  forall (F : Type) (K : sp_ops F),
  sp_laws K ->
  forall (knots : list F) (degree : nat) (periodic : bool) (xs : list F) (A : list (list F)),
  let nb := ip_nbasis F K knots degree periodic false in
  ip_colloc F K nb knots degree periodic false xs = SpOk A ->
  length xs = nb ->
  sp_sorted F K knots ->
  (2 * degree + 1 < length knots)%nat ->
  sp_lt K (sp_kn F K knots degree) (sp_kn F K knots (S degree)) ->
  sp_lt K (sp_kn F K knots (length knots - degree - 2)) (sp_kn F K knots (length knots - 1 - degree)) ->
  (forall i : nat,
  (i < nb)%nat ->
  sp_le K (sp_kn F K knots degree) (nth i xs (sp0 K)) /\
  sp_le K (nth i xs (sp0 K)) (sp_kn F K knots (length knots - 1 - degree))) ->
  ip_rows_sum_one F K nb A.
Proof. exact (@ip_rows_sum_one_nu). Qed.
Print Assumptions c08_rows_sum_one_nu.

(** a spline with constant coefficients is that constant everywhere on the closed domain: polynomials of degree 0 are reproduced everywhere *)
Theorem c08_const_spline :
  forall (F : Type) (K : sp_ops F),
  sp_laws K ->
  forall (knots : list F) (degree : nat) (c : list F) (kappa x : F),
  sp_sorted F K knots ->
  (2 * degree + 1 < length knots)%nat ->
  sp_lt K (sp_kn F K knots degree) (sp_kn F K knots (S degree)) ->
  sp_lt K (sp_kn F K knots (length knots - degree - 2)) (sp_kn F K knots (length knots - 1 - degree)) ->
  sp_le K (sp_kn F K knots degree) x ->
  sp_le K x (sp_kn F K knots (length knots - 1 - degree)) ->
  length c = (length knots - degree - 1)%nat ->
  (forall k : nat, (k < length c)%nat -> nth k c (sp0 K) = kappa) ->
  sp_nu_eval_1d_scalar F K x knots degree c 0 = SpOk kappa.
Proof. exact (@ip_const_spline_nu). Qed.
Print Assumptions c08_const_spline.

(** the de Boor step on a span, for any coefficients a: sum_i a_i N_{i,k+1}(x) = sum_i (a_i w_i + a_{i-1} (1 - w_i)) N_{i,k}(x), N = the Cox - de Boor triangle above the indicator of the span (= Algorithm A2.2 for every x, CoxDeBoorGen.basis_eq_delta) *)
Theorem c08_deboor_step :
  forall (F : Type) (K : sp_ops F),
  sp_laws K ->
  forall (knots : list F) (x : F) (s : nat),
  sp_sorted F K knots ->
  sp_span_ok F K knots s ->
  forall (a : nat -> F) (k i0 : nat),
  (i0 + S k)%nat = s ->
  sumn F (sp0 K) (spadd K) (S (S k))
  (fun q : nat =>
  spmul K (a (i0 + q)%nat)
  (Ng F (sp0 K) (spadd K) (spmul K) (spsub K) (spdiv K) (sp_kn F K knots) x
  (speqb K) (delta F (sp0 K) (sp1 K) s) (S k) (i0 + q))) =
  sumn F (sp0 K) (spadd K) (S k)
  (fun q : nat =>
  spmul K
  (spadd K
  (spmul K (a (i0 + S q)%nat)
  (spdiv K (spsub K x (sp_kn F K knots (i0 + S q)))
  (spsub K (sp_kn F K knots (i0 + S q + k + 1)) (sp_kn F K knots (i0 + S q)))))
  (spmul K (a (i0 + q)%nat)
  (spdiv K (spsub K (sp_kn F K knots (i0 + S q + k + 1)) x)
  (spsub K (sp_kn F K knots (i0 + S q + k + 1)) (sp_kn F K knots (i0 + S q))))))
  (Ng F (sp0 K) (spadd K) (spmul K) (spsub K) (spdiv K) (sp_kn F K knots) x
  (speqb K) (delta F (sp0 K) (sp1 K) s) k (i0 + S q))).
Proof. exact (@ip_deboor_step). Qed.
Print Assumptions c08_deboor_step.

(** Greville identity: sum_i (t_{i+1} + ... + t_{i+k}) N_{i,k}(x) = k x on the span, every degree k <= s, every x *)
Theorem c08_greville_identity :
  forall (F : Type) (K : sp_ops F),
  sp_laws K ->
  forall (knots : list F) (x : F) (s : nat),
  sp_sorted F K knots ->
  sp_span_ok F K knots s ->
  forall k : nat,
  (k <= s)%nat ->
  sumn F (sp0 K) (spadd K) (S k)
  (fun q : nat =>
  spmul K (ip_T F K knots k (s - k + q))
  (Ng F (sp0 K) (spadd K) (spmul K) (spsub K) (spdiv K) (sp_kn F K knots) x
  (speqb K) (delta F (sp0 K) (sp1 K) s) k (s - k + q))) = spmul K (sp_ofnat F K k) x.
Proof. exact (@ip_greville_T). Qed.
Print Assumptions c08_greville_identity.

(** a spline whose coefficients are alpha + beta xi_j (xi_j the knot averages, [ip_greville]) is the linear function alpha + beta x on the whole closed domain *)
Theorem c08_linear_spline :
  forall (F : Type) (K : sp_ops F),
  sp_laws K ->
  forall (knots : list F) (p : nat) (c : list F) (alpha beta x : F),
  sp_sorted F K knots ->
  (2 * p + 1 < length knots)%nat ->
  (1 <= p)%nat ->
  sp_lt K (sp_kn F K knots p) (sp_kn F K knots (S p)) ->
  sp_lt K (sp_kn F K knots (length knots - p - 2)) (sp_kn F K knots (length knots - 1 - p)) ->
  sp_le K (sp_kn F K knots p) x ->
  sp_le K x (sp_kn F K knots (length knots - 1 - p)) ->
  length c = (length knots - p - 1)%nat ->
  (forall j : nat,
  (j < length c)%nat -> nth j c (sp0 K) = spadd K alpha (spmul K beta (ip_greville F K knots p j))) ->
  sp_nu_eval_1d_scalar F K x knots p c 0 = SpOk (spadd K alpha (spmul K beta x)).
Proof. exact (@ip_linear_spline). Qed.
Print Assumptions c08_linear_spline.

(** polynomials of degree <= 1 are reproduced everywhere: on a clamped general space the interpolant of the data alpha + beta x_i at ANY interpolation points of the domain (checked inverse) evaluates to alpha + beta x at every x of the domain *)
Theorem c08_interp1d_reproduces_linear :
  forall (F : Type) (K : sp_ops F),
  sp_laws K ->
  forall (knots : list F) (p : nat) (xs : list F) (A Ainv : list (list F))
  (u c : list F) (alpha beta : F),
  let nb := ip_nbasis F K knots p false false in
  sp_sorted F K knots ->
  (2 * p + 1 < length knots)%nat ->
  sp_lt K (sp_kn F K knots p) (sp_kn F K knots (S p)) ->
  sp_lt K (sp_kn F K knots (length knots - p - 2)) (sp_kn F K knots (length knots - 1 - p)) ->
  ip_colloc F K nb knots p false false xs = SpOk A ->
  ip_inverse_ok F K nb A Ainv = true ->
  (forall i : nat,
  (i < nb)%nat ->
  sp_le K (sp_kn F K knots p) (nth i xs (sp0 K)) /\
  sp_le K (nth i xs (sp0 K)) (sp_kn F K knots (length knots - 1 - p))) ->
  ip_interp1d F K knots p false false xs u = SpOk c ->
  (forall i : nat, (i < nb)%nat -> nth i u (sp0 K) = spadd K alpha (spmul K beta (nth i xs (sp0 K)))) ->
  forall x : F,
  sp_le K (sp_kn F K knots p) x ->
  sp_le K x (sp_kn F K knots (length knots - 1 - p)) ->
  sp_nu_eval_1d_scalar F K x knots p c 0 = SpOk (spadd K alpha (spmul K beta x)).
Proof. exact (@ip_interp1d_reproduces_linear). Qed.
Print Assumptions c08_interp1d_reproduces_linear.

(** Marsden identity in symmetric-function form, on a span, every degree k <= s, every x, every m: sum_i e_m(t_{i+1}, ..., t_{i+k}) N_{i,k}(x) = C(k,m) x^m ([ip_esym] = elementary symmetric polynomial of a list, [ip_win knots k i] = the window t_{i+1..i+k}, [ip_binom] = Pascal, [ip_pow] = power) *)
Theorem c08_marsden_esym :
  forall (F : Type) (K : sp_ops F),
  sp_laws K ->
  forall (knots : list F) (x : F) (s : nat),
  sp_sorted F K knots ->
  sp_span_ok F K knots s ->
  forall k : nat,
  (k <= s)%nat ->
  forall m : nat,
  sumn F (sp0 K) (spadd K) (S k)
  (fun q : nat =>
  spmul K (ip_esym F K (ip_win F K knots k (s - k + q)) m)
  (Ng F (sp0 K) (spadd K) (spmul K) (spsub K) (spdiv K) (sp_kn F K knots) x
  (speqb K) (delta F (sp0 K) (sp1 K) s) k (s - k + q))) =
  spmul K (sp_ofnat F K (ip_binom k m)) (ip_pow F K x m).
Proof. exact (@ip_marsden_esym). Qed.
Print Assumptions c08_marsden_esym.

(** generic: coefficients gam_j that reproduce g on every non-empty span (local identity on the A2.2 values) give a spline equal to g on the whole closed domain *)
Theorem c08_spline_reproduces :
  forall (F : Type) (K : sp_ops F),
  sp_laws K ->
  forall (knots : list F) (p : nat) (gam : nat -> F) (g : F -> F),
  sp_sorted F K knots ->
  (2 * p + 1 < length knots)%nat ->
  sp_lt K (sp_kn F K knots p) (sp_kn F K knots (S p)) ->
  sp_lt K (sp_kn F K knots (length knots - p - 2)) (sp_kn F K knots (length knots - 1 - p)) ->
  (forall (x : F) (s : nat),
  sp_span_ok F K knots s ->
  (p <= s)%nat ->
  sumn F (sp0 K) (spadd K) (S p)
  (fun j : nat => spmul K (gam (s - p + j)%nat) (nth j (sp_A22 F K knots p x s) (sp0 K))) =
  g x) ->
  forall (c : list F) (x : F),
  sp_le K (sp_kn F K knots p) x ->
  sp_le K x (sp_kn F K knots (length knots - 1 - p)) ->
  length c = (length knots - p - 1)%nat ->
  (forall j : nat, (j < length c)%nat -> nth j c (sp0 K) = gam j) ->
  sp_nu_eval_1d_scalar F K x knots p c 0 = SpOk (g x).
Proof. exact (@ip_spline_reproduces). Qed.
Print Assumptions c08_spline_reproduces.

(** generic: then the interpolant of the nodal values g(x_i) (any points of the domain, checked inverse) is g on the whole closed domain *)
Theorem c08_interp1d_reproduces :
  forall (F : Type) (K : sp_ops F),
  sp_laws K ->
  forall (knots : list F) (p : nat) (gam : nat -> F) (g : F -> F),
  sp_sorted F K knots ->
  (2 * p + 1 < length knots)%nat ->
  sp_lt K (sp_kn F K knots p) (sp_kn F K knots (S p)) ->
  sp_lt K (sp_kn F K knots (length knots - p - 2)) (sp_kn F K knots (length knots - 1 - p)) ->
  (forall (x : F) (s : nat),
  sp_span_ok F K knots s ->
  (p <= s)%nat ->
  sumn F (sp0 K) (spadd K) (S p)
  (fun j : nat => spmul K (gam (s - p + j)%nat) (nth j (sp_A22 F K knots p x s) (sp0 K))) =
  g x) ->
  forall (xs : list F) (A Ainv : list (list F)) (u c : list F),
  let nb := ip_nbasis F K knots p false false in
  ip_colloc F K nb knots p false false xs = SpOk A ->
  ip_inverse_ok F K nb A Ainv = true ->
  (forall i : nat,
  (i < nb)%nat ->
  sp_le K (sp_kn F K knots p) (nth i xs (sp0 K)) /\
  sp_le K (nth i xs (sp0 K)) (sp_kn F K knots (length knots - 1 - p))) ->
  ip_interp1d F K knots p false false xs u = SpOk c ->
  (forall i : nat, (i < nb)%nat -> nth i u (sp0 K) = g (nth i xs (sp0 K))) ->
  forall x : F,
  sp_le K (sp_kn F K knots p) x ->
  sp_le K x (sp_kn F K knots (length knots - 1 - p)) ->
  sp_nu_eval_1d_scalar F K x knots p c 0 = SpOk (g x).
Proof. exact (@ip_interp1d_reproduces). Qed.
Print Assumptions c08_interp1d_reproduces.

(** EVERY polynomial of degree <= p (coefficient list a_0..a_m, m <= p, value [ip_polyval]) is the spline with the explicit coefficients [ip_poly_coeff] = sum_m a_m e_m(t_{j+1..j+p})/C(p,m): the general evaluator returns the polynomial at every x of the closed domain (any sorted knot vector whose first and last cells are not empty) *)
Theorem c08_poly_spline :
  forall (F : Type) (K : sp_ops F),
  sp_laws K ->
  forall (knots : list F) (p : nat) (a c : list F) (x : F),
  sp_sorted F K knots ->
  (2 * p + 1 < length knots)%nat ->
  sp_lt K (sp_kn F K knots p) (sp_kn F K knots (S p)) ->
  sp_lt K (sp_kn F K knots (length knots - p - 2)) (sp_kn F K knots (length knots - 1 - p)) ->
  (length a <= S p)%nat ->
  sp_le K (sp_kn F K knots p) x ->
  sp_le K x (sp_kn F K knots (length knots - 1 - p)) ->
  length c = (length knots - p - 1)%nat ->
  (forall j : nat, (j < length c)%nat -> nth j c (sp0 K) = ip_poly_coeff F K knots p a j) ->
  sp_nu_eval_1d_scalar F K x knots p c 0 = SpOk (ip_polyval F K a x).
Proof. exact (@ip_poly_spline). Qed.
Print Assumptions c08_poly_spline.

(** POLYNOMIAL REPRODUCTION, all degrees <= p: on a clamped general space the interpolant of the nodal values of a polynomial of degree <= p - at ANY interpolation points of the domain, collocation matrix with a checked inverse - evaluates to the polynomial at every x of the closed domain *)
Theorem c08_interp1d_reproduces_poly :
  forall (F : Type) (K : sp_ops F),
  sp_laws K ->
  forall (knots : list F) (p : nat) (a xs : list F) (A Ainv : list (list F)) (u c : list F),
  let nb := ip_nbasis F K knots p false false in
  sp_sorted F K knots ->
  (2 * p + 1 < length knots)%nat ->
  sp_lt K (sp_kn F K knots p) (sp_kn F K knots (S p)) ->
  sp_lt K (sp_kn F K knots (length knots - p - 2)) (sp_kn F K knots (length knots - 1 - p)) ->
  (length a <= S p)%nat ->
  ip_colloc F K nb knots p false false xs = SpOk A ->
  ip_inverse_ok F K nb A Ainv = true ->
  (forall i : nat,
  (i < nb)%nat ->
  sp_le K (sp_kn F K knots p) (nth i xs (sp0 K)) /\
  sp_le K (nth i xs (sp0 K)) (sp_kn F K knots (length knots - 1 - p))) ->
  ip_interp1d F K knots p false false xs u = SpOk c ->
  (forall i : nat, (i < nb)%nat -> nth i u (sp0 K) = ip_polyval F K a (nth i xs (sp0 K))) ->
  forall x : F,
  sp_le K (sp_kn F K knots p) x ->
  sp_le K x (sp_kn F K knots (length knots - 1 - p)) ->
  sp_nu_eval_1d_scalar F K x knots p c 0 = SpOk (ip_polyval F K a x).
Proof. exact (@ip_interp1d_reproduces_poly). Qed.
Print Assumptions c08_interp1d_reproduces_poly.

(** the monomial x^2 (p >= 2): coefficients xi_j^(2) = e_2(t_{j+1..j+p})/C(p,2) = (sum_{i<k in the window} t_i t_k)/C(p,2) ([ip_mono_coeff knots p 2 j]); the evaluator returns x*x on the closed domain *)
Theorem c08_square_spline :
  forall (F : Type) (K : sp_ops F),
  sp_laws K ->
  forall (knots : list F) (p : nat) (c : list F) (x : F),
  sp_sorted F K knots ->
  (2 * p + 1 < length knots)%nat ->
  (2 <= p)%nat ->
  sp_lt K (sp_kn F K knots p) (sp_kn F K knots (S p)) ->
  sp_lt K (sp_kn F K knots (length knots - p - 2)) (sp_kn F K knots (length knots - 1 - p)) ->
  sp_le K (sp_kn F K knots p) x ->
  sp_le K x (sp_kn F K knots (length knots - 1 - p)) ->
  length c = (length knots - p - 1)%nat ->
  (forall j : nat, (j < length c)%nat -> nth j c (sp0 K) = ip_mono_coeff F K knots p 2 j) ->
  sp_nu_eval_1d_scalar F K x knots p c 0 = SpOk (spmul K x x).
Proof. exact (@ip_square_spline). Qed.
Print Assumptions c08_square_spline.

(** clamped knot vector ([ip_clamped]), p >= 1: at x = a = t_p the span is p and the basis values are (1, 0, ..., 0) *)
Theorem c08_left_end_values :
  forall (F : Type) (K : sp_ops F),
  sp_laws K ->
  forall (knots : list F) (p : nat),
  ip_clamped F K knots p ->
  (1 <= p)%nat ->
  sp_nu_find_span F K knots p (sp_kn F K knots p) = SpOk p /\
  sp_nu_basis_funs F K knots p (sp_kn F K knots p) p = SpOk (sp_A22 F K knots p (sp_kn F K knots p) p) /\
  (forall q : nat,
  (q <= p)%nat ->
  nth q (sp_A22 F K knots p (sp_kn F K knots p) p) (sp0 K) = (if (q =? 0)%nat then sp1 K else sp0 K)).
Proof. exact (@ip_left_end_values). Qed.
Print Assumptions c08_left_end_values.

(** at x = b = t_{len-1-p} the span is len-p-2 (the last one) and the basis values are (0, ..., 0, 1) *)
Theorem c08_right_end_values :
  forall (F : Type) (K : sp_ops F),
  sp_laws K ->
  forall (knots : list F) (p : nat),
  ip_clamped F K knots p ->
  (1 <= p)%nat ->
  sp_nu_find_span F K knots p (sp_kn F K knots (length knots - 1 - p)) =
  SpOk (length knots - p - 2)%nat /\
  sp_nu_basis_funs F K knots p (sp_kn F K knots (length knots - 1 - p)) (length knots - p - 2) =
  SpOk (sp_A22 F K knots p (sp_kn F K knots (length knots - 1 - p)) (length knots - p - 2)) /\
  (forall q : nat,
  (q <= p)%nat ->
  nth q (sp_A22 F K knots p (sp_kn F K knots (length knots - 1 - p)) (length knots - p - 2)) (sp0 K) =
  (if (q =? p)%nat then sp1 K else sp0 K)).
Proof. exact (@ip_right_end_values). Qed.
Print Assumptions c08_right_end_values.

(** hence S(a) = c_0 and S(b) = c_last for the general evaluator on a clamped space (a clamped spline vanishes at a Dirichlet boundary iff its first / last coefficient is zero) *)
Theorem c08_clamped_end_eval :
  forall (F : Type) (K : sp_ops F),
  sp_laws K ->
  forall (knots : list F) (p : nat),
  ip_clamped F K knots p ->
  (1 <= p)%nat ->
  forall c : list F,
  length c = (length knots - p - 1)%nat ->
  sp_nu_eval_1d_scalar F K (sp_kn F K knots p) knots p c 0 = SpOk (nth 0 c (sp0 K)) /\
  sp_nu_eval_1d_scalar F K (sp_kn F K knots (length knots - 1 - p)) knots p c 0 =
  SpOk (nth (length knots - p - 2) c (sp0 K)).
Proof. exact (@ip_clamped_end_eval). Qed.
Print Assumptions c08_clamped_end_eval.

(** the uniform-cubic path is NOT interpolatory at the ends (the space is the restriction of uniform B-splines): S(xmin) = (c_0 + 4 c_1 + c_2)/6, S(xmax) = (c_n + 4 c_{n+1} + c_{n+2})/6, n = ncells (xmax = xmin + n dx, int() = floor) *)
Theorem c08_cubic_end_eval :
  forall (F : Type) (K : sp_ops F),
  sp_laws K ->
  forall (xmin xmax dx fn : F) (n : nat),
  sp_trunc_ok F K ->
  dx <> sp0 K ->
  sptrunc K fn = Z.of_nat n ->
  (1 <= n)%nat ->
  xmax = spadd K xmin (spmul K (sp_ofnat F K n) dx) ->
  forall c : list F,
  length c = (n + 3)%nat ->
  sp_cu_eval_1d_scalar F K xmin [xmin; xmax; dx; fn] 3 c 0 =
  SpOk
  (spdiv K
  (spadd K
  (spadd K (nth 0 c (sp0 K))
  (spmul K (spadd K (spadd K (spadd K (sp1 K) (sp1 K)) (sp1 K)) (sp1 K)) (nth 1 c (sp0 K))))
  (nth 2 c (sp0 K)))
  (spadd K (spadd K (spadd K (spadd K (spadd K (sp1 K) (sp1 K)) (sp1 K)) (sp1 K)) (sp1 K))
  (sp1 K))) /\
  sp_cu_eval_1d_scalar F K xmax [xmin; xmax; dx; fn] 3 c 0 =
  SpOk
  (spdiv K
  (spadd K
  (spadd K (nth n c (sp0 K))
  (spmul K (spadd K (spadd K (spadd K (sp1 K) (sp1 K)) (sp1 K)) (sp1 K))
  (nth (n + 1) c (sp0 K)))) (nth (n + 2) c (sp0 K)))
  (spadd K (spadd K (spadd K (spadd K (spadd K (sp1 K) (sp1 K)) (sp1 K)) (sp1 K)) (sp1 K))
  (sp1 K))).
Proof. exact (@ip_cubic_end_eval). Qed.
Print Assumptions c08_cubic_end_eval.

(** the bookkeeping at the heart of the headline: a row written by np.add.at (repeated columns add up), dotted with ANY vector, is the sum eval forms through the same column map - for EVERY column map into [0, n), no injectivity *)
Theorem c08_row_acc_dot :
  forall (F : Type) (K : sp_ops F),
  sp_laws K ->
  forall (n : nat) (idx : nat -> nat) (b c : nat -> F) (p : nat),
  (forall j : nat, (j <= p)%nat -> (idx j < n)%nat) ->
  sumn F (sp0 K) (spadd K) n (fun k : nat => spmul K (ip_row_acc F K idx b p k) (c k)) =
  sumn F (sp0 K) (spadd K) (S p) (fun j : nat => spmul K (b j) (c (idx j))).
Proof. exact (@ip_row_acc_dot). Qed.
Print Assumptions c08_row_acc_dot.

(** the same for the rows of the model (columns span-p+j, or the same modulo nbasis) *)
Theorem c08_row_dot_is_eval :
  forall (F : Type) (K : sp_ops F),
  sp_laws K ->
  forall (nb degree s : nat) (periodic : bool) (b : list F) (sol : nat -> F),
  (1 <= nb)%nat ->
  (degree <= s)%nat ->
  (periodic = false -> (s < nb)%nat) ->
  ip_sum F K nb
  (fun k : nat => spmul K (nth k (ip_row_of F K nb degree s periodic b) (sp0 K)) (sol k)) =
  sumn F (sp0 K) (spadd K) (S degree)
  (fun j : nat => spmul K (nth j b (sp0 K)) (sol (ip_col nb degree s periodic j))).
Proof. exact (@ip_row_dot). Qed.
Print Assumptions c08_row_dot_is_eval.

(** periodic spaces with ncells = degree on Qc: degree 2 / 2 cells (row (1/4, 3/4), data reproduced) and degree 1 / 1 cell (no longer singular) *)
Theorem c08_interp_periodic_small_ok :
  ip_space_ok Qc spq_ops ipq_w10_knots 2 true false = true /\
  ip_nbasis Qc spq_ops ipq_w10_knots 2 true false = 2%nat /\
  match ip_colloc Qc spq_ops 2 ipq_w10_knots 2 true false ipq_w10_xs with
  | SpOk A =>
  map (map spq_show) A = [[(1, 4%positive); (3, 4%positive)]; [(3, 4%positive); (1, 4%positive)]]
  | _ => False
  end /\
  match ip_interp1d Qc spq_ops ipq_w10_knots 2 true false ipq_w10_xs ipq_w10_u with
  | SpOk c =>
  map (fun x : Qc => spq_show_res (ip_eval1d Qc spq_ops ipq_w10_knots 2 false c x)) ipq_w10_xs =
  map (fun v : Qc => SpOk (spq_show v)) ipq_w10_u
  | _ => False
  end /\
  match ip_interp1d Qc spq_ops (ipq_z [-1; 0; 1; 2]) 1 true false (ipq_z [0]) (ipq_z [7]) with
  | SpOk c => map spq_show c = [(7, 1%positive); (7, 1%positive)]
  | _ => False
  end.
Proof. exact (@ipq_interp_periodic_small_ok). Qed.
Print Assumptions c08_interp_periodic_small_ok.

(** PINNED-TREE documentation (defect 10, repaired by 6a5dc09): with the assignment mat[i, js(span)] = basis the same row was (1/8, 3/4) (last write wins), not (1/4, 3/4) *)
Theorem c08_lww_row_pinned_tree :
  match spq_nu_basis_funs ipq_w10_knots 2 (spq_of 1 2) 2 with
  | SpOk b =>
  map
  (fun k : nat =>
  spq_show (row Qc (Q2Qc 0) (ip_col 2 2 2 true) (fun j : nat => nth j b (Q2Qc 0)) 2 k))
  [0%nat; 1%nat] = [(1, 8%positive); (3, 4%positive)] /\
  map spq_show (ip_row_of Qc spq_ops 2 2 2 true b) = [(1, 4%positive); (3, 4%positive)]
  | _ => False
  end.
Proof. exact (@ipq_lww_row). Qed.
Print Assumptions c08_lww_row_pinned_tree.

(** the executed instance satisfies the laws under which everything above is proved *)
Theorem c08_qc_laws :
  sp_laws spq_ops.
Proof. exact (@spq_laws). Qed.
Print Assumptions c08_qc_laws.

(** non-vacuity, computed on Qc: a clamped non-uniform cubic space and a periodic quadratic one (interpolation
    conditions hold, wrap consistent, inverse certificate accepted), and their 2-D tensor product *)
Example c08_ex_interp1d :
  match ip_interp1d Qc spq_ops ipq_ex_knots 3 false false ipq_ex_xs ipq_ex_u with
  | SpOk c => map (fun x => spq_show_res (ip_eval1d Qc spq_ops ipq_ex_knots 3 false c x)) ipq_ex_xs
              = map (fun v => SpOk (spq_show v)) ipq_ex_u /\ length c = 6%nat
  | _ => False
  end /\
  match ip_interp1d Qc spq_ops ipq_exp_knots 2 true false ipq_exp_xs ipq_exp_u with
  | SpOk c => map (fun x => spq_show_res (ip_eval1d Qc spq_ops ipq_exp_knots 2 false c x)) ipq_exp_xs
              = map (fun v => SpOk (spq_show v)) ipq_exp_u /\ length c = 5%nat
              /\ map spq_show (skipn 3 c) = map spq_show (firstn 2 c)
  | _ => False
  end /\
  match ip_colloc Qc spq_ops 6 ipq_ex_knots 3 false false ipq_ex_xs with
  | SpOk A => match ip_inverse Qc spq_ops 6 A with SpOk Ainv => ip_inverse_ok Qc spq_ops 6 A Ainv = true | _ => False end
  | _ => False
  end.
Proof. exact ipq_ex_interp1d. Qed.

Example c08_ex_interp2d :
  let ug := map (fun i => map (fun j => spq_of (Z.of_nat (i * i + 2 * j) - 3) 1) (seq 0 3)) (seq 0 6) in
  match ip_interp2d Qc spq_ops ipq_ex_knots 3 false ipq_ex_xs ipq_exp_knots 2 true ipq_exp_xs false ug with
  | SpOk w => map (fun x => map (fun y => spq_show_res (ip_eval2d Qc spq_ops ipq_ex_knots 3 ipq_exp_knots 2 false w x y)) ipq_exp_xs) ipq_ex_xs
              = map (map (fun v => SpOk (spq_show v))) ug
              /\ length w = 6%nat /\ map (@length Qc) w = repeat 5%nat 6
  | _ => False
  end.
Proof. exact ipq_ex_interp2d. Qed.
