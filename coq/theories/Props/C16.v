(** C16 - density is the exact velocity integral of the interpolated distribution.
    Only statements, [exact]s and [Print Assumptions]; proofs in Density.v (uses Sums.v, GridSteps.v, Blocks.v).
    The executable model [dn_get_perturbed_rho] / [dn_get_rho] / [dn_finder_perturbed_rho] is the quadruple loop
    of pygyro/poisson/poisson_tools.py and the row lookup of DensityFinder.getPerturbedRho; it is run at Qc
    (DensityQc.v) against the real source executed on Fractions.

    NOT proved here:
    - that the vector I of [c16_rho_exact] holds the integrals of the basis functions (BSplines.integrals: C09),
      and that get_quadrature_coefficients solves C^T q = I exactly (LAPACK / SuperLU, checked numerically);
    - floating-point rounding of the accumulation. *)
From Coq Require Import List Arith Lia ZArith Bool QArith Qcanon.
Import ListNotations.
From PGV Require Import Blocks Sums GridSteps Density DensityQc.
Close Scope Q_scope.
Close Scope Qc_scope.
Open Scope nat_scope.

(** rho_formula: when every entry read by the loops exists, get_perturbed_rho does not raise and cell (i,j,k) holds sum_l q[l]*(grid[i,j,k,l] - feq[i,l]) (sum in loop order), for every shape *)
Theorem c16_rho_formula :
  forall (F : Type) (f0 : F) (fadd fmul fsub : F -> F -> F) (n m p : nat) (feq : list (list F)) (grid : list (list (list (list F)))) (q : list F) (qf : nat -> F) (gf : nat -> nat -> nat -> nat -> F) (ef : nat -> nat -> F), (forall l : nat, l < length q -> nth_error q l = Some (qf l)) -> (forall i j k l : nat, i < n -> j < m -> k < p -> l < length q -> dn_at4 F grid i j k l = Some (gf i j k l)) -> (forall i l : nat, i < n -> l < length q -> dn_at2 F feq i l = Some (ef i l)) -> exists rho : list (list (list F)), dn_get_perturbed_rho F f0 fadd fmul fsub n m p feq grid q = Some rho /\ (forall i j k : nat, i < n -> j < m -> k < p -> dn_at3 F rho i j k = Some (dn_rho_fn F f0 fadd fmul fsub (length q) qf (gf i j k) (ef i))).
Proof. exact dn_rho_formula. Qed.
Print Assumptions c16_rho_formula.

(** the same for get_rho: sum_l q[l]*grid[i,j,k,l] *)
Theorem c16_rho0_formula :
  forall (F : Type) (f0 : F) (fadd fmul : F -> F -> F) (n m p : nat) (grid : list (list (list (list F)))) (q : list F) (qf : nat -> F) (gf : nat -> nat -> nat -> nat -> F), (forall l : nat, l < length q -> nth_error q l = Some (qf l)) -> (forall i j k l : nat, i < n -> j < m -> k < p -> l < length q -> dn_at4 F grid i j k l = Some (gf i j k l)) -> exists rho : list (list (list F)), dn_get_rho F f0 fadd fmul n m p grid q = Some rho /\ (forall i j k : nat, i < n -> j < m -> k < p -> dn_at3 F rho i j k = Some (dn_rho0_fn F f0 fadd fmul (length q) qf (gf i j k))).
Proof. exact dn_rho0_formula. Qed.
Print Assumptions c16_rho0_formula.

(** an entry that is read but missing is an IndexError (None), never a default value *)
Theorem c16_rho_index_error :
  forall (F : Type) (f0 : F) (fadd fmul fsub : F -> F -> F) (n m p : nat) (feq : list (list F)) (grid : list (list (list (list F)))) (q : list F) (i j k l : nat), i < n -> j < m -> k < p -> l < length q -> dn_at4 F grid i j k l = None \/ dn_at2 F feq i l = None -> dn_get_perturbed_rho F f0 fadd fmul fsub n m p feq grid q = None.
Proof. exact dn_rho_index_error. Qed.
Print Assumptions c16_rho_index_error.

(** rho_linear: the cell value is linear in (distribution, equilibrium) *)
Theorem c16_rho_linear :
  forall (F : Type) (f0 f1 : F) (fadd fmul fsub fdiv : F -> F -> F) (fopp finv : F -> F), field_theory f0 f1 fadd fmul fsub fopp fdiv finv eq -> forall (nc : nat) (qf : nat -> F) (a b : F) (g1 g2 e1 e2 : nat -> F), dn_rho_fn F f0 fadd fmul fsub nc qf (fun l : nat => fadd (fmul a (g1 l)) (fmul b (g2 l))) (fun l : nat => fadd (fmul a (e1 l)) (fmul b (e2 l))) = fadd (fmul a (dn_rho_fn F f0 fadd fmul fsub nc qf g1 e1)) (fmul b (dn_rho_fn F f0 fadd fmul fsub nc qf g2 e2)).
Proof. exact dn_rho_linear. Qed.
Print Assumptions c16_rho_linear.

(** perturbed density = density of f minus density of f_eq *)
Theorem c16_rho_perturbed_is_difference :
  forall (F : Type) (f0 f1 : F) (fadd fmul fsub fdiv : F -> F -> F) (fopp finv : F -> F), field_theory f0 f1 fadd fmul fsub fopp fdiv finv eq -> forall (nc : nat) (qf g e : nat -> F), dn_rho_fn F f0 fadd fmul fsub nc qf g e = fsub (dn_rho0_fn F f0 fadd fmul nc qf g) (dn_rho0_fn F f0 fadd fmul nc qf e).
Proof. exact dn_rho_perturbed_is_difference. Qed.
Print Assumptions c16_rho_perturbed_is_difference.

(** rho_equilibrium_zero: distribution equal to the equilibrium rows => perturbed density 0 *)
Theorem c16_rho_equilibrium_zero :
  forall (F : Type) (f0 f1 : F) (fadd fmul fsub fdiv : F -> F -> F) (fopp finv : F -> F), field_theory f0 f1 fadd fmul fsub fopp fdiv finv eq -> forall (nc : nat) (qf g e : nat -> F), (forall l : nat, l < nc -> g l = e l) -> dn_rho_fn F f0 fadd fmul fsub nc qf g e = f0.
Proof. exact dn_rho_equilibrium_zero. Qed.
Print Assumptions c16_rho_equilibrium_zero.

(** rho_global_r: on the rank at coordinate a of pr along r, self._fEq[rIndices] pairs local radius i with row bstart+i of the whole-grid table (the GlobalTab lookup of GridSteps.op_density), for every extent, process count, rank *)
Theorem c16_rho_global_r :
  forall (F : Type) (fEq : list (list F)) (nr pr a i : nat), 0 < pr -> a < pr -> length fEq = nr -> i < blen nr pr a -> exists rows : list (list F), dn_feq_rows F fEq (bstart nr pr a) (blen nr pr a) = Some rows /\ nth i rows [] = nth (bstart nr pr a + i) fEq [] /\ nth i rows [] = resolve (list F) [] GlobalTab fEq (bstart nr pr a) (blen nr pr a) i /\ In GlobalTab (axis0_lookups op_density).
Proof. exact dn_rho_global_r. Qed.
Print Assumptions c16_rho_global_r.

(** hence the density assembled over the blocks of any process grid (r and z distributed) is the serial density *)
Theorem c16_rho_decomposition_free :
  forall (F : Type) (f0 : F) (fadd fmul fsub : F -> F -> F) (nc : nat) (qf : nat -> F) (nr nz pr pz : nat) (fld : nat -> nat -> nat -> F) (feq : nat -> nat -> F) (rowloc : nat -> nat -> nat -> nat -> nat -> F), 0 < pr -> 0 < pz -> (forall a b i j : nat, a < pr -> b < pz -> i < blen nr pr a -> j < blen nz pz b -> rowloc a b i j = feq (bstart nr pr a + i)) -> forall R Z : nat, R < nr -> Z < nz -> dn_assembled_rho F f0 fadd fmul fsub nc qf nr nz pr pz fld rowloc R Z = dn_rho_fn F f0 fadd fmul fsub nc qf (fld R Z) (feq R).
Proof. exact dn_rho_decomposition_free. Qed.
Print Assumptions c16_rho_decomposition_free.

(** rho_exact: if C^T q = I (transposed collocation solve) and the nodal values along v are those of the spline with coefficients c (C c = g) then the density is sum_j I_j c_j - the integral of the interpolant when I_j are the basis integrals (hypothesis, C09) *)
Theorem c16_rho_exact :
  forall (F : Type) (f0 f1 : F) (fadd fmul fsub fdiv : F -> F -> F) (fopp finv : F -> F), field_theory f0 f1 fadd fmul fsub fopp fdiv finv eq -> forall (nc : nat) (C : nat -> nat -> F) (qf g c I : nat -> F), (forall j : nat, j < nc -> sumn F f0 fadd nc (fun i : nat => fmul (C i j) (qf i)) = I j) -> (forall i : nat, i < nc -> sumn F f0 fadd nc (fun j : nat => fmul (C i j) (c j)) = g i) -> dn_rho0_fn F f0 fadd fmul nc qf g = sumn F f0 fadd nc (fun j : nat => fmul (I j) (c j)).
Proof. exact dn_rho_exact. Qed.
Print Assumptions c16_rho_exact.

(** and the perturbed density is the integral of the interpolant of f - f_eq *)
Theorem c16_rho_perturbed_exact :
  forall (F : Type) (f0 f1 : F) (fadd fmul fsub fdiv : F -> F -> F) (fopp finv : F -> F), field_theory f0 f1 fadd fmul fsub fopp fdiv finv eq -> forall (nc : nat) (C : nat -> nat -> F) (qf g e c ce I : nat -> F), (forall j : nat, j < nc -> sumn F f0 fadd nc (fun i : nat => fmul (C i j) (qf i)) = I j) -> (forall i : nat, i < nc -> sumn F f0 fadd nc (fun j : nat => fmul (C i j) (c j)) = g i) -> (forall i : nat, i < nc -> sumn F f0 fadd nc (fun j : nat => fmul (C i j) (ce j)) = e i) -> dn_rho_fn F f0 fadd fmul fsub nc qf g e = sumn F f0 fadd nc (fun j : nat => fmul (I j) (fsub (c j) (ce j))).
Proof. exact dn_rho_perturbed_exact. Qed.
Print Assumptions c16_rho_perturbed_exact.

(** the theorems apply to the instance that is run *)
Theorem c16_qc_field : field_theory (Q2Qc 0) (Q2Qc 1) Qcplus Qcmult Qcminus Qcopp Qcdiv Qcinv (@eq Qc).
Proof. exact Qcft. Qed.
Print Assumptions c16_qc_field.

(** non-vacuity (vm_compute on Qc) *)
Definition c16_q (n : Z) (d : positive) := dnq_of n d.
Example c16_ex_values :
  dnq_show3 (dnq_get_perturbed_rho 1 1 2 [[c16_q 1 1; c16_q 2 1]] [[[[c16_q 3 1; c16_q 5 1]; [c16_q 1 1; c16_q 2 1]]]] [c16_q 1 2; c16_q 1 3])
    = Some [[[(2%Z, 1%positive); (0%Z, 1%positive)]]]
  /\ dnq_show3 (dnq_get_rho 1 1 1 [[[[c16_q 3 1; c16_q 5 1]]]] [c16_q 1 2; c16_q 1 3]) = Some [[[(19%Z, 6%positive)]]]
  (* a missing equilibrium column / a missing table row is an error *)
  /\ dnq_get_perturbed_rho 1 1 1 [[c16_q 1 1]] [[[[c16_q 3 1; c16_q 5 1]]]] [c16_q 1 2; c16_q 1 3] = None
  /\ dnq_finder_perturbed_rho [[c16_q 1 1]] 1 1 1 1 [[[[c16_q 3 1]]]] [c16_q 1 1] = None
  (* rows are taken at the GLOBAL radius: block starting at 1 of a 3-row table *)
  /\ dnq_show3 (dnq_finder_perturbed_rho [[c16_q 10 1]; [c16_q 20 1]; [c16_q 30 1]] 1 2 1 1
                  [[[[c16_q 21 1]]]; [[[c16_q 33 1]]]] [c16_q 1 1]) = Some [[[(1%Z, 1%positive)]]; [[(3%Z, 1%positive)]]].
Proof. vm_compute. repeat split. Qed.

(** the hypotheses of c16_rho_exact are satisfiable with a non-trivial collocation matrix:
    C = [[1,0],[1,1]], I = (5, 7), q = (-2, 7) solves C^T q = I; c = (3, 4), g = C c = (3, 7) *)
Example c16_ex_exact :
  let C := fun i j : nat => match i, j with 0%nat, 0%nat => c16_q 1 1 | 1%nat, 0%nat => c16_q 1 1 | 1%nat, 1%nat => c16_q 1 1 | _, _ => c16_q 0 1 end in
  let qf := fun i : nat => match i with 0%nat => c16_q (-2) 1 | _ => c16_q 7 1 end in
  let I := fun j : nat => match j with 0%nat => c16_q 5 1 | _ => c16_q 7 1 end in
  let c := fun j : nat => match j with 0%nat => c16_q 3 1 | _ => c16_q 4 1 end in
  let g := fun i : nat => match i with 0%nat => c16_q 3 1 | _ => c16_q 7 1 end in
  (forall j, (j < 2)%nat -> dnq_show (sumn Qc dnq_zero Qcplus 2 (fun i => Qcmult (C i j) (qf i))) = dnq_show (I j))
  /\ (forall i, (i < 2)%nat -> dnq_show (sumn Qc dnq_zero Qcplus 2 (fun j => Qcmult (C i j) (c j))) = dnq_show (g i))
  /\ dnq_show (dn_rho0_fn Qc dnq_zero Qcplus Qcmult 2 qf g) = (43%Z, 1%positive)
  /\ dnq_show (sumn Qc dnq_zero Qcplus 2 (fun j => Qcmult (I j) (c j))) = (43%Z, 1%positive).
Proof.
  cbv zeta. split; [|split; [|split]].
  - intros j Hj. destruct j as [|[|j]]; [vm_compute; reflexivity|vm_compute; reflexivity|lia].
  - intros i Hi. destruct i as [|[|i]]; [vm_compute; reflexivity|vm_compute; reflexivity|lia].
  - vm_compute. reflexivity.
  - vm_compute. reflexivity.
Qed.

