(** C16 - density is the exact velocity integral of the interpolated distribution.
    Only statements, [exact]s and [Print Assumptions]; proofs in Density.v (uses Sums.v, GridSteps.v, Blocks.v).
    The executable model [dn_get_perturbed_rho] / [dn_get_rho] / [dn_finder_perturbed_rho] is the quadruple loop
    of pygyro/poisson/poisson_tools.py and the row lookup of DensityFinder.getPerturbedRho; it is run at Qc
    (DensityQc.v) against the real source executed on Fractions.

    Composition with C08 / C09 (DensityExact.v): with the weights computed by the C09 model of
    BSplines._build_integrals + get_quadrature_coefficients ([ip_quadrature]) the density IS sum_j I_j c_j for the
    interpolant c along v ([c16_rho_is_integral_of_interpolant], no hypothesis on the weights), it is the exact integral
    sum_m a_m (b^(m+1) - a^(m+1))/(m+1) for nodal values of a polynomial of degree <= p on a clamped general space
    ([c16_rho_exact_polynomial]) and the constant times the domain length for data constant in v on both the general
    and the uniform-cubic path.

    NOT proved here:
    - the classical identity that the stored value (t_{j+p+1} - t_j)/(p+1) is the integral of B_j (cited in C09; for
      polynomials the result is nevertheless the exact integral, proved here by telescoping the Marsden coefficients);
    - that LAPACK / SuperLU realise the exact solves of the model (float level, checked numerically);
    - floating-point rounding of the accumulation. *)
From Coq Require Import List Arith Lia ZArith Bool QArith Qcanon.
Import ListNotations.
From PGV Require Import Blocks Sums GridSteps BasisCoxDeBoor CoxDeBoorGen FindSpan CubicUniform SplineModel SplineTheory SplineQc InterpModel InterpTheory QuadTheory MarsdenTheory InterpQc Density DensityQc DensityExact DensityExactQc.
Close Scope Q_scope.
Close Scope Qc_scope.
Open Scope nat_scope.

(** rho_formula: when every entry read by the loops exists, get_perturbed_rho does not raise and cell (i,j,k) holds sum_l q[l]*(grid[i,j,k,l] - feq[i,l]) (sum in loop order), for every shape *)
Theorem c16_rho_formula :
  forall (F : Type) (f0 : F) (fadd fmul fsub : F -> F -> F) (n m p : nat) (feq : list (list F)) (grid : list (list (list (list F)))) (q : list F) (qf : nat -> F) (gf : nat -> nat -> nat -> nat -> F) (ef : nat -> nat -> F), (forall l : nat, l < length q -> nth_error q l = Some (qf l)) -> (forall i j k l : nat, i < n -> j < m -> k < p -> l < length q -> dn_at4 F grid i j k l = Some (gf i j k l)) -> (forall i l : nat, i < n -> l < length q -> dn_at2 F feq i l = Some (ef i l)) -> exists rho : list (list (list F)), dn_get_perturbed_rho F f0 fadd fmul fsub n m p feq grid q = Some rho /\ (forall i j k : nat, i < n -> j < m -> k < p -> dn_at3 F rho i j k = Some (dn_rho_fn F f0 fadd fmul fsub (length q) qf (gf i j k) (ef i))).
Proof. exact dn_rho_formula. Qed.
Print Assumptions c16_rho_formula.

(** the same for get_rho: sum_l q[l]*grid[i,j,k,l] *)
Theorem c16_rho0_formula :
  forall (F : Type) (f0 : F) (fadd fmul : F -> F -> F) (n m p : nat) (grid : list (list (list (list F)))) (q : list F) (qf : nat -> F) (gf : nat -> nat -> nat -> nat -> F), (forall l : nat, l < length q -> nth_error q l = Some (qf l)) -> (forall i j k l : nat, i < n -> j < m -> k < p -> l < length q -> dn_at4 F grid i j k l = Some (gf i j k l)) -> exists rho : list (list (list F)), dn_get_rho F f0 fadd fmul n m p grid q = Some rho /\ (forall i j k : nat, i < n -> j < m -> k < p -> dn_at3 F rho i j k = Some (dn_rho0_fn F f0 fadd fmul (length q) qf (gf i j k))).
Proof. exact dn_rho0_formula. Qed.
Print Assumptions c16_rho0_formula.

(** an entry that is read but missing is an IndexError (None), never a default value *)
Theorem c16_rho_index_error :
  forall (F : Type) (f0 : F) (fadd fmul fsub : F -> F -> F) (n m p : nat) (feq : list (list F)) (grid : list (list (list (list F)))) (q : list F) (i j k l : nat), i < n -> j < m -> k < p -> l < length q -> dn_at4 F grid i j k l = None \/ dn_at2 F feq i l = None -> dn_get_perturbed_rho F f0 fadd fmul fsub n m p feq grid q = None.
Proof. exact dn_rho_index_error. Qed.
Print Assumptions c16_rho_index_error.

(** rho_linear: the cell value is linear in (distribution, equilibrium) *)
Theorem c16_rho_linear :
  forall (F : Type) (f0 f1 : F) (fadd fmul fsub fdiv : F -> F -> F) (fopp finv : F -> F), field_theory f0 f1 fadd fmul fsub fopp fdiv finv eq -> forall (nc : nat) (qf : nat -> F) (a b : F) (g1 g2 e1 e2 : nat -> F), dn_rho_fn F f0 fadd fmul fsub nc qf (fun l : nat => fadd (fmul a (g1 l)) (fmul b (g2 l))) (fun l : nat => fadd (fmul a (e1 l)) (fmul b (e2 l))) = fadd (fmul a (dn_rho_fn F f0 fadd fmul fsub nc qf g1 e1)) (fmul b (dn_rho_fn F f0 fadd fmul fsub nc qf g2 e2)).
Proof. exact dn_rho_linear. Qed.
Print Assumptions c16_rho_linear.

(** perturbed density = density of f minus density of f_eq *)
Theorem c16_rho_perturbed_is_difference :
  forall (F : Type) (f0 f1 : F) (fadd fmul fsub fdiv : F -> F -> F) (fopp finv : F -> F), field_theory f0 f1 fadd fmul fsub fopp fdiv finv eq -> forall (nc : nat) (qf g e : nat -> F), dn_rho_fn F f0 fadd fmul fsub nc qf g e = fsub (dn_rho0_fn F f0 fadd fmul nc qf g) (dn_rho0_fn F f0 fadd fmul nc qf e).
Proof. exact dn_rho_perturbed_is_difference. Qed.
Print Assumptions c16_rho_perturbed_is_difference.

(** rho_equilibrium_zero: distribution equal to the equilibrium rows => perturbed density 0 *)
Theorem c16_rho_equilibrium_zero :
  forall (F : Type) (f0 f1 : F) (fadd fmul fsub fdiv : F -> F -> F) (fopp finv : F -> F), field_theory f0 f1 fadd fmul fsub fopp fdiv finv eq -> forall (nc : nat) (qf g e : nat -> F), (forall l : nat, l < nc -> g l = e l) -> dn_rho_fn F f0 fadd fmul fsub nc qf g e = f0.
Proof. exact dn_rho_equilibrium_zero. Qed.
Print Assumptions c16_rho_equilibrium_zero.

(** rho_global_r: on the rank at coordinate a of pr along r, self._fEq[rIndices] pairs local radius i with row bstart+i of the whole-grid table (the GlobalTab lookup of GridSteps.op_density), for every extent, process count, rank *)
Theorem c16_rho_global_r :
  forall (F : Type) (fEq : list (list F)) (nr pr a i : nat), 0 < pr -> a < pr -> length fEq = nr -> i < blen nr pr a -> exists rows : list (list F), dn_feq_rows F fEq (bstart nr pr a) (blen nr pr a) = Some rows /\ nth i rows [] = nth (bstart nr pr a + i) fEq [] /\ nth i rows [] = resolve (list F) [] GlobalTab fEq (bstart nr pr a) (blen nr pr a) i /\ In GlobalTab (axis0_lookups op_density).
Proof. exact dn_rho_global_r. Qed.
Print Assumptions c16_rho_global_r.

(** hence the density assembled over the blocks of any process grid (r and z distributed) is the serial density *)
Theorem c16_rho_decomposition_free :
  forall (F : Type) (f0 : F) (fadd fmul fsub : F -> F -> F) (nc : nat) (qf : nat -> F) (nr nz pr pz : nat) (fld : nat -> nat -> nat -> F) (feq : nat -> nat -> F) (rowloc : nat -> nat -> nat -> nat -> nat -> F), 0 < pr -> 0 < pz -> (forall a b i j : nat, a < pr -> b < pz -> i < blen nr pr a -> j < blen nz pz b -> rowloc a b i j = feq (bstart nr pr a + i)) -> forall R Z : nat, R < nr -> Z < nz -> dn_assembled_rho F f0 fadd fmul fsub nc qf nr nz pr pz fld rowloc R Z = dn_rho_fn F f0 fadd fmul fsub nc qf (fld R Z) (feq R).
Proof. exact dn_rho_decomposition_free. Qed.
Print Assumptions c16_rho_decomposition_free.

(** rho_exact: if C^T q = I (transposed collocation solve) and the nodal values along v are those of the spline with coefficients c (C c = g) then the density is sum_j I_j c_j - the integral of the interpolant when I_j are the basis integrals (hypothesis, C09) *)
Theorem c16_rho_exact :
  forall (F : Type) (f0 f1 : F) (fadd fmul fsub fdiv : F -> F -> F) (fopp finv : F -> F), field_theory f0 f1 fadd fmul fsub fopp fdiv finv eq -> forall (nc : nat) (C : nat -> nat -> F) (qf g c I : nat -> F), (forall j : nat, j < nc -> sumn F f0 fadd nc (fun i : nat => fmul (C i j) (qf i)) = I j) -> (forall i : nat, i < nc -> sumn F f0 fadd nc (fun j : nat => fmul (C i j) (c j)) = g i) -> dn_rho0_fn F f0 fadd fmul nc qf g = sumn F f0 fadd nc (fun j : nat => fmul (I j) (c j)).
Proof. exact dn_rho_exact. Qed.
Print Assumptions c16_rho_exact.

(** and the perturbed density is the integral of the interpolant of f - f_eq *)
Theorem c16_rho_perturbed_exact :
  forall (F : Type) (f0 f1 : F) (fadd fmul fsub fdiv : F -> F -> F) (fopp finv : F -> F), field_theory f0 f1 fadd fmul fsub fopp fdiv finv eq -> forall (nc : nat) (C : nat -> nat -> F) (qf g e c ce I : nat -> F), (forall j : nat, j < nc -> sumn F f0 fadd nc (fun i : nat => fmul (C i j) (qf i)) = I j) -> (forall i : nat, i < nc -> sumn F f0 fadd nc (fun j : nat => fmul (C i j) (c j)) = g i) -> (forall i : nat, i < nc -> sumn F f0 fadd nc (fun j : nat => fmul (C i j) (ce j)) = e i) -> dn_rho_fn F f0 fadd fmul fsub nc qf g e = sumn F f0 fadd nc (fun j : nat => fmul (I j) (fsub (c j) (ce j))).
Proof. exact dn_rho_perturbed_exact. Qed.
Print Assumptions c16_rho_perturbed_exact.

(** rho_is_integral_of_interpolant: with the v-quadrature weights computed by the C09 model (ip_quadrature on the v space: any of clamped / periodic, general / uniform cubic) the density sum_l w_l u_l equals sum_j I_j c_j, c the v-interpolant of u = f(r,theta,z,.), I the stored basis integrals (folded for periodic spaces); no hypothesis on the weights - success of the two calls includes the checked inverse *)
Theorem c16_rho_is_integral_of_interpolant :
  forall (F : Type) (K : sp_ops F), sp_laws K -> forall (knots : list F) (degree : nat) (periodic cubic : bool) (xs w u c : list F), ip_quadrature F K knots degree periodic cubic xs = SpOk w -> ip_interp1d F K knots degree periodic cubic xs u = SpOk c -> let nb := ip_nbasis F K knots degree periodic cubic in length w = nb /\ (exists I : list F, ip_integrals F K knots degree periodic cubic = SpOk I /\ dn_rho0_fn F (sp0 K) (spadd K) (spmul K) nb (fun l : nat => nth l w (sp0 K)) (fun l : nat => nth l u (sp0 K)) = sumn F (sp0 K) (spadd K) nb (fun j : nat => spmul K (nth j (ip_quad_rhs F K nb degree periodic I) (sp0 K)) (nth j c (sp0 K)))).
Proof. exact dn_rho_is_integral_of_interpolant. Qed.
Print Assumptions c16_rho_is_integral_of_interpolant.

(** the perturbed density is sum_j I_j (c_j - ce_j), ce the interpolant of the equilibrium row *)
Theorem c16_prho_is_integral_of_interpolant :
  forall (F : Type) (K : sp_ops F), sp_laws K -> forall (knots : list F) (degree : nat) (periodic cubic : bool) (xs w u e c ce : list F), ip_quadrature F K knots degree periodic cubic xs = SpOk w -> ip_interp1d F K knots degree periodic cubic xs u = SpOk c -> ip_interp1d F K knots degree periodic cubic xs e = SpOk ce -> let nb := ip_nbasis F K knots degree periodic cubic in exists I : list F, ip_integrals F K knots degree periodic cubic = SpOk I /\ dn_rho_fn F (sp0 K) (spadd K) (spmul K) (spsub K) nb (fun l : nat => nth l w (sp0 K)) (fun l : nat => nth l u (sp0 K)) (fun l : nat => nth l e (sp0 K)) = sumn F (sp0 K) (spadd K) nb (fun j : nat => spmul K (nth j (ip_quad_rhs F K nb degree periodic I) (sp0 K)) (spsub K (nth j c (sp0 K)) (nth j ce (sp0 K)))).
Proof. exact dn_prho_is_integral_of_interpolant. Qed.
Print Assumptions c16_prho_is_integral_of_interpolant.

(** the same for the list model of get_rho: every cell of rho holds sum_j I_j c_j(i,j,k) *)
Theorem c16_model_rho_is_integral :
  forall (F : Type) (K : sp_ops F), sp_laws K -> forall (knots : list F) (degree : nat) (periodic cubic : bool) (xs w : list F) (n m p : nat) (grid : list (list (list (list F)))) (gf : nat -> nat -> nat -> nat -> F) (cf : nat -> nat -> nat -> list F), ip_quadrature F K knots degree periodic cubic xs = SpOk w -> let nb := ip_nbasis F K knots degree periodic cubic in (forall i j k l : nat, i < n -> j < m -> k < p -> l < nb -> dn_at4 F grid i j k l = Some (gf i j k l)) -> (forall i j k : nat, i < n -> j < m -> k < p -> ip_interp1d F K knots degree periodic cubic xs (map (gf i j k) (seq 0 nb)) = SpOk (cf i j k)) -> exists (rho : list (list (list F))) (I : list F), dn_get_rho F (sp0 K) (spadd K) (spmul K) n m p grid w = Some rho /\ ip_integrals F K knots degree periodic cubic = SpOk I /\ (forall i j k : nat, i < n -> j < m -> k < p -> dn_at3 F rho i j k = Some (sumn F (sp0 K) (spadd K) nb (fun j' : nat => spmul K (nth j' (ip_quad_rhs F K nb degree periodic I) (sp0 K)) (nth j' (cf i j k) (sp0 K))))).
Proof. exact dn_model_rho_is_integral. Qed.
Print Assumptions c16_model_rho_is_integral.

(** constant in v, general clamped path: the density is the constant times the length of the v domain (c09_weights_sum_clamped) *)
Theorem c16_rho_const_general :
  forall (F : Type) (K : sp_ops F), sp_laws K -> forall (knots : list F) (d : nat) (xs w : list F) (kappa : F), ip_clamped F K knots d -> ip_quadrature F K knots d false false xs = SpOk w -> (forall i : nat, i < ip_nbasis F K knots d false false -> sp_le K (sp_kn F K knots d) (nth i xs (sp0 K)) /\ sp_le K (nth i xs (sp0 K)) (sp_kn F K knots (length knots - 1 - d))) -> dn_rho0_fn F (sp0 K) (spadd K) (spmul K) (ip_nbasis F K knots d false false) (fun l : nat => nth l w (sp0 K)) (fun _ : nat => kappa) = spmul K kappa (spsub K (sp_kn F K knots (length knots - 1 - d)) (sp_kn F K knots d)).
Proof. exact dn_rho_const_general. Qed.
Print Assumptions c16_rho_const_general.

(** constant in v, uniform-cubic clamped path, every cell count: the constant times ncells*dx (c09_weights_sum_cubic_clamped) *)
Theorem c16_rho_const_cubic :
  forall (F : Type) (K : sp_ops F), sp_laws K -> forall (xmin xmax dx fn : F) (n : nat) (xs w : list F) (kappa : F), sp_lt K (sp0 K) dx -> sptrunc K fn = Z.of_nat n -> ip_quadrature F K [xmin; xmax; dx; fn] 3 false true xs = SpOk w -> dn_rho0_fn F (sp0 K) (spadd K) (spmul K) (n + 3) (fun l : nat => nth l w (sp0 K)) (fun _ : nat => kappa) = spmul K kappa (spmul K (sp_ofnat F K n) dx).
Proof. exact dn_rho_const_cubic. Qed.
Print Assumptions c16_rho_const_cubic.

(** the coefficients of the interpolant of the nodal values of g are gam whenever gam represents g on every span (uniqueness step of c08_interp1d_reproduces, stated for the coefficients) *)
Theorem c16_interp_coeffs :
  forall (F : Type) (K : sp_ops F), sp_laws K -> forall (knots : list F) (p : nat) (gam : nat -> F) (g : F -> F), sp_sorted F K knots -> 2 * p + 1 < length knots -> sp_lt K (sp_kn F K knots p) (sp_kn F K knots (S p)) -> sp_lt K (sp_kn F K knots (length knots - p - 2)) (sp_kn F K knots (length knots - 1 - p)) -> (forall (x : F) (s : nat), sp_span_ok F K knots s -> p <= s -> sumn F (sp0 K) (spadd K) (S p) (fun j : nat => spmul K (gam (s - p + j)) (nth j (sp_A22 F K knots p x s) (sp0 K))) = g x) -> forall (xs : list F) (A Ainv : list (list F)) (u c : list F), let nb := ip_nbasis F K knots p false false in ip_colloc F K nb knots p false false xs = SpOk A -> ip_inverse_ok F K nb A Ainv = true -> (forall i : nat, i < nb -> sp_le K (sp_kn F K knots p) (nth i xs (sp0 K)) /\ sp_le K (nth i xs (sp0 K)) (sp_kn F K knots (length knots - 1 - p))) -> ip_interp1d F K knots p false false xs u = SpOk c -> (forall i : nat, i < nb -> nth i u (sp0 K) = g (nth i xs (sp0 K))) -> forall j : nat, j < nb -> nth j c (sp0 K) = gam j.
Proof. exact dn_interp_coeffs. Qed.
Print Assumptions c16_interp_coeffs.

(** sum_j (t_{j+p+1}-t_j)/(p+1) * [Marsden coefficient of v^m] = (b^(m+1) - a^(m+1))/(m+1) on a clamped knot vector, m <= p (telescoping e_{m+1} over p+1 consecutive knots; e_k of a constant window; (m+1) C(p+1,m+1) = (p+1) C(p,m)) *)
Theorem c16_mono_integral :
  forall (F : Type) (K : sp_ops F), sp_laws K -> forall (knots : list F) (p m : nat), ip_clamped F K knots p -> m <= p -> sumn F (sp0 K) (spadd K) (length knots - p - 1) (fun j : nat => spmul K (spmul K (spsub K (sp_kn F K knots (j + p + 1)) (sp_kn F K knots j)) (spdiv K (sp1 K) (sp_ofnat F K (S p)))) (ip_mono_coeff F K knots p m j)) = spdiv K (spsub K (ip_pow F K (sp_kn F K knots (length knots - 1 - p)) (S m)) (ip_pow F K (sp_kn F K knots p) (S m))) (sp_ofnat F K (S m)).
Proof. exact dn_mono_integral. Qed.
Print Assumptions c16_mono_integral.

(** rho_exact_polynomial: clamped general v space of degree p, interpolation points in the domain, checked inverse: for the nodal values of a polynomial of degree <= p the interpolant has the coefficients ip_poly_coeff, the density is sum_j I_j ip_poly_coeff_j, and it equals the exact integral sum_m a_m (b^(m+1)-a^(m+1))/(m+1) *)
Theorem c16_rho_exact_polynomial :
  forall (F : Type) (K : sp_ops F), sp_laws K -> forall (knots : list F) (p : nat) (a xs : list F) (A Ainv : list (list F)) (w u c : list F), let nb := ip_nbasis F K knots p false false in ip_clamped F K knots p -> length a <= S p -> ip_colloc F K nb knots p false false xs = SpOk A -> ip_inverse_ok F K nb A Ainv = true -> (forall i : nat, i < nb -> sp_le K (sp_kn F K knots p) (nth i xs (sp0 K)) /\ sp_le K (nth i xs (sp0 K)) (sp_kn F K knots (length knots - 1 - p))) -> ip_quadrature F K knots p false false xs = SpOk w -> ip_interp1d F K knots p false false xs u = SpOk c -> (forall i : nat, i < nb -> nth i u (sp0 K) = ip_polyval F K a (nth i xs (sp0 K))) -> (forall j : nat, j < nb -> nth j c (sp0 K) = ip_poly_coeff F K knots p a j) /\ dn_rho0_fn F (sp0 K) (spadd K) (spmul K) nb (fun l : nat => nth l w (sp0 K)) (fun l : nat => nth l u (sp0 K)) = sumn F (sp0 K) (spadd K) nb (fun j : nat => spmul K (spmul K (spsub K (sp_kn F K knots (j + p + 1)) (sp_kn F K knots j)) (spdiv K (sp1 K) (sp_ofnat F K (S p)))) (ip_poly_coeff F K knots p a j)) /\ dn_rho0_fn F (sp0 K) (spadd K) (spmul K) nb (fun l : nat => nth l w (sp0 K)) (fun l : nat => nth l u (sp0 K)) = dn_poly_integral F K a (sp_kn F K knots p) (sp_kn F K knots (length knots - 1 - p)).
Proof. exact dn_rho_exact_polynomial. Qed.
Print Assumptions c16_rho_exact_polynomial.

(** finder_stateless: the model getPerturbedRho depends on the finder only through the equilibrium table and the weights - not on the process grid it was built for nor on what it was applied to before *)
Theorem c16_finder_stateless :
  forall (F : Type) (f0 : F) (fadd fmul fsub : F -> F -> F) (X Y : Type) (fd1 : dn_finder F X) (fd2 : dn_finder F Y) (s n m p : nat) (grid : list (list (list (list F)))), dnf_table F X fd1 = dnf_table F Y fd2 -> dnf_quad F X fd1 = dnf_quad F Y fd2 -> dn_finder_call F f0 fadd fmul fsub fd1 s n m p grid = dn_finder_call F f0 fadd fmul fsub fd2 s n m p grid.
Proof. exact dn_finder_stateless. Qed.
Print Assumptions c16_finder_stateless.

(** a sequence of calls on one finder is the list of calls on fresh finders with the same table and weights *)
Theorem c16_finder_calls_independent :
  forall (F : Type) (f0 : F) (fadd fmul fsub : F -> F -> F) (X Y : Type) (fd : dn_finder F X) (fresh : Y -> dn_finder F Y) (calls : list (nat * nat * nat * nat * list (list (list (list F))))), (forall y : Y, dnf_table F Y (fresh y) = dnf_table F X fd /\ dnf_quad F Y (fresh y) = dnf_quad F X fd) -> forall ys : list Y, length ys = length calls -> dn_finder_calls F f0 fadd fmul fsub fd calls = map (fun yc : Y * (nat * nat * nat * nat * list (list (list (list F)))) => let (y, g) := snd yc in let (y0, p) := y in let (y1, m) := y0 in let (s, n) := y1 in dn_finder_call F f0 fadd fmul fsub (fresh (fst yc)) s n m p g) (combine ys calls).
Proof. exact dn_finder_calls_independent. Qed.
Print Assumptions c16_finder_calls_independent.

(** the perturbed density of the equilibrium is exactly zero on every rank of every process grid: the row lookup by GLOBAL radius bstart + i is the only link to the process grid *)
Theorem c16_finder_equilibrium_zero :
  forall (F : Type) (f0 f1 : F) (fadd fmul fsub fdiv : F -> F -> F) (fopp finv : F -> F), field_theory f0 f1 fadd fmul fsub fopp fdiv finv eq -> forall (X : Type) (fd : dn_finder F X) (nr pr a m p : nat) (grid : list (list (list (list F)))) (ef : nat -> nat -> F), 0 < pr -> a < pr -> length (dnf_table F X fd) = nr -> (forall R l : nat, R < nr -> l < length (dnf_quad F X fd) -> dn_at2 F (dnf_table F X fd) R l = Some (ef R l)) -> (forall i j k l : nat, i < blen nr pr a -> j < m -> k < p -> l < length (dnf_quad F X fd) -> dn_at4 F grid i j k l = Some (ef (bstart nr pr a + i) l)) -> exists rho : list (list (list F)), dn_finder_call F f0 fadd fmul fsub fd (bstart nr pr a) (blen nr pr a) m p grid = Some rho /\ (forall i j k : nat, i < blen nr pr a -> j < m -> k < p -> dn_at3 F rho i j k = Some f0).
Proof. exact dn_finder_equilibrium_zero. Qed.
Print Assumptions c16_finder_equilibrium_zero.

(** the theorems apply to the instance that is run *)
Theorem c16_qc_field : field_theory (Q2Qc 0) (Q2Qc 1) Qcplus Qcmult Qcminus Qcopp Qcdiv Qcinv (@eq Qc).
Proof. exact Qcft. Qed.
Print Assumptions c16_qc_field.

(** non-vacuity (vm_compute on Qc) *)
Definition c16_q (n : Z) (d : positive) := dnq_of n d.
Example c16_ex_values :
  dnq_show3 (dnq_get_perturbed_rho 1 1 2 [[c16_q 1 1; c16_q 2 1]] [[[[c16_q 3 1; c16_q 5 1]; [c16_q 1 1; c16_q 2 1]]]] [c16_q 1 2; c16_q 1 3])
    = Some [[[(2%Z, 1%positive); (0%Z, 1%positive)]]]
  /\ dnq_show3 (dnq_get_rho 1 1 1 [[[[c16_q 3 1; c16_q 5 1]]]] [c16_q 1 2; c16_q 1 3]) = Some [[[(19%Z, 6%positive)]]]
  (* a missing equilibrium column / a missing table row is an error *)
  /\ dnq_get_perturbed_rho 1 1 1 [[c16_q 1 1]] [[[[c16_q 3 1; c16_q 5 1]]]] [c16_q 1 2; c16_q 1 3] = None
  /\ dnq_finder_perturbed_rho [[c16_q 1 1]] 1 1 1 1 [[[[c16_q 3 1]]]] [c16_q 1 1] = None
  (* rows are taken at the GLOBAL radius: block starting at 1 of a 3-row table *)
  /\ dnq_show3 (dnq_finder_perturbed_rho [[c16_q 10 1]; [c16_q 20 1]; [c16_q 30 1]] 1 2 1 1
                  [[[[c16_q 21 1]]]; [[[c16_q 33 1]]]] [c16_q 1 1]) = Some [[[(1%Z, 1%positive)]]; [[(3%Z, 1%positive)]]].
Proof. vm_compute. repeat split. Qed.

(** the hypotheses of c16_rho_exact are satisfiable with a non-trivial collocation matrix:
    C = [[1,0],[1,1]], I = (5, 7), q = (-2, 7) solves C^T q = I; c = (3, 4), g = C c = (3, 7) *)
Example c16_ex_exact :
  let C := fun i j : nat => match i, j with 0%nat, 0%nat => c16_q 1 1 | 1%nat, 0%nat => c16_q 1 1 | 1%nat, 1%nat => c16_q 1 1 | _, _ => c16_q 0 1 end in
  let qf := fun i : nat => match i with 0%nat => c16_q (-2) 1 | _ => c16_q 7 1 end in
  let I := fun j : nat => match j with 0%nat => c16_q 5 1 | _ => c16_q 7 1 end in
  let c := fun j : nat => match j with 0%nat => c16_q 3 1 | _ => c16_q 4 1 end in
  let g := fun i : nat => match i with 0%nat => c16_q 3 1 | _ => c16_q 7 1 end in
  (forall j, (j < 2)%nat -> dnq_show (sumn Qc dnq_zero Qcplus 2 (fun i => Qcmult (C i j) (qf i))) = dnq_show (I j))
  /\ (forall i, (i < 2)%nat -> dnq_show (sumn Qc dnq_zero Qcplus 2 (fun j => Qcmult (C i j) (c j))) = dnq_show (g i))
  /\ dnq_show (dn_rho0_fn Qc dnq_zero Qcplus Qcmult 2 qf g) = (43%Z, 1%positive)
  /\ dnq_show (sumn Qc dnq_zero Qcplus 2 (fun j => Qcmult (I j) (c j))) = (43%Z, 1%positive).
Proof.
  cbv zeta. split; [|split; [|split]].
  - intros j Hj. destruct j as [|[|j]]; [vm_compute; reflexivity|vm_compute; reflexivity|lia].
  - intros i Hi. destruct i as [|[|i]]; [vm_compute; reflexivity|vm_compute; reflexivity|lia].
  - vm_compute. reflexivity.
  - vm_compute. reflexivity.
Qed.

(** the composed theorems on Qc: cubic clamped space on [0,4], nodal values of 1 + v^3: density 68 = exact integral; constant 5: 20; Marsden coefficients *)
Theorem c16_ex_polynomial :
  match ip_quadrature Qc spq_ops ipq_ex_knots 3 false false ipq_ex_xs with
  | SpOk w => spq_show (dxq_rho0 w dxq_u) = (68%Z, 1%positive)
              /\ spq_show (dn_poly_integral Qc spq_ops dxq_poly (spq_of 0 1) (spq_of 4 1)) = (68%Z, 1%positive)
              /\ spq_show (dxq_rho0 w (ipq_z [5; 5; 5; 5; 5; 5]%Z)) = (20%Z, 1%positive)
  | _ => False
  end
  /\ match ip_interp1d Qc spq_ops ipq_ex_knots 3 false false ipq_ex_xs dxq_u with
     | SpOk c => map spq_show c = map (fun j => spq_show (ip_poly_coeff Qc spq_ops ipq_ex_knots 3 dxq_poly j)) (seq 0 6)
     | _ => False
     end.
Proof. exact dxq_ex_polynomial. Qed.
Print Assumptions c16_ex_polynomial.

