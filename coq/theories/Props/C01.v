(** C01 — layout transposes preserve the global field.
    Statements only; proofs in TransposeStep.v, TransposeLocal.v, TransposeExec.v, HandlerRoute.v.
    [HoldsL V dflt N nprocs d' G dims bufs]: every rank r holds at each local position j of layout
    [dims] the value G(global index of j on r).  The theorems quantify over the payload type, the
    number of dimensions d = S d', the global shape, the process grid, the dimension orders, the
    buffers and the global field. *)
From Coq Require Import List Arith Lia PeanoNat Bool.
Import ListNotations.
From PGV Require Import NdIndex Blocks Layouts Handler TransposeStep TransposeLocal TransposeExec HandlerRoute HandlerCompat.

(** one distributed swap, function level (pack -> Alltoall -> unpack with padded blocks) *)
Theorem c01_step_correct :
  forall (V : Type) (d' : nat) (N P pi ipi pi' ipi' : nat -> nat) (a0 : nat),
  a0 < S d' -> (forall a, 0 < P a) ->
  (forall a, a < S d' -> pi a < S d' /\ ipi (pi a) = a) ->
  (forall e, e < S d' -> ipi e < S d' /\ pi (ipi e) = e) ->
  (forall a, a < S d' -> pi' a < S d' /\ ipi' (pi' a) = a) ->
  (forall e, e < S d' -> ipi' e < S d' /\ pi' (ipi' e) = e) ->
  (forall a, a < S d' -> a <> a0 -> 1 < P a -> pi a = pi' a) ->
  pi a0 <> pi' a0 ->
  forall (G : list nat -> V) (src : coords -> nat -> V),
  Holds_src V d' N P pi ipi G src -> Holds_dst V d' N P pi ipi pi' ipi' a0 G src.
Proof. exact step_correct. Qed.
Print Assumptions c01_step_correct.

(** the executable single step (dispatch on the swap axes as _transpose does) on lists *)
Theorem c01_run_step_correct :
  forall (V : Type) (dflt : V) (Nl nprocs : list nat) (d' : nat) (G : list nat -> V) (cur nxt : list nat) bufs,
  step_ok_b Nl nprocs d' cur nxt = true ->
  HoldsL V dflt Nl nprocs d' G cur bufs ->
  HoldsL V dflt Nl nprocs d' G nxt (run_step V dflt Nl nprocs cur nxt d' bufs).
Proof. exact run_step_correct. Qed.
Print Assumptions c01_run_step_correct.

(** the handler's own acceptance test for a direct transition, LayoutHandler.compatible, implies the hypothesis
    of the step theorem on every well-formed configuration (global shape of the right rank, both orders
    permutations, process grid no longer than the rank, positive process counts) *)
Theorem c01_compatible_step_ok : forall (Nl nprocs l1 l2 : list nat) (d' : nat),
  cfg_wf_b Nl nprocs l1 l2 d' = true -> compatible nprocs l1 l2 = true ->
  step_ok_b Nl nprocs d' l1 l2 = true.
Proof. exact compatible_step_ok. Qed.
Print Assumptions c01_compatible_step_ok.

(** any route of acceptable steps (the handler's route map is checked with [route_ok_b] on every run) *)
Theorem c01_route_correct :
  forall (V : Type) (dflt : V) (Nl nprocs : list nat) (d' : nat) (G : list nat -> V) route cur bufs,
  route_ok_b Nl nprocs d' cur route = true ->
  HoldsL V dflt Nl nprocs d' G cur bufs ->
  HoldsL V dflt Nl nprocs d' G (last route cur) (run_route V dflt Nl nprocs d' cur route bufs).
Proof. exact run_route_correct. Qed.
Print Assumptions c01_route_correct.

(** buffer discipline of the multi-step redirects: the result lands in dest for either parity, and with
    a spare buffer the source block still holds the source layout *)
Theorem c01_redirect_lands_in_dest : forall (L : Type) (s : bst L) steps cur,
  steps <> [] -> s BSrc = Data cur -> redirect L s steps BDst = Data (last steps cur).
Proof. exact redirect_lands_in_dest. Qed.
Print Assumptions c01_redirect_lands_in_dest.
Theorem c01_redirect_intact : forall (L : Type) (s : bst L) steps cur,
  steps <> [] -> s BSrc = Data cur ->
  redirect_intact L s steps BDst = Data (last steps cur) /\ redirect_intact L s steps BSrc = Data cur.
Proof. exact redirect_intact_spec. Qed.
Print Assumptions c01_redirect_intact.

(** non-vacuity: shape [2;3], two processes along axis 0, layouts [0;1] -> [1;0]; the buffers of the two
    ranks hold the global linear index; the model moves them to the transposed distribution *)
Example c01_example :
  step_ok_b [2; 3] [2] 1 [0; 1] [1; 0] = true /\
  run_step nat 99 [2; 3] [2] [0; 1] [1; 0] 1 [[0; 1; 2]; [3; 4; 5]] = [[0; 3]; [1; 4; 2; 5]].
Proof. vm_compute. split; reflexivity. Qed.
