(** C01 — layout transposes preserve the global field.
    Statements only; proofs in TransposeStep.v, TransposeLocal.v, TransposeExec.v, HandlerRoute.v.
    [HoldsL V dflt N nprocs d' G dims bufs]: every rank r holds at each local position j of layout
    [dims] the value G(global index of j on r).  The theorems quantify over the payload type, the
    number of dimensions d = S d', the global shape, the process grid, the dimension orders, the
    buffers and the global field. *)
From Coq Require Import List Arith Lia PeanoNat Bool.
Import ListNotations.
From PGV Require Import NdIndex Blocks Layouts Handler TransposeStep TransposeLocal TransposeExec HandlerRoute HandlerCompat.

(** one distributed swap, function level (pack -> Alltoall -> unpack with padded blocks) *)
Theorem c01_step_correct :
  forall (V : Type) (d' : nat) (N P pi ipi pi' ipi' : nat -> nat) (a0 : nat),
  a0 < S d' -> (forall a, 0 < P a) ->
  (forall a, a < S d' -> pi a < S d' /\ ipi (pi a) = a) ->
  (forall e, e < S d' -> ipi e < S d' /\ pi (ipi e) = e) ->
  (forall a, a < S d' -> pi' a < S d' /\ ipi' (pi' a) = a) ->
  (forall e, e < S d' -> ipi' e < S d' /\ pi' (ipi' e) = e) ->
  (forall a, a < S d' -> a <> a0 -> 1 < P a -> pi a = pi' a) ->
  pi a0 <> pi' a0 ->
  forall (G : list nat -> V) (src : coords -> nat -> V),
  Holds_src V d' N P pi ipi G src -> Holds_dst V d' N P pi ipi pi' ipi' a0 G src.
Proof. exact step_correct. Qed.
Print Assumptions c01_step_correct.

(** the executable single step (dispatch on the swap axes as _transpose does) on lists *)
Theorem c01_run_step_correct :
  forall (V : Type) (dflt : V) (Nl nprocs : list nat) (d' : nat) (G : list nat -> V) (cur nxt : list nat) bufs,
  step_ok_b Nl nprocs d' cur nxt = true ->
  HoldsL V dflt Nl nprocs d' G cur bufs ->
  HoldsL V dflt Nl nprocs d' G nxt (run_step V dflt Nl nprocs cur nxt d' bufs).
Proof. exact run_step_correct. Qed.
Print Assumptions c01_run_step_correct.

(** the handler's own acceptance test for a direct transition, LayoutHandler.compatible, implies the hypothesis
    of the step theorem on every well-formed configuration (global shape of the right rank, both orders
    permutations, process grid no longer than the rank, positive process counts) *)
Theorem c01_compatible_step_ok : forall (Nl nprocs l1 l2 : list nat) (d' : nat),
  cfg_wf_b Nl nprocs l1 l2 d' = true -> compatible nprocs l1 l2 = true ->
  step_ok_b Nl nprocs d' l1 l2 = true.
Proof. exact compatible_step_ok. Qed.
Print Assumptions c01_compatible_step_ok.

(** any route of acceptable steps (the handler's route map is checked with [route_ok_b] on every run) *)
Theorem c01_route_correct :
  forall (V : Type) (dflt : V) (Nl nprocs : list nat) (d' : nat) (G : list nat -> V) route cur bufs,
  route_ok_b Nl nprocs d' cur route = true ->
  HoldsL V dflt Nl nprocs d' G cur bufs ->
  HoldsL V dflt Nl nprocs d' G (last route cur) (run_route V dflt Nl nprocs d' cur route bufs).
Proof. exact run_route_correct. Qed.
Print Assumptions c01_route_correct.

(** buffer discipline of the multi-step redirects: the result lands in dest for either parity, and with
    a spare buffer the source block still holds the source layout *)
Theorem c01_redirect_lands_in_dest : forall (L : Type) (s : bst L) steps cur,
  steps <> [] -> s BSrc = Data cur -> redirect L s steps BDst = Data (last steps cur).
Proof. exact redirect_lands_in_dest. Qed.
Print Assumptions c01_redirect_lands_in_dest.
Theorem c01_redirect_intact : forall (L : Type) (s : bst L) steps cur,
  steps <> [] -> s BSrc = Data cur ->
  redirect_intact L s steps BDst = Data (last steps cur) /\ redirect_intact L s steps BSrc = Data cur.
Proof. exact redirect_intact_spec. Qed.
Print Assumptions c01_redirect_intact.

(** non-vacuity: shape [2;3], two processes along axis 0, layouts [0;1] -> [1;0]; the buffers of the two
    ranks hold the global linear index; the model moves them to the transposed distribution *)
Example c01_example :
  step_ok_b [2; 3] [2] 1 [0; 1] [1; 0] = true /\
  run_step nat 99 [2; 3] [2] [0; 1] [1; 0] 1 [[0; 1; 2]; [3; 4; 5]] = [[0; 3]; [1; 4; 2; 5]].
Proof. vm_compute. split; reflexivity. Qed.

(** * Frame of the transposes: which cells of the arrays source / dest / buf are written
    (TransposeFrame.v, FrameMem.v, TransposeFrameExec.v).
    Whole-memory model: every rank holds complete arrays ([mems] = one list per rank, any length >= E).
    [mh_plain] = _transpose(source, dest) returns (source', dest'); [mh_intact] =
    _transpose_source_intact(source, dest, buf) returns (dest', buf') - the source array is not an output
    because no writing phase receives it; [fr V dflt E m m']: same lengths, identical on rank r at every address >= E r.
    [mh_ok E cur nxt] = step_ok_b and, on every rank, max(destination block size, p * padded block size) <= E r.
    None of the well-formedness predicates relates extents and process counts: ranks with empty blocks
    (n < p) are covered. *)
From PGV Require Import TransposeFrame FrameMem TransposeFrameExec HandlerBuf BufExtent.

(** function level, any address: beyond its block dest keeps the packed cells (own source data at the data
    positions of the p padded blocks, old contents elsewhere); the receive array (source without a spare
    buffer, buf with one) holds the senders' packed cells in its first p*bsize cells *)
Theorem c01_frame_dst_cells :
  forall (V : Type) (d' : nat) (N P pi ipi pi' ipi' : nat -> nat) (a0 : nat) (src dst : mem V) (q : coords) (A : nat),
  size (mk (S d') (sh' N P pi' q)) <= A ->
  snd (mplain V d' N P pi ipi pi' ipi' a0 src dst) q A = mpack V d' N P pi ipi pi' a0 src dst q A.
Proof. exact mplain_dst_tail. Qed.
Print Assumptions c01_frame_dst_cells.
Theorem c01_frame_scratch_cells :
  forall (V : Type) (d' : nat) (N P pi ipi pi' ipi' : nat -> nat) (a0 : nat) (src dst : mem V) (q : coords) (A : nat),
  A < P a0 * bsize d' N P pi ipi pi' a0 q ->
  fst (mplain V d' N P pi ipi pi' ipi' a0 src dst) q A
  = mpack V d' N P pi ipi pi' a0 src dst (upd q a0 (A / bsize d' N P pi ipi pi' a0 q))
      (q a0 * bsize d' N P pi ipi pi' a0 q + A mod bsize d' N P pi ipi pi' a0 q).
Proof. exact mplain_src_scratch. Qed.
Print Assumptions c01_frame_scratch_cells.
Theorem c01_frame_scratch_cells_intact :
  forall (V : Type) (d' : nat) (N P pi ipi pi' ipi' : nat -> nat) (a0 : nat) (src dst buf : mem V) (q : coords) (A : nat),
  A < P a0 * bsize d' N P pi ipi pi' a0 q ->
  snd (mintact V d' N P pi ipi pi' ipi' a0 src dst buf) q A
  = mpack V d' N P pi ipi pi' a0 src dst (upd q a0 (A / bsize d' N P pi ipi pi' a0 q))
      (q a0 * bsize d' N P pi ipi pi' a0 q + A mod bsize d' N P pi ipi pi' a0 q).
Proof. exact mintact_buf_scratch. Qed.
Print Assumptions c01_frame_scratch_cells_intact.

(** one step on lists: nothing at or beyond E is touched *)
Theorem c01_run_step_frame :
  forall (V : Type) (dflt : V) (Nl nprocs : list nat) (d' : nat) (E : nat -> nat) (cur nxt : list nat) (from to : mems V),
  mh_ok Nl nprocs d' E cur nxt = true -> mh_Wm V nprocs E from -> mh_Wm V nprocs E to ->
  fr V dflt E from (fst (mh_plain V dflt Nl nprocs d' cur nxt from to)) /\
  fr V dflt E to (snd (mh_plain V dflt Nl nprocs d' cur nxt from to)).
Proof. exact mh_plain_frame. Qed.
Print Assumptions c01_run_step_frame.
Theorem c01_run_step_frame_intact :
  forall (V : Type) (dflt : V) (Nl nprocs : list nat) (d' : nat) (E : nat -> nat) (cur nxt : list nat) (from to scratch : mems V),
  mh_ok Nl nprocs d' E cur nxt = true -> mh_Wm V nprocs E from -> mh_Wm V nprocs E to -> mh_Wm V nprocs E scratch ->
  fr V dflt E to (fst (mh_intact V dflt Nl nprocs d' cur nxt from to scratch)) /\
  fr V dflt E scratch (snd (mh_intact V dflt Nl nprocs d' cur nxt from to scratch)).
Proof. exact mh_intact_frame. Qed.
Print Assumptions c01_run_step_frame_intact.
(** the block prefix of dest is exactly the output of the prefix-level model run_step (both variants) *)
Theorem c01_run_step_prefix :
  forall (V : Type) (dflt : V) (Nl nprocs : list nat) (d' : nat) (E : nat -> nat) (cur nxt : list nat) (from to : mems V) r j,
  mh_ok Nl nprocs d' E cur nxt = true -> mh_Wm V nprocs E to -> r < nranks nprocs ->
  inb (shape_of Nl nprocs d' nxt r) j ->
  cell V dflt (snd (mh_plain V dflt Nl nprocs d' cur nxt from to)) r (ravel (shape_of Nl nprocs d' nxt r) j)
  = nth (ravel (shape_of Nl nprocs d' nxt r) j) (nth r (run_step V dflt Nl nprocs cur nxt d' from) []) dflt.
Proof. exact mh_plain_prefix. Qed.
Print Assumptions c01_run_step_prefix.
Theorem c01_run_step_prefix_intact :
  forall (V : Type) (dflt : V) (Nl nprocs : list nat) (d' : nat) (E : nat -> nat) (cur nxt : list nat) (from to scratch : mems V) r j,
  mh_ok Nl nprocs d' E cur nxt = true -> mh_Wm V nprocs E to -> r < nranks nprocs ->
  inb (shape_of Nl nprocs d' nxt r) j ->
  cell V dflt (fst (mh_intact V dflt Nl nprocs d' cur nxt from to scratch)) r (ravel (shape_of Nl nprocs d' nxt r) j)
  = nth (ravel (shape_of Nl nprocs d' nxt r) j) (nth r (run_step V dflt Nl nprocs cur nxt d' from) []) dflt.
Proof. exact mh_intact_prefix. Qed.
Print Assumptions c01_run_step_prefix_intact.

(** routes.  _transposeRedirect: beyond E source and dest are untouched, except that after an even number of
    steps dest is a copy of the whole source array; _transposeRedirect_source_intact: dest and buf are untouched
    beyond E and the source array is no output at all.  Both deliver the global field in dest. *)
Theorem c01_run_route_frame :
  forall (V : Type) (dflt : V) (Nl nprocs : list nat) (d' : nat) (E : nat -> nat) (cur : list nat) (steps : list (list nat)) (src dst : mems V),
  mh_route_ok Nl nprocs d' E cur steps = true -> mh_Wm V nprocs E src -> mh_Wm V nprocs E dst ->
  fr V dflt E src (fst (mh_redirect V dflt Nl nprocs d' cur steps src dst)) /\
  (if Nat.even (length steps)
   then snd (mh_redirect V dflt Nl nprocs d' cur steps src dst) = fst (mh_redirect V dflt Nl nprocs d' cur steps src dst)
   else fr V dflt E dst (snd (mh_redirect V dflt Nl nprocs d' cur steps src dst))).
Proof. exact mh_redirect_frame. Qed.
Print Assumptions c01_run_route_frame.
Theorem c01_run_route_frame_intact :
  forall (V : Type) (dflt : V) (Nl nprocs : list nat) (d' : nat) (E : nat -> nat) (cur : list nat) (steps : list (list nat)) (src dst buf : mems V),
  mh_route_ok Nl nprocs d' E cur steps = true -> mh_Wm V nprocs E src -> mh_Wm V nprocs E dst -> mh_Wm V nprocs E buf ->
  fr V dflt E dst (fst (mh_redirect_intact V dflt Nl nprocs d' cur steps src dst buf)) /\
  fr V dflt E buf (snd (mh_redirect_intact V dflt Nl nprocs d' cur steps src dst buf)).
Proof. exact mh_redirect_intact_frame. Qed.
Print Assumptions c01_run_route_frame_intact.
Theorem c01_mem_route_correct :
  forall (V : Type) (dflt : V) (Nl nprocs : list nat) (d' : nat) (E : nat -> nat) (G : list nat -> V) (cur : list nat)
    (steps : list (list nat)) (src dst : mems V),
  mh_route_ok Nl nprocs d' E cur steps = true -> mh_Wm V nprocs E src -> mh_Wm V nprocs E dst ->
  HoldsL V dflt Nl nprocs d' G cur src ->
  HoldsL V dflt Nl nprocs d' G (last steps cur) (snd (mh_redirect V dflt Nl nprocs d' cur steps src dst)).
Proof. exact mh_redirect_correct. Qed.
Print Assumptions c01_mem_route_correct.
Theorem c01_mem_route_correct_intact :
  forall (V : Type) (dflt : V) (Nl nprocs : list nat) (d' : nat) (E : nat -> nat) (G : list nat -> V) (cur : list nat)
    (steps : list (list nat)) (src dst buf : mems V),
  steps <> [] -> mh_route_ok Nl nprocs d' E cur steps = true ->
  mh_Wm V nprocs E src -> mh_Wm V nprocs E dst -> mh_Wm V nprocs E buf ->
  HoldsL V dflt Nl nprocs d' G cur src ->
  HoldsL V dflt Nl nprocs d' G (last steps cur) (fst (mh_redirect_intact V dflt Nl nprocs d' cur steps src dst buf)).
Proof. exact mh_redirect_intact_correct. Qed.
Print Assumptions c01_mem_route_correct_intact.

(** LayoutHandler.transpose with a spare buffer: the source array afterwards is the source array given - all cells of
    all ranks, not only the block (in the model no writing phase receives it: pack writes dest, Alltoall writes buf
    or dest, the unpack writes dest) *)
Theorem c01_source_intact :
  forall (V : Type) (dflt : V) (Nl nprocs : list nat) (d' : nat) (cur : list nat) (steps : list (list nat)) (src dst buf : mems V),
  fst (fst (mh_transpose V dflt Nl nprocs d' cur steps true src dst buf)) = src.
Proof. intros. apply transpose_m_src_same. Qed.
Print Assumptions c01_source_intact.

(** the extent of every step is inside the advertised buffer.  [pair_bufsize] is what LayoutHandler.__init__
    computes for a compatible pair; it equals the number of cells the step packs and exchanges (p padded blocks),
    it does not depend on the orientation of the pair, and both blocks fit; hence the extent of the step in both
    orientations is at most handler_bufsize for every enumerated pair. *)
Theorem c01_pair_bufsize_is_scratch :
  forall (Nl nprocs l1 l2 : list nat) (d' : nat),
  cfg_wf_b Nl nprocs l1 l2 d' = true -> compatible nprocs l1 l2 = true ->
  forall r, r < nranks nprocs -> forall a0 rest, swap_axes nprocs l1 l2 = a0 :: rest ->
  pair_bufsize Nl nprocs (unravel nprocs r) l1 l2
  = Pf nprocs a0 * bsize d' (Nf Nl) (Pf nprocs) (pif l1) (ipif l1) (pif' l2) a0 (cfun nprocs r).
Proof. exact pair_bufsize_eq_scratch. Qed.
Print Assumptions c01_pair_bufsize_is_scratch.
Theorem c01_step_within_pair :
  forall (Nl nprocs l1 l2 : list nat) (d' : nat),
  cfg_wf_b Nl nprocs l1 l2 d' = true -> compatible nprocs l1 l2 = true ->
  forall r, r < nranks nprocs ->
  mh_extent Nl nprocs d' l1 l2 r <= pair_bufsize Nl nprocs (unravel nprocs r) l1 l2 /\
  mh_extent Nl nprocs d' l2 l1 r <= pair_bufsize Nl nprocs (unravel nprocs r) l1 l2.
Proof. exact step_extent_le_pair. Qed.
Print Assumptions c01_step_within_pair.
(** routes: [route_enum_b]: every step joins two layouts the constructor paired ([hbuf r] = handler_bufsize on rank r).
    With c01_run_route_frame(_intact) at E := hbuf: the redirects never write a cell at or beyond bufferSize. *)
Theorem c01_route_within_buffer :
  forall (Nl nprocs : list nat) (d' : nat) (layouts : list (list nat)) route cur,
  route_ok_b Nl nprocs d' cur route = true -> route_enum_b nprocs layouts cur route = true ->
  mh_route_ok Nl nprocs d' (hbuf Nl nprocs layouts) cur route = true.
Proof. exact route_within_buffer. Qed.
Print Assumptions c01_route_within_buffer.
Theorem c01_route_writes_within_buffer :
  forall (V : Type) (dflt : V) (Nl nprocs : list nat) (d' : nat) (layouts : list (list nat)) cur steps (src dst buf : mems V),
  route_ok_b Nl nprocs d' cur steps = true -> route_enum_b nprocs layouts cur steps = true ->
  mh_Wm V nprocs (hbuf Nl nprocs layouts) src -> mh_Wm V nprocs (hbuf Nl nprocs layouts) dst ->
  mh_Wm V nprocs (hbuf Nl nprocs layouts) buf ->
  (fr V dflt (hbuf Nl nprocs layouts) src (fst (mh_redirect V dflt Nl nprocs d' cur steps src dst)) /\
   (if Nat.even (length steps)
    then snd (mh_redirect V dflt Nl nprocs d' cur steps src dst) = fst (mh_redirect V dflt Nl nprocs d' cur steps src dst)
    else fr V dflt (hbuf Nl nprocs layouts) dst (snd (mh_redirect V dflt Nl nprocs d' cur steps src dst)))) /\
  (fr V dflt (hbuf Nl nprocs layouts) dst (fst (mh_redirect_intact V dflt Nl nprocs d' cur steps src dst buf)) /\
   fr V dflt (hbuf Nl nprocs layouts) buf (snd (mh_redirect_intact V dflt Nl nprocs d' cur steps src dst buf))).
Proof.
  intros V dflt Nl nprocs d' layouts cur steps src dst buf Hok He Ws Wd Wb.
  pose proof (route_within_buffer Nl nprocs d' layouts steps cur Hok He) as H.
  split; [apply mh_redirect_frame; assumption|apply mh_redirect_intact_frame; assumption].
Qed.
Print Assumptions c01_route_writes_within_buffer.

(** non-vacuity: shape [3;2], two processes (blocks of 1 and 2 rows), [0;1] -> [1;0], arrays of 8 cells filled with
    7 (source), 8 (dest), 9 (buf) beyond the block.  Without a buffer the source array becomes the receive
    buffer (the 8s are the senders' dest padding); with one it is buf; dest keeps packed cells beyond its block. *)
Example c01_example_frame :
  mh_ok [3; 2] [2] 1 (fun _ => 4) [0; 1] [1; 0] = true /\
  mh_transpose nat 99 [3; 2] [2] 1 [0; 1] [[1; 0]] false [[0;1;7;7;7;7;7;7]; [2;3;4;5;7;7;7;7]] [[8;8;8;8;8;8;8;8]; [8;8;8;8;8;8;8;8]]
      [[9;9;9;9;9;9;9;9]; [9;9;9;9;9;9;9;9]]
  = ([[0;8;2;4;7;7;7;7]; [1;8;3;5;7;7;7;7]], [[0;2;4;8;8;8;8;8]; [1;3;5;5;8;8;8;8]], [[9;9;9;9;9;9;9;9]; [9;9;9;9;9;9;9;9]]) /\
  mh_transpose nat 99 [3; 2] [2] 1 [0; 1] [[1; 0]] true [[0;1;7;7;7;7;7;7]; [2;3;4;5;7;7;7;7]] [[8;8;8;8;8;8;8;8]; [8;8;8;8;8;8;8;8]]
      [[9;9;9;9;9;9;9;9]; [9;9;9;9;9;9;9;9]]
  = ([[0;1;7;7;7;7;7;7]; [2;3;4;5;7;7;7;7]], [[0;2;4;8;8;8;8;8]; [1;3;5;5;8;8;8;8]], [[0;8;2;4;9;9;9;9]; [1;8;3;5;9;9;9;9]]).
Proof. vm_compute. repeat split; reflexivity. Qed.
