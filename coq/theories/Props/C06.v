(** C06 — all ranks issue matching collectives; no layout change can deadlock; the route between
    layouts does not depend on the interpreter's set iteration order (for every number of layouts).
    Statements only; proofs in Collectives.v, TraceCheck.v, Routes.v, RoutesGeneral.v. *)
From Coq Require Import List Arith Bool Permutation.
Import ListNotations.
From PGV Require Import Collectives TraceCheck Routes RoutesGeneral.

(** Whatever the programs of the ranks (interaction trees blocked on collectives) and whatever the
    communicator structure: every maximal execution fires the same number of collectives and ends in
    the same state — the order in which ranks arrive at collectives is irrelevant *)
Theorem c06_schedule_independent :
  forall (comm sig payload result : Type) (comm_eqb : comm -> comm -> bool),
  (forall a b, reflect (a = b) (comm_eqb a b)) ->
  forall (members : comm -> list nat) (res : comm -> (nat -> payload) -> nat -> result),
  (forall c f g, (forall r, In r (members c) -> f r = g r) -> forall r, res c f r = res c g r) ->
  forall (dpay : payload) n st T,
  runs comm sig payload result comm_eqb members res dpay n st T ->
  terminal comm sig payload result comm_eqb members T ->
  forall m T', runs comm sig payload result comm_eqb members res dpay m st T' ->
  terminal comm sig payload result comm_eqb members T' ->
  m = n /\ eqst comm sig payload result T T'.
Proof. exact schedule_independent. Qed.
Print Assumptions c06_schedule_independent.

(** if one schedule lets every rank finish, no schedule ends in a deadlock *)
Theorem c06_no_deadlock :
  forall (comm sig payload result : Type) (comm_eqb : comm -> comm -> bool),
  (forall a b, reflect (a = b) (comm_eqb a b)) ->
  forall (members : comm -> list nat) (res : comm -> (nat -> payload) -> nat -> result),
  (forall c f g, (forall r, In r (members c) -> f r = g r) -> forall r, res c f r = res c g r) ->
  forall (dpay : payload) n st T,
  runs comm sig payload result comm_eqb members res dpay n st T ->
  all_done comm sig payload result T ->
  forall m T', runs comm sig payload result comm_eqb members res dpay m st T' ->
  terminal comm sig payload result comm_eqb members T' ->
  all_done comm sig payload result T'.
Proof. exact no_deadlock. Qed.
Print Assumptions c06_no_deadlock.

(** the checker applied to the traces recorded from the implementation is sound: accepted traces
    (every communicator's members issue the same operation / root / count / datatype in the same order,
    and some firing order completes them) complete under every schedule *)
Theorem c06_traces_ok_sound : forall mems ts, traces_ok mems ts = true ->
  forall m T', runs cid nat unit unit cid_eqb (tc_members mems) tc_res tt m (st_of ts) T' ->
  terminal cid nat unit unit cid_eqb (tc_members mems) T' -> all_done cid nat unit unit T'.
Proof. exact traces_ok_sound. Qed.
Print Assumptions c06_traces_ok_sound.

(** the route table computed by _makeConnectionMap does not depend on the iteration order of the set of
    unvisited layouts (the interpreter's string-hash seed), for every connection graph on 3 and 4
    layouts, every alphabetical order of their names and every iteration order (finite sweep) *)
Theorem c06_routes_order_independent_le4 : order_independent_upto 3 = true /\ order_independent_upto 4 = true.
Proof. exact routes_order_independent_le4. Qed.
Print Assumptions c06_routes_order_independent_le4.

(** the same for EVERY number n of layouts: for every connection table that is symmetric with entries below n
    (DirectConnections as LayoutHandler builds it, in any insertion order), every ranking of the names that is
    injective on the layouts (string comparison of distinct names), and every two iteration orders of the set of
    layouts (permutations of 0..n-1), the two route tables are equal.  Hence all ranks, whatever their
    PYTHONHASHSEED, hold the same route table *)
Theorem c06_routes_order_independent :
  forall (n : nat) (conn : nat -> list nat) (nrank : nat -> nat) (order1 order2 : list nat),
  (forall a b, In b (conn a) -> In a (conn b)) ->
  (forall a b, In b (conn a) -> b < n) ->
  (forall x y, x < n -> y < n -> nrank x = nrank y -> x = y) ->
  Permutation (seq 0 n) order1 -> Permutation (seq 0 n) order2 ->
  route_table n conn nrank order1 = route_table n conn nrank order2.
Proof. exact routes_order_independent. Qed.
Print Assumptions c06_routes_order_independent.

(** instance for the tables the harness and the sweeps use: conn_of (any list of edges between layouts below n)
    and rank_of (alphabetical rank given as a permutation) *)
Theorem c06_routes_order_independent_names :
  forall (n : nat) (edges : list (nat * nat)) (names order1 order2 : list nat),
  (forall a b, In (a, b) edges -> a < n /\ b < n) ->
  Permutation (seq 0 n) names -> Permutation (seq 0 n) order1 -> Permutation (seq 0 n) order2 ->
  route_table n (conn_of edges) (rank_of names) order1 = route_table n (conn_of edges) (rank_of names) order2.
Proof. exact routes_order_independent_names. Qed.
Print Assumptions c06_routes_order_independent_names.

(** the finite sweep of Routes.v (all graphs x all name orders x all iteration orders on n layouts) is true for every n *)
Theorem c06_order_independent_upto_all : forall n, order_independent_upto n = true.
Proof. exact order_independent_upto_all. Qed.
Print Assumptions c06_order_independent_upto_all.

(** non-vacuity of the route theorem: on the square 0-1-3-2-0 the two shortest routes 0 -> 3 tie; the name ranking
    decides ([1;3] when layout 1 sorts before layout 2, [2;3] otherwise), the iteration order does not *)
Example c06_routes_example :
  route_table 4 (conn_of [(0,1);(0,2);(1,3);(2,3)]) (rank_of [0;1;2;3]) [0;1;2;3] =
    [[[]; [1]; [2]; [1; 3]]; [[0]; []; [0; 2]; [3]]; [[0]; [0; 1]; []; [3]]; [[1; 0]; [1]; [2]; []]] /\
  route_table 4 (conn_of [(0,1);(0,2);(1,3);(2,3)]) (rank_of [0;1;2;3]) [3;2;1;0] =
    [[[]; [1]; [2]; [1; 3]]; [[0]; []; [0; 2]; [3]]; [[0]; [0; 1]; []; [3]]; [[1; 0]; [1]; [2]; []]] /\
  route_table 4 (conn_of [(0,1);(0,2);(1,3);(2,3)]) (rank_of [0;2;1;3]) [3;2;1;0] =
    [[[]; [1]; [2]; [2; 3]]; [[0]; []; [0; 2]; [3]]; [[0]; [0; 1]; []; [3]]; [[2; 0]; [1]; [2]; []]].
Proof. vm_compute. repeat split; reflexivity. Qed.

(** non-vacuity: two ranks, world communicator 0 and two singleton communicators; a mismatch is rejected *)
Example c06_example :
  traces_ok [[0; 1]; [0]; [1]] [[(0, 5); (1, 7); (0, 5)]; [(0, 5); (2, 7); (0, 5)]] = true /\
  traces_ok [[0; 1]; [0]; [1]] [[(0, 5); (0, 6)]; [(0, 6); (0, 5)]] = false.
Proof. vm_compute. split; reflexivity. Qed.

(** the finite sweep can be run in slices (kept as a cross-check of the extracted code in the thorough tier, 5 layouts;
    its outcome is now also a consequence of c06_order_independent_upto_all): if every slice is true the whole sweep is *)
From PGV Require Import RoutesSweep.
Theorem c06_slices_cover : forall n m, 0 < m ->
  (forall k, k < m -> order_independent_slice n k m = true) -> order_independent_upto n = true.
Proof. exact slices_cover. Qed.
Print Assumptions c06_slices_cover.
