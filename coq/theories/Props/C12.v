From PGV Require Import PolAdvModel.
