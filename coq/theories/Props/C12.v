(** C12 - poloidal advection traces 2nd-order ExB characteristics and interpolates at the foot.
    Only statements, [exact]s and [Print Assumptions]; the model is PolAdvModel.v (kernels of
    accelerated_advection_steps.py over the spline model of C07), proofs are in PolAdvTheory.v and
    PolAdvQc.v.  [F] is any field with the operations [K : sp_ops F]; where an order or ring law is
    needed the hypothesis [sp_laws K] is stated (it holds for the executed instance: spq_laws).

    Not proved here (see the evidence, uncovered_clauses): third-order agreement of the two schemes
    (asymptotic); rigid rotation from the coefficients of omega r^2/2 is proved for the general
    path (third part); for the uniform-cubic path it rests on the evaluator facts d_r phi = omega r,
    d_theta phi = 0 (tested exactly).
    Refuted: termination of the implicit iteration for arbitrary potentials
    (pol_impl_terminates_refuted). *)
From Coq Require Import List Arith ZArith QArith Qcanon Bool.
Import ListNotations.
From PGV Require Import Sums SplineModel SplineTheory SplineQc InterpModel InterpTheory MarsdenTheory PolAdvModel PolAdvTheory PolAdvConst PolAdvQuad PolAdvQc.

(** both pairs of evaluation routines the wrappers dispatch to satisfy "entry points agree": a
    successful cross evaluation is the table of the scalar evaluations at the nodes *)
Theorem pol_entry_points_agree : forall (F : Type) (K : sp_ops F) (cubic_uniform : bool),
  pol_ev_sound F K (pol_dispatch F K cubic_uniform).
Proof. exact pol_dispatch_sound. Qed.
Print Assumptions pol_entry_points_agree.

(** expl_formula: whenever the explicit kernel returns, node (i,j) holds the value of the pointwise
    description [pol_expl_point] at (theta_i, r_j): derivatives of phi at the node divided by r,
    Heun foot, theta modulo 2 pi, fill rule or the spline of f at the foot *)
Theorem pol_expl_formula : forall (F : Type) (K : sp_ops F) (E : pol_ev F) (feq : F -> F -> F) (pi_ dt v B0 : F)
  (nul : bool) (rPts qPts : list F) (phi pol : pol_spl F),
  pol_ev_sound F K E ->
  forall res, pol_step_expl F K E feq pi_ dt v B0 nul rPts qPts phi pol = SpOk res ->
  length res = pol_nq F qPts /\
  forall i, (i < pol_nq F qPts)%nat -> length (nth i res []) = pol_nr F rPts /\
  forall j, (j < pol_nr F rPts)%nat ->
    pol_expl_point F K E feq pi_ dt v B0 nul rPts phi pol (nth i qPts (sp0 K)) (nth j rPts (sp0 K))
    = SpOk (nth j (nth i res []) (sp0 K, (sp0 K, sp0 K))).
Proof. exact pol_expl_formula_thm. Qed.
Print Assumptions pol_expl_formula.

(** the Heun foot, first foot inside the radial domain: with a, b = d_r phi, d_theta phi at the node,
    (q1, r1) = (q - (a/r) mf mod 2 pi, r + (b/r) mf) and a1, b1 the derivatives at (q1, r1), the foot is
    (q - (a/r + a1/r1) mfh mod 2 pi, r + (b/r + b1/r1) mfh)   [mf = dt/B0, mfh = 0.5 mf] *)
Theorem pol_expl_heun_inside : forall (F : Type) (K : sp_ops F) (E : pol_ev F) (pi_ : F) (phi : pol_spl F)
  (rmin rmax mf mfh q r a b q1 a1 b1 : F),
  speqb K r (sp0 K) = false ->
  pol_mod F K (spsub K q (spmul K (spdiv K a r) mf)) (pol_twopi F K pi_) = SpOk q1 ->
  pol_inside F K rmin rmax (spadd K r (spmul K (spdiv K b r) mf)) = true ->
  speqb K (spadd K r (spmul K (spdiv K b r) mf)) (sp0 K) = false ->
  pol_scalar F E phi q1 (spadd K r (spmul K (spdiv K b r) mf)) 0 1 = SpOk a1 ->
  pol_scalar F E phi q1 (spadd K r (spmul K (spdiv K b r) mf)) 1 0 = SpOk b1 ->
  pol_expl_node F K E pi_ phi rmin rmax mf mfh q r a b =
  sp_bind (pol_mod F K (spsub K q (spmul K (spadd K (spdiv K a r) (spdiv K a1 (spadd K r (spmul K (spdiv K b r) mf)))) mfh))
                   (pol_twopi F K pi_))
    (fun q2 => SpOk (q2, spadd K r (spmul K (spadd K (spdiv K b r) (spdiv K b1 (spadd K r (spmul K (spdiv K b r) mf)))) mfh))).
Proof. exact pol_expl_node_inside. Qed.
Print Assumptions pol_expl_heun_inside.

(** first foot outside [rPts[0], rMax]: the second derivative pair is zero *)
Theorem pol_expl_heun_outside : forall (F : Type) (K : sp_ops F) (E : pol_ev F) (pi_ : F) (phi : pol_spl F)
  (rmin rmax mf mfh q r a b q1 : F),
  speqb K r (sp0 K) = false ->
  pol_mod F K (spsub K q (spmul K (spdiv K a r) mf)) (pol_twopi F K pi_) = SpOk q1 ->
  pol_inside F K rmin rmax (spadd K r (spmul K (spdiv K b r) mf)) = false ->
  pol_expl_node F K E pi_ phi rmin rmax mf mfh q r a b =
  sp_bind (pol_mod F K (spsub K q (spmul K (spadd K (spdiv K a r) (sp0 K)) mfh)) (pol_twopi F K pi_))
    (fun q2 => SpOk (q2, spadd K r (spmul K (spadd K (spdiv K b r) (sp0 K)) mfh))).
Proof. exact pol_expl_node_outside. Qed.
Print Assumptions pol_expl_heun_outside.

(** fill_rule_spec: below rPts[0]: 0 or f_eq(rPts[0], v); above rMax: 0 or f_eq(foot_r, v); otherwise
    theta is reduced modulo 2 pi once more and f is the spline of f at the foot *)
Theorem pol_fill_rule : forall (F : Type) (K : sp_ops F) (E : pol_ev F) (feq : F -> F -> F) (pi_ v : F) (nul : bool)
  (pol : pol_spl F) (rmin rmax kq kr : F),
  (pol_ltb F K kr rmin = true ->
     pol_fill F K E feq pi_ v nul pol rmin rmax (kq, kr) = SpOk ((if nul then sp0 K else feq rmin v), (kq, kr))) /\
  (pol_ltb F K kr rmin = false -> pol_ltb F K rmax kr = true ->
     pol_fill F K E feq pi_ v nul pol rmin rmax (kq, kr) = SpOk ((if nul then sp0 K else feq kr v), (kq, kr))) /\
  (pol_ltb F K kr rmin = false -> pol_ltb F K rmax kr = false ->
     pol_fill F K E feq pi_ v nul pol rmin rmax (kq, kr) =
     sp_bind (pol_mod F K kq (pol_twopi F K pi_)) (fun q' =>
     sp_bind (pol_scalar F E pol q' kr 0 0) (fun val => SpOk (val, (q', kr))))).
Proof. exact pol_fill_rule_spec. Qed.
Print Assumptions pol_fill_rule.

(** impl_step_formula, part 1: the loop is entered with the divided derivatives at the nodes and
    the explicit Euler feet *)
Theorem pol_impl_start_formula : forall (F : Type) (K : sp_ops F) (E : pol_ev F) (dt B0 : F) (rPts qPts : list F)
  (phi : pol_spl F), pol_ev_sound F K E ->
  forall rmin rmax mfh D0 st0,
  pol_impl_start F K E dt B0 rPts qPts phi = SpOk (rmin, rmax, mfh, D0, st0) ->
  rmin = hd (sp0 K) rPts /\ rmax = last rPts (sp0 K) /\ mfh = spmul K (sp_half F K) (spdiv K dt B0) /\
  forall i j, (i < pol_nq F qPts)%nat -> (j < pol_nr F rPts)%nat -> exists a b,
    pol_scalar F E phi (nth i qPts (sp0 K)) (nth j rPts (sp0 K)) 0 1 = SpOk a /\
    pol_scalar F E phi (nth i qPts (sp0 K)) (nth j rPts (sp0 K)) 1 0 = SpOk b /\
    speqb K (nth j rPts (sp0 K)) (sp0 K) = false /\
    pol_at2 F K D0 i j = (spdiv K a (nth j rPts (sp0 K)), spdiv K b (nth j rPts (sp0 K))) /\
    pol_at2 F K st0 i j = (spsub K (nth i qPts (sp0 K)) (spmul K (spdiv K a (nth j rPts (sp0 K))) (spdiv K dt B0)),
                           spadd K (nth j rPts (sp0 K)) (spmul K (spdiv K b (nth j rPts (sp0 K))) (spdiv K dt B0))).
Proof. exact pol_impl_start_inv. Qed.
Print Assumptions pol_impl_start_formula.

(** part 2: one sweep acts node by node (nodes do not interact); the norm is the running maximum *)
Theorem pol_impl_sweep_formula : forall (F : Type) (K : sp_ops F) (E : pol_ev F) (pi_ : F) (rPts qPts : list F)
  (phi : pol_spl F) (rmin rmax mfh : F) (D0 prev st : list (list (F * F))) (norm : F),
  pol_impl_sweep F K E pi_ rPts qPts phi rmin rmax mfh D0 prev = SpOk (st, norm) ->
  exists nodes, st = map (map fst) nodes /\ norm = pol_norm_of F K nodes /\ length nodes = pol_nq F qPts /\
    forall i, (i < pol_nq F qPts)%nat -> length (nth i nodes []) = pol_nr F rPts /\
    forall j, (j < pol_nr F rPts)%nat ->
      pol_impl_node F K E pi_ phi rmin rmax mfh (nth i qPts (sp0 K)) (nth j rPts (sp0 K)) (pol_at2 F K D0 i j) (pol_at2 F K prev i j)
      = SpOk (nth j (nth i nodes []) (sp0 K, sp0 K, (sp0 K, sp0 K))).
Proof. exact pol_impl_sweep_nodes. Qed.
Print Assumptions pol_impl_sweep_formula.

(** part 3: the node map of a sweep: theta of the old foot modulo 2 pi, derivatives there (zeros
    outside the radial domain), new foot with r clipped into [rPts[0], rMax], the two differences *)
Theorem pol_impl_node_formula : forall (F : Type) (K : sp_ops F) (E : pol_ev F) (pi_ : F) (phi : pol_spl F)
  (rmin rmax mfh q r : F) (d0 k1 : F * F) (k1q : F) (dk : F * F) (k2q : F),
  pol_mod F K (fst k1) (pol_twopi F K pi_) = SpOk k1q ->
  pol_dk F K E phi rmin rmax k1q (snd k1) = SpOk dk ->
  pol_mod F K (spsub K q (spmul K (spadd K (fst d0) (fst dk)) mfh)) (pol_twopi F K pi_) = SpOk k2q ->
  pol_impl_node F K E pi_ phi rmin rmax mfh q r d0 k1 =
  SpOk (k2q, pol_clip F K rmin rmax (spadd K r (spmul K (spadd K (snd d0) (snd dk)) mfh)),
        (pol_qdiff F K pi_ k2q k1q,
         pol_abs F K (spsub K (pol_clip F K rmin rmax (spadd K r (spmul K (spadd K (snd d0) (snd dk)) mfh))) (snd k1)))).
Proof. exact pol_impl_node_spec. Qed.
Print Assumptions pol_impl_node_formula.

(** part 4: a returning implicit kernel is start state + loop + final evaluation of every foot *)
Theorem pol_impl_step_formula : forall (F : Type) (K : sp_ops F) (E : pol_ev F) (feq : F -> F -> F) (pi_ dt v B0 : F)
  (nul : bool) (rPts qPts : list F) (phi pol : pol_spl F) (tol : F) (fuel : nat) out n,
  pol_step_impl F K E feq pi_ dt v B0 nul rPts qPts phi pol tol fuel = PolRet (SpOk (out, n)) ->
  exists rmin rmax mfh D0 st0 st norm,
    pol_impl_start F K E dt B0 rPts qPts phi = SpOk (rmin, rmax, mfh, D0, st0) /\
    pol_impl_loop F K E pi_ rPts qPts phi tol fuel rmin rmax mfh D0 st0 0 = PolRet (SpOk (st, norm, n)) /\
    pol_grid_mapM F rPts qPts (fun i j => pol_fill F K E feq pi_ v nul pol rmin rmax (pol_at2 F K st i j)) = SpOk out.
Proof. exact pol_step_impl_returns. Qed.
Print Assumptions pol_impl_step_formula.

(** impl_result_is_fixed_point_within_tol: whenever the fuelled loop returns, the result is one sweep
    applied to the previous iterate and no node moved by more than tol (theta with the 2 pi wrap, r) *)
Theorem pol_impl_result_is_fixed_point_within_tol : forall (F : Type) (K : sp_ops F), sp_laws K ->
  forall (E : pol_ev F) (pi_ : F) (rPts qPts : list F) (phi : pol_spl F) (tol : F) (fuel : nat) (rmin rmax mfh : F)
    (D0 st0 : list (list (F * F))) (done : nat) (st : list (list (F * F))) (norm : F) (n : nat),
  pol_impl_loop F K E pi_ rPts qPts phi tol fuel rmin rmax mfh D0 st0 done = PolRet (SpOk (st, norm, n)) ->
  exists prev nodes,
    pol_impl_sweep F K E pi_ rPts qPts phi rmin rmax mfh D0 prev = SpOk (st, norm) /\
    st = map (map fst) nodes /\ sp_le K norm tol /\
    forall i j, (i < pol_nq F qPts)%nat -> (j < pol_nr F rPts)%nat ->
      pol_impl_node F K E pi_ phi rmin rmax mfh (nth i qPts (sp0 K)) (nth j rPts (sp0 K)) (pol_at2 F K D0 i j) (pol_at2 F K prev i j)
        = SpOk (nth j (nth i nodes []) (sp0 K, sp0 K, (sp0 K, sp0 K))) /\
      sp_le K (fst (snd (nth j (nth i nodes []) (sp0 K, sp0 K, (sp0 K, sp0 K))))) tol /\
      sp_le K (snd (snd (nth j (nth i nodes []) (sp0 K, sp0 K, (sp0 K, sp0 K))))) tol.
Proof. exact pol_impl_fixed_point_within_tol. Qed.
Print Assumptions pol_impl_result_is_fixed_point_within_tol.

(** the loop makes between 1 and fuel sweeps when it returns *)
Theorem pol_impl_sweeps_bounded : forall (F : Type) (K : sp_ops F) (E : pol_ev F) (pi_ : F) (rPts qPts : list F)
  (phi : pol_spl F) (tol : F) (fuel : nat) (rmin rmax mfh : F) (D0 st0 : list (list (F * F))) (done : nat) st norm n,
  pol_impl_loop F K E pi_ rPts qPts phi tol fuel rmin rmax mfh D0 st0 done = PolRet (SpOk (st, norm, n)) ->
  exists prev, pol_impl_sweep F K E pi_ rPts qPts phi rmin rmax mfh D0 prev = SpOk (st, norm) /\
    pol_ltb F K tol norm = false /\ (done < n <= done + fuel)%nat.
Proof. exact pol_impl_loop_returns. Qed.
Print Assumptions pol_impl_sweeps_bounded.

(** in the implicit scheme the fill rule is never applied: r has been clipped into [rPts[0], rMax], the
    value written is the spline of f at the clipped foot (also with nulBound) *)
Theorem pol_impl_fill_unreachable : forall (F : Type) (K : sp_ops F), sp_laws K ->
  forall (E : pol_ev F) (feq : F -> F -> F) (pi_ v : F) (nul : bool) (pol : pol_spl F) (rmin rmax kq x : F),
  sp_le K rmin rmax ->
  pol_fill F K E feq pi_ v nul pol rmin rmax (kq, pol_clip F K rmin rmax x) =
  sp_bind (pol_mod F K kq (pol_twopi F K pi_)) (fun q' =>
  sp_bind (pol_scalar F E pol q' (pol_clip F K rmin rmax x) 0 0) (fun val => SpOk (val, (q', pol_clip F K rmin rmax x)))).
Proof. exact pol_impl_fill_unreachable_thm. Qed.
Print Assumptions pol_impl_fill_unreachable.

(** const_phi_id, explicit scheme.  A potential whose derivative evaluations vanish (constant
    potential: the derivative basis functions sum to zero, C07 sp_ders_sum_zero / sp_cu_ders_sum_zero)
    has feet = nodes (theta reduced modulo 2 pi), and with exact interpolation S(theta_i, r_j) = f[i,j]
    the kernel returns f unchanged *)
Theorem pol_const_phi_id_expl_thm : forall (F : Type) (K : sp_ops F), sp_laws K ->
  forall (E : pol_ev F) (feq : F -> F -> F) (pi_ dt v B0 : F) (nul : bool) (rPts qPts : list F) (phi pol : pol_spl F),
  speqb K B0 (sp0 K) = false -> speqb K (pol_twopi F K pi_) (sp0 K) = false -> rPts <> [] ->
  (forall j, (j < pol_nr F rPts)%nat -> speqb K (nth j rPts (sp0 K)) (sp0 K) = false /\
     pol_inside F K (hd (sp0 K) rPts) (last rPts (sp0 K)) (nth j rPts (sp0 K)) = true) ->
  forall D1 D2, pol_cross F E rPts qPts phi 0 1 = SpOk D1 -> pol_cross F E rPts qPts phi 1 0 = SpOk D2 ->
  pol_grid_ok F rPts qPts D1 = true -> pol_grid_ok F rPts qPts D2 = true ->
  (forall i j, (i < pol_nq F qPts)%nat -> (j < pol_nr F rPts)%nat -> pol_at F K D1 i j = sp0 K) ->
  (forall i j, (i < pol_nq F qPts)%nat -> (j < pol_nr F rPts)%nat -> pol_at F K D2 i j = sp0 K) ->
  (forall i j, (i < pol_nq F qPts)%nat -> (j < pol_nr F rPts)%nat ->
     pol_scalar F E phi (pol_modv F K (nth i qPts (sp0 K)) (pol_twopi F K pi_)) (nth j rPts (sp0 K)) 0 1 = SpOk (sp0 K) /\
     pol_scalar F E phi (pol_modv F K (nth i qPts (sp0 K)) (pol_twopi F K pi_)) (nth j rPts (sp0 K)) 1 0 = SpOk (sp0 K)) ->
  forall fv : nat -> nat -> F,
  (forall i j, (i < pol_nq F qPts)%nat -> (j < pol_nr F rPts)%nat ->
     pol_scalar F E pol (pol_modv F K (pol_modv F K (nth i qPts (sp0 K)) (pol_twopi F K pi_)) (pol_twopi F K pi_))
                (nth j rPts (sp0 K)) 0 0 = SpOk (fv i j)) ->
  pol_step_expl F K E feq pi_ dt v B0 nul rPts qPts phi pol = SpOk (pol_const_result F K pi_ rPts qPts fv).
Proof. exact pol_const_phi_id_expl. Qed.
Print Assumptions pol_const_phi_id_expl_thm.

(** const_phi_id, implicit scheme: same result, and the loop exits after exactly one sweep
    (for every tol >= 0 and every positive fuel) *)
Theorem pol_const_phi_id_impl_thm : forall (F : Type) (K : sp_ops F), sp_laws K ->
  forall (E : pol_ev F) (feq : F -> F -> F) (pi_ dt v B0 : F) (nul : bool) (rPts qPts : list F) (phi pol : pol_spl F),
  speqb K B0 (sp0 K) = false -> speqb K (pol_twopi F K pi_) (sp0 K) = false -> rPts <> [] ->
  (forall j, (j < pol_nr F rPts)%nat -> speqb K (nth j rPts (sp0 K)) (sp0 K) = false /\
     pol_inside F K (hd (sp0 K) rPts) (last rPts (sp0 K)) (nth j rPts (sp0 K)) = true) ->
  forall D1 D2, pol_cross F E rPts qPts phi 0 1 = SpOk D1 -> pol_cross F E rPts qPts phi 1 0 = SpOk D2 ->
  pol_grid_ok F rPts qPts D1 = true -> pol_grid_ok F rPts qPts D2 = true ->
  (forall i j, (i < pol_nq F qPts)%nat -> (j < pol_nr F rPts)%nat -> pol_at F K D1 i j = sp0 K) ->
  (forall i j, (i < pol_nq F qPts)%nat -> (j < pol_nr F rPts)%nat -> pol_at F K D2 i j = sp0 K) ->
  (forall i j, (i < pol_nq F qPts)%nat -> (j < pol_nr F rPts)%nat ->
     pol_scalar F E phi (pol_modv F K (nth i qPts (sp0 K)) (pol_twopi F K pi_)) (nth j rPts (sp0 K)) 0 1 = SpOk (sp0 K) /\
     pol_scalar F E phi (pol_modv F K (nth i qPts (sp0 K)) (pol_twopi F K pi_)) (nth j rPts (sp0 K)) 1 0 = SpOk (sp0 K)) ->
  forall fv : nat -> nat -> F,
  (forall i j, (i < pol_nq F qPts)%nat -> (j < pol_nr F rPts)%nat ->
     pol_scalar F E pol (pol_modv F K (pol_modv F K (nth i qPts (sp0 K)) (pol_twopi F K pi_)) (pol_twopi F K pi_))
                (nth j rPts (sp0 K)) 0 0 = SpOk (fv i j)) ->
  forall tol, sp_le K (sp0 K) tol -> sp_le K (sp0 K) pi_ ->
  forall fuel, pol_step_impl F K E feq pi_ dt v B0 nul rPts qPts phi pol tol (S fuel)
               = PolRet (SpOk (pol_const_result F K pi_ rPts qPts fv, 1%nat)).
Proof. exact pol_const_phi_id_impl. Qed.
Print Assumptions pol_const_phi_id_impl_thm.

(** mod_2pi_range: for a positive modulus (2 pi, pi > 0) Python's exact [%] exists and lies in [0, m) *)
Theorem pol_mod_2pi_range : forall (F : Type) (K : sp_ops F), sp_laws K -> forall x m : F,
  sp_trunc_ok F K -> sp_lt K (sp0 K) m ->
  exists y, pol_mod F K x m = SpOk y /\ sp_le K (sp0 K) y /\ sp_lt K y m.
Proof. exact pol_mod_range_thm. Qed.
Print Assumptions pol_mod_2pi_range.

(** a 2-cycle of the sweep map with norm > tol is never left *)
Theorem pol_impl_two_cycle_diverges : forall (F : Type) (K : sp_ops F) (E : pol_ev F) (pi_ : F) (rPts qPts : list F)
  (phi : pol_spl F) (tol rmin rmax mfh : F) (D0 sA sB : list (list (F * F))) (nA nB : F),
  pol_impl_sweep F K E pi_ rPts qPts phi rmin rmax mfh D0 sA = SpOk (sB, nA) ->
  pol_impl_sweep F K E pi_ rPts qPts phi rmin rmax mfh D0 sB = SpOk (sA, nB) ->
  pol_ltb F K tol nA = true -> pol_ltb F K tol nB = true ->
  forall fuel done, pol_impl_loop F K E pi_ rPts qPts phi tol fuel rmin rmax mfh D0 sA done = PolOutOfFuel /\
                    pol_impl_loop F K E pi_ rPts qPts phi tol fuel rmin rmax mfh D0 sB done = PolOutOfFuel.
Proof. exact pol_impl_loop_cycle. Qed.
Print Assumptions pol_impl_two_cycle_diverges.

(** impl_terminates_refuted: "the implicit iteration terminates" is false as quantified.  On the
    executed instance (Qc) there are a potential in a degree-1 spline space, pi > 0, tol > 0 for
    which the fuelled loop is out of fuel for EVERY fuel (radial feet flip between the two clip
    values for ever).  The witness is polq_w_* in PolAdvQc.v; the harness runs the real code on it. *)
Theorem pol_impl_terminates_refuted :
  exists (E : pol_ev Qc) feq pi_ dt v B0 nul rPts qPts phi pol tol,
    (Q2Qc 0 < pi_)%Qc /\ (Q2Qc 0 < tol)%Qc /\
    forall fuel, pol_step_impl Qc spq_ops E feq pi_ dt v B0 nul rPts qPts phi pol tol fuel = PolOutOfFuel.
Proof. exact polq_impl_terminates_refuted. Qed.
Print Assumptions pol_impl_terminates_refuted.


(* ------------------------------------------------------------------------------------------ *)
(** * second part: hypotheses discharged (PolAdvConst.v) *)

(** constant coefficients => every evaluation with exactly one derivative is 0, for both evaluator families (from C07: the derivative basis functions sum to zero, sp_ders_sum_zero / sp_cu_ders_sum_zero); no hypothesis on knots or points beyond "the evaluation returns" *)
Theorem pol_const_coeffs_der_zero :
  forall (F : Type) (K : sp_ops F),
       sp_laws K ->
       forall (cu : bool) (x y : F) (s : pol_spl F) (c : F) (e1 e2 : nat) (v : F),
       pol_const_coeffs F K (ps_c s) c -> (e1 + e2)%nat = 1%nat -> pol_scalar F (pol_dispatch F K cu) s x y e1 e2 = SpOk v -> v = sp0 K.
Proof. exact (@pol_const_der_zero). Qed.
Print Assumptions pol_const_coeffs_der_zero.

(** a theta in [0, m) is fixed by the modulo *)
Theorem pol_mod_fixes_domain :
  forall (F : Type) (K : sp_ops F), sp_laws K -> forall x m : F, sp_trunc_ok F K -> sp_le K (sp0 K) x -> sp_lt K x m -> pol_modv F K x m = x.
Proof. exact (@pol_modv_id). Qed.
Print Assumptions pol_mod_fixes_domain.

(** the modulo is idempotent: the extra % (2*pi) before the final evaluation changes nothing *)
Theorem pol_mod_idempotent :
  forall (F : Type) (K : sp_ops F),
       sp_laws K -> forall x m : F, sp_trunc_ok F K -> sp_lt K (sp0 K) m -> pol_modv F K (pol_modv F K x m) m = pol_modv F K x m.
Proof. exact (@pol_modv_idem). Qed.
Print Assumptions pol_mod_idempotent.

(** rigid rotation, explicit scheme: for a potential whose evaluator returns d_r phi = omega r and d_theta phi = 0 (phi = omega r^2/2 reproduced by the spline space, degree >= 2) both Heun stages see the same drift and the foot of node (i,j) is (theta_i - omega dt/B0 mod 2 pi, r_j) exactly; f is the spline of f at that point *)
Theorem pol_rigid_rotation_expl :
  forall (F : Type) (K : sp_ops F),
       sp_laws K ->
       forall (E : pol_ev F) (feq : F -> F -> F) (pi_ dt v B0 : F) (nul : bool) (rPts qPts : list F) (phi pol : pol_spl F) (omega : F),
       speqb K B0 (sp0 K) = false ->
       speqb K (pol_twopi F K pi_) (sp0 K) = false ->
       rPts <> [] ->
       (forall j : nat,
        (j < pol_nr F rPts)%nat ->
        speqb K (nth j rPts (sp0 K)) (sp0 K) = false /\ pol_inside F K (hd (sp0 K) rPts) (last rPts (sp0 K)) (nth j rPts (sp0 K)) = true) ->
       forall D1 D2 : list (list F),
       pol_cross F E rPts qPts phi 0 1 = SpOk D1 ->
       pol_cross F E rPts qPts phi 1 0 = SpOk D2 ->
       pol_grid_ok F rPts qPts D1 = true ->
       pol_grid_ok F rPts qPts D2 = true ->
       (forall i j : nat, (i < pol_nq F qPts)%nat -> (j < pol_nr F rPts)%nat -> pol_at F K D1 i j = spmul K omega (nth j rPts (sp0 K))) ->
       (forall i j : nat, (i < pol_nq F qPts)%nat -> (j < pol_nr F rPts)%nat -> pol_at F K D2 i j = sp0 K) ->
       (forall i j : nat,
        (i < pol_nq F qPts)%nat ->
        (j < pol_nr F rPts)%nat ->
        pol_scalar F E phi (pol_modv F K (spsub K (nth i qPts (sp0 K)) (spmul K omega (spdiv K dt B0))) (pol_twopi F K pi_)) (nth j rPts (sp0 K)) 0 1 =
        SpOk (spmul K omega (nth j rPts (sp0 K))) /\
        pol_scalar F E phi (pol_modv F K (spsub K (nth i qPts (sp0 K)) (spmul K omega (spdiv K dt B0))) (pol_twopi F K pi_)) (nth j rPts (sp0 K)) 1 0 =
        SpOk (sp0 K)) ->
       forall fv : nat -> nat -> F,
       (forall i j : nat,
        (i < pol_nq F qPts)%nat ->
        (j < pol_nr F rPts)%nat ->
        pol_scalar F E pol
          (pol_modv F K (pol_modv F K (spsub K (nth i qPts (sp0 K)) (spmul K omega (spdiv K dt B0))) (pol_twopi F K pi_)) (pol_twopi F K pi_))
          (nth j rPts (sp0 K)) 0 0 = SpOk (fv i j)) ->
       pol_step_expl F K E feq pi_ dt v B0 nul rPts qPts phi pol = SpOk (pol_rigid_result F K pi_ dt B0 rPts qPts omega fv).
Proof. exact (@pol_rigid_expl). Qed.
Print Assumptions pol_rigid_rotation_expl.

(** rigid rotation, implicit scheme: the Euler foot is already the fixed point, the loop exits after its first sweep (norm 0); same feet and values as the explicit scheme *)
Theorem pol_rigid_rotation_impl :
  forall (F : Type) (K : sp_ops F),
       sp_laws K ->
       forall (E : pol_ev F) (feq : F -> F -> F) (pi_ dt v B0 : F) (nul : bool) (rPts qPts : list F) (phi pol : pol_spl F) (omega : F),
       speqb K B0 (sp0 K) = false ->
       speqb K (pol_twopi F K pi_) (sp0 K) = false ->
       rPts <> [] ->
       (forall j : nat,
        (j < pol_nr F rPts)%nat ->
        speqb K (nth j rPts (sp0 K)) (sp0 K) = false /\ pol_inside F K (hd (sp0 K) rPts) (last rPts (sp0 K)) (nth j rPts (sp0 K)) = true) ->
       forall D1 D2 : list (list F),
       pol_cross F E rPts qPts phi 0 1 = SpOk D1 ->
       pol_cross F E rPts qPts phi 1 0 = SpOk D2 ->
       pol_grid_ok F rPts qPts D1 = true ->
       pol_grid_ok F rPts qPts D2 = true ->
       (forall i j : nat, (i < pol_nq F qPts)%nat -> (j < pol_nr F rPts)%nat -> pol_at F K D1 i j = spmul K omega (nth j rPts (sp0 K))) ->
       (forall i j : nat, (i < pol_nq F qPts)%nat -> (j < pol_nr F rPts)%nat -> pol_at F K D2 i j = sp0 K) ->
       (forall i j : nat,
        (i < pol_nq F qPts)%nat ->
        (j < pol_nr F rPts)%nat ->
        pol_scalar F E phi (pol_modv F K (spsub K (nth i qPts (sp0 K)) (spmul K omega (spdiv K dt B0))) (pol_twopi F K pi_)) (nth j rPts (sp0 K)) 0 1 =
        SpOk (spmul K omega (nth j rPts (sp0 K))) /\
        pol_scalar F E phi (pol_modv F K (spsub K (nth i qPts (sp0 K)) (spmul K omega (spdiv K dt B0))) (pol_twopi F K pi_)) (nth j rPts (sp0 K)) 1 0 =
        SpOk (sp0 K)) ->
       forall fv : nat -> nat -> F,
       (forall i j : nat,
        (i < pol_nq F qPts)%nat ->
        (j < pol_nr F rPts)%nat ->
        pol_scalar F E pol
          (pol_modv F K (pol_modv F K (spsub K (nth i qPts (sp0 K)) (spmul K omega (spdiv K dt B0))) (pol_twopi F K pi_)) (pol_twopi F K pi_))
          (nth j rPts (sp0 K)) 0 0 = SpOk (fv i j)) ->
       forall tol : F,
       sp_le K (sp0 K) tol ->
       sp_le K (sp0 K) pi_ ->
       forall fuel : nat,
       pol_step_impl F K E feq pi_ dt v B0 nul rPts qPts phi pol tol (S fuel) =
       PolRet (SpOk (pol_rigid_result F K pi_ dt B0 rPts qPts omega fv, 1%nat)).
Proof. exact (@pol_rigid_impl). Qed.
Print Assumptions pol_rigid_rotation_impl.

(** const_phi_id with its hypotheses discharged (explicit): constant coefficients of phi, nodes in [0,2 pi) x [rPts[0],rMax], phi evaluable at the nodes, and the spline of f interpolates f at the nodes => f unchanged, feet = nodes *)
Theorem pol_const_phi_id_expl_full_thm :
  forall (F : Type) (K : sp_ops F),
       sp_laws K ->
       forall (cu : bool) (feq : F -> F -> F) (pi_ dt v B0 : F) (nul : bool) (rPts qPts : list F) (phi pol : pol_spl F) (c : F),
       sp_trunc_ok F K ->
       speqb K B0 (sp0 K) = false ->
       sp_lt K (sp0 K) pi_ ->
       rPts <> [] ->
       (forall j : nat,
        (j < pol_nr F rPts)%nat ->
        speqb K (nth j rPts (sp0 K)) (sp0 K) = false /\ pol_inside F K (hd (sp0 K) rPts) (last rPts (sp0 K)) (nth j rPts (sp0 K)) = true) ->
       (forall i : nat, (i < pol_nq F qPts)%nat -> sp_le K (sp0 K) (nth i qPts (sp0 K)) /\ sp_lt K (nth i qPts (sp0 K)) (pol_twopi F K pi_)) ->
       pol_const_coeffs F K (ps_c phi) c ->
       forall D1 D2 : list (list F),
       pol_cross F (pol_dispatch F K cu) rPts qPts phi 0 1 = SpOk D1 ->
       pol_cross F (pol_dispatch F K cu) rPts qPts phi 1 0 = SpOk D2 ->
       forall fv : nat -> nat -> F,
       (forall i j : nat,
        (i < pol_nq F qPts)%nat ->
        (j < pol_nr F rPts)%nat -> pol_scalar F (pol_dispatch F K cu) pol (nth i qPts (sp0 K)) (nth j rPts (sp0 K)) 0 0 = SpOk (fv i j)) ->
       pol_step_expl F K (pol_dispatch F K cu) feq pi_ dt v B0 nul rPts qPts phi pol = SpOk (pol_nodes_result F K rPts qPts fv).
Proof. exact (@pol_const_phi_id_expl_full). Qed.
Print Assumptions pol_const_phi_id_expl_full_thm.

(** the same for the implicit scheme; the loop makes exactly one sweep *)
Theorem pol_const_phi_id_impl_full_thm :
  forall (F : Type) (K : sp_ops F),
       sp_laws K ->
       forall (cu : bool) (feq : F -> F -> F) (pi_ dt v B0 : F) (nul : bool) (rPts qPts : list F) (phi pol : pol_spl F) (c : F),
       sp_trunc_ok F K ->
       speqb K B0 (sp0 K) = false ->
       sp_lt K (sp0 K) pi_ ->
       rPts <> [] ->
       (forall j : nat,
        (j < pol_nr F rPts)%nat ->
        speqb K (nth j rPts (sp0 K)) (sp0 K) = false /\ pol_inside F K (hd (sp0 K) rPts) (last rPts (sp0 K)) (nth j rPts (sp0 K)) = true) ->
       (forall i : nat, (i < pol_nq F qPts)%nat -> sp_le K (sp0 K) (nth i qPts (sp0 K)) /\ sp_lt K (nth i qPts (sp0 K)) (pol_twopi F K pi_)) ->
       pol_const_coeffs F K (ps_c phi) c ->
       forall D1 D2 : list (list F),
       pol_cross F (pol_dispatch F K cu) rPts qPts phi 0 1 = SpOk D1 ->
       pol_cross F (pol_dispatch F K cu) rPts qPts phi 1 0 = SpOk D2 ->
       forall fv : nat -> nat -> F,
       (forall i j : nat,
        (i < pol_nq F qPts)%nat ->
        (j < pol_nr F rPts)%nat -> pol_scalar F (pol_dispatch F K cu) pol (nth i qPts (sp0 K)) (nth j rPts (sp0 K)) 0 0 = SpOk (fv i j)) ->
       forall (tol : F) (fuel : nat),
       sp_le K (sp0 K) tol ->
       pol_step_impl F K (pol_dispatch F K cu) feq pi_ dt v B0 nul rPts qPts phi pol tol (S fuel) =
       PolRet (SpOk (pol_nodes_result F K rPts qPts fv, 1%nat)).
Proof. exact (@pol_const_phi_id_impl_full). Qed.
Print Assumptions pol_const_phi_id_impl_full_thm.

(** interpolate-then-advect (PoloidalAdvection.step = compute_interpolant + kernel), constant potential, explicit scheme: composed with C08 ip_interp2d_exact, the nodal values fg are returned unchanged *)
Theorem pol_interp_then_advect_const_expl :
  forall (F : Type) (K : sp_ops F),
       sp_laws K ->
       forall (cu : bool) (feq : F -> F -> F) (pi_ dt v B0 : F) (nul : bool) (rPts qPts : list F) (phi : pol_spl F) (c : F) 
         (kq : list F) (dq : nat) (kr : list F) (dr : nat) (fg w : list (list F)),
       sp_trunc_ok F K ->
       speqb K B0 (sp0 K) = false ->
       sp_lt K (sp0 K) pi_ ->
       rPts <> [] ->
       (forall j : nat,
        (j < pol_nr F rPts)%nat ->
        speqb K (nth j rPts (sp0 K)) (sp0 K) = false /\ pol_inside F K (hd (sp0 K) rPts) (last rPts (sp0 K)) (nth j rPts (sp0 K)) = true) ->
       (forall i : nat, (i < pol_nq F qPts)%nat -> sp_le K (sp0 K) (nth i qPts (sp0 K)) /\ sp_lt K (nth i qPts (sp0 K)) (pol_twopi F K pi_)) ->
       pol_const_coeffs F K (ps_c phi) c ->
       forall D1 D2 : list (list F),
       pol_cross F (pol_dispatch F K cu) rPts qPts phi 0 1 = SpOk D1 ->
       pol_cross F (pol_dispatch F K cu) rPts qPts phi 1 0 = SpOk D2 ->
       ip_interp2d F K kq dq true qPts kr dr false rPts cu fg = SpOk w ->
       ip_spans_in_range F K kq dq true cu qPts ->
       ip_spans_in_range F K kr dr false cu rPts ->
       pol_nq F qPts = ip_nbasis F K kq dq true cu ->
       pol_nr F rPts = ip_nbasis F K kr dr false cu ->
       pol_step_expl F K (pol_dispatch F K cu) feq pi_ dt v B0 nul rPts qPts phi {| ps_k1 := kq; ps_d1 := dq; ps_k2 := kr; ps_d2 := dr; ps_c := w |} =
       SpOk (pol_fgrid_result F K rPts qPts fg).
Proof. exact (@pol_interp_advect_const_expl). Qed.
Print Assumptions pol_interp_then_advect_const_expl.

(** the same for the implicit scheme *)
Theorem pol_interp_then_advect_const_impl :
  forall (F : Type) (K : sp_ops F),
       sp_laws K ->
       forall (cu : bool) (feq : F -> F -> F) (pi_ dt v B0 : F) (nul : bool) (rPts qPts : list F) (phi : pol_spl F) (c : F) 
         (kq : list F) (dq : nat) (kr : list F) (dr : nat) (fg w : list (list F)),
       sp_trunc_ok F K ->
       speqb K B0 (sp0 K) = false ->
       sp_lt K (sp0 K) pi_ ->
       rPts <> [] ->
       (forall j : nat,
        (j < pol_nr F rPts)%nat ->
        speqb K (nth j rPts (sp0 K)) (sp0 K) = false /\ pol_inside F K (hd (sp0 K) rPts) (last rPts (sp0 K)) (nth j rPts (sp0 K)) = true) ->
       (forall i : nat, (i < pol_nq F qPts)%nat -> sp_le K (sp0 K) (nth i qPts (sp0 K)) /\ sp_lt K (nth i qPts (sp0 K)) (pol_twopi F K pi_)) ->
       pol_const_coeffs F K (ps_c phi) c ->
       forall D1 D2 : list (list F),
       pol_cross F (pol_dispatch F K cu) rPts qPts phi 0 1 = SpOk D1 ->
       pol_cross F (pol_dispatch F K cu) rPts qPts phi 1 0 = SpOk D2 ->
       ip_interp2d F K kq dq true qPts kr dr false rPts cu fg = SpOk w ->
       ip_spans_in_range F K kq dq true cu qPts ->
       ip_spans_in_range F K kr dr false cu rPts ->
       pol_nq F qPts = ip_nbasis F K kq dq true cu ->
       pol_nr F rPts = ip_nbasis F K kr dr false cu ->
       forall (tol : F) (fuel : nat),
       sp_le K (sp0 K) tol ->
       pol_step_impl F K (pol_dispatch F K cu) feq pi_ dt v B0 nul rPts qPts phi {| ps_k1 := kq; ps_d1 := dq; ps_k2 := kr; ps_d2 := dr; ps_c := w |}
         tol (S fuel) = PolRet (SpOk (pol_fgrid_result F K rPts qPts fg, 1%nat)).
Proof. exact (@pol_interp_advect_const_impl). Qed.
Print Assumptions pol_interp_then_advect_const_impl.

(** the executed int() is floor on non-negative rationals *)
Theorem pol_trunc_ok_executed :
  sp_trunc_ok Qc spq_ops.
Proof. exact (@polq_trunc_ok). Qed.
Print Assumptions pol_trunc_ok_executed.

(** mod_2pi_range, unconditional at the executed instance *)
Theorem pol_mod_2pi_range_executed :
  forall x m : Qc, Q2Qc 0 < m -> exists y : Qc, polq_mod x m = SpOk y /\ Q2Qc 0 <= y /\ y < m.
Proof. exact (@polq_mod_range). Qed.
Print Assumptions pol_mod_2pi_range_executed.


(* ------------------------------------------------------------------------------------------ *)
(** * third part: omega r^2/2 from its coefficients (PolAdvQuad.v, on MarsdenTheory.v of C08) *)

(** Marsden-type identity for the derivative routine: on every non-empty span, with the coefficients xi_j^(2) of x^2 (degree p = S p' >= 2), sum_j xi_j * nu_basis_funs_1st_der(x)[j] = 2x for every x (summation by parts + Marsden at degree p-1) *)
Theorem pol_square_derivative_identity :
  forall (F : Type) (K : sp_ops F),
       sp_laws K ->
       forall (knots : list F) (s p' : nat),
       sp_sorted F K knots ->
       sp_span_ok F K knots s ->
       (S p' <= s)%nat ->
       (1 <= p')%nat ->
       forall x : F,
       sumr F (sp0 K) (spadd K) 0 (S (S p'))
         (fun j : nat => spmul K (ip_mono_coeff F K knots (S p') 2 (s - S p' + j)) (nth j (sp_ders_raw F K knots (S p') x s) (sp0 K))) = 
       spadd K x x.
Proof. exact (@pol_quad_deriv). Qed.
Print Assumptions pol_square_derivative_identity.

(** phi = omega r^2/2 in a general spline space (every theta row of the coefficient array = (omega/2) xi^(2), theta degree >= 1, radial degree >= 2): on the closed domain the (0,1) evaluation returns omega*r and the (1,0) evaluation returns 0 *)
Theorem pol_quad_potential_derivatives :
  forall (F : Type) (K : sp_ops F),
       sp_laws K ->
       forall (kq : list F) (dq : nat) (kr : list F) (dr' : nat) (omega : F) (c : list (list F)),
       pol_space_ok F K kq dq ->
       pol_space_ok F K kr (S dr') ->
       (1 <= dq)%nat ->
       (1 <= dr')%nat ->
       pol_quad_coeffs F K kq dq kr (S dr') omega c ->
       forall x y : F,
       pol_in_dom F K kq dq x ->
       pol_in_dom F K kr (S dr') y ->
       sp_nu_eval_2d_scalar F K x y kq dq kr (S dr') c 0 1 = SpOk (spmul K omega y) /\
       sp_nu_eval_2d_scalar F K x y kq dq kr (S dr') c 1 0 = SpOk (sp0 K).
Proof. exact (@pol_quad_scalar). Qed.
Print Assumptions pol_quad_potential_derivatives.

(** rigid rotation from the coefficient condition, explicit scheme, general path: feet (theta_i - omega dt/B0 mod 2 pi, r_j), f = spline of f there; no hypothesis on the evaluator is left *)
Theorem pol_rigid_rotation_expl_from_coeffs :
  forall (F : Type) (K : sp_ops F),
       sp_laws K ->
       forall (feq : F -> F -> F) (pi_ dt v B0 : F) (nul : bool) (rPts qPts kq : list F) (dq : nat) (kr : list F) (dr' : nat) 
         (cphi : list (list F)) (pol : pol_spl F) (omega : F),
       sp_trunc_ok F K ->
       speqb K B0 (sp0 K) = false ->
       sp_lt K (sp0 K) pi_ ->
       rPts <> [] ->
       (forall j : nat,
        (j < pol_nr F rPts)%nat ->
        speqb K (nth j rPts (sp0 K)) (sp0 K) = false /\ pol_inside F K (hd (sp0 K) rPts) (last rPts (sp0 K)) (nth j rPts (sp0 K)) = true) ->
       pol_space_ok F K kq dq ->
       pol_space_ok F K kr (S dr') ->
       (1 <= dq)%nat ->
       (1 <= dr')%nat ->
       sp_kn F K kq dq = sp0 K ->
       sp_kn F K kq (length kq - 1 - dq) = pol_twopi F K pi_ ->
       (forall i : nat, (i < pol_nq F qPts)%nat -> pol_in_dom F K kq dq (nth i qPts (sp0 K))) ->
       (forall j : nat, (j < pol_nr F rPts)%nat -> pol_in_dom F K kr (S dr') (nth j rPts (sp0 K))) ->
       pol_quad_coeffs F K kq dq kr (S dr') omega cphi ->
       forall fv : nat -> nat -> F,
       (forall i j : nat,
        (i < pol_nq F qPts)%nat ->
        (j < pol_nr F rPts)%nat ->
        pol_scalar F (pol_nu_ev F K) pol
          (pol_modv F K (pol_modv F K (spsub K (nth i qPts (sp0 K)) (spmul K omega (spdiv K dt B0))) (pol_twopi F K pi_)) (pol_twopi F K pi_))
          (nth j rPts (sp0 K)) 0 0 = SpOk (fv i j)) ->
       pol_step_expl F K (pol_nu_ev F K) feq pi_ dt v B0 nul rPts qPts {| ps_k1 := kq; ps_d1 := dq; ps_k2 := kr; ps_d2 := S dr'; ps_c := cphi |} pol =
       SpOk (pol_rigid_result F K pi_ dt B0 rPts qPts omega fv).
Proof. exact (@pol_rigid_expl_from_coeffs). Qed.
Print Assumptions pol_rigid_rotation_expl_from_coeffs.

(** the same for the implicit scheme: one sweep *)
Theorem pol_rigid_rotation_impl_from_coeffs :
  forall (F : Type) (K : sp_ops F),
       sp_laws K ->
       forall (feq : F -> F -> F) (pi_ dt v B0 : F) (nul : bool) (rPts qPts kq : list F) (dq : nat) (kr : list F) (dr' : nat) 
         (cphi : list (list F)) (pol : pol_spl F) (omega : F),
       sp_trunc_ok F K ->
       speqb K B0 (sp0 K) = false ->
       sp_lt K (sp0 K) pi_ ->
       rPts <> [] ->
       (forall j : nat,
        (j < pol_nr F rPts)%nat ->
        speqb K (nth j rPts (sp0 K)) (sp0 K) = false /\ pol_inside F K (hd (sp0 K) rPts) (last rPts (sp0 K)) (nth j rPts (sp0 K)) = true) ->
       pol_space_ok F K kq dq ->
       pol_space_ok F K kr (S dr') ->
       (1 <= dq)%nat ->
       (1 <= dr')%nat ->
       sp_kn F K kq dq = sp0 K ->
       sp_kn F K kq (length kq - 1 - dq) = pol_twopi F K pi_ ->
       (forall i : nat, (i < pol_nq F qPts)%nat -> pol_in_dom F K kq dq (nth i qPts (sp0 K))) ->
       (forall j : nat, (j < pol_nr F rPts)%nat -> pol_in_dom F K kr (S dr') (nth j rPts (sp0 K))) ->
       pol_quad_coeffs F K kq dq kr (S dr') omega cphi ->
       forall fv : nat -> nat -> F,
       (forall i j : nat,
        (i < pol_nq F qPts)%nat ->
        (j < pol_nr F rPts)%nat ->
        pol_scalar F (pol_nu_ev F K) pol
          (pol_modv F K (pol_modv F K (spsub K (nth i qPts (sp0 K)) (spmul K omega (spdiv K dt B0))) (pol_twopi F K pi_)) (pol_twopi F K pi_))
          (nth j rPts (sp0 K)) 0 0 = SpOk (fv i j)) ->
       forall (tol : F) (fuel : nat),
       sp_le K (sp0 K) tol ->
       pol_step_impl F K (pol_nu_ev F K) feq pi_ dt v B0 nul rPts qPts {| ps_k1 := kq; ps_d1 := dq; ps_k2 := kr; ps_d2 := S dr'; ps_c := cphi |} pol
         tol (S fuel) = PolRet (SpOk (pol_rigid_result F K pi_ dt B0 rPts qPts omega fv, 1%nat)).
Proof. exact (@pol_rigid_impl_from_coeffs). Qed.
Print Assumptions pol_rigid_rotation_impl_from_coeffs.

(* ------------------------------------------------------------------------------------------ *)
(** non-vacuity: the executed instance on small inputs (degree-1 spaces, pi := 3, one theta node 3/2,
    radial nodes 1 and 2).  Entries are (new f, (foot theta, foot r)) as (numerator, denominator). *)
Definition c12_pol := PolSpl (map polq_w_q [-3; 0; 3; 6; 9]%Z) 1 (map polq_w_q [1; 1; 2; 2]%Z) 1
  [map polq_w_q [1; 2]%Z; map polq_w_q [3; 4]%Z; map polq_w_q [1; 2]%Z].
Definition c12_const_phi := PolSpl (map polq_w_q [-3; 0; 3; 6; 9]%Z) 1 (map polq_w_q [1; 1; 2; 2]%Z) 1
  [map polq_w_q [5; 5]%Z; map polq_w_q [5; 5]%Z; map polq_w_q [5; 5]%Z].

Example c12_expl_runs :
  polq_show_expl (pol_step_expl Qc spq_ops polq_w_E (fun r _ => r) (polq_w_q 3) (spq_of 1 4) (polq_w_q 0) (polq_w_q 1) false
                    polq_w_rPts polq_w_qPts polq_w_phi c12_pol)
  = SpOk [[((13%Z, 6%positive), (3%Z, 2%positive), (7%Z, 6%positive));
           ((8%Z, 3%positive), (3%Z, 2%positive), (5%Z, 3%positive))]].
Proof. vm_compute. reflexivity. Qed.

Example c12_const_phi_one_sweep :
  polq_show_impl (pol_step_impl Qc spq_ops polq_w_E (fun r _ => r) (polq_w_q 3) (spq_of 1 4) (polq_w_q 0) (polq_w_q 1) false
                    polq_w_rPts polq_w_qPts c12_const_phi c12_pol (polq_w_q 0) 5)
  = PolRet (SpOk ([[((2%Z, 1%positive), (3%Z, 2%positive), (1%Z, 1%positive));
                    ((3%Z, 1%positive), (3%Z, 2%positive), (2%Z, 1%positive))]], 1%nat)).
Proof. vm_compute. reflexivity. Qed.

Example c12_impl_converges :
  polq_show_impl (pol_step_impl Qc spq_ops polq_w_E (fun r _ => r) (polq_w_q 3) (spq_of 1 64) (polq_w_q 0) (polq_w_q 1) false
                    polq_w_rPts polq_w_qPts polq_w_phi c12_pol (spq_of 1 100) 9)
  = PolRet (SpOk ([[((2143%Z, 1056%positive), (3%Z, 2%positive), (1087%Z, 1056%positive));
                    ((2993%Z, 1008%positive), (3%Z, 2%positive), (1985%Z, 1008%positive))]], 1%nat)).
Proof. vm_compute. reflexivity. Qed.

Example c12_witness_out_of_fuel : polq_w_step 40 = PolOutOfFuel.
Proof. vm_compute. reflexivity. Qed.

Example c12_mod_negative : spq_show_res (polq_mod (spq_of (-7) 2) (polq_w_q 3)) = SpOk (5%Z, 2%positive).
Proof. vm_compute. reflexivity. Qed.

(** rigid rotation at the executed instance: theta degree 1 on [0,6] (pi := 3), r degree 2 on breaks 1,2,3;
    the radial coefficients of x^2 are 1,2,6,9, so omega = 2; dt/B0 = 1/2: rotation by 1.  Feet theta = 3/2 - 1 and
    0 - 1 mod 6, r unchanged; the implicit loop makes one sweep *)
Definition c12_kr := map polq_w_q [1; 1; 1; 2; 3; 3; 3]%Z.
Example c12_square_coeffs : map (fun j => spq_show (ip_mono_coeff Qc spq_ops c12_kr 2 2 j)) [0; 1; 2; 3]%nat
  = [(1%Z, 1%positive); (2%Z, 1%positive); (6%Z, 1%positive); (9%Z, 1%positive)].
Proof. vm_compute. reflexivity. Qed.
Definition c12_qphi := PolSpl (map polq_w_q [-3; 0; 3; 6; 9]%Z) 1 c12_kr 2
  [map polq_w_q [1; 2; 6; 9]%Z; map polq_w_q [1; 2; 6; 9]%Z; map polq_w_q [1; 2; 6; 9]%Z].
Definition c12_qpol := PolSpl (map polq_w_q [-3; 0; 3; 6; 9]%Z) 1 c12_kr 2
  [map polq_w_q [1; 2; 3; 4]%Z; map polq_w_q [5; 6; 7; 8]%Z; map polq_w_q [1; 2; 3; 4]%Z].
Definition c12_rigid_expected :=
  [[((5%Z, 3%positive), (1%Z, 2%positive), (1%Z, 1%positive)); ((19%Z, 6%positive), (1%Z, 2%positive), (2%Z, 1%positive));
    ((14%Z, 3%positive), (1%Z, 2%positive), (3%Z, 1%positive))];
   [((7%Z, 3%positive), (5%Z, 1%positive), (1%Z, 1%positive)); ((23%Z, 6%positive), (5%Z, 1%positive), (2%Z, 1%positive));
    ((16%Z, 3%positive), (5%Z, 1%positive), (3%Z, 1%positive))]].
Example c12_rigid_expl :
  polq_show_expl (pol_step_expl Qc spq_ops (pol_nu_ev Qc spq_ops) (fun r _ => r) (polq_w_q 3) (spq_of 1 2) (polq_w_q 0) (polq_w_q 1) false
                    (map polq_w_q [1; 2; 3]%Z) [spq_of 3 2; polq_w_q 0] c12_qphi c12_qpol) = SpOk c12_rigid_expected.
Proof. vm_compute. reflexivity. Qed.
Example c12_rigid_impl_one_sweep :
  polq_show_impl (pol_step_impl Qc spq_ops (pol_nu_ev Qc spq_ops) (fun r _ => r) (polq_w_q 3) (spq_of 1 2) (polq_w_q 0) (polq_w_q 1) false
                    (map polq_w_q [1; 2; 3]%Z) [spq_of 3 2; polq_w_q 0] c12_qphi c12_qpol (polq_w_q 0) 4)
  = PolRet (SpOk (c12_rigid_expected, 1%nat)).
Proof. vm_compute. reflexivity. Qed.

(** the executed instance satisfies the laws used above *)
Example c12_laws_hold : sp_laws spq_ops.
Proof. exact spq_laws. Qed.
