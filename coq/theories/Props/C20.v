(** C20 — process-grid selection returns a valid factorisation or reports that none exists.
    Only statements, [exact]s and [Print Assumptions]; proofs live in ProcGrid.v, Blocks.v, Layouts.v. *)
From Coq Require Import ZArith Lia List.
Import ListNotations.
From PGV Require Import Blocks Layouts ProcGrid.
Open Scope Z_scope.

(** the search always terminates (never out of fuel), a result is a factorisation within both
    maxima, and the error is raised exactly when no such factorisation exists — for the exact
    reading of the ratio test, all mpi, max_proc1, max_proc2 >= 1 *)
Theorem pg_exact_spec : forall mpi m1 m2, 1 <= mpi -> 1 <= m1 -> 1 <= m2 ->
  match compute_exact mpi m1 m2 with
  | Ok a b => a * b = mpi /\ 1 <= a <= m1 /\ 1 <= b <= m2
  | Err => forall a b, ~ (a * b = mpi /\ 1 <= a <= m1 /\ 1 <= b <= m2)
  | OOF => False
  end.
Proof. exact compute_exact_spec. Qed.
Print Assumptions pg_exact_spec.

(** the same for the binary64 reading of the ratio test that Python executes, given that the
    float comparison never prefers the non-divisor candidate [max_proc1] (established per
    instance by the harness, see DESIGN.md C20) *)
Theorem pg_float_spec : forall mpi m1 m2, 1 <= mpi -> 1 <= m1 -> 1 <= m2 ->
  (forall new1 n1 n2, validpair mpi m1 m2 n1 n2 -> n1 < new1 <= lim mpi m1 ->
     divides mpi new1 = false -> m1 <= new1 -> better_float m1 m2 new1 (mpi / new1) n1 n2 = false) ->
  match compute_float mpi m1 m2 with
  | Ok a b => validpair mpi m1 m2 a b
  | Err => forall a b, ~ validpair mpi m1 m2 a b
  | OOF => False
  end.
Proof. exact compute_float_spec. Qed.
Print Assumptions pg_float_spec.

(** whatever comparison is used, the search terminates and an [Ok] keeps n1*n2 = mpi within the
    maxima as soon as the comparison rejects non-divisors; the first phase alone decides [Err] *)
Theorem pg_generic_spec : forall mpi m1 m2 better, 1 <= mpi -> 1 <= m1 -> 1 <= m2 ->
  (forall new1 n1 n2, validpair mpi m1 m2 n1 n2 -> n1 < new1 <= lim mpi m1 ->
     divides mpi new1 = false -> m1 <= new1 -> better new1 (mpi / new1) n1 n2 = false) ->
  match compute mpi m1 m2 better with
  | Ok a b => validpair mpi m1 m2 a b
  | Err => forall a b, ~ validpair mpi m1 m2 a b
  | OOF => False
  end.
Proof. intros; apply compute_spec; assumption. Qed.
Print Assumptions pg_generic_spec.

Close Scope Z_scope.

(** a valid grid gives every process at least one point in every distributed dimension of the
    three standard layouts: n1 <= min(npts0, npts3), n2 <= min(npts2, npts3) *)
Theorem pg_blocks_nonempty : forall n p k, 0 < p -> p <= n -> 1 <= blen n p k.
Proof. exact blen_pos. Qed.
Print Assumptions pg_blocks_nonempty.

(** and the standard layouts are connected on every grid: flux_surface - v_parallel - poloidal *)
Theorem pg_layouts_connected : forall a b,
  compatible [a; b] flux_surface v_parallel = true /\ compatible [a; b] v_parallel poloidal = true.
Proof. exact std_layouts_chain. Qed.
Print Assumptions pg_layouts_connected.

(** non-vacuity: 12 processes on maxima (5, 4) *)
Example pg_example : compute_exact 12 5 4 = Ok 4 3 /\ compute_float 12 5 4 = Ok 4 3
                     /\ compute_exact 7 2 2 = Err.
Proof. vm_compute. repeat split. Qed.
