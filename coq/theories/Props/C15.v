(** C15 - quasi-neutrality pipeline: exact FFT round trip, real potential, equilibrium.
    Only statements, [exact]s and [Print Assumptions]; proofs in QnModes.v (integer bookkeeping of
    DiffEqSolver / QuasiNeutralitySolver: fftfreq order, squares, per-mode slices, choice of the m = 0 matrix,
    chi) and QnPipeline.v (the pipeline density -> modes -> per-mode solve -> inverse over an abstract field
    with complex numbers as pairs).

    The pipeline theorems come in two forms.  (i) For ANY transform pair satisfying [qn_dft_laws]
    (extensionality, idft o dft = id, linearity, conjugate symmetry of the transform of a real line, real
    inverse transform of a conjugate-symmetric line) - the laws are hypotheses; this is the form scipy's
    fft/ifft is checked against, vector by vector, by the harness.  (ii) For the mathematical DFT
    sum_j x_j w^(jk) over the complex pairs of any field in which a^2+b^2=0 forces a=b=0, w a primitive n-th
    root of unity of modulus 1: the laws are PROVED (DftTheory.v: geometric sum, orthogonality, both round
    trips, linearity, Hermitian symmetry, real inverse; DftPairs.v: the pairs form a field, [c15_dft_laws])
    and the pipeline theorems carry no hypothesis on the transform ([c15_dft_...]); instances over the
    Gaussian rationals for n = 1, 2, 4.  The per-mode radial solve stays abstract ([qn_solve_laws]:
    extensionality, homogeneity, commutation with conjugation are hypotheses; C14's subject).
    QnSolveBuf.v models the SHARED coefficient buffer of solveEquation / _solveMode as a fold over modes and
    z slices: the sequence of solves equals the list of independent solves for every initial buffer content.

    NOT proved here:
    - that scipy's fft/ifft IS the mathematical DFT (checked per transformed vector against the dense DFT and the
      laws), and the laws of the spline/sparse-solve chain of _solveMode (hypotheses; C14's subject);
    - that compute_interpolant overwrites the whole coefficient array of the interpolant (C08), so that the vector
      assigned to the buffer view depends on the mode's line only (the modelling assumption of QnSolveBuf.v);
    - that flux-surface, v-parallel and poloidal advection leave the equilibrium unchanged under zero potential
      (hypotheses of [c15_equilibrium_fixed_point]: C10, C11, C12);
    - that the layout changes preserve the global field (C01 / C03; used as the definition of the distributed
      pipeline in [c15_pipeline_is_per_mode_solve]);
    - floating-point rounding, including that n*(1/n) is not 1 in binary64 for n = 49, 98, 103, ... *)
From Coq Require Import List Arith Lia ZArith Bool QArith Qcanon.
Import ListNotations.
From PGV Require Import Blocks Sums GridSteps Density QnModes QnPipeline DensityQc QnQc DftTheory DftPairs DftQc QnSolveBuf.
Close Scope Q_scope.
Close Scope Qc_scope.
Open Scope nat_scope.

(** the table of mode numbers has one entry per theta point *)
Theorem c15_mvals_length :
  forall n : nat, length (qn_fftfreq n) = n.
Proof. exact qn_fftfreq_length. Qed.
Print Assumptions c15_mvals_length.

(** mvals_spec: numpy's two aranges put mode i at index i while 2i < n and mode i - n afterwards *)
Theorem c15_mvals_spec :
  forall n i : nat, i < n -> nth i (qn_fftfreq n) 0%Z = qn_mode n i.
Proof. exact qn_mvals_spec. Qed.
Print Assumptions c15_mvals_spec.

(** the scaling of fftfreq(n, 1/n), results * (1/(n*(1/n))), is the identity in exact arithmetic (Qc): the table holds the integer mode numbers *)
Theorem c15_fftfreq_scale_exact :
  forall (n : positive) (i : nat), let nq := Q2Qc (inject_Z (Z.pos n)) in (Q2Qc (inject_Z (qn_mode (Pos.to_nat n) i)) * (1 / (nq * (1 / nq))))%Qc = Q2Qc (inject_Z (qn_mode (Pos.to_nat n) i)).
Proof. exact qnq_mvals_scaled. Qed.
Print Assumptions c15_fftfreq_scale_exact.

(** even n = 2h: 0,1,...,h-1,-h,...,-1 *)
Theorem c15_mvals_even :
  forall h i : nat, 0 < h -> i < 2 * h -> nth i (qn_fftfreq (2 * h)) 0%Z = (if i <? h then Z.of_nat i else (Z.of_nat i - Z.of_nat (2 * h))%Z).
Proof. exact qn_mvals_even. Qed.
Print Assumptions c15_mvals_even.

(** odd n = 2h+1: 0,1,...,h,-h,...,-1 *)
Theorem c15_mvals_odd :
  forall h i : nat, i < 2 * h + 1 -> nth i (qn_fftfreq (2 * h + 1)) 0%Z = (if i <=? h then Z.of_nat i else (Z.of_nat i - Z.of_nat (2 * h + 1))%Z).
Proof. exact qn_mvals_odd. Qed.
Print Assumptions c15_mvals_odd.

(** the mode number is the representative of the index modulo n in [-(n/2), (n-1)/2] *)
Theorem c15_mode_range :
  forall n i : nat, i < n -> (- Z.of_nat (n / 2) <= qn_mode n i <= Z.of_nat ((n - 1) / 2))%Z /\ (qn_mode n i = Z.of_nat i \/ qn_mode n i = (Z.of_nat i - Z.of_nat n)%Z).
Proof. exact qn_mode_range. Qed.
Print Assumptions c15_mode_range.

(** the test _mVals[I] == 0 on the squared values selects exactly global index 0 *)
Theorem c15_msq_zero_iff :
  forall n i : nat, i < n -> nth i (qn_msq n) 0%Z = 0%Z <-> i = 0.
Proof. exact qn_msq_zero_iff. Qed.
Print Assumptions c15_msq_zero_iff.

(** squared mode numbers are never negative *)
Theorem c15_msq_nonneg :
  forall n i : nat, (0 <= nth i (qn_msq n) 0)%Z.
Proof. exact qn_msq_nonneg. Qed.
Print Assumptions c15_msq_nonneg.

(** conjugate indices (n - i) mod n hold the same squared mode number (depends on m^2 only) *)
Theorem c15_msq_conj :
  forall n i : nat, i < n -> nth (qn_conj n i) (qn_msq n) 0%Z = nth i (qn_msq n) 0%Z.
Proof. exact qn_msq_conj. Qed.
Print Assumptions c15_msq_conj.

(** per-mode slices: _stiffness_range (in the stored, range_slice-d matrices) and _coeff_range select the same basis functions, for every Neumann lists and mode value *)
Theorem c15_ranges_consistent :
  forall (nb : Z) (lN uN : list Z) (m : Z), (qn_start_range lN + fst (qn_stiff_range nb lN uN m))%Z = fst (qn_coeff_range nb lN uN m) /\ (qn_start_range lN + snd (qn_stiff_range nb lN uN m))%Z = snd (qn_coeff_range nb lN uN m).
Proof. exact qn_ranges_consistent. Qed.
Print Assumptions c15_ranges_consistent.

(** mode0_range_full, general form: a mode's slice covers all stored unknowns iff the mode is Neumann, or no mode is, at each end *)
Theorem c15_range_full_iff :
  forall (nb : Z) (lN uN : list Z) (m : Z), qn_stiff_range nb lN uN m = (0%Z, qn_nunknowns nb lN uN) <-> (qn_mem m lN = true \/ lN = []) /\ (qn_mem m uN = true \/ uN = []).
Proof. exact qn_range_full_iff. Qed.
Print Assumptions c15_range_full_iff.

(** mode0_range_full: in the configuration QuasiNeutralitySolver hard-codes (lNeumannIdx = [0], no uNeumannIdx) mode 0 is sliced (0, nUnknowns): the UNSLICED _stiffness0 has the unknowns of the mass-matrix rows and coefficient slice used with it *)
Theorem c15_mode0_range_full :
  forall nb : Z, qn_stiff_range nb qn_QN_lN qn_QN_uN 0 = (0%Z, qn_nunknowns nb qn_QN_lN qn_QN_uN) /\ qn_coeff_range nb qn_QN_lN qn_QN_uN 0 = (0%Z, (nb - 1)%Z) /\ qn_nunknowns nb qn_QN_lN qn_QN_uN = (nb - 1)%Z.
Proof. exact qn_mode0_range_full. Qed.
Print Assumptions c15_mode0_range_full.

(** mode0_uses_stiffness0: the matrix choice of solveEquation is _stiffness0 exactly for global mode index 0 *)
Theorem c15_mode0_uses_stiffness0 :
  forall (nb : Z) (lN uN : list Z) (n I : nat), I < n -> qp_sel (qn_param_of nb lN uN (qn_mode n I)) = QnStiff0 <-> I = 0.
Proof. exact qn_mode0_uses_stiffness0. Qed.
Print Assumptions c15_mode0_uses_stiffness0.

(** in the QN configuration conjugate modes are solved with identical parameters *)
Theorem c15_QN_param_conj :
  forall (nb : Z) (n i : nat), i < n -> qn_param_of nb qn_QN_lN qn_QN_uN (qn_mode n (qn_conj n i)) = qn_param_of nb qn_QN_lN qn_QN_uN (qn_mode n i).
Proof. exact qn_QN_param_conj. Qed.
Print Assumptions c15_QN_param_conj.

(** on every rank the loop of solveEquation uses the parameters of the GLOBAL mode index start + i (GlobalTab lookup of GridSteps.op_qn_solve) *)
Theorem c15_param_lookup_global :
  forall (nb : Z) (lN uN : list Z) (n p a i : nat) (d : qn_param), 0 < p -> a < p -> i < blen n p a -> resolve qn_param d GlobalTab (qn_params nb lN uN n) (bstart n p a) (blen n p a) i = qn_param_of nb lN uN (qn_mode n (bstart n p a + i)) /\ In GlobalTab (axis0_lookups op_qn_solve).
Proof. exact qn_param_lookup_global. Qed.
Print Assumptions c15_param_lookup_global.

(** zero density => zero potential (from linearity of the three stages) *)
Theorem c15_zero_density_zero_potential :
  forall (F : Type) (f0 f1 : F) (fadd fmul fsub fdiv : F -> F -> F) (fopp finv : F -> F), field_theory f0 f1 fadd fmul fsub fopp fdiv finv eq -> forall (nth_ nr : nat) (dft idft : qn_vec F -> qn_vec F) (P : Type) (solveP : P -> qn_vec F -> qn_vec F) (ptab : list P) (dP : P), qn_dft_laws F f0 fadd fmul fopp nth_ dft idft -> qn_solve_laws F fmul fopp nr P solveP -> forall rho : qn_fld F, (forall r k : nat, r < nr -> k < nth_ -> rho r k = qn_c0 F f0) -> forall r k : nat, r < nr -> k < nth_ -> qn_phi F dft idft P solveP ptab dP rho r k = qn_c0 F f0.
Proof. exact qn_zero_density_zero_potential. Qed.
Print Assumptions c15_zero_density_zero_potential.

(** equilibrium_phi_zero: a distribution equal to the equilibrium table has zero potential (with C16 rho_equilibrium_zero) *)
Theorem c15_equilibrium_phi_zero :
  forall (F : Type) (f0 f1 : F) (fadd fmul fsub fdiv : F -> F -> F) (fopp finv : F -> F), field_theory f0 f1 fadd fmul fsub fopp fdiv finv eq -> forall (nth_ nr : nat) (dft idft : qn_vec F -> qn_vec F) (P : Type) (solveP : P -> qn_vec F -> qn_vec F) (ptab : list P) (dP : P), qn_dft_laws F f0 fadd fmul fopp nth_ dft idft -> qn_solve_laws F fmul fopp nr P solveP -> forall (nc : nat) (qf : nat -> F) (f : nat -> nat -> nat -> F) (feq : nat -> nat -> F), (forall r k l : nat, r < nr -> k < nth_ -> l < nc -> f r k l = feq r l) -> forall r k : nat, r < nr -> k < nth_ -> qn_phi F dft idft P solveP ptab dP (qn_density F f0 fadd fmul fsub nc qf f feq) r k = qn_c0 F f0.
Proof. exact qn_equilibrium_phi_zero. Qed.
Print Assumptions c15_equilibrium_phi_zero.

(** real_in_real_out: real density => real potential, when conjugate modes share their parameters *)
Theorem c15_real_in_real_out :
  forall (F : Type) (f0 : F) (fadd fmul : F -> F -> F) (fopp : F -> F) (nth_ nr : nat) (dft idft : qn_vec F -> qn_vec F) (P : Type) (solveP : P -> qn_vec F -> qn_vec F) (ptab : list P) (dP : P), qn_dft_laws F f0 fadd fmul fopp nth_ dft idft -> qn_solve_laws F fmul fopp nr P solveP -> forall rho : qn_fld F, (forall I : nat, I < nth_ -> qn_par P ptab dP (qn_conj nth_ I) = qn_par P ptab dP I) -> (forall r k : nat, r < nr -> k < nth_ -> qn_is_real F f0 (rho r k)) -> forall r k : nat, r < nr -> k < nth_ -> qn_is_real F f0 (qn_phi F dft idft P solveP ptab dP rho r k).
Proof. exact qn_real_in_real_out. Qed.
Print Assumptions c15_real_in_real_out.

(** real_in_real_out for the model's parameters in the QN configuration (hypothesis on parameters discharged) *)
Theorem c15_QN_real_in_real_out :
  forall (F : Type) (f0 : F), F -> forall fadd fmul : F -> F -> F, (F -> F -> F) -> (F -> F -> F) -> forall fopp : F -> F, (F -> F) -> forall (nth_ nr : nat) (dft idft : qn_vec F -> qn_vec F) (solveP : qn_param -> qn_vec F -> qn_vec F) (nb : Z) (d : qn_param), qn_dft_laws F f0 fadd fmul fopp nth_ dft idft -> qn_solve_laws F fmul fopp nr qn_param solveP -> forall rho : qn_fld F, (forall r k : nat, r < nr -> k < nth_ -> qn_is_real F f0 (rho r k)) -> forall r k : nat, r < nr -> k < nth_ -> qn_is_real F f0 (qn_phi F dft idft qn_param solveP (qn_params nb qn_QN_lN qn_QN_uN nth_) d rho r k).
Proof. exact qn_QN_real_in_real_out. Qed.
Print Assumptions c15_QN_real_in_real_out.

(** pipeline_is_per_mode_solve: getModes / findPotential on blocks of r, solveEquation on blocks of theta with parameters looked up by global index, assembled over any number of processes = the global per-mode pipeline *)
Theorem c15_pipeline_is_per_mode_solve :
  forall (F : Type) (f0 : F) (fadd fmul : F -> F -> F) (fopp : F -> F) (nth_ nr : nat) (dft idft : qn_vec F -> qn_vec F) (P : Type) (solveP : P -> qn_vec F -> qn_vec F) (ptab : list P) (dP : P) (p : nat), 0 < p -> forall rho : qn_fld F, qn_dft_laws F f0 fadd fmul fopp nth_ dft idft -> qn_solve_laws F fmul fopp nr P solveP -> forall r k : nat, r < nr -> k < nth_ -> qn_phiD F nth_ nr dft idft P solveP ptab dP p rho r k = qn_phi F dft idft P solveP ptab dP rho r k.
Proof. exact qn_pipeline_is_per_mode_solve. Qed.
Print Assumptions c15_pipeline_is_per_mode_solve.

(** hence two process counts give the same potential *)
Theorem c15_pipeline_decomposition_free :
  forall (F : Type) (f0 : F) (fadd fmul : F -> F -> F) (fopp : F -> F) (nth_ nr : nat) (dft idft : qn_vec F -> qn_vec F) (P : Type) (solveP : P -> qn_vec F -> qn_vec F) (ptab : list P) (dP : P), qn_dft_laws F f0 fadd fmul fopp nth_ dft idft -> qn_solve_laws F fmul fopp nr P solveP -> forall (p q : nat) (rho : qn_fld F), 0 < p -> 0 < q -> forall r k : nat, r < nr -> k < nth_ -> qn_phiD F nth_ nr dft idft P solveP ptab dP p rho r k = qn_phiD F nth_ nr dft idft P solveP ptab dP q rho r k.
Proof. exact qn_pipeline_decomposition_free. Qed.
Print Assumptions c15_pipeline_decomposition_free.

(** chi_selects_convention: chi = 0 -> generic operator at m^2 = 0; chi = 1 -> without the PhiPsi (phi - <phi>) term; other chi refused; kinetic electrons ignore chi *)
Theorem c15_chi_selects_convention :
  forall (F : Type) (f0 f1 : F) (fadd fmul fsub fdiv : F -> F -> F) (fopp finv : F -> F), field_theory f0 f1 fadd fmul fsub fopp fdiv finv eq -> forall dPhidPsi dPhiPsi PhiPsi k2PhiPsi : F, (forall l : list qn_term, qn_stiffness0_terms true 0 = Some l -> qn_terms_val F f0 fadd dPhidPsi dPhiPsi PhiPsi l = qn_mode_matrix_val F f0 fadd fmul fsub dPhidPsi dPhiPsi PhiPsi k2PhiPsi f0) /\ (forall l : list qn_term, qn_stiffness0_terms true 1 = Some l -> fadd (qn_terms_val F f0 fadd dPhidPsi dPhiPsi PhiPsi l) PhiPsi = qn_mode_matrix_val F f0 fadd fmul fsub dPhidPsi dPhiPsi PhiPsi k2PhiPsi f0) /\ (forall chi : Z, chi <> 0%Z -> chi <> 1%Z -> qn_stiffness0_terms true chi = None) /\ (forall (chi : Z) (l : list qn_term), qn_stiffness0_terms false chi = Some l -> qn_terms_val F f0 fadd dPhidPsi dPhiPsi PhiPsi l = qn_mode_matrix_val F f0 fadd fmul fsub dPhidPsi dPhiPsi PhiPsi k2PhiPsi f0).
Proof. exact qn_chi_selects_convention. Qed.
Print Assumptions c15_chi_selects_convention.

(** equilibrium_fixed_point: (f_eq, 0) is a fixed point of the loop body of fullSimulation.py, GIVEN that each advection operator leaves f_eq unchanged under zero potential (C10-C12, hypotheses) and the QN solve of f_eq is 0 (c15_equilibrium_phi_zero) *)
Theorem c15_equilibrium_fixed_point :
  forall (Dist Pot : Type) (flux : Dist -> Dist) (vpar vpar_keep pol_half pol_full : Pot -> Dist -> Dist) (qn : Dist -> Pot) (feq : Dist) (phi0 : Pot), flux feq = feq -> vpar phi0 feq = feq -> vpar_keep phi0 feq = feq -> pol_half phi0 feq = feq -> pol_full phi0 feq = feq -> qn feq = phi0 -> qn_strang_step Dist Pot flux vpar vpar_keep pol_half pol_full qn (feq, phi0) = (feq, phi0).
Proof. exact qn_equilibrium_fixed_point. Qed.
Print Assumptions c15_equilibrium_fixed_point.

(** and of any number of steps *)
Theorem c15_equilibrium_fixed_point_iter :
  forall (Dist Pot : Type) (flux : Dist -> Dist) (vpar vpar_keep pol_half pol_full : Pot -> Dist -> Dist) (qn : Dist -> Pot) (feq : Dist) (phi0 : Pot) (n : nat), flux feq = feq -> vpar phi0 feq = feq -> vpar_keep phi0 feq = feq -> pol_half phi0 feq = feq -> pol_full phi0 feq = feq -> qn feq = phi0 -> Nat.iter n (qn_strang_step Dist Pot flux vpar vpar_keep pol_half pol_full qn) (feq, phi0) = (feq, phi0).
Proof. exact qn_equilibrium_fixed_point_iter. Qed.
Print Assumptions c15_equilibrium_fixed_point_iter.

(** geometric-sum lemma over any field with a primitive n-th root of unity w: sum_{j<n} w^(j t) = n if n | t, else 0 *)
Theorem c15_geom_sum :
  forall (K : Type) (k0 k1 : K) (kadd kmul ksub kdiv : K -> K -> K) (kopp kinv : K -> K), field_theory k0 k1 kadd kmul ksub kopp kdiv kinv eq -> forall (n : nat) (w : K), df_prim_root K k0 k1 kadd kmul n w -> forall t : nat, sumn K k0 kadd n (fun j : nat => df_pow K k1 kmul w (j * t)) = (if t mod n =? 0 then df_ofnat K k0 k1 kadd n else k0).
Proof. exact df_geom_sum. Qed.
Print Assumptions c15_geom_sum.

(** orthogonality: sum_j w^(j (l + (n-1) k)) = n [l = k] for l, k < n *)
Theorem c15_dft_orthogonality :
  forall (K : Type) (k0 k1 : K) (kadd kmul ksub kdiv : K -> K -> K) (kopp kinv : K -> K), field_theory k0 k1 kadd kmul ksub kopp kdiv kinv eq -> forall (n : nat) (w : K), df_prim_root K k0 k1 kadd kmul n w -> forall l k : nat, l < n -> k < n -> sumn K k0 kadd n (fun j : nat => df_pow K k1 kmul w (j * (l + (n - 1) * k))) = (if l =? k then df_ofnat K k0 k1 kadd n else k0).
Proof. exact df_orth. Qed.
Print Assumptions c15_dft_orthogonality.

(** idft (dft x) = x for the mathematical DFT (abstract field K, primitive root, n invertible) *)
Theorem c15_dft_round_trip :
  forall (K : Type) (k0 k1 : K) (kadd kmul ksub kdiv : K -> K -> K) (kopp kinv : K -> K), field_theory k0 k1 kadd kmul ksub kopp kdiv kinv eq -> forall (n : nat) (w : K), df_prim_root K k0 k1 kadd kmul n w -> forall (x : nat -> K) (j : nat), j < n -> df_idft K k0 k1 kadd kmul kinv n w (df_dft K k0 k1 kadd kmul n w x) j = x j.
Proof. exact df_round_trip. Qed.
Print Assumptions c15_dft_round_trip.

(** dft (idft y) = y *)
Theorem c15_dft_round_trip_inv :
  forall (K : Type) (k0 k1 : K) (kadd kmul ksub kdiv : K -> K -> K) (kopp kinv : K -> K), field_theory k0 k1 kadd kmul ksub kopp kdiv kinv eq -> forall (n : nat) (w : K), df_prim_root K k0 k1 kadd kmul n w -> forall (y : nat -> K) (k : nat), k < n -> df_dft K k0 k1 kadd kmul n w (df_idft K k0 k1 kadd kmul kinv n w y) k = y k.
Proof. exact df_round_trip'. Qed.
Print Assumptions c15_dft_round_trip_inv.

(** the DFT is K-linear *)
Theorem c15_dft_linear :
  forall (K : Type) (k0 k1 : K) (kadd kmul ksub kdiv : K -> K -> K) (kopp kinv : K -> K), field_theory k0 k1 kadd kmul ksub kopp kdiv kinv eq -> forall (n : nat) (w c : K) (x y : nat -> K) (k : nat), df_dft K k0 k1 kadd kmul n w (fun j : nat => kadd (kmul c (x j)) (y j)) k = kadd (kmul c (df_dft K k0 k1 kadd kmul n w x k)) (df_dft K k0 k1 kadd kmul n w y k).
Proof. exact df_dft_lin. Qed.
Print Assumptions c15_dft_linear.

(** the inverse DFT is K-linear *)
Theorem c15_idft_linear :
  forall (K : Type) (k0 k1 : K) (kadd kmul ksub kdiv : K -> K -> K) (kopp kinv : K -> K), field_theory k0 k1 kadd kmul ksub kopp kdiv kinv eq -> forall (n : nat) (w c : K) (x y : nat -> K) (k : nat), df_idft K k0 k1 kadd kmul kinv n w (fun j : nat => kadd (kmul c (x j)) (y j)) k = kadd (kmul c (df_idft K k0 k1 kadd kmul kinv n w x k)) (df_idft K k0 k1 kadd kmul kinv n w y k).
Proof. exact df_idft_lin. Qed.
Print Assumptions c15_idft_linear.

(** for a conjugation (involutive ring automorphism with conj w = w^(n-1)): the transform of a real line is conjugate symmetric, index (n-k) mod n *)
Theorem c15_dft_hermitian :
  forall (K : Type) (k0 k1 : K) (kadd kmul ksub kdiv : K -> K -> K) (kopp kinv : K -> K), field_theory k0 k1 kadd kmul ksub kopp kdiv kinv eq -> forall (n : nat) (w : K), df_prim_root K k0 k1 kadd kmul n w -> forall cj : K -> K, df_conj_laws K k0 k1 kadd kmul n w cj -> forall x : nat -> K, (forall j : nat, j < n -> cj (x j) = x j) -> forall k : nat, k < n -> df_dft K k0 k1 kadd kmul n w x (qn_conj n k) = cj (df_dft K k0 k1 kadd kmul n w x k).
Proof. exact df_dft_conj. Qed.
Print Assumptions c15_dft_hermitian.

(** the inverse transform of a conjugate-symmetric line is real *)
Theorem c15_idft_of_hermitian_real :
  forall (K : Type) (k0 k1 : K) (kadd kmul ksub kdiv : K -> K -> K) (kopp kinv : K -> K), field_theory k0 k1 kadd kmul ksub kopp kdiv kinv eq -> forall (n : nat) (w : K), df_prim_root K k0 k1 kadd kmul n w -> forall cj : K -> K, df_conj_laws K k0 k1 kadd kmul n w cj -> forall y : nat -> K, (forall k : nat, k < n -> y (qn_conj n k) = cj (y k)) -> forall j : nat, j < n -> cj (df_idft K k0 k1 kadd kmul kinv n w y j) = df_idft K k0 k1 kadd kmul kinv n w y j.
Proof. exact df_idft_real. Qed.
Print Assumptions c15_idft_of_hermitian_real.

(** pairs (re, im) over a field where a^2+b^2=0 forces a=b=0 form a field under complex multiplication *)
Theorem c15_complex_pairs_field :
  forall (F : Type) (f0 f1 : F) (fadd fmul fsub fdiv : F -> F -> F) (fopp finv : F -> F), field_theory f0 f1 fadd fmul fsub fopp fdiv finv eq -> (forall a b : F, fadd (fmul a a) (fmul b b) = f0 -> a = f0 /\ b = f0) -> field_theory (cx0 F f0) (cx1 F f0 f1) (cx_add F fadd) (cx_mul F fadd fmul fsub) (cx_sub F fsub) (cx_opp F fopp) (cx_div F fadd fmul fsub fdiv fopp) (cx_inv F fadd fmul fdiv fopp) eq.
Proof. exact cx_field. Qed.
Print Assumptions c15_complex_pairs_field.

(** the laws qn_dft_laws assumed by the pipeline theorems HOLD for the mathematical DFT on complex pairs, w a primitive n-th root of unity of modulus 1 *)
Theorem c15_dft_laws :
  forall (F : Type) (f0 f1 : F) (fadd fmul fsub fdiv : F -> F -> F) (fopp finv : F -> F), field_theory f0 f1 fadd fmul fsub fopp fdiv finv eq -> (forall a b : F, fadd (fmul a a) (fmul b b) = f0 -> a = f0 /\ b = f0) -> forall (n : nat) (w : qn_C F), cx_root F f0 f1 fadd fmul fsub n w -> qn_dft_laws F f0 fadd fmul fopp n (cx_dft F f0 f1 fadd fmul fsub n w) (cx_idft F f0 f1 fadd fmul fsub fdiv fopp n w).
Proof. exact cx_dft_laws. Qed.
Print Assumptions c15_dft_laws.

(** pipeline with the transform laws discharged: zero density => zero potential *)
Theorem c15_dft_zero_density_zero_potential :
  forall (F : Type) (f0 f1 : F) (fadd fmul fsub fdiv : F -> F -> F) (fopp finv : F -> F), field_theory f0 f1 fadd fmul fsub fopp fdiv finv eq -> (forall a b : F, fadd (fmul a a) (fmul b b) = f0 -> a = f0 /\ b = f0) -> forall (n : nat) (w : qn_C F), cx_root F f0 f1 fadd fmul fsub n w -> forall (nr : nat) (P : Type) (solveP : P -> qn_vec F -> qn_vec F) (ptab : list P) (dP : P), qn_solve_laws F fmul fopp nr P solveP -> forall rho : qn_fld F, (forall r k : nat, r < nr -> k < n -> rho r k = qn_c0 F f0) -> forall r k : nat, r < nr -> k < n -> qn_phi F (cx_dft F f0 f1 fadd fmul fsub n w) (cx_idft F f0 f1 fadd fmul fsub fdiv fopp n w) P solveP ptab dP rho r k = qn_c0 F f0.
Proof. exact qn_dft_zero_density_zero_potential. Qed.
Print Assumptions c15_dft_zero_density_zero_potential.

(** laws discharged: equilibrium distribution => zero potential *)
Theorem c15_dft_equilibrium_phi_zero :
  forall (F : Type) (f0 f1 : F) (fadd fmul fsub fdiv : F -> F -> F) (fopp finv : F -> F), field_theory f0 f1 fadd fmul fsub fopp fdiv finv eq -> (forall a b : F, fadd (fmul a a) (fmul b b) = f0 -> a = f0 /\ b = f0) -> forall (n : nat) (w : qn_C F), cx_root F f0 f1 fadd fmul fsub n w -> forall (nr : nat) (P : Type) (solveP : P -> qn_vec F -> qn_vec F) (ptab : list P) (dP : P), qn_solve_laws F fmul fopp nr P solveP -> forall (nc : nat) (qf : nat -> F) (f : nat -> nat -> nat -> F) (feq : nat -> nat -> F), (forall r k l : nat, r < nr -> k < n -> l < nc -> f r k l = feq r l) -> forall r k : nat, r < nr -> k < n -> qn_phi F (cx_dft F f0 f1 fadd fmul fsub n w) (cx_idft F f0 f1 fadd fmul fsub fdiv fopp n w) P solveP ptab dP (qn_density F f0 fadd fmul fsub nc qf f feq) r k = qn_c0 F f0.
Proof. exact qn_dft_equilibrium_phi_zero. Qed.
Print Assumptions c15_dft_equilibrium_phi_zero.

(** laws discharged: real density => real potential *)
Theorem c15_dft_real_in_real_out :
  forall (F : Type) (f0 f1 : F) (fadd fmul fsub fdiv : F -> F -> F) (fopp finv : F -> F), field_theory f0 f1 fadd fmul fsub fopp fdiv finv eq -> (forall a b : F, fadd (fmul a a) (fmul b b) = f0 -> a = f0 /\ b = f0) -> forall (n : nat) (w : qn_C F), cx_root F f0 f1 fadd fmul fsub n w -> forall (nr : nat) (P : Type) (solveP : P -> qn_vec F -> qn_vec F) (ptab : list P) (dP : P), qn_solve_laws F fmul fopp nr P solveP -> forall rho : qn_fld F, (forall I : nat, I < n -> qn_par P ptab dP (qn_conj n I) = qn_par P ptab dP I) -> (forall r k : nat, r < nr -> k < n -> qn_is_real F f0 (rho r k)) -> forall r k : nat, r < nr -> k < n -> qn_is_real F f0 (qn_phi F (cx_dft F f0 f1 fadd fmul fsub n w) (cx_idft F f0 f1 fadd fmul fsub fdiv fopp n w) P solveP ptab dP rho r k).
Proof. exact qn_dft_real_in_real_out. Qed.
Print Assumptions c15_dft_real_in_real_out.

(** laws discharged, model parameters of the QN configuration: real density => real potential *)
Theorem c15_dft_QN_real_in_real_out :
  forall (F : Type) (f0 f1 : F) (fadd fmul fsub fdiv : F -> F -> F) (fopp finv : F -> F), field_theory f0 f1 fadd fmul fsub fopp fdiv finv eq -> (forall a b : F, fadd (fmul a a) (fmul b b) = f0 -> a = f0 /\ b = f0) -> forall (n nr : nat) (w : qn_C F), cx_root F f0 f1 fadd fmul fsub n w -> forall (solveP : qn_param -> qn_vec F -> qn_vec F) (nb : Z) (d : qn_param), qn_solve_laws F fmul fopp nr qn_param solveP -> forall rho : qn_fld F, (forall r k : nat, r < nr -> k < n -> qn_is_real F f0 (rho r k)) -> forall r k : nat, r < nr -> k < n -> qn_is_real F f0 (qn_phi F (cx_dft F f0 f1 fadd fmul fsub n w) (cx_idft F f0 f1 fadd fmul fsub fdiv fopp n w) qn_param solveP (qn_params nb qn_QN_lN qn_QN_uN n) d rho r k).
Proof. exact qn_dft_QN_real_in_real_out. Qed.
Print Assumptions c15_dft_QN_real_in_real_out.

(** laws discharged: distributed pipeline = global per-mode pipeline *)
Theorem c15_dft_pipeline_is_per_mode_solve :
  forall (F : Type) (f0 f1 : F) (fadd fmul fsub fdiv : F -> F -> F) (fopp finv : F -> F), field_theory f0 f1 fadd fmul fsub fopp fdiv finv eq -> (forall a b : F, fadd (fmul a a) (fmul b b) = f0 -> a = f0 /\ b = f0) -> forall (n : nat) (w : qn_C F), cx_root F f0 f1 fadd fmul fsub n w -> forall (nr : nat) (P : Type) (solveP : P -> qn_vec F -> qn_vec F) (ptab : list P) (dP : P) (p : nat), 0 < p -> forall rho : qn_fld F, qn_solve_laws F fmul fopp nr P solveP -> forall r k : nat, r < nr -> k < n -> qn_phiD F n nr (cx_dft F f0 f1 fadd fmul fsub n w) (cx_idft F f0 f1 fadd fmul fsub fdiv fopp n w) P solveP ptab dP p rho r k = qn_phi F (cx_dft F f0 f1 fadd fmul fsub n w) (cx_idft F f0 f1 fadd fmul fsub fdiv fopp n w) P solveP ptab dP rho r k.
Proof. exact qn_dft_pipeline_is_per_mode_solve. Qed.
Print Assumptions c15_dft_pipeline_is_per_mode_solve.

(** laws discharged: two process counts give the same potential *)
Theorem c15_dft_pipeline_decomposition_free :
  forall (F : Type) (f0 f1 : F) (fadd fmul fsub fdiv : F -> F -> F) (fopp finv : F -> F), field_theory f0 f1 fadd fmul fsub fopp fdiv finv eq -> (forall a b : F, fadd (fmul a a) (fmul b b) = f0 -> a = f0 /\ b = f0) -> forall (n : nat) (w : qn_C F), cx_root F f0 f1 fadd fmul fsub n w -> forall (nr : nat) (P : Type) (solveP : P -> qn_vec F -> qn_vec F) (ptab : list P) (dP : P), qn_solve_laws F fmul fopp nr P solveP -> forall (p q : nat) (rho : qn_fld F), 0 < p -> 0 < q -> forall r k : nat, r < nr -> k < n -> qn_phiD F n nr (cx_dft F f0 f1 fadd fmul fsub n w) (cx_idft F f0 f1 fadd fmul fsub fdiv fopp n w) P solveP ptab dP p rho r k = qn_phiD F n nr (cx_dft F f0 f1 fadd fmul fsub n w) (cx_idft F f0 f1 fadd fmul fsub fdiv fopp n w) P solveP ptab dP q rho r k.
Proof. exact qn_dft_pipeline_decomposition_free. Qed.
Print Assumptions c15_dft_pipeline_decomposition_free.

(** Qc satisfies the hypothesis on the real field *)
Theorem c15_sum_of_squares_Qc :
  forall a b : Qc, (a * a + b * b)%Qc = Q2Qc 0 -> a = Q2Qc 0 /\ b = Q2Qc 0.
Proof. exact dfq_sum_sq. Qed.
Print Assumptions c15_sum_of_squares_Qc.

(** instance: n = 1 over the Gaussian rationals *)
Theorem c15_dft_laws_n1 :
  qn_dft_laws Qc (Q2Qc 0) Qcplus Qcmult Qcopp 1 (dfq_dft 1 (dfq_c 1 0)) (dfq_idft 1 (dfq_c 1 0)).
Proof. exact dfq_laws1. Qed.
Print Assumptions c15_dft_laws_n1.

(** instance: n = 2, w = -1 *)
Theorem c15_dft_laws_n2 :
  qn_dft_laws Qc (Q2Qc 0) Qcplus Qcmult Qcopp 2 (dfq_dft 2 (dfq_c (-1) 0)) (dfq_idft 2 (dfq_c (-1) 0)).
Proof. exact dfq_laws2. Qed.
Print Assumptions c15_dft_laws_n2.

(** instance: n = 4, w = -i (needs the imaginary unit: Gaussian rationals as pairs) *)
Theorem c15_dft_laws_n4 :
  qn_dft_laws Qc (Q2Qc 0) Qcplus Qcmult Qcopp 4 (dfq_dft 4 (dfq_c 0 (-1))) (dfq_idft 4 (dfq_c 0 (-1))).
Proof. exact dfq_laws4. Qed.
Print Assumptions c15_dft_laws_n4.

(** solveEquation / _solveMode with the SHARED buffer self._coeffs, as a fold over the modes of the rank and their z slices: for EVERY initial buffer content the lines written to phi are those of the independent solves evalr (zeros a ++ usolve par line ++ zeros (nb-b)) - given slices with a <= 1, nb-1 <= b <= nb and one solved value per unknown *)
Theorem c15_solve_sequence_is_independent_solves :
  forall (T : Type) (t0 : T) (Line Out P : Type) (crange : P -> nat * nat) (usolve : P -> Line -> list T) (evalr : list T -> Out) (nb : nat) (modes : list (P * list Line)), 1 <= nb -> forall buf : list T, length buf = nb -> (forall (par : P) (lines : list Line) (ln : Line), In (par, lines) modes -> In ln lines -> qs_adm T Line P crange usolve nb par ln) -> exists buf' : list T, qs_solve_equation T t0 Line Out P crange usolve evalr buf modes = Some (buf', map (fun ml : P * list Line => map (fun ln : Line => evalr (qs_indep T t0 Line P crange usolve nb (fst ml) ln)) (snd ml)) modes) /\ length buf' = nb.
Proof. exact qs_solve_equation_independent. Qed.
Print Assumptions c15_solve_sequence_is_independent_solves.

(** two histories of the shared buffer give the same output *)
Theorem c15_solve_history_free :
  forall (T : Type) (t0 : T) (Line Out P : Type) (crange : P -> nat * nat) (usolve : P -> Line -> list T) (evalr : list T -> Out) (nb : nat) (modes : list (P * list Line)) (buf1 buf2 : list T), 1 <= nb -> length buf1 = nb -> length buf2 = nb -> (forall (par : P) (lines : list Line) (ln : Line), In (par, lines) modes -> In ln lines -> qs_adm T Line P crange usolve nb par ln) -> option_map snd (qs_solve_equation T t0 Line Out P crange usolve evalr buf1 modes) = option_map snd (qs_solve_equation T t0 Line Out P crange usolve evalr buf2 modes).
Proof. exact qs_history_free. Qed.
Print Assumptions c15_solve_history_free.

(** a zero vector from the solve (zero right-hand side) gives the zero coefficient vector *)
Theorem c15_solve_zero_rhs :
  forall (T : Type) (t0 : T) (Line P : Type) (crange : P -> nat * nat) (usolve : P -> Line -> list T) (nb : nat) (par : P) (line : Line), snd (crange par) <= nb -> fst (crange par) <= snd (crange par) -> usolve par line = repeat t0 (snd (crange par) - fst (crange par)) -> qs_indep T t0 Line P crange usolve nb par line = repeat t0 nb.
Proof. exact qs_zero_rhs. Qed.
Print Assumptions c15_solve_zero_rhs.

(** boundary coefficients: 0 where the mode is Dirichlet (outside its slice), the first / last unknown where it is Neumann *)
Theorem c15_solve_boundary :
  forall (T : Type) (t0 : T) (Line P : Type) (crange : P -> nat * nat) (usolve : P -> Line -> list T) (nb : nat) (par : P) (line : Line), qs_adm T Line P crange usolve nb par line -> 1 <= nb -> (fst (crange par) = 1 -> nth 0 (qs_indep T t0 Line P crange usolve nb par line) t0 = t0) /\ (fst (crange par) = 0 -> snd (crange par) <> 0 -> nth 0 (qs_indep T t0 Line P crange usolve nb par line) t0 = nth 0 (usolve par line) t0) /\ (S (snd (crange par)) = nb -> nth (nb - 1) (qs_indep T t0 Line P crange usolve nb par line) t0 = t0) /\ (snd (crange par) = nb -> fst (crange par) < nb -> nth (nb - 1) (qs_indep T t0 Line P crange usolve nb par line) t0 = nth (nb - 1 - fst (crange par)) (usolve par line) t0).
Proof. exact qs_boundary. Qed.
Print Assumptions c15_solve_boundary.

(** the per-mode slices of DiffEqSolver (any Neumann lists, any mode, nbasis >= 2) satisfy the side conditions of the theorem above and match the number of rows of the sliced stiffness matrix *)
Theorem c15_solve_slices_admissible :
  forall (nb : Z) (lN uN : list Z) (m : Z), (2 <= nb)%Z -> let a := Z.to_nat (fst (qn_coeff_range nb lN uN m)) in let b := Z.to_nat (snd (qn_coeff_range nb lN uN m)) in a <= 1 /\ Z.to_nat nb - 1 <= b <= Z.to_nat nb /\ a <= b /\ b - a = Z.to_nat (snd (qn_stiff_range nb lN uN m) - fst (qn_stiff_range nb lN uN m)).
Proof. exact qs_adm_of_qn_ranges. Qed.
Print Assumptions c15_solve_slices_admissible.

(** the generic fold instantiated with the code step is the model *)
Theorem c15_solve_fold_is_model :
  forall (T Line Out P : Type) (t0 : T) (crange : P -> nat * nat) (usolve : P -> Line -> list T) (evalr : list T -> Out) (buf : list T) (modes : list (P * list Line)), qs_equation_with T Line Out P t0 (qs_solve_line T Line Out P crange usolve evalr) buf modes = qs_solve_equation T t0 Line Out P crange usolve evalr buf modes.
Proof. exact qs_equation_with_code. Qed.
Print Assumptions c15_solve_fold_is_model.

(** REFUTED variant: skipping the solve for an empty right-hand side (the trivial solution is already in the buffer) returns the previous mode coefficients - not the independent solves *)
Theorem c15_solve_skip_refuted :
  exists (buf : list Z) (modes : list (nat * nat * list (list Z))), qsx_run_skip buf modes <> qsx_run buf modes /\ qsx_run buf modes = Some (map (fun ml : nat * nat * list (list Z) => map (fun ln : list Z => qsx_eval (qs_indep Z 0%Z (list Z) (nat * nat) qsx_crange qsx_usolve 4 (fst ml) ln)) (snd ml)) modes).
Proof. exact qs_skip_refuted. Qed.
Print Assumptions c15_solve_skip_refuted.

(** a hand-written 2-point transform over Qc also satisfies the laws (kept from the previous round) *)
Theorem c15_dft2_laws :
  qn_dft_laws Qc (Q2Qc 0) Qcplus Qcmult Qcopp 2 qnq_dft2 qnq_idft2.
Proof. exact qnq_dft2_laws. Qed.
Print Assumptions c15_dft2_laws.

(** and so are the solve laws *)
Theorem c15_id_solve_laws :
  forall (nr : nat) (P : Type), qn_solve_laws Qc Qcmult Qcopp nr P (fun (_ : P) (x : qn_vec Qc) => x).
Proof. exact qnq_id_solve_laws. Qed.
Print Assumptions c15_id_solve_laws.

(** non-vacuity (vm_compute) *)
Example c15_ex_tables :
  qn_fftfreq 8 = [0; 1; 2; 3; -4; -3; -2; -1]%Z
  /\ qn_fftfreq 9 = [0; 1; 2; 3; 4; -4; -3; -2; -1]%Z
  /\ qn_fftfreq 1 = [0]%Z /\ qn_fftfreq 0 = []
  /\ qn_msq 9 = [0; 1; 4; 9; 16; 16; 9; 4; 1]%Z
  /\ qnx_conj_table 8 = [0; 7; 6; 5; 4; 3; 2; 1]%nat
  /\ qnx_ranges 8 qn_QN_lN qn_QN_uN 4 = ([(0, 7); (1, 7); (1, 7); (1, 7)]%Z, [(0, 7); (1, 7); (1, 7); (1, 7)]%Z)
  /\ qnx_scalars 8 qn_QN_lN qn_QN_uN = (0, 7, 1, 7)%Z
  /\ qnx_ranges 8 [1%Z] [(-1)%Z; 0%Z] 4 = ([(1, 8); (0, 7); (1, 7); (1, 8)]%Z, [(1, 8); (0, 7); (1, 7); (1, 8)]%Z)
  /\ qnx_ranges 8 [] [] 3 = ([(1, 7); (1, 7); (1, 7)]%Z, [(0, 6); (0, 6); (0, 6)]%Z)
  /\ qnx_mode0_full 8 qn_QN_lN qn_QN_uN = true /\ qnx_mode0_full 8 [1%Z] [] = false
  /\ map qp_sel (qn_params 8 qn_QN_lN qn_QN_uN 4) = [QnStiff0; QnSliced 1 (1, 7); QnSliced 4 (1, 7); QnSliced 1 (1, 7)]%Z
  /\ qn_stiffness0_terms true 0 = Some [QnDPhidPsi; QnDPhiPsi; QnPhiPsi]
  /\ qn_stiffness0_terms true 1 = Some [QnDPhidPsi; QnDPhiPsi]
  /\ qn_stiffness0_terms true 2 = None
  /\ qn_stiffness0_terms false 1 = Some [QnDPhidPsi; QnDPhiPsi; QnPhiPsi].
Proof. vm_compute. repeat split. Qed.

(** the pipeline theorems instantiated: 2-point DFT, identity solve, a real density -> a real potential, computed *)
Example c15_ex_pipeline :
  let rho : qn_fld Qc := fun r k => (dnq_of (Z.of_nat (3 * r + k + 1)) 1, dnq_zero) in
  map (fun rk => let z := qn_phi Qc qnq_dft2 qnq_idft2 qn_param (fun _ x => x) (qn_params 4 qn_QN_lN qn_QN_uN 2)
                            (qn_param_of 4 qn_QN_lN qn_QN_uN 0) rho (fst rk) (snd rk) in (dnq_show (fst z), dnq_show (snd z)))
      [(0, 0); (0, 1); (1, 0); (1, 1)]%nat
  = [((1%Z, 1%positive), (0%Z, 1%positive)); ((2%Z, 1%positive), (0%Z, 1%positive));
     ((4%Z, 1%positive), (0%Z, 1%positive)); ((5%Z, 1%positive), (0%Z, 1%positive))].
Proof. vm_compute. reflexivity. Qed.

(** the 4-point DFT over the Gaussian rationals, computed: x = (1, 2, 3, 4) -> (10, -2+2i, -2, -2-2i), and back *)
Example c15_ex_dft4 :
  let x : nat -> qn_C Qc := fun j => dfq_c (Z.of_nat j + 1) 0 in
  map (fun k => dfq_show (dfq_dft 4 (dfq_c 0 (-1)) x k)) [0; 1; 2; 3]%nat
  = [((10%Z, 1%positive), (0%Z, 1%positive)); ((-2)%Z, 1%positive, (2%Z, 1%positive)); ((-2)%Z, 1%positive, (0%Z, 1%positive)); ((-2)%Z, 1%positive, ((-2)%Z, 1%positive))]
  /\ map (fun k => dfq_show (dfq_idft 4 (dfq_c 0 (-1)) (dfq_dft 4 (dfq_c 0 (-1)) x) k)) [0; 1; 2; 3]%nat
  = [((1%Z, 1%positive), (0%Z, 1%positive)); ((2%Z, 1%positive), (0%Z, 1%positive)); ((3%Z, 1%positive), (0%Z, 1%positive)); ((4%Z, 1%positive), (0%Z, 1%positive))].
Proof. vm_compute. split; reflexivity. Qed.

