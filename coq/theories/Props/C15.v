(** C15 - quasi-neutrality pipeline: exact FFT round trip, real potential, equilibrium.
    Only statements, [exact]s and [Print Assumptions]; proofs in QnModes.v (integer bookkeeping of
    DiffEqSolver / QuasiNeutralitySolver: fftfreq order, squares, per-mode slices, choice of the m = 0 matrix,
    chi) and QnPipeline.v (the pipeline density -> modes -> per-mode solve -> inverse over an abstract field
    with complex numbers as pairs).

    The discrete Fourier transform pair and the per-mode radial solve are abstract: their laws
    ([qn_dft_laws]: extensionality, idft o dft = id, linearity, conjugate symmetry of the transform of a real
    line, real inverse transform of a conjugate-symmetric line; [qn_solve_laws]: extensionality, homogeneity,
    commutation with conjugation) are HYPOTHESES of the pipeline theorems.  They are satisfiable
    ([c15_dft2_laws], the 2-point DFT over Qc) and are checked by the harness on every vector that
    scipy.fftpack transforms and on the solver's own matrices.

    NOT proved here:
    - the laws of scipy's fft/ifft and of the spline/sparse-solve chain of _solveMode (hypotheses; the content
      of the per-mode solve is C14's subject);
    - that flux-surface, v-parallel and poloidal advection leave the equilibrium unchanged under zero potential
      (hypotheses of [c15_equilibrium_fixed_point]: C10, C11, C12);
    - that the layout changes preserve the global field (C01 / C03; used as the definition of the distributed
      pipeline in [c15_pipeline_is_per_mode_solve]);
    - floating-point rounding, including that n*(1/n) is not 1 in binary64 for n = 49, 98, 103, ... *)
From Coq Require Import List Arith Lia ZArith Bool QArith Qcanon.
Import ListNotations.
From PGV Require Import Blocks Sums GridSteps Density QnModes QnPipeline DensityQc QnQc.
Close Scope Q_scope.
Close Scope Qc_scope.
Open Scope nat_scope.

(** the table of mode numbers has one entry per theta point *)
Theorem c15_mvals_length :
  forall n : nat, length (qn_fftfreq n) = n.
Proof. exact qn_fftfreq_length. Qed.
Print Assumptions c15_mvals_length.

(** mvals_spec: numpy's two aranges put mode i at index i while 2i < n and mode i - n afterwards *)
Theorem c15_mvals_spec :
  forall n i : nat, i < n -> nth i (qn_fftfreq n) 0%Z = qn_mode n i.
Proof. exact qn_mvals_spec. Qed.
Print Assumptions c15_mvals_spec.

(** the scaling of fftfreq(n, 1/n), results * (1/(n*(1/n))), is the identity in exact arithmetic (Qc): the table holds the integer mode numbers *)
Theorem c15_fftfreq_scale_exact :
  forall (n : positive) (i : nat), let nq := Q2Qc (inject_Z (Z.pos n)) in (Q2Qc (inject_Z (qn_mode (Pos.to_nat n) i)) * (1 / (nq * (1 / nq))))%Qc = Q2Qc (inject_Z (qn_mode (Pos.to_nat n) i)).
Proof. exact qnq_mvals_scaled. Qed.
Print Assumptions c15_fftfreq_scale_exact.

(** even n = 2h: 0,1,...,h-1,-h,...,-1 *)
Theorem c15_mvals_even :
  forall h i : nat, 0 < h -> i < 2 * h -> nth i (qn_fftfreq (2 * h)) 0%Z = (if i <? h then Z.of_nat i else (Z.of_nat i - Z.of_nat (2 * h))%Z).
Proof. exact qn_mvals_even. Qed.
Print Assumptions c15_mvals_even.

(** odd n = 2h+1: 0,1,...,h,-h,...,-1 *)
Theorem c15_mvals_odd :
  forall h i : nat, i < 2 * h + 1 -> nth i (qn_fftfreq (2 * h + 1)) 0%Z = (if i <=? h then Z.of_nat i else (Z.of_nat i - Z.of_nat (2 * h + 1))%Z).
Proof. exact qn_mvals_odd. Qed.
Print Assumptions c15_mvals_odd.

(** the mode number is the representative of the index modulo n in [-(n/2), (n-1)/2] *)
Theorem c15_mode_range :
  forall n i : nat, i < n -> (- Z.of_nat (n / 2) <= qn_mode n i <= Z.of_nat ((n - 1) / 2))%Z /\ (qn_mode n i = Z.of_nat i \/ qn_mode n i = (Z.of_nat i - Z.of_nat n)%Z).
Proof. exact qn_mode_range. Qed.
Print Assumptions c15_mode_range.

(** the test _mVals[I] == 0 on the squared values selects exactly global index 0 *)
Theorem c15_msq_zero_iff :
  forall n i : nat, i < n -> nth i (qn_msq n) 0%Z = 0%Z <-> i = 0.
Proof. exact qn_msq_zero_iff. Qed.
Print Assumptions c15_msq_zero_iff.

(** squared mode numbers are never negative *)
Theorem c15_msq_nonneg :
  forall n i : nat, (0 <= nth i (qn_msq n) 0)%Z.
Proof. exact qn_msq_nonneg. Qed.
Print Assumptions c15_msq_nonneg.

(** conjugate indices (n - i) mod n hold the same squared mode number (depends on m^2 only) *)
Theorem c15_msq_conj :
  forall n i : nat, i < n -> nth (qn_conj n i) (qn_msq n) 0%Z = nth i (qn_msq n) 0%Z.
Proof. exact qn_msq_conj. Qed.
Print Assumptions c15_msq_conj.

(** per-mode slices: _stiffness_range (in the stored, range_slice-d matrices) and _coeff_range select the same basis functions, for every Neumann lists and mode value *)
Theorem c15_ranges_consistent :
  forall (nb : Z) (lN uN : list Z) (m : Z), (qn_start_range lN + fst (qn_stiff_range nb lN uN m))%Z = fst (qn_coeff_range nb lN uN m) /\ (qn_start_range lN + snd (qn_stiff_range nb lN uN m))%Z = snd (qn_coeff_range nb lN uN m).
Proof. exact qn_ranges_consistent. Qed.
Print Assumptions c15_ranges_consistent.

(** mode0_range_full, general form: a mode's slice covers all stored unknowns iff the mode is Neumann, or no mode is, at each end *)
Theorem c15_range_full_iff :
  forall (nb : Z) (lN uN : list Z) (m : Z), qn_stiff_range nb lN uN m = (0%Z, qn_nunknowns nb lN uN) <-> (qn_mem m lN = true \/ lN = []) /\ (qn_mem m uN = true \/ uN = []).
Proof. exact qn_range_full_iff. Qed.
Print Assumptions c15_range_full_iff.

(** mode0_range_full: in the configuration QuasiNeutralitySolver hard-codes (lNeumannIdx = [0], no uNeumannIdx) mode 0 is sliced (0, nUnknowns): the UNSLICED _stiffness0 has the unknowns of the mass-matrix rows and coefficient slice used with it *)
Theorem c15_mode0_range_full :
  forall nb : Z, qn_stiff_range nb qn_QN_lN qn_QN_uN 0 = (0%Z, qn_nunknowns nb qn_QN_lN qn_QN_uN) /\ qn_coeff_range nb qn_QN_lN qn_QN_uN 0 = (0%Z, (nb - 1)%Z) /\ qn_nunknowns nb qn_QN_lN qn_QN_uN = (nb - 1)%Z.
Proof. exact qn_mode0_range_full. Qed.
Print Assumptions c15_mode0_range_full.

(** mode0_uses_stiffness0: the matrix choice of solveEquation is _stiffness0 exactly for global mode index 0 *)
Theorem c15_mode0_uses_stiffness0 :
  forall (nb : Z) (lN uN : list Z) (n I : nat), I < n -> qp_sel (qn_param_of nb lN uN (qn_mode n I)) = QnStiff0 <-> I = 0.
Proof. exact qn_mode0_uses_stiffness0. Qed.
Print Assumptions c15_mode0_uses_stiffness0.

(** in the QN configuration conjugate modes are solved with identical parameters *)
Theorem c15_QN_param_conj :
  forall (nb : Z) (n i : nat), i < n -> qn_param_of nb qn_QN_lN qn_QN_uN (qn_mode n (qn_conj n i)) = qn_param_of nb qn_QN_lN qn_QN_uN (qn_mode n i).
Proof. exact qn_QN_param_conj. Qed.
Print Assumptions c15_QN_param_conj.

(** on every rank the loop of solveEquation uses the parameters of the GLOBAL mode index start + i (GlobalTab lookup of GridSteps.op_qn_solve) *)
Theorem c15_param_lookup_global :
  forall (nb : Z) (lN uN : list Z) (n p a i : nat) (d : qn_param), 0 < p -> a < p -> i < blen n p a -> resolve qn_param d GlobalTab (qn_params nb lN uN n) (bstart n p a) (blen n p a) i = qn_param_of nb lN uN (qn_mode n (bstart n p a + i)) /\ In GlobalTab (axis0_lookups op_qn_solve).
Proof. exact qn_param_lookup_global. Qed.
Print Assumptions c15_param_lookup_global.

(** zero density => zero potential (from linearity of the three stages) *)
Theorem c15_zero_density_zero_potential :
  forall (F : Type) (f0 f1 : F) (fadd fmul fsub fdiv : F -> F -> F) (fopp finv : F -> F), field_theory f0 f1 fadd fmul fsub fopp fdiv finv eq -> forall (nth_ nr : nat) (dft idft : qn_vec F -> qn_vec F) (P : Type) (solveP : P -> qn_vec F -> qn_vec F) (ptab : list P) (dP : P), qn_dft_laws F f0 fadd fmul fopp nth_ dft idft -> qn_solve_laws F fmul fopp nr P solveP -> forall rho : qn_fld F, (forall r k : nat, r < nr -> k < nth_ -> rho r k = qn_c0 F f0) -> forall r k : nat, r < nr -> k < nth_ -> qn_phi F dft idft P solveP ptab dP rho r k = qn_c0 F f0.
Proof. exact qn_zero_density_zero_potential. Qed.
Print Assumptions c15_zero_density_zero_potential.

(** equilibrium_phi_zero: a distribution equal to the equilibrium table has zero potential (with C16 rho_equilibrium_zero) *)
Theorem c15_equilibrium_phi_zero :
  forall (F : Type) (f0 f1 : F) (fadd fmul fsub fdiv : F -> F -> F) (fopp finv : F -> F), field_theory f0 f1 fadd fmul fsub fopp fdiv finv eq -> forall (nth_ nr : nat) (dft idft : qn_vec F -> qn_vec F) (P : Type) (solveP : P -> qn_vec F -> qn_vec F) (ptab : list P) (dP : P), qn_dft_laws F f0 fadd fmul fopp nth_ dft idft -> qn_solve_laws F fmul fopp nr P solveP -> forall (nc : nat) (qf : nat -> F) (f : nat -> nat -> nat -> F) (feq : nat -> nat -> F), (forall r k l : nat, r < nr -> k < nth_ -> l < nc -> f r k l = feq r l) -> forall r k : nat, r < nr -> k < nth_ -> qn_phi F dft idft P solveP ptab dP (qn_density F f0 fadd fmul fsub nc qf f feq) r k = qn_c0 F f0.
Proof. exact qn_equilibrium_phi_zero. Qed.
Print Assumptions c15_equilibrium_phi_zero.

(** real_in_real_out: real density => real potential, when conjugate modes share their parameters *)
Theorem c15_real_in_real_out :
  forall (F : Type) (f0 : F) (fadd fmul : F -> F -> F) (fopp : F -> F) (nth_ nr : nat) (dft idft : qn_vec F -> qn_vec F) (P : Type) (solveP : P -> qn_vec F -> qn_vec F) (ptab : list P) (dP : P), qn_dft_laws F f0 fadd fmul fopp nth_ dft idft -> qn_solve_laws F fmul fopp nr P solveP -> forall rho : qn_fld F, (forall I : nat, I < nth_ -> qn_par P ptab dP (qn_conj nth_ I) = qn_par P ptab dP I) -> (forall r k : nat, r < nr -> k < nth_ -> qn_is_real F f0 (rho r k)) -> forall r k : nat, r < nr -> k < nth_ -> qn_is_real F f0 (qn_phi F dft idft P solveP ptab dP rho r k).
Proof. exact qn_real_in_real_out. Qed.
Print Assumptions c15_real_in_real_out.

(** real_in_real_out for the model's parameters in the QN configuration (hypothesis on parameters discharged) *)
Theorem c15_QN_real_in_real_out :
  forall (F : Type) (f0 : F), F -> forall fadd fmul : F -> F -> F, (F -> F -> F) -> (F -> F -> F) -> forall fopp : F -> F, (F -> F) -> forall (nth_ nr : nat) (dft idft : qn_vec F -> qn_vec F) (solveP : qn_param -> qn_vec F -> qn_vec F) (nb : Z) (d : qn_param), qn_dft_laws F f0 fadd fmul fopp nth_ dft idft -> qn_solve_laws F fmul fopp nr qn_param solveP -> forall rho : qn_fld F, (forall r k : nat, r < nr -> k < nth_ -> qn_is_real F f0 (rho r k)) -> forall r k : nat, r < nr -> k < nth_ -> qn_is_real F f0 (qn_phi F dft idft qn_param solveP (qn_params nb qn_QN_lN qn_QN_uN nth_) d rho r k).
Proof. exact qn_QN_real_in_real_out. Qed.
Print Assumptions c15_QN_real_in_real_out.

(** pipeline_is_per_mode_solve: getModes / findPotential on blocks of r, solveEquation on blocks of theta with parameters looked up by global index, assembled over any number of processes = the global per-mode pipeline *)
Theorem c15_pipeline_is_per_mode_solve :
  forall (F : Type) (f0 : F) (fadd fmul : F -> F -> F) (fopp : F -> F) (nth_ nr : nat) (dft idft : qn_vec F -> qn_vec F) (P : Type) (solveP : P -> qn_vec F -> qn_vec F) (ptab : list P) (dP : P) (p : nat), 0 < p -> forall rho : qn_fld F, qn_dft_laws F f0 fadd fmul fopp nth_ dft idft -> qn_solve_laws F fmul fopp nr P solveP -> forall r k : nat, r < nr -> k < nth_ -> qn_phiD F nth_ nr dft idft P solveP ptab dP p rho r k = qn_phi F dft idft P solveP ptab dP rho r k.
Proof. exact qn_pipeline_is_per_mode_solve. Qed.
Print Assumptions c15_pipeline_is_per_mode_solve.

(** hence two process counts give the same potential *)
Theorem c15_pipeline_decomposition_free :
  forall (F : Type) (f0 : F) (fadd fmul : F -> F -> F) (fopp : F -> F) (nth_ nr : nat) (dft idft : qn_vec F -> qn_vec F) (P : Type) (solveP : P -> qn_vec F -> qn_vec F) (ptab : list P) (dP : P), qn_dft_laws F f0 fadd fmul fopp nth_ dft idft -> qn_solve_laws F fmul fopp nr P solveP -> forall (p q : nat) (rho : qn_fld F), 0 < p -> 0 < q -> forall r k : nat, r < nr -> k < nth_ -> qn_phiD F nth_ nr dft idft P solveP ptab dP p rho r k = qn_phiD F nth_ nr dft idft P solveP ptab dP q rho r k.
Proof. exact qn_pipeline_decomposition_free. Qed.
Print Assumptions c15_pipeline_decomposition_free.

(** chi_selects_convention: chi = 0 -> generic operator at m^2 = 0; chi = 1 -> without the PhiPsi (phi - <phi>) term; other chi refused; kinetic electrons ignore chi *)
Theorem c15_chi_selects_convention :
  forall (F : Type) (f0 f1 : F) (fadd fmul fsub fdiv : F -> F -> F) (fopp finv : F -> F), field_theory f0 f1 fadd fmul fsub fopp fdiv finv eq -> forall dPhidPsi dPhiPsi PhiPsi k2PhiPsi : F, (forall l : list qn_term, qn_stiffness0_terms true 0 = Some l -> qn_terms_val F f0 fadd dPhidPsi dPhiPsi PhiPsi l = qn_mode_matrix_val F f0 fadd fmul fsub dPhidPsi dPhiPsi PhiPsi k2PhiPsi f0) /\ (forall l : list qn_term, qn_stiffness0_terms true 1 = Some l -> fadd (qn_terms_val F f0 fadd dPhidPsi dPhiPsi PhiPsi l) PhiPsi = qn_mode_matrix_val F f0 fadd fmul fsub dPhidPsi dPhiPsi PhiPsi k2PhiPsi f0) /\ (forall chi : Z, chi <> 0%Z -> chi <> 1%Z -> qn_stiffness0_terms true chi = None) /\ (forall (chi : Z) (l : list qn_term), qn_stiffness0_terms false chi = Some l -> qn_terms_val F f0 fadd dPhidPsi dPhiPsi PhiPsi l = qn_mode_matrix_val F f0 fadd fmul fsub dPhidPsi dPhiPsi PhiPsi k2PhiPsi f0).
Proof. exact qn_chi_selects_convention. Qed.
Print Assumptions c15_chi_selects_convention.

(** equilibrium_fixed_point: (f_eq, 0) is a fixed point of the loop body of fullSimulation.py, GIVEN that each advection operator leaves f_eq unchanged under zero potential (C10-C12, hypotheses) and the QN solve of f_eq is 0 (c15_equilibrium_phi_zero) *)
Theorem c15_equilibrium_fixed_point :
  forall (Dist Pot : Type) (flux : Dist -> Dist) (vpar vpar_keep pol_half pol_full : Pot -> Dist -> Dist) (qn : Dist -> Pot) (feq : Dist) (phi0 : Pot), flux feq = feq -> vpar phi0 feq = feq -> vpar_keep phi0 feq = feq -> pol_half phi0 feq = feq -> pol_full phi0 feq = feq -> qn feq = phi0 -> qn_strang_step Dist Pot flux vpar vpar_keep pol_half pol_full qn (feq, phi0) = (feq, phi0).
Proof. exact qn_equilibrium_fixed_point. Qed.
Print Assumptions c15_equilibrium_fixed_point.

(** and of any number of steps *)
Theorem c15_equilibrium_fixed_point_iter :
  forall (Dist Pot : Type) (flux : Dist -> Dist) (vpar vpar_keep pol_half pol_full : Pot -> Dist -> Dist) (qn : Dist -> Pot) (feq : Dist) (phi0 : Pot) (n : nat), flux feq = feq -> vpar phi0 feq = feq -> vpar_keep phi0 feq = feq -> pol_half phi0 feq = feq -> pol_full phi0 feq = feq -> qn feq = phi0 -> Nat.iter n (qn_strang_step Dist Pot flux vpar vpar_keep pol_half pol_full qn) (feq, phi0) = (feq, phi0).
Proof. exact qn_equilibrium_fixed_point_iter. Qed.
Print Assumptions c15_equilibrium_fixed_point_iter.

(** the DFT laws assumed above are satisfiable: the 2-point DFT over Qc *)
Theorem c15_dft2_laws :
  qn_dft_laws Qc (Q2Qc 0) Qcplus Qcmult Qcopp 2 qnq_dft2 qnq_idft2.
Proof. exact qnq_dft2_laws. Qed.
Print Assumptions c15_dft2_laws.

(** and so are the solve laws *)
Theorem c15_id_solve_laws :
  forall (nr : nat) (P : Type), qn_solve_laws Qc Qcmult Qcopp nr P (fun (_ : P) (x : qn_vec Qc) => x).
Proof. exact qnq_id_solve_laws. Qed.
Print Assumptions c15_id_solve_laws.

(** non-vacuity (vm_compute) *)
Example c15_ex_tables :
  qn_fftfreq 8 = [0; 1; 2; 3; -4; -3; -2; -1]%Z
  /\ qn_fftfreq 9 = [0; 1; 2; 3; 4; -4; -3; -2; -1]%Z
  /\ qn_fftfreq 1 = [0]%Z /\ qn_fftfreq 0 = []
  /\ qn_msq 9 = [0; 1; 4; 9; 16; 16; 9; 4; 1]%Z
  /\ qnx_conj_table 8 = [0; 7; 6; 5; 4; 3; 2; 1]%nat
  /\ qnx_ranges 8 qn_QN_lN qn_QN_uN 4 = ([(0, 7); (1, 7); (1, 7); (1, 7)]%Z, [(0, 7); (1, 7); (1, 7); (1, 7)]%Z)
  /\ qnx_scalars 8 qn_QN_lN qn_QN_uN = (0, 7, 1, 7)%Z
  /\ qnx_ranges 8 [1%Z] [(-1)%Z; 0%Z] 4 = ([(1, 8); (0, 7); (1, 7); (1, 8)]%Z, [(1, 8); (0, 7); (1, 7); (1, 8)]%Z)
  /\ qnx_ranges 8 [] [] 3 = ([(1, 7); (1, 7); (1, 7)]%Z, [(0, 6); (0, 6); (0, 6)]%Z)
  /\ qnx_mode0_full 8 qn_QN_lN qn_QN_uN = true /\ qnx_mode0_full 8 [1%Z] [] = false
  /\ map qp_sel (qn_params 8 qn_QN_lN qn_QN_uN 4) = [QnStiff0; QnSliced 1 (1, 7); QnSliced 4 (1, 7); QnSliced 1 (1, 7)]%Z
  /\ qn_stiffness0_terms true 0 = Some [QnDPhidPsi; QnDPhiPsi; QnPhiPsi]
  /\ qn_stiffness0_terms true 1 = Some [QnDPhidPsi; QnDPhiPsi]
  /\ qn_stiffness0_terms true 2 = None
  /\ qn_stiffness0_terms false 1 = Some [QnDPhidPsi; QnDPhiPsi; QnPhiPsi].
Proof. vm_compute. repeat split. Qed.

(** the pipeline theorems instantiated: 2-point DFT, identity solve, a real density -> a real potential, computed *)
Example c15_ex_pipeline :
  let rho : qn_fld Qc := fun r k => (dnq_of (Z.of_nat (3 * r + k + 1)) 1, dnq_zero) in
  map (fun rk => let z := qn_phi Qc qnq_dft2 qnq_idft2 qn_param (fun _ x => x) (qn_params 4 qn_QN_lN qn_QN_uN 2)
                            (qn_param_of 4 qn_QN_lN qn_QN_uN 0) rho (fst rk) (snd rk) in (dnq_show (fst z), dnq_show (snd z)))
      [(0, 0); (0, 1); (1, 0); (1, 1)]%nat
  = [((1%Z, 1%positive), (0%Z, 1%positive)); ((2%Z, 1%positive), (0%Z, 1%positive));
     ((4%Z, 1%positive), (0%Z, 1%positive)); ((5%Z, 1%positive), (0%Z, 1%positive))].
Proof. vm_compute. reflexivity. Qed.

