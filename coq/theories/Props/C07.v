(** C07 - spline evaluation equals the mathematical B-spline on every entry point.
    Only statements, [exact]s and [Print Assumptions]; the proofs live in SplineTheory.v (which
    connects the executable model SplineModel.v to the seeds BasisCoxDeBoor.v, FindSpan.v,
    CubicUniform.v) and CoxDeBoorGen.v.  Every theorem holds for every field with a compatible
    decidable total order ([sp_laws]), hence for the instance [spq_ops] on Qc that is extracted and
    run ([c07_qc_laws]).

    NOT proved here (exercised by the exact differential of harness/props/c07.py only):
    - that the derivative formula of [c07_ders_formula] is d/dx of the basis (classical identity);
    - cu_find_span (int() truncation, span == ncells branch) returns the span/offset of
      nu_find_span on the uniform extension knots, i.e. equality of the two PATHS on [xmin,xmax]
      (the closed forms themselves are proved equal: c07_cu_basis_eq_general, c07_cu_ders_eq_general);
    - periodic splines: equal values and slopes at both ends of the period;
    - the dispatch of Spline1D / Spline2D / BSplines (numpy level) and floating-point rounding. *)
From Coq Require Import List Arith Lia ZArith Bool QArith Qcanon.
Import ListNotations.
From PGV Require Import BasisCoxDeBoor CoxDeBoorGen FindSpan CubicUniform Sums SplineModel SplineTheory SplineQc.

(** nu_find_span: for every degree and every knot list with 2p+1 < len and t[p] < t[len-1-p] (no other
    assumption: the search invariant does not need sortedness) the search terminates within its fuel,
    the span is in [p, len-p-2], and it is the left clamp (x <= t[p]), the right clamp (x >= t[len-1-p])
    or brackets x: t[s] <= x < t[s+1] *)
Theorem c07_find_span_spec :
  forall (F : Type) (K : sp_ops F),
  sp_laws K ->
  forall (knots : list F) (degree : nat) (x : F),
  (2 * degree + 1 < length knots)%nat ->
  sp_lt K (sp_kn F K knots degree) (sp_kn F K knots (length knots - 1 - degree)) ->
  exists s : nat,
    sp_nu_find_span F K knots degree x = SpOk s /\
    (degree <= s <= length knots - degree - 2)%nat /\
    (sp_le K x (sp_kn F K knots degree) /\ s = degree \/
     ~ sp_le K x (sp_kn F K knots degree) /\
     sp_le K (sp_kn F K knots (length knots - 1 - degree)) x /\ s = (length knots - degree - 2)%nat \/
     sp_le K (sp_kn F K knots s) x /\ ~ sp_le K (sp_kn F K knots (S s)) x).
Proof. exact sp_nu_find_span_spec. Qed.
Print Assumptions c07_find_span_spec.

(** on the closed domain of a sorted knot list whose first and last cells are not empty, the span is a
    non-empty knot interval containing x, closed on the right only at the right end point *)
Theorem c07_find_span_domain :
  forall (F : Type) (K : sp_ops F),
  sp_laws K ->
  forall (knots : list F) (degree : nat) (x : F),
  sp_sorted F K knots ->
  (2 * degree + 1 < length knots)%nat ->
  sp_lt K (sp_kn F K knots degree) (sp_kn F K knots (S degree)) ->
  sp_lt K (sp_kn F K knots (length knots - degree - 2)) (sp_kn F K knots (length knots - 1 - degree)) ->
  sp_le K (sp_kn F K knots degree) x ->
  sp_le K x (sp_kn F K knots (length knots - 1 - degree)) ->
  exists s : nat,
    sp_nu_find_span F K knots degree x = SpOk s /\
    (degree <= s <= length knots - degree - 2)%nat /\
    sp_lt K (sp_kn F K knots s) (sp_kn F K knots (S s)) /\
    sp_le K (sp_kn F K knots s) x /\
    sp_le K x (sp_kn F K knots (S s)) /\
    (sp_le K (sp_kn F K knots (S s)) x -> s = (length knots - degree - 2)%nat).
Proof. exact sp_nu_find_span_domain. Qed.
Print Assumptions c07_find_span_domain.

(** nu_basis_funs raises nothing inside the guard (no zero denominator, no index error): its result is
    Algorithm A2.2 [sp_A22] = BasisCoxDeBoor.basis_funs with left/right/saved/temp as written *)
Theorem c07_basis_no_error :
  forall (F : Type) (K : sp_ops F),
  sp_laws K ->
  forall (knots : list F) (degree : nat) (x : F) (span : nat),
  sp_sorted F K knots ->
  sp_span_ok F K knots span ->
  (degree <= span)%nat ->
  (span + degree < length knots)%nat ->
  sp_nu_basis_funs F K knots degree x span = SpOk (sp_A22 F K knots degree x span).
Proof. exact sp_nu_basis_funs_ok. Qed.
Print Assumptions c07_basis_no_error.

(** A2.2 returns the degree+1 Cox - de Boor B-splines N_{s-p..s,p}(x) (recursive definition, half-open
    intervals): the spline is the piecewise polynomial defined by knots and degree *)
Theorem c07_basis_eq_coxdeboor :
  forall (F : Type) (K : sp_ops F),
  sp_laws K ->
  forall (knots : list F) (degree : nat) (x : F) (span : nat),
  sp_sorted F K knots ->
  sp_span_ok F K knots span ->
  sp_le K (sp_kn F K knots span) x ->
  ~ sp_le K (sp_kn F K knots (S span)) x ->
  (degree <= span)%nat ->
  sp_A22 F K knots degree x span =
  map (fun q : nat => sp_N F K knots x degree (span - degree + q)) (seq 0 (S degree)).
Proof. exact sp_A22_eq_coxdeboor. Qed.
Print Assumptions c07_basis_eq_coxdeboor.

(** the other Cox - de Boor functions vanish at x (local support) *)
Theorem c07_coxdeboor_local_support :
  forall (F : Type) (K : sp_ops F),
  sp_laws K ->
  forall (knots : list F) (x : F) (k i : nat),
  sp_sorted F K knots ->
  ~ sp_le K (sp_kn F K knots i) x \/ sp_le K (sp_kn F K knots (i + k + 1)) x ->
  sp_N F K knots x k i = sp0 K.
Proof. exact sp_N_support. Qed.
Print Assumptions c07_coxdeboor_local_support.

(** the same on the CLOSED span, hence also at the right end point of the domain: [sp_Nc knots hi] is the
    Cox - de Boor recursion whose degree-0 functions are the half-open indicators, with the value at
    x = knots[hi] taken from the left (last interval closed) *)
Theorem c07_basis_eq_bspline_closed :
  forall (F : Type) (K : sp_ops F),
  sp_laws K ->
  forall (knots : list F) (degree hi : nat) (x : F) (s : nat),
  sp_sorted F K knots ->
  sp_span_ok F K knots s ->
  sp_le K (sp_kn F K knots s) x ->
  sp_le K x (sp_kn F K knots (S s)) ->
  (S s <= hi)%nat ->
  (sp_le K (sp_kn F K knots (S s)) x -> S s = hi) ->
  (degree <= s)%nat ->
  sp_A22 F K knots degree x s =
  map (fun q : nat => sp_Nc F K knots hi x degree (s - degree + q)) (seq 0 (S degree)).
Proof. exact sp_A22_eq_closed. Qed.
Print Assumptions c07_basis_eq_bspline_closed.

(** and [sp_Nc] is the plain Cox - de Boor recursion away from the right end point *)
Theorem c07_bspline_closed_eq_coxdeboor :
  forall (F : Type) (K : sp_ops F),
  sp_laws K ->
  forall (knots : list F) (hi : nat) (x : F) (k i : nat),
  x <> sp_kn F K knots hi -> sp_Nc F K knots hi x k i = sp_N F K knots x k i.
Proof. exact sp_Nc_eq_N. Qed.
Print Assumptions c07_bspline_closed_eq_coxdeboor.

(** partition of unity, for every x (also outside the span: the identity is algebraic) *)
Theorem c07_basis_sum_one :
  forall (F : Type) (K : sp_ops F),
  sp_laws K ->
  forall (knots : list F) (degree : nat) (x : F) (span : nat),
  sp_sorted F K knots ->
  sp_span_ok F K knots span ->
  (degree <= span)%nat -> sumF F (sp0 K) (spadd K) (sp_A22 F K knots degree x span) = sp1 K.
Proof. exact sp_A22_sum_one. Qed.
Print Assumptions c07_basis_sum_one.

(** non-negativity on the closed span t[s] <= x <= t[s+1] (covers the right end point of the domain) *)
Theorem c07_basis_nonneg :
  forall (F : Type) (K : sp_ops F),
  sp_laws K ->
  forall (knots : list F) (degree : nat) (x : F) (span : nat),
  sp_sorted F K knots ->
  sp_span_ok F K knots span ->
  sp_le K (sp_kn F K knots span) x ->
  sp_le K x (sp_kn F K knots (S span)) ->
  (degree <= span)%nat -> sp_all_nonneg F K (sp_A22 F K knots degree x span).
Proof. exact sp_A22_nonneg. Qed.
Print Assumptions c07_basis_nonneg.

(** nu_basis_funs_1st_der raises nothing inside the guard; its result is the saved/temp loop [sp_ders_raw] *)
Theorem c07_ders_no_error :
  forall (F : Type) (K : sp_ops F),
  sp_laws K ->
  forall (knots : list F) (degree : nat) (x : F) (span : nat),
  sp_sorted F K knots ->
  sp_span_ok F K knots span ->
  (1 <= degree)%nat ->
  (degree <= span)%nat ->
  (span + degree < length knots)%nat ->
  sp_nu_basis_funs_1st_der F K knots degree x span = SpOk (sp_ders_raw F K knots degree x span).
Proof. exact sp_nu_basis_funs_1st_der_ok. Qed.
Print Assumptions c07_ders_no_error.

(** the derivatives of the basis sum to zero (for every knot list, degree, x, span) *)
Theorem c07_ders_sum_zero :
  forall (F : Type) (K : sp_ops F),
  sp_laws K ->
  forall (knots : list F) (degree : nat) (x : F) (span : nat),
  sumF F (sp0 K) (spadd K) (sp_ders_raw F K knots degree x span) = sp0 K.
Proof. exact sp_ders_sum_zero. Qed.
Print Assumptions c07_ders_sum_zero.

(** the derivative routine returns p*N_{i,p-1}/(t_{i+p}-t_i) - p*N_{i+1,p-1}/(t_{i+p+1}-t_{i+1}), i = s-p+j (the
    standard derivative formula in terms of the B-splines of degree p-1; [sp_der_T] is one such term).
    That this formula is d/dx of N_{i,p} is the classical identity and is NOT proved here *)
Theorem c07_ders_formula :
  forall (F : Type) (K : sp_ops F),
  sp_laws K ->
  forall (knots : list F) (degree hi : nat) (x : F) (s j : nat),
  sp_sorted F K knots ->
  sp_span_ok F K knots s ->
  sp_le K (sp_kn F K knots s) x ->
  sp_le K x (sp_kn F K knots (S s)) ->
  (S s <= hi)%nat ->
  (sp_le K (sp_kn F K knots (S s)) x -> S s = hi) ->
  (1 <= degree)%nat ->
  (degree <= S s)%nat ->
  (j <= degree)%nat ->
  nth j (sp_ders_raw F K knots degree x s) (sp0 K) =
  spsub K (if (j =? 0)%nat then sp0 K else sp_der_T F K knots hi degree x s (j - 1))
    (if (j =? degree)%nat then sp0 K else sp_der_T F K knots hi degree x s j).
Proof. exact sp_ders_formula. Qed.
Print Assumptions c07_ders_formula.

(** nu_eval_spline_1d_scalar (der 0/1) = sum_j coeffs[span-p+j] * basis[j] *)
Theorem c07_eval_1d_spec :
  forall (F : Type) (K : sp_ops F),
  sp_laws K ->
  forall (knots : list F) (degree : nat) (coeffs : list F) (x : F) (der s : nat),
  sp_sorted F K knots ->
  sp_nu_find_span F K knots degree x = SpOk s ->
  sp_span_ok F K knots s ->
  (der <= 1)%nat ->
  (der <= degree)%nat ->
  (degree <= s)%nat ->
  (s + degree < length knots)%nat ->
  (s < length coeffs)%nat ->
  sp_nu_eval_1d_scalar F K x knots degree coeffs der =
  SpOk
    (sumr F (sp0 K) (spadd K) 0 (S degree)
       (fun j : nat =>
        spmul K (nth (s - degree + j) coeffs (sp0 K))
          (nth j (sp_basis_of F K der knots degree x s) (sp0 K)))).
Proof. exact sp_nu_eval_1d_scalar_spec. Qed.
Print Assumptions c07_eval_1d_spec.

(** hence on a half-open span the value is sum_j c_{s-p+j} N_{s-p+j,p}(x) *)
Theorem c07_eval_1d_coxdeboor :
  forall (F : Type) (K : sp_ops F),
  sp_laws K ->
  forall (knots : list F) (degree : nat) (coeffs : list F) (x : F) (s : nat),
  sp_sorted F K knots ->
  sp_nu_find_span F K knots degree x = SpOk s ->
  sp_span_ok F K knots s ->
  sp_le K (sp_kn F K knots s) x ->
  ~ sp_le K (sp_kn F K knots (S s)) x ->
  (degree <= s)%nat ->
  (s + degree < length knots)%nat ->
  (s < length coeffs)%nat ->
  sp_nu_eval_1d_scalar F K x knots degree coeffs 0 =
  SpOk
    (sumr F (sp0 K) (spadd K) 0 (S degree)
       (fun j : nat =>
        spmul K (nth (s - degree + j) coeffs (sp0 K)) (sp_N F K knots x degree (s - degree + j)))).
Proof. exact sp_nu_eval_1d_coxdeboor. Qed.
Print Assumptions c07_eval_1d_coxdeboor.

(** everywhere in the closed domain (knots and both end points included) the 1-D entry point returns
    a value, never an error, and it is the local sum over the non-empty span that contains x (der 0/1) *)
Theorem c07_eval_1d_domain :
  forall (F : Type) (K : sp_ops F),
  sp_laws K ->
  forall (knots : list F) (degree : nat) (coeffs : list F) (x : F) (der : nat),
  sp_sorted F K knots ->
  (2 * degree + 1 < length knots)%nat ->
  sp_lt K (sp_kn F K knots degree) (sp_kn F K knots (S degree)) ->
  sp_lt K (sp_kn F K knots (length knots - degree - 2)) (sp_kn F K knots (length knots - 1 - degree)) ->
  sp_le K (sp_kn F K knots degree) x ->
  sp_le K x (sp_kn F K knots (length knots - 1 - degree)) ->
  length coeffs = (length knots - degree - 1)%nat ->
  (der <= 1)%nat ->
  (der <= degree)%nat ->
  exists s : nat,
    sp_nu_find_span F K knots degree x = SpOk s /\
    (degree <= s <= length knots - degree - 2)%nat /\
    sp_lt K (sp_kn F K knots s) (sp_kn F K knots (S s)) /\
    sp_le K (sp_kn F K knots s) x /\
    sp_le K x (sp_kn F K knots (S s)) /\
    sp_nu_eval_1d_scalar F K x knots degree coeffs der =
    SpOk
      (sumr F (sp0 K) (spadd K) 0 (S degree)
         (fun j : nat =>
          spmul K (nth (s - degree + j) coeffs (sp0 K))
            (nth j (sp_basis_of F K der knots degree x s) (sp0 K)))).
Proof. exact sp_nu_eval_1d_domain. Qed.
Print Assumptions c07_eval_1d_domain.

(** headline: everywhere in the closed domain the value is the B-spline series sum_j c_{s-p+j} N_{s-p+j,p}(x)
    of the closed domain *)
Theorem c07_eval_1d_closed :
  forall (F : Type) (K : sp_ops F),
  sp_laws K ->
  forall (knots : list F) (degree : nat) (coeffs : list F) (x : F),
  sp_sorted F K knots ->
  (2 * degree + 1 < length knots)%nat ->
  sp_lt K (sp_kn F K knots degree) (sp_kn F K knots (S degree)) ->
  sp_lt K (sp_kn F K knots (length knots - degree - 2)) (sp_kn F K knots (length knots - 1 - degree)) ->
  sp_le K (sp_kn F K knots degree) x ->
  sp_le K x (sp_kn F K knots (length knots - 1 - degree)) ->
  length coeffs = (length knots - degree - 1)%nat ->
  exists s : nat,
    sp_nu_find_span F K knots degree x = SpOk s /\
    (degree <= s <= length knots - degree - 2)%nat /\
    sp_nu_eval_1d_scalar F K x knots degree coeffs 0 =
    SpOk
      (sumr F (sp0 K) (spadd K) 0 (S degree)
         (fun j : nat =>
          spmul K (nth (s - degree + j) coeffs (sp0 K))
            (sp_Nc F K knots (length knots - 1 - degree) x degree (s - degree + j)))).
Proof. exact sp_nu_eval_1d_closed. Qed.
Print Assumptions c07_eval_1d_closed.

(** nu_eval_spline_1d_vector = the scalar entry point at every point (errors included) *)
Theorem c07_vector_eq_map_scalar :
  forall (F : Type) (K : sp_ops F) (knots : list F) (degree : nat) (coeffs : list F)
    (der : nat) (xs : list F),
  (der <= 1)%nat ->
  sp_nu_eval_1d_vector F K xs knots degree coeffs der =
  sp_mapM (fun x : F => sp_nu_eval_1d_scalar F K x knots degree coeffs der) xs.
Proof. exact sp_nu_eval_1d_vector_eq_map. Qed.
Print Assumptions c07_vector_eq_map_scalar.

(** nu_eval_spline_2d_scalar ((der1,der2) in {0,1}^2): the theCoeffs accumulation is the tensor-product sum *)
Theorem c07_eval_2d_tensor_sum :
  forall (F : Type) (K : sp_ops F),
  sp_laws K ->
  forall (k1 : list F) (d1 : nat) (k2 : list F) (d2 : nat) (coeffs : list (list F)) 
    (x y : F) (e1 e2 s1 s2 : nat),
  sp_sorted F K k1 ->
  sp_sorted F K k2 ->
  sp_nu_find_span F K k1 d1 x = SpOk s1 ->
  sp_nu_find_span F K k2 d2 y = SpOk s2 ->
  sp_span_ok F K k1 s1 ->
  sp_span_ok F K k2 s2 ->
  (e1 <= 1)%nat ->
  (e1 <= d1)%nat ->
  (e2 <= 1)%nat ->
  (e2 <= d2)%nat ->
  (d1 <= s1)%nat ->
  (s1 + d1 < length k1)%nat ->
  (d2 <= s2)%nat ->
  (s2 + d2 < length k2)%nat ->
  (s1 < length coeffs)%nat ->
  (forall row : list F, In row coeffs -> (s2 < length row)%nat) ->
  sp_nu_eval_2d_scalar F K x y k1 d1 k2 d2 coeffs e1 e2 =
  SpOk
    (sumr F (sp0 K) (spadd K) 0 (S d1)
       (fun i : nat =>
        spmul K
          (sumr F (sp0 K) (spadd K) 0 (S d2)
             (fun j : nat =>
              spmul K (nth (s2 - d2 + j) (nth (s1 - d1 + i) coeffs []) (sp0 K))
                (nth j (sp_basis_of F K e2 k2 d2 y s2) (sp0 K))))
          (nth i (sp_basis_of F K e1 k1 d1 x s1) (sp0 K)))).
Proof. exact sp_nu_eval_2d_scalar_spec. Qed.
Print Assumptions c07_eval_2d_tensor_sum.

(** nu_eval_spline_2d_cross = the scalar entry point on the grid X x Y *)
Theorem c07_cross_eq_scalar_grid :
  forall (F : Type) (K : sp_ops F) (X Y k1 : list F) (d1 : nat) (k2 : list F)
    (d2 : nat) (coeffs : list (list F)) (e1 e2 : nat) (f : F -> F -> F),
  (e1 <= 1)%nat ->
  (e2 <= 1)%nat ->
  Y <> [] ->
  (forall x y : F,
   In x X -> In y Y -> sp_nu_eval_2d_scalar F K x y k1 d1 k2 d2 coeffs e1 e2 = SpOk (f x y)) ->
  sp_nu_eval_2d_cross F K X Y k1 d1 k2 d2 coeffs e1 e2 = SpOk (map (fun x : F => map (f x) Y) X).
Proof. exact sp_nu_eval_2d_cross_eq_grid. Qed.
Print Assumptions c07_cross_eq_scalar_grid.

(** nu_eval_spline_2d_vector = the scalar entry point at the pairs (x[i], y[i]) *)
Theorem c07_vector2d_eq_scalar_pairs :
  forall (F : Type) (K : sp_ops F) (xs ys k1 : list F) (d1 : nat) (k2 : list F)
    (d2 : nat) (coeffs : list (list F)) (e1 e2 : nat) (f : F -> F -> F),
  (e1 <= 1)%nat ->
  (e2 <= 1)%nat ->
  length xs = length ys ->
  (forall x y : F,
   In (x, y) (combine xs ys) -> sp_nu_eval_2d_scalar F K x y k1 d1 k2 d2 coeffs e1 e2 = SpOk (f x y)) ->
  sp_nu_eval_2d_vector F K xs ys k1 d1 k2 d2 coeffs e1 e2 =
  SpOk (map (fun p : F * F => f (fst p) (snd p)) (combine xs ys)).
Proof. exact sp_nu_eval_2d_vector_eq_zip. Qed.
Print Assumptions c07_vector2d_eq_scalar_pairs.

(** uniform-cubic fast path, values: cu_basis_funs(offset) is A2.2 of degree 3 on the uniform extension
    knot vector t_i = xmin + (i-3) dx at x = t_s + offset*dx (CubicUniform.cu_eq_general) *)
Theorem c07_cu_basis_eq_general :
  forall (F : Type) (K : sp_ops F),
  sp_laws K ->
  forall (xmin dx : F) (n s : nat) (o : F),
  dx <> sp0 K ->
  (3 <= s)%nat ->
  (s + 3 < n + 7)%nat ->
  sp_A22 F K (sp_uniform_knots F K xmin dx n) 3
    (spadd K (tU F (sp0 K) (sp1 K) (spadd K) (spmul K) (spsub K) xmin dx s) (spmul K o dx)) s =
  sp_cu_basis_funs F K o.
Proof. exact sp_cu_basis_eq_A22. Qed.
Print Assumptions c07_cu_basis_eq_general.

(** uniform-cubic fast path, derivatives: cu_basis_funs_1st_der(offset, dx) is nu_basis_funs_1st_der there *)
Theorem c07_cu_ders_eq_general :
  forall (F : Type) (K : sp_ops F),
  sp_laws K ->
  forall (xmin dx : F) (n s : nat) (o : F),
  dx <> sp0 K ->
  (3 <= s)%nat ->
  (s + 3 < n + 7)%nat ->
  sp_ders_raw F K (sp_uniform_knots F K xmin dx n) 3
    (spadd K (tU F (sp0 K) (sp1 K) (spadd K) (spmul K) (spsub K) xmin dx s) (spmul K o dx)) s =
  sp_cu_basis_funs_1st_der F K o dx.
Proof. exact sp_cu_ders_eq_nu. Qed.
Print Assumptions c07_cu_ders_eq_general.

(** cu_basis_funs sums to one for every offset *)
Theorem c07_cu_basis_sum_one :
  forall (F : Type) (K : sp_ops F),
  sp_laws K -> forall o : F, sumF F (sp0 K) (spadd K) (sp_cu_basis_funs F K o) = sp1 K.
Proof. exact sp_cu_basis_sum_one. Qed.
Print Assumptions c07_cu_basis_sum_one.

(** cu_basis_funs_1st_der sums to zero for every offset *)
Theorem c07_cu_ders_sum_zero :
  forall (F : Type) (K : sp_ops F),
  sp_laws K ->
  forall o dx : F, dx <> sp0 K -> sumF F (sp0 K) (spadd K) (sp_cu_basis_funs_1st_der F K o dx) = sp0 K.
Proof. exact sp_cu_ders_sum_zero. Qed.
Print Assumptions c07_cu_ders_sum_zero.

(** cu_eval_spline_1d_scalar = sum_j coeffs[span-3+j]*basis[j] with the (span, offset) of cu_find_span *)
Theorem c07_cu_eval_1d_spec :
  forall (F : Type) (K : sp_ops F),
  sp_laws K ->
  forall (xmin xmax dx fn : F) (rest coeffs : list F) (x : F) (der : nat) (span : Z) (offset : F),
  sp_cu_find_span F K xmin xmax dx x (sptrunc K fn) = SpOk (span, offset) ->
  (der <= 1)%nat ->
  3 <= span ->
  (Z.to_nat span < length coeffs)%nat ->
  sp_cu_eval_1d_scalar F K x (xmin :: xmax :: dx :: fn :: rest) 3 coeffs der =
  SpOk
    (sumr F (sp0 K) (spadd K) 0 4
       (fun j : nat =>
        spmul K (nth (Z.to_nat span - 3 + j) coeffs (sp0 K))
          (nth j
             match der with
             | 0%nat => sp_cu_basis_funs F K offset
             | S _ => sp_cu_basis_funs_1st_der F K offset dx
             end (sp0 K)))).
Proof. exact sp_cu_eval_1d_scalar_spec. Qed.
Print Assumptions c07_cu_eval_1d_spec.

(** cu_eval_spline_1d_vector = the scalar entry point at every point *)
Theorem c07_cu_vector_eq_map_scalar :
  forall (F : Type) (K : sp_ops F) (knots : list F) (degree : nat) (coeffs : list F)
    (der : nat) (xs : list F),
  (der <= 1)%nat ->
  (exists (xmin xmax dx fn : F) (rest : list F), knots = xmin :: xmax :: dx :: fn :: rest) ->
  sp_cu_eval_1d_vector F K xs knots degree coeffs der =
  sp_mapM (fun x : F => sp_cu_eval_1d_scalar F K x knots degree coeffs der) xs.
Proof. exact sp_cu_eval_1d_vector_eq_map. Qed.
Print Assumptions c07_cu_vector_eq_map_scalar.

(** cu_eval_spline_2d_scalar = the tensor-product sum *)
Theorem c07_cu_eval_2d_tensor_sum :
  forall (F : Type) (K : sp_ops F),
  sp_laws K ->
  forall (k1 k2 : list F) (coeffs : list (list F)) (x y : F) (e1 e2 : nat) (xmin xmax dx : F) 
    (ncx : Z) (ymin ymax dy : F) (ncy s1 : Z) (o1 : F) (s2 : Z) (o2 : F),
  sp_cu_unpack F K k1 = SpOk (xmin, xmax, dx, ncx) ->
  sp_cu_unpack F K k2 = SpOk (ymin, ymax, dy, ncy) ->
  sp_cu_find_span F K xmin xmax dx x ncx = SpOk (s1, o1) ->
  sp_cu_find_span F K ymin ymax dy y ncy = SpOk (s2, o2) ->
  (e1 <= 1)%nat ->
  (e2 <= 1)%nat ->
  3 <= s1 ->
  3 <= s2 ->
  (Z.to_nat s1 < length coeffs)%nat ->
  (forall row : list F, In row coeffs -> (Z.to_nat s2 < length row)%nat) ->
  sp_cu_eval_2d_scalar F K x y k1 3 k2 3 coeffs e1 e2 =
  SpOk
    (sumr F (sp0 K) (spadd K) 0 4
       (fun i : nat =>
        spmul K
          (sumr F (sp0 K) (spadd K) 0 4
             (fun j : nat =>
              spmul K (nth (Z.to_nat s2 - 3 + j) (nth (Z.to_nat s1 - 3 + i) coeffs []) (sp0 K))
                (nth j
                   match e2 with
                   | 0%nat => sp_cu_basis_funs F K o2
                   | S _ => sp_cu_basis_funs_1st_der F K o2 dy
                   end (sp0 K))))
          (nth i
             match e1 with
             | 0%nat => sp_cu_basis_funs F K o1
             | S _ => sp_cu_basis_funs_1st_der F K o1 dx
             end (sp0 K)))).
Proof. exact sp_cu_eval_2d_scalar_spec. Qed.
Print Assumptions c07_cu_eval_2d_tensor_sum.

(** cu_eval_spline_2d_cross = the scalar entry point on the grid *)
Theorem c07_cu_cross_eq_scalar_grid :
  forall (F : Type) (K : sp_ops F) (X Y k1 : list F) (d1 : nat) (k2 : list F)
    (d2 : nat) (coeffs : list (list F)) (e1 e2 : nat) (u1 u2 : F * F * F * Z) 
    (f : F -> F -> F),
  sp_cu_unpack F K k1 = SpOk u1 ->
  sp_cu_unpack F K k2 = SpOk u2 ->
  (e1 <= 1)%nat ->
  (e2 <= 1)%nat ->
  Y <> [] ->
  (forall x y : F,
   In x X -> In y Y -> sp_cu_eval_2d_scalar F K x y k1 d1 k2 d2 coeffs e1 e2 = SpOk (f x y)) ->
  sp_cu_eval_2d_cross F K X Y k1 d1 k2 d2 coeffs e1 e2 = SpOk (map (fun x : F => map (f x) Y) X).
Proof. exact sp_cu_eval_2d_cross_eq_grid. Qed.
Print Assumptions c07_cu_cross_eq_scalar_grid.

(** cu_eval_spline_2d_vector = the scalar entry point at the pairs *)
Theorem c07_cu_vector2d_eq_scalar_pairs :
  forall (F : Type) (K : sp_ops F) (xs ys k1 : list F) (d1 : nat) (k2 : list F)
    (d2 : nat) (coeffs : list (list F)) (e1 e2 : nat) (u1 u2 : F * F * F * Z) 
    (f : F -> F -> F),
  sp_cu_unpack F K k1 = SpOk u1 ->
  sp_cu_unpack F K k2 = SpOk u2 ->
  (e1 <= 1)%nat ->
  (e2 <= 1)%nat ->
  length xs = length ys ->
  (forall x y : F,
   In (x, y) (combine xs ys) -> sp_cu_eval_2d_scalar F K x y k1 d1 k2 d2 coeffs e1 e2 = SpOk (f x y)) ->
  sp_cu_eval_2d_vector F K xs ys k1 d1 k2 d2 coeffs e1 e2 =
  SpOk (map (fun p : F * F => f (fst p) (snd p)) (combine xs ys)).
Proof. exact sp_cu_eval_2d_vector_eq_zip. Qed.
Print Assumptions c07_cu_vector2d_eq_scalar_pairs.

(** the laws are satisfiable: the executed instance (canonical rationals) satisfies them *)
Theorem c07_qc_laws : sp_laws spq_ops.
Proof. exact spq_laws. Qed.
Print Assumptions c07_qc_laws.

(** non-vacuity: knots [0;0;0;0;1;2;4;4;4;4], degree 3, coefficients 1..6, evaluated on Qc *)
Definition c07_ex_knots : list Qc := map (fun z => spq_of z 1) [0; 0; 0; 0; 1; 2; 4; 4; 4; 4]%Z.
Definition c07_ex_coeffs : list Qc := map (fun z => spq_of z 1) [1; 2; 3; 4; 5; 6]%Z.

Example c07_ex_hypotheses :
  sp_sorted Qc spq_ops c07_ex_knots /\ (2 * 3 + 1 < length c07_ex_knots)%nat
  /\ sp_lt spq_ops (sp_kn Qc spq_ops c07_ex_knots 3) (sp_kn Qc spq_ops c07_ex_knots 4)
  /\ sp_lt spq_ops (sp_kn Qc spq_ops c07_ex_knots 5) (sp_kn Qc spq_ops c07_ex_knots 6).
Proof.
  split; [|split; [vm_compute; repeat constructor|split; (split; [vm_compute; reflexivity|intros E; discriminate (f_equal spq_show E)])]].
  intros i Hi. do 9 (destruct i as [|i]; [vm_compute; reflexivity|]).
  exfalso. unfold c07_ex_knots in Hi. cbn [length map] in Hi. lia.
Qed.

Example c07_ex_values :
  spq_nu_find_span c07_ex_knots 3 (spq_of 3 2) = SpOk 4%nat
  /\ spq_show_list (spq_nu_basis_funs c07_ex_knots 3 (spq_of 3 2) 4) = SpOk [((1)%Z, 32%positive); ((113)%Z, 192%positive); ((211)%Z, 576%positive); ((1)%Z, 72%positive)]
  /\ spq_show_list (spq_nu_basis_funs_1st_der c07_ex_knots 3 (spq_of 3 2) 4) = SpOk [((-3)%Z, 16%positive); ((-13)%Z, 32%positive); ((49)%Z, 96%positive); ((1)%Z, 12%positive)]
  /\ spq_show_res (spq_nu_eval_1d_scalar (spq_of 3 2) c07_ex_knots 3 c07_ex_coeffs 0) = SpOk ((1937)%Z, 576%positive)
  /\ spq_show_res (spq_nu_eval_1d_scalar (spq_of 0 1) c07_ex_knots 3 c07_ex_coeffs 0) = SpOk ((1)%Z, 1%positive)
  /\ spq_show_res (spq_nu_eval_1d_scalar (spq_of 4 1) c07_ex_knots 3 c07_ex_coeffs 0) = SpOk ((6)%Z, 1%positive)
  /\ spq_show_res (spq_nu_eval_1d_scalar (spq_of 4 1) c07_ex_knots 3 c07_ex_coeffs 1) = SpOk ((3)%Z, 2%positive)
  /\ spq_show_res (spq_nu_eval_1d_scalar (spq_of 4 1) c07_ex_knots 3 c07_ex_coeffs 2) = SpArgErr
  /\ spq_show_list (spq_nu_basis_funs c07_ex_knots 3 (spq_of 0 1) 2) = SpIndexErr
  /\ spq_show_list (spq_nu_basis_funs c07_ex_knots 3 (spq_of 0 1) 6) = SpDivErr.
Proof. vm_compute. repeat split. Qed.

(** the uniform-cubic path on [0,4], 4 cells: x = 3/2 and the right end point x = 4 (span == ncells) *)
Definition c07_ex_cu_knots : list Qc := map (fun z => spq_of z 1) [0; 4; 1; 4]%Z.
Definition c07_ex_cu_coeffs : list Qc := map (fun z => spq_of z 1) [1; 2; 3; 4; 5; 6; 7]%Z.
Example c07_ex_cu :
  match spq_cu_find_span (spq_of 0 1) (spq_of 4 1) (spq_of 1 1) (spq_of 4 1) 4 with SpOk (s, o) => (s, spq_show o) = (6, ((1)%Z, 1%positive)) | _ => False end
  /\ spq_show_res (spq_cu_eval_1d_scalar (spq_of 4 1) c07_ex_cu_knots 3 c07_ex_cu_coeffs 0) = SpOk ((6)%Z, 1%positive)
  /\ spq_show_res (spq_cu_eval_1d_scalar (spq_of 3 2) c07_ex_cu_knots 3 c07_ex_cu_coeffs 0)
     = spq_show_res (spq_nu_eval_1d_scalar (spq_of 3 2) (spq_uniform_knots (spq_of 0 1) (spq_of 1 1) 4) 3 c07_ex_cu_coeffs 0)
  /\ spq_show_res (spq_cu_eval_1d_scalar (spq_of 4 1) c07_ex_cu_knots 3 c07_ex_cu_coeffs 1)
     = spq_show_res (spq_nu_eval_1d_scalar (spq_of 4 1) (spq_uniform_knots (spq_of 0 1) (spq_of 1 1) 4) 3 c07_ex_cu_coeffs 1).
Proof. vm_compute. repeat split. Qed.

(** the B-splines of the closed domain (Cox - de Boor recursion, value from the left at the right end
    point x = knots[6] = 4): clamped end value B_5(4) = 1, and the values of A2.2 at x = 3/2 *)
Example c07_ex_closed :
  map (fun i => spq_show (sp_Nc Qc spq_ops c07_ex_knots 6 (spq_of 4 1) 3 i)) [2; 3; 4; 5]%nat
    = [(0%Z, 1%positive); (0%Z, 1%positive); (0%Z, 1%positive); (1%Z, 1%positive)]
  /\ SpOk (map (fun i => spq_show (sp_Nc Qc spq_ops c07_ex_knots 6 (spq_of 3 2) 3 i)) [1; 2; 3; 4]%nat)
    = spq_show_list (spq_nu_basis_funs c07_ex_knots 3 (spq_of 3 2) 4).
Proof. vm_compute. repeat split. Qed.
