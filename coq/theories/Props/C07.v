(** C07 - spline evaluation equals the mathematical B-spline on every entry point.
    Only statements, [exact]s and [Print Assumptions]; the proofs live in SplineTheory.v (which
    connects the executable model SplineModel.v to the seeds BasisCoxDeBoor.v, FindSpan.v,
    CubicUniform.v) and CoxDeBoorGen.v.  Every theorem holds for every field with a compatible
    decidable total order ([sp_laws]), hence for the instance [spq_ops] on Qc that is extracted and
    run ([c07_qc_laws]).

    Second part (SplinePaths.v, SplineDeriv.v, SplinePeriodic.v, SplineQcTheory.v on CoxDeBoorDeriv.v,
    CoxDeBoorPeriodic.v): the uniform-cubic path equals the general path as equations between the
    executable entry points (1-D/2-D, values and slopes; at Qc without any hypothesis on int()); the
    derivative routines return the formal derivative of the basis (de Boor identity; algebraic Taylor
    characterisation, no real analysis); periodic splines have equal values (degree >= 1) and slopes
    (degree >= 2) at both ends of the period.

    NOT proved here (exercised by harness/props/c07.py only):
    - the formal derivative is not connected to a derivative over the reals (no analysis);
    - the numpy-level dispatch of Spline1D / Spline2D / BSplines, make_knots (its output is
      characterised by hypotheses: sorted / strictly increasing / periodic knots), and
      floating-point rounding. *)
From Coq Require Import List Arith Lia ZArith Bool QArith Qcanon.
Import ListNotations.
From PGV Require Import BasisCoxDeBoor CoxDeBoorGen CoxDeBoorDeriv FindSpan CubicUniform Sums SplineModel SplineTheory SplineQc
  SplinePaths SplineDeriv SplinePeriodic SplineQcTheory.

(** nu_find_span: for every degree and every knot list with 2p+1 < len and t[p] < t[len-1-p] (no other
    assumption: the search invariant does not need sortedness) the search terminates within its fuel,
    the span is in [p, len-p-2], and it is the left clamp (x <= t[p]), the right clamp (x >= t[len-1-p])
    or brackets x: t[s] <= x < t[s+1] *)
Theorem c07_find_span_spec :
  forall (F : Type) (K : sp_ops F),
  sp_laws K ->
  forall (knots : list F) (degree : nat) (x : F),
  (2 * degree + 1 < length knots)%nat ->
  sp_lt K (sp_kn F K knots degree) (sp_kn F K knots (length knots - 1 - degree)) ->
  exists s : nat,
    sp_nu_find_span F K knots degree x = SpOk s /\
    (degree <= s <= length knots - degree - 2)%nat /\
    (sp_le K x (sp_kn F K knots degree) /\ s = degree \/
     ~ sp_le K x (sp_kn F K knots degree) /\
     sp_le K (sp_kn F K knots (length knots - 1 - degree)) x /\ s = (length knots - degree - 2)%nat \/
     sp_le K (sp_kn F K knots s) x /\ ~ sp_le K (sp_kn F K knots (S s)) x).
Proof. exact sp_nu_find_span_spec. Qed.
Print Assumptions c07_find_span_spec.

(** on the closed domain of a sorted knot list whose first and last cells are not empty, the span is a
    non-empty knot interval containing x, closed on the right only at the right end point *)
Theorem c07_find_span_domain :
  forall (F : Type) (K : sp_ops F),
  sp_laws K ->
  forall (knots : list F) (degree : nat) (x : F),
  sp_sorted F K knots ->
  (2 * degree + 1 < length knots)%nat ->
  sp_lt K (sp_kn F K knots degree) (sp_kn F K knots (S degree)) ->
  sp_lt K (sp_kn F K knots (length knots - degree - 2)) (sp_kn F K knots (length knots - 1 - degree)) ->
  sp_le K (sp_kn F K knots degree) x ->
  sp_le K x (sp_kn F K knots (length knots - 1 - degree)) ->
  exists s : nat,
    sp_nu_find_span F K knots degree x = SpOk s /\
    (degree <= s <= length knots - degree - 2)%nat /\
    sp_lt K (sp_kn F K knots s) (sp_kn F K knots (S s)) /\
    sp_le K (sp_kn F K knots s) x /\
    sp_le K x (sp_kn F K knots (S s)) /\
    (sp_le K (sp_kn F K knots (S s)) x -> s = (length knots - degree - 2)%nat).
Proof. exact sp_nu_find_span_domain. Qed.
Print Assumptions c07_find_span_domain.

(** nu_basis_funs raises nothing inside the guard (no zero denominator, no index error): its result is
    Algorithm A2.2 [sp_A22] = BasisCoxDeBoor.basis_funs with left/right/saved/temp as written *)
Theorem c07_basis_no_error :
  forall (F : Type) (K : sp_ops F),
  sp_laws K ->
  forall (knots : list F) (degree : nat) (x : F) (span : nat),
  sp_sorted F K knots ->
  sp_span_ok F K knots span ->
  (degree <= span)%nat ->
  (span + degree < length knots)%nat ->
  sp_nu_basis_funs F K knots degree x span = SpOk (sp_A22 F K knots degree x span).
Proof. exact sp_nu_basis_funs_ok. Qed.
Print Assumptions c07_basis_no_error.

(** A2.2 returns the degree+1 Cox - de Boor B-splines N_{s-p..s,p}(x) (recursive definition, half-open
    intervals): the spline is the piecewise polynomial defined by knots and degree *)
Theorem c07_basis_eq_coxdeboor :
  forall (F : Type) (K : sp_ops F),
  sp_laws K ->
  forall (knots : list F) (degree : nat) (x : F) (span : nat),
  sp_sorted F K knots ->
  sp_span_ok F K knots span ->
  sp_le K (sp_kn F K knots span) x ->
  ~ sp_le K (sp_kn F K knots (S span)) x ->
  (degree <= span)%nat ->
  sp_A22 F K knots degree x span =
  map (fun q : nat => sp_N F K knots x degree (span - degree + q)) (seq 0 (S degree)).
Proof. exact sp_A22_eq_coxdeboor. Qed.
Print Assumptions c07_basis_eq_coxdeboor.

(** the other Cox - de Boor functions vanish at x (local support) *)
Theorem c07_coxdeboor_local_support :
  forall (F : Type) (K : sp_ops F),
  sp_laws K ->
  forall (knots : list F) (x : F) (k i : nat),
  sp_sorted F K knots ->
  ~ sp_le K (sp_kn F K knots i) x \/ sp_le K (sp_kn F K knots (i + k + 1)) x ->
  sp_N F K knots x k i = sp0 K.
Proof. exact sp_N_support. Qed.
Print Assumptions c07_coxdeboor_local_support.

(** the same on the CLOSED span, hence also at the right end point of the domain: [sp_Nc knots hi] is the
    Cox - de Boor recursion whose degree-0 functions are the half-open indicators, with the value at
    x = knots[hi] taken from the left (last interval closed) *)
Theorem c07_basis_eq_bspline_closed :
  forall (F : Type) (K : sp_ops F),
  sp_laws K ->
  forall (knots : list F) (degree hi : nat) (x : F) (s : nat),
  sp_sorted F K knots ->
  sp_span_ok F K knots s ->
  sp_le K (sp_kn F K knots s) x ->
  sp_le K x (sp_kn F K knots (S s)) ->
  (S s <= hi)%nat ->
  (sp_le K (sp_kn F K knots (S s)) x -> S s = hi) ->
  (degree <= s)%nat ->
  sp_A22 F K knots degree x s =
  map (fun q : nat => sp_Nc F K knots hi x degree (s - degree + q)) (seq 0 (S degree)).
Proof. exact sp_A22_eq_closed. Qed.
Print Assumptions c07_basis_eq_bspline_closed.

(** and [sp_Nc] is the plain Cox - de Boor recursion away from the right end point *)
Theorem c07_bspline_closed_eq_coxdeboor :
  forall (F : Type) (K : sp_ops F),
  sp_laws K ->
  forall (knots : list F) (hi : nat) (x : F) (k i : nat),
  x <> sp_kn F K knots hi -> sp_Nc F K knots hi x k i = sp_N F K knots x k i.
Proof. exact sp_Nc_eq_N. Qed.
Print Assumptions c07_bspline_closed_eq_coxdeboor.

(** partition of unity, for every x (also outside the span: the identity is algebraic) *)
Theorem c07_basis_sum_one :
  forall (F : Type) (K : sp_ops F),
  sp_laws K ->
  forall (knots : list F) (degree : nat) (x : F) (span : nat),
  sp_sorted F K knots ->
  sp_span_ok F K knots span ->
  (degree <= span)%nat -> sumF F (sp0 K) (spadd K) (sp_A22 F K knots degree x span) = sp1 K.
Proof. exact sp_A22_sum_one. Qed.
Print Assumptions c07_basis_sum_one.

(** non-negativity on the closed span t[s] <= x <= t[s+1] (covers the right end point of the domain) *)
Theorem c07_basis_nonneg :
  forall (F : Type) (K : sp_ops F),
  sp_laws K ->
  forall (knots : list F) (degree : nat) (x : F) (span : nat),
  sp_sorted F K knots ->
  sp_span_ok F K knots span ->
  sp_le K (sp_kn F K knots span) x ->
  sp_le K x (sp_kn F K knots (S span)) ->
  (degree <= span)%nat -> sp_all_nonneg F K (sp_A22 F K knots degree x span).
Proof. exact sp_A22_nonneg. Qed.
Print Assumptions c07_basis_nonneg.

(** nu_basis_funs_1st_der raises nothing inside the guard; its result is the saved/temp loop [sp_ders_raw] *)
Theorem c07_ders_no_error :
  forall (F : Type) (K : sp_ops F),
  sp_laws K ->
  forall (knots : list F) (degree : nat) (x : F) (span : nat),
  sp_sorted F K knots ->
  sp_span_ok F K knots span ->
  (1 <= degree)%nat ->
  (degree <= span)%nat ->
  (span + degree < length knots)%nat ->
  sp_nu_basis_funs_1st_der F K knots degree x span = SpOk (sp_ders_raw F K knots degree x span).
Proof. exact sp_nu_basis_funs_1st_der_ok. Qed.
Print Assumptions c07_ders_no_error.

(** the derivatives of the basis sum to zero (for every knot list, degree, x, span) *)
Theorem c07_ders_sum_zero :
  forall (F : Type) (K : sp_ops F),
  sp_laws K ->
  forall (knots : list F) (degree : nat) (x : F) (span : nat),
  sumF F (sp0 K) (spadd K) (sp_ders_raw F K knots degree x span) = sp0 K.
Proof. exact sp_ders_sum_zero. Qed.
Print Assumptions c07_ders_sum_zero.

(** the derivative routine returns p*N_{i,p-1}/(t_{i+p}-t_i) - p*N_{i+1,p-1}/(t_{i+p+1}-t_{i+1}), i = s-p+j (the
    standard derivative formula in terms of the B-splines of degree p-1; [sp_der_T] is one such term).
    That this formula is d/dx of N_{i,p} is the classical identity and is NOT proved here *)
Theorem c07_ders_formula :
  forall (F : Type) (K : sp_ops F),
  sp_laws K ->
  forall (knots : list F) (degree hi : nat) (x : F) (s j : nat),
  sp_sorted F K knots ->
  sp_span_ok F K knots s ->
  sp_le K (sp_kn F K knots s) x ->
  sp_le K x (sp_kn F K knots (S s)) ->
  (S s <= hi)%nat ->
  (sp_le K (sp_kn F K knots (S s)) x -> S s = hi) ->
  (1 <= degree)%nat ->
  (degree <= S s)%nat ->
  (j <= degree)%nat ->
  nth j (sp_ders_raw F K knots degree x s) (sp0 K) =
  spsub K (if (j =? 0)%nat then sp0 K else sp_der_T F K knots hi degree x s (j - 1))
    (if (j =? degree)%nat then sp0 K else sp_der_T F K knots hi degree x s j).
Proof. exact sp_ders_formula. Qed.
Print Assumptions c07_ders_formula.

(** nu_eval_spline_1d_scalar (der 0/1) = sum_j coeffs[span-p+j] * basis[j] *)
Theorem c07_eval_1d_spec :
  forall (F : Type) (K : sp_ops F),
  sp_laws K ->
  forall (knots : list F) (degree : nat) (coeffs : list F) (x : F) (der s : nat),
  sp_sorted F K knots ->
  sp_nu_find_span F K knots degree x = SpOk s ->
  sp_span_ok F K knots s ->
  (der <= 1)%nat ->
  (der <= degree)%nat ->
  (degree <= s)%nat ->
  (s + degree < length knots)%nat ->
  (s < length coeffs)%nat ->
  sp_nu_eval_1d_scalar F K x knots degree coeffs der =
  SpOk
    (sumr F (sp0 K) (spadd K) 0 (S degree)
       (fun j : nat =>
        spmul K (nth (s - degree + j) coeffs (sp0 K))
          (nth j (sp_basis_of F K der knots degree x s) (sp0 K)))).
Proof. exact sp_nu_eval_1d_scalar_spec. Qed.
Print Assumptions c07_eval_1d_spec.

(** hence on a half-open span the value is sum_j c_{s-p+j} N_{s-p+j,p}(x) *)
Theorem c07_eval_1d_coxdeboor :
  forall (F : Type) (K : sp_ops F),
  sp_laws K ->
  forall (knots : list F) (degree : nat) (coeffs : list F) (x : F) (s : nat),
  sp_sorted F K knots ->
  sp_nu_find_span F K knots degree x = SpOk s ->
  sp_span_ok F K knots s ->
  sp_le K (sp_kn F K knots s) x ->
  ~ sp_le K (sp_kn F K knots (S s)) x ->
  (degree <= s)%nat ->
  (s + degree < length knots)%nat ->
  (s < length coeffs)%nat ->
  sp_nu_eval_1d_scalar F K x knots degree coeffs 0 =
  SpOk
    (sumr F (sp0 K) (spadd K) 0 (S degree)
       (fun j : nat =>
        spmul K (nth (s - degree + j) coeffs (sp0 K)) (sp_N F K knots x degree (s - degree + j)))).
Proof. exact sp_nu_eval_1d_coxdeboor. Qed.
Print Assumptions c07_eval_1d_coxdeboor.

(** everywhere in the closed domain (knots and both end points included) the 1-D entry point returns
    a value, never an error, and it is the local sum over the non-empty span that contains x (der 0/1) *)
Theorem c07_eval_1d_domain :
  forall (F : Type) (K : sp_ops F),
  sp_laws K ->
  forall (knots : list F) (degree : nat) (coeffs : list F) (x : F) (der : nat),
  sp_sorted F K knots ->
  (2 * degree + 1 < length knots)%nat ->
  sp_lt K (sp_kn F K knots degree) (sp_kn F K knots (S degree)) ->
  sp_lt K (sp_kn F K knots (length knots - degree - 2)) (sp_kn F K knots (length knots - 1 - degree)) ->
  sp_le K (sp_kn F K knots degree) x ->
  sp_le K x (sp_kn F K knots (length knots - 1 - degree)) ->
  length coeffs = (length knots - degree - 1)%nat ->
  (der <= 1)%nat ->
  (der <= degree)%nat ->
  exists s : nat,
    sp_nu_find_span F K knots degree x = SpOk s /\
    (degree <= s <= length knots - degree - 2)%nat /\
    sp_lt K (sp_kn F K knots s) (sp_kn F K knots (S s)) /\
    sp_le K (sp_kn F K knots s) x /\
    sp_le K x (sp_kn F K knots (S s)) /\
    sp_nu_eval_1d_scalar F K x knots degree coeffs der =
    SpOk
      (sumr F (sp0 K) (spadd K) 0 (S degree)
         (fun j : nat =>
          spmul K (nth (s - degree + j) coeffs (sp0 K))
            (nth j (sp_basis_of F K der knots degree x s) (sp0 K)))).
Proof. exact sp_nu_eval_1d_domain. Qed.
Print Assumptions c07_eval_1d_domain.

(** headline: everywhere in the closed domain the value is the B-spline series sum_j c_{s-p+j} N_{s-p+j,p}(x)
    of the closed domain *)
Theorem c07_eval_1d_closed :
  forall (F : Type) (K : sp_ops F),
  sp_laws K ->
  forall (knots : list F) (degree : nat) (coeffs : list F) (x : F),
  sp_sorted F K knots ->
  (2 * degree + 1 < length knots)%nat ->
  sp_lt K (sp_kn F K knots degree) (sp_kn F K knots (S degree)) ->
  sp_lt K (sp_kn F K knots (length knots - degree - 2)) (sp_kn F K knots (length knots - 1 - degree)) ->
  sp_le K (sp_kn F K knots degree) x ->
  sp_le K x (sp_kn F K knots (length knots - 1 - degree)) ->
  length coeffs = (length knots - degree - 1)%nat ->
  exists s : nat,
    sp_nu_find_span F K knots degree x = SpOk s /\
    (degree <= s <= length knots - degree - 2)%nat /\
    sp_nu_eval_1d_scalar F K x knots degree coeffs 0 =
    SpOk
      (sumr F (sp0 K) (spadd K) 0 (S degree)
         (fun j : nat =>
          spmul K (nth (s - degree + j) coeffs (sp0 K))
            (sp_Nc F K knots (length knots - 1 - degree) x degree (s - degree + j)))).
Proof. exact sp_nu_eval_1d_closed. Qed.
Print Assumptions c07_eval_1d_closed.

(** nu_eval_spline_1d_vector = the scalar entry point at every point (errors included) *)
Theorem c07_vector_eq_map_scalar :
  forall (F : Type) (K : sp_ops F) (knots : list F) (degree : nat) (coeffs : list F)
    (der : nat) (xs : list F),
  (der <= 1)%nat ->
  sp_nu_eval_1d_vector F K xs knots degree coeffs der =
  sp_mapM (fun x : F => sp_nu_eval_1d_scalar F K x knots degree coeffs der) xs.
Proof. exact sp_nu_eval_1d_vector_eq_map. Qed.
Print Assumptions c07_vector_eq_map_scalar.

(** nu_eval_spline_2d_scalar ((der1,der2) in {0,1}^2): the theCoeffs accumulation is the tensor-product sum *)
Theorem c07_eval_2d_tensor_sum :
  forall (F : Type) (K : sp_ops F),
  sp_laws K ->
  forall (k1 : list F) (d1 : nat) (k2 : list F) (d2 : nat) (coeffs : list (list F)) 
    (x y : F) (e1 e2 s1 s2 : nat),
  sp_sorted F K k1 ->
  sp_sorted F K k2 ->
  sp_nu_find_span F K k1 d1 x = SpOk s1 ->
  sp_nu_find_span F K k2 d2 y = SpOk s2 ->
  sp_span_ok F K k1 s1 ->
  sp_span_ok F K k2 s2 ->
  (e1 <= 1)%nat ->
  (e1 <= d1)%nat ->
  (e2 <= 1)%nat ->
  (e2 <= d2)%nat ->
  (d1 <= s1)%nat ->
  (s1 + d1 < length k1)%nat ->
  (d2 <= s2)%nat ->
  (s2 + d2 < length k2)%nat ->
  (s1 < length coeffs)%nat ->
  (forall row : list F, In row coeffs -> (s2 < length row)%nat) ->
  sp_nu_eval_2d_scalar F K x y k1 d1 k2 d2 coeffs e1 e2 =
  SpOk
    (sumr F (sp0 K) (spadd K) 0 (S d1)
       (fun i : nat =>
        spmul K
          (sumr F (sp0 K) (spadd K) 0 (S d2)
             (fun j : nat =>
              spmul K (nth (s2 - d2 + j) (nth (s1 - d1 + i) coeffs []) (sp0 K))
                (nth j (sp_basis_of F K e2 k2 d2 y s2) (sp0 K))))
          (nth i (sp_basis_of F K e1 k1 d1 x s1) (sp0 K)))).
Proof. exact sp_nu_eval_2d_scalar_spec. Qed.
Print Assumptions c07_eval_2d_tensor_sum.

(** nu_eval_spline_2d_cross = the scalar entry point on the grid X x Y *)
Theorem c07_cross_eq_scalar_grid :
  forall (F : Type) (K : sp_ops F) (X Y k1 : list F) (d1 : nat) (k2 : list F)
    (d2 : nat) (coeffs : list (list F)) (e1 e2 : nat) (f : F -> F -> F),
  (e1 <= 1)%nat ->
  (e2 <= 1)%nat ->
  Y <> [] ->
  (forall x y : F,
   In x X -> In y Y -> sp_nu_eval_2d_scalar F K x y k1 d1 k2 d2 coeffs e1 e2 = SpOk (f x y)) ->
  sp_nu_eval_2d_cross F K X Y k1 d1 k2 d2 coeffs e1 e2 = SpOk (map (fun x : F => map (f x) Y) X).
Proof. exact sp_nu_eval_2d_cross_eq_grid. Qed.
Print Assumptions c07_cross_eq_scalar_grid.

(** nu_eval_spline_2d_vector = the scalar entry point at the pairs (x[i], y[i]) *)
Theorem c07_vector2d_eq_scalar_pairs :
  forall (F : Type) (K : sp_ops F) (xs ys k1 : list F) (d1 : nat) (k2 : list F)
    (d2 : nat) (coeffs : list (list F)) (e1 e2 : nat) (f : F -> F -> F),
  (e1 <= 1)%nat ->
  (e2 <= 1)%nat ->
  length xs = length ys ->
  (forall x y : F,
   In (x, y) (combine xs ys) -> sp_nu_eval_2d_scalar F K x y k1 d1 k2 d2 coeffs e1 e2 = SpOk (f x y)) ->
  sp_nu_eval_2d_vector F K xs ys k1 d1 k2 d2 coeffs e1 e2 =
  SpOk (map (fun p : F * F => f (fst p) (snd p)) (combine xs ys)).
Proof. exact sp_nu_eval_2d_vector_eq_zip. Qed.
Print Assumptions c07_vector2d_eq_scalar_pairs.

(** uniform-cubic fast path, values: cu_basis_funs(offset) is A2.2 of degree 3 on the uniform extension
    knot vector t_i = xmin + (i-3) dx at x = t_s + offset*dx (CubicUniform.cu_eq_general) *)
Theorem c07_cu_basis_eq_general :
  forall (F : Type) (K : sp_ops F),
  sp_laws K ->
  forall (xmin dx : F) (n s : nat) (o : F),
  dx <> sp0 K ->
  (3 <= s)%nat ->
  (s + 3 < n + 7)%nat ->
  sp_A22 F K (sp_uniform_knots F K xmin dx n) 3
    (spadd K (tU F (sp0 K) (sp1 K) (spadd K) (spmul K) (spsub K) xmin dx s) (spmul K o dx)) s =
  sp_cu_basis_funs F K o.
Proof. exact sp_cu_basis_eq_A22. Qed.
Print Assumptions c07_cu_basis_eq_general.

(** uniform-cubic fast path, derivatives: cu_basis_funs_1st_der(offset, dx) is nu_basis_funs_1st_der there *)
Theorem c07_cu_ders_eq_general :
  forall (F : Type) (K : sp_ops F),
  sp_laws K ->
  forall (xmin dx : F) (n s : nat) (o : F),
  dx <> sp0 K ->
  (3 <= s)%nat ->
  (s + 3 < n + 7)%nat ->
  sp_ders_raw F K (sp_uniform_knots F K xmin dx n) 3
    (spadd K (tU F (sp0 K) (sp1 K) (spadd K) (spmul K) (spsub K) xmin dx s) (spmul K o dx)) s =
  sp_cu_basis_funs_1st_der F K o dx.
Proof. exact sp_cu_ders_eq_nu. Qed.
Print Assumptions c07_cu_ders_eq_general.

(** cu_basis_funs sums to one for every offset *)
Theorem c07_cu_basis_sum_one :
  forall (F : Type) (K : sp_ops F),
  sp_laws K -> forall o : F, sumF F (sp0 K) (spadd K) (sp_cu_basis_funs F K o) = sp1 K.
Proof. exact sp_cu_basis_sum_one. Qed.
Print Assumptions c07_cu_basis_sum_one.

(** cu_basis_funs_1st_der sums to zero for every offset *)
Theorem c07_cu_ders_sum_zero :
  forall (F : Type) (K : sp_ops F),
  sp_laws K ->
  forall o dx : F, dx <> sp0 K -> sumF F (sp0 K) (spadd K) (sp_cu_basis_funs_1st_der F K o dx) = sp0 K.
Proof. exact sp_cu_ders_sum_zero. Qed.
Print Assumptions c07_cu_ders_sum_zero.

(** cu_eval_spline_1d_scalar = sum_j coeffs[span-3+j]*basis[j] with the (span, offset) of cu_find_span *)
Theorem c07_cu_eval_1d_spec :
  forall (F : Type) (K : sp_ops F),
  sp_laws K ->
  forall (xmin xmax dx fn : F) (rest coeffs : list F) (x : F) (der : nat) (span : Z) (offset : F),
  sp_cu_find_span F K xmin xmax dx x (sptrunc K fn) = SpOk (span, offset) ->
  (der <= 1)%nat ->
  3 <= span ->
  (Z.to_nat span < length coeffs)%nat ->
  sp_cu_eval_1d_scalar F K x (xmin :: xmax :: dx :: fn :: rest) 3 coeffs der =
  SpOk
    (sumr F (sp0 K) (spadd K) 0 4
       (fun j : nat =>
        spmul K (nth (Z.to_nat span - 3 + j) coeffs (sp0 K))
          (nth j
             match der with
             | 0%nat => sp_cu_basis_funs F K offset
             | S _ => sp_cu_basis_funs_1st_der F K offset dx
             end (sp0 K)))).
Proof. exact sp_cu_eval_1d_scalar_spec. Qed.
Print Assumptions c07_cu_eval_1d_spec.

(** cu_eval_spline_1d_vector = the scalar entry point at every point *)
Theorem c07_cu_vector_eq_map_scalar :
  forall (F : Type) (K : sp_ops F) (knots : list F) (degree : nat) (coeffs : list F)
    (der : nat) (xs : list F),
  (der <= 1)%nat ->
  (exists (xmin xmax dx fn : F) (rest : list F), knots = xmin :: xmax :: dx :: fn :: rest) ->
  sp_cu_eval_1d_vector F K xs knots degree coeffs der =
  sp_mapM (fun x : F => sp_cu_eval_1d_scalar F K x knots degree coeffs der) xs.
Proof. exact sp_cu_eval_1d_vector_eq_map. Qed.
Print Assumptions c07_cu_vector_eq_map_scalar.

(** cu_eval_spline_2d_scalar = the tensor-product sum *)
Theorem c07_cu_eval_2d_tensor_sum :
  forall (F : Type) (K : sp_ops F),
  sp_laws K ->
  forall (k1 k2 : list F) (coeffs : list (list F)) (x y : F) (e1 e2 : nat) (xmin xmax dx : F) 
    (ncx : Z) (ymin ymax dy : F) (ncy s1 : Z) (o1 : F) (s2 : Z) (o2 : F),
  sp_cu_unpack F K k1 = SpOk (xmin, xmax, dx, ncx) ->
  sp_cu_unpack F K k2 = SpOk (ymin, ymax, dy, ncy) ->
  sp_cu_find_span F K xmin xmax dx x ncx = SpOk (s1, o1) ->
  sp_cu_find_span F K ymin ymax dy y ncy = SpOk (s2, o2) ->
  (e1 <= 1)%nat ->
  (e2 <= 1)%nat ->
  3 <= s1 ->
  3 <= s2 ->
  (Z.to_nat s1 < length coeffs)%nat ->
  (forall row : list F, In row coeffs -> (Z.to_nat s2 < length row)%nat) ->
  sp_cu_eval_2d_scalar F K x y k1 3 k2 3 coeffs e1 e2 =
  SpOk
    (sumr F (sp0 K) (spadd K) 0 4
       (fun i : nat =>
        spmul K
          (sumr F (sp0 K) (spadd K) 0 4
             (fun j : nat =>
              spmul K (nth (Z.to_nat s2 - 3 + j) (nth (Z.to_nat s1 - 3 + i) coeffs []) (sp0 K))
                (nth j
                   match e2 with
                   | 0%nat => sp_cu_basis_funs F K o2
                   | S _ => sp_cu_basis_funs_1st_der F K o2 dy
                   end (sp0 K))))
          (nth i
             match e1 with
             | 0%nat => sp_cu_basis_funs F K o1
             | S _ => sp_cu_basis_funs_1st_der F K o1 dx
             end (sp0 K)))).
Proof. exact sp_cu_eval_2d_scalar_spec. Qed.
Print Assumptions c07_cu_eval_2d_tensor_sum.

(** cu_eval_spline_2d_cross = the scalar entry point on the grid *)
Theorem c07_cu_cross_eq_scalar_grid :
  forall (F : Type) (K : sp_ops F) (X Y k1 : list F) (d1 : nat) (k2 : list F)
    (d2 : nat) (coeffs : list (list F)) (e1 e2 : nat) (u1 u2 : F * F * F * Z) 
    (f : F -> F -> F),
  sp_cu_unpack F K k1 = SpOk u1 ->
  sp_cu_unpack F K k2 = SpOk u2 ->
  (e1 <= 1)%nat ->
  (e2 <= 1)%nat ->
  Y <> [] ->
  (forall x y : F,
   In x X -> In y Y -> sp_cu_eval_2d_scalar F K x y k1 d1 k2 d2 coeffs e1 e2 = SpOk (f x y)) ->
  sp_cu_eval_2d_cross F K X Y k1 d1 k2 d2 coeffs e1 e2 = SpOk (map (fun x : F => map (f x) Y) X).
Proof. exact sp_cu_eval_2d_cross_eq_grid. Qed.
Print Assumptions c07_cu_cross_eq_scalar_grid.

(** cu_eval_spline_2d_vector = the scalar entry point at the pairs *)
Theorem c07_cu_vector2d_eq_scalar_pairs :
  forall (F : Type) (K : sp_ops F) (xs ys k1 : list F) (d1 : nat) (k2 : list F)
    (d2 : nat) (coeffs : list (list F)) (e1 e2 : nat) (u1 u2 : F * F * F * Z) 
    (f : F -> F -> F),
  sp_cu_unpack F K k1 = SpOk u1 ->
  sp_cu_unpack F K k2 = SpOk u2 ->
  (e1 <= 1)%nat ->
  (e2 <= 1)%nat ->
  length xs = length ys ->
  (forall x y : F,
   In (x, y) (combine xs ys) -> sp_cu_eval_2d_scalar F K x y k1 d1 k2 d2 coeffs e1 e2 = SpOk (f x y)) ->
  sp_cu_eval_2d_vector F K xs ys k1 d1 k2 d2 coeffs e1 e2 =
  SpOk (map (fun p : F * F => f (fst p) (snd p)) (combine xs ys)).
Proof. exact sp_cu_eval_2d_vector_eq_zip. Qed.
Print Assumptions c07_cu_vector2d_eq_scalar_pairs.

(** cu_find_span on [xmin, xmax] (xmax = xmin + ncells*dx, ncells >= 1, dx > 0), given the floor law of int()
    [sp_trunc_ok]: the span is in [3, ncells+2], x = t_span + offset*dx on the uniform extension knots, 0 <= offset <= 1,
    and offset = 1 only in the span == ncells branch (x = xmax, span ncells+2) *)
Theorem c07_cu_find_span_spec :
  forall (F : Type) (K : sp_ops F),
  sp_laws K ->
  forall (xmin xmax dx x : F) (n : nat),
  sp_trunc_ok F K ->
  (1 <= n)%nat ->
  sp_lt K (sp0 K) dx ->
  xmax = spadd K xmin (spmul K (sp_ofnat F K n) dx) ->
  sp_le K xmin x ->
  sp_le K x xmax ->
  exists (s : nat) (o : F),
    sp_cu_find_span F K xmin xmax dx x (Z.of_nat n) = SpOk (Z.of_nat s, o) /\
    (3 <= s <= n + 2)%nat /\
    x = spadd K (tU F (sp0 K) (sp1 K) (spadd K) (spmul K) (spsub K) xmin dx s) (spmul K o dx) /\
    sp_le K (sp0 K) o /\ sp_le K o (sp1 K) /\ (o = sp1 K -> s = (n + 2)%nat).
Proof. exact sp_cu_find_span_spec. Qed.
Print Assumptions c07_cu_find_span_spec.

(** hence the uniform-cubic 1-D entry point returns, everywhere on [xmin, xmax] (x = xmax included), the B-spline
    series of the closed domain on the uniform extension knot vector - the function that the general path evaluates
    on that knot vector (c07_eval_1d_closed) *)
Theorem c07_cu_eval_1d_closed :
  forall (F : Type) (K : sp_ops F),
  sp_laws K ->
  forall (xmin xmax dx fn : F) (rest : list F) (n : nat) (coeffs : list F) (x : F),
  sp_trunc_ok F K ->
  (1 <= n)%nat ->
  sp_lt K (sp0 K) dx ->
  xmax = spadd K xmin (spmul K (sp_ofnat F K n) dx) ->
  sptrunc K fn = Z.of_nat n ->
  sp_le K xmin x ->
  sp_le K x xmax ->
  length coeffs = (n + 3)%nat ->
  exists s : nat,
    (3 <= s <= n + 2)%nat /\
    sp_cu_eval_1d_scalar F K x (xmin :: xmax :: dx :: fn :: rest) 3 coeffs 0 =
    SpOk
      (sumr F (sp0 K) (spadd K) 0 4
         (fun j : nat =>
          spmul K (nth (s - 3 + j) coeffs (sp0 K))
            (sp_Nc F K (sp_uniform_knots F K xmin dx n) (n + 3) x 3 (s - 3 + j)))).
Proof. exact sp_cu_eval_1d_closed. Qed.
Print Assumptions c07_cu_eval_1d_closed.

(** the executed int() (truncation of num/den towards zero) satisfies the floor law on non-negative rationals *)
Theorem c07_qc_trunc_ok :
  sp_trunc_ok Qc spq_ops.
Proof. exact spq_trunc_ok. Qed.
Print Assumptions c07_qc_trunc_ok.

(** cu_find_span at the executed instance, no hypothesis on int() left *)
Theorem c07_qc_cu_find_span_spec :
  forall (xmin xmax dx x : Qc) (n : nat),
  (1 <= n)%nat ->
  sp_lt spq_ops (sp0 spq_ops) dx ->
  xmax = (xmin + spq_ofnat n * dx)%Qc ->
  sp_le spq_ops xmin x ->
  sp_le spq_ops x xmax ->
  exists (s : nat) (o : Qc),
    spq_cu_find_span xmin xmax dx x (Z.of_nat n) = SpOk (Z.of_nat s, o) /\
    (3 <= s <= n + 2)%nat /\
    x = (spq_tU xmin dx s + o * dx)%Qc /\
    sp_le spq_ops (sp0 spq_ops) o /\
    sp_le spq_ops o (sp1 spq_ops) /\ (o = sp1 spq_ops -> s = (n + 2)%nat).
Proof. exact spq_cu_find_span_spec. Qed.
Print Assumptions c07_qc_cu_find_span_spec.

(** cu_eval_spline_1d_scalar at the executed instance: the B-spline series on the uniform extension knots *)
Theorem c07_qc_cu_eval_1d_closed :
  forall (xmin xmax dx fn : Qc) (rest : list Qc) (n : nat) (coeffs : list Qc) (x : Qc),
  (1 <= n)%nat ->
  sp_lt spq_ops (sp0 spq_ops) dx ->
  xmax = (xmin + spq_ofnat n * dx)%Qc ->
  spq_trunc fn = Z.of_nat n ->
  sp_le spq_ops xmin x ->
  sp_le spq_ops x xmax ->
  length coeffs = (n + 3)%nat ->
  exists s : nat,
    (3 <= s <= n + 2)%nat /\
    spq_cu_eval_1d_scalar x (xmin :: xmax :: dx :: fn :: rest) 3 coeffs 0 =
    SpOk
      (sumr Qc (sp0 spq_ops) Qcplus 0 4
         (fun j : nat =>
          (nth (s - 3 + j) coeffs (sp0 spq_ops) *
           sp_Nc Qc spq_ops (spq_uniform_knots xmin dx n) (n + 3) x 3 (s - 3 + j))%Qc)).
Proof. exact spq_cu_eval_1d_closed. Qed.
Print Assumptions c07_qc_cu_eval_1d_closed.

(** uniform-cubic path = general path, step 1: on [xmin, xmax] nu_find_span on the uniform extension knot vector
    returns the span of cu_find_span (uniqueness of the closed span that contains x) *)
Theorem c07_cu_span_eq_nu_span :
  forall (F : Type) (K : sp_ops F),
  sp_laws K ->
  forall (xmin xmax dx x : F) (n : nat),
  sp_trunc_ok F K ->
  (1 <= n)%nat ->
  sp_lt K (sp0 K) dx ->
  xmax = spadd K xmin (spmul K (sp_ofnat F K n) dx) ->
  sp_le K xmin x ->
  sp_le K x xmax ->
  exists (s : nat) (o : F),
    sp_cu_find_span F K xmin xmax dx x (Z.of_nat n) = SpOk (Z.of_nat s, o) /\
    sp_nu_find_span F K (sp_uniform_knots F K xmin dx n) 3 x = SpOk s /\
    (3 <= s <= n + 2)%nat /\
    x = spadd K (tU F (sp0 K) (sp1 K) (spadd K) (spmul K) (spsub K) xmin dx s) (spmul K o dx) /\
    sp_span_ok F K (sp_uniform_knots F K xmin dx n) s.
Proof. exact sp_cu_span_eq_nu_span. Qed.
Print Assumptions c07_cu_span_eq_nu_span.

(** uniform-cubic path = general path as an EQUATION between the two executable entry points, everywhere on the
    closed domain [xmin, xmax] (x = xmax: the span == ncells branch), values (der = 0) and slopes (der = 1) *)
Theorem c07_cu_path_eq_nu_path_1d :
  forall (F : Type) (K : sp_ops F),
  sp_laws K ->
  forall (xmin xmax dx fn : F) (rest : list F) (n : nat) (coeffs : list F) (x : F) (der : nat),
  sp_trunc_ok F K ->
  (1 <= n)%nat ->
  sp_lt K (sp0 K) dx ->
  xmax = spadd K xmin (spmul K (sp_ofnat F K n) dx) ->
  sptrunc K fn = Z.of_nat n ->
  sp_le K xmin x ->
  sp_le K x xmax ->
  length coeffs = (n + 3)%nat ->
  (der <= 1)%nat ->
  sp_cu_eval_1d_scalar F K x (xmin :: xmax :: dx :: fn :: rest) 3 coeffs der =
  sp_nu_eval_1d_scalar F K x (sp_uniform_knots F K xmin dx n) 3 coeffs der.
Proof. exact sp_cu_path_eq_nu_path_1d. Qed.
Print Assumptions c07_cu_path_eq_nu_path_1d.

(** the same for the vector entry points *)
Theorem c07_cu_path_eq_nu_path_1d_vector :
  forall (F : Type) (K : sp_ops F),
  sp_laws K ->
  forall (xmin xmax dx fn : F) (rest : list F) (n : nat) (coeffs xs : list F) (der : nat),
  sp_trunc_ok F K ->
  (1 <= n)%nat ->
  sp_lt K (sp0 K) dx ->
  xmax = spadd K xmin (spmul K (sp_ofnat F K n) dx) ->
  sptrunc K fn = Z.of_nat n ->
  (forall x : F, In x xs -> sp_le K xmin x /\ sp_le K x xmax) ->
  length coeffs = (n + 3)%nat ->
  (der <= 1)%nat ->
  sp_cu_eval_1d_vector F K xs (xmin :: xmax :: dx :: fn :: rest) 3 coeffs der =
  sp_nu_eval_1d_vector F K xs (sp_uniform_knots F K xmin dx n) 3 coeffs der.
Proof. exact sp_cu_path_eq_nu_path_1d_vector. Qed.
Print Assumptions c07_cu_path_eq_nu_path_1d_vector.

(** the same for the 2-D scalar entry points, (der1, der2) in {0,1}^2 *)
Theorem c07_cu_path_eq_nu_path_2d :
  forall (F : Type) (K : sp_ops F),
  sp_laws K ->
  forall (xmin xmax dx fnx : F) (restx : list F) (nx : nat) (ymin ymax dy fny : F) 
    (resty : list F) (ny : nat) (coeffs : list (list F)) (x y : F) (e1 e2 : nat),
  sp_trunc_ok F K ->
  (1 <= nx)%nat ->
  (1 <= ny)%nat ->
  sp_lt K (sp0 K) dx ->
  sp_lt K (sp0 K) dy ->
  xmax = spadd K xmin (spmul K (sp_ofnat F K nx) dx) ->
  ymax = spadd K ymin (spmul K (sp_ofnat F K ny) dy) ->
  sptrunc K fnx = Z.of_nat nx ->
  sptrunc K fny = Z.of_nat ny ->
  sp_le K xmin x ->
  sp_le K x xmax ->
  sp_le K ymin y ->
  sp_le K y ymax ->
  length coeffs = (nx + 3)%nat ->
  (forall row : list F, In row coeffs -> length row = (ny + 3)%nat) ->
  (e1 <= 1)%nat ->
  (e2 <= 1)%nat ->
  sp_cu_eval_2d_scalar F K x y (xmin :: xmax :: dx :: fnx :: restx) 3
    (ymin :: ymax :: dy :: fny :: resty) 3 coeffs e1 e2 =
  sp_nu_eval_2d_scalar F K x y (sp_uniform_knots F K xmin dx nx) 3 (sp_uniform_knots F K ymin dy ny) 3
    coeffs e1 e2.
Proof. exact sp_cu_path_eq_nu_path_2d. Qed.
Print Assumptions c07_cu_path_eq_nu_path_2d.

(** the same for the 2-D tensor-grid entry points *)
Theorem c07_cu_path_eq_nu_path_2d_cross :
  forall (F : Type) (K : sp_ops F),
  sp_laws K ->
  forall (xmin xmax dx fnx : F) (restx : list F) (nx : nat) (ymin ymax dy fny : F) 
    (resty : list F) (ny : nat) (coeffs : list (list F)) (X Y : list F) (e1 e2 : nat),
  sp_trunc_ok F K ->
  (1 <= nx)%nat ->
  (1 <= ny)%nat ->
  sp_lt K (sp0 K) dx ->
  sp_lt K (sp0 K) dy ->
  xmax = spadd K xmin (spmul K (sp_ofnat F K nx) dx) ->
  ymax = spadd K ymin (spmul K (sp_ofnat F K ny) dy) ->
  sptrunc K fnx = Z.of_nat nx ->
  sptrunc K fny = Z.of_nat ny ->
  (forall x : F, In x X -> sp_le K xmin x /\ sp_le K x xmax) ->
  (forall y : F, In y Y -> sp_le K ymin y /\ sp_le K y ymax) ->
  Y <> [] ->
  length coeffs = (nx + 3)%nat ->
  (forall row : list F, In row coeffs -> length row = (ny + 3)%nat) ->
  (e1 <= 1)%nat ->
  (e2 <= 1)%nat ->
  sp_cu_eval_2d_cross F K X Y (xmin :: xmax :: dx :: fnx :: restx) 3
    (ymin :: ymax :: dy :: fny :: resty) 3 coeffs e1 e2 =
  sp_nu_eval_2d_cross F K X Y (sp_uniform_knots F K xmin dx nx) 3 (sp_uniform_knots F K ymin dy ny) 3
    coeffs e1 e2.
Proof. exact sp_cu_path_eq_nu_path_2d_cross. Qed.
Print Assumptions c07_cu_path_eq_nu_path_2d_cross.

(** the same for the 2-D pairwise entry points *)
Theorem c07_cu_path_eq_nu_path_2d_vector :
  forall (F : Type) (K : sp_ops F),
  sp_laws K ->
  forall (xmin xmax dx fnx : F) (restx : list F) (nx : nat) (ymin ymax dy fny : F) 
    (resty : list F) (ny : nat) (coeffs : list (list F)) (xs ys : list F) (e1 e2 : nat),
  sp_trunc_ok F K ->
  (1 <= nx)%nat ->
  (1 <= ny)%nat ->
  sp_lt K (sp0 K) dx ->
  sp_lt K (sp0 K) dy ->
  xmax = spadd K xmin (spmul K (sp_ofnat F K nx) dx) ->
  ymax = spadd K ymin (spmul K (sp_ofnat F K ny) dy) ->
  sptrunc K fnx = Z.of_nat nx ->
  sptrunc K fny = Z.of_nat ny ->
  (forall x : F, In x xs -> sp_le K xmin x /\ sp_le K x xmax) ->
  (forall y : F, In y ys -> sp_le K ymin y /\ sp_le K y ymax) ->
  length xs = length ys ->
  length coeffs = (nx + 3)%nat ->
  (forall row : list F, In row coeffs -> length row = (ny + 3)%nat) ->
  (e1 <= 1)%nat ->
  (e2 <= 1)%nat ->
  sp_cu_eval_2d_vector F K xs ys (xmin :: xmax :: dx :: fnx :: restx) 3
    (ymin :: ymax :: dy :: fny :: resty) 3 coeffs e1 e2 =
  sp_nu_eval_2d_vector F K xs ys (sp_uniform_knots F K xmin dx nx) 3 (sp_uniform_knots F K ymin dy ny) 3
    coeffs e1 e2.
Proof. exact sp_cu_path_eq_nu_path_2d_vector. Qed.
Print Assumptions c07_cu_path_eq_nu_path_2d_vector.

(** path equality at the executed instance (no hypothesis on int()), 1-D *)
Theorem c07_qc_cu_path_eq_nu_path_1d :
  forall (xmin xmax dx fn : Qc) (rest : list Qc) (n : nat) (coeffs : list Qc) (x : Qc) (der : nat),
  (1 <= n)%nat ->
  sp_lt spq_ops (sp0 spq_ops) dx ->
  xmax = (xmin + spq_ofnat n * dx)%Qc ->
  spq_trunc fn = Z.of_nat n ->
  sp_le spq_ops xmin x ->
  sp_le spq_ops x xmax ->
  length coeffs = (n + 3)%nat ->
  (der <= 1)%nat ->
  spq_cu_eval_1d_scalar x (xmin :: xmax :: dx :: fn :: rest) 3 coeffs der =
  spq_nu_eval_1d_scalar x (spq_uniform_knots xmin dx n) 3 coeffs der.
Proof. exact spq_cu_path_eq_nu_path_1d. Qed.
Print Assumptions c07_qc_cu_path_eq_nu_path_1d.

(** path equality at the executed instance, 2-D *)
Theorem c07_qc_cu_path_eq_nu_path_2d :
  forall (xmin xmax dx fnx : Qc) (restx : list Qc) (nx : nat) (ymin ymax dy fny : Qc)
    (resty : list Qc) (ny : nat) (coeffs : list (list Qc)) (x y : Qc) (e1 e2 : nat),
  (1 <= nx)%nat ->
  (1 <= ny)%nat ->
  sp_lt spq_ops (sp0 spq_ops) dx ->
  sp_lt spq_ops (sp0 spq_ops) dy ->
  xmax = (xmin + spq_ofnat nx * dx)%Qc ->
  ymax = (ymin + spq_ofnat ny * dy)%Qc ->
  spq_trunc fnx = Z.of_nat nx ->
  spq_trunc fny = Z.of_nat ny ->
  sp_le spq_ops xmin x ->
  sp_le spq_ops x xmax ->
  sp_le spq_ops ymin y ->
  sp_le spq_ops y ymax ->
  length coeffs = (nx + 3)%nat ->
  (forall row : list Qc, In row coeffs -> length row = (ny + 3)%nat) ->
  (e1 <= 1)%nat ->
  (e2 <= 1)%nat ->
  spq_cu_eval_2d_scalar x y (xmin :: xmax :: dx :: fnx :: restx) 3 (ymin :: ymax :: dy :: fny :: resty)
    3 coeffs e1 e2 =
  spq_nu_eval_2d_scalar x y (spq_uniform_knots xmin dx nx) 3 (spq_uniform_knots ymin dy ny) 3 coeffs e1
    e2.
Proof. exact spq_cu_path_eq_nu_path_2d. Qed.
Print Assumptions c07_qc_cu_path_eq_nu_path_2d.

(** on a span s, nu_basis_funs returns for EVERY x the polynomials x |-> sp_Nd knots s x p i (the Cox - de Boor
    triangle above the indicator row of s, which does not depend on x): the polynomial pieces of the B-splines *)
Theorem c07_basis_is_polynomial_piece :
  forall (F : Type) (K : sp_ops F),
  sp_laws K ->
  forall (knots : list F) (degree : nat) (x : F) (s : nat),
  sp_sorted F K knots ->
  sp_span_ok F K knots s ->
  (degree <= s)%nat ->
  sp_A22 F K knots degree x s =
  map (fun q : nat => sp_Nd F K knots s x degree (s - degree + q)) (seq 0 (S degree)).
Proof. exact sp_A22_eq_Nd. Qed.
Print Assumptions c07_basis_is_polynomial_piece.

(** [sp_DNd] (product rule through the recursion) is the derivative of these polynomials: the second-order Taylor
    remainder is h^2 times an expression built without dividing by h (purely algebraic characterisation) *)
Theorem c07_piece_taylor :
  forall (F : Type) (K : sp_ops F),
  sp_laws K ->
  forall (knots : list F) (s : nat) (x h : F) (k i : nat),
  sp_Nd F K knots s (spadd K x h) k i =
  spadd K (spadd K (sp_Nd F K knots s x k i) (spmul K h (sp_DNd F K knots s x k i)))
    (spmul K (spmul K h h) (sp_RNd F K knots s x h k i)).
Proof. exact sp_Nd_taylor. Qed.
Print Assumptions c07_piece_taylor.

(** nu_basis_funs_1st_der returns exactly these derivatives, for every degree >= 1, sorted knots, every x
    (de Boor identity, CoxDeBoorDeriv.deboor_identity, by induction on the degree) *)
Theorem c07_ders_eq_formal_derivative :
  forall (F : Type) (K : sp_ops F),
  sp_laws K ->
  forall (knots : list F) (degree : nat) (x : F) (s j : nat),
  sp_sorted F K knots ->
  sp_span_ok F K knots s ->
  (1 <= degree)%nat ->
  (degree <= s)%nat ->
  (j <= degree)%nat ->
  nth j (sp_ders_raw F K knots degree x s) (sp0 K) = sp_DNd F K knots s x degree (s - degree + j).
Proof. exact sp_ders_eq_formal_derivative. Qed.
Print Assumptions c07_ders_eq_formal_derivative.

(** stated between the two executable routines: on every span
    nu_basis_funs(x+h)[j] = nu_basis_funs(x)[j] + h*nu_basis_funs_1st_der(x)[j] + h^2*R *)
Theorem c07_basis_taylor :
  forall (F : Type) (K : sp_ops F),
  sp_laws K ->
  forall (knots : list F) (degree : nat) (x h : F) (s j : nat),
  sp_sorted F K knots ->
  sp_span_ok F K knots s ->
  (1 <= degree)%nat ->
  (degree <= s)%nat ->
  (j <= degree)%nat ->
  nth j (sp_A22 F K knots degree (spadd K x h) s) (sp0 K) =
  spadd K
    (spadd K (nth j (sp_A22 F K knots degree x s) (sp0 K))
       (spmul K h (nth j (sp_ders_raw F K knots degree x s) (sp0 K))))
    (spmul K (spmul K h h) (sp_RNd F K knots s x h degree (s - degree + j))).
Proof. exact sp_basis_taylor. Qed.
Print Assumptions c07_basis_taylor.

(** for the spline itself: while x and x+h stay in one span, the der = 1 entry point is the derivative of the der = 0
    entry point (S(x+h) = S(x) + h*S'(x) + h^2*R, R built without dividing by h) *)
Theorem c07_eval_taylor :
  forall (F : Type) (K : sp_ops F),
  sp_laws K ->
  forall (knots : list F) (degree : nat) (coeffs : list F) (x h : F) (s : nat),
  sp_sorted F K knots ->
  sp_span_ok F K knots s ->
  sp_nu_find_span F K knots degree x = SpOk s ->
  sp_nu_find_span F K knots degree (spadd K x h) = SpOk s ->
  (1 <= degree)%nat ->
  (degree <= s)%nat ->
  (s + degree < length knots)%nat ->
  (s < length coeffs)%nat ->
  exists v0 v1 d : F,
    sp_nu_eval_1d_scalar F K x knots degree coeffs 0 = SpOk v0 /\
    sp_nu_eval_1d_scalar F K (spadd K x h) knots degree coeffs 0 = SpOk v1 /\
    sp_nu_eval_1d_scalar F K x knots degree coeffs 1 = SpOk d /\
    v1 =
    spadd K (spadd K v0 (spmul K h d))
      (spmul K (spmul K h h)
         (sumr F (sp0 K) (spadd K) 0 (S degree)
            (fun j : nat =>
             spmul K (nth (s - degree + j) coeffs (sp0 K))
               (sp_RNd F K knots s x h degree (s - degree + j))))).
Proof. exact sp_eval_taylor. Qed.
Print Assumptions c07_eval_taylor.

(** cu_basis_funs are the four cubic polynomials [sp_cu_polys] (coefficient lists) in the offset *)
Theorem c07_cu_basis_poly :
  forall (F : Type) (K : sp_ops F),
  sp_laws K ->
  forall o : F, sp_cu_basis_funs F K o = map (fun p : list F => sp_peval F K p o) (sp_cu_polys F K).
Proof. exact sp_cu_basis_poly. Qed.
Print Assumptions c07_cu_basis_poly.

(** cu_basis_funs_1st_der = D(cu_basis_funs)/dx with D the formal derivative of coefficient lists *)
Theorem c07_cu_ders_eq_D :
  forall (F : Type) (K : sp_ops F),
  sp_laws K ->
  forall o dx : F,
  dx <> sp0 K ->
  sp_cu_basis_funs_1st_der F K o dx =
  map (fun p : list F => spdiv K (sp_peval F K (sp_pD F K p) o) dx) (sp_cu_polys F K).
Proof. exact sp_cu_ders_eq_D. Qed.
Print Assumptions c07_cu_ders_eq_D.

(** and D is the derivative of a coefficient-list polynomial (same Taylor characterisation) *)
Theorem c07_poly_D_taylor :
  forall (F : Type) (K : sp_ops F),
  sp_laws K ->
  forall (p : list F) (x h : F),
  sp_peval F K p (spadd K x h) =
  spadd K (spadd K (sp_peval F K p x) (spmul K h (sp_peval F K (sp_pD F K p) x)))
    (spmul K (spmul K h h) (sp_pR F K p x h)).
Proof. exact sp_peval_taylor. Qed.
Print Assumptions c07_poly_D_taylor.

(** cu_basis_funs is non-negative on 0 <= offset <= 1 *)
Theorem c07_cu_basis_nonneg :
  forall (F : Type) (K : sp_ops F),
  sp_laws K ->
  forall o : F, sp_le K (sp0 K) o -> sp_le K o (sp1 K) -> sp_all_nonneg F K (sp_cu_basis_funs F K o).
Proof. exact sp_cu_basis_nonneg. Qed.
Print Assumptions c07_cu_basis_nonneg.

(** periodic splines (knot vector of make_knots(periodic=True): strictly increasing, knots[i+n] = knots[i] + period,
    length n+2p+1; coefficients wrapped c[n+j] = c[j]): equal VALUES at both ends of the period, every degree >= 1 *)
Theorem c07_periodic_values :
  forall (F : Type) (K : sp_ops F),
  sp_laws K ->
  forall (knots : list F) (n p : nat) (P : F),
  sp_strict F K knots ->
  length knots = (n + 2 * p + 1)%nat ->
  sp_periodic_knots F K knots n P ->
  (1 <= p)%nat ->
  (1 <= n)%nat ->
  forall coeffs : list F,
  length coeffs = (n + p)%nat ->
  sp_wrapped F K coeffs n p ->
  sp_nu_eval_1d_scalar F K (sp_kn F K knots p) knots p coeffs 0 =
  sp_nu_eval_1d_scalar F K (sp_kn F K knots (n + p)) knots p coeffs 0.
Proof. exact sp_periodic_values. Qed.
Print Assumptions c07_periodic_values.

(** and equal SLOPES for every degree >= 2 (for degree 1 the spline is only C0: the code returns the right slope at a
    and the left slope at b, e.g. knots -11/15 -1/3 0 2/5 11/15, coefficients 2 -5/2 2: -27/2 vs 45/4) *)
Theorem c07_periodic_slopes :
  forall (F : Type) (K : sp_ops F),
  sp_laws K ->
  forall (knots : list F) (n p : nat) (P : F),
  sp_strict F K knots ->
  length knots = (n + 2 * p + 1)%nat ->
  sp_periodic_knots F K knots n P ->
  (1 <= p)%nat ->
  (1 <= n)%nat ->
  forall coeffs : list F,
  length coeffs = (n + p)%nat ->
  sp_wrapped F K coeffs n p ->
  (2 <= p)%nat ->
  sp_nu_eval_1d_scalar F K (sp_kn F K knots p) knots p coeffs 1 =
  sp_nu_eval_1d_scalar F K (sp_kn F K knots (n + p)) knots p coeffs 1.
Proof. exact sp_periodic_slopes. Qed.
Print Assumptions c07_periodic_slopes.

(** the laws are satisfiable: the executed instance (canonical rationals) satisfies them *)
Theorem c07_qc_laws : sp_laws spq_ops.
Proof. exact spq_laws. Qed.
Print Assumptions c07_qc_laws.

(** non-vacuity: knots [0;0;0;0;1;2;4;4;4;4], degree 3, coefficients 1..6, evaluated on Qc *)
Definition c07_ex_knots : list Qc := map (fun z => spq_of z 1) [0; 0; 0; 0; 1; 2; 4; 4; 4; 4]%Z.
Definition c07_ex_coeffs : list Qc := map (fun z => spq_of z 1) [1; 2; 3; 4; 5; 6]%Z.

Example c07_ex_hypotheses :
  sp_sorted Qc spq_ops c07_ex_knots /\ (2 * 3 + 1 < length c07_ex_knots)%nat
  /\ sp_lt spq_ops (sp_kn Qc spq_ops c07_ex_knots 3) (sp_kn Qc spq_ops c07_ex_knots 4)
  /\ sp_lt spq_ops (sp_kn Qc spq_ops c07_ex_knots 5) (sp_kn Qc spq_ops c07_ex_knots 6).
Proof.
  split; [|split; [vm_compute; repeat constructor|split; (split; [vm_compute; reflexivity|intros E; discriminate (f_equal spq_show E)])]].
  intros i Hi. do 9 (destruct i as [|i]; [vm_compute; reflexivity|]).
  exfalso. unfold c07_ex_knots in Hi. cbn [length map] in Hi. lia.
Qed.

Example c07_ex_values :
  spq_nu_find_span c07_ex_knots 3 (spq_of 3 2) = SpOk 4%nat
  /\ spq_show_list (spq_nu_basis_funs c07_ex_knots 3 (spq_of 3 2) 4) = SpOk [((1)%Z, 32%positive); ((113)%Z, 192%positive); ((211)%Z, 576%positive); ((1)%Z, 72%positive)]
  /\ spq_show_list (spq_nu_basis_funs_1st_der c07_ex_knots 3 (spq_of 3 2) 4) = SpOk [((-3)%Z, 16%positive); ((-13)%Z, 32%positive); ((49)%Z, 96%positive); ((1)%Z, 12%positive)]
  /\ spq_show_res (spq_nu_eval_1d_scalar (spq_of 3 2) c07_ex_knots 3 c07_ex_coeffs 0) = SpOk ((1937)%Z, 576%positive)
  /\ spq_show_res (spq_nu_eval_1d_scalar (spq_of 0 1) c07_ex_knots 3 c07_ex_coeffs 0) = SpOk ((1)%Z, 1%positive)
  /\ spq_show_res (spq_nu_eval_1d_scalar (spq_of 4 1) c07_ex_knots 3 c07_ex_coeffs 0) = SpOk ((6)%Z, 1%positive)
  /\ spq_show_res (spq_nu_eval_1d_scalar (spq_of 4 1) c07_ex_knots 3 c07_ex_coeffs 1) = SpOk ((3)%Z, 2%positive)
  /\ spq_show_res (spq_nu_eval_1d_scalar (spq_of 4 1) c07_ex_knots 3 c07_ex_coeffs 2) = SpArgErr
  /\ spq_show_list (spq_nu_basis_funs c07_ex_knots 3 (spq_of 0 1) 2) = SpIndexErr
  /\ spq_show_list (spq_nu_basis_funs c07_ex_knots 3 (spq_of 0 1) 6) = SpDivErr.
Proof. vm_compute. repeat split. Qed.

(** the uniform-cubic path on [0,4], 4 cells: x = 3/2 and the right end point x = 4 (span == ncells) *)
Definition c07_ex_cu_knots : list Qc := map (fun z => spq_of z 1) [0; 4; 1; 4]%Z.
Definition c07_ex_cu_coeffs : list Qc := map (fun z => spq_of z 1) [1; 2; 3; 4; 5; 6; 7]%Z.
Example c07_ex_cu :
  match spq_cu_find_span (spq_of 0 1) (spq_of 4 1) (spq_of 1 1) (spq_of 4 1) 4 with SpOk (s, o) => (s, spq_show o) = (6, ((1)%Z, 1%positive)) | _ => False end
  /\ spq_show_res (spq_cu_eval_1d_scalar (spq_of 4 1) c07_ex_cu_knots 3 c07_ex_cu_coeffs 0) = SpOk ((6)%Z, 1%positive)
  /\ spq_show_res (spq_cu_eval_1d_scalar (spq_of 3 2) c07_ex_cu_knots 3 c07_ex_cu_coeffs 0)
     = spq_show_res (spq_nu_eval_1d_scalar (spq_of 3 2) (spq_uniform_knots (spq_of 0 1) (spq_of 1 1) 4) 3 c07_ex_cu_coeffs 0)
  /\ spq_show_res (spq_cu_eval_1d_scalar (spq_of 4 1) c07_ex_cu_knots 3 c07_ex_cu_coeffs 1)
     = spq_show_res (spq_nu_eval_1d_scalar (spq_of 4 1) (spq_uniform_knots (spq_of 0 1) (spq_of 1 1) 4) 3 c07_ex_cu_coeffs 1).
Proof. vm_compute. repeat split. Qed.

(** the B-splines of the closed domain (Cox - de Boor recursion, value from the left at the right end
    point x = knots[6] = 4): clamped end value B_5(4) = 1, and the values of A2.2 at x = 3/2 *)
Example c07_ex_closed :
  map (fun i => spq_show (sp_Nc Qc spq_ops c07_ex_knots 6 (spq_of 4 1) 3 i)) [2; 3; 4; 5]%nat
    = [(0%Z, 1%positive); (0%Z, 1%positive); (0%Z, 1%positive); (1%Z, 1%positive)]
  /\ SpOk (map (fun i => spq_show (sp_Nc Qc spq_ops c07_ex_knots 6 (spq_of 3 2) 3 i)) [1; 2; 3; 4]%nat)
    = spq_show_list (spq_nu_basis_funs c07_ex_knots 3 (spq_of 3 2) 4).
Proof. vm_compute. repeat split. Qed.

(** periodic non-vacuity: make_knots([0,1,3,4], degree 2, periodic) = [-3,-1,0,1,3,4,5,7], n = 3 cells,
    period 4, wrapped coefficients [2,-5,7,2,-5]: equal values and slopes at x = 0 and x = 4 *)
Definition c07_ex_per_knots : list Qc := map (fun z => spq_of z 1) [-3; -1; 0; 1; 3; 4; 5; 7]%Z.
Definition c07_ex_per_coeffs : list Qc := map (fun z => spq_of z 1) [2; -5; 7; 2; -5]%Z.
Example c07_ex_periodic :
  spq_show_res (spq_nu_eval_1d_scalar (spq_of 0 1) c07_ex_per_knots 2 c07_ex_per_coeffs 0)
  = spq_show_res (spq_nu_eval_1d_scalar (spq_of 4 1) c07_ex_per_knots 2 c07_ex_per_coeffs 0)
  /\ spq_show_res (spq_nu_eval_1d_scalar (spq_of 0 1) c07_ex_per_knots 2 c07_ex_per_coeffs 1)
  = spq_show_res (spq_nu_eval_1d_scalar (spq_of 4 1) c07_ex_per_knots 2 c07_ex_per_coeffs 1)
  /\ spq_show_res (spq_nu_eval_1d_scalar (spq_of 0 1) c07_ex_per_knots 2 c07_ex_per_coeffs 0) = SpOk ((-3)%Z, 2%positive)
  /\ length c07_ex_per_knots = (3 + 2 * 2 + 1)%nat.
Proof. vm_compute. repeat split. Qed.
