(** C03 — redistribution across differently distributed layout groups preserves data (LayoutSwapper).
    Statements only; proofs in GatherStep.v, GatherValid.v, ScatterStep.v, SwapperExec.v, SwapperRoute.v,
    HandlerRoute.v.
    World ranks live on the cartesian topology [nprocsT] of the largest handler (row-major).  A layout is
    [(dims, ax)]: its dimension order and the topology axis used by each distribution direction of its handler.
    [HoldsS V dflt N nprocsT d' G (dims, ax) bufs]: every world rank w holds at each local position j of
    its block the value G(global index of j on w) - replicas included.  The theorems quantify over the
    payload type, the number of dimensions d = S d', the global shape, the topology, the layouts, the
    buffers and the global field. *)
From Coq Require Import List Arith Lia PeanoNat Bool.
Import ListNotations.
From PGV Require Import NdIndex Blocks Layouts Handler TransposeExec HandlerRoute
  GatherStep GatherValid ScatterStep SwapperExec SwapperRoute SwapperCtor.

(** gather, function level (seed): Allgather of flat block prefixes padded to max_block_shape + per-rank
    unpack with the sender's true shape, over an abstract rank type (virtual ranks included) *)
Theorem c03_gather_correct :
  forall (V : Type) (d : nat) (N pi ipi pi' ipi' : nat -> nat) (is_ : nat) (rank : Type)
    (setX : rank -> nat -> rank) (PSa PDa : nat -> nat) (coS coD : rank -> nat -> nat),
  is_ < d -> (forall a, 0 < PSa a) ->
  (forall a, a < d -> pi a < d /\ ipi (pi a) = a) ->
  (forall e, e < d -> ipi e < d /\ pi (ipi e) = e) ->
  (forall e, e < d -> ipi' e < d /\ pi' (ipi' e) = e) ->
  (forall q a, a < d -> a <> is_ -> PDa (ipi' (pi a)) = PSa a /\ coD q (ipi' (pi a)) = coS q a) ->
  PDa (ipi' (pi is_)) = 1 /\ (forall q, coD q (ipi' (pi is_)) = 0) ->
  (forall q r, coS (setX q r) is_ = r) ->
  (forall q r a, a <> is_ -> coS (setX q r) a = coS q a) ->
  forall (G : list nat -> V) (src : rank -> nat -> V),
  GatherStep.Holds_src V d N pi ipi rank PSa coS G src ->
  GatherStep.Holds_dst V d N pi pi' ipi' is_ rank setX PSa PDa coS coD G src.
Proof. exact gather_correct. Qed.
Print Assumptions c03_gather_correct.

(** the same functions, every premise restricted to the ranks that exist and to r < p (the form that can
    be instantiated at the buffers of a run) *)
Theorem c03_gather_correct_valid :
  forall (V : Type) (d : nat) (N pi ipi pi' ipi' : nat -> nat) (is_ : nat) (rank : Type) (valid : rank -> Prop)
    (setX : rank -> nat -> rank) (PSa PDa : nat -> nat) (coS coD : rank -> nat -> nat),
  is_ < d ->
  (forall a, a < d -> pi a < d /\ ipi (pi a) = a) ->
  (forall e, e < d -> ipi e < d /\ pi (ipi e) = e) ->
  (forall e, e < d -> ipi' e < d /\ pi' (ipi' e) = e) ->
  0 < PSa is_ ->
  (forall q a, valid q -> a < d -> a <> is_ -> PDa (ipi' (pi a)) = PSa a /\ coD q (ipi' (pi a)) = coS q a) ->
  PDa (ipi' (pi is_)) = 1 /\ (forall q, valid q -> coD q (ipi' (pi is_)) = 0) ->
  (forall q r, valid q -> r < PSa is_ -> valid (setX q r)) ->
  (forall q r, valid q -> r < PSa is_ -> coS (setX q r) is_ = r) ->
  (forall q r a, valid q -> r < PSa is_ -> a <> is_ -> coS (setX q r) a = coS q a) ->
  forall (G : list nat -> V) (src : rank -> nat -> V),
  gv_Holds_src V d N pi ipi rank valid PSa coS G src ->
  gv_Holds_dst V d N pi pi' ipi' is_ rank valid setX PSa PDa coS coD G src.
Proof. exact gather_correct_valid. Qed.
Print Assumptions c03_gather_correct_valid.

(** scatter, function level: every rank takes the slice [start : start+length] of its replicated source *)
Theorem c03_scatter_correct :
  forall (V : Type) (d : nat) (N pi ipi pi' ipi' : nat -> nat) (is_ : nat) (rank : Type) (valid : rank -> Prop)
    (PSa PDa : nat -> nat) (coS coD : rank -> nat -> nat),
  is_ < d ->
  (forall a, a < d -> pi a < d /\ ipi (pi a) = a) ->
  (forall e, e < d -> ipi e < d /\ pi (ipi e) = e) ->
  (forall e, e < d -> ipi' e < d /\ pi' (ipi' e) = e) ->
  (forall q a, valid q -> a < d -> a <> is_ -> PDa (ipi' (pi a)) = PSa a /\ coD q (ipi' (pi a)) = coS q a) ->
  PSa is_ = 1 /\ (forall q, valid q -> coS q is_ = 0) ->
  (forall q, valid q -> coD q (ipi' (pi is_)) < PDa (ipi' (pi is_))) ->
  forall (G : list nat -> V) (src : rank -> nat -> V),
  sc_Holds_src V d N pi ipi rank valid PSa coS G src ->
  sc_Holds_dst V d N pi pi' ipi' is_ rank valid PSa PDa coS coD G src.
Proof. exact scatter_correct. Qed.
Print Assumptions c03_scatter_correct.

(** the three cross-handler cases on lists, for all world ranks *)
Theorem c03_gather_step :
  forall (V : Type) (dflt : V) (Nl nprocsT : list nat) (d' : nat) (G : list nat -> V) (S D : sw_lay) is_ bufs,
  sw_cfg_wf_b Nl nprocsT d' S D = true -> sw_gather_wf_b nprocsT d' S D is_ = true ->
  HoldsS V dflt Nl nprocsT d' G S bufs ->
  HoldsS V dflt Nl nprocsT d' G D (sw_run_gather V dflt Nl nprocsT d' S D is_ bufs).
Proof. intros; apply sw_gather_correct; assumption. Qed.
Print Assumptions c03_gather_step.
Theorem c03_scatter_step :
  forall (V : Type) (dflt : V) (Nl nprocsT : list nat) (d' : nat) (G : list nat -> V) (S D : sw_lay) is_ bufs,
  sw_cfg_wf_b Nl nprocsT d' S D = true -> sw_scatter_wf_b nprocsT d' S D is_ = true ->
  HoldsS V dflt Nl nprocsT d' G S bufs ->
  HoldsS V dflt Nl nprocsT d' G D (sw_run_scatter V dflt Nl nprocsT d' S D is_ bufs).
Proof. intros; apply sw_scatter_correct; assumption. Qed.
Print Assumptions c03_scatter_step.
Theorem c03_same_step :
  forall (V : Type) (dflt : V) (Nl nprocsT : list nat) (d' : nat) (G : list nat -> V) (S D : sw_lay) bufs,
  sw_cfg_wf_b Nl nprocsT d' S D = true -> sw_same_wf_b nprocsT d' S D = true ->
  HoldsS V dflt Nl nprocsT d' G S bufs ->
  HoldsS V dflt Nl nprocsT d' G D (sw_run_same V dflt Nl nprocsT d' S D bufs).
Proof. intros; apply sw_same_correct; assumption. Qed.
Print Assumptions c03_same_step.

(** the executable cross-handler step (dispatch on the numbers of distributed directions, axes by getAxes) *)
Theorem c03_step_correct :
  forall (V : Type) (dflt : V) (Nl nprocsT : list nat) (d' : nat) (G : list nat -> V) (S D : sw_lay) bufs,
  sw_step_wf_b Nl nprocsT d' S D = true ->
  HoldsS V dflt Nl nprocsT d' G S bufs ->
  HoldsS V dflt Nl nprocsT d' G D (sw_run_step V dflt Nl nprocsT d' S D bufs).
Proof. exact sw_step_correct. Qed.
Print Assumptions c03_step_correct.

(** a transpose inside a handler that uses an arbitrary list of topology axes (C01's step generalised) *)
Theorem c03_internal_step_correct :
  forall (V : Type) (dflt : V) (Nl nprocsT : list nat) (d' : nat) (G : list nat -> V) (S D : sw_lay) bufs,
  sw_int_wf_b Nl nprocsT d' S D = true ->
  HoldsS V dflt Nl nprocsT d' G S bufs ->
  HoldsS V dflt Nl nprocsT d' G D (sw_run_int V dflt Nl nprocsT d' S D bufs).
Proof. exact sw_int_correct. Qed.
Print Assumptions c03_internal_step_correct.

(** any chain of gather, scatter and transpose steps (the implementation's route is checked with
    sw_route_ok_b on every run) *)
Theorem c03_route_correct :
  forall (V : Type) (dflt : V) (Nl nprocsT : list nat) (d' : nat) (G : list nat -> V) route cur bufs,
  sw_route_ok_b Nl nprocsT d' cur route = true ->
  HoldsS V dflt Nl nprocsT d' G (snd cur) bufs ->
  HoldsS V dflt Nl nprocsT d' G (snd (last route cur)) (sw_run_route V dflt Nl nprocsT d' cur route bufs).
Proof. exact sw_route_correct. Qed.
Print Assumptions c03_route_correct.

(** replicas: world ranks with the same coordinates on the axes the layout's handler uses hold identical
    blocks; in particular after a gather along topology axis X all ranks that differ only along X *)
Theorem c03_replicas_equal_gen :
  forall (V : Type) (dflt : V) (Nl nprocsT : list nat) (d' : nat) (G : list nat -> V) (L : sw_lay) bufs w w',
  HoldsS V dflt Nl nprocsT d' G L bufs -> sw_exact V Nl nprocsT d' L bufs ->
  w < sw_nranks nprocsT -> w' < sw_nranks nprocsT ->
  (forall t, In t (snd L) -> sw_cfun nprocsT w' t = sw_cfun nprocsT w t) ->
  nth w' bufs [] = nth w bufs [].
Proof. exact sw_replicas_equal_gen. Qed.
Print Assumptions c03_replicas_equal_gen.
Theorem c03_replicas_equal :
  forall (V : Type) (dflt : V) (Nl nprocsT : list nat) (d' : nat) (G : list nat -> V) (S D : sw_lay) is_ bufs w r',
  sw_cfg_wf_b Nl nprocsT d' S D = true -> sw_gather_wf_b nprocsT d' S D is_ = true ->
  HoldsS V dflt Nl nprocsT d' G S bufs ->
  w < sw_nranks nprocsT -> r' < sw_PT nprocsT (nth is_ (snd S) 0) ->
  let w' := sw_rank_of nprocsT (sw_upd (sw_cfun nprocsT w) (nth is_ (snd S) 0) r') in
  w' < sw_nranks nprocsT /\
  nth w' (sw_run_gather V dflt Nl nprocsT d' S D is_ bufs) [] = nth w (sw_run_gather V dflt Nl nprocsT d' S D is_ bufs) [].
Proof. exact sw_replicas_equal. Qed.
Print Assumptions c03_replicas_equal.

(** the block prefixes are determined by the global field; hence moving back reproduces the original
    distributed blocks: scatter after gather, any step and back, any route and back *)
Theorem c03_holds_unique :
  forall (V : Type) (dflt : V) (Nl nprocsT : list nat) (d' : nat) (G : list nat -> V) (L : sw_lay) b1 b2,
  HoldsS V dflt Nl nprocsT d' G L b1 -> HoldsS V dflt Nl nprocsT d' G L b2 ->
  sw_exact V Nl nprocsT d' L b1 -> sw_exact V Nl nprocsT d' L b2 -> b1 = b2.
Proof. exact sw_holds_unique. Qed.
Print Assumptions c03_holds_unique.
Theorem c03_scatter_after_gather_id :
  forall (V : Type) (dflt : V) (Nl nprocsT : list nat) (d' : nat) (G : list nat -> V) (S D : sw_lay) is_ is' bufs,
  sw_cfg_wf_b Nl nprocsT d' S D = true -> sw_cfg_wf_b Nl nprocsT d' D S = true ->
  sw_gather_wf_b nprocsT d' S D is_ = true -> sw_scatter_wf_b nprocsT d' D S is' = true ->
  HoldsS V dflt Nl nprocsT d' G S bufs -> sw_exact V Nl nprocsT d' S bufs ->
  sw_run_scatter V dflt Nl nprocsT d' D S is' (sw_run_gather V dflt Nl nprocsT d' S D is_ bufs) = bufs.
Proof. exact sw_scatter_after_gather_id. Qed.
Print Assumptions c03_scatter_after_gather_id.
Theorem c03_roundtrip_id :
  forall (V : Type) (dflt : V) (Nl nprocsT : list nat) (d' : nat) (G : list nat -> V) cur r1 r2 bufs,
  r2 <> [] ->
  sw_route_ok_b Nl nprocsT d' cur r1 = true -> sw_route_ok_b Nl nprocsT d' (last r1 cur) r2 = true ->
  snd (last r2 (last r1 cur)) = snd cur ->
  HoldsS V dflt Nl nprocsT d' G (snd cur) bufs -> sw_exact V Nl nprocsT d' (snd cur) bufs ->
  sw_run_route V dflt Nl nprocsT d' (last r1 cur) r2 (sw_run_route V dflt Nl nprocsT d' cur r1 bufs) = bufs.
Proof. exact sw_roundtrip_id. Qed.
Print Assumptions c03_roundtrip_id.

(** buffer discipline of the swapper's multi-step redirects (same code shape as the handler's): the result
    lands in dest for either parity; with a spare buffer the source block still holds the source layout *)
Theorem c03_redirect_lands_in_dest : forall (L : Type) (s : bst L) steps cur,
  steps <> [] -> s BSrc = Data cur -> redirect L s steps BDst = Data (last steps cur).
Proof. exact redirect_lands_in_dest. Qed.
Print Assumptions c03_redirect_lands_in_dest.
Theorem c03_redirect_intact : forall (L : Type) (s : bst L) steps cur,
  steps <> [] -> s BSrc = Data cur ->
  redirect_intact L s steps BDst = Data (last steps cur) /\ redirect_intact L s steps BSrc = Data cur.
Proof. exact redirect_intact_spec. Qed.
Print Assumptions c03_redirect_intact.

(** the constructor's choice of sub-communicators (model sw_ctor, tied to __init__ by the differential): the axes
    chosen for a handler are distinct axes of the topology whose extents are the handler's process counts *)
Theorem c03_ctor_axes : forall Lmax Lh procs i avail axs, sw_choose Lmax Lh procs i avail = Some axs ->
  length axs = length procs /\ NoDup axs /\
  forall k, k < length procs -> nth k axs 0 < length avail /\ nth (nth k axs 0) avail None = Some (nth k procs 0).
Proof. exact sw_choose_spec. Qed.
Print Assumptions c03_ctor_axes.
Example c03_example_ctor :
  sw_ctor [[[0;2;1];[1;2;0]];[[0;2;1]];[[2;1;0]]] [[2;2];[2];[2]] = Some (0, [2;2], [[0;1];[0];[1]]) /\
  sw_ctor [[[0;1;2];[0;2;1];[1;0;2]];[[0;1;2]]] [[2;2];[2]] = Some (0, [2;2], [[0;1];[0]]) /\
  sw_ctor [[[0;2;1];[1;2;0]];[[0;2;1]]] [[2;3];[4]] = None.
Proof. vm_compute. repeat split; reflexivity. Qed.

(** non-vacuity.  Shape [2;2;2], topology [2;2]; v_parallel_2d = ([0;2;1], axes [0;1]),
    v_parallel_1d = ([0;2;1], axis [0]), mode_solve = ([1;2;0], axes [0;1]); payload = global linear index.
    gather, scatter back, and a route gather -> scatter -> handler-internal Alltoall step. *)
Example c03_example_gather :
  sw_step_wf_b [2;2;2] [2;2] 2 ([0;2;1],[0;1]) ([0;2;1],[0]) = true /\
  sw_run_step nat 99 [2;2;2] [2;2] 2 ([0;2;1],[0;1]) ([0;2;1],[0]) [[0;2];[1;3];[4;6];[5;7]]
  = [[0;2;1;3];[0;2;1;3];[4;6;5;7];[4;6;5;7]].
Proof. vm_compute. split; reflexivity. Qed.
Example c03_example_scatter_back :
  sw_step_wf_b [2;2;2] [2;2] 2 ([0;2;1],[0]) ([0;2;1],[0;1]) = true /\
  sw_run_step nat 99 [2;2;2] [2;2] 2 ([0;2;1],[0]) ([0;2;1],[0;1]) [[0;2;1;3];[0;2;1;3];[4;6;5;7];[4;6;5;7]]
  = [[0;2];[1;3];[4;6];[5;7]].
Proof. vm_compute. split; reflexivity. Qed.
Example c03_example_route :
  sw_route_ok_b [2;2;2] [2;2] 2 (0, ([0;2;1],[0;1])) [(1, ([0;2;1],[0])); (0, ([0;2;1],[0;1])); (0, ([1;2;0],[0;1]))] = true /\
  sw_run_route nat 99 [2;2;2] [2;2] 2 (0, ([0;2;1],[0;1])) [(1, ([0;2;1],[0])); (0, ([0;2;1],[0;1])); (0, ([1;2;0],[0;1]))]
    [[0;2];[1;3];[4;6];[5;7]] = [[0;4];[1;5];[2;6];[3;7]].
Proof. vm_compute. split; reflexivity. Qed.
(** uneven blocks (3 = 2 + 1 over two processes), the 1-D handler on the second topology axis, the gathered
    dimension at different axes in the two layouts; and a step the check rejects (the two handlers
    distribute different dimensions over the same communicator) *)
Example c03_example_uneven :
  sw_step_wf_b [3;2;2] [1;2] 2 ([2;1;0],[1]) ([1;2;0],[0;1]) = true /\
  sw_run_step nat 99 [3;2;2] [1;2] 2 ([2;1;0],[1]) ([1;2;0],[0;1]) [[0;4;8;2;6;10];[1;5;9;3;7;11]]
  = [[0;4;8;2;6;10];[1;5;9;3;7;11]] /\
  sw_step_wf_b [3;2;2] [2;1] 2 ([0;2;1],[0;1]) ([2;1;0],[1]) = true /\
  sw_run_step nat 99 [3;2;2] [2;1] 2 ([0;2;1],[0;1]) ([2;1;0],[1]) [[0;2;1;3];[4;6;5;7;8;10;9;11]]
  = [[0;4;8;2;6;10;1;5;9;3;7;11];[0;4;8;2;6;10;1;5;9;3;7;11]] /\
  sw_step_wf_b [3;2;2] [2;1] 2 ([0;2;1],[0]) ([2;1;0],[0]) = false.
Proof. vm_compute. repeat split; reflexivity. Qed.

(** * Frame of the swapper's transposes: which cells of source / dest / buf are written
    (GatherValid.v memory level, SwapperFrame.v, FrameMem.v).  Whole-memory model as in Props/C01.v:
    [sw_m_plain] = one step of a route without a spare buffer, returns (source', dest'); [sw_m_intact] = with one,
    returns (dest', buf') - the source array is not an output.  A step is a cross-handler _transpose (same /
    scatter / gather) or the handler's own transpose on its topology axes.
    [sw_m_ok E n1 n2] = sw_any_wf_b and, on every world rank, the extent of the step (destination block size;
    for a gather also p*B, for a handler-internal swap also p * padded block size) <= E w.
    The well-formedness predicates do not relate extents and process counts (empty blocks are admitted). *)
From PGV Require Import FrameMem SwapperFrame SwapperBuf.

(** gather, function level, any address *)
Theorem c03_gather_frame_plain :
  forall (V : Type) (d : nat) (N pi pi' ipi' : nat -> nat) (is_ : nat) (rank : Type) (setX : rank -> nat -> rank)
    (PSa PDa : nat -> nat) (coS coD : rank -> nat -> nat) (msrc mdst : gmem V rank) (q : rank) (A : nat),
  size (mk d (shD N pi' rank PDa coD q)) <= A ->
  fst (mgather_plain V d N pi pi' ipi' is_ rank setX PSa PDa coS coD msrc mdst) q A = msrc q A /\
  snd (mgather_plain V d N pi pi' ipi' is_ rank setX PSa PDa coS coD msrc mdst)
  = fst (mgather_plain V d N pi pi' ipi' is_ rank setX PSa PDa coS coD msrc mdst).
Proof. intros. split; [apply mgather_plain_src_frame; assumption|apply mgather_plain_dst_is_src]. Qed.
Print Assumptions c03_gather_frame_plain.
Theorem c03_gather_frame_intact :
  forall (V : Type) (d : nat) (N pi pi' ipi' : nat -> nat) (is_ : nat) (rank : Type) (setX : rank -> nat -> rank)
    (PSa PDa : nat -> nat) (coS coD : rank -> nat -> nat) (msrc mdst mbuf : gmem V rank) (q : rank) (A : nat),
  (size (mk d (shD N pi' rank PDa coD q)) <= A ->
   fst (mgather_intact V d N pi pi' ipi' is_ rank setX PSa PDa coS coD msrc mdst mbuf) q A = mdst q A) /\
  (PSa is_ * B d N pi is_ rank PSa coS q <= A ->
   snd (mgather_intact V d N pi pi' ipi' is_ rank setX PSa PDa coS coD msrc mdst mbuf) q A = mbuf q A) /\
  (A < PSa is_ * B d N pi is_ rank PSa coS q ->
   snd (mgather_intact V d N pi pi' ipi' is_ rank setX PSa PDa coS coD msrc mdst mbuf) q A
   = msrc (setX q (A / B d N pi is_ rank PSa coS q)) (A mod B d N pi is_ rank PSa coS q)).
Proof.
  intros. split; [|split]; intros.
  - apply mgather_intact_dst_frame; assumption.
  - apply mgather_intact_buf_frame; assumption.
  - apply mgather_intact_buf_scratch; assumption.
Qed.
Print Assumptions c03_gather_frame_intact.

(** one step on lists.  Without a spare buffer: source untouched beyond E; dest untouched beyond E, or - after a
    gather, which ends with dest[:] = source[:] - equal to the source array there.  With one: dest and buf
    untouched beyond E.  (Scatter and same steps write the destination block only: E = its size.) *)
Theorem c03_step_frame :
  forall (V : Type) (dflt : V) (Nl nprocsT : list nat) (d' : nat) (E : nat -> nat) (n1 n2 : sw_node) (from to : mems V),
  sw_m_ok Nl nprocsT d' E n1 n2 = true -> sw_Wm V nprocsT E from -> sw_Wm V nprocsT E to ->
  fr V dflt E from (fst (sw_m_plain V dflt Nl nprocsT d' n1 n2 from to)) /\
  (fr V dflt E to (snd (sw_m_plain V dflt Nl nprocsT d' n1 n2 from to)) \/
   fr V dflt E from (snd (sw_m_plain V dflt Nl nprocsT d' n1 n2 from to))).
Proof. exact sw_m_plain_frame. Qed.
Print Assumptions c03_step_frame.
Theorem c03_step_frame_intact :
  forall (V : Type) (dflt : V) (Nl nprocsT : list nat) (d' : nat) (E : nat -> nat) (n1 n2 : sw_node) (from to scratch : mems V),
  sw_m_ok Nl nprocsT d' E n1 n2 = true -> sw_Wm V nprocsT E from -> sw_Wm V nprocsT E to -> sw_Wm V nprocsT E scratch ->
  fr V dflt E to (fst (sw_m_intact V dflt Nl nprocsT d' n1 n2 from to scratch)) /\
  fr V dflt E scratch (snd (sw_m_intact V dflt Nl nprocsT d' n1 n2 from to scratch)).
Proof. exact sw_m_intact_frame. Qed.
Print Assumptions c03_step_frame_intact.
(** the block prefix of dest is exactly the output of the prefix-level model sw_run_any *)
Theorem c03_step_prefix :
  forall (V : Type) (dflt : V) (Nl nprocsT : list nat) (d' : nat) (E : nat -> nat) (n1 n2 : sw_node) (from to : mems V) w j,
  sw_m_ok Nl nprocsT d' E n1 n2 = true -> sw_Wm V nprocsT E from -> sw_Wm V nprocsT E to -> w < sw_nranks nprocsT ->
  inb (sw_shape Nl nprocsT d' (snd n2) w) j ->
  cell V dflt (snd (sw_m_plain V dflt Nl nprocsT d' n1 n2 from to)) w (ravel (sw_shape Nl nprocsT d' (snd n2) w) j)
  = nth (ravel (sw_shape Nl nprocsT d' (snd n2) w) j) (nth w (sw_run_any V dflt Nl nprocsT d' n1 n2 from) []) dflt.
Proof. exact sw_m_plain_prefix. Qed.
Print Assumptions c03_step_prefix.
Theorem c03_step_prefix_intact :
  forall (V : Type) (dflt : V) (Nl nprocsT : list nat) (d' : nat) (E : nat -> nat) (n1 n2 : sw_node) (from to scratch : mems V) w j,
  sw_m_ok Nl nprocsT d' E n1 n2 = true -> sw_Wm V nprocsT E to -> w < sw_nranks nprocsT ->
  inb (sw_shape Nl nprocsT d' (snd n2) w) j ->
  cell V dflt (fst (sw_m_intact V dflt Nl nprocsT d' n1 n2 from to scratch)) w (ravel (sw_shape Nl nprocsT d' (snd n2) w) j)
  = nth (ravel (sw_shape Nl nprocsT d' (snd n2) w) j) (nth w (sw_run_any V dflt Nl nprocsT d' n1 n2 from) []) dflt.
Proof. exact sw_m_intact_prefix. Qed.
Print Assumptions c03_step_prefix_intact.

(** routes ([among V dflt E a l]: beyond E the array a coincides with one of the arrays of l) *)
Theorem c03_route_frame :
  forall (V : Type) (dflt : V) (Nl nprocsT : list nat) (d' : nat) (E : nat -> nat) (cur : sw_node) (steps : list sw_node) (src dst : mems V),
  sw_m_route_ok Nl nprocsT d' E cur steps = true -> sw_Wm V nprocsT E src -> sw_Wm V nprocsT E dst ->
  among V dflt E (fst (sw_m_redirect V dflt Nl nprocsT d' cur steps src dst)) [src; dst] /\
  among V dflt E (snd (sw_m_redirect V dflt Nl nprocsT d' cur steps src dst)) [src; dst].
Proof. exact sw_m_redirect_frame. Qed.
Print Assumptions c03_route_frame.
Theorem c03_route_frame_intact :
  forall (V : Type) (dflt : V) (Nl nprocsT : list nat) (d' : nat) (E : nat -> nat) (cur : sw_node) (steps : list sw_node) (src dst buf : mems V),
  sw_m_route_ok Nl nprocsT d' E cur steps = true -> sw_Wm V nprocsT E src -> sw_Wm V nprocsT E dst -> sw_Wm V nprocsT E buf ->
  among V dflt E (fst (sw_m_redirect_intact V dflt Nl nprocsT d' cur steps src dst buf)) [dst; buf] /\
  among V dflt E (snd (sw_m_redirect_intact V dflt Nl nprocsT d' cur steps src dst buf)) [dst; buf].
Proof. exact sw_m_redirect_intact_frame. Qed.
Print Assumptions c03_route_frame_intact.
Theorem c03_mem_route_correct :
  forall (V : Type) (dflt : V) (Nl nprocsT : list nat) (d' : nat) (E : nat -> nat) (G : list nat -> V) (cur : sw_node)
    (steps : list sw_node) (src dst : mems V),
  sw_m_route_ok Nl nprocsT d' E cur steps = true -> sw_Wm V nprocsT E src -> sw_Wm V nprocsT E dst ->
  HoldsS V dflt Nl nprocsT d' G (snd cur) src ->
  HoldsS V dflt Nl nprocsT d' G (snd (last steps cur)) (snd (sw_m_redirect V dflt Nl nprocsT d' cur steps src dst)).
Proof. exact sw_m_redirect_correct. Qed.
Print Assumptions c03_mem_route_correct.
Theorem c03_mem_route_correct_intact :
  forall (V : Type) (dflt : V) (Nl nprocsT : list nat) (d' : nat) (E : nat -> nat) (G : list nat -> V) (cur : sw_node)
    (steps : list sw_node) (src dst buf : mems V),
  steps <> [] -> sw_m_route_ok Nl nprocsT d' E cur steps = true ->
  sw_Wm V nprocsT E src -> sw_Wm V nprocsT E dst -> sw_Wm V nprocsT E buf ->
  HoldsS V dflt Nl nprocsT d' G (snd cur) src ->
  HoldsS V dflt Nl nprocsT d' G (snd (last steps cur)) (fst (sw_m_redirect_intact V dflt Nl nprocsT d' cur steps src dst buf)).
Proof. exact sw_m_redirect_intact_correct. Qed.
Print Assumptions c03_mem_route_correct_intact.

(** the extent of the gather S -> D and of the scatter back lies inside p * B (p padded blocks of the scattered
    layout), and p * B is what the constructor reserves for the pair - its computation (layout.py:1088-1109,
    model sw_pair_bufsize: both blocks padded on the axis found by getAxes, the comparison blockSize1 > blockSize2
    selecting the communicator) yields p * B for either order of the two layouts whenever one padded block of S is
    smaller than the block of D (always so when no block is empty and p > 1); sw_bufsize >= every enumerated pair *)
Theorem c03_gather_scatter_within_pB :
  forall (Nl nprocsT : list nat) (d' : nat) (LS LD : sw_lay) (is_ w : nat),
  sw_cfg_wf_b Nl nprocsT d' LS LD = true -> sw_gather_wf_b nprocsT d' LS LD is_ = true -> w < sw_nranks nprocsT ->
  Nat.max (sw_msize Nl nprocsT d' LD w) (sw_P nprocsT (snd LS) is_ * sw_gB Nl nprocsT d' LS is_ w)
    <= sw_P nprocsT (snd LS) is_ * sw_gB Nl nprocsT d' LS is_ w /\
  sw_msize Nl nprocsT d' LS w <= sw_P nprocsT (snd LS) is_ * sw_gB Nl nprocsT d' LS is_ w.
Proof. exact sw_gather_scatter_extent_le. Qed.
Print Assumptions c03_gather_scatter_within_pB.
Theorem c03_ctor_reserves_pB :
  forall (Nl nprocsT : list nat) (d' : nat) (LS LD : sw_lay) (is_ w : nat),
  sw_cfg_wf_b Nl nprocsT d' LS LD = true -> sw_gather_wf_b nprocsT d' LS LD is_ = true -> w < sw_nranks nprocsT ->
  sw_nd nprocsT (snd LD) < sw_nd nprocsT (snd LS) -> sw_gather_axis LS LD = Some is_ ->
  sw_gB Nl nprocsT d' LS is_ w < sw_msize Nl nprocsT d' LD w ->
  sw_pair_bufsize Nl nprocsT d' LS LD w = Some (sw_gB Nl nprocsT d' LS is_ w * sw_P nprocsT (snd LS) is_) /\
  sw_pair_bufsize Nl nprocsT d' LD LS w = Some (sw_gB Nl nprocsT d' LS is_ w * sw_P nprocsT (snd LS) is_).
Proof. exact sw_pair_bufsize_gather. Qed.
Print Assumptions c03_ctor_reserves_pB.
Theorem c03_bufsize_ge_pairs :
  forall (Nl nprocsT : list nat) (d' : nat) (hsizes : list nat) (pairs : list (sw_lay * sw_lay)) (w tot : nat),
  sw_bufsize Nl nprocsT d' hsizes pairs w = Some tot ->
  fold_left Nat.max hsizes 0 <= tot /\
  forall L1 L2, In (L1, L2) pairs -> exists b, sw_pair_bufsize Nl nprocsT d' L1 L2 w = Some b /\ b <= tot.
Proof.
  intros Nl nprocsT d' hsizes pairs w tot H. unfold sw_bufsize in H.
  destruct (sw_bufsize_ge Nl nprocsT d' pairs w _ tot H) as [[a [Ea Ha]] Hin]. injection Ea as <-. split; assumption.
Qed.
Print Assumptions c03_bufsize_ge_pairs.

(** LayoutSwapper.transpose with a spare buffer: the source array afterwards is the source array given (all cells) *)
Theorem c03_source_intact :
  forall (V : Type) (dflt : V) (Nl nprocsT : list nat) (d' : nat) (cur : sw_node) (steps : list sw_node) (src dst buf : mems V),
  fst (fst (sw_m_transpose V dflt Nl nprocsT d' cur steps true src dst buf)) = src.
Proof. intros. apply transpose_m_src_same. Qed.
Print Assumptions c03_source_intact.

(** non-vacuity: the gather of c03_example_gather on arrays of 6 cells filled with 7 / 8 / 9 beyond the block.
    Without a buffer dest becomes a copy of the whole source array (its tail holds the 7s); with one the
    source is intact, dest keeps its 8s and buf holds the gathered padded blocks. *)
Example c03_example_frame :
  sw_m_ok [2;2;2] [2;2] 2 (fun _ => 4) (0, ([0;2;1],[0;1])) (1, ([0;2;1],[0])) = true /\
  sw_m_transpose nat 99 [2;2;2] [2;2] 2 (0, ([0;2;1],[0;1])) [(1, ([0;2;1],[0]))] false
    [[0;2;7;7;7;7];[1;3;7;7;7;7];[4;6;7;7;7;7];[5;7;7;7;7;7]] [[8;8;8;8;8;8];[8;8;8;8;8;8];[8;8;8;8;8;8];[8;8;8;8;8;8]]
    [[9;9;9;9;9;9];[9;9;9;9;9;9];[9;9;9;9;9;9];[9;9;9;9;9;9]]
  = ([[0;2;1;3;7;7];[0;2;1;3;7;7];[4;6;5;7;7;7];[4;6;5;7;7;7]], [[0;2;1;3;7;7];[0;2;1;3;7;7];[4;6;5;7;7;7];[4;6;5;7;7;7]],
     [[9;9;9;9;9;9];[9;9;9;9;9;9];[9;9;9;9;9;9];[9;9;9;9;9;9]]) /\
  sw_m_transpose nat 99 [2;2;2] [2;2] 2 (0, ([0;2;1],[0;1])) [(1, ([0;2;1],[0]))] true
    [[0;2;7;7;7;7];[1;3;7;7;7;7];[4;6;7;7;7;7];[5;7;7;7;7;7]] [[8;8;8;8;8;8];[8;8;8;8;8;8];[8;8;8;8;8;8];[8;8;8;8;8;8]]
    [[9;9;9;9;9;9];[9;9;9;9;9;9];[9;9;9;9;9;9];[9;9;9;9;9;9]]
  = ([[0;2;7;7;7;7];[1;3;7;7;7;7];[4;6;7;7;7;7];[5;7;7;7;7;7]], [[0;2;1;3;8;8];[0;2;1;3;8;8];[4;6;5;7;8;8];[4;6;5;7;8;8]],
     [[0;2;1;3;9;9];[0;2;1;3;9;9];[4;6;5;7;9;9];[4;6;5;7;9;9]]).
Proof. vm_compute. repeat split; reflexivity. Qed.
