(** C11 - v-parallel advection.  Executable model of
      pygyro/advection/accelerated_advection_steps.py : v_parallel_advection_eval_step
      (general_v_parallel_advection_eval_step with the three boundary modes, the two while loops
       of the periodic mode fuelled) and of pygyro/initialisation/initialiser_funcs.py : n0, Ti, f_eq
    over the abstract field of SplineModel.v; exp / tanh / sqrt / pi are parameters ([vp_ext]). *)
From Coq Require Import List Arith Lia ZArith Bool Field Ring Setoid.
Import ListNotations.
From PGV Require Import BasisCoxDeBoor FindSpan CubicUniform Sums SplineModel SplineTheory AdvCommon.

Record vp_ext (F : Type) : Type := VpExt {
  vx_exp : F -> F; vx_tanh : F -> F; vx_sqrt : F -> F; vx_pi : F }.
Arguments vx_exp {F}. Arguments vx_tanh {F}. Arguments vx_sqrt {F}. Arguments vx_pi {F}.

Section VpModel.
Variable F : Type.
Variable K : sp_ops F.
Variable X : vp_ext F.
Notation "x + y" := (spadd K x y). Notation "x * y" := (spmul K x y).
Notation "x - y" := (spsub K x y). Notation "x / y" := (spdiv K x y).
Notation "0" := (sp0 K). Notation "1" := (sp1 K).

(** n0 and Ti:  C * exp(-k * delta * tanh((r - rp) / delta)) *)
Definition vp_profile (r C k delta rp : F) : sp_res F :=
  if speqb K delta 0 then SpDivErr
  else SpOk (C * vx_exp X (spopp K k * delta * vx_tanh X ((r - rp) / delta))).

(** f_eq(r, vPar, CN0, kN0, deltaRN0, rp, Cti, kti, deltaRti)
    = n0(r) * exp(-0.5*vPar*vPar / Ti(r)) / sqrt(2.0*pi*Ti(r)) *)
Definition vp_f_eq (r v CN0 kN0 dRN0 rp CTi kTi dRTi : F) : sp_res F :=
  sp_bind (vp_profile r CN0 kN0 dRN0 rp) (fun n0 =>
  sp_bind (vp_profile r CTi kTi dRTi rp) (fun ti =>
  if speqb K ti 0 then SpDivErr else
  let den := vx_sqrt X (sp_two F K * vx_pi X * ti) in
  if speqb K den 0 then SpDivErr else
  SpOk (n0 * vx_exp X (spopp K (sp_half F K) * v * v / ti) / den))).

(** v < vMin or v > vMax  (strict comparisons) *)
Definition vp_outside (v vMin vMax : F) : bool := negb (spleb K vMin v) || negb (spleb K v vMax).

(** while (v < vMin): v += vDiff *)
Fixpoint vp_up (fuel : nat) (v vMin vDiff : F) : sp_res F :=
  if spleb K vMin v then SpOk v
  else match fuel with O => SpFuelErr | S n => vp_up n (v + vDiff) vMin vDiff end.
(** while (v > vMax): v -= vDiff *)
Fixpoint vp_down (fuel : nat) (v vMax vDiff : F) : sp_res F :=
  if spleb K v vMax then SpOk v
  else match fuel with O => SpFuelErr | S n => vp_down n (v - vDiff) vMax vDiff end.

(** fuel: floor(distance/width) + 1 iterations are enough when the width is positive (vp_wrap_ok);
    it is proportional to the number of iterations the code itself makes *)
Definition vp_fuel (dist vDiff : F) : nat :=
  if speqb K vDiff 0 then 0%nat else S (Z.to_nat (Z.max 0 (adv_floor F K (dist / vDiff)))).

Definition vp_wrap (v vMin vMax : F) : sp_res F :=
  let vDiff := vMax - vMin in
  sp_bind (vp_up (vp_fuel (vMin - v) vDiff) v vMin vDiff) (fun v1 =>
  vp_down (vp_fuel (v1 - vMax) vDiff) v1 vMax vDiff).

(** the new value of one node.  [ev] = the spline of the old nodal values, [feq] = f_eq(rPos, .) *)
Definition vp_point (ev feq : F -> sp_res F) (bound : Z) (vMin vMax : F) (old v : F) : sp_res F :=
  if (bound =? 0)%Z then (if vp_outside v vMin vMax then feq v else ev v)
  else if (bound =? 1)%Z then (if vp_outside v vMin vMax then SpOk 0 else ev v)
  else if (bound =? 2)%Z then sp_bind (vp_wrap v vMin vMax) ev
  else SpOk old.                                         (* no branch is taken: f[i] is left as it is *)

(** for i, v in enumerate(vPts): f[i] = ...   (len(vPts) > len(f) is an IndexError) *)
Fixpoint vp_loop (ev feq : F -> sp_res F) (bound : Z) (vMin vMax : F) (f vPts : list F) : sp_res (list F) :=
  match vPts with
  | [] => SpOk f
  | v :: vr =>
    match f with
    | [] => if ((bound =? 0) || (bound =? 1) || (bound =? 2))%Z then SpIndexErr else SpOk []
    | old :: fr =>
      sp_bind (vp_point ev feq bound vMin vMax old v) (fun y =>
      sp_bind (vp_loop ev feq bound vMin vMax fr vr) (fun ys => SpOk (y :: ys)))
    end
  end.

(** v_parallel_advection_eval_step(f, vPts, rPos, vMin, vMax, kts, deg, coeffs, CN0, kN0, deltaRN0, rp,
                                   CTi, kTi, deltaRTi, bound, cubic_uniform_splines) *)
Definition vp_eval_step (f vPts : list F) (rPos vMin vMax : F) (knots : list F) (deg : nat) (coeffs : list F)
  (CN0 kN0 dRN0 rp CTi kTi dRTi : F) (bound : Z) (cu : bool) : sp_res (list F) :=
  vp_loop (adv_ev F K cu knots deg coeffs)
          (fun v => vp_f_eq rPos v CN0 kN0 dRN0 rp CTi kTi dRTi) bound vMin vMax f vPts.

(** VParallelAdvection.step: vPts = points - c*dt, vMin = points[0], vMax = points[-1] *)
Definition vp_step (f points : list F) (dt c rPos : F) (knots : list F) (deg : nat) (coeffs : list F)
  (CN0 kN0 dRN0 rp CTi kTi dRTi : F) (bound : Z) (cu : bool) : sp_res (list F) :=
  match points with
  | [] => SpIndexErr
  | p0 :: _ => vp_eval_step f (map (fun p => p - c * dt) points) rPos p0 (last points 0) knots deg coeffs
                            CN0 kN0 dRN0 rp CTi kTi dRTi bound cu
  end.
End VpModel.

(* ============================================================================================ *)
Section VpTheory.
Variable F : Type.
Variable K : sp_ops F.
Hypothesis HK : sp_laws K.
Add Field VPF : (spl_field K HK).
Notation "x + y" := (spadd K x y). Notation "x * y" := (spmul K x y).
Notation "x - y" := (spsub K x y). Notation "x / y" := (spdiv K x y).
Notation "0" := (sp0 K). Notation "1" := (sp1 K).
Notation "x <= y" := (sp_le K x y). Notation "x < y" := (sp_lt K x y).
Notation ofn := (sp_ofnat F K).
Notation ofZ := (sp_ofZ F K).

Lemma vp_leb_false a b : spleb K a b = false -> b < a.
Proof. intros E. apply (adv_not_le_lt F K HK). intros H. unfold sp_le in H. congruence. Qed.
Lemma vp_lt_leb a b : b < a -> spleb K a b = false.
Proof. intros H. destruct (spleb K a b) eqn:E; [|reflexivity]. exfalso.
  apply (sp_lt_irrefl_le F K HK b a H). exact E. Qed.

(** outside <-> v < vMin \/ v > vMax *)
Lemma vp_outside_spec v vMin vMax : vp_outside F K v vMin vMax = true <-> (v < vMin \/ vMax < v).
Proof.
  unfold vp_outside. rewrite orb_true_iff, !negb_true_iff. split.
  - intros [E|E]; [left|right]; apply vp_leb_false, E.
  - intros [H|H]; [left|right]; apply vp_lt_leb, H.
Qed.
Lemma vp_inside_spec v vMin vMax : vp_outside F K v vMin vMax = false <-> (vMin <= v /\ v <= vMax).
Proof.
  unfold vp_outside. rewrite orb_false_iff, !negb_false_iff. unfold sp_le. tauto.
Qed.

(* ---- the while loops ------------------------------------------------------------------- *)
Lemma vp_up_spec vMin vDiff : 0 < vDiff -> forall n v, vMin - v <= ofn n * vDiff ->
  exists m, (m <= n)%nat /\ vp_up F K n v vMin vDiff = SpOk (v + ofn m * vDiff) /\
            vMin <= v + ofn m * vDiff /\ (m = 0%nat \/ v + ofn m * vDiff < vMin + vDiff).
Proof.
  intros Hd. induction n as [|n IH]; intros v Hn.
  - exists 0%nat. cbn [vp_up]. assert (Hv : vMin <= v).
    { apply (sp_nonneg_sub F K HK). replace (v - vMin) with (spopp K (vMin - v)) by ring.
      replace 0 with (spopp K 0) by ring. apply (adv_le_opp F K HK).
      replace 0 with (ofn 0 * vDiff) by (cbn; ring). exact Hn. }
    rewrite Hv. split; [lia|]. split; [f_equal; cbn; ring|]. split; [|left; reflexivity].
    replace (v + ofn 0 * vDiff) with v by (cbn; ring). exact Hv.
  - cbn [vp_up]. destruct (spleb K vMin v) eqn:E.
    + exists 0%nat. split; [lia|]. split; [f_equal; cbn; ring|]. split; [|left; reflexivity].
      replace (v + ofn 0 * vDiff) with v by (cbn; ring). exact E.
    + apply vp_leb_false in E.
      destruct (IH (v + vDiff)) as [m [Hm [Eq [Hlo Hhi]]]].
      { apply (sp_nonneg_sub F K HK).
        replace (ofn n * vDiff - (vMin - (v + vDiff))) with (ofn (S n) * vDiff - (vMin - v)) by (rewrite (sp_ofnat_S F K); ring).
        apply (sp_sub_nonneg F K HK), Hn. }
      exists (S m). split; [lia|].
      assert (Ev : v + vDiff + ofn m * vDiff = v + ofn (S m) * vDiff) by (rewrite (sp_ofnat_S F K); ring).
      rewrite <- Ev. split; [exact Eq|]. split; [exact Hlo|]. right.
      destruct Hhi as [->|Hhi]; [|exact Hhi].
      replace (v + vDiff + ofn 0 * vDiff) with (v + vDiff) by (cbn; ring).
      apply (adv_lt_add_r F K HK), E.
Qed.

Lemma vp_down_spec vMax vDiff : 0 < vDiff -> forall n v, v - vMax <= ofn n * vDiff ->
  exists m, (m <= n)%nat /\ vp_down F K n v vMax vDiff = SpOk (v - ofn m * vDiff) /\
            v - ofn m * vDiff <= vMax /\ (m = 0%nat \/ vMax - vDiff < v - ofn m * vDiff).
Proof.
  intros Hd. induction n as [|n IH]; intros v Hn.
  - exists 0%nat. cbn [vp_down]. assert (Hv : v <= vMax).
    { apply (sp_nonneg_sub F K HK). replace (vMax - v) with (spopp K (v - vMax)) by ring.
      replace 0 with (spopp K 0) by ring. apply (adv_le_opp F K HK).
      replace 0 with (ofn 0 * vDiff) by (cbn; ring). exact Hn. }
    rewrite Hv. split; [lia|]. split; [f_equal; cbn; ring|]. split; [|left; reflexivity].
    replace (v - ofn 0 * vDiff) with v by (cbn; ring). exact Hv.
  - cbn [vp_down]. destruct (spleb K v vMax) eqn:E.
    + exists 0%nat. split; [lia|]. split; [f_equal; cbn; ring|]. split; [|left; reflexivity].
      replace (v - ofn 0 * vDiff) with v by (cbn; ring). exact E.
    + apply vp_leb_false in E.
      destruct (IH (v - vDiff)) as [m [Hm [Eq [Hlo Hhi]]]].
      { apply (sp_nonneg_sub F K HK).
        replace (ofn n * vDiff - (v - vDiff - vMax)) with (ofn (S n) * vDiff - (v - vMax)) by (rewrite (sp_ofnat_S F K); ring).
        apply (sp_sub_nonneg F K HK), Hn. }
      exists (S m). split; [lia|].
      assert (Ev : v - vDiff - ofn m * vDiff = v - ofn (S m) * vDiff) by (rewrite (sp_ofnat_S F K); ring).
      rewrite <- Ev. split; [exact Eq|]. split; [exact Hlo|]. right.
      destruct Hhi as [->|Hhi]; [|exact Hhi].
      replace (v - vDiff - ofn 0 * vDiff) with (v - vDiff) by (cbn; ring).
      replace (vMax - vDiff) with (vMax + spopp K vDiff) by ring.
      replace (v - vDiff) with (v + spopp K vDiff) by ring.
      apply (adv_lt_add_r F K HK), E.
Qed.

(** the fuel the model computes is enough *)
Lemma vp_fuel_enough dist vDiff : adv_trunc_ok F K -> 0 < vDiff ->
  dist <= ofn (vp_fuel F K dist vDiff) * vDiff.
Proof.
  intros Htr [Hd0 Hdne]. assert (Hd : vDiff <> 0) by (intros E; apply Hdne; symmetry; exact E).
  unfold vp_fuel. destruct (sp_eqb_spec F K HK vDiff 0) as [E|_]; [contradiction|].
  set (q := dist / vDiff). destruct (adv_floor_spec F K HK q Htr) as [_ [Hq _]].
  replace dist with (q * vDiff) by (unfold q; field; exact Hd).
  apply (sp_mul_le_r F K HK); [|exact Hd0].
  apply (spl_le_trans K HK) with (ofZ (adv_floor F K q) + 1); [exact Hq|].
  rewrite (sp_ofnat_S F K). apply (spl_add_le K HK).
  destruct (Z.le_gt_cases 0 (adv_floor F K q)) as [Hf|Hf].
  - rewrite Z.max_r by lia. rewrite <- (sp_ofZ_ofnat F K HK) by lia. apply (sp_le_refl F K HK).
  - rewrite Z.max_l by lia. cbn [Z.to_nat]. change (ofn 0) with 0.
    replace (adv_floor F K q) with (- Z.of_nat (Z.to_nat (- adv_floor F K q)))%Z by lia.
    rewrite (adv_ofZ_opp F K HK), (adv_ofZ_of_nat F K HK).
    replace 0 with (spopp K 0) by ring. apply (adv_le_opp F K HK), (sp_ofnat_nonneg F K HK).
Qed.

(** C11: for vMin < vMax the periodic wrap terminates within the computed fuel, the wrapped foot is a
    periodic image of v and lies in [vMin, vMax] *)
Theorem vp_wrap_ok v vMin vMax : adv_trunc_ok F K -> vMin < vMax ->
  exists (a b : nat), vp_wrap F K v vMin vMax = SpOk (v + ofn a * (vMax - vMin) - ofn b * (vMax - vMin)) /\
    vMin <= v + ofn a * (vMax - vMin) - ofn b * (vMax - vMin) /\
    v + ofn a * (vMax - vMin) - ofn b * (vMax - vMin) <= vMax.
Proof.
  intros Htr Hlt. pose proof (sp_lt_0_sub F K HK _ _ Hlt) as Hd. unfold vp_wrap. cbv zeta.
  set (vDiff := vMax - vMin) in *.
  destruct (vp_up_spec vMin vDiff Hd _ v (vp_fuel_enough (vMin - v) vDiff Htr Hd)) as [a [_ [Ea [Hlo Hhi]]]].
  rewrite Ea. cbn [sp_bind]. set (v1 := v + ofn a * vDiff) in *.
  destruct (vp_down_spec vMax vDiff Hd _ v1 (vp_fuel_enough (v1 - vMax) vDiff Htr Hd)) as [b [_ [Eb [Hhi2 Hlo2]]]].
  exists a, b. split; [exact Eb|]. split; [|exact Hhi2].
  destruct Hlo2 as [->|Hlo2].
  - fold v1. replace (v1 - ofn 0 * vDiff) with v1 by (cbn; ring). exact Hlo.
  - replace (vMax - vDiff) with vMin in Hlo2 by (unfold vDiff; ring). exact (proj1 Hlo2).
Qed.

(** a foot already inside the interval is not moved, whatever the fuel *)
Lemma vp_wrap_inside v vMin vMax : vMin <= v -> v <= vMax -> vp_wrap F K v vMin vMax = SpOk v.
Proof.
  intros H1 H2. unfold vp_wrap. cbv zeta.
  assert (E1 : forall n, vp_up F K n v vMin (vMax - vMin) = SpOk v) by (intros [|n]; cbn [vp_up]; rewrite H1; reflexivity).
  rewrite E1. cbn [sp_bind].
  assert (E2 : forall n, vp_down F K n v vMax (vMax - vMin) = SpOk v) by (intros [|n]; cbn [vp_down]; rewrite H2; reflexivity).
  apply E2.
Qed.

(** stated guard: for vMax <= vMin the first loop never ends on a foot below vMin (no fuel suffices) *)
Theorem vp_wrap_diverges vMin vMax : vMax <= vMin -> forall n v, v < vMin ->
  vp_up F K n v vMin (vMax - vMin) = SpFuelErr.
Proof.
  intros Hle. induction n as [|n IH]; intros v Hv; cbn [vp_up]; rewrite (vp_lt_leb _ _ Hv); [reflexivity|].
  apply IH. apply (sp_le_lt_trans F K HK) with v; [|exact Hv].
  apply (sp_nonneg_sub F K HK). replace (v - (v + (vMax - vMin))) with (vMin - vMax) by ring.
  apply (sp_sub_nonneg F K HK), Hle.
Qed.

(* ---- the value written at one node --------------------------------------------------------- *)
Variables (ev feq : F -> sp_res F).

(** C11: what is written at a node whose foot is v *)
Theorem vp_point_formula bound vMin vMax old v :
  (vMin <= v /\ v <= vMax -> (bound = 0 \/ bound = 1 \/ bound = 2)%Z ->
     vp_point F K ev feq bound vMin vMax old v = ev v) /\
  ((v < vMin \/ vMax < v) -> bound = 0%Z -> vp_point F K ev feq bound vMin vMax old v = feq v) /\
  ((v < vMin \/ vMax < v) -> bound = 1%Z -> vp_point F K ev feq bound vMin vMax old v = SpOk 0) /\
  (adv_trunc_ok F K -> vMin < vMax -> bound = 2%Z ->
     exists a b : nat, let w := v + ofn a * (vMax - vMin) - ofn b * (vMax - vMin) in
       vMin <= w /\ w <= vMax /\ vp_point F K ev feq bound vMin vMax old v = ev w).
Proof.
  repeat split.
  - intros [H1 H2] Hb. unfold vp_point.
    assert (Ei : vp_outside F K v vMin vMax = false) by (apply vp_inside_spec; split; assumption).
    destruct Hb as [-> | [-> | ->]]; cbn [Z.eqb Pos.eqb]; rewrite ?Ei; try reflexivity.
    rewrite vp_wrap_inside by assumption. reflexivity.
  - intros Ho ->. unfold vp_point. cbn [Z.eqb]. apply vp_outside_spec in Ho. rewrite Ho. reflexivity.
  - intros Ho ->. unfold vp_point. cbn [Z.eqb Pos.eqb]. apply vp_outside_spec in Ho. rewrite Ho. reflexivity.
  - intros Htr Hlt ->. destruct (vp_wrap_ok v vMin vMax Htr Hlt) as [a [b [E [H1 H2]]]].
    exists a, b. cbv zeta. split; [exact H1|]. split; [exact H2|].
    unfold vp_point. cbn [Z.eqb Pos.eqb]. rewrite E. reflexivity.
Qed.

(** the loop writes node i from foot vPts[i] only *)
Theorem vp_loop_spec bound vMin vMax : forall f vPts (g : list F),
  length f = length vPts -> length g = length vPts ->
  (forall i, (i < length vPts)%nat ->
     vp_point F K ev feq bound vMin vMax (nth i f 0) (nth i vPts 0) = SpOk (nth i g 0)) ->
  vp_loop F K ev feq bound vMin vMax f vPts = SpOk g.
Proof.
  induction f as [|old fr IH]; intros vPts g Hl Hg H; destruct vPts as [|v vr]; cbn [length] in *; try lia.
  - destruct g; [reflexivity|cbn in Hg; lia].
  - destruct g as [|y ys]; [cbn in Hg; lia|]. cbn [vp_loop].
    pose proof (H 0%nat ltac:(lia)) as H0. cbn [nth] in H0. rewrite H0. cbn [sp_bind].
    rewrite (IH vr ys); [reflexivity|lia|cbn in Hg; lia|].
    intros i Hi. apply (H (S i)). lia.
Qed.

(** zero advection speed (or dt = 0): every foot is its own node; with exact interpolation as the
    hypothesis [ev (node i) = f i], the step is the identity in each of the three modes *)
Theorem vp_zero_speed_id bound vMin vMax f vPts :
  (bound = 0 \/ bound = 1 \/ bound = 2)%Z -> length f = length vPts ->
  (forall i, (i < length vPts)%nat -> vMin <= nth i vPts 0 /\ nth i vPts 0 <= vMax) ->
  (forall i, (i < length vPts)%nat -> ev (nth i vPts 0) = SpOk (nth i f 0)) ->
  vp_loop F K ev feq bound vMin vMax f vPts = SpOk f.
Proof.
  intros Hb Hl Hin Hint. apply vp_loop_spec; [exact Hl|exact Hl|].
  intros i Hi. rewrite <- (Hint i Hi).
  apply (proj1 (vp_point_formula bound vMin vMax (nth i f 0) (nth i vPts 0))); [apply Hin, Hi|exact Hb].
Qed.

End VpTheory.
