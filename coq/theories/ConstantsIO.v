(** C18 — the constants file: pygyro/initialisation/constants.py, get_constants / eval_expr / Constants.__str__.

    A file is a JSON object: a list of (key, value) with distinct keys, a value being a number (or a list:
    npts, splineDegrees - plain payloads) or a string holding an expression over other keys.
    Keys are numbered; [kmin], [kmax], [krp] are rMin, rMax, rp (the two setters overwrite rp).

    Expressions: the subset the test files and the printer use - identifiers that are attributes of
    Constants, numeric literals (math names such as pi are literals), unary minus, + - * / and parentheses.
    eval_expr substitutes str(value) for identifiers and calls Python's eval: on this subset that is the
    evaluation of the syntax tree (floats print with repr, which reads back exactly; a negative value put
    after an operator still parses).  eval_expr accepts more (e.g. '**' through the empty split, any name of
    the math module, attribute names that are methods): those stay outside; the harness translates the
    generated files with a fail-closed translator.  Arithmetic is an abstract deterministic semantics
    ([add] ... : binary64 in the implementation; a ZeroDivisionError is outside). *)
From Coq Require Import List Arith Lia PeanoNat Bool Permutation.
Import ListNotations.

Section ConstantsIO.
Variable V : Type.
Variables add sub mul div : V -> V -> V.
Variable neg : V -> V.
Variable mid : V -> V -> V.                 (* 0.5*(rMin + rMax) *)
Variables kmin kmax krp : nat.
Hypothesis Hmin_rp : kmin <> krp.
Hypothesis Hmax_rp : kmax <> krp.
Hypothesis Hmin_max : kmin <> kmax.

Inductive cp_op : Type := OAdd | OSub | OMul | ODiv.

Inductive cp_expr : Type :=
| EId (k : nat)
| ELit (v : V)
| ENeg (e : cp_expr)
| EBin (o : cp_op) (a b : cp_expr).

Inductive cp_val : Type := CNum (v : V) | CExpr (e : cp_expr).
Notation cp_entry := (nat * cp_val)%type.
Definition cp_store : Type := nat -> option V.      (* attribute values; None = still None *)

Definition cp_apply (o : cp_op) : V -> V -> V :=
  match o with OAdd => add | OSub => sub | OMul => mul | ODiv => div end.

(** eval_expr: None as soon as an identifier is still None *)
Fixpoint cp_eval (st : cp_store) (e : cp_expr) : option V :=
  match e with
  | EId k => st k
  | ELit v => Some v
  | ENeg a => match cp_eval st a with Some x => Some (neg x) | None => None end
  | EBin o a b => match cp_eval st a, cp_eval st b with
                  | Some x, Some y => Some (cp_apply o x y)
                  | _, _ => None
                  end
  end.

Fixpoint cp_ids (e : cp_expr) : list nat :=
  match e with
  | EId k => [k]
  | ELit _ => []
  | ENeg a => cp_ids a
  | EBin _ a b => cp_ids a ++ cp_ids b
  end.

Definition cp_upd (st : cp_store) (k : nat) (v : V) : cp_store := fun j => if j =? k then Some v else st j.

(** setattr(constants, k, v): the rMin / rMax setters recompute rp when the other bound is known *)
Definition cp_set (k : nat) (v : V) (st : cp_store) : cp_store :=
  if k =? kmin then
    let st1 := cp_upd st kmin v in
    match st kmax with Some b => cp_upd st1 krp (mid v b) | None => st1 end
  else if k =? kmax then
    let st1 := cp_upd st kmax v in
    match st kmin with Some a => cp_upd st1 krp (mid a v) | None => st1 end
  else cp_upd st k v.

Inductive cp_pass_res : Type :=
| PassOk (st : cp_store) (unm : list cp_entry)
| PassAlone.                              (* assert len(data) > 0 or len(unmatched) *)

(** the inner while loop: [todo] in pop order (popitem takes the last entry), [unm] = the dict `unmatched`
    kept in reverse insertion order, which is the pop order of the next pass *)
Fixpoint cp_pass (todo : list cp_entry) (st : cp_store) (unm : list cp_entry) : cp_pass_res :=
  match todo with
  | [] => PassOk st unm
  | (k, CNum v) :: r => cp_pass r (cp_set k v st) unm
  | (k, CExpr e) :: r =>
      match cp_eval st e with
      | Some v => cp_pass r (cp_set k v st) unm
      | None =>
          match r, unm with
          | [], [] => PassAlone
          | _, _ => cp_pass r st ((k, CExpr e) :: unm)
          end
      end
  end.

Inductive cp_res : Type :=
| CPOk (st : cp_store)
| CPAlone                                 (* AssertionError of the inner loop *)
| CPNoProgress                            (* assert len(data) < n *)
| CPFuel.

(** the outer while loop; [n] is the variable n of the code *)
Fixpoint cp_loop (fuel : nat) (todo : list cp_entry) (n : nat) (st : cp_store) : cp_res :=
  match fuel with
  | 0 => CPFuel
  | S f =>
      match todo with
      | [] => CPOk st
      | _ =>
          match cp_pass todo st [] with
          | PassOk st' unm => if length unm <? n then cp_loop f unm (length unm) st' else CPNoProgress
          | PassAlone => CPAlone
          end
      end
  end.

(** get_constants before set_defaults: fuel = number of entries + 1 *)
Definition cp_parse (l : list cp_entry) : cp_res :=
  cp_loop (S (length l)) (rev l) (length l) (fun _ => None).

(** set_defaults: for key, val in defaults.items(): if getattr(self, key) is None: setattr(self, key, val) *)
Fixpoint cp_defaults (d : list (nat * V)) (st : cp_store) : cp_store :=
  match d with
  | [] => st
  | (k, v) :: r => cp_defaults r (match st k with None => cp_set k v st | Some _ => st end)
  end.

Definition cp_get_constants (d : list (nat * V)) (l : list cp_entry) : option cp_store :=
  match cp_parse l with CPOk st => Some (cp_defaults d st) | _ => None end.

(** ** evaluation facts *)
Lemma cp_eval_ext st st' e :
  (forall j, In j (cp_ids e) -> st j = st' j) -> cp_eval st e = cp_eval st' e.
Proof.
  induction e as [k|v|a IH|o a IHa b IHb]; intros H; cbn [cp_eval cp_ids] in *.
  - apply H. left. reflexivity.
  - reflexivity.
  - rewrite IH by exact H. reflexivity.
  - rewrite IHa, IHb; [reflexivity| |]; intros j Hj; apply H; apply in_app_iff; [right|left]; exact Hj.
Qed.

Lemma cp_eval_mono st st' e v :
  (forall j w, In j (cp_ids e) -> st j = Some w -> st' j = Some w) ->
  cp_eval st e = Some v -> cp_eval st' e = Some v.
Proof.
  revert v. induction e as [k|x|a IH|o a IHa b IHb]; intros v H E; cbn [cp_eval cp_ids] in *.
  - apply H; [left; reflexivity|exact E].
  - exact E.
  - destruct (cp_eval st a) as [x|] eqn:Ea; [|discriminate]. rewrite (IH x H eq_refl). exact E.
  - destruct (cp_eval st a) as [x|] eqn:Ea; [|discriminate].
    destruct (cp_eval st b) as [y|] eqn:Eb; [|discriminate].
    rewrite (IHa x), (IHb y); [exact E| |reflexivity| |reflexivity];
      intros j w Hj; apply H; apply in_app_iff; [right|left]; exact Hj.
Qed.

Lemma cp_eval_defined st e : (forall j, In j (cp_ids e) -> st j <> None) -> cp_eval st e <> None.
Proof.
  induction e as [k|x|a IH|o a IHa b IHb]; intros H; cbn [cp_eval cp_ids] in *.
  - apply H. left. reflexivity.
  - discriminate.
  - specialize (IH H). destruct (cp_eval st a); [discriminate|contradiction].
  - assert (Ha : cp_eval st a <> None) by (apply IHa; intros j Hj; apply H; apply in_app_iff; left; exact Hj).
    assert (Hb : cp_eval st b <> None) by (apply IHb; intros j Hj; apply H; apply in_app_iff; right; exact Hj).
    destruct (cp_eval st a); [|contradiction]. destruct (cp_eval st b); [discriminate|contradiction].
Qed.

Lemma cp_set_other k v st j : j <> k -> j <> krp -> cp_set k v st j = st j.
Proof.
  intros H1 H2. unfold cp_set, cp_upd.
  destruct (k =? kmin) eqn:E1; [|destruct (k =? kmax) eqn:E2].
  - apply Nat.eqb_eq in E1. subst k. destruct (st kmax); cbn;
      rewrite ?(proj2 (Nat.eqb_neq _ _) H2), (proj2 (Nat.eqb_neq _ _) H1); reflexivity.
  - apply Nat.eqb_eq in E2. subst k. destruct (st kmin); cbn;
      rewrite ?(proj2 (Nat.eqb_neq _ _) H2), (proj2 (Nat.eqb_neq _ _) H1); reflexivity.
  - rewrite (proj2 (Nat.eqb_neq _ _) H1). reflexivity.
Qed.

Lemma cp_set_self k v st : k <> krp -> cp_set k v st k = Some v.
Proof.
  intros H. unfold cp_set, cp_upd.
  destruct (k =? kmin) eqn:E1; [|destruct (k =? kmax) eqn:E2].
  - apply Nat.eqb_eq in E1. subst k. destruct (st kmax); cbn;
      rewrite ?(proj2 (Nat.eqb_neq _ _) H), Nat.eqb_refl; reflexivity.
  - apply Nat.eqb_eq in E2. subst k. destruct (st kmin); cbn;
      rewrite ?(proj2 (Nat.eqb_neq _ _) H), Nat.eqb_refl; reflexivity.
  - rewrite Nat.eqb_refl. reflexivity.
Qed.

(** ** well-formed files: distinct keys, rp not given, every identifier is a key of the file, and the
    dependency relation is acyclic - certified by a rank that decreases along every dependency *)
Definition cp_keys (l : list cp_entry) : list nat := map fst l.
Definition cp_entry_ids (c : cp_val) : list nat := match c with CNum _ => [] | CExpr e => cp_ids e end.
Definition cp_mem (j : nat) (l : list nat) : bool := existsb (Nat.eqb j) l.
Fixpoint cp_nodupb (l : list nat) : bool :=
  match l with [] => true | x :: r => negb (cp_mem x r) && cp_nodupb r end.

Definition cp_wfb (rank : nat -> nat) (l : list cp_entry) : bool :=
  cp_nodupb (cp_keys l) && negb (cp_mem krp (cp_keys l)) &&
  forallb (fun kc => forallb (fun j => cp_mem j (cp_keys l) && (rank j <? rank (fst kc)))
                             (cp_entry_ids (snd kc))) l.

Definition cp_wf (rank : nat -> nat) (l : list cp_entry) : Prop :=
  NoDup (cp_keys l) /\ ~ In krp (cp_keys l) /\
  forall k c j, In (k, c) l -> In j (cp_entry_ids c) -> In j (cp_keys l) /\ rank j < rank k.

Lemma cp_mem_in j l : cp_mem j l = true <-> In j l.
Proof.
  unfold cp_mem. rewrite existsb_exists. split.
  - intros [x [Hx E]]. apply Nat.eqb_eq in E. subst x. exact Hx.
  - intros H. exists j. split; [exact H|apply Nat.eqb_refl].
Qed.

Lemma cp_nodupb_nodup l : cp_nodupb l = true -> NoDup l.
Proof.
  induction l as [|x r IH]; intros H; [constructor|]. cbn [cp_nodupb] in H.
  apply andb_prop in H. destruct H as [H1 H2]. constructor; [|apply IH; exact H2].
  intros Hin. apply cp_mem_in in Hin. rewrite Hin in H1. discriminate.
Qed.

Lemma cp_wfb_wf rank l : cp_wfb rank l = true -> cp_wf rank l.
Proof.
  unfold cp_wfb. intros H. apply andb_prop in H. destruct H as [H H3].
  apply andb_prop in H. destruct H as [H1 H2]. repeat split.
  - apply cp_nodupb_nodup. exact H1.
  - intros Hin. apply cp_mem_in in Hin. rewrite Hin in H2. discriminate.
  - rewrite forallb_forall in H3. specialize (H3 (k, c) H). cbn [fst snd] in H3.
    rewrite forallb_forall in H3. specialize (H3 j H0). apply andb_prop in H3. apply cp_mem_in. apply H3.
  - rewrite forallb_forall in H3. specialize (H3 (k, c) H). cbn [fst snd] in H3.
    rewrite forallb_forall in H3. specialize (H3 j H0). apply andb_prop in H3. apply Nat.ltb_lt. apply H3.
Qed.

Lemma cp_wf_perm rank l l' : Permutation l l' -> cp_wf rank l -> cp_wf rank l'.
Proof.
  intros P [H1 [H2 H3]].
  assert (PK : Permutation (cp_keys l) (cp_keys l')) by (apply Permutation_map; exact P).
  repeat split.
  - eapply Permutation_NoDup; eassumption.
  - intros Hin. apply H2. eapply Permutation_in; [apply Permutation_sym; exact PK|exact Hin].
  - destruct (H3 k c j) as [A _]; [eapply Permutation_in; [apply Permutation_sym; exact P|exact H]|exact H0|].
    eapply Permutation_in; eassumption.
  - destruct (H3 k c j) as [_ B]; [eapply Permutation_in; [apply Permutation_sym; exact P|exact H]|exact H0|].
    exact B.
Qed.

(** ** what the parser must produce: a solution of the file read as a system of equations *)
Definition cp_sol (l : list cp_entry) (st : cp_store) : Prop :=
  (forall k v, In (k, CNum v) l -> st k = Some v) /\
  (forall k e, In (k, CExpr e) l -> exists v, cp_eval st e = Some v /\ st k = Some v) /\
  (forall k, k <> krp -> ~ In k (cp_keys l) -> st k = None) /\
  (match st kmin, st kmax with Some a, Some b => st krp = Some (mid a b) | _, _ => st krp = None end).

Lemma cp_sol_perm l l' st : Permutation l l' -> cp_sol l st -> cp_sol l' st.
Proof.
  intros P [S1 [S2 [S3 S4]]]. repeat split.
  - intros k v H. apply S1. eapply Permutation_in; [apply Permutation_sym; exact P|exact H].
  - intros k e H. apply S2. eapply Permutation_in; [apply Permutation_sym; exact P|exact H].
  - intros k H1 H2. apply S3; [exact H1|]. intros Hin. apply H2.
    eapply Permutation_in; [apply Permutation_map; exact P|exact Hin].
  - exact S4.
Qed.

Lemma cp_in_keys k c l : In (k, c) l -> In k (cp_keys l).
Proof. intros H. apply (in_map fst) in H. exact H. Qed.

Lemma cp_keys_in k l : In k (cp_keys l) -> exists c, In (k, c) l.
Proof. intros H. apply in_map_iff in H. destruct H as [[k' c] [E H]]. cbn in E. subst k'. exists c. exact H. Qed.

(** an acyclic system has at most one solution *)
Lemma cp_sol_unique rank l st st' : cp_wf rank l -> cp_sol l st -> cp_sol l st' -> forall k, st k = st' k.
Proof.
  intros [W1 [W2 W3]] [A1 [A2 [A3 A4]]] [B1 [B2 [B3 B4]]].
  assert (Hk : forall n k, rank k < n -> k <> krp -> st k = st' k).
  { induction n as [|n IH]; intros k Hr Hk; [lia|].
    destruct (in_dec Nat.eq_dec k (cp_keys l)) as [Hin|Hout].
    - destruct (cp_keys_in k l Hin) as [[v|e] Hc].
      + rewrite (A1 k v Hc), (B1 k v Hc). reflexivity.
      + destruct (A2 k e Hc) as [v [Ev Sv]]. destruct (B2 k e Hc) as [v' [Ev' Sv']].
        rewrite Sv, Sv'. rewrite <- Ev, <- Ev'. apply cp_eval_ext. intros j Hj.
        destruct (W3 k (CExpr e) j Hc Hj) as [Hjin Hjr]. apply IH; [lia|].
        intros ->. apply W2. exact Hjin.
    - rewrite (A3 k Hk Hout), (B3 k Hk Hout). reflexivity. }
  intros k. destruct (Nat.eq_dec k krp) as [->|NE]; [|apply (Hk (S (rank k))); [lia|exact NE]].
  rewrite <- (Hk (S (rank kmin)) kmin ltac:(lia) Hmin_rp), <- (Hk (S (rank kmax)) kmax ltac:(lia) Hmax_rp) in B4.
  destruct (st kmin); [destruct (st kmax)|]; congruence.
Qed.

(** ** the worklist loop computes that solution *)
Lemma cp_keys_unique l k c c' : NoDup (cp_keys l) -> In (k, c) l -> In (k, c') l -> c = c'.
Proof.
  induction l as [|[k0 c0] r IH]; intros N H1 H2; [destruct H1|].
  cbn [cp_keys map fst] in N. inversion N as [|? ? Hn Nr]; subst.
  destruct H1 as [E1|H1]; destruct H2 as [E2|H2].
  - congruence.
  - inversion E1; subst. exfalso. apply Hn. apply (cp_in_keys k c' r H2).
  - inversion E2; subst. exfalso. apply Hn. apply (cp_in_keys k c r H1).
  - apply IH; assumption.
Qed.

Definition cp_rp_inv (st : cp_store) : Prop :=
  match st kmin, st kmax with Some a, Some b => st krp = Some (mid a b) | _, _ => st krp = None end.

(** [pend] = the entries still in `data` or `unmatched` *)
Definition cp_inv (l pend : list cp_entry) (st : cp_store) : Prop :=
  (forall k c, In (k, c) pend -> In (k, c) l /\ st k = None) /\
  (forall k c, In (k, c) l -> st k = None -> In (k, c) pend) /\
  (forall k v, k <> krp -> st k = Some v ->
     In (k, CNum v) l \/ exists e, In (k, CExpr e) l /\ cp_eval st e = Some v) /\
  cp_rp_inv st.

Definition cp_minimal (rank : nat -> nat) (k : nat) (pend : list cp_entry) : Prop :=
  forall k' c', In (k', c') pend -> rank k <= rank k'.

Lemma cp_set_rp_inv k v st : k <> krp -> st k = None -> cp_rp_inv st -> cp_rp_inv (cp_set k v st).
Proof.
  intros Hk Hn H. unfold cp_rp_inv in *.
  assert (N1 : krp <> kmin) by congruence. assert (N2 : krp <> kmax) by congruence.
  assert (N3 : kmax <> kmin) by congruence.
  destruct (Nat.eq_dec k kmin) as [E1|NE1]; [|destruct (Nat.eq_dec k kmax) as [E2|NE2]].
  - subst k. rewrite cp_set_self by exact Hk. rewrite cp_set_other by assumption.
    destruct (st kmin) as [a|] eqn:Ea; [discriminate|].
    unfold cp_set, cp_upd. rewrite Nat.eqb_refl.
    destruct (st kmax) as [b|] eqn:Eb.
    + rewrite Nat.eqb_refl. reflexivity.
    + rewrite (proj2 (Nat.eqb_neq _ _) N1). exact H.
  - subst k. rewrite cp_set_self by exact Hk. rewrite cp_set_other by assumption.
    destruct (st kmax) as [b|] eqn:Eb; [discriminate|].
    unfold cp_set, cp_upd. rewrite (proj2 (Nat.eqb_neq _ _) N3), Nat.eqb_refl.
    destruct (st kmin) as [a|] eqn:Ea.
    + rewrite Nat.eqb_refl. reflexivity.
    + rewrite (proj2 (Nat.eqb_neq _ _) N2). exact H.
  - rewrite !cp_set_other by congruence.
    assert (E : cp_set k v st krp = st krp).
    { unfold cp_set, cp_upd. rewrite (proj2 (Nat.eqb_neq _ _) NE1), (proj2 (Nat.eqb_neq _ _) NE2).
      rewrite (proj2 (Nat.eqb_neq krp k) ltac:(congruence)). reflexivity. }
    rewrite E. exact H.
Qed.

(** setting the key of a pending entry to its value *)
Lemma cp_inv_set rank l k c v pend st :
  cp_wf rank l -> NoDup (cp_keys ((k, c) :: pend)) -> cp_inv l ((k, c) :: pend) st ->
  (c = CNum v \/ exists e, c = CExpr e /\ cp_eval st e = Some v) ->
  cp_inv l pend (cp_set k v st).
Proof.
  intros [W1 [W2 W3]] N [I1 [I2 [I3 I4]]] Hv.
  destruct (I1 k c (or_introl eq_refl)) as [Hl Hn].
  assert (Hk : k <> krp) by (intros ->; apply W2; apply (cp_in_keys _ _ _ Hl)).
  cbn [cp_keys map fst] in N. inversion N as [|? ? Nk Np]; subst.
  assert (Hmono : forall e w, (forall j, In j (cp_ids e) -> In j (cp_keys l)) ->
                    cp_eval st e = Some w -> cp_eval (cp_set k v st) e = Some w).
  { intros e w Hids. apply cp_eval_mono. intros j x Hj Hx. rewrite cp_set_other; [exact Hx| |].
    - intros ->. congruence.
    - intros ->. apply W2. apply Hids. exact Hj. }
  repeat split.
  - apply I1. right. exact H.
  - destruct (I1 k0 c0 (or_intror H)) as [_ Hn0]. rewrite cp_set_other; [exact Hn0| |].
    + intros ->. apply Nk. apply (cp_in_keys _ _ _ H).
    + intros ->. apply W2. apply (cp_in_keys _ c0). apply I1. right. exact H.
  - intros k0 c0 Hl0 Hn0.
    assert (k0 <> k) by (intros ->; rewrite cp_set_self in Hn0 by exact Hk; discriminate).
    assert (k0 <> krp) by (intros ->; apply W2; apply (cp_in_keys _ _ _ Hl0)).
    rewrite cp_set_other in Hn0 by assumption.
    destruct (I2 k0 c0 Hl0 Hn0) as [E|Hin]; [inversion E; congruence|exact Hin].
  - intros j w Hj Hw. destruct (Nat.eq_dec j k) as [->|NE].
    + rewrite cp_set_self in Hw by exact Hk. inversion Hw; subst w.
      destruct Hv as [->|[e [-> Ee]]]; [left; exact Hl|right].
      exists e. split; [exact Hl|]. apply Hmono; [|exact Ee].
      intros i Hi. apply (W3 k (CExpr e) i Hl Hi).
    + rewrite cp_set_other in Hw by assumption.
      destruct (I3 j w Hj Hw) as [A|[e [A B]]]; [left; exact A|right].
      exists e. split; [exact A|]. apply Hmono; [|exact B].
      intros i Hi. apply (W3 j (CExpr e) i A Hi).
  - apply cp_set_rp_inv; assumption.
Qed.

(** an entry of minimal rank among the pending ones can be evaluated *)
Lemma cp_eval_minimal rank l pend st k e :
  cp_wf rank l -> cp_inv l pend st -> In (k, CExpr e) pend -> cp_minimal rank k pend ->
  cp_eval st e <> None.
Proof.
  intros [W1 [W2 W3]] [I1 [I2 _]] Hin Hmin. apply cp_eval_defined. intros j Hj Hn.
  destruct (I1 _ _ Hin) as [Hl _]. destruct (W3 k (CExpr e) j Hl Hj) as [Hjl Hjr].
  destruct (cp_keys_in j l Hjl) as [cj Hcj]. specialize (I2 j cj Hcj Hn). specialize (Hmin j cj I2). lia.
Qed.

Lemma cp_inv_ext l pend pend' st : (forall x, In x pend <-> In x pend') -> cp_inv l pend st -> cp_inv l pend' st.
Proof.
  intros E [I1 [I2 [I3 I4]]]. repeat split.
  - apply (I1 k c). apply E. exact H.
  - apply (I1 k c). apply E. exact H.
  - intros k c A B. apply E. apply I2; assumption.
  - exact I3.
  - exact I4.
Qed.

Lemma cp_pass_spec rank l : cp_wf rank l -> forall todo st unm,
  cp_inv l (todo ++ unm) st -> NoDup (cp_keys (todo ++ unm)) ->
  exists st' unm', cp_pass todo st unm = PassOk st' unm' /\
    cp_inv l unm' st' /\ NoDup (cp_keys unm') /\ length unm' <= length todo + length unm /\
    (forall k0 c0, In (k0, c0) todo -> cp_minimal rank k0 (todo ++ unm) -> length unm' < length todo + length unm).
Proof.
  intros W. induction todo as [|[k c] r IH]; intros st unm I N.
  - exists st, unm. cbn [cp_pass app length] in *.
    split; [reflexivity|]. split; [exact I|]. split; [exact N|]. split; [lia|]. intros k0 c0 [].
  - cbn [app] in I, N.
    assert (Nr : NoDup (cp_keys (r ++ unm))) by (cbn [cp_keys map] in N; inversion N; assumption).
    assert (Hset : forall v, (c = CNum v \/ exists e, c = CExpr e /\ cp_eval st e = Some v) ->
              exists st' unm', cp_pass r (cp_set k v st) unm = PassOk st' unm' /\
                cp_inv l unm' st' /\ NoDup (cp_keys unm') /\ length unm' <= length ((k, c) :: r) + length unm /\
                (forall k0 c0, In (k0, c0) ((k, c) :: r) -> cp_minimal rank k0 ((k, c) :: r ++ unm) ->
                   length unm' < length ((k, c) :: r) + length unm)).
    { intros v Hv. destruct (IH (cp_set k v st) unm (cp_inv_set rank l k c v _ st W N I Hv) Nr)
        as [st' [unm' [E [I' [N' [L' P']]]]]].
      exists st', unm'. cbn [length].
      split; [exact E|]. split; [exact I'|]. split; [exact N'|]. split; [lia|]. intros k0 c0 _ _. lia. }
    destruct c as [v|e]; cbn [cp_pass].
    + apply Hset. left. reflexivity.
    + destruct (cp_eval st e) as [v|] eqn:Ee.
      * apply Hset. right. exists e. split; [reflexivity|exact Ee].
      * (* deferred *)
        assert (Hperm : forall x, In x ((k, CExpr e) :: r ++ unm) <-> In x (r ++ (k, CExpr e) :: unm)).
        { intros x. cbn [In]. rewrite !in_app_iff. cbn [In]. tauto. }
        assert (Hnotmin : ~ cp_minimal rank k ((k, CExpr e) :: r ++ unm)).
        { intros Hm. apply (cp_eval_minimal rank l _ st k e W I (or_introl eq_refl) Hm). exact Ee. }
        assert (N2 : NoDup (cp_keys (r ++ (k, CExpr e) :: unm))).
        { eapply Permutation_NoDup; [|exact N]. unfold cp_keys. apply Permutation_map.
          apply Permutation_middle. }
        destruct (IH st ((k, CExpr e) :: unm) (cp_inv_ext l _ _ st Hperm I) N2)
          as [st' [unm' [E [I' [N' [L' P']]]]]].
        assert (Hgoal : exists st'0 unm'0, cp_pass r st ((k, CExpr e) :: unm) = PassOk st'0 unm'0 /\
                  cp_inv l unm'0 st'0 /\ NoDup (cp_keys unm'0) /\
                  length unm'0 <= length ((k, CExpr e) :: r) + length unm /\
                  (forall k0 c0, In (k0, c0) ((k, CExpr e) :: r) -> cp_minimal rank k0 ((k, CExpr e) :: r ++ unm) ->
                     length unm'0 < length ((k, CExpr e) :: r) + length unm)).
        { exists st', unm'. cbn [length] in *.
          split; [exact E|]. split; [exact I'|]. split; [exact N'|]. split; [lia|].
          intros k0 c0 [E0|Hin] Hm.
          - inversion E0; subst. contradiction.
          - assert (length unm' < length r + S (length unm)); [|lia]. apply (P' k0 c0 Hin).
            intros k' c' H'. apply (Hm k' c'). apply Hperm. exact H'. }
        destruct r as [|x r']; [destruct unm as [|y unm0]|]; try exact Hgoal.
        exfalso. apply Hnotmin. intros k' c' [E0|[]]. inversion E0. lia.
Qed.

Lemma cp_exists_minimal rank (pend : list cp_entry) : pend <> [] ->
  exists k c, In (k, c) pend /\ cp_minimal rank k pend.
Proof.
  induction pend as [|[k c] r IH]; [congruence|]. intros _. destruct r as [|x r'].
  - exists k, c. split; [left; reflexivity|]. intros k' c' [E|[]]. inversion E. lia.
  - destruct (IH ltac:(discriminate)) as [k1 [c1 [Hin Hm]]].
    destruct (Nat.le_gt_cases (rank k) (rank k1)) as [Le|Gt].
    + exists k, c. split; [left; reflexivity|]. intros k' c' [E|H']; [inversion E; subst; lia|].
      specialize (Hm k' c' H'). lia.
    + exists k1, c1. split; [right; exact Hin|]. intros k' c' [E|H']; [inversion E; subst; lia|apply (Hm k' c' H')].
Qed.

Lemma cp_loop_spec rank l : cp_wf rank l -> forall fuel todo st,
  length todo < fuel -> cp_inv l todo st -> NoDup (cp_keys todo) ->
  exists st', cp_loop fuel todo (length todo) st = CPOk st' /\ cp_inv l [] st'.
Proof.
  intros W. induction fuel as [|f IH]; intros todo st Hf I N; [lia|]. cbn [cp_loop].
  destruct todo as [|x r] eqn:Et; [exists st; split; [reflexivity|exact I]|]. rewrite <- Et in *.
  assert (Hne : todo <> []) by (rewrite Et; discriminate).
  destruct (cp_pass_spec rank l W todo st [] ltac:(rewrite app_nil_r; exact I) ltac:(rewrite app_nil_r; exact N))
    as [st' [unm' [E [I' [N' [L' P']]]]]].
  rewrite E. destruct (cp_exists_minimal rank todo Hne) as [k0 [c0 [Hin Hm]]].
  specialize (P' k0 c0 Hin ltac:(rewrite app_nil_r; exact Hm)). cbn [length] in P'. rewrite Nat.add_0_r in P'.
  rewrite (proj2 (Nat.ltb_lt _ _) P'). apply IH; [lia|exact I'|exact N'].
Qed.

(** the loop ends within the fuel whatever the file (parse_terminates): every pass either fails an assert
    or leaves fewer entries *)
Lemma cp_loop_terminates : forall fuel todo n st, length todo < fuel -> n = length todo ->
  cp_loop fuel todo n st <> CPFuel.
Proof.
  induction fuel as [|f IH]; intros todo n st Hf Hn; [lia|]. cbn [cp_loop].
  destruct todo as [|x r] eqn:Et; [discriminate|]. rewrite <- Et in *.
  destruct (cp_pass todo st []) as [st' unm|]; [|discriminate].
  destruct (Nat.ltb_spec (length unm) n); [|discriminate]. apply IH; [lia|reflexivity].
Qed.

Theorem cp_parse_terminates l : cp_parse l <> CPFuel.
Proof. unfold cp_parse. apply cp_loop_terminates; rewrite rev_length; [lia|reflexivity]. Qed.

(** on a well-formed file the parser raises no assertion and returns the solution *)
Theorem cp_parse_sol rank l : cp_wf rank l -> exists st, cp_parse l = CPOk st /\ cp_sol l st.
Proof.
  intros W. pose proof W as [W1 [W2 W3]].
  unfold cp_parse.
  assert (I0 : cp_inv l (rev l) (fun _ => None)).
  { split; [|split; [|split]].
    - intros k c H. split; [apply in_rev; exact H|reflexivity].
    - intros k c H _. apply in_rev in H. exact H.
    - intros k v _ H. discriminate.
    - unfold cp_rp_inv. reflexivity. }
  assert (N0 : NoDup (cp_keys (rev l))).
  { eapply Permutation_NoDup; [|exact W1]. unfold cp_keys. apply Permutation_map. apply Permutation_rev. }
  destruct (cp_loop_spec rank l W (S (length l)) (rev l) (fun _ => None)
              ltac:(rewrite rev_length; lia) I0 N0) as [st [E [I1 [I2 [I3 I4]]]]].
  rewrite rev_length in E. exists st. split; [exact E|]. repeat split.
  - intros k v H. destruct (st k) as [w|] eqn:Es; [|destruct (I2 k _ H Es)].
    assert (Hk : k <> krp) by (intros ->; apply W2; apply (cp_in_keys _ _ _ H)).
    destruct (I3 k w Hk Es) as [A|[e [A _]]].
    + pose proof (cp_keys_unique l k _ _ W1 H A) as Eq. inversion Eq. reflexivity.
    + pose proof (cp_keys_unique l k _ _ W1 H A) as Eq. discriminate.
  - intros k e H. destruct (st k) as [w|] eqn:Es; [|destruct (I2 k _ H Es)].
    assert (Hk : k <> krp) by (intros ->; apply W2; apply (cp_in_keys _ _ _ H)).
    destruct (I3 k w Hk Es) as [A|[e' [A B]]].
    + pose proof (cp_keys_unique l k _ _ W1 H A) as Eq. discriminate.
    + pose proof (cp_keys_unique l k _ _ W1 H A) as Eq. inversion Eq; subst e'. exists w. split; [exact B|reflexivity].
  - intros k Hk Hout. destruct (st k) as [w|] eqn:Es; [|reflexivity]. exfalso. apply Hout.
    destruct (I3 k w Hk Es) as [A|[e [A _]]]; apply (cp_in_keys _ _ _ A).
  - exact I4.
Qed.

(** [parse_order_independent]: any two orders of the entries of a well-formed file give the same constants *)
Theorem cp_parse_order_independent rank l l' :
  cp_wfb rank l = true -> Permutation l l' ->
  exists st st', cp_parse l = CPOk st /\ cp_parse l' = CPOk st' /\ forall k, st k = st' k.
Proof.
  intros Hb P. pose proof (cp_wfb_wf rank l Hb) as W. pose proof (cp_wf_perm rank l l' P W) as W'.
  destruct (cp_parse_sol rank l W) as [st [E S]]. destruct (cp_parse_sol rank l' W') as [st' [E' S']].
  exists st, st'. split; [exact E|]. split; [exact E'|].
  apply (cp_sol_unique rank l' st st' W'); [apply (cp_sol_perm l l' st P S)|exact S'].
Qed.

(** ** set_defaults and get_constants *)
Lemma cp_set_ext k v st st' : (forall j, st j = st' j) -> forall j, cp_set k v st j = cp_set k v st' j.
Proof.
  intros H j. unfold cp_set. rewrite (H kmax), (H kmin).
  destruct (k =? kmin); [destruct (st' kmax); unfold cp_upd; cbn; rewrite (H j); reflexivity|].
  destruct (k =? kmax); [destruct (st' kmin); unfold cp_upd; cbn; rewrite (H j); reflexivity|].
  unfold cp_upd. rewrite (H j). reflexivity.
Qed.

Lemma cp_defaults_ext d : forall st st', (forall j, st j = st' j) -> forall j, cp_defaults d st j = cp_defaults d st' j.
Proof.
  induction d as [|[k v] r IH]; intros st st' H j; cbn [cp_defaults]; [apply H|].
  apply IH. intros i. rewrite (H k). destruct (st' k); [apply H|apply cp_set_ext; exact H].
Qed.

Theorem cp_get_constants_order_independent rank d l l' :
  cp_wfb rank l = true -> Permutation l l' ->
  exists s s', cp_get_constants d l = Some s /\ cp_get_constants d l' = Some s' /\ forall k, s k = s' k.
Proof.
  intros Hb P. destruct (cp_parse_order_independent rank l l' Hb P) as [st [st' [E [E' H]]]].
  unfold cp_get_constants. rewrite E, E'. eexists. eexists. split; [reflexivity|]. split; [reflexivity|].
  apply cp_defaults_ext. exact H.
Qed.

(** ** the printer (Constants.__str__): every public attribute as a literal, in the order of dir() *)
Fixpoint cp_print (pub : list nat) (st : cp_store) : option (list cp_entry) :=
  match pub with
  | [] => Some []
  | k :: r => match st k, cp_print r st with
              | Some v, Some l => Some ((k, CNum v) :: l)
              | _, _ => None                     (* "None" is not JSON *)
              end
  end.

(** a file of literals is read in one pass *)
Fixpoint cp_sets (todo : list (nat * V)) (st : cp_store) : cp_store :=
  match todo with [] => st | (k, v) :: r => cp_sets r (cp_set k v st) end.

Definition cp_lit (kv : nat * V) : cp_entry := (fst kv, CNum (snd kv)).

Lemma cp_pass_literals todo : forall st unm, cp_pass (map cp_lit todo) st unm = PassOk (cp_sets todo st) unm.
Proof. induction todo as [|[k v] r IH]; intros st unm; cbn [map cp_lit fst snd cp_pass cp_sets]; [reflexivity|apply IH]. Qed.

Lemma cp_loop_literals f todo n st : 0 < n ->
  cp_loop (S (S f)) (map cp_lit todo) n st = CPOk (cp_sets todo st).
Proof.
  intros Hn. destruct todo as [|x r]; [reflexivity|].
  change (cp_loop (S (S f)) (map cp_lit (x :: r)) n st)
    with (match cp_pass (map cp_lit (x :: r)) st [] with
          | PassOk st' unm => if length unm <? n then cp_loop (S f) unm (length unm) st' else CPNoProgress
          | PassAlone => CPAlone
          end).
  rewrite cp_pass_literals. cbn [length]. rewrite (proj2 (Nat.ltb_lt 0 n) Hn). reflexivity.
Qed.

Lemma cp_parse_literals (kvs : list (nat * V)) :
  cp_parse (map cp_lit kvs) = CPOk (cp_sets (rev kvs) (fun _ => None)).
Proof.
  unfold cp_parse. rewrite <- map_rev, map_length. destruct kvs as [|x r]; [reflexivity|].
  cbn [length]. apply cp_loop_literals. lia.
Qed.

Lemma cp_sets_get todo : forall st k v, NoDup (map fst todo) -> k <> krp -> In (k, v) todo ->
  cp_sets todo st k = Some v.
Proof.
  induction todo as [|[k0 v0] r IH]; intros st k v N Hk Hin; [destruct Hin|].
  cbn [map fst] in N. inversion N as [|? ? Nk Nr]; subst. cbn [cp_sets].
  destruct Hin as [E|Hin].
  - inversion E; subst. clear E IH. revert st. 
    assert (H : forall st, st k = Some v -> cp_sets r st k = Some v).
    { clear Nr N. revert Nk. induction r as [|[k1 v1] r IHr]; intros Nk st Hs; cbn [cp_sets]; [exact Hs|].
      cbn [map fst] in Nk. apply IHr.
      - intros Hin. apply Nk. right. exact Hin.
      - rewrite cp_set_other; [exact Hs| |exact Hk]. intros ->. apply Nk. left. reflexivity. }
    intros st. apply H. apply cp_set_self. exact Hk.
  - apply IH; assumption.
Qed.

Lemma cp_sets_none todo : forall st k, k <> krp -> ~ In k (map fst todo) -> cp_sets todo st k = st k.
Proof.
  induction todo as [|[k0 v0] r IH]; intros st k Hk Hout; cbn [cp_sets]; [reflexivity|].
  rewrite IH; [|exact Hk|intros H; apply Hout; right; exact H].
  apply cp_set_other; [|exact Hk]. intros ->. apply Hout. left. reflexivity.
Qed.

Lemma cp_print_spec pub : forall st l, cp_print pub st = Some l ->
  exists kvs, l = map cp_lit kvs /\ map fst kvs = pub /\ forall k v, In (k, v) kvs -> st k = Some v.
Proof.
  induction pub as [|k r IH]; intros st l H; cbn [cp_print] in H.
  - inversion H. exists []. repeat split. intros k v [].
  - destruct (st k) as [v|] eqn:Ek; [|discriminate]. destruct (cp_print r st) as [l0|] eqn:Er; [|discriminate].
    inversion H; subst l. destruct (IH st l0 Er) as [kvs [E1 [E2 E3]]].
    exists ((k, v) :: kvs). cbn [map cp_lit fst snd]. rewrite E1, E2. repeat split.
    intros k' v' [E|Hin]; [inversion E; subst; exact Ek|apply E3; exact Hin].
Qed.

(** [print_parse_roundtrip]: every public attribute other than rp that is printed comes back equal, and
    nothing else is set (before the defaults) *)
Theorem cp_print_parse_roundtrip pub st l :
  NoDup pub -> cp_print pub st = Some l ->
  exists st', cp_parse l = CPOk st' /\
    (forall k, In k pub -> k <> krp -> st' k = st k) /\
    (forall k, ~ In k pub -> k <> krp -> st' k = None).
Proof.
  intros N H. destruct (cp_print_spec pub st l H) as [kvs [-> [Ek Ev]]].
  rewrite cp_parse_literals. eexists. split; [reflexivity|].
  assert (Nr : NoDup (map fst (rev kvs))) by (rewrite map_rev, Ek; apply NoDup_rev; exact N).
  split.
  - intros k Hin Hk. rewrite <- Ek in Hin. apply in_map_iff in Hin. destruct Hin as [[k' v] [E Hin]].
    cbn in E. subst k'. rewrite (Ev k v Hin). apply cp_sets_get; [exact Nr|exact Hk|apply in_rev in Hin; exact Hin].
  - intros k Hout Hk. rewrite cp_sets_none; [reflexivity|exact Hk|].
    rewrite map_rev, Ek. intros Hin. apply Hout. apply in_rev. exact Hin.
Qed.

(** rp comes back too when it is the midpoint the setters compute (i.e. was not customised), in any order *)
Lemma cp_sets_rp a b r todo : forall st,
  (forall v, In (kmin, v) todo -> v = a) -> (forall v, In (kmax, v) todo -> v = b) ->
  (forall v, In (krp, v) todo -> v = r) -> mid a b = r ->
  (st kmin = None \/ st kmin = Some a) -> (st kmax = None \/ st kmax = Some b) ->
  (st krp = None \/ st krp = Some r) -> (In krp (map fst todo) \/ st krp = Some r) ->
  cp_sets todo st krp = Some r.
Proof.
  induction todo as [|[k v] rest IH]; intros st Ha Hb Hr Hm Sa Sb Sr Hin; cbn [cp_sets].
  - destruct Hin as [[]|H]. exact H.
  - assert (N1 : krp <> kmin) by congruence. assert (N2 : krp <> kmax) by congruence.
    assert (N3 : kmax <> kmin) by congruence.
    apply IH; try (intros w Hw; first [apply Ha|apply Hb|apply Hr]; right; exact Hw); try exact Hm.
    + destruct (Nat.eq_dec k kmin) as [->|NE].
      * right. rewrite (Ha v (or_introl eq_refl)). apply cp_set_self. exact Hmin_rp.
      * destruct (Nat.eq_dec k krp) as [->|NE2].
        -- unfold cp_set, cp_upd. rewrite (proj2 (Nat.eqb_neq _ _) N1), (proj2 (Nat.eqb_neq _ _) N2).
           rewrite (proj2 (Nat.eqb_neq _ _) Hmin_rp). exact Sa.
        -- rewrite cp_set_other; [exact Sa|congruence|exact Hmin_rp].
    + destruct (Nat.eq_dec k kmax) as [->|NE].
      * right. rewrite (Hb v (or_introl eq_refl)). apply cp_set_self. exact Hmax_rp.
      * destruct (Nat.eq_dec k krp) as [->|NE2].
        -- unfold cp_set, cp_upd. rewrite (proj2 (Nat.eqb_neq _ _) N1), (proj2 (Nat.eqb_neq _ _) N2).
           rewrite (proj2 (Nat.eqb_neq _ _) Hmax_rp). exact Sb.
        -- rewrite cp_set_other; [exact Sb|congruence|exact Hmax_rp].
    + unfold cp_set, cp_upd.
      destruct (Nat.eqb_spec k kmin) as [->|NE1]; [|destruct (Nat.eqb_spec k kmax) as [->|NE2]].
      * rewrite (Ha v (or_introl eq_refl)). destruct Sb as [Eb|Eb]; rewrite Eb.
        -- rewrite (proj2 (Nat.eqb_neq _ _) N1). exact Sr.
        -- rewrite Nat.eqb_refl, Hm. right. reflexivity.
      * rewrite (Hb v (or_introl eq_refl)). destruct Sa as [Ea|Ea]; rewrite Ea.
        -- rewrite (proj2 (Nat.eqb_neq _ _) N2). exact Sr.
        -- rewrite Nat.eqb_refl, Hm. right. reflexivity.
      * destruct (Nat.eqb_spec krp k) as [E|NE3]; [|exact Sr].
        right. subst k. rewrite (Hr v (or_introl eq_refl)). reflexivity.
    + destruct (Nat.eq_dec k krp) as [->|NE].
      * right. rewrite (Hr v (or_introl eq_refl)).
        unfold cp_set, cp_upd. rewrite (proj2 (Nat.eqb_neq _ _) N1), (proj2 (Nat.eqb_neq _ _) N2), Nat.eqb_refl. reflexivity.
      * destruct Hin as [[E|Hin]|Hs]; [cbn in E; congruence|left; exact Hin|right].
        unfold cp_set, cp_upd.
        destruct (Nat.eqb_spec k kmin) as [->|NE1]; [|destruct (Nat.eqb_spec k kmax) as [->|NE2]].
        -- rewrite (Ha v (or_introl eq_refl)). destruct Sb as [Eb|Eb]; rewrite Eb.
           ++ rewrite (proj2 (Nat.eqb_neq _ _) N1). exact Hs.
           ++ rewrite Nat.eqb_refl, Hm. reflexivity.
        -- rewrite (Hb v (or_introl eq_refl)). destruct Sa as [Ea|Ea]; rewrite Ea.
           ++ rewrite (proj2 (Nat.eqb_neq _ _) N2). exact Hs.
           ++ rewrite Nat.eqb_refl, Hm. reflexivity.
        -- rewrite (proj2 (Nat.eqb_neq krp k) ltac:(congruence)). exact Hs.
Qed.

Theorem cp_print_parse_roundtrip_rp pub st l a b :
  NoDup pub -> In krp pub -> cp_print pub st = Some l ->
  st kmin = Some a -> st kmax = Some b -> st krp = Some (mid a b) ->
  exists st', cp_parse l = CPOk st' /\ st' krp = st krp.
Proof.
  intros N Hp H Ea Eb Er. destruct (cp_print_spec pub st l H) as [kvs [-> [Ek Ev]]].
  rewrite cp_parse_literals. eexists. split; [reflexivity|]. rewrite Er.
  apply (cp_sets_rp a b (mid a b)); try reflexivity; try (left; reflexivity).
  - intros v Hv. apply in_rev in Hv. rewrite (Ev _ _ Hv) in Ea. congruence.
  - intros v Hv. apply in_rev in Hv. rewrite (Ev _ _ Hv) in Eb. congruence.
  - intros v Hv. apply in_rev in Hv. rewrite (Ev _ _ Hv) in Er. congruence.
  - left. rewrite map_rev, Ek. apply in_rev. rewrite rev_involutive. exact Hp.
Qed.

End ConstantsIO.

(** ** examples on V = nat (keys: 0 = rMin, 1 = rMax, 2 = rp; mid a b = (a + b) / 2) *)
Definition cp_get_nat (d : list (nat * nat)) (l : list (nat * cp_val nat)) : option (list (option nat)) :=
  match cp_get_constants nat Nat.add Nat.sub Nat.mul Nat.div (fun x => x) (fun a b => (a + b) / 2) 0 1 2 d l with
  | Some st => Some (map st (seq 0 8))
  | None => None
  end.

(** a two-level chain (5 = 4 + 3, 4 = 2 * 3, 3 = 7) is well formed with rank = key, and every order of the
    entries gives the same constants *)
Example cp_wf_example :
  let l := [(5, CExpr nat (EBin nat OAdd (EId nat 4) (EId nat 3))); (3, CNum nat 7);
            (4, CExpr nat (EBin nat OMul (ELit nat 2) (EId nat 3)))] in
  cp_wfb nat 2 (fun k => k) l = true /\
  cp_get_nat [] l = Some [None; None; None; Some 7; Some 14; Some 21; None; None] /\
  cp_get_nat [] (rev l) = cp_get_nat [] l.
Proof. vm_compute. repeat split. Qed.

(** the known finding in the model: a customised rp = 3 with rMin = 1, rMax = 9 survives the key order
    [rp, rMin, rMax] (rp is popped last) and is reset to the midpoint 5 for [rMin, rMax, rp]; printed in the
    order of dir() (rMax, rMin, rp) it does not come back *)
Example cp_rp_roundtrip_refuted :
  cp_get_nat [] [(2, CNum nat 3); (0, CNum nat 1); (1, CNum nat 9)]
    = Some [Some 1; Some 9; Some 3; None; None; None; None; None] /\
  cp_get_nat [] [(0, CNum nat 1); (1, CNum nat 9); (2, CNum nat 3)]
    = Some [Some 1; Some 9; Some 5; None; None; None; None; None] /\
  (let st := fun k => nth k [Some 1; Some 9; Some 3] None in
   match cp_print nat [1; 0; 2] st with
   | Some l => cp_get_nat [] l = Some [Some 1; Some 9; Some 5; None; None; None; None; None]
   | None => False
   end).
Proof. vm_compute. repeat split. Qed.

(** an entry whose dependency is never defined, alone: the inner assertion; a cycle: no progress *)
Example cp_unresolved_examples :
  cp_get_nat [] [(3, CExpr nat (EId nat 4))] = None /\
  cp_parse nat Nat.add Nat.sub Nat.mul Nat.div (fun x => x) (fun a b => (a + b) / 2) 0 1 2
    [(3, CExpr nat (EId nat 4)); (4, CExpr nat (EId nat 3))] = CPNoProgress nat.
Proof. vm_compute. split; reflexivity. Qed.

(** ** the binary64 instance (Coq's primitive floats), used to cross-check the extracted model whose
    arithmetic is supplied by the OCaml driver *)
From Coq Require Import Floats.
Definition cp_get_float (d : list (nat * float)) (l : list (nat * cp_val float)) (n : nat)
  : option (list (option float)) :=
  match cp_get_constants float PrimFloat.add PrimFloat.sub PrimFloat.mul PrimFloat.div PrimFloat.opp
          (fun a b => (0x1p-1 * (a + b))%float) 0 1 2 d l with
  | Some st => Some (map st (seq 0 n))
  | None => None
  end.
