From Coq Require Import List Arith Lia Bool PeanoNat.
Import ListNotations.

Section GridSM.
Variables field layout : Type.

Inductive cell := Junk | Data (g : field) (l : layout).
Inductive op := SetLayout (l : layout) | Write (g : field) | Save | Restore | Free.
Inductive out := Done | Refused.

(* concrete state of pygyro.model.grid.Grid: three physical buffers and rotating indices *)
Record cst := { buf : nat -> cell; di : nat; bi : nat; si : nat;
                notSaved : bool; savedL : option layout; cur : layout }.
Variable hasSave : bool.    (* allocateSaveMemory *)

Definition upd (f : nat -> cell) (i : nat) (v : cell) : nat -> cell :=
  fun x => if x =? i then v else f x.
Definition field_of (c : cell) (d : field) : field := match c with Data g _ => g | Junk => d end.

Variable dfield : field.

Definition cstep (s : cst) (o : op) : cst * out :=
  match o with
  | SetLayout l =>
      let g := field_of (buf s (di s)) dfield in
      let b := if hasSave && notSaved s
               then upd (upd (buf s) (bi s) (Data g l)) (si s) Junk      (* save buffer lent as scratch, source intact *)
               else upd (upd (buf s) (bi s) (Data g l)) (di s) Junk in   (* source used as scratch *)
      ({| buf := b; di := bi s; bi := di s; si := si s; notSaved := notSaved s;
          savedL := savedL s; cur := l |}, Done)
  | Write g => ({| buf := upd (buf s) (di s) (Data g (cur s)); di := di s; bi := bi s; si := si s;
                   notSaved := notSaved s; savedL := savedL s; cur := cur s |}, Done)
  | Save => if hasSave && notSaved s then
      ({| buf := upd (buf s) (si s) (Data (field_of (buf s (di s)) dfield) (cur s));
          di := di s; bi := bi s; si := si s; notSaved := false; savedL := Some (cur s); cur := cur s |}, Done)
      else (s, Refused)
  | Free => if hasSave && negb (notSaved s) then
      ({| buf := buf s; di := di s; bi := bi s; si := si s; notSaved := true; savedL := savedL s; cur := cur s |}, Done)
      else (s, Refused)
  | Restore => if hasSave && negb (notSaved s) then
      match savedL s with
      | Some l => ({| buf := buf s; di := si s; bi := bi s; si := di s; notSaved := true;
                      savedL := savedL s; cur := l |}, Done)
      | None => (s, Refused)
      end
      else (s, Refused)
  end.

(* specification: one undistributed array plus an optional saved copy *)
Record ast := { afield : field; alayout : layout; asaved : option (field * layout) }.
Definition astep (a : ast) (o : op) : ast * out :=
  match o with
  | SetLayout l => ({| afield := afield a; alayout := l; asaved := asaved a |}, Done)
  | Write g => ({| afield := g; alayout := alayout a; asaved := asaved a |}, Done)
  | Save => match asaved a with
            | None => if hasSave then ({| afield := afield a; alayout := alayout a;
                                          asaved := Some (afield a, alayout a) |}, Done) else (a, Refused)
            | Some _ => (a, Refused) end
  | Free => match asaved a with
            | Some _ => ({| afield := afield a; alayout := alayout a; asaved := None |}, Done)
            | None => (a, Refused) end
  | Restore => match asaved a with
            | Some (g, l) => ({| afield := g; alayout := l; asaved := None |}, Done)
            | None => (a, Refused) end
  end.

Definition R (s : cst) (a : ast) : Prop :=
  di s <> bi s /\ (hasSave = true -> di s <> si s /\ bi s <> si s) /\
  buf s (di s) = Data (afield a) (alayout a) /\ cur s = alayout a /\
  match asaved a with
  | None => notSaved s = true
  | Some (g, l) => hasSave = true /\ notSaved s = false /\ buf s (si s) = Data g l /\ savedL s = Some l
  end.

Ltac upd_simpl := unfold upd; repeat match goal with
  | |- context [?x =? ?y] => destruct (Nat.eqb_spec x y); try lia; try congruence end.

Lemma step_refines s a o : R s a ->
  let (s', r) := cstep s o in let (a', r') := astep a o in r = r' /\ R s' a'.
Proof.
  intros (Hdb & Hs & Hd & Hc & Hsv).
  destruct o as [l|g| | |]; cbn [cstep astep].
  - (* SetLayout *) split; [reflexivity|]. unfold R; cbn. rewrite Hd. cbn [field_of].
    destruct (asaved a) as [[gs ls]|] eqn:Ea.
    + destruct Hsv as (Hh & Hn & Hb & Hl). rewrite Hh, Hn. cbn. specialize (Hs Hh).
      repeat split; try lia; try tauto; try assumption.
      * upd_simpl.
      * upd_simpl.
    + rewrite Hsv. destruct hasSave eqn:Hh; cbn.
      * specialize (Hs eq_refl). repeat split; try lia; try tauto. upd_simpl.
      * repeat split; try lia; try discriminate. upd_simpl.
  - (* Write *) split; [reflexivity|]. unfold R; cbn. repeat split; try tauto.
    + upd_simpl.
    + destruct (asaved a) as [[gs ls]|]; [|exact Hsv].
      destruct Hsv as (Hh & Hn & Hb & Hl). specialize (Hs Hh). repeat split; try assumption. upd_simpl.
  - (* Save *) destruct (asaved a) as [[gs ls]|] eqn:Ea.
    + destruct Hsv as (Hh & Hn & Hb & Hl). rewrite Hh, Hn. cbn. split; [reflexivity|].
      unfold R. rewrite Ea. tauto.
    + rewrite Hsv. destruct hasSave eqn:Hh; cbn.
      * split; [reflexivity|]. unfold R; cbn. specialize (Hs eq_refl). rewrite Hd. cbn [field_of].
        repeat split; try tauto; try lia.
        -- upd_simpl.
        -- upd_simpl.
        -- congruence.
      * split; [reflexivity|]. unfold R. rewrite Ea. repeat split; try tauto; try congruence.
  - (* Restore *) destruct (asaved a) as [[gs ls]|] eqn:Ea.
    + destruct Hsv as (Hh & Hn & Hb & Hl). rewrite Hh, Hn, Hl. cbn. split; [reflexivity|].
      unfold R; cbn. specialize (Hs Hh). repeat split; try tauto; try lia.
    + rewrite Hsv. rewrite andb_false_r. split; [reflexivity|]. unfold R. rewrite Ea. tauto.
  - (* Free *) destruct (asaved a) as [[gs ls]|] eqn:Ea.
    + destruct Hsv as (Hh & Hn & Hb & Hl). rewrite Hh, Hn. cbn. split; [reflexivity|].
      unfold R; cbn. tauto.
    + rewrite Hsv. rewrite andb_false_r. split; [reflexivity|]. unfold R. rewrite Ea. tauto.
Qed.

Fixpoint crun (s : cst) (os : list op) : cst * list out :=
  match os with [] => (s, []) | o :: os' => let (s', r) := cstep s o in let (s'', rs) := crun s' os' in (s'', r :: rs) end.
Fixpoint arun (a : ast) (os : list op) : ast * list out :=
  match os with [] => (a, []) | o :: os' => let (a', r) := astep a o in let (a'', rs) := arun a' os' in (a'', r :: rs) end.

(* every history: same outputs (incl. refusals) and the data buffer holds the spec's field/layout *)
Theorem grid_refines : forall os s a, R s a ->
  snd (crun s os) = snd (arun a os) /\ R (fst (crun s os)) (fst (arun a os)).
Proof.
  induction os as [|o os IH]; intros s a HR; cbn [crun arun]; [split; [reflexivity|exact HR]|].
  pose proof (step_refines s a o HR) as H.
  destruct (cstep s o) as [s' r]. destruct (astep a o) as [a' r'].
  destruct H as [-> HR']. specialize (IH s' a' HR').
  destruct (crun s' os) as [s'' rs]. destruct (arun a' os) as [a'' rs']. cbn in *.
  destruct IH as [-> HR'']. split; [reflexivity|exact HR''].
Qed.

(** what a user can observe after each operation: refusal, current layout, field visible through the grid *)
Definition cobs (s : cst) : layout * option field :=
  (cur s, match buf s (di s) with Data g _ => Some g | Junk => None end).
Definition aobs (a : ast) : layout * option field := (alayout a, Some (afield a)).
Fixpoint ctrace (s : cst) (os : list op) : list (out * (layout * option field)) :=
  match os with [] => [] | o :: os' => let (s', r) := cstep s o in (r, cobs s') :: ctrace s' os' end.
Fixpoint atrace (a : ast) (os : list op) : list (out * (layout * option field)) :=
  match os with [] => [] | o :: os' => let (a', r) := astep a o in (r, aobs a') :: atrace a' os' end.

Lemma R_obs s a : R s a -> cobs s = aobs a.
Proof. intros (_ & _ & Hd & Hc & _). unfold cobs, aobs. rewrite Hd, Hc. reflexivity. Qed.

(** every history: after every operation the grid shows exactly what the single array shows *)
Theorem grid_trace_refines : forall os s a, R s a -> ctrace s os = atrace a os.
Proof.
  induction os as [|o os IH]; intros s a HR; cbn [ctrace atrace]; [reflexivity|].
  pose proof (step_refines s a o HR) as H.
  destruct (cstep s o) as [s' r]. destruct (astep a o) as [a' r'].
  destruct H as [-> HR']. rewrite (R_obs s' a' HR'), (IH s' a' HR'). reflexivity.
Qed.

(** initial state: the grid right after its first fill with field g0 in layout l0 *)
Definition cinit (g0 : field) (l0 : layout) : cst :=
  {| buf := fun i => if i =? 0 then Data g0 l0 else Junk; di := 0; bi := 1; si := 2;
     notSaved := true; savedL := None; cur := l0 |}.
Definition ainit (g0 : field) (l0 : layout) : ast := {| afield := g0; alayout := l0; asaved := None |}.
Lemma R_init g0 l0 : R (cinit g0 l0) (ainit g0 l0).
Proof. unfold R, cinit, ainit; cbn. repeat split; try lia; try reflexivity. Qed.

Theorem grid_refines_from_init g0 l0 os : ctrace (cinit g0 l0) os = atrace (ainit g0 l0) os.
Proof. apply grid_trace_refines, R_init. Qed.

(** a held save is never clobbered: restore brings back exactly the field and layout present at save time *)
Theorem save_restore_exact g0 l0 os1 os2 a1 :
  fst (arun (ainit g0 l0) os1) = a1 -> asaved a1 = None -> hasSave = true ->
  Forall (fun o => match o with SetLayout _ | Write _ => True | _ => False end) os2 ->
  aobs (fst (astep (fst (arun (fst (astep a1 Save)) os2)) Restore)) = aobs a1.
Proof.
  intros _ Hn Hh Hall. cbn [astep]. rewrite Hn, Hh. cbn [fst].
  set (a2 := {| afield := afield a1; alayout := alayout a1; asaved := Some (afield a1, alayout a1) |}).
  assert (H : forall os a, Forall (fun o => match o with SetLayout _ | Write _ => True | _ => False end) os ->
                asaved (fst (arun a os)) = asaved a).
  { induction os as [|o os IH]; intros a HF; [reflexivity|]. inversion HF as [|? ? Ho HF']; subst.
    cbn [arun]. destruct o; try contradiction; cbn [astep];
    match goal with |- context [arun ?x os] => specialize (IH x HF'); destruct (arun x os); cbn in *; exact IH end. }
  specialize (H os2 a2 Hall). destruct (fst (arun a2 os2)) as [f l sv] eqn:E. cbn in H. subst sv. cbn.
  reflexivity.
Qed.
End GridSM.
