(** Instances of the mathematical DFT over the Gaussian rationals Qc x Qc: n = 1 (w = 1), n = 2 (w = -1),
    n = 4 (w = -i, scipy's sign convention exp(-2 pi i / n)). *)
From Coq Require Import List Arith Lia ZArith QArith Qcanon Bool Field.
Import ListNotations.
From PGV Require Import Sums QnModes QnPipeline DftTheory DftPairs DensityQc.

Local Open Scope Qc_scope.

Lemma dfq_sq_nonneg (a : Qc) : 0 <= a * a.
Proof.
  destruct (Qclt_le_dec a 0) as [H|H].
  - assert (H' : 0 <= - a) by (apply Qclt_le_weak in H; apply Qcopp_le_compat in H; replace (- 0) with 0 in H by ring; exact H).
    replace (a * a) with ((- a) * (- a)) by ring. replace 0 with (0 * - a) by ring. apply Qcmult_le_compat_r; assumption.
  - replace 0 with (0 * a) by ring. apply Qcmult_le_compat_r; assumption.
Qed.

Lemma dfq_sum_sq (a b : Qc) : a * a + b * b = 0 -> a = 0 /\ b = 0.
Proof.
  intros E. pose proof (dfq_sq_nonneg a) as Ha. pose proof (dfq_sq_nonneg b) as Hb.
  assert (Ea : a * a = 0).
  { apply Qcle_antisym; [|exact Ha]. rewrite <- E. rewrite <- (Qcplus_0_r (a * a)) at 1. apply Qcplus_le_compat; [apply Qcle_refl|exact Hb]. }
  assert (Eb : b * b = 0) by (rewrite Ea in E; rewrite <- E; ring).
  split; [destruct (Qcmult_integral _ _ Ea); assumption|destruct (Qcmult_integral _ _ Eb); assumption].
Qed.

Notation QC := (qn_C Qc).
Definition dfq_q (z : Z) : Qc := Q2Qc (inject_Z z).
Definition dfq_c (a b : Z) : QC := (dfq_q a, dfq_q b).
Definition dfq_mul := cx_mul Qc Qcplus Qcmult Qcminus.
Definition dfq_add := cx_add Qc Qcplus.
Definition dfq_one := cx1 Qc 0 1.
Definition dfq_zero := cx0 Qc 0.
Definition dfq_show (z : QC) := (dnq_show (fst z), dnq_show (snd z)).

Lemma dfq_eq (x y : QC) : dfq_show x = dfq_show y -> x = y.
Proof.
  destruct x as [a b], y as [c d]. unfold dfq_show, dnq_show. cbn. intros E. injection E as E1 E2 E3 E4.
  f_equal; apply Qc_is_canon; unfold Qeq; rewrite ?E1, ?E2, ?E3, ?E4; reflexivity.
Qed.

Ltac dfq_root_tac :=
  constructor; [constructor|];
  [ lia
  | apply dfq_eq; vm_compute; reflexivity
  | intros k Hk; do 4 (destruct k as [|k]; [try lia; intros E; apply (f_equal dfq_show) in E; vm_compute in E; discriminate E|]); lia
  | intros E; apply (f_equal dfq_show) in E; vm_compute in E; discriminate E
  | apply Qc_is_canon; vm_compute; reflexivity ].

Theorem dfq_root1 : cx_root Qc 0 1 Qcplus Qcmult Qcminus 1 (dfq_c 1 0).
Proof. dfq_root_tac. Qed.
Theorem dfq_root2 : cx_root Qc 0 1 Qcplus Qcmult Qcminus 2 (dfq_c (-1) 0).
Proof. dfq_root_tac. Qed.
Theorem dfq_root4 : cx_root Qc 0 1 Qcplus Qcmult Qcminus 4 (dfq_c 0 (-1)).
Proof. dfq_root_tac. Qed.

Definition dfq_dft (n : nat) (w : QC) := cx_dft Qc 0 1 Qcplus Qcmult Qcminus n w.
Definition dfq_idft (n : nat) (w : QC) := cx_idft Qc 0 1 Qcplus Qcmult Qcminus Qcdiv Qcopp n w.

(** the laws hold for these three transforms (no hypothesis left) *)
Theorem dfq_laws1 : qn_dft_laws Qc 0 Qcplus Qcmult Qcopp 1 (dfq_dft 1 (dfq_c 1 0)) (dfq_idft 1 (dfq_c 1 0)).
Proof. exact (cx_dft_laws Qc 0 1 Qcplus Qcmult Qcminus Qcdiv Qcopp Qcinv Qcft dfq_sum_sq 1 _ dfq_root1). Qed.
Theorem dfq_laws2 : qn_dft_laws Qc 0 Qcplus Qcmult Qcopp 2 (dfq_dft 2 (dfq_c (-1) 0)) (dfq_idft 2 (dfq_c (-1) 0)).
Proof. exact (cx_dft_laws Qc 0 1 Qcplus Qcmult Qcminus Qcdiv Qcopp Qcinv Qcft dfq_sum_sq 2 _ dfq_root2). Qed.
Theorem dfq_laws4 : qn_dft_laws Qc 0 Qcplus Qcmult Qcopp 4 (dfq_dft 4 (dfq_c 0 (-1))) (dfq_idft 4 (dfq_c 0 (-1))).
Proof. exact (cx_dft_laws Qc 0 1 Qcplus Qcmult Qcminus Qcdiv Qcopp Qcinv Qcft dfq_sum_sq 4 _ dfq_root4). Qed.
