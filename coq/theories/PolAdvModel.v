(** Executable model of the poloidal advection kernels
      pygyro/advection/accelerated_advection_steps.py
        general_poloidal_advection_step_expl / general_poloidal_advection_step_impl
        (+ the dispatching wrappers poloidal_advection_step_expl / _impl)
    over the abstract field of SplineModel.v (record [sp_ops]; executed at [Qc], see PolAdvQc.v).

    The statements are those of the code: the two cross evaluations of the potential at the nodes,
    the division by rPts[j], the Euler foot, [% (2*pi)] as floor-mod with [pi] a parameter, the test
    [not (r < rPts[0] or r > rMax)], the second evaluation or zeros, the corrector with
    [multFactor_half], the two fill rules and the extra [% (2*pi)] before the final evaluation; for
    the implicit scheme the [while (norm > tol)] loop with explicit fuel ([PolOutOfFuel] is distinct
    from every value and from every error), the clipping of r into [rPts[0], rMax], the norm with
    the [2*pi - diff] wrap, updated in the order of the code.

    [f] itself is only an output buffer of the kernels: the inputs are the spline coefficients of the
    potential and of the distribution.  Every ZeroDivisionError / IndexError of the exact execution
    is an explicit [sp_res] error; the 2-D evaluators are those of SplineModel.v. *)
From Coq Require Import List Arith Lia ZArith Bool.
Import ListNotations.
From PGV Require Import SplineModel.

(** outcome of the fuelled implicit iteration *)
Inductive pol_out (A : Type) : Type :=
| PolRet (r : sp_res A)      (* the loop stopped: a value or an error of the exact execution *)
| PolOutOfFuel.              (* [fuel] sweeps were made and norm > tol still holds *)
Arguments PolRet {A} r. Arguments PolOutOfFuel {A}.

(** a 2-D spline: knots / degree in theta, knots / degree in r, coefficients *)
Record pol_spl (F : Type) : Type := PolSpl {
  ps_k1 : list F; ps_d1 : nat; ps_k2 : list F; ps_d2 : nat; ps_c : list (list F) }.
Arguments PolSpl {F}. Arguments ps_k1 {F}. Arguments ps_d1 {F}. Arguments ps_k2 {F}.
Arguments ps_d2 {F}. Arguments ps_c {F}.

(** the pair of evaluation routines handed to the general_ kernels *)
Record pol_ev (F : Type) : Type := PolEv {
  pe_cross : list F -> list F -> list F -> nat -> list F -> nat -> list (list F) -> nat -> nat
             -> sp_res (list (list F));
  pe_scalar : F -> F -> list F -> nat -> list F -> nat -> list (list F) -> nat -> nat -> sp_res F }.
Arguments pe_cross {F}. Arguments pe_scalar {F}.

Section PolModel.
Variable F : Type.
Variable K : sp_ops F.
Notation "x + y" := (spadd K x y). Notation "x * y" := (spmul K x y).
Notation "x - y" := (spsub K x y). Notation "x / y" := (spdiv K x y).
Notation "0" := (sp0 K). Notation "1" := (sp1 K).

Definition pol_nu_ev : pol_ev F := PolEv F (sp_nu_eval_2d_cross F K) (sp_nu_eval_2d_scalar F K).
Definition pol_cu_ev : pol_ev F := PolEv F (sp_cu_eval_2d_cross F K) (sp_cu_eval_2d_scalar F K).
(** poloidal_advection_step_expl / _impl: [if cubic_uniform_splines: cu_... else: nu_...] *)
Definition pol_dispatch (cubic_uniform : bool) : pol_ev F := if cubic_uniform then pol_cu_ev else pol_nu_ev.

(* ------------------------------------------------------------------------------------------ *)
(** * comparisons, abs, floor-mod *)
Definition pol_ltb (a b : F) : bool := negb (spleb K b a).            (* a < b *)
Definition pol_abs (x : F) : F := if spleb K 0 x then x else spopp K x.
(** [if (diff > norm): norm = diff] *)
Definition pol_upd (norm diff : F) : F := if pol_ltb norm diff then diff else norm.

(** floor, from Python's int() on non-negative numbers *)
Definition pol_floor (x : F) : Z :=
  if spleb K 0 x then sptrunc K x
  else let y := spopp K x in
       let t := sptrunc K y in
       if speqb K (sp_ofZ F K t) y then (- t)%Z else (- t - 1)%Z.

(** Python's [x % m] on exact numbers: x - m*floor(x/m); m = 0 raises *)
Definition pol_mod (x m : F) : sp_res F :=
  if speqb K m 0 then SpDivErr else SpOk (x - m * sp_ofZ F K (pol_floor (x / m))).

(* ------------------------------------------------------------------------------------------ *)
(** * the kernels *)
Variable E : pol_ev F.
Variable feq : F -> F -> F.             (* f_eq(r, v, constants): the equilibrium, abstract *)
Variable pi_ : F.                       (* numpy.pi *)
Variables (dt v B0 : F).
Variable nul : bool.                    (* nulBound *)
Variables (rPts qPts : list F).
Variables (phi pol : pol_spl F).        (* potential, distribution *)

Definition pol_cross (s : pol_spl F) (e1 e2 : nat) : sp_res (list (list F)) :=
  pe_cross E qPts rPts (ps_k1 s) (ps_d1 s) (ps_k2 s) (ps_d2 s) (ps_c s) e1 e2.
Definition pol_scalar (s : pol_spl F) (x y : F) (e1 e2 : nat) : sp_res F :=
  pe_scalar E x y (ps_k1 s) (ps_d1 s) (ps_k2 s) (ps_d2 s) (ps_c s) e1 e2.

Definition pol_twopi : F := (1 + 1) * pi_.
Definition pol_nq : nat := length qPts.
Definition pol_nr : nat := length rPts.

Definition pol_grid_ok (G : list (list F)) : bool :=
  (length G =? pol_nq)%nat && forallb (fun row => (length row =? pol_nr)%nat) G.
Definition pol_at (G : list (list F)) (i j : nat) : F := nth j (nth i G []) 0.
Definition pol_at2 (G : list (list (F * F))) (i j : nat) : F * F := nth j (nth i G []) (0, 0).

(** for i in range(nPts_q): for j in range(nPts_r): ... *)
Definition pol_grid_mapM {B : Type} (g : nat -> nat -> sp_res B) : sp_res (list (list B)) :=
  sp_mapM (fun i => sp_mapM (fun j => g i j) (seq 0 pol_nr)) (seq 0 pol_nq).

(** multFactor = dt/B0; the two cross evaluations; rMax = rPts[nPts_r-1]; rPts[0] *)
Definition pol_prelude : sp_res (F * list (list F) * list (list F) * F * F) :=
  if speqb K B0 0 then SpDivErr else
  sp_bind (pol_cross phi 0 1) (fun D0r =>
  sp_bind (pol_cross phi 1 0) (fun D0q =>
  match rPts with
  | [] => SpIndexErr
  | rmin :: _ =>
    if pol_grid_ok D0r && pol_grid_ok D0q then SpOk (dt / B0, D0r, D0q, rmin, last rPts 0)
    else SpIndexErr
  end)).

(** not (r < rPts[0] or r > rMax) *)
Definition pol_inside (rmin rmax x : F) : bool := negb (pol_ltb x rmin || pol_ltb rmax x).

(** drPhi_k, dthetaPhi_k at the foot (kq, kr): the derivatives of phi divided by the foot radius
    inside the radial domain, zeros outside *)
Definition pol_dk (rmin rmax kq kr : F) : sp_res (F * F) :=
  if pol_inside rmin rmax kr then
    sp_bind (pol_scalar phi kq kr 0 1) (fun a =>
    if speqb K kr 0 then SpDivErr else
    sp_bind (pol_scalar phi kq kr 1 0) (fun b =>
    SpOk (a / kr, b / kr)))
  else SpOk (0, 0).

(** drPhi_0[i,j] /= rPts[j]; dthetaPhi_0[i,j] /= rPts[j] *)
Definition pol_d0 (r a b : F) : sp_res (F * F) :=
  if speqb K r 0 then SpDivErr else SpOk (a / r, b / r).

(** one node of the explicit (Heun) loop: the foot (endPts_k2_q, endPts_k2_r) *)
Definition pol_expl_node (rmin rmax mf mfh q r a b : F) : sp_res (F * F) :=
  sp_bind (pol_d0 r a b) (fun d0 =>
  let k1r := r + snd d0 * mf in
  sp_bind (pol_mod (q - fst d0 * mf) pol_twopi) (fun k1q =>
  sp_bind (pol_dk rmin rmax k1q k1r) (fun dk =>
  sp_bind (pol_mod (q - (fst d0 + fst dk) * mfh) pol_twopi) (fun k2q =>
  SpOk (k2q, r + (snd d0 + snd dk) * mfh))))).

(** "Find value at the determined point": (value written to f, final content of endPts_k2) *)
Definition pol_fill (rmin rmax : F) (k2 : F * F) : sp_res (F * (F * F)) :=
  if pol_ltb (snd k2) rmin then SpOk ((if nul then 0 else feq rmin v), k2)
  else if pol_ltb rmax (snd k2) then SpOk ((if nul then 0 else feq (snd k2) v), k2)
  else sp_bind (pol_mod (fst k2) pol_twopi) (fun q' =>
       sp_bind (pol_scalar pol q' (snd k2) 0 0) (fun val => SpOk (val, (q', snd k2)))).

(** general_poloidal_advection_step_expl: for every node (new f, foot theta, foot r) *)
Definition pol_step_expl : sp_res (list (list (F * (F * F)))) :=
  sp_bind pol_prelude (fun p => let '(mf, D0r, D0q, rmin, rmax) := p in
  let mfh := sp_half F K * mf in
  sp_bind (pol_grid_mapM (fun i j =>
             pol_expl_node rmin rmax mf mfh (nth i qPts 0) (nth j rPts 0) (pol_at D0r i j) (pol_at D0q i j)))
          (fun feet =>
  pol_grid_mapM (fun i j => pol_fill rmin rmax (pol_at2 feet i j)))).

(* ------------------------------------------------------------------------------------------ *)
(** * implicit trapezoidal rule *)
Variable tol : F.

(** first loop: divided derivatives and the Euler foot (no modulo here) *)
Definition pol_impl_init (mf q r a b : F) : sp_res ((F * F) * (F * F)) :=
  sp_bind (pol_d0 r a b) (fun d0 => SpOk (d0, (q - fst d0 * mf, r + snd d0 * mf))).

(** if r < rPts[0]: r = rPts[0]  elif r > rMax: r = rMax *)
Definition pol_clip (rmin rmax x : F) : F :=
  if pol_ltb x rmin then rmin else if pol_ltb rmax x then rmax else x.

(** diff = abs(k2q-k1q); if diff > pi: diff = 2*pi - diff *)
Definition pol_qdiff (k2q k1q : F) : F :=
  let d := pol_abs (k2q - k1q) in if pol_ltb pi_ d then pol_twopi - d else d.

(** one node of one sweep: new foot and the two differences that enter the norm *)
Definition pol_impl_node (rmin rmax mfh q r : F) (d0 k1 : F * F) : sp_res ((F * F) * (F * F)) :=
  sp_bind (pol_mod (fst k1) pol_twopi) (fun k1q =>
  let k1r := snd k1 in
  sp_bind (pol_dk rmin rmax k1q k1r) (fun dk =>
  sp_bind (pol_mod (q - (fst d0 + fst dk) * mfh) pol_twopi) (fun k2q =>
  let k2r := pol_clip rmin rmax (r + (snd d0 + snd dk) * mfh) in
  SpOk ((k2q, k2r), (pol_qdiff k2q k1q, pol_abs (k2r - k1r)))))).

(** norm = 0.0; then, node after node, the two updates *)
Definition pol_norm_of (nodes : list (list ((F * F) * (F * F)))) : F :=
  fold_left (fun n nd => pol_upd (pol_upd n (fst (snd nd))) (snd (snd nd))) (concat nodes) 0.

(** one pass of the body of [while (norm > tol)] over all nodes: (new feet, norm) *)
Definition pol_impl_sweep (rmin rmax mfh : F) (D0 : list (list (F * F))) (st : list (list (F * F)))
  : sp_res (list (list (F * F)) * F) :=
  sp_bind (pol_grid_mapM (fun i j =>
             pol_impl_node rmin rmax mfh (nth i qPts 0) (nth j rPts 0) (pol_at2 D0 i j) (pol_at2 st i j)))
          (fun nodes => SpOk (map (map fst) nodes, pol_norm_of nodes)).

(** norm = tol+1; while (norm > tol): sweep.  Returns (feet, last norm, number of sweeps made). *)
Fixpoint pol_impl_loop (fuel : nat) (rmin rmax mfh : F) (D0 st : list (list (F * F))) (done : nat)
  : pol_out (list (list (F * F)) * F * nat) :=
  match fuel with
  | O => PolOutOfFuel
  | S n =>
    match pol_impl_sweep rmin rmax mfh D0 st with
    | SpOk (st', norm) =>
        if pol_ltb tol norm then pol_impl_loop n rmin rmax mfh D0 st' (S done)
        else PolRet (SpOk (st', norm, S done))
    | SpIndexErr => PolRet SpIndexErr | SpFuelErr => PolRet SpFuelErr
    | SpDivErr => PolRet SpDivErr | SpArgErr => PolRet SpArgErr
    end
  end.

Definition pol_lift {A B : Type} (r : sp_res A) (f : A -> pol_out B) : pol_out B :=
  match r with
  | SpOk a => f a
  | SpIndexErr => PolRet SpIndexErr | SpFuelErr => PolRet SpFuelErr
  | SpDivErr => PolRet SpDivErr | SpArgErr => PolRet SpArgErr
  end.

(** the state with which the while loop is entered: divided derivatives and Euler feet *)
Definition pol_impl_start : sp_res (F * F * F * list (list (F * F)) * list (list (F * F))) :=
  sp_bind pol_prelude (fun p => let '(mf, D0r, D0q, rmin, rmax) := p in
  sp_bind (pol_grid_mapM (fun i j =>
             pol_impl_init mf (nth i qPts 0) (nth j rPts 0) (pol_at D0r i j) (pol_at D0q i j)))
          (fun ini =>
  SpOk (rmin, rmax, sp_half F K * mf, map (map fst) ini, map (map snd) ini))).

(** general_poloidal_advection_step_impl with at most [fuel] sweeps:
    (for every node (new f, foot theta, foot r), number of sweeps) *)
Definition pol_step_impl (fuel : nat) : pol_out (list (list (F * (F * F))) * nat) :=
  pol_lift pol_impl_start (fun s => let '(rmin, rmax, mfh, D0, st0) := s in
  match pol_impl_loop fuel rmin rmax mfh D0 st0 0 with
  | PolOutOfFuel => PolOutOfFuel
  | PolRet r =>
      pol_lift r (fun res => let '(st, _, sweeps) := res in
      pol_lift (pol_grid_mapM (fun i j => pol_fill rmin rmax (pol_at2 st i j)))
               (fun out => PolRet (SpOk (out, sweeps))))
  end).

End PolModel.

(* ------------------------------------------------------------------------------------------ *)
(** * rational stand-ins for the transcendental functions of initialiser_funcs.f_eq

    f_eq is executed exactly by the harness with exp, tanh, sqrt bound to these rational
    functions; the same composition is the [feq] of the executed model.  (The theorems are about
    an arbitrary [feq].) *)
Section FeqStandIn.
Variable F : Type.
Variable K : sp_ops F.
Notation "x + y" := (spadd K x y). Notation "x * y" := (spmul K x y).
Notation "x - y" := (spsub K x y). Notation "x / y" := (spdiv K x y).
Notation "1" := (sp1 K).
Definition pol_exp_s (x : F) : F := 1 + x + x * x / (1 + 1).
Definition pol_tanh_s (x : F) : F := x / (1 + x * x).
Definition pol_sqrt_s (x : F) : F := (1 + x) / (1 + 1).
(* n0(r) = CN0*exp(-kN0*deltaRN0*tanh((r-rp)/deltaRN0)); Ti likewise *)
Definition pol_prof (C k d rp r : F) : F := C * pol_exp_s (spopp K k * d * pol_tanh_s ((r - rp) / d)).
(** f_eq(r, vPar, CN0, kN0, deltaRN0, rp, CTi, kTi, deltaRTi) *)
Definition pol_feq_s (pi_ CN0 kN0 dRN0 rp CTi kTi dRTi r vPar : F) : F :=
  pol_prof CN0 kN0 dRN0 rp r
  * pol_exp_s (spopp K (sp_half F K) * vPar * vPar / pol_prof CTi kTi dRTi rp r)
  / pol_sqrt_s ((1 + 1) * pi_ * pol_prof CTi kTi dRTi rp r).
End FeqStandIn.
