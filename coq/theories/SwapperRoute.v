(** C03: handler-internal steps of a sub-handler of the LayoutSwapper (LayoutHandler._transpose on the
    sub-communicators chosen by the swapper's constructor: C01's step generalised from the identity
    assignment of communicators to an arbitrary list [ax] of topology axes, by instantiating
    TransposeStep.step_correct for every world rank at "this rank's coordinates with the handler's
    coordinates replaced"), and routes mixing internal and cross-handler steps. *)
From Coq Require Import List Arith Lia PeanoNat Bool.
Import ListNotations.
From PGV Require Import NdIndex Blocks Layouts Handler TransposeStep TransposeExec ScatterStep SwapperExec.

Fixpoint sw_pos (ax : list nat) (t : nat) : option nat :=
  match ax with
  | [] => None
  | x :: r => if x =? t then Some 0 else option_map S (sw_pos r t)
  end.

Lemma sw_pos_some ax : forall t a, sw_pos ax t = Some a -> a < length ax /\ nth a ax 0 = t.
Proof.
  induction ax as [|x r IH]; intros t a H; cbn [sw_pos] in H; [discriminate|].
  destruct (Nat.eqb_spec x t) as [E|E].
  - injection H as <-. cbn. split; [lia|exact E].
  - destruct (sw_pos r t) as [b|] eqn:F; [|discriminate]. injection H as <-.
    destruct (IH _ _ F). cbn. split; [lia|assumption].
Qed.

Lemma sw_pos_nth ax : NoDup ax -> forall a, a < length ax -> sw_pos ax (nth a ax 0) = Some a.
Proof.
  induction ax as [|x r IH]; intros Hnd a Ha; cbn in Ha; [lia|].
  inversion Hnd as [|? ? Hni Hnd']; subst. destruct a as [|a]; cbn [nth sw_pos].
  - rewrite Nat.eqb_refl. reflexivity.
  - destruct (Nat.eqb_spec x (nth a r 0)) as [E|E].
    + exfalso. apply Hni. rewrite E. apply nth_In. lia.
    + rewrite IH by (assumption || lia). reflexivity.
Qed.

(** world coordinates of the process that has layout coordinates [c] on the handler's axes and the
    coordinates of [base] elsewhere *)
Definition sw_lift (ax : list nat) (c base : nat -> nat) : nat -> nat :=
  fun t => match sw_pos ax t with Some a => c a | None => base t end.

Fixpoint sw_list_eqb (l1 l2 : list nat) : bool :=
  match l1, l2 with
  | [], [] => true
  | x :: r, y :: s => (x =? y) && sw_list_eqb r s
  | _, _ => false
  end.
Lemma sw_list_eqb_eq l1 : forall l2, sw_list_eqb l1 l2 = true -> l1 = l2.
Proof.
  induction l1 as [|x r IH]; intros [|y s] H; cbn in H; try discriminate; [reflexivity|].
  apply andb_prop in H. destruct H as [H1 H2]. apply Nat.eqb_eq in H1. rewrite (IH _ H2), H1. reflexivity.
Qed.

Section SwRoute.
Variable V : Type.
Variable dflt : V.
Variables Nl nprocsT : list nat.
Variable d' : nat.
Let d := S d'.
Variable G : list nat -> V.

Notation Nf := (sw_Nf Nl).
Notation PT := (sw_PT nprocsT).
Notation cfun := (sw_cfun nprocsT).
Notation Pax := (sw_P nprocsT).

(** ** one distributed swap inside a handler that uses the topology axes [ax] *)
Definition sw_lco (ax : list nat) (w : nat) : nat -> nat := fun a => sw_co ax (cfun w) a.
Definition sw_src_w (ax : list nat) (bufs : list (list V)) (w : nat) : (nat -> nat) -> nat -> V :=
  fun c A => sw_srcf V dflt nprocsT bufs (sw_lift ax c (cfun w)) A.

Definition sw_run_int_dist (LS LD : sw_lay) (a0 : nat) (bufs : list (list V)) : list (list V) :=
  map (fun w => map (TransposeStep.dst V d' Nf (Pax (snd LS)) (sw_pif LS) (sw_ipif LS) (sw_pif LD) (sw_ipif LD) a0
                        (sw_src_w (snd LS) bufs w) (sw_lco (snd LS) w))
                    (seq 0 (size (sw_shape Nl nprocsT d' LD w))))
      (seq 0 (sw_nranks nprocsT)).

Definition sw_int_dist_wf_b (LS LD : sw_lay) (a0 : nat) : bool :=
  (a0 <? d) && negb (sw_pif LS a0 =? sw_pif LD a0)
  && forallb (fun a => (a =? a0) || negb (1 <? Pax (snd LS) a) || (sw_pif LS a =? sw_pif LD a)) (seq 0 d).

(** dispatch as LayoutHandler._transpose: by the swap axes of the handler's own process counts *)
Definition sw_run_int (LS LD : sw_lay) (bufs : list (list V)) : list (list V) :=
  match swap_axes (map PT (snd LS)) (fst LS) (fst LD) with
  | a0 :: _ => sw_run_int_dist LS LD a0 bufs
  | [] => sw_run_same V dflt Nl nprocsT d' LS LD bufs
  end.
Definition sw_int_wf_b (LS LD : sw_lay) : bool :=
  sw_cfg_wf_b Nl nprocsT d' LS LD && sw_list_eqb (snd LS) (snd LD) &&
  match swap_axes (map PT (snd LS)) (fst LS) (fst LD) with
  | a0 :: _ => sw_int_dist_wf_b LS LD a0
  | [] => sw_same_wf_b nprocsT d' LS LD
  end.

Lemma sw_lift_valid ax c w : length ax <= d -> w < sw_nranks nprocsT ->
  TransposeStep.valid d' (Pax ax) c -> sw_valid nprocsT (sw_lift ax c (cfun w)).
Proof.
  intros Hl Hw Hc t. unfold sw_lift. destruct (sw_pos ax t) as [a|] eqn:F.
  - destruct (sw_pos_some ax t a F) as [Ha Ht]. assert (Had : a < S d') by (unfold d in Hl; lia). specialize (Hc a Had).
    unfold sw_P in Hc. destruct (Nat.ltb_spec a (length ax)); [|lia]. rewrite Ht in Hc. exact Hc.
  - apply sw_cfun_valid, Hw.
Qed.

Lemma sw_co_lift ax c w a : NoDup ax -> TransposeStep.valid d' (Pax ax) c -> a < d ->
  sw_co ax (sw_lift ax c (cfun w)) a = c a.
Proof.
  intros Hnd Hc Ha. unfold sw_co. destruct (Nat.ltb_spec a (length ax)) as [Hl|Hl].
  - unfold sw_lift. rewrite sw_pos_nth by assumption. reflexivity.
  - specialize (Hc a Ha). unfold sw_P in Hc. destruct (Nat.ltb_spec a (length ax)); lia.
Qed.

Lemma sw_lift_lco ax w t : NoDup ax -> sw_lift ax (sw_lco ax w) (cfun w) t = cfun w t.
Proof.
  intros Hnd. unfold sw_lift. destruct (sw_pos ax t) as [a|] eqn:F; [|reflexivity].
  destruct (sw_pos_some ax t a F) as [Ha Ht]. unfold sw_lco, sw_co.
  destruct (Nat.ltb_spec a (length ax)); [|lia]. rewrite Ht. reflexivity.
Qed.

Lemma sw_holds_src_int L bufs w : perm_b d (fst L) = true ->
  length (snd L) <= d -> NoDup (snd L) -> w < sw_nranks nprocsT ->
  HoldsS V dflt Nl nprocsT d' G L bufs ->
  TransposeStep.Holds_src V d' Nf (Pax (snd L)) (sw_pif L) (sw_ipif L) G (sw_src_w (snd L) bufs w).
Proof.
  intros Hp Hl Hnd Hw HL c Hc j Hj. unfold sw_src_w.
  pose proof (sw_lift_valid (snd L) c w Hl Hw Hc) as Hv.
  pose proof (sw_holds_src V dflt Nl nprocsT d' G L bufs HL _ Hv j) as H.
  assert (Esh : mk d (sc_shS Nf (sw_pif L) (nat -> nat) (Pax (snd L)) (sw_co (snd L)) (sw_lift (snd L) c (cfun w)))
                = mk d (TransposeStep.sh Nf (Pax (snd L)) (sw_pif L) c)).
  { apply mk_ext. intros a Ha. unfold sc_shS, TransposeStep.sh. rewrite sw_co_lift by assumption. reflexivity. }
  unfold d in Esh. rewrite Esh in H. rewrite (H Hj). f_equal.
  unfold sc_globS, TransposeStep.glob. apply mk_ext. intros e He.
  rewrite sw_co_lift; [reflexivity|exact Hnd|exact Hc|].
  unfold sw_ipif. apply (perm_bwd d (fst L) Hp e He).
Qed.

Theorem sw_int_dist_correct LS LD a0 bufs : sw_cfg_wf_b Nl nprocsT d' LS LD = true ->
  snd LS = snd LD -> sw_int_dist_wf_b LS LD a0 = true ->
  HoldsS V dflt Nl nprocsT d' G LS bufs -> HoldsS V dflt Nl nprocsT d' G LD (sw_run_int_dist LS LD a0 bufs).
Proof.
  intros Hwf Eax Hd HL.
  destruct (sw_wf_parts Nl nprocsT d' LS LD Hwf) as [HlN [Hp [Hp' [Hpos [[HlS HndS] _]]]]].
  unfold sw_int_dist_wf_b in Hd. apply andb_prop in Hd. destruct Hd as [Hd Hall].
  apply andb_prop in Hd. destruct Hd as [Ha0 Hdiff].
  apply Nat.ltb_lt in Ha0. apply negb_true_iff, Nat.eqb_neq in Hdiff.
  assert (Hcompat : forall a, a < S d' -> a <> a0 -> 1 < Pax (snd LS) a -> sw_pif LS a = sw_pif LD a).
  { intros a Ha Hne H1. rewrite forallb_forall in Hall. specialize (Hall a ltac:(apply in_seq; fold d; lia)).
    destruct (Nat.eqb_spec a a0); [contradiction|]. destruct (Nat.ltb_spec 1 (Pax (snd LS) a)); [|lia].
    cbn in Hall. apply Nat.eqb_eq in Hall. exact Hall. }
  intros w Hw j' Hj'. unfold sw_run_int_dist.
  rewrite sw_nth_map_seq_list by exact Hw.
  rewrite sw_nth_map_seq by (apply ravel_lt, Hj').
  pose proof (step_correct V d' Nf (Pax (snd LS)) (sw_pif LS) (sw_ipif LS) (sw_pif LD) (sw_ipif LD) a0 Ha0
                (sw_P_pos nprocsT Hpos (snd LS))
                (perm_fwd d (fst LS) Hp) (perm_bwd d (fst LS) Hp) (perm_fwd d (fst LD) Hp') (perm_bwd d (fst LD) Hp')
                Hcompat Hdiff G (sw_src_w (snd LS) bufs w)
                (sw_holds_src_int LS bufs w Hp HlS HndS Hw HL)) as HD.
  assert (Hv : TransposeStep.valid d' (Pax (snd LS)) (sw_lco (snd LS) w)).
  { intros a _. unfold sw_lco. apply sw_co_lt, sw_cfun_valid, Hw. }
  assert (Esh : sw_shape Nl nprocsT d' LD w
                = mk (S d') (TransposeStep.sh' Nf (Pax (snd LS)) (sw_pif LD) (sw_lco (snd LS) w))).
  { unfold sw_shape, sw_shapef, TransposeStep.sh', sw_lco. rewrite <- Eax. reflexivity. }
  rewrite Esh in *. rewrite (HD _ Hv j' Hj').
  unfold TransposeStep.glob', sw_glob, sw_globf, sw_lco. rewrite <- Eax. reflexivity.
Qed.

Theorem sw_int_correct LS LD bufs : sw_int_wf_b LS LD = true ->
  HoldsS V dflt Nl nprocsT d' G LS bufs -> HoldsS V dflt Nl nprocsT d' G LD (sw_run_int LS LD bufs).
Proof.
  unfold sw_int_wf_b, sw_run_int. intros H HL. apply andb_prop in H. destruct H as [H Hs].
  apply andb_prop in H. destruct H as [Hwf Eax]. apply sw_list_eqb_eq in Eax.
  destruct (swap_axes (map PT (snd LS)) (fst LS) (fst LD)) as [|a0 rest].
  - apply sw_same_correct; assumption.
  - apply sw_int_dist_correct; assumption.
Qed.

(** ** routes: a node is (handler id, layout); a step inside one handler is the handler's transpose,
    a step between handlers is the swapper's _transpose *)
Definition sw_node := (nat * sw_lay)%type.
Definition sw_any_wf_b (n1 n2 : sw_node) : bool :=
  if fst n1 =? fst n2 then sw_int_wf_b (snd n1) (snd n2) else sw_step_wf_b Nl nprocsT d' (snd n1) (snd n2).
Definition sw_run_any (n1 n2 : sw_node) (bufs : list (list V)) : list (list V) :=
  if fst n1 =? fst n2 then sw_run_int (snd n1) (snd n2) bufs
  else sw_run_step V dflt Nl nprocsT d' (snd n1) (snd n2) bufs.

Theorem sw_any_correct n1 n2 bufs : sw_any_wf_b n1 n2 = true ->
  HoldsS V dflt Nl nprocsT d' G (snd n1) bufs -> HoldsS V dflt Nl nprocsT d' G (snd n2) (sw_run_any n1 n2 bufs).
Proof.
  unfold sw_any_wf_b, sw_run_any. destruct (fst n1 =? fst n2); intros H HL.
  - apply sw_int_correct; assumption.
  - apply sw_step_correct; assumption.
Qed.

Lemma sw_run_any_exact n1 n2 bufs : sw_any_wf_b n1 n2 = true ->
  sw_exact V Nl nprocsT d' (snd n2) (sw_run_any n1 n2 bufs).
Proof.
  unfold sw_any_wf_b, sw_run_any. destruct (fst n1 =? fst n2); intros H.
  - unfold sw_run_int. destruct (swap_axes _ _ _); apply sw_run_exact_gen.
  - apply sw_run_step_exact, H.
Qed.

Fixpoint sw_run_route (cur : sw_node) (route : list sw_node) (bufs : list (list V)) : list (list V) :=
  match route with
  | [] => bufs
  | nxt :: r => sw_run_route nxt r (sw_run_any cur nxt bufs)
  end.
Fixpoint sw_route_ok_b (cur : sw_node) (route : list sw_node) : bool :=
  match route with
  | [] => true
  | nxt :: r => sw_any_wf_b cur nxt && sw_route_ok_b nxt r
  end.

Lemma sw_last_cons (x : sw_node) r dv : last (x :: r) dv = last r x.
Proof.
  revert x dv. induction r as [|y r IH]; intros x dv; [reflexivity|].
  change (last (x :: y :: r) dv) with (last (y :: r) dv). rewrite !IH. reflexivity.
Qed.

(** any route of acceptable steps preserves the global field *)
Theorem sw_route_correct : forall route cur bufs, sw_route_ok_b cur route = true ->
  HoldsS V dflt Nl nprocsT d' G (snd cur) bufs ->
  HoldsS V dflt Nl nprocsT d' G (snd (last route cur)) (sw_run_route cur route bufs).
Proof.
  induction route as [|nxt r IH]; intros cur bufs Hok HL; [exact HL|].
  cbn [sw_route_ok_b] in Hok. apply andb_prop in Hok. destruct Hok as [H1 H2].
  rewrite sw_last_cons. cbn [sw_run_route]. apply IH; [exact H2|]. apply sw_any_correct; assumption.
Qed.

Lemma sw_route_exact : forall route cur bufs, route <> [] -> sw_route_ok_b cur route = true ->
  sw_exact V Nl nprocsT d' (snd (last route cur)) (sw_run_route cur route bufs).
Proof.
  induction route as [|nxt r IH]; intros cur bufs Hne Hok; [contradiction|].
  cbn [sw_route_ok_b] in Hok. apply andb_prop in Hok. destruct Hok as [H1 H2].
  rewrite sw_last_cons. cbn [sw_run_route]. destruct r as [|n2 r'].
  - cbn [sw_run_route last]. apply sw_run_any_exact, H1.
  - apply IH; [discriminate|exact H2].
Qed.

(** moving along any acceptable route and back along any acceptable route reproduces the original blocks *)
Corollary sw_roundtrip_id cur r1 r2 bufs : r2 <> [] ->
  sw_route_ok_b cur r1 = true -> sw_route_ok_b (last r1 cur) r2 = true ->
  snd (last r2 (last r1 cur)) = snd cur ->
  HoldsS V dflt Nl nprocsT d' G (snd cur) bufs -> sw_exact V Nl nprocsT d' (snd cur) bufs ->
  sw_run_route (last r1 cur) r2 (sw_run_route cur r1 bufs) = bufs.
Proof.
  intros Hne H1 H2 E HL He. apply (sw_holds_unique V dflt Nl nprocsT d' G (snd cur)).
  - rewrite <- E. apply sw_route_correct; [exact H2|]. apply sw_route_correct; assumption.
  - exact HL.
  - rewrite <- E. apply sw_route_exact; assumption.
  - exact He.
Qed.

End SwRoute.
