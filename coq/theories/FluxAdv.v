(** C10 - flux-surface advection.  Executable model of
      pygyro/advection/accelerated_advection_steps.py : get_lagrange_vals, flux_advection
      pygyro/advection/advection.py : FluxSurfaceAdvection._getLagrangePts (one (r,v) pair), .step
    over the abstract field of SplineModel.v (executed at Qc, AdvQc.v), and its theory.

    The array [vals] (shape (nz, len(qVals), len(shifts)), allocated uninitialised by the code) is a
    function to [option F]: [None] is a cell nobody has written.  Writes are function updates in
    the order of the code; reading an unwritten cell is the explicit error SpArgErr. *)
From Coq Require Import List Arith Lia ZArith Bool Field Ring Setoid.
Import ListNotations.
From PGV Require Import BasisCoxDeBoor FindSpan CubicUniform Sums SplineModel SplineTheory AdvCommon.

Section FxModel.
Variable F : Type.
Variable K : sp_ops F.
Notation "x + y" := (spadd K x y). Notation "x * y" := (spmul K x y).
Notation "x - y" := (spsub K x y). Notation "x / y" := (spdiv K x y).
Notation "0" := (sp0 K). Notation "1" := (sp1 K).

(** the theta-spline of one z-row: coefficients -> point -> value
    (instantiated with [adv_ev cu knots deg]) *)
Variable ev : list F -> F -> sp_res F.

Definition fx_vals := nat -> nat -> nat -> option F.     (* vals[idx, k, j] *)
Definition fx_empty : fx_vals := fun _ _ _ => None.

(** vals[idx, k, j] = col[k] for every k *)
Definition fx_put (v : fx_vals) (idx j : nat) (col : list F) : fx_vals :=
  fun a k b => if ((a =? idx) && (b =? j))%nat
               then match nth_error col k with Some x => Some x | None => v a k b end
               else v a k b.

(** idx = (i - s) % nz *)
Definition fx_row_idx (nz i : nat) (s : Z) : nat := Z.to_nat ((Z.of_nat i - s) mod Z.of_nat nz).

(** for j, s in enumerate(shifts): ... *)
Fixpoint fx_glv_loop (twopi : F) (nz : nat) (qVals coeffs : list F) (i : nat) (tss : list F)
         (shifts : list Z) (j : nat) (v : fx_vals) : sp_res fx_vals :=
  match shifts with
  | [] => SpOk v
  | s :: rest =>
    match nth_error tss j with
    | None => SpIndexErr
    | Some ts =>
      sp_bind (sp_mapM (fun q => ev coeffs (adv_mod F K (q + ts) twopi)) qVals) (fun col =>
      fx_glv_loop twopi nz qVals coeffs i tss rest (S j) (fx_put v (fx_row_idx nz i s) j col))
    end
  end.

(** get_lagrange_vals(i, shifts, vals, qVals, thetaShifts, kts, deg, coeffs, cubic_uniform_splines)
    with vals of shape (nz, len(qVals), len(shifts)) *)
Definition fx_get_lagrange_vals (pi : F) (nz i : nat) (shifts : list Z) (v : fx_vals) (qVals tss coeffs : list F)
  : sp_res fx_vals :=
  if (length shifts =? 0)%nat then SpOk v                  (* the loop body is never entered *)
  else if (nz =? 0)%nat then SpDivErr                      (* (i - s) % 0 *)
  else if speqb K (sp_two F K * pi) 0 then SpDivErr        (* % (2*pi) *)
  else fx_glv_loop (sp_two F K * pi) nz qVals coeffs i tss shifts 0 v.

(** flux_advection: f[j,i] = coeffs[0]*vals[i,j,0]; for k in 1..: f[j,i] += coeffs[k]*vals[i,j,k] *)
Fixpoint fx_acc (v : fx_vals) (i j k : nat) (cs : list F) (acc : F) : sp_res F :=
  match cs with
  | [] => SpOk acc
  | c :: rest => match v i j k with
                 | None => SpArgErr
                 | Some x => fx_acc v i j (S k) rest (acc + c * x)
                 end
  end.
Definition fx_cell (lc : list F) (v : fx_vals) (i j : nat) : sp_res F :=
  match lc with
  | [] => SpIndexErr
  | c0 :: rest => match v i j 0%nat with
                  | None => SpArgErr
                  | Some x0 => fx_acc v i j 1 rest (c0 * x0)
                  end
  end.
Definition fx_flux_advection (nq nr : nat) (lc : list F) (v : fx_vals) : sp_res (list (list F)) :=
  sp_mapM (fun j => sp_mapM (fun i => fx_cell lc v i j) (seq 0 nr)) (seq 0 nq).

(** FluxSurfaceAdvection.step: for i in range(nz): (spline of f[:, i] -> cs[i]); get_lagrange_vals(i, ...)
    then flux_advection.  [cs] = the theta-spline coefficients of the nz columns of f. *)
Fixpoint fx_step_loop (pi : F) (nz : nat) (qVals : list F) (cs : list (list F)) (shifts : list Z) (tss : list F)
         (rows : list nat) (v : fx_vals) : sp_res fx_vals :=
  match rows with
  | [] => SpOk v
  | i :: rest =>
    match nth_error cs i with
    | None => SpIndexErr
    | Some c => sp_bind (fx_get_lagrange_vals pi nz i shifts v qVals tss c)
                        (fun v' => fx_step_loop pi nz qVals cs shifts tss rest v')
    end
  end.
Definition fx_step (pi : F) (nz : nat) (qVals : list F) (cs : list (list F)) (shifts : list Z) (tss lc : list F)
  : sp_res (list (list F)) :=
  sp_bind (fx_step_loop pi nz qVals cs shifts tss (seq 0 nz) fx_empty)
          (fun v => fx_flux_advection (length qVals) nz lc v).

(** tabulation of vals for printing *)
Definition fx_tab (nz nq np : nat) (v : fx_vals) : list (list (list (option F))) :=
  map (fun a => map (fun k => map (fun b => v a k b) (seq 0 np)) (seq 0 nq)) (seq 0 nz).
Definition fx_of_tab (t : list (list (list (option F)))) : fx_vals :=
  fun a k b => nth b (nth k (nth a t []) []) None.

(* ------------------------------------------------------------------------------------------ *)
(** * _getLagrangePts for one (r, v) pair *)

(** np.arange(-n//2+1, n//2+1) *)
Definition fx_offsets (n : nat) : list Z :=
  let lo := ((- Z.of_nat n) / 2 + 1)%Z in
  let hi := (Z.of_nat n / 2 + 1)%Z in
  map (fun t => (lo + Z.of_nat t)%Z) (seq 0 (Z.to_nat (hi - lo))).

(** shifts = floor(zDist/dz) + offsets *)
Definition fx_shifts (n : nat) (zDist dz : F) : list Z :=
  let fl := adv_floor F K (zDist / dz) in map (fun o => Z.add fl o) (fx_offsets n).

(** first barycentric form:  omega = prod(zDiff); lambdas_j = 1/prod_m(zPts_j - zPts_m + eye_jm);
    coeffs_j = where(zPts_j == zPos, 1, omega*lambdas_j/zDiff_j) *)
Definition fx_lambda (zPts : list F) (j : nat) : F :=
  1 / adv_prodlist F K (map (fun m => nth j zPts 0 - nth m zPts 0 + (if (j =? m)%nat then 1 else 0))
                            (seq 0 (length zPts))).
Definition fx_lag_coeffs (zPts : list F) (zPos : F) : list F :=
  let omega := adv_prodlist F K (map (fun t => zPos - t) zPts) in
  map (fun j => let t := nth j zPts 0 in
                if speqb K t zPos then 1 else omega * fx_lambda zPts j / (zPos - t))
      (seq 0 (length zPts)).

(** (shifts, thetaShifts, lagrangeCoeffs) of one (r,v):  dz, dtheta = dz*iota(r)/R0, zDist = -v*bz*dt,
    z = eta_grid[2][1] *)
Definition fx_get_lagrange_pts (n : nat) (dz dtheta zDist z : F) : sp_res (list Z * list F * list F) :=
  if speqb K dz 0 then SpDivErr else
  let shifts := fx_shifts n zDist dz in
  let tss := map (fun s => dtheta * sp_ofZ F K s) shifts in
  let zPts := map (fun s => z + dz * sp_ofZ F K s) shifts in
  SpOk (shifts, tss, fx_lag_coeffs zPts (z + zDist)).

End FxModel.

(* ============================================================================================ *)
Section FxTheory.
Variable F : Type.
Variable K : sp_ops F.
Hypothesis HK : sp_laws K.
Add Field FXF : (spl_field K HK).
Notation "x + y" := (spadd K x y). Notation "x * y" := (spmul K x y).
Notation "x - y" := (spsub K x y). Notation "x / y" := (spdiv K x y).
Notation "0" := (sp0 K). Notation "1" := (sp1 K).
Notation "x <= y" := (sp_le K x y). Notation "x < y" := (sp_lt K x y).
Notation ofZ := (sp_ofZ F K).
Notation sumn := (adv_sum F K).

Variable ev : list F -> F -> sp_res F.

(** the z-row that feeds cell i through stencil point with shift s:  (i + s) mod nz *)
Definition fx_src (nz i : nat) (s : Z) : nat := Z.to_nat ((Z.of_nat i + s) mod Z.of_nat nz).

Lemma fx_src_lt nz i s : (0 < nz)%nat -> (fx_src nz i s < nz)%nat.
Proof. intros H. unfold fx_src. pose proof (Z.mod_pos_bound (Z.of_nat i + s) (Z.of_nat nz)). lia. Qed.
Lemma fx_row_idx_lt nz i s : (0 < nz)%nat -> (fx_row_idx nz i s < nz)%nat.
Proof. intros H. unfold fx_row_idx. pose proof (Z.mod_pos_bound (Z.of_nat i - s) (Z.of_nat nz)). lia. Qed.

(** (i - s) % nz = x  <->  (x + s) % nz = i   on 0 <= i, x < nz *)
Lemma fx_row_src nz i x s : (i < nz)%nat -> (x < nz)%nat -> fx_row_idx nz i s = x <-> fx_src nz x s = i.
Proof.
  intros Hi Hx. unfold fx_row_idx, fx_src.
  assert (Hn : (0 < Z.of_nat nz)%Z) by lia.
  pose proof (Z.mod_pos_bound (Z.of_nat i - s) (Z.of_nat nz) Hn).
  pose proof (Z.mod_pos_bound (Z.of_nat x + s) (Z.of_nat nz) Hn).
  split; intros E.
  - assert (E' : ((Z.of_nat i - s) mod Z.of_nat nz = Z.of_nat x)%Z) by lia.
    rewrite <- E'. rewrite Z.add_mod_idemp_l by lia.
    replace (Z.of_nat i - s + s)%Z with (Z.of_nat i) by lia. rewrite Z.mod_small by lia. lia.
  - assert (E' : ((Z.of_nat x + s) mod Z.of_nat nz = Z.of_nat i)%Z) by lia.
    rewrite <- E'. rewrite Zminus_mod_idemp_l.
    replace (Z.of_nat x + s - s)%Z with (Z.of_nat x) by lia. rewrite Z.mod_small by lia. lia.
Qed.

Section Formula.
Variables (pi : F) (nz : nat) (qVals : list F) (cs : list (list F)) (shifts : list Z) (tss lc : list F).
Let twopi := sp_two F K * pi.
Let nq := length qVals.
Let np := length shifts.
(** V m k j : the theta-spline of z-row m at the wrapped foot  (theta_k + thetaShift_j) mod 2 pi *)
Variable V : nat -> nat -> nat -> F.
Hypothesis Hnz : (0 < nz)%nat.
Hypothesis Hpi : twopi <> 0.
Hypothesis Hcs : length cs = nz.
Hypothesis Htss : length tss = np.
Hypothesis Hev : forall m k j, (m < nz)%nat -> (k < nq)%nat -> (j < np)%nat ->
  ev (nth m cs []) (adv_mod F K (nth k qVals 0 + nth j tss 0) twopi) = SpOk (V m k j).

Lemma fx_col_ok m j : (m < nz)%nat -> (j < np)%nat ->
  sp_mapM (fun q => ev (nth m cs []) (adv_mod F K (q + nth j tss 0) twopi)) qVals
  = SpOk (map (fun k => V m k j) (seq 0 nq)).
Proof.
  intros Hm Hj.
  assert (G : forall (l : list F) (off : nat), (forall k, (k < length l)%nat -> nth k l 0 = nth (off + k) qVals 0) ->
            (off + length l <= nq)%nat ->
            sp_mapM (fun q => ev (nth m cs []) (adv_mod F K (q + nth j tss 0) twopi)) l
            = SpOk (map (fun k => V m k j) (seq off (length l)))).
  { induction l as [|q l IH]; intros off Hl Hlen; [reflexivity|]. cbn [sp_mapM length seq map].
    pose proof (Hl 0%nat ltac:(cbn; lia)) as H0. cbn [nth] in H0. rewrite Nat.add_0_r in H0. rewrite H0.
    rewrite Hev by (cbn [length] in Hlen; lia). cbn [sp_bind].
    rewrite (IH (S off)).
    - reflexivity.
    - intros k Hk. pose proof (Hl (S k) ltac:(cbn; lia)) as H1. cbn [nth] in H1. rewrite H1. f_equal. lia.
    - cbn [length] in Hlen. lia. }
  apply (G qVals 0%nat); [intros; reflexivity|unfold nq; lia].
Qed.

(** vals after get_lagrange_vals(i, ...) *)
Definition fx_after_row (i : nat) (v : fx_vals F) : fx_vals F :=
  fun a k b => if ((b <? np) && (k <? nq) && (a =? fx_row_idx nz i (nth b shifts 0%Z)))%nat
               then Some (V i k b) else v a k b.

Lemma fx_glv_loop_spec i : (i < nz)%nat -> forall rest j0 v,
  (j0 + length rest = np)%nat -> (forall t, (t < length rest)%nat -> nth t rest 0%Z = nth (j0 + t) shifts 0%Z) ->
  exists v', fx_glv_loop F K ev twopi nz qVals (nth i cs []) i tss rest j0 v = SpOk v' /\
    forall a k b, v' a k b =
      if ((j0 <=? b) && (b <? np) && (k <? nq) && (a =? fx_row_idx nz i (nth b shifts 0%Z)))%nat
      then Some (V i k b) else v a k b.
Proof.
  intros Hi. induction rest as [|s rest IH]; intros j0 v Hlen Hnth.
  - exists v. split; [reflexivity|]. intros a k b. cbn [length] in Hlen.
    destruct (Nat.leb_spec j0 b); destruct (Nat.ltb_spec b np); cbn [andb]; try reflexivity; lia.
  - cbn [fx_glv_loop]. cbn [length] in Hlen.
    assert (Hj0 : (j0 < np)%nat) by lia.
    destruct (nth_error tss j0) as [ts|] eqn:Ets.
    2:{ apply nth_error_None in Ets. lia. }
    assert (Ets' : ts = nth j0 tss 0) by (symmetry; apply nth_error_nth with (1 := Ets)). subst ts.
    rewrite fx_col_ok by assumption. cbn [sp_bind].
    destruct (IH (S j0) (fx_put F v (fx_row_idx nz i s) j0 (map (fun k => V i k j0) (seq 0 nq)))) as [v' [E Hv']].
    + lia.
    + intros t Ht. pose proof (Hnth (S t) ltac:(cbn; lia)) as H1. cbn [nth] in H1. rewrite H1. f_equal. lia.
    + exists v'. split; [exact E|]. intros a k b. rewrite Hv'. unfold fx_put.
      pose proof (Hnth 0%nat ltac:(cbn; lia)) as H0. cbn [nth] in H0. rewrite Nat.add_0_r in H0.
      destruct (Nat.eqb_spec b j0) as [->|Hb].
      * destruct (Nat.leb_spec (S j0) j0); [lia|]. destruct (Nat.leb_spec j0 j0); [|lia]. cbn [andb].
        destruct (Nat.ltb_spec j0 np); [|lia]. cbn [andb]. rewrite <- H0.
        destruct (Nat.eqb_spec a (fx_row_idx nz i s)); cbn [andb].
        -- destruct (Nat.ltb_spec k nq) as [Hk|Hk].
           ++ rewrite (map_nth_error (fun k => V i k j0) k (seq 0 nq) (d := k)); [reflexivity|].
              rewrite nth_error_nth' with (d := 0%nat) by (rewrite seq_length; exact Hk).
              rewrite seq_nth by exact Hk. reflexivity.
           ++ assert (En : nth_error (map (fun k => V i k j0) (seq 0 nq)) k = None).
              { apply nth_error_None. rewrite map_length, seq_length. exact Hk. }
              rewrite En. reflexivity.
        -- rewrite andb_false_r. reflexivity.
      * rewrite andb_false_r.
        destruct (Nat.leb_spec (S j0) b); destruct (Nat.leb_spec j0 b); try lia; reflexivity.
Qed.

Lemma fx_get_lagrange_vals_spec i v : (i < nz)%nat ->
  exists v', fx_get_lagrange_vals F K ev pi nz i shifts v qVals tss (nth i cs []) = SpOk v' /\
    forall a k b, v' a k b = fx_after_row i v a k b.
Proof.
  intros Hi. unfold fx_get_lagrange_vals. fold np.
  destruct (Nat.eqb_spec np 0) as [E0|N0].
  - exists v. split; [reflexivity|]. intros a k b. unfold fx_after_row. rewrite E0.
    destruct (Nat.ltb_spec b 0); [lia|]. reflexivity.
  - destruct (Nat.eqb_spec nz 0); [lia|].
    fold twopi. destruct (sp_eqb_spec F K HK twopi 0) as [E|_]; [contradiction|].
    destruct (fx_glv_loop_spec i Hi shifts 0%nat v) as [v' [E Hv']]; [unfold np; lia|intros; reflexivity|].
    exists v'. split; [exact E|]. intros a k b. rewrite Hv'. unfold fx_after_row. reflexivity.
Qed.

(** vals after the rows [0, n) have been processed *)
Definition fx_inv (n : nat) (v : fx_vals F) : Prop :=
  forall a k b, (a < nz)%nat ->
    v a k b = if ((b <? np) && (k <? nq) && (fx_src nz a (nth b shifts 0%Z) <? n))%nat
              then Some (V (fx_src nz a (nth b shifts 0%Z)) k b) else None.

Lemma fx_step_loop_spec : forall n a v, (a + n <= nz)%nat -> fx_inv a v ->
  exists v', fx_step_loop F K ev pi nz qVals cs shifts tss (seq a n) v = SpOk v' /\ fx_inv (a + n) v'.
Proof.
  induction n as [|n IH]; intros a v Han Hinv.
  - exists v. split; [reflexivity|]. rewrite Nat.add_0_r. exact Hinv.
  - cbn [seq fx_step_loop].
    destruct (nth_error cs a) as [c|] eqn:Ec.
    2:{ apply nth_error_None in Ec. lia. }
    assert (Ec' : c = nth a cs []) by (symmetry; apply nth_error_nth with (1 := Ec)). subst c.
    destruct (fx_get_lagrange_vals_spec a v ltac:(lia)) as [v1 [E1 Hv1]]. rewrite E1. cbn [sp_bind].
    destruct (IH (S a) v1) as [v' [E' Hinv']]; [lia| |].
    + intros x k b Hx. rewrite Hv1. unfold fx_after_row. rewrite (Hinv x k b Hx).
      destruct (Nat.ltb_spec b np); cbn [andb]; [|reflexivity].
      destruct (Nat.ltb_spec k nq); cbn [andb]; [|reflexivity].
      pose proof (fx_row_src nz a x (nth b shifts 0%Z) ltac:(lia) Hx) as Hiff.
      destruct (Nat.eqb_spec x (fx_row_idx nz a (nth b shifts 0%Z))) as [Ex|Ex].
      * assert (Es : fx_src nz x (nth b shifts 0%Z) = a) by (apply Hiff; symmetry; exact Ex).
        rewrite Es. destruct (Nat.ltb_spec a (S a)); [|lia]. reflexivity.
      * assert (Es : fx_src nz x (nth b shifts 0%Z) <> a) by (intros Es; apply Ex; symmetry; apply Hiff, Es).
        destruct (Nat.ltb_spec (fx_src nz x (nth b shifts 0%Z)) a);
          destruct (Nat.ltb_spec (fx_src nz x (nth b shifts 0%Z)) (S a)); try reflexivity; lia.
    + exists v'. split; [exact E'|]. replace (a + S n)%nat with (S a + n)%nat by lia. exact Hinv'.
Qed.

Lemma fx_acc_spec v i j (g : nat -> F) : forall rest k acc,
  (forall t, (t < length rest)%nat -> v i j (k + t)%nat = Some (g (k + t)%nat)) ->
  fx_acc F K v i j k rest acc = SpOk (adv_comb_acc F K rest g k acc).
Proof.
  induction rest as [|c rest IH]; intros k acc H; [reflexivity|]. cbn [fx_acc adv_comb_acc].
  pose proof (H 0%nat ltac:(cbn; lia)) as H0. rewrite Nat.add_0_r in H0. rewrite H0.
  apply IH. intros t Ht. replace (S k + t)%nat with (k + S t)%nat by lia. apply H. cbn; lia.
Qed.

Lemma fx_cell_spec v i j (g : nat -> F) : lc <> [] ->
  (forall t, (t < length lc)%nat -> v i j t = Some (g t)) ->
  fx_cell F K lc v i j = SpOk (adv_comb F K lc g).
Proof.
  intros Hne H. destruct lc as [|c0 rest]; [contradiction|]. cbn [fx_cell adv_comb].
  rewrite (H 0%nat) by (cbn; lia). apply fx_acc_spec. intros t Ht. apply H. cbn [length]. lia.
Qed.

Hypothesis Hlc : length lc = np.
Hypothesis Hnp : (0 < np)%nat.

(** the new value of cell (theta_k, z_i) *)
Definition fx_new (k i : nat) : F :=
  adv_comb F K lc (fun j => V (fx_src nz i (nth j shifts 0%Z)) k j).

(** C10, first sentence: new[theta_k, i] = sum_j c_j * S_{(i + s_j) mod nz}(wrap(theta_k + s_j*dtheta)) *)
Theorem fx_step_formula :
  fx_step F K ev pi nz qVals cs shifts tss lc
  = SpOk (map (fun k => map (fun i => fx_new k i) (seq 0 nz)) (seq 0 nq)).
Proof.
  unfold fx_step.
  destruct (fx_step_loop_spec nz 0%nat (fx_empty F)) as [v [E Hinv]]; [lia| |].
  { intros a k b Ha. unfold fx_empty. destruct (Nat.ltb_spec (fx_src nz a (nth b shifts 0%Z)) 0); [lia|].
    rewrite andb_false_r. reflexivity. }
  rewrite E. cbn [sp_bind]. cbn [Nat.add] in Hinv. unfold fx_flux_advection. fold nq.
  apply (sp_mapM_ok (fun j => sp_mapM (fun i => fx_cell F K lc v i j) (seq 0 nz))
                    (fun k => map (fun i => fx_new k i) (seq 0 nz))).
  intros k Hk. apply in_seq in Hk.
  apply (sp_mapM_ok (fun i => fx_cell F K lc v i k) (fun i => fx_new k i)).
  intros i Hi. apply in_seq in Hi. unfold fx_new. apply fx_cell_spec.
  - intros El. rewrite El in Hlc. cbn in Hlc. lia.
  - intros t Ht. rewrite (Hinv i k t) by lia.
    destruct (Nat.ltb_spec t np); [|lia]. destruct (Nat.ltb_spec k nq); [|lia].
    destruct (Nat.ltb_spec (fx_src nz i (nth t shifts 0%Z)) nz) as [_|Hge]; [reflexivity|].
    pose proof (fx_src_lt nz i (nth t shifts 0%Z) Hnz). lia.
Qed.

Theorem fx_new_sum k i :
  fx_new k i = sumn np (fun j => nth j lc 0 * V (fx_src nz i (nth j shifts 0%Z)) k j).
Proof. unfold fx_new. rewrite (adv_comb_sum F K HK). rewrite Hlc. reflexivity. Qed.

End Formula.

(* ------------------------------------------------------------------------------------------ *)
(** * corollaries of the formula (statements about [fx_new], the value [fx_step] returns) *)

(** constants are preserved: if every theta-spline takes the value c at every foot and the
    Lagrange coefficients sum to one, the new value is c *)
Theorem fx_preserves_constants nz shifts lc (V : nat -> nat -> nat -> F) c k i :
  length lc = length shifts ->
  (forall m j, V m k j = c) -> sumn (length lc) (fun j => nth j lc 0) = 1 ->
  fx_new nz shifts lc V k i = c.
Proof.
  intros Hl HV Hs. rewrite fx_new_sum by exact Hl. rewrite <- Hl.
  rewrite (adv_sum_ext F K (length lc) _ (fun j => c * nth j lc 0)) by (intros; rewrite HV; ring).
  rewrite (adv_sum_scale F K HK), Hs. ring.
Qed.

(** linearity in the advected function (through the spline values) *)
Theorem fx_step_linear nz shifts lc (V1 V2 V3 : nat -> nat -> nat -> F) a b k i :
  length lc = length shifts ->
  (forall m j, V3 m k j = a * V1 m k j + b * V2 m k j) ->
  fx_new nz shifts lc V3 k i = a * fx_new nz shifts lc V1 k i + b * fx_new nz shifts lc V2 k i.
Proof.
  intros Hl H. rewrite !fx_new_sum by exact Hl.
  rewrite <- !(adv_sum_scale F K HK), <- (adv_sum_add F K HK). apply adv_sum_ext. intros j _. rewrite H. ring.
Qed.

(** commutation with circular shifts in z: rotating the rows by r rotates the result by r *)
Theorem fx_commutes_with_z_shift nz shifts lc (V V' : nat -> nat -> nat -> F) (r : Z) k i :
  (0 < nz)%nat ->
  (forall m j, (m < nz)%nat -> V' m k j = V (fx_src nz m r) k j) ->
  fx_new nz shifts lc V' k i = fx_new nz shifts lc V k (fx_src nz i r).
Proof.
  intros Hnz H. unfold fx_new.
  (* the two functions agree pointwise; adv_comb is a fold, so rewrite under it by induction *)
  assert (G : forall cs (g g' : nat -> F) , (forall j, g j = g' j) -> adv_comb F K cs g = adv_comb F K cs g').
  { intros cs0 g g' Hg. destruct cs0 as [|c0 rest]; [reflexivity|]. cbn [adv_comb]. rewrite Hg.
    generalize 1%nat (c0 * g' 0%nat). induction rest as [|c rest IH]; intros n acc; [reflexivity|].
    cbn [adv_comb_acc]. rewrite Hg. apply IH. }
  apply G. intros j. rewrite H by (apply fx_src_lt; exact Hnz). f_equal.
  unfold fx_src. assert (Hn : (0 < Z.of_nat nz)%Z) by lia.
  pose proof (Z.mod_pos_bound (Z.of_nat i + nth j shifts 0%Z) (Z.of_nat nz) Hn).
  pose proof (Z.mod_pos_bound (Z.of_nat i + r) (Z.of_nat nz) Hn).
  rewrite !Z2Nat.id by lia. rewrite !Z.add_mod_idemp_l by lia. f_equal. f_equal. lia.
Qed.

(** when the Lagrange coefficients are the indicator of stencil point j0 (foot on a node) and
    there is no twist (the spline of row m at every foot of theta_k reproduces f[k,m]), the step
    is the exact circular shift by s_{j0} cells *)
Theorem fx_indicator_shift nz shifts lc (V : nat -> nat -> nat -> F) (f : nat -> nat -> F) j0 k i :
  length lc = length shifts -> (j0 < length lc)%nat ->
  nth j0 lc 0 = 1 -> (forall j, (j < length lc)%nat -> j <> j0 -> nth j lc 0 = 0) ->
  (forall m j, V m k j = f k m) ->
  fx_new nz shifts lc V k i = f k (fx_src nz i (nth j0 shifts 0%Z)).
Proof.
  intros Hl Hj0 H1 H0 HV. rewrite fx_new_sum by exact Hl. rewrite <- Hl.
  rewrite (adv_sum_single F K HK (length lc) _ j0 Hj0).
  - rewrite H1, HV. ring.
  - intros j Hj Hne. rewrite (H0 j Hj Hne). ring.
Qed.

(* ------------------------------------------------------------------------------------------ *)
(** * Lagrange coefficients *)

Lemma fx_prodlist_zero (l : list F) : In 0 l -> adv_prodlist F K l = 0.
Proof.
  unfold adv_prodlist. intros Hin.
  assert (G : forall l', fold_left (fun a x => a * x) l' 0 = 0).
  { induction l' as [|x l' IH]; [reflexivity|]. cbn [fold_left]. replace (0 * x) with 0 by ring. exact IH. }
  generalize 1. induction l as [|x l IH]; intros a; [destruct Hin|]. cbn [fold_left].
  destruct Hin as [->|Hin].
  - replace (a * 0) with 0 by ring. apply G.
  - apply IH, Hin.
Qed.

Lemma fx_lag_coeffs_length zPts zPos : length (fx_lag_coeffs F K zPts zPos) = length zPts.
Proof. unfold fx_lag_coeffs. rewrite map_length, seq_length. reflexivity. Qed.

Lemma fx_lag_coeffs_nth zPts zPos j : (j < length zPts)%nat ->
  nth j (fx_lag_coeffs F K zPts zPos) 0 =
  if speqb K (nth j zPts 0) zPos then 1
  else adv_prodlist F K (map (fun t => zPos - t) zPts) * fx_lambda F K zPts j / (zPos - nth j zPts 0).
Proof.
  intros Hj. unfold fx_lag_coeffs. cbv zeta.
  rewrite (sp_nth_map_seq F (fun j => if speqb K (nth j zPts 0) zPos then 1
     else adv_prodlist F K (map (fun t => zPos - t) zPts) * fx_lambda F K zPts j / (zPos - nth j zPts 0)) 0 (length zPts) 0 j Hj).
  reflexivity.
Qed.

(** the foot is stencil node j0: the coefficients are the indicator of j0 *)
Theorem fx_lagrange_on_node zPts j0 : (j0 < length zPts)%nat ->
  (forall j, (j < length zPts)%nat -> j <> j0 -> nth j zPts 0 <> nth j0 zPts 0) ->
  forall j, (j < length zPts)%nat ->
  nth j (fx_lag_coeffs F K zPts (nth j0 zPts 0)) 0 = if (j =? j0)%nat then 1 else 0.
Proof.
  intros Hj0 Hd j Hj. rewrite fx_lag_coeffs_nth by exact Hj.
  destruct (Nat.eqb_spec j j0) as [->|Hne].
  - destruct (sp_eqb_spec F K HK (nth j0 zPts 0) (nth j0 zPts 0)) as [_|N]; [reflexivity|contradiction N; reflexivity].
  - destruct (sp_eqb_spec F K HK (nth j zPts 0) (nth j0 zPts 0)) as [E|_]; [exfalso; apply (Hd j Hj Hne E)|].
    rewrite fx_prodlist_zero.
    + rewrite (Fdiv_def (spl_field K HK)). ring.
    + apply in_map_iff. exists (nth j0 zPts 0). split; [ring|apply nth_In, Hj0].
Qed.

Lemma fx_sub0 a b : a - b = 0 -> a = b.
Proof. intros E. replace a with ((a - b) + b) by ring. rewrite E. ring. Qed.
Lemma fx_diag_ne0 a : a - a + 1 <> 0.
Proof. intros E. apply (sp_1_neq_0 F K HK). rewrite <- E. ring. Qed.

(** six pairwise distinct nodes, foot not on a node: the first barycentric form sums to one *)
Lemma fx_lagrange_sum_one_off x t0 t1 t2 t3 t4 t5 :
  t0 <> t1 -> t0 <> t2 -> t0 <> t3 -> t0 <> t4 -> t0 <> t5 -> t1 <> t2 -> t1 <> t3 -> t1 <> t4 -> t1 <> t5 ->
  t2 <> t3 -> t2 <> t4 -> t2 <> t5 -> t3 <> t4 -> t3 <> t5 -> t4 <> t5 ->
  x <> t0 -> x <> t1 -> x <> t2 -> x <> t3 -> x <> t4 -> x <> t5 ->
  sumn 6 (fun j => nth j (fx_lag_coeffs F K [t0; t1; t2; t3; t4; t5] x) 0) = 1.
Proof.
  intros.
  unfold fx_lag_coeffs, fx_lambda, adv_prodlist, adv_sum. cbn [length seq map nth fold_left Sums.sumn Nat.eqb].
  repeat match goal with |- context [speqb K ?a ?b] =>
    destruct (sp_eqb_spec F K HK a b) as [E|_]; [exfalso; congruence|] end.
  field.
  repeat split; intros E;
    first [ exact (fx_diag_ne0 _ E) | apply fx_sub0 in E; congruence ].
Qed.


(** the foot is node j0 (distinct from the other nodes): the coefficients sum to one *)
Lemma fx_lagrange_sum_one_on zPts j0 : (j0 < length zPts)%nat ->
  (forall j, (j < length zPts)%nat -> j <> j0 -> nth j zPts 0 <> nth j0 zPts 0) ->
  sumn (length zPts) (fun j => nth j (fx_lag_coeffs F K zPts (nth j0 zPts 0)) 0) = 1.
Proof.
  intros Hj0 Hd. rewrite (adv_sum_single F K HK (length zPts) _ j0 Hj0).
  - rewrite (fx_lagrange_on_node zPts j0 Hj0 Hd j0 Hj0). rewrite Nat.eqb_refl. reflexivity.
  - intros j Hj Hne. rewrite (fx_lagrange_on_node zPts j0 Hj0 Hd j Hj).
    destruct (Nat.eqb_spec j j0); [contradiction|reflexivity].
Qed.

(** C10: the degree-5 Lagrange coefficients of any six pairwise distinct nodes sum to one, wherever the
    foot is (on a node: through the [where] branch; off the nodes: the first barycentric form) *)
Theorem fx_lagrange_sum_one x t0 t1 t2 t3 t4 t5 :
  t0 <> t1 -> t0 <> t2 -> t0 <> t3 -> t0 <> t4 -> t0 <> t5 -> t1 <> t2 -> t1 <> t3 -> t1 <> t4 -> t1 <> t5 ->
  t2 <> t3 -> t2 <> t4 -> t2 <> t5 -> t3 <> t4 -> t3 <> t5 -> t4 <> t5 ->
  sumn 6 (fun j => nth j (fx_lag_coeffs F K [t0; t1; t2; t3; t4; t5] x) 0) = 1.
Proof.
  intros.
  assert (On : forall j0, (j0 < 6)%nat -> x = nth j0 [t0; t1; t2; t3; t4; t5] 0 ->
               sumn 6 (fun j => nth j (fx_lag_coeffs F K [t0; t1; t2; t3; t4; t5] x) 0) = 1).
  { intros j0 Hj0 ->. apply (fx_lagrange_sum_one_on [t0; t1; t2; t3; t4; t5] j0 Hj0).
    intros j Hj Hne. cbn [length] in Hj.
    destruct j0 as [|[|[|[|[|[|?]]]]]]; try lia; destruct j as [|[|[|[|[|[|?]]]]]]; try lia; cbn [nth]; congruence. }
  destruct (sp_eqb_spec F K HK x t0) as [E0|N0]; [apply (On 0%nat); [lia|exact E0]|].
  destruct (sp_eqb_spec F K HK x t1) as [E1|N1]; [apply (On 1%nat); [lia|exact E1]|].
  destruct (sp_eqb_spec F K HK x t2) as [E2|N2]; [apply (On 2%nat); [lia|exact E2]|].
  destruct (sp_eqb_spec F K HK x t3) as [E3|N3]; [apply (On 3%nat); [lia|exact E3]|].
  destruct (sp_eqb_spec F K HK x t4) as [E4|N4]; [apply (On 4%nat); [lia|exact E4]|].
  destruct (sp_eqb_spec F K HK x t5) as [E5|N5]; [apply (On 5%nat); [lia|exact E5]|].
  apply fx_lagrange_sum_one_off; assumption.
Qed.

(** C10: displacement of a whole number of cells and no twist: exact circular shift.  The foot is
    stencil node j0; [f k m] is what the theta-spline of row m returns at every foot of theta_k
    (exact interpolation, C08, enters only as this hypothesis). *)
Theorem fx_integer_shift_exact nz shifts zPts (V : nat -> nat -> nat -> F) (f : nat -> nat -> F) j0 k i :
  length zPts = length shifts -> (j0 < length zPts)%nat ->
  (forall j, (j < length zPts)%nat -> j <> j0 -> nth j zPts 0 <> nth j0 zPts 0) ->
  (forall m j, V m k j = f k m) ->
  fx_new nz shifts (fx_lag_coeffs F K zPts (nth j0 zPts 0)) V k i = f k (fx_src nz i (nth j0 shifts 0%Z)).
Proof.
  intros Hl Hj0 Hd HV. apply fx_indicator_shift.
  - rewrite fx_lag_coeffs_length. exact Hl.
  - rewrite fx_lag_coeffs_length. exact Hj0.
  - rewrite (fx_lagrange_on_node zPts j0 Hj0 Hd j0 Hj0), Nat.eqb_refl. reflexivity.
  - intros j Hj Hne. rewrite fx_lag_coeffs_length in Hj. rewrite (fx_lagrange_on_node zPts j0 Hj0 Hd j Hj).
    destruct (Nat.eqb_spec j j0); [contradiction|reflexivity].
  - exact HV.
Qed.

(** C10: the stencil is centred on the foot, for either sign of the displacement: with q = zDist/dz,
    shifts = floor(q) + (-2 .. 3)  and  s_2 <= q < s_3 *)
Theorem fx_stencil_centred zDist dz : adv_trunc_ok F K ->
  fx_shifts F K 6 zDist dz = map (Z.add (adv_floor F K (zDist / dz))) [-2; -1; 0; 1; 2; 3]%Z /\
  ofZ (nth 2 (fx_shifts F K 6 zDist dz) 0%Z) <= zDist / dz /\
  zDist / dz < ofZ (nth 3 (fx_shifts F K 6 zDist dz) 0%Z).
Proof.
  intros Htr. split; [reflexivity|].
  destruct (adv_floor_spec F K HK (zDist / dz) Htr) as [H1 H2].
  unfold fx_shifts. cbv zeta. change (fx_offsets 6) with [-2; -1; 0; 1; 2; 3]%Z. cbn [map nth].
  rewrite Z.add_0_r. split; [exact H1|]. rewrite (adv_ofZ_add F K HK). exact H2.
Qed.

End FxTheory.
