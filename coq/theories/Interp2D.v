(** C08, 2-D: SplineInterpolator2D.compute_interpolant reproduces its data on the tensor grid
    (all four boundary combinations, general and uniform-cubic path). *)
From Coq Require Import List Arith Lia ZArith Bool Field Ring Setoid.
Import ListNotations.
From PGV Require Import BasisCoxDeBoor CoxDeBoorGen FindSpan CubicUniform CollocRow Sums SplineModel SplineTheory InterpModel InterpTheory.

Lemma ip_nth_firstn {A : Type} (d : A) : forall (l : list A) a t, (t < a)%nat -> nth t (firstn a l) d = nth t l d.
Proof.
  induction l as [|h l IH]; intros a t Hlt; [rewrite firstn_nil; reflexivity|].
  destruct a; [lia|]. cbn [firstn]. destruct t; cbn [nth]; [reflexivity|]. apply IH. lia.
Qed.
Lemma ip_Forall_firstn {A : Type} (P : A -> Prop) : forall (l : list A) n, Forall P l -> Forall P (firstn n l).
Proof.
  induction l as [|h l IH]; intros n H; [rewrite firstn_nil; constructor|].
  destruct n; [constructor|]. cbn [firstn]. inversion H; subst. constructor; [assumption|apply IH; assumption].
Qed.

Section Ip2D.
Variable F : Type.
Variable K : sp_ops F.
Hypothesis HK : sp_laws K.
Add Field IPF2 : (spl_field K HK).
Notation "x + y" := (spadd K x y). Notation "x * y" := (spmul K x y).
Notation "0" := (sp0 K). Notation "1" := (sp1 K).
Notation sumn := (Sums.sumn F 0 (spadd K)).
Notation sumr := (Sums.sumr F 0 (spadd K)).
Notation isum := (ip_sum F K).
Notation mget := (ip_mget F K).

(** wrapped read: index q of an array of n values followed by copies of its first entries *)
Definition ip_fold_idx (per : bool) (n q : nat) : nat := if per then (if (q <? n)%nat then q else (q - n)%nat) else q.

Lemma ip_col_fold n d s per j : (1 <= n)%nat -> (d <= s)%nat -> (per = true -> (d <= n)%nat /\ (s < n + d)%nat) ->
  (j <= d)%nat -> ip_col n d s per j = ip_fold_idx per n (s - d + j).
Proof.
  intros Hn Hd Hp Hj. unfold ip_col, ip_fold_idx. destruct per; [|reflexivity].
  destruct (Hp eq_refl) as [Hdn Hs]. destruct (Nat.ltb_spec (s - d + j) n) as [H|H].
  - apply Nat.mod_small, H.
  - replace (s - d + j)%nat with ((s - d + j - n) + 1 * n)%nat at 1 by lia. rewrite Nat.mod_add by lia.
    apply Nat.mod_small. lia.
Qed.

Lemma ip_wrap_rows_nth {A : Type} (d : A) (per : bool) (n p : nat) (l : list A) q :
  (n <= length l)%nat -> (p <= n)%nat -> (q < (if per then n + p else length l))%nat ->
  nth q (if per then firstn n l ++ firstn p l else l) d = nth (ip_fold_idx per n q) l d.
Proof.
  intros Hl Hp Hq. unfold ip_fold_idx. destruct per; [|reflexivity].
  assert (Hf : length (firstn n l) = n) by (rewrite firstn_length; lia).
  destruct (Nat.ltb_spec q n) as [H|H].
  - rewrite app_nth1 by lia. apply ip_nth_firstn, H.
  - rewrite app_nth2 by lia. rewrite Hf. apply ip_nth_firstn. lia.
Qed.

(** Spline2D.eval at a point whose spans / bases are (s1, b1), (s2, b2) *)
Lemma ip_eval2d_of_span_basis k1 d1 k2 d2 cubic w x y s1 b1 s2 b2 :
  ip_span_basis F K k1 d1 cubic x = SpOk (s1, b1) -> ip_span_basis F K k2 d2 cubic y = SpOk (s2, b2) ->
  (cubic = true -> d1 = 3%nat /\ d2 = 3%nat) ->
  (d1 <= s1)%nat -> (s1 < length w)%nat -> (d2 <= s2)%nat -> Forall (fun row => (s2 < length row)%nat) w ->
  ip_eval2d F K k1 d1 k2 d2 cubic w x y
  = SpOk (sumn (S d1) (fun a => sumn (S d2) (fun b => nth (s2 - d2 + b) (nth (s1 - d1 + a) w []) 0 * nth b b2 0) * nth a b1 0)).
Proof.
  intros H1 H2 Hcub Hd1 Hs1 Hd2 Hrows.
  assert (Hfb : forallb (fun row => (s2 <? length row)%nat) w = true).
  { apply forallb_forall. intros row Hin. apply Nat.ltb_lt. rewrite Forall_forall in Hrows. apply Hrows, Hin. }
  assert (Etc : sp_tensor_checked F K w s1 d1 s2 d2 b1 b2
    = SpOk (sumn (S d1) (fun a => sumn (S d2) (fun b => nth (s2 - d2 + b) (nth (s1 - d1 + a) w []) 0 * nth b b2 0) * nth a b1 0))).
  { unfold sp_tensor_checked. destruct (Nat.leb_spec d1 s1); [|lia]. destruct (Nat.ltb_spec s1 (length w)); [|lia].
    destruct (Nat.leb_spec d2 s2); [|lia]. cbn [andb]. rewrite Hfb. rewrite (sp_tensor_loop_sum F K HK).
    f_equal. rewrite (ip_sumr_sumn F K HK). apply (ip_sumn_ext F K). intros a _. f_equal. apply (ip_sumr_sumn F K HK). }
  unfold ip_span_basis in H1, H2. unfold ip_eval2d. destruct cubic.
  - destruct (Hcub eq_refl) as [-> ->]. unfold sp_cu_eval_2d_scalar.
    destruct (sp_cu_unpack F K k1) as [[[[xmin xmax] dx] ncx]| | | |]; cbn [sp_bind] in *; try discriminate.
    destruct (sp_cu_unpack F K k2) as [[[[ymin ymax] dy] ncy]| | | |]; cbn [sp_bind] in *; try discriminate.
    destruct (sp_cu_find_span F K xmin xmax dx x ncx) as [so1| | | |]; cbn [sp_bind] in *; try discriminate.
    destruct (sp_cu_find_span F K ymin ymax dy y ncy) as [so2| | | |]; cbn [sp_bind] in *; try discriminate.
    cbn [sp_cu_basis_sel sp_bind]. unfold sp_cu_tensor. cbn [Nat.eqb andb].
    destruct (sp_span_nat (fst so1)) as [s1'| | | |]; cbn [sp_bind] in *; try discriminate.
    destruct (sp_span_nat (fst so2)) as [s2'| | | |]; cbn [sp_bind] in *; try discriminate.
    inversion H1. inversion H2. subst. exact Etc.
  - unfold sp_nu_eval_2d_scalar.
    destruct (sp_nu_find_span F K k1 d1 x) as [s1'| | | |]; cbn [sp_bind] in *; try discriminate.
    destruct (sp_nu_find_span F K k2 d2 y) as [s2'| | | |]; cbn [sp_bind] in *; try discriminate.
    cbn [sp_nu_basis_sel].
    destruct (sp_nu_basis_funs F K k1 d1 x s1') as [b1'| | | |]; cbn [sp_bind] in *; try discriminate.
    destruct (sp_nu_basis_funs F K k2 d2 y s2') as [b2'| | | |]; cbn [sp_bind] in *; try discriminate.
    inversion H1. inversion H2. subst. exact Etc.
Qed.


Lemma ip_coeffs_head d per (sol : list F) k : (k < length sol)%nat -> nth k (ip_coeffs F d per sol) 0 = nth k sol 0.
Proof. intros Hk. unfold ip_coeffs. destruct per; [|reflexivity]. apply app_nth1, Hk. Qed.

(** everything the 2-D proof needs from one call of the 1-D interpolator on several data vectors *)
Lemma ip_many_pack knots d per cubic xs us cs :
  ip_interp_many F K knots d per cubic xs us = SpOk cs -> ip_spans_in_range F K knots d per cubic xs ->
  let nb := ip_nbasis F K knots d per cubic in
  let l := ip_ncoeffs F K knots d cubic in
  (1 <= nb)%nat /\ (cubic = true -> d = 3%nat) /\ (per = true -> (d <= nb)%nat) /\ l = (if per then nb + d else nb)%nat /\
  length cs = length us /\
  forall i, (i < nb)%nat -> exists s b, ip_span_basis F K knots d cubic (nth i xs 0) = SpOk (s, b) /\ (d <= s)%nat /\ (s < l)%nat /\
    (per = true -> (d <= nb)%nat /\ (s < nb + d)%nat) /\
    forall r, (r < length us)%nat -> exists sol, length sol = nb /\ nth r cs [] = ip_coeffs F d per sol /\
      sumn (S d) (fun j => nth j b 0 * nth (ip_col nb d s per j) sol 0) = nth i (nth r us []) 0.
Proof.
  intros H Hrange. cbv zeta.
  destruct (ip_interp_many_spec _ _ _ _ _ _ _ _ _ H) as [Hok [Hxs _]].
  destruct (ip_interp_many_system F K HK _ _ _ _ _ _ _ H) as [Hlen [A [EA Hsys]]].
  destruct (ip_space_ok_facts _ _ _ _ _ _ Hok) as [Hd1 [Hnc [Hcub Hper]]].
  set (nb := ip_nbasis F K knots d per cubic) in *.
  assert (Hnbper : per = true -> nb = ip_ncells F K knots d cubic) by (intros ->; reflexivity).
  assert (Hnbcl : per = false -> nb = (ip_ncells F K knots d cubic + d)%nat) by (intros ->; reflexivity).
  assert (Hl : ip_ncoeffs F K knots d cubic = (if per then nb + d else nb)%nat).
  { unfold ip_ncoeffs. destruct per; [rewrite (Hnbper eq_refl)|rewrite (Hnbcl eq_refl)]; reflexivity. }
  assert (Hnb1 : (1 <= nb)%nat) by (destruct per; [rewrite (Hnbper eq_refl)|rewrite (Hnbcl eq_refl)]; lia).
  split; [exact Hnb1|]. split; [exact Hcub|]. split; [intros Ep; rewrite (Hnbper Ep); apply Hper, Ep|]. split; [exact Hl|].
  split; [exact Hlen|]. intros i Hi.
  destruct (ip_mapM_spec _ 0 [] _ _ EA) as [HlA HA]. specialize (HA i ltac:(lia)).
  destruct (ip_colloc_row_spec _ _ _ _ _ _ _ _ _ HA) as [s [b [Hsb [Hds [Hsn [_ Erow]]]]]].
  exists s, b. split; [exact Hsb|]. split; [exact Hds|].
  assert (Hwrap : per = true -> (d <= nb)%nat /\ (s < nb + d)%nat).
  { intros Ep. split; [rewrite (Hnbper Ep); apply Hper, Ep|].
    pose proof (Hrange Ep i s b ltac:(lia) Hsb) as Hs. rewrite Hl, Ep in Hs. exact Hs. }
  split.
  { rewrite Hl. destruct per; [apply (Hwrap eq_refl)|apply Hsn; reflexivity]. }
  split; [exact Hwrap|]. intros r Hr. destruct (Hsys r Hr) as [sol [Hsl [Ec Hsol]]].
  exists sol. split; [exact Hsl|]. split; [exact Ec|]. rewrite <- (Hsol i Hi). unfold ip_mget. rewrite Erow.
  symmetry. apply (ip_row_dot F K HK nb d s per b (fun k => nth k sol 0)); assumption.
Qed.

(** HEADLINE (2-D): the coefficients returned by SplineInterpolator2D.compute_interpolant make Spline2D.eval
    return u[i][j] at every point (x1_i, x2_j) of the tensor grid of interpolation points *)
Theorem ip_interp2d_exact k1 d1 per1 xs1 k2 d2 per2 xs2 cubic ug w :
  ip_interp2d F K k1 d1 per1 xs1 k2 d2 per2 xs2 cubic ug = SpOk w ->
  ip_spans_in_range F K k1 d1 per1 cubic xs1 -> ip_spans_in_range F K k2 d2 per2 cubic xs2 ->
  forall i j, (i < ip_nbasis F K k1 d1 per1 cubic)%nat -> (j < ip_nbasis F K k2 d2 per2 cubic)%nat ->
  ip_eval2d F K k1 d1 k2 d2 cubic w (nth i xs1 0) (nth j xs2 0) = SpOk (nth j (nth i ug []) 0).
Proof.
  unfold ip_interp2d. cbv zeta.
  set (n1 := ip_nbasis F K k1 d1 per1 cubic). set (n2 := ip_nbasis F K k2 d2 per2 cubic).
  set (l1 := ip_ncoeffs F K k1 d1 cubic). set (l2 := ip_ncoeffs F K k2 d2 cubic).
  destruct (Nat.eqb_spec (length ug) n1) as [Hug|]; [|discriminate].
  destruct (ip_interp_many F K k2 d2 per2 cubic xs2 ug) as [W| | | |] eqn:EW; cbn [sp_bind]; try discriminate.
  set (Wt := ip_transpose F K n1 l2 W).
  destruct (ip_interp_many F K k1 d1 per1 cubic xs1 (firstn n2 Wt)) as [V| | | |] eqn:EV; cbn [sp_bind]; try discriminate.
  intros Hw Hr1 Hr2 i j Hi Hj. injection Hw as Ew.
  pose proof (ip_many_pack _ _ _ _ _ _ _ EW Hr2) as PK2. cbv zeta in PK2. fold n2 l2 in PK2.
  destruct PK2 as [Hn2 [Hc2 [Hp2 [El2 [HlW P2]]]]].
  pose proof (ip_many_pack _ _ _ _ _ _ _ EV Hr1) as PK1. cbv zeta in PK1. fold n1 l1 in PK1.
  destruct PK1 as [Hn1 [Hc1 [Hp1 [El1 [HlV P1]]]]].
  assert (Hn2l2 : (n2 <= l2)%nat) by (rewrite El2; destruct per2; lia).
  assert (Hn1l1 : (n1 <= l1)%nat) by (rewrite El1; destruct per1; lia).
  assert (Hd1n1 : (d1 <= n1)%nat) by (destruct per1; [apply Hp1; reflexivity|unfold l1, ip_ncoeffs in El1; lia]).
  assert (Hd2n2 : (d2 <= n2)%nat) by (destruct per2; [apply Hp2; reflexivity|unfold l2, ip_ncoeffs in El2; lia]).
  assert (HlWt : length Wt = l2) by apply ip_tab_length.
  assert (Hus : length (firstn n2 Wt) = n2) by (rewrite firstn_length; lia).
  rewrite Hus in *. rewrite Hug in *.
  destruct (P2 j Hj) as [s2 [b2 [Hsb2 [Hds2 [Hs2l [Hw2 Q2]]]]]].
  destruct (P1 i Hi) as [s1 [b1 [Hsb1 [Hds1 [Hs1l [Hw1 Q1]]]]]].
  destruct (Q2 i Hi) as [sol2 [Hsl2 [EWi Hsum2]]].
  (* shapes of the intermediate and final arrays *)
  assert (HVrow : forall beta, (beta < n2)%nat -> length (nth beta V []) = l1).
  { intros beta Hb. destruct (Q1 beta Hb) as [sol1 [Hsl1 [EVb _]]]. rewrite EVb.
    rewrite (ip_coeffs_length F n1 d1 per1 sol1 Hsl1 Hd1n1). rewrite El1. reflexivity. }
  set (Vw := if per2 then V ++ firstn d2 V else V) in *.
  set (w0 := ip_transpose F K l2 l1 Vw) in *.
  assert (Hlw0 : length w0 = l1) by apply ip_tab_length.
  assert (Hw0rows : Forall (fun row => length row = l2) w0).
  { apply Forall_forall. intros row Hin. destruct (In_nth _ _ [] Hin) as [q [Hq Eq]]. rewrite Hlw0 in Hq.
    rewrite <- Eq. apply ip_tab_row_length, Hq. }
  assert (Hlenw : length w = l1).
  { rewrite <- Ew. destruct per1; [|exact Hlw0]. rewrite app_length, !firstn_length, Hlw0, El1.
    specialize (Hp1 eq_refl). lia. }
  assert (Hwrows : Forall (fun row => (s2 < length row)%nat) w).
  { assert (G : Forall (fun row => length row = l2) w).
    { rewrite <- Ew. destruct per1; [|exact Hw0rows]. apply Forall_app. split; apply ip_Forall_firstn; exact Hw0rows. }
    revert G. apply Forall_impl. intros row ->. exact Hs2l. }
  assert (Hs1w : (s1 < length w)%nat) by (rewrite Hlenw; exact Hs1l).
  rewrite (ip_eval2d_of_span_basis k1 d1 k2 d2 cubic w _ _ s1 b1 s2 b2 Hsb1 Hsb2
             (fun Ec => conj (Hc1 Ec) (Hc2 Ec)) Hds1 Hs1w Hds2 Hwrows).
  f_equal. rewrite <- Hsum2.
  (* the entry of w read by eval *)
  assert (Hentry : forall a b, (a <= d1)%nat -> (b <= d2)%nat ->
    nth (s2 - d2 + b) (nth (s1 - d1 + a) w []) 0
    = nth (ip_col n1 d1 s1 per1 a) (nth (ip_col n2 d2 s2 per2 b) V []) 0).
  { intros a b Ha Hb.
    rewrite (ip_col_fold n1 d1 s1 per1 a Hn1 Hds1 Hw1 Ha), (ip_col_fold n2 d2 s2 per2 b Hn2 Hds2 Hw2 Hb).
    set (q1 := (s1 - d1 + a)%nat). set (q2 := (s2 - d2 + b)%nat).
    assert (Hq1 : (q1 < l1)%nat) by (unfold q1; lia). assert (Hq2 : (q2 < l2)%nat) by (unfold q2; lia).
    assert (Hf1 : (ip_fold_idx per1 n1 q1 < l1)%nat).
    { unfold ip_fold_idx. destruct per1; [|exact Hq1]. specialize (Hp1 eq_refl). rewrite El1 in *.
      destruct (Nat.ltb_spec q1 n1); lia. }
    assert (Hf2 : (ip_fold_idx per2 n2 q2 < n2)%nat).
    { unfold ip_fold_idx. destruct per2; [|rewrite El2 in Hq2; exact Hq2]. specialize (Hp2 eq_refl). rewrite El2 in *.
      destruct (Nat.ltb_spec q2 n2); lia. }
    rewrite <- Ew.
    assert (Hq1' : (q1 < (if per1 then n1 + d1 else length w0))%nat).
    { destruct per1; [rewrite El1 in Hq1; exact Hq1|rewrite Hlw0; exact Hq1]. }
    rewrite (ip_wrap_rows_nth [] per1 n1 d1 w0 q1 ltac:(lia) Hd1n1 Hq1').
    change (nth q2 (nth (ip_fold_idx per1 n1 q1) w0 []) 0) with (mget w0 (ip_fold_idx per1 n1 q1) q2).
    unfold w0, ip_transpose. rewrite ip_tab_get by assumption. unfold ip_mget.
    f_equal. unfold Vw. unfold ip_fold_idx. destruct per2; [|reflexivity].
    specialize (Hp2 eq_refl). rewrite El2 in Hq2.
    destruct (Nat.ltb_spec q2 n2) as [Hlt|Hge].
    - apply app_nth1. lia.
    - rewrite app_nth2 by lia. rewrite HlV. apply ip_nth_firstn. lia. }
  (* swap the two sums and collapse the inner one with the second sweep, then the first *)
  rewrite (ip_sumn_ext F K (S d1) _ (fun a => sumn (S d2) (fun b =>
             nth b b2 0 * (nth a b1 0 * nth (ip_col n1 d1 s1 per1 a) (nth (ip_col n2 d2 s2 per2 b) V []) 0)))).
  2:{ intros a Ha.
      transitivity (nth a b1 0 * sumn (S d2) (fun b => nth (s2 - d2 + b) (nth (s1 - d1 + a) w []) 0 * nth b b2 0)); [ring|].
      rewrite <- (ip_sumn_scale F K HK). apply (ip_sumn_ext F K). intros b Hb. rewrite Hentry by lia. ring. }
  rewrite (ip_sumn_swap F K HK). apply (ip_sumn_ext F K). intros b Hb.
  rewrite (ip_sumn_scale F K HK). f_equal.
  assert (Hbeta : (ip_col n2 d2 s2 per2 b < n2)%nat).
  { apply ip_col_lt; try assumption; try lia. intros Ep. rewrite El2, Ep in Hs2l. exact Hs2l. }
  set (beta := ip_col n2 d2 s2 per2 b) in *.
  destruct (Q1 beta Hbeta) as [sol1 [Hsl1 [EVb Hsum1]]].
  rewrite (ip_sumn_ext F K (S d1) _ (fun a => nth a b1 0 * nth (ip_col n1 d1 s1 per1 a) sol1 0)).
  2:{ intros a Ha. f_equal. rewrite EVb. apply ip_coeffs_head. rewrite Hsl1.
      apply ip_col_lt; try assumption; try lia. intros Ep. rewrite El1, Ep in Hs1l. exact Hs1l. }
  rewrite Hsum1. rewrite (ip_nth_firstn []) by exact Hbeta.
  change (nth i (nth beta Wt []) 0) with (mget Wt beta i). unfold Wt, ip_transpose.
  rewrite ip_tab_get by lia. unfold ip_mget. rewrite EWi. apply ip_coeffs_head. rewrite Hsl2. exact Hbeta.
Qed.

End Ip2D.
