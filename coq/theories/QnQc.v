(** A concrete transform pair satisfying [qn_dft_laws] (non-vacuity of the hypotheses of the pipeline
    theorems): the 2-point DFT over Qc, and the identity as per-mode solve. *)
From Coq Require Import List Arith Lia ZArith QArith Qcanon Bool Field.
Import ListNotations.
From PGV Require Import Blocks Sums GridSteps Density QnModes QnPipeline DensityQc.

Local Open Scope Qc_scope.
Definition qnq_C := qn_C Qc.
Definition qnq_half : Qc := Q2Qc (1 # 2).
Definition qnq_dft2 (x : nat -> qnq_C) : nat -> qnq_C := fun k =>
  match k with
  | O => (fst (x 0%nat) + fst (x 1%nat), snd (x 0%nat) + snd (x 1%nat))
  | _ => (fst (x 0%nat) - fst (x 1%nat), snd (x 0%nat) - snd (x 1%nat))
  end.
Definition qnq_idft2 (y : nat -> qnq_C) : nat -> qnq_C := fun k =>
  match k with
  | O => (qnq_half * (fst (y 0%nat) + fst (y 1%nat)), qnq_half * (snd (y 0%nat) + snd (y 1%nat)))
  | _ => (qnq_half * (fst (y 0%nat) - fst (y 1%nat)), qnq_half * (snd (y 0%nat) - snd (y 1%nat)))
  end.

Lemma qnq_two_cases k : (k < 2)%nat -> k = 0%nat \/ k = 1%nat.
Proof. lia. Qed.

Lemma qnq_half_double a : qnq_half * (a + a) = a.
Proof.
  assert (H : qnq_half * (Q2Qc 2) = Q2Qc 1) by (apply Qc_is_canon; reflexivity).
  transitivity ((qnq_half * Q2Qc 2) * a); [|rewrite H; ring].
  assert (E : Q2Qc 2 = 1 + 1) by (apply Qc_is_canon; reflexivity). rewrite E. ring.
Qed.

Lemma qnq_half_sum a b : qnq_half * ((a + b) + (a - b)) = a.
Proof. transitivity (qnq_half * (a + a)); [f_equal; ring|apply qnq_half_double]. Qed.
Lemma qnq_half_diff a b : qnq_half * ((a + b) - (a - b)) = b.
Proof. transitivity (qnq_half * (b + b)); [f_equal; ring|apply qnq_half_double]. Qed.

Lemma qnq_self_opp_zero (b : Qc) : b = - b -> b = Q2Qc 0.
Proof.
  intros H. assert (E : b + b = Q2Qc 0) by (rewrite H at 1; ring).
  rewrite <- (qnq_half_double b). rewrite E. ring.
Qed.

Theorem qnq_dft2_laws : qn_dft_laws Qc (Q2Qc 0) Qcplus Qcmult Qcopp 2 qnq_dft2 qnq_idft2.
Proof.
  constructor.
  - intros x y H k Hk. pose proof (H 0%nat ltac:(lia)) as H0. pose proof (H 1%nat ltac:(lia)) as H1.
    destruct (qnq_two_cases k Hk) as [->| ->]; cbn [qnq_dft2]; rewrite H0, H1; reflexivity.
  - intros x y H k Hk. pose proof (H 0%nat ltac:(lia)) as H0. pose proof (H 1%nat ltac:(lia)) as H1.
    destruct (qnq_two_cases k Hk) as [->| ->]; cbn [qnq_idft2]; rewrite H0, H1; reflexivity.
  - intros x k Hk. destruct (qnq_two_cases k Hk) as [->| ->]; cbn [qnq_idft2 qnq_dft2 fst snd].
    + destruct (x 0%nat) as [a0 b0], (x 1%nat) as [a1 b1]. cbn [fst snd]. f_equal; apply qnq_half_sum.
    + destruct (x 0%nat) as [a0 b0], (x 1%nat) as [a1 b1]. cbn [fst snd]. f_equal; apply qnq_half_diff.
  - intros a x y k Hk. destruct (qnq_two_cases k Hk) as [->| ->]; unfold qn_cadd, qn_cscale; cbn [qnq_dft2 fst snd]; f_equal; ring.
  - intros a x y k Hk. destruct (qnq_two_cases k Hk) as [->| ->]; unfold qn_cadd, qn_cscale; cbn [qnq_idft2 fst snd]; f_equal; ring.
  - intros x Hx k Hk. pose proof (Hx 0%nat ltac:(lia)) as H0. pose proof (Hx 1%nat ltac:(lia)) as H1.
    unfold qn_is_real in H0, H1.
    destruct (qnq_two_cases k Hk) as [->| ->]; vm_compute qn_conj; unfold qn_cconj; cbn [qnq_dft2 fst snd]; rewrite H0, H1; f_equal; ring.
  - intros y Hy k Hk. pose proof (Hy 0%nat ltac:(lia)) as H0. pose proof (Hy 1%nat ltac:(lia)) as H1.
    change (qn_conj 2 0) with 0%nat in H0. change (qn_conj 2 1) with 1%nat in H1.
    assert (E0 : snd (y 0%nat) = Q2Qc 0) by (apply qnq_self_opp_zero; rewrite H0 at 1; reflexivity).
    assert (E1 : snd (y 1%nat) = Q2Qc 0) by (apply qnq_self_opp_zero; rewrite H1 at 1; reflexivity).
    unfold qn_is_real. destruct (qnq_two_cases k Hk) as [->| ->]; cbn [qnq_idft2 snd]; rewrite E0, E1; ring.
Qed.

(** the identity as per-mode solve satisfies the solve laws *)
Theorem qnq_id_solve_laws nr (P : Type) : qn_solve_laws Qc Qcmult Qcopp nr P (fun _ x => x).
Proof. constructor; intros; try reflexivity. apply H; assumption. Qed.

(** the scaling of np.fft.fftfreq(n, d) is [results * (1/(n*d))]; with d = 1/n as DiffEqSolver passes it, the factor
    is exactly 1 in a field, so that the table holds the integer mode numbers of QnModes.qn_fftfreq *)
Lemma qnq_fftfreq_scale_one (n : positive) :
  let nq := Q2Qc (inject_Z (Zpos n)) in 1 / (nq * (1 / nq)) = 1.
Proof.
  intros nq. assert (H : nq <> 0).
  { unfold nq. intros E. apply Q2Qc_eq_iff in E. unfold Qeq in E. cbn in E. lia. }
  field. split; [exact H|]. intros E. discriminate (f_equal this E).
Qed.
Theorem qnq_mvals_scaled (n : positive) (i : nat) :
  let nq := Q2Qc (inject_Z (Zpos n)) in
  Q2Qc (inject_Z (qn_mode (Pos.to_nat n) i)) * (1 / (nq * (1 / nq))) = Q2Qc (inject_Z (qn_mode (Pos.to_nat n) i)).
Proof. intros nq. unfold nq. rewrite qnq_fftfreq_scale_one. ring. Qed.
