(** C09: the stored integrals of EVERY general space (clamped or periodic, repaired code) sum to the length of the domain,
    hence the quadrature weights sum to the length of the domain / the period.
    Summation by parts over the pieces c_i (u_i - l_i) of [QuadTheory.ip_piece] + the Greville identity of degree p+1
    ([GrevilleTheory.ip_greville_T]) at both ends of the domain. *)
From Coq Require Import List Arith Lia ZArith Bool Field Ring Setoid.
Import ListNotations.
From PGV Require Import BasisCoxDeBoor CoxDeBoorGen FindSpan CubicUniform CollocRow Sums SplineModel SplineTheory InterpModel InterpTheory QuadTheory GrevilleTheory.

Section QuadSum.
Variable F : Type.
Variable K : sp_ops F.
Hypothesis HK : sp_laws K.
Add Field IPFS : (spl_field K HK).
Notation "x + y" := (spadd K x y). Notation "x * y" := (spmul K x y).
Notation "x - y" := (spsub K x y). Notation "x / y" := (spdiv K x y).
Notation "0" := (sp0 K). Notation "1" := (sp1 K).
Notation "x <= y" := (sp_le K x y). Notation "x < y" := (sp_lt K x y).
Notation sumn := (Sums.sumn F 0 (spadd K)).
Notation kn := (sp_kn F K).
Notation ofn := (sp_ofnat F K).

Lemma ip_telescope1 (f : nat -> F) m : sumn m (fun i => f (S i) - f i) = f m - f 0%nat.
Proof. induction m as [|m IH]; cbn [Sums.sumn]; [ring|]. rewrite IH. ring. Qed.

(** sum_i g_i * sum_q [i < m_q] V_q  =  sum_q V_q * (sum_{i < m_q} g_i) *)
Lemma ip_sum_by_parts N P (g V : nat -> F) (m : nat -> nat) : (forall q, (q < P)%nat -> (m q <= N)%nat) ->
  sumn N (fun i => g i * sumn P (fun q => if (i <? m q)%nat then V q else 0))
  = sumn P (fun q => V q * sumn (m q) g).
Proof.
  intros Hm.
  rewrite (ip_sumn_ext F K N _ (fun i => sumn P (fun q => V q * (if (i <? m q)%nat then g i else 0)))).
  2:{ intros i _. rewrite <- (ip_sumn_scale F K HK). apply (ip_sumn_ext F K). intros q _. destruct (i <? m q)%nat; ring. }
  rewrite (ip_sumn_swap F K HK). apply (ip_sumn_ext F K). intros q Hq.
  rewrite (ip_sumn_scale F K HK), (ip_sumn_prefix F K HK) by (apply Hm, Hq). reflexivity.
Qed.

Section General.
Variable knots : list F.
Variable d : nat.
Hypothesis Hsb : ip_simple_breaks F K knots d.
Notation len := (length knots).
Notation kx := (ip_kx F K knots).
Notation a := (kn knots d).
Notation b := (kn knots (len - 1 - d)).
Notation NN := (len - d - 1)%nat.
Notation Va := (ip_Va F K knots d).
Notation Vb := (ip_Vb F K knots d).
Notation T := (ip_T F K kx (S d)).
Notation Lsum i := (sumn (S (S d)) (fun q => if (S i <=? q)%nat then Va q else 0)).
Notation Usum i := (sumn (S (S d)) (fun q => if (i + 2 + 2 * d + 1 - len <=? q)%nat then Vb q else 0)).

Lemma ip_T_diff i : T (S i) - T i = kn knots (i + d + 1) - kn knots i.
Proof.
  unfold ip_T.
  pose proof (ip_sumn_shift1 F K HK (fun j => kn kx (1 + j)) (S d) i) as H. cbv beta in H.
  rewrite (ip_sumn_ext F K (S d) (fun r => kn kx (S i + 1 + r)) (fun j => kn kx (1 + (S i + j)))) by (intros; f_equal; lia).
  rewrite (ip_sumn_ext F K (S d) (fun r => kn kx (i + 1 + r)) (fun j => kn kx (1 + (i + j)))) by (intros; f_equal; lia).
  replace (kn knots (i + d + 1)) with (kn kx (1 + (i + S d))) by (rewrite ip_kx_kn; f_equal; lia).
  replace (kn knots i) with (kn kx (1 + i)) by (rewrite ip_kx_kn; f_equal; lia).
  transitivity (sumn (S d) (fun j => kn kx (1 + (S i + j))) + kn kx (1 + i) - kn kx (1 + i) - sumn (S d) (fun j => kn kx (1 + (i + j)))); [ring|].
  rewrite H. ring.
Qed.

Lemma ip_greville_a : sumn (S (S d)) (fun q => T q * Va q) = ofn (S d) * a /\ sumn (S (S d)) Va = 1.
Proof.
  destruct (ip_gen_facts F K HK knots d Hsb) as [Hsx [_ [_ [_ [_ [Hspa _]]]]]].
  pose proof (ip_greville_T F K HK kx a (S d) Hsx Hspa (S d) (le_n _)) as G.
  pose proof (ip_sum_one F K HK kx a (S d) Hsx Hspa (S d) (le_n _)) as S1.
  rewrite Nat.sub_diag in G, S1. split; [exact G|exact S1].
Qed.
Lemma ip_greville_b : sumn (S (S d)) (fun q => T (NN - S d + q) * Vb q) = ofn (S d) * b /\ sumn (S (S d)) Vb = 1.
Proof.
  destruct (ip_gen_facts F K HK knots d Hsb) as [Hsx [_ [_ [_ [_ [_ Hspb]]]]]].
  destruct Hsb as [_ [Hlen _]].
  split.
  - exact (ip_greville_T F K HK kx b NN Hsx Hspb (S d) ltac:(lia)).
  - exact (ip_sum_one F K HK kx b NN Hsx Hspb (S d) ltac:(lia)).
Qed.

(** summation by parts + Greville at both ends *)
Theorem ip_pieces_sum :
  sumn NN (fun i => (kn knots (i + d + 1) - kn knots i) * (1 / ofn (S d)) * (Usum i - Lsum i)) = b - a.
Proof.
  destruct Hsb as [_ [Hlen _]].
  destruct ip_greville_a as [Ga Sa]. destruct ip_greville_b as [Gb Sb].
  assert (EU : sumn NN (fun i => (T (S i) - T i) * Usum i) = ofn (S d) * b - T 0%nat).
  { rewrite (ip_sumn_ext F K NN _ (fun i => (T (S i) - T i) * sumn (S (S d)) (fun q => if (i <? NN - S d + q)%nat then Vb q else 0))).
    2:{ intros i Hi. f_equal. apply (ip_sumn_ext F K). intros q Hq.
        destruct (Nat.leb_spec (i + 2 + 2 * d + 1 - len) q), (Nat.ltb_spec i (NN - S d + q)); try reflexivity; lia. }
    rewrite (ip_sum_by_parts NN (S (S d)) (fun i => T (S i) - T i) Vb (fun q => (NN - S d + q)%nat)) by (intros; lia).
    rewrite (ip_sumn_ext F K (S (S d)) _ (fun q => T (NN - S d + q) * Vb q + (0 - T 0%nat) * Vb q)).
    2:{ intros q _. rewrite (ip_telescope1 T). ring. }
    rewrite (ip_sumn_add F K HK), (ip_sumn_scale F K HK), Gb, Sb. ring. }
  assert (EL : sumn NN (fun i => (T (S i) - T i) * Lsum i) = ofn (S d) * a - T 0%nat).
  { change (sumn NN (fun i => (T (S i) - T i) * sumn (S (S d)) (fun q => if (i <? q)%nat then Va q else 0)) = ofn (S d) * a - T 0%nat).
    rewrite (ip_sum_by_parts NN (S (S d)) (fun i => T (S i) - T i) Va (fun q => q)) by (intros; lia).
    rewrite (ip_sumn_ext F K (S (S d)) _ (fun q => T q * Va q + (0 - T 0%nat) * Va q)).
    2:{ intros q _. rewrite (ip_telescope1 T). ring. }
    rewrite (ip_sumn_add F K HK), (ip_sumn_scale F K HK), Ga, Sa. ring. }
  rewrite (ip_sumn_ext F K NN _ (fun i => (1 / ofn (S d)) * ((T (S i) - T i) * Usum i) + (0 - 1 / ofn (S d)) * ((T (S i) - T i) * Lsum i))).
  2:{ intros i _. rewrite ip_T_diff. ring. }
  rewrite (ip_sumn_add F K HK), !(ip_sumn_scale F K HK), EU, EL. field. apply (ip_ofnat_S_ne0 F K HK).
Qed.

End General.

(** BSplines.integrals of a general space (clamped or periodic): the ncells + d stored values sum to b - a *)
Theorem ip_integrals_general_sum knots d periodic Il :
  ip_simple_breaks F K knots d -> ip_integrals F K knots d periodic false = SpOk Il ->
  length Il = (length knots - d - 1)%nat /\
  sumn (length knots - d - 1) (fun j => nth j Il 0) = kn knots (length knots - 1 - d) - kn knots d.
Proof.
  intros Hsb EI. pose proof Hsb as [_ [Hlen _]].
  unfold ip_integrals in EI. cbv zeta in EI.
  destruct (ip_space_ok F K knots d periodic false); cbn [negb] in EI; [|discriminate].
  change (kn knots 0 :: knots ++ [last knots 0]) with (ip_kx F K knots) in EI.
  assert (E : (ip_ncells F K knots d false + d = length knots - d - 1)%nat) by (unfold ip_ncells; lia).
  rewrite E in EI.
  rewrite (sp_mapM_ok _ (fun i => (kn knots (i + d + 1) - kn knots i) * (1 / ofn (S d))
             * (sumn (S (S d)) (fun q => if (i + 2 + 2 * d + 1 - length knots <=? q)%nat then ip_Vb F K knots d q else 0)
                - sumn (S (S d)) (fun q => if (S i <=? q)%nat then ip_Va F K knots d q else 0)))) in EI.
  2:{ intros i Hi. apply in_seq in Hi. apply (ip_piece F K HK knots d Hsb). lia. }
  injection EI as EI. subst Il. split; [rewrite map_length, seq_length; reflexivity|].
  rewrite <- (ip_pieces_sum knots d Hsb). apply (ip_sumn_ext F K). intros j Hj.
  rewrite (ip_nth_map_seq (fun i => (kn knots (i + d + 1) - kn knots i) * (1 / ofn (S d)) * _)) by exact Hj. reflexivity.
Qed.

(** GENERAL weight-sum theorem: on every general space (clamped or periodic, uniform or not) whose breakpoints increase
    strictly, for interpolation points in the domain, the quadrature weights sum to the length of the domain (= the period) *)
Theorem ip_weights_sum_general knots d periodic xs w :
  ip_simple_breaks F K knots d -> ip_quadrature F K knots d periodic false xs = SpOk w ->
  (forall i, (i < ip_nbasis F K knots d periodic false)%nat ->
     kn knots d <= nth i xs 0 /\ nth i xs 0 <= kn knots (length knots - 1 - d)) ->
  ip_sum F K (ip_nbasis F K knots d periodic false) (fun i => nth i w 0) = kn knots (length knots - 1 - d) - kn knots d.
Proof.
  intros Hsb Hq Hdom. pose proof Hsb as [Hs [Hlen Hst]].
  unfold ip_quadrature in Hq.
  destruct (ip_integrals F K knots d periodic false) as [Il| | | |] eqn:EI; cbn [sp_bind] in Hq; try discriminate.
  destruct (ip_integrals_general_sum knots d periodic Il Hsb EI) as [HlI HsumI].
  destruct (ip_quad_from_spec F K HK _ _ _ _ _ _ _ Hq) as [_ [A [EA _]]].
  set (nb := ip_nbasis F K knots d periodic false) in *.
  assert (Hok : ip_space_ok F K knots d periodic false = true).
  { unfold ip_quad_from in Hq. cbv zeta in Hq. destruct (ip_space_ok F K knots d periodic false); [reflexivity|discriminate]. }
  assert (Hxs : length xs = nb).
  { unfold ip_quad_from in Hq. cbv zeta in Hq. fold nb in Hq. rewrite Hok in Hq. cbn [andb] in Hq.
    destruct (Nat.eqb_spec (length xs) nb) as [E|]; [exact E|discriminate]. }
  assert (Hrows : ip_rows_sum_one F K nb A).
  { apply (ip_rows_sum_one_nu F K HK knots d periodic xs A EA Hxs Hs Hlen).
    - apply Hst. lia.
    - replace (length knots - 1 - d)%nat with (S (length knots - d - 2)) by lia. apply Hst. lia.
    - exact Hdom. }
  pose proof (ip_weights_sum F K HK knots d periodic false xs Il w A Hq EA Hrows) as W. cbv zeta in W. fold nb in W. rewrite W.
  rewrite <- HsumI. unfold ip_sum. destruct periodic.
  - (* periodic: folded integrals *)
    destruct (ip_space_ok_facts F K _ _ _ _ Hok) as [_ [_ [_ Hper]]]. specialize (Hper eq_refl).
    assert (Enb : nb = ip_ncells F K knots d false) by reflexivity.
    assert (Enc : (length knots - d - 1 = nb + d)%nat) by (rewrite Enb; unfold ip_ncells; lia).
    rewrite Enc, (ip_sumn_split F K HK).
    rewrite (ip_sumn_ext F K nb _ (fun j => nth j Il 0 + (if (j <? d)%nat then nth (nb + j) Il 0 else 0))).
    2:{ intros j Hj. unfold ip_quad_rhs. rewrite (ip_vtab_get F K) by exact Hj. destruct (j <? d)%nat; ring. }
    rewrite (ip_sumn_add F K HK). f_equal. apply (ip_sumn_prefix F K HK). rewrite Enb. exact Hper.
  - assert (Enb : nb = (length knots - d - 1)%nat) by (unfold nb, ip_nbasis, ip_ncells; lia).
    rewrite Enb. apply (ip_sumn_ext F K). intros j Hj. unfold ip_quad_rhs. rewrite (ip_vtab_get F K) by exact Hj. reflexivity.
Qed.

End QuadSum.
