(** Executable model of pygyro/splines/spline_interpolators.py (SplineInterpolator1D / 2D) and of the
    quadrature part of pygyro/splines/splines.py (BSplines._build_integrals), over the abstract field
    of SplineModel.v (record [sp_ops]; executed at [Qc], see InterpQc.v).

    - a collocation row is written exactly as [collocation_matrix] writes it: span, basis, then
      np.add.at(mat[i], js(span), basis)  with columns span-p .. span (clamped: a slice, a shape
      mismatch is an error) or (span-p+s) % nb (periodic: a list of columns; basis values that wrap onto
      the same column are ADDED, which happens when ncells <= degree) - [ip_row_acc], in gather form:
      column k receives the sum of the basis values whose column is k.  (The pinned tree assigned
      mat[i, js(span)] = basis, where the last write wins: [CollocRow.row]; see InterpQc.ipq_lww_row.);
    - [ip_lin_solve] stands for LAPACK ?gbtrf/?gbtrs and SuperLU: Gaussian elimination with back
      substitution FOLLOWED BY the check A.X = B; when the check fails (singular matrix) the result is
      an error, so the specification of the solver holds by construction and nothing has to be proved
      about the elimination.  Non-singularity (uniqueness of the solution) is certified separately by
      [ip_inverse_ok]: a candidate two-sided inverse is checked (Ainv.A = I, A.Ainv = I); [ip_inverse]
      computes the candidate with the solver itself;
    - knots and interpolation points are INPUTS (the harness passes the code's own float knots and
      Greville points converted exactly), [ncells] / [nbasis] are derived from the knots as
      BSplines.__init__ derives them.

    The model follows the tree with the repairs 6a5dc09 (collocation rows accumulate) and 38b0bf4
    (integrals of the wrapped periodic basis functions computed, not mirrored) and 974ae9f (uniform-cubic clamped edge
    integrals: the cuts are subtracted). *)
From Coq Require Import List Arith Lia ZArith Bool.
Import ListNotations.
From PGV Require Import BasisCoxDeBoor FindSpan CubicUniform CollocRow Sums SplineModel.

Section IpModel.
Variable F : Type.
Variable K : sp_ops F.
Notation "x + y" := (spadd K x y). Notation "x * y" := (spmul K x y).
Notation "x - y" := (spsub K x y). Notation "x / y" := (spdiv K x y).
Notation "0" := (sp0 K). Notation "1" := (sp1 K).

(** sum_{k < n} f k *)
Definition ip_sum (n : nat) (f : nat -> F) : F := Sums.sumn F 0 (spadd K) n f.

Definition ip_vget (v : list F) (i : nat) : F := nth i v 0.
Definition ip_mget (A : list (list F)) (i j : nat) : F := nth j (nth i A []) 0.
Definition ip_delta (i j : nat) : F := if (i =? j)%nat then 1 else 0.

(** an (nr x nc) table of a function *)
Definition ip_tab (nr nc : nat) (f : nat -> nat -> F) : list (list F) :=
  map (fun i => map (fun j => f i j) (seq 0 nc)) (seq 0 nr).
Definition ip_vtab (n : nat) (f : nat -> F) : list F := map f (seq 0 n).

(** M.transpose() of an (nr x nc) array *)
Definition ip_transpose (nr nc : nat) (M : list (list F)) : list (list F) :=
  ip_tab nc nr (fun j i => ip_mget M i j).

Definition ip_shape_ok (nr nc : nat) (M : list (list F)) : bool :=
  (length M =? nr)%nat && forallb (fun r => (length r =? nc)%nat) M.

(* ------------------------------------------------------------------------------------------ *)
(** * the linear solver: elimination, then the check *)

Fixpoint ip_axpy (f : F) (p r : list F) : list F :=      (* r - f*p *)
  match r, p with
  | a :: r', b :: p' => (a - f * b) :: ip_axpy f p' r'
  | _, _ => []
  end.
Definition ip_elim (k : nat) (piv r : list F) : list F :=
  let f := nth k r 0 in if speqb K f 0 then r else ip_axpy f piv r.
Fixpoint ip_find_pivot (k : nat) (rest acc : list (list F)) : option (list F * list (list F)) :=
  match rest with
  | [] => None
  | r :: rs => if speqb K (nth k r 0) 0 then ip_find_pivot k rs (r :: acc) else Some (r, rev_append acc rs)
  end.
(** forward elimination of the augmented rows [A | B]; [steps] columns remain; the result lists the
    normalised pivot rows of columns k-1, ..., 0 (last pivot first) *)
Fixpoint ip_fwd (steps k : nat) (done_rev rest : list (list F)) : option (list (list F)) :=
  match steps with
  | O => Some done_rev
  | S st =>
    match ip_find_pivot k rest [] with
    | None => None
    | Some (p, others) =>
      let pv := nth k p 0 in
      let pn := map (fun a => a / pv) p in
      ip_fwd st (S k) (pn :: done_rev) (map (ip_elim k pn) others)
    end
  end.
(** acc - sum_j us[j] * sol[j] *)
Fixpoint ip_sub_comb (acc us : list F) (sol : list (list F)) : list F :=
  match us, sol with
  | u :: us', x :: sol' => ip_sub_comb (if speqb K u 0 then acc else ip_axpy u x acc) us' sol'
  | _, _ => acc
  end.
(** back substitution: [rows_rev] = pivot rows of columns k1-1, ..., 0; [sol] = rows k1 .. n-1 of X *)
Fixpoint ip_back (n k1 : nat) (rows_rev sol : list (list F)) : list (list F) :=
  match rows_rev with
  | [] => sol
  | r :: rs => ip_back n (k1 - 1) rs (ip_sub_comb (skipn n r) (skipn k1 (firstn n r)) sol :: sol)
  end.

Definition ip_mat_eqb (nr nc : nat) (f g : nat -> nat -> F) : bool :=
  forallb (fun i => forallb (fun j => speqb K (f i j) (g i j)) (seq 0 nc)) (seq 0 nr).

Definition ip_mul (n : nat) (A B : list (list F)) (i j : nat) : F :=
  ip_sum n (fun k => ip_mget A i k * ip_mget B k j).

(** A : n x n, B : n x m.  Result X : n x m with  A.X = B  (checked). *)
Definition ip_lin_solve (n m : nat) (A B : list (list F)) : sp_res (list (list F)) :=
  if ip_shape_ok n n A && ip_shape_ok n m B then
    let aug := map (fun i => nth i A [] ++ nth i B []) (seq 0 n) in
    match ip_fwd n 0 [] aug with
    | None => SpDivErr
    | Some rows_rev =>
      let X := ip_tab n m (ip_mget (ip_back n n rows_rev [])) in
      if ip_mat_eqb n m (ip_mul n A X) (ip_mget B) then SpOk X else SpDivErr
    end
  else SpIndexErr.

(** certificate of non-singularity: a two-sided inverse (checked, wherever it comes from) *)
Definition ip_inverse_ok (n : nat) (A Ainv : list (list F)) : bool :=
  ip_shape_ok n n A && ip_shape_ok n n Ainv
  && ip_mat_eqb n n (ip_mul n Ainv A) ip_delta && ip_mat_eqb n n (ip_mul n A Ainv) ip_delta.
(** the inverse computed by the solver itself *)
Definition ip_inverse (n : nat) (A : list (list F)) : sp_res (list (list F)) :=
  sp_bind (ip_lin_solve n n A (ip_tab n n ip_delta)) (fun X =>
  if ip_inverse_ok n A X then SpOk X else SpDivErr).

(* ------------------------------------------------------------------------------------------ *)
(** * the spline space as BSplines.__init__ sees it *)

(** ncells = len(knots)-2*degree-1; for a uniform cubic space knots = [xmin, xmax, dx, ncells] *)
Definition ip_ncells (knots : list F) (degree : nat) (cubic : bool) : nat :=
  if cubic then Z.to_nat (sptrunc K (nth 3 knots 0)) else (length knots - 2 * degree - 1)%nat.
Definition ip_nbasis (knots : list F) (degree : nat) (periodic cubic : bool) : nat :=
  if periodic then ip_ncells knots degree cubic else (ip_ncells knots degree cubic + degree)%nat.
(** len(Spline1D.coeffs) *)
Definition ip_ncoeffs (knots : list F) (degree : nat) (cubic : bool) : nat :=
  (ip_ncells knots degree cubic + degree)%nat.

Definition ip_space_ok (knots : list F) (degree : nat) (periodic cubic : bool) : bool :=
  (1 <=? degree)%nat && (1 <=? ip_ncells knots degree cubic)%nat
  && (if cubic then (degree =? 3)%nat && (4 <=? length knots)%nat else (2 * degree + 2 <=? length knots)%nat)
  && (if periodic then (degree <=? ip_ncells knots degree cubic)%nat else true).   (* make_knots: len(breaks) > degree *)

(** span and basis values at one point: nu_find_span + nu_basis_funs, or cu_find_span + cu_basis_funs *)
Definition ip_span_basis (knots : list F) (degree : nat) (cubic : bool) (x : F) : sp_res (nat * list F) :=
  if cubic then
    sp_bind (sp_cu_unpack F K knots) (fun k => let '(xmin, xmax, dx, nc) := k in
    sp_bind (sp_cu_find_span F K xmin xmax dx x nc) (fun so =>
    sp_bind (sp_span_nat (fst so)) (fun s => SpOk (s, sp_cu_basis_funs F K (snd so)))))
  else
    sp_bind (sp_nu_find_span F K knots degree x) (fun s =>
    sp_bind (sp_nu_basis_funs F K knots degree x s) (fun b => SpOk (s, b))).

(** Spline1D.eval(x) for a scalar x, der = 0 *)
Definition ip_eval1d (knots : list F) (degree : nat) (cubic : bool) (coeffs : list F) (x : F) : sp_res F :=
  if cubic then sp_cu_eval_1d_scalar F K x knots degree coeffs 0
  else sp_nu_eval_1d_scalar F K x knots degree coeffs 0.
(** Spline2D.eval(x, y) for scalars *)
Definition ip_eval2d (k1 : list F) (d1 : nat) (k2 : list F) (d2 : nat) (cubic : bool)
  (coeffs : list (list F)) (x y : F) : sp_res F :=
  if cubic then sp_cu_eval_2d_scalar F K x y k1 d1 k2 d2 coeffs 0 0
  else sp_nu_eval_2d_scalar F K x y k1 d1 k2 d2 coeffs 0 0.

(* ------------------------------------------------------------------------------------------ *)
(** * collocation_matrix *)

(** js(span)[j] *)
Definition ip_col (nb degree span : nat) (periodic : bool) (j : nat) : nat :=
  if periodic then ((span - degree + j) mod nb)%nat else (span - degree + j)%nat.

(** np.add.at(mat[i], js(span), basis) on a row of zeros, gather form: column k receives the sum of the
    basis values b_j whose column idx j is k (unbuffered accumulation: repeated columns add up) *)
Definition ip_row_acc (idx : nat -> nat) (b : nat -> F) (p : nat) (k : nat) : F :=
  ip_sum (S p) (fun j => if (idx j =? k)%nat then b j else 0).

Definition ip_row_of (nb degree span : nat) (periodic : bool) (basis : list F) : list F :=
  ip_vtab nb (ip_row_acc (ip_col nb degree span periodic) (fun j => nth j basis 0) degree).

Definition ip_colloc_row (nb : nat) (knots : list F) (degree : nat) (periodic cubic : bool) (x : F)
  : sp_res (list F) :=
  sp_bind (ip_span_basis knots degree cubic x) (fun sb =>
    let s := fst sb in
    if (degree <=? s)%nat && (periodic || (s <? nb)%nat) && (1 <=? nb)%nat
    then SpOk (ip_row_of nb degree s periodic (snd sb))
    else SpIndexErr).      (* the slice span-p:span+1 does not have p+1 columns *)

Definition ip_colloc (nb : nat) (knots : list F) (degree : nat) (periodic cubic : bool) (xs : list F)
  : sp_res (list (list F)) :=
  sp_mapM (ip_colloc_row nb knots degree periodic cubic) xs.

(* ------------------------------------------------------------------------------------------ *)
(** * SplineInterpolator1D.compute_interpolant *)

(** c[0:n] = solve;  c[n:n+p] = c[0:p] *)
Definition ip_coeffs (degree : nat) (periodic : bool) (sol : list F) : list F :=
  if periodic then sol ++ firstn degree sol else sol.

(** the same interpolator applied to several data vectors (one factorisation, several solves) *)
Definition ip_interp_many (knots : list F) (degree : nat) (periodic cubic : bool) (xs : list F)
  (us : list (list F)) : sp_res (list (list F)) :=
  let nb := ip_nbasis knots degree periodic cubic in
  if ip_space_ok knots degree periodic cubic && (length xs =? nb)%nat
     && forallb (fun u => (length u =? nb)%nat) us then
    sp_bind (ip_colloc nb knots degree periodic cubic xs) (fun A =>
    let m := length us in
    sp_bind (ip_lin_solve nb m A (ip_tab nb m (fun i r => nth i (nth r us []) 0))) (fun AX =>
    SpOk (map (fun r => ip_coeffs degree periodic (ip_vtab nb (fun i => ip_mget AX i r))) (seq 0 m))))
  else SpArgErr.

Definition ip_interp1d (knots : list F) (degree : nat) (periodic cubic : bool) (xs u : list F)
  : sp_res (list F) :=
  sp_bind (ip_interp_many knots degree periodic cubic xs [u]) (fun cs => SpOk (nth 0%nat cs [])).

(* ------------------------------------------------------------------------------------------ *)
(** * SplineInterpolator2D.compute_interpolant

    w[i1, :] = interp2(ug[i1, :]) for i1 < n1;  wt = w^T;  wt[i2, :] = interp1(wt[i2, :n1]) for i2 < n2;
    wt[n2:n2+p2, :] = wt[:p2, :] (x2 periodic);  w = wt^T;  w[n1:n1+p1, :] = w[:p1, :] (x1 periodic).
    Rows n1.. of w before the first transpose (x1 periodic) hold stale values in the code; they only reach
    columns n1.. of wt, which are overwritten before they are read: the model does not carry them. *)
Definition ip_interp2d (k1 : list F) (d1 : nat) (per1 : bool) (xs1 : list F)
                       (k2 : list F) (d2 : nat) (per2 : bool) (xs2 : list F)
                       (cubic : bool) (ug : list (list F)) : sp_res (list (list F)) :=
  let n1 := ip_nbasis k1 d1 per1 cubic in
  let n2 := ip_nbasis k2 d2 per2 cubic in
  let l1 := ip_ncoeffs k1 d1 cubic in
  let l2 := ip_ncoeffs k2 d2 cubic in
  if (length ug =? n1)%nat then
    sp_bind (ip_interp_many k2 d2 per2 cubic xs2 ug) (fun W =>
    let Wt := ip_transpose n1 l2 W in
    sp_bind (ip_interp_many k1 d1 per1 cubic xs1 (firstn n2 Wt)) (fun V =>
    let Vw := if per2 then V ++ firstn d2 V else V in
    let w := ip_transpose l2 l1 Vw in
    SpOk (if per1 then firstn n1 w ++ firstn d1 w else w)))
  else SpArgErr.

(* ------------------------------------------------------------------------------------------ *)
(** * BSplines._build_integrals *)

Definition ip_max (a b : F) : F := if spleb K b a then a else b.     (* max(a, b) *)
Definition ip_min (a b : F) : F := if spleb K a b then a else b.     (* min(a, b) *)

(** values[z:] with Python's meaning of a negative start *)
Definition ip_slice_from (z : Z) (l : list F) : list F :=
  if (0 <=? z)%Z then skipn (Z.to_nat z) l
  else skipn (length l - Z.to_nat (- z)) l.
Definition ip_lsum (l : list F) : F := fold_left (fun a b => a + b) l 0.   (* np.sum / sum *)

(** sum(values[min_idx:]) of the degree d+1 basis at x on the extended knots, min_idx = i+1-(span-(d+1)) *)
Definition ip_cum (kx : list F) (d i : nat) (x : F) : sp_res F :=
  sp_bind (sp_nu_find_span F K kx (S d) x) (fun span =>
  sp_bind (sp_nu_basis_funs F K kx (S d) x span) (fun values =>
  SpOk (ip_lsum (ip_slice_from (Z.of_nat i + 1 - (Z.of_nat span - Z.of_nat (S d)))%Z values)))).

Definition ip_integral_general (knots kx : list F) (d i : nat) : sp_res F :=
  let lo := sp_kn F K knots d in                                    (* breaks[0] *)
  let hi := sp_kn F K knots (length knots - 1 - d) in               (* breaks[-1] *)
  if (d + 2 + i <? length kx)%nat then
    let lbound := ip_max lo (sp_kn F K kx (i + 1)) in
    let ubound := ip_min hi (sp_kn F K kx (d + 2 + i)) in
    sp_bind (ip_cum kx d i lbound) (fun l =>
    sp_bind (ip_cum kx d i ubound) (fun u =>
    SpOk ((sp_kn F K kx (d + 2 + i) - sp_kn F K kx (i + 1)) * (1 / sp_ofnat F K (S d)) * (u - l))))
  else SpIndexErr.

Fixpoint ip_set (k : nat) (v : F) (l : list F) : list F :=
  match l, k with
  | [], _ => []
  | _ :: r, O => v :: r
  | a :: r, S k' => a :: ip_set k' v r
  end.

(** l[k] -= v *)
Definition ip_sub_at (k : nat) (v : F) (l : list F) : list F := ip_set k (nth k l 0 - v) l.

(** the 12 knots linspace(xmin, xmin+11 dx, 12) *)
Definition ip_knots12 (xmin dx : F) : list F := map (fun k => xmin + sp_ofnat F K k * dx) (seq 0 12).

Definition ip_integrals (knots : list F) (degree : nat) (periodic cubic : bool) : sp_res (list F) :=
  let nc := ip_ncells knots degree cubic in
  let n := ip_nbasis knots degree periodic cubic in
  let d := degree in
  if negb (ip_space_ok knots degree periodic cubic) then SpArgErr else
  if cubic then
    sp_bind (sp_cu_unpack F K knots) (fun k => let '(xmin, xmax, dx, _) := k in
    if periodic then SpOk (repeat dx n ++ repeat 0 d)            (* integrals[:] = dx; integrals[n:] = 0 *)
    else
      let k12 := ip_knots12 xmin dx in
      let test_pt := xmin + sp_ofnat F K 4 * dx in
      sp_bind (sp_nu_find_span F K k12 4 test_pt) (fun span =>
      sp_bind (sp_nu_basis_funs F K k12 4 test_pt span) (fun values =>
      (* integrals[:] = dx; then for i = 0, 1, 2 in this order: step = dx*sum(values[:3-i]);
         integrals[i] -= step; integrals[-i-1] -= step  (the part of the spline outside the domain is removed at each end;
         with fewer than 3 cells both cuts hit the same entry - repair 974ae9f) *)
      let step i := dx * ip_lsum (firstn (3 - i) values) in
      let len := (nc + d)%nat in
      let w i l := ip_sub_at (len - 1 - i) (step i) (ip_sub_at i (step i) l) in
      SpOk (w 2%nat (w 1%nat (w 0%nat (repeat dx len)))))))
  else
    let kx := sp_kn F K knots 0 :: knots ++ [last knots 0] in
    (* for i in range(self.ncells + d): every unwrapped piece by the same formula (no mirroring) *)
    sp_mapM (ip_integral_general knots kx d) (seq 0 (nc + d)).

(* ------------------------------------------------------------------------------------------ *)
(** * SplineInterpolator1D.get_quadrature_coefficients *)

(** the right-hand side of the transposed solve: integrals (clamped) or
    basis_quads = integrals[:n]; basis_quads[:p] += integrals[n:] (periodic) *)
Definition ip_quad_rhs (n degree : nat) (periodic : bool) (I : list F) : list F :=
  if periodic then ip_vtab n (fun j => if (j <? degree)%nat then nth j I 0 + nth (n + j) I 0 else nth j I 0)
  else ip_vtab n (fun j => nth j I 0).

Definition ip_quad_from (knots : list F) (degree : nat) (periodic cubic : bool) (xs I : list F)
  : sp_res (list F) :=
  let nb := ip_nbasis knots degree periodic cubic in
  if ip_space_ok knots degree periodic cubic && (length xs =? nb)%nat
     && (length I =? ip_ncoeffs knots degree cubic)%nat then
    sp_bind (ip_colloc nb knots degree periodic cubic xs) (fun A =>
    sp_bind (ip_lin_solve nb 1 (ip_transpose nb nb A)
               (ip_tab nb 1 (fun j _ => nth j (ip_quad_rhs nb degree periodic I) 0))) (fun AX =>
    SpOk (ip_vtab nb (fun i => ip_mget AX i 0))))
  else SpArgErr.

Definition ip_quadrature (knots : list F) (degree : nat) (periodic cubic : bool) (xs : list F)
  : sp_res (list F) :=
  sp_bind (ip_integrals knots degree periodic cubic) (ip_quad_from knots degree periodic cubic xs).

End IpModel.
