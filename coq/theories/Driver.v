(** C18 — the time loop of fullSimulation.py as a state machine.

    Time is counted in steps: the driver's [t] is [k * dt] and [ti = t // dt = k] ([ck_ti_of_time]).
    The physics of one loop iteration is an abstract function [step : F -> F] of the global field, the
    diagnostics of a field an abstract [diag : F -> D] (phi is a function of f), the wall-clock test
    [timeForLoop] an arbitrary oracle (a list of booleans, one per completed iteration).

    State = (ti, field, nLoops, startPrint, the [saveStep] slots of the DiagnosticCollector,
             checkpoint files written, lines appended to phiDat.txt).
    A slot that was never collected in this process prints as a zero row: [None].

    The slots of the collector are a numpy array of [saveStep] columns; they are modelled as a function
    of the column index.  Every index used by the driver is below [saveStep] ([k mod S], [range(.., min(S, ..))],
    [range(ti mod S)]), so no access is out of range. *)
From Coq Require Import List Arith Lia PeanoNat Bool Permutation.
Import ListNotations.

Section Driver.
Variables F D : Type.
Variable step : F -> F.
Variable diag : F -> D.
Variable S : nat.                      (* saveStep >= 1 *)

Definition ck_line : Type := option (nat * D).

Record ck_st : Type := ck_mk {
  ck_ti : nat;                          (* ti *)
  ck_fld : F;                           (* distribFunc (global field) *)
  ck_nloops : nat;                      (* nLoops *)
  ck_sp : nat;                          (* startPrint *)
  ck_slots : nat -> ck_line;            (* diagnostics.diagnostics[:, i] *)
  ck_files : list (nat * F);            (* writeH5Dataset calls, in order: (time index, field) *)
  ck_lines : list ck_line               (* lines appended to phiDat.txt, in order *)
}.

(** diagnostics.collect(f, phi, t): idx = (t // dt) mod saveStep *)
Definition ck_collect (k : nat) (f : F) (sl : nat -> ck_line) : nat -> ck_line :=
  fun i => if i =? k mod S then Some (k, diag f) else sl i.

(** for i in range(a, b): print(getLine(i)) *)
Definition ck_print (sl : nat -> ck_line) (a b : nat) : list ck_line := map sl (seq a (b - a)).

(** one iteration of the while loop *)
Definition ck_iter (st : ck_st) : ck_st :=
  let ti := ck_ti st in
  let f' := step (ck_fld st) in
  let k := ti + 1 in
  let sl := ck_collect k f' (ck_slots st) in
  if ti mod S =? S - 1                                  (* ti % saveStep == saveStepCut *)
  then ck_mk k f' (ck_nloops st + 1) 0 sl
             (ck_files st ++ [(k, f')])
             (ck_lines st ++ ck_print sl (ck_sp st) (Nat.min S (ti + 1)))
  else ck_mk k f' (ck_nloops st + 1) (ck_sp st) sl (ck_files st) (ck_lines st).

(** after the loop: if ti % saveStep != 0: for i in range(1, ti % saveStep + 1)  (repaired in f107601;
    the original range(ti % saveStep) repeated the row of the last save and dropped the final one) *)
Definition ck_final (st : ck_st) : ck_st :=
  if ck_ti st mod S =? 0 then st
  else ck_mk (ck_ti st) (ck_fld st) (ck_nloops st) (ck_sp st) (ck_slots st)
             (ck_files st ++ [(ck_ti st, ck_fld st)])
             (ck_lines st ++ ck_print (ck_slots st) 1 (ck_ti st mod S + 1)).

(** while ti < tN and timeForLoop: n = tN - ti iterations at most; [orc] = successive values of the
    wall-clock test ([] = never stops) *)
Fixpoint ck_loop (n : nat) (orc : list bool) (st : ck_st) : ck_st :=
  match n with
  | 0 => st
  | Datatypes.S n' =>
      let st1 := ck_iter st in
      match orc with
      | false :: _ => st1
      | true :: o => ck_loop n' o st1
      | [] => ck_loop n' [] st1
      end
  end.

Definition ck_run (tN : nat) (orc : list bool) (st : ck_st) : ck_st :=
  ck_final (ck_loop (tN - ck_ti st) orc st).

(** a new simulation: t = 0, collect, save grid_000000, print line 0;  startPrint = max(0, 0 % saveStep) *)
Definition ck_fresh (f0 : F) : ck_st :=
  let sl := ck_collect 0 f0 (fun _ => None) in
  ck_mk 0 f0 0 0 sl [(0, f0)] [sl 0].

(** a restart from the checkpoint (k, f): ti = t // dt, collect, nothing saved or printed;
    startPrint = max(0, ti % saveStep) *)
Definition ck_resume (k : nat) (f : F) : ck_st :=
  ck_mk k f 0 (k mod S) (ck_collect k f (fun _ => None)) [] [].

(** the checkpoint picked by setupFromFile: the largest time (numeric reading; see FileNames.v for the
    lexicographic [max] of the file names) *)
Fixpoint ck_latest (fs : list (nat * F)) : option (nat * F) :=
  match fs with
  | [] => None
  | (k, f) :: r =>
      match ck_latest r with
      | Some (k', f') => if k <? k' then Some (k', f') else Some (k, f)
      | None => Some (k, f)
      end
  end.

Definition ck_restart (folder : list (nat * F)) : option ck_st :=
  match ck_latest folder with Some (k, f) => Some (ck_resume k f) | None => None end.

(** ** the loop runs a number of iterations that depends on the bound and the oracle only *)
Fixpoint ck_steps (j : nat) (st : ck_st) : ck_st :=
  match j with 0 => st | Datatypes.S j' => ck_steps j' (ck_iter st) end.

Fixpoint ck_count (n : nat) (orc : list bool) : nat :=
  match n with
  | 0 => 0
  | Datatypes.S n' =>
      match orc with
      | false :: _ => 1
      | true :: o => Datatypes.S (ck_count n' o)
      | [] => Datatypes.S (ck_count n' [])
      end
  end.

Lemma ck_loop_steps n : forall orc st, ck_loop n orc st = ck_steps (ck_count n orc) st.
Proof.
  induction n as [|n IH]; intros orc st; cbn [ck_loop ck_count]; [reflexivity|].
  destruct orc as [|[|] o]; cbn [ck_steps]; try apply IH. reflexivity.
Qed.

Lemma ck_count_le n : forall orc, ck_count n orc <= n.
Proof.
  induction n as [|n IH]; intros orc; cbn [ck_count]; [lia|].
  destruct orc as [|[|] o]; try (specialize (IH o)); try (specialize (IH [])); lia.
Qed.

Lemma ck_count_nil n : ck_count n [] = n.
Proof. induction n as [|n IH]; cbn [ck_count]; [reflexivity|]. rewrite IH. reflexivity. Qed.

(** every stop point 1 <= N <= n is reached by some oracle (N = n: by the empty one) *)
Lemma ck_count_stop n N : 1 <= N <= n -> ck_count n (repeat true (N - 1) ++ [false]) = N.
Proof.
  revert N. induction n as [|n IH]; intros N H; [lia|].
  destruct N as [|[|N]]; [lia| |].
  - reflexivity.
  - cbn [Nat.sub repeat app ck_count]. replace (N - 0) with N by lia.
    specialize (IH (Datatypes.S N) ltac:(lia)). cbn [Nat.sub] in IH. replace (N - 0) with N in IH by lia.
    rewrite IH. reflexivity.
Qed.

Lemma ck_steps_add a : forall b st, ck_steps (a + b) st = ck_steps b (ck_steps a st).
Proof. induction a as [|a IH]; intros b st; cbn [Nat.add ck_steps]; [reflexivity|]. apply IH. Qed.

Fixpoint ck_pow (j : nat) (f : F) : F :=
  match j with 0 => f | Datatypes.S j' => ck_pow j' (step f) end.

Lemma ck_pow_add a : forall b f, ck_pow (a + b) f = ck_pow b (ck_pow a f).
Proof. induction a as [|a IH]; intros b f; cbn [Nat.add ck_pow]; [reflexivity|]. apply IH. Qed.

Lemma ck_iter_ti st : ck_ti (ck_iter st) = ck_ti st + 1.
Proof. unfold ck_iter. destruct (_ =? _); reflexivity. Qed.
Lemma ck_iter_fld st : ck_fld (ck_iter st) = step (ck_fld st).
Proof. unfold ck_iter. destruct (_ =? _); reflexivity. Qed.

Lemma ck_steps_ti j : forall st, ck_ti (ck_steps j st) = ck_ti st + j.
Proof.
  induction j as [|j IH]; intros st; cbn [ck_steps]; [lia|]. rewrite IH, ck_iter_ti. lia.
Qed.
Lemma ck_steps_fld j : forall st, ck_fld (ck_steps j st) = ck_pow j (ck_fld st).
Proof.
  induction j as [|j IH]; intros st; cbn [ck_steps ck_pow]; [reflexivity|]. rewrite IH, ck_iter_fld. reflexivity.
Qed.

Lemma ck_final_ti st : ck_ti (ck_final st) = ck_ti st.
Proof. unfold ck_final. destruct (_ =? _); reflexivity. Qed.
Lemma ck_final_fld st : ck_fld (ck_final st) = ck_fld st.
Proof. unfold ck_final. destruct (_ =? _); reflexivity. Qed.

(** ** checkpoints written depend on (ti, field) only *)
Fixpoint ck_saves (a j : nat) (f : F) : list (nat * F) :=
  match j with
  | 0 => []
  | Datatypes.S j' =>
      let f' := step f in
      (if a mod S =? S - 1 then [(a + 1, f')] else []) ++ ck_saves (a + 1) j' f'
  end.

Definition ck_final_save (a : nat) (f : F) : list (nat * F) :=
  if a mod S =? 0 then [] else [(a, f)].

Lemma ck_steps_files j : forall st,
  ck_files (ck_steps j st) = ck_files st ++ ck_saves (ck_ti st) j (ck_fld st).
Proof.
  induction j as [|j IH]; intros st; cbn [ck_steps ck_saves]; [rewrite app_nil_r; reflexivity|].
  rewrite IH, ck_iter_ti, ck_iter_fld. unfold ck_iter at 1.
  destruct (ck_ti st mod S =? S - 1); cbn [ck_files]; rewrite <- ?app_assoc; reflexivity.
Qed.

Lemma ck_final_files st :
  ck_files (ck_final st) = ck_files st ++ ck_final_save (ck_ti st) (ck_fld st).
Proof.
  unfold ck_final, ck_final_save. destruct (_ =? _); cbn [ck_files]; [rewrite app_nil_r|]; reflexivity.
Qed.

Lemma ck_saves_add a : forall b t f,
  ck_saves t (a + b) f = ck_saves t a f ++ ck_saves (t + a) b (ck_pow a f).
Proof.
  induction a as [|a IH]; intros b t f; cbn [Nat.add ck_saves ck_pow].
  - rewrite Nat.add_0_r. reflexivity.
  - rewrite IH. rewrite <- app_assoc. replace (t + 1 + a) with (t + Datatypes.S a) by lia. reflexivity.
Qed.

Hypothesis HS : 0 < S.

Lemma ck_mod_cut a : a mod S = S - 1 <-> (a + 1) mod S = 0.
Proof.
  pose proof (Nat.div_mod a S ltac:(lia)) as E1.
  pose proof (Nat.mod_upper_bound a S ltac:(lia)) as U1.
  split; intros H.
  - apply Nat.mod_divide; [lia|]. exists (a / S + 1). lia.
  - apply Nat.mod_divide in H; [|lia]. destruct H as [q Hq].
    destruct (Nat.eq_dec (a mod S) (S - 1)) as [E|NE]; [exact E|exfalso].
    assert (Hlt : a mod S + 1 < S) by lia.
    assert (E2 : a + 1 = S * (a / S) + (a mod S + 1)) by lia.
    assert (E3 : (a + 1) mod S = a mod S + 1).
    { symmetry. apply (Nat.mod_unique (a + 1) S (a / S)); [exact Hlt|exact E2]. }
    assert (E4 : (a + 1) mod S = 0) by (rewrite Hq; apply Nat.mod_mul; lia).
    lia.
Qed.

(** which checkpoints the loop writes: exactly the multiples of saveStep in (a, a+j], with the field
    of that time *)
Lemma ck_saves_spec j : forall a f k g,
  In (k, g) (ck_saves a j f) <-> (a < k <= a + j /\ k mod S = 0 /\ g = ck_pow (k - a) f).
Proof.
  induction j as [|j IH]; intros a f k g; cbn [ck_saves].
  - split; [intros []|lia].
  - rewrite in_app_iff, IH. split.
    + intros [H|[H1 [H2 H3]]].
      * destruct (Nat.eqb_spec (a mod S) (S - 1)) as [E|E]; [|destruct H].
        destruct H as [H|[]]. inversion H; subst. apply ck_mod_cut in E.
        repeat split; try lia. replace (a + 1 - a) with 1 by lia. reflexivity.
      * repeat split; try lia. subst g.
        replace (k - a) with (Datatypes.S (k - (a + 1))) by lia. reflexivity.
    + intros [H1 [H2 H3]]. destruct (Nat.eq_dec k (a + 1)) as [->|NE].
      * left. apply ck_mod_cut in H2. rewrite (proj2 (Nat.eqb_eq _ _) H2). left.
        subst g. replace (a + 1 - a) with 1 by lia. reflexivity.
      * right. repeat split; try lia. subst g.
        replace (k - a) with (Datatypes.S (k - (a + 1))) by lia. reflexivity.
Qed.

(** ** the run of a new simulation: where it ends and what it has written *)
Definition ck_stop (tN : nat) (orc : list bool) (a : nat) : nat := a + ck_count (tN - a) orc.

Lemma ck_run_unfold tN orc st :
  ck_run tN orc st = ck_final (ck_steps (ck_count (tN - ck_ti st) orc) st).
Proof. unfold ck_run. rewrite ck_loop_steps. reflexivity. Qed.

Theorem ck_run_state tN orc st :
  ck_ti (ck_run tN orc st) = ck_stop tN orc (ck_ti st) /\
  ck_fld (ck_run tN orc st) = ck_pow (ck_count (tN - ck_ti st) orc) (ck_fld st).
Proof.
  rewrite ck_run_unfold, ck_final_ti, ck_final_fld, ck_steps_ti, ck_steps_fld. split; reflexivity.
Qed.

Theorem ck_run_files tN orc st :
  let j := ck_count (tN - ck_ti st) orc in
  ck_files (ck_run tN orc st) =
  ck_files st ++ ck_saves (ck_ti st) j (ck_fld st) ++ ck_final_save (ck_ti st + j) (ck_pow j (ck_fld st)).
Proof.
  cbv zeta. rewrite ck_run_unfold, ck_final_files, ck_steps_files, ck_steps_ti, ck_steps_fld.
  rewrite <- app_assoc. reflexivity.
Qed.

(** every checkpoint of a new simulation holds the field of its time; the times are 0, the multiples of
    saveStep up to the end N, and N itself *)
Theorem ck_fresh_files_spec tN orc f0 k g :
  let N := ck_count tN orc in
  In (k, g) (ck_files (ck_run tN orc (ck_fresh f0))) <->
  (g = ck_pow k f0 /\ k <= N /\ (k mod S = 0 \/ k = N)).
Proof.
  cbv zeta. rewrite ck_run_files. cbn [ck_fresh ck_ti ck_fld ck_files]. rewrite Nat.sub_0_r, Nat.add_0_l.
  set (N := ck_count tN orc). rewrite !in_app_iff, ck_saves_spec. unfold ck_final_save.
  cbn [In]. split.
  - intros [[H|[]]|[[H1 [H2 H3]]|H]].
    + inversion H; subst. repeat split; [lia|left; apply Nat.mod_0_l; lia].
    + rewrite Nat.sub_0_r in H3. repeat split; [exact H3|lia|left; exact H2].
    + destruct (N mod S =? 0); [destruct H|]. destruct H as [H|[]]. inversion H; subst.
      repeat split; [lia|right; reflexivity].
  - intros [Hg [Hk Hm]]. subst g. destruct (Nat.eq_dec k 0) as [->|NZ]; [left; left; reflexivity|].
    right. destruct (Nat.eq_dec (k mod S) 0) as [E|NE].
    + left. rewrite Nat.sub_0_r. repeat split; [lia|lia|exact E].
    + right. destruct Hm as [Hm| ->]; [contradiction|].
      rewrite (proj2 (Nat.eqb_neq _ _) NE). left. reflexivity.
Qed.

(** ** the checkpoint the restart loads *)
Lemma ck_latest_in fs : forall k f, ck_latest fs = Some (k, f) ->
  In (k, f) fs /\ forall k' f', In (k', f') fs -> k' <= k.
Proof.
  induction fs as [|[k0 f0] r IH]; intros k f H; cbn [ck_latest] in H; [discriminate|].
  destruct (ck_latest r) as [[k1 f1]|] eqn:E.
  - destruct (IH k1 f1 eq_refl) as [I1 I2].
    destruct (Nat.ltb_spec k0 k1) as [L|L]; inversion H; subst.
    + split; [right; exact I1|]. intros k' f' [X|X]; [inversion X; subst; lia|eapply I2; exact X].
    + split; [left; reflexivity|]. intros k' f' [X|X]; [inversion X; subst; lia|].
      specialize (I2 k' f' X). lia.
  - inversion H; subst. destruct r as [|[k2 f2] r].
    + split; [left; reflexivity|]. intros k' f' [X|[]]. inversion X; subst. lia.
    + cbn [ck_latest] in E. destruct (ck_latest r) as [[? ?]|]; [destruct (_ <? _)|]; discriminate.
Qed.

Lemma ck_latest_some fs : fs <> [] -> exists k f, ck_latest fs = Some (k, f).
Proof.
  destruct fs as [|[k0 f0] r]; [congruence|]. intros _. cbn [ck_latest].
  destruct (ck_latest r) as [[k1 f1]|]; [destruct (_ <? _)|]; eauto.
Qed.

(** the latest checkpoint of a (stopped) new simulation is its final state *)
Theorem ck_latest_is_final tN orc f0 :
  let N := ck_count tN orc in
  ck_latest (ck_files (ck_run tN orc (ck_fresh f0))) = Some (N, ck_pow N f0).
Proof.
  cbv zeta. set (N := ck_count tN orc). set (fs := ck_files _).
  assert (Hin : In (N, ck_pow N f0) fs).
  { apply ck_fresh_files_spec. repeat split; [fold N; lia|right; reflexivity]. }
  destruct (ck_latest_some fs) as [k [g E]]; [intros E; rewrite E in Hin; destruct Hin|].
  destruct (ck_latest_in fs k g E) as [I1 I2].
  apply ck_fresh_files_spec in I1. fold N in I1. destruct I1 as [-> [Hk _]].
  specialize (I2 N _ Hin). assert (k = N) by lia. subst k. exact E.
Qed.

(** ** restart: state and checkpoints *)

(** [restart_equiv], state and files.  A new simulation is stopped after N iterations (by tEnd or by
    the wall clock), restarted from its folder and stopped after j2 more.  Then the final time and field
    are those of the simulation that was never stopped, and the folder holds the same checkpoints, plus
    the one of the stop time N when N is not a multiple of saveStep. *)
Theorem ck_restart_equiv_state tN1 orc1 tN2 orc2 tNu orcu f0 :
  let N := ck_count tN1 orc1 in
  let st1 := ck_run tN1 orc1 (ck_fresh f0) in
  forall st2r, ck_restart (ck_files st1) = Some st2r ->
  let st2 := ck_run tN2 orc2 st2r in
  let stu := ck_run tNu orcu (ck_fresh f0) in
  ck_count tNu orcu = N + ck_count (tN2 - N) orc2 ->
  ck_ti st2 = ck_ti stu /\ ck_fld st2 = ck_fld stu /\
  exists A B, ck_files stu = A ++ B /\
              ck_files st1 ++ ck_files st2 = A ++ ck_final_save N (ck_pow N f0) ++ B.
Proof.
  cbv zeta. intros st2r Hr Hc. unfold ck_restart in Hr. rewrite ck_latest_is_final in Hr.
  inversion Hr; subst st2r; clear Hr.
  set (N := ck_count tN1 orc1) in *. set (j2 := ck_count (tN2 - N) orc2) in *.
  pose proof (ck_run_state tN2 orc2 (ck_resume N (ck_pow N f0))) as [T2 F2].
  pose proof (ck_run_state tNu orcu (ck_fresh f0)) as [Tu Fu].
  cbn [ck_resume ck_fresh ck_ti ck_fld] in T2, F2, Tu, Fu. unfold ck_stop in T2, Tu.
  rewrite Nat.sub_0_r in Tu, Fu. fold j2 in T2, F2. rewrite Hc in Tu, Fu.
  split; [lia|]. split; [rewrite F2, Fu, ck_pow_add; reflexivity|].
  rewrite !ck_run_files. cbn [ck_resume ck_fresh ck_ti ck_fld ck_files].
  rewrite !Nat.sub_0_r, !Nat.add_0_l. fold N. fold j2. rewrite Hc.
  rewrite ck_saves_add, ck_pow_add, Nat.add_0_l.
  exists ([(0, f0)] ++ ck_saves 0 N f0),
         (ck_saves N j2 (ck_pow N f0) ++ ck_final_save (N + j2) (ck_pow j2 (ck_pow N f0))).
  split; rewrite <- ?app_assoc; reflexivity.
Qed.

(** ** restart: diagnostic lines, when the stop time is a multiple of saveStep *)

(** two collectors agree on the slots that can be printed before they are overwritten *)
Definition ck_sim (st st' : ck_st) : Prop :=
  ck_ti st = ck_ti st' /\ ck_fld st = ck_fld st' /\ ck_sp st = ck_sp st' /\
  forall i, i <= ck_ti st mod S -> ck_slots st i = ck_slots st' i.

Lemma ck_mod_succ a : (a + 1) mod S = 0 /\ a mod S = S - 1 \/ (a + 1) mod S = a mod S + 1 /\ a mod S < S - 1.
Proof.
  pose proof (Nat.mod_upper_bound a S ltac:(lia)) as U.
  destruct (Nat.eq_dec (a mod S) (S - 1)) as [E|NE].
  - left. split; [apply ck_mod_cut; exact E|exact E].
  - right. split; [|lia]. symmetry. apply (Nat.mod_unique (a + 1) S (a / S)); [lia|].
    pose proof (Nat.div_mod a S ltac:(lia)). lia.
Qed.

Lemma ck_print_ext sl sl' a b : (forall i, a <= i < b -> sl i = sl' i) -> ck_print sl a b = ck_print sl' a b.
Proof. intros H. unfold ck_print. apply map_ext_in. intros i Hi. apply in_seq in Hi. apply H. lia. Qed.

Lemma ck_sim_iter st st' : ck_sim st st' ->
  ck_sim (ck_iter st) (ck_iter st') /\
  exists X Y, ck_files (ck_iter st) = ck_files st ++ X /\ ck_files (ck_iter st') = ck_files st' ++ X /\
              ck_lines (ck_iter st) = ck_lines st ++ Y /\ ck_lines (ck_iter st') = ck_lines st' ++ Y.
Proof.
  intros [Hti [Hf [Hsp Hsl]]].
  assert (Hcol : forall i, i <= (ck_ti st + 1) mod S \/ (ck_ti st mod S = S - 1 /\ i < S) ->
            ck_collect (ck_ti st + 1) (step (ck_fld st)) (ck_slots st) i =
            ck_collect (ck_ti st + 1) (step (ck_fld st)) (ck_slots st') i).
  { intros i Hi. unfold ck_collect.
    destruct (Nat.eqb_spec i ((ck_ti st + 1) mod S)) as [E|NE]; [reflexivity|].
    apply Hsl. destruct (ck_mod_succ (ck_ti st)) as [[M1 M2]|[M1 M2]]; lia. }
  unfold ck_iter. rewrite <- Hti, <- Hf, <- Hsp.
  destruct (Nat.eqb_spec (ck_ti st mod S) (S - 1)) as [E|NE].
  - split.
    + unfold ck_sim. cbn [ck_ti ck_fld ck_sp ck_slots]. repeat split.
      intros i Hi. apply Hcol. left. exact Hi.
    + eexists. eexists. cbn [ck_files ck_lines]. repeat split; try reflexivity.
      f_equal. apply ck_print_ext. intros i Hi. symmetry. apply Hcol. right. split; [exact E|lia].
  - split.
    + unfold ck_sim. cbn [ck_ti ck_fld ck_sp ck_slots]. repeat split.
      intros i Hi. apply Hcol. left. exact Hi.
    + exists [], []. cbn [ck_files ck_lines]. rewrite !app_nil_r. repeat split; reflexivity.
Qed.

Lemma ck_sim_steps j : forall st st', ck_sim st st' ->
  ck_sim (ck_steps j st) (ck_steps j st') /\
  exists X Y, ck_files (ck_steps j st) = ck_files st ++ X /\ ck_files (ck_steps j st') = ck_files st' ++ X /\
              ck_lines (ck_steps j st) = ck_lines st ++ Y /\ ck_lines (ck_steps j st') = ck_lines st' ++ Y.
Proof.
  induction j as [|j IH]; intros st st' H; cbn [ck_steps].
  - split; [exact H|]. exists [], []. rewrite !app_nil_r. repeat split; reflexivity.
  - destruct (ck_sim_iter st st' H) as [H1 [X1 [Y1 [A1 [A2 [A3 A4]]]]]].
    destruct (IH _ _ H1) as [H2 [X2 [Y2 [B1 [B2 [B3 B4]]]]]].
    split; [exact H2|]. exists (X1 ++ X2), (Y1 ++ Y2).
    rewrite B1, B2, B3, B4, A1, A2, A3, A4, !app_assoc. repeat split; reflexivity.
Qed.

Lemma ck_sim_final st st' : ck_sim st st' ->
  exists X Y, ck_files (ck_final st) = ck_files st ++ X /\ ck_files (ck_final st') = ck_files st' ++ X /\
              ck_lines (ck_final st) = ck_lines st ++ Y /\ ck_lines (ck_final st') = ck_lines st' ++ Y.
Proof.
  intros [Hti [Hf [Hsp Hsl]]]. unfold ck_final. rewrite <- Hti, <- Hf.
  destruct (ck_ti st mod S =? 0).
  - exists [], []. rewrite !app_nil_r. repeat split; reflexivity.
  - eexists. eexists. cbn [ck_files ck_lines]. repeat split; try reflexivity.
    f_equal. apply ck_print_ext. intros i Hi. symmetry. apply Hsl. lia.
Qed.

(** invariants of every run *)
Definition ck_last_ok (st : ck_st) : Prop :=
  ck_slots st (ck_ti st mod S) = Some (ck_ti st, diag (ck_fld st)).

Lemma ck_iter_last_ok st : ck_last_ok (ck_iter st).
Proof.
  unfold ck_last_ok. rewrite ck_iter_ti, ck_iter_fld. unfold ck_iter.
  destruct (_ =? S - 1); cbn [ck_slots]; unfold ck_collect; rewrite Nat.eqb_refl; reflexivity.
Qed.

Lemma ck_steps_last_ok j : forall st, ck_last_ok st -> ck_last_ok (ck_steps j st).
Proof.
  induction j as [|j IH]; intros st H; cbn [ck_steps]; [exact H|]. apply IH. apply ck_iter_last_ok.
Qed.

Lemma ck_steps_sp0 j : forall st, ck_sp st = 0 -> ck_sp (ck_steps j st) = 0.
Proof.
  induction j as [|j IH]; intros st H; cbn [ck_steps]; [exact H|]. apply IH.
  unfold ck_iter. destruct (_ =? _); cbn [ck_sp]; [reflexivity|exact H].
Qed.

Lemma ck_fresh_last_ok f0 : ck_last_ok (ck_fresh f0).
Proof.
  unfold ck_last_ok, ck_fresh. cbn [ck_slots ck_ti ck_fld]. unfold ck_collect.
  rewrite Nat.eqb_refl. reflexivity.
Qed.

(** [restart_equiv], lines: if the stop time N is a multiple of saveStep, phiDat.txt and the list of
    checkpoint writes of the stopped-and-restarted simulation are exactly those of the uninterrupted one *)
Theorem ck_restart_equiv_aligned tN1 orc1 tN2 orc2 tNu orcu f0 :
  let N := ck_count tN1 orc1 in
  let st1 := ck_run tN1 orc1 (ck_fresh f0) in
  N mod S = 0 ->
  forall st2r, ck_restart (ck_files st1) = Some st2r ->
  let st2 := ck_run tN2 orc2 st2r in
  let stu := ck_run tNu orcu (ck_fresh f0) in
  ck_count tNu orcu = N + ck_count (tN2 - N) orc2 ->
  ck_lines stu = ck_lines st1 ++ ck_lines st2 /\ ck_files stu = ck_files st1 ++ ck_files st2.
Proof.
  cbv zeta. intros HN st2r Hr Hc. unfold ck_restart in Hr. rewrite ck_latest_is_final in Hr.
  inversion Hr; subst st2r; clear Hr.
  set (N := ck_count tN1 orc1) in *. set (j2 := ck_count (tN2 - N) orc2) in *.
  rewrite !ck_run_unfold.
  replace (ck_ti (ck_fresh f0)) with 0 by reflexivity.
  replace (ck_ti (ck_resume N (ck_pow N f0))) with N by reflexivity.
  rewrite !Nat.sub_0_r. fold N. fold j2. rewrite Hc. rewrite ck_steps_add.
  set (sN := ck_steps N (ck_fresh f0)).
  assert (TN : ck_ti sN = N) by (unfold sN; rewrite ck_steps_ti; reflexivity).
  assert (FN : ck_fld sN = ck_pow N f0) by (unfold sN; rewrite ck_steps_fld; reflexivity).
  assert (E1 : ck_final sN = sN) by (unfold ck_final; rewrite TN, HN; reflexivity).
  assert (SP : ck_sp sN = 0) by (apply ck_steps_sp0; reflexivity).
  assert (LO : ck_last_ok sN) by (apply ck_steps_last_ok, ck_fresh_last_ok).
  assert (SIM : ck_sim sN (ck_resume N (ck_pow N f0))).
  { unfold ck_sim. cbn [ck_resume ck_ti ck_fld ck_sp ck_slots]. rewrite TN, FN, SP, HN.
    repeat split; try reflexivity. intros i Hi. assert (i = 0) by lia. subst i.
    unfold ck_last_ok in LO. rewrite TN, FN, HN in LO. rewrite LO.
    unfold ck_collect. rewrite HN. reflexivity. }
  destruct (ck_sim_steps j2 _ _ SIM) as [SIM2 [X [Y [A1 [A2 [A3 A4]]]]]].
  destruct (ck_sim_final _ _ SIM2) as [X' [Y' [B1 [B2 [B3 B4]]]]].
  rewrite E1. rewrite B1, B2, B3, B4, A1, A2, A3, A4.
  cbn [ck_resume ck_files ck_lines]. rewrite !app_nil_l, !app_assoc. split; reflexivity.
Qed.

(** ** the rows of an uninterrupted run that ends on a save step: every time once *)
Definition ck_L (f0 : F) (k : nat) : ck_line := Some (k, diag (ck_pow k f0)).

(** rows printed at the save step (w+1)*S: slot 0 holds that very time, slots 1..S-1 the times before *)
Definition ck_window (f0 : F) (w : nat) : list ck_line :=
  ck_L f0 (w * S + S) :: map (fun i => ck_L f0 (w * S + i)) (seq 1 (S - 1)).

Definition ck_rows_spec (f0 : F) (q : nat) : list ck_line := ck_L f0 0 :: flat_map (ck_window f0) (seq 0 q).

Lemma ck_steps_succ j st : ck_steps (j + 1) st = ck_iter (ck_steps j st).
Proof. rewrite ck_steps_add. reflexivity. Qed.

Lemma ck_pow_succ j f : ck_pow (j + 1) f = step (ck_pow j f).
Proof. rewrite ck_pow_add. reflexivity. Qed.

Lemma ck_mod_in_window w j : j < S -> (w * S + j) mod S = j.
Proof. intros H. rewrite Nat.add_comm, Nat.mod_add by lia. apply Nat.mod_small. exact H. Qed.

(** inside a save window nothing is written and the slots 1..j receive the times of the window *)
Lemma ck_window_prefix w st j : ck_ti st = w * S -> j <= S - 1 ->
  let st' := ck_steps j st in
  ck_files st' = ck_files st /\ ck_lines st' = ck_lines st /\ ck_sp st' = ck_sp st /\
  forall i, 1 <= i <= j -> ck_slots st' i = Some (w * S + i, diag (ck_pow i (ck_fld st))).
Proof.
  intros Hti. induction j as [|j IH]; intros Hj; cbv zeta.
  - cbn [ck_steps]. repeat split; try reflexivity. intros i Hi. lia.
  - replace (Datatypes.S j) with (j + 1) by lia. rewrite ck_steps_succ.
    destruct (IH ltac:(lia)) as [I1 [I2 [I3 I4]]].
    pose proof (ck_steps_ti j st) as T. pose proof (ck_steps_fld j st) as Fd. rewrite Hti in T.
    unfold ck_iter. rewrite T, ck_mod_in_window by lia.
    destruct (Nat.eqb_spec j (S - 1)) as [E|NE]; [lia|].
    cbn [ck_files ck_lines ck_sp ck_slots]. repeat split; try assumption.
    intros i Hi. unfold ck_collect.
    replace (w * S + j + 1) with (w * S + (j + 1)) by lia. rewrite ck_mod_in_window by lia.
    destruct (Nat.eqb_spec i (j + 1)) as [->|NE'].
    + rewrite Fd. f_equal. f_equal. f_equal. rewrite ck_pow_add. reflexivity.
    + apply I4. lia.
Qed.

(** a whole window: S iterations from a save step append one checkpoint and the rows of the window *)
Lemma ck_window_full w st f0 : ck_ti st = w * S -> ck_fld st = ck_pow (w * S) f0 -> ck_sp st = 0 ->
  let st' := ck_steps S st in
  ck_lines st' = ck_lines st ++ ck_window f0 w /\ ck_sp st' = 0 /\
  ck_ti st' = w * S + S /\ ck_fld st' = ck_pow (w * S + S) f0.
Proof.
  intros Hti Hf Hsp. cbv zeta.
  assert (E : ck_steps S st = ck_iter (ck_steps (S - 1) st)) by (rewrite <- ck_steps_succ; f_equal; lia).
  rewrite E. clear E.
  destruct (ck_window_prefix w st (S - 1) Hti ltac:(lia)) as [I1 [I2 [I3 I4]]].
  pose proof (ck_steps_ti (S - 1) st) as T. pose proof (ck_steps_fld (S - 1) st) as Fd. rewrite Hti in T.
  rewrite ck_iter_ti, ck_iter_fld, T, Fd, Hf.
  unfold ck_iter. rewrite T, ck_mod_in_window, Nat.eqb_refl by lia.
  cbn [ck_lines ck_sp]. repeat split; try lia.
  - rewrite I2, I3, Hsp. f_equal.
    replace (Nat.min S (w * S + (S - 1) + 1)) with S by lia.
    unfold ck_print. rewrite Nat.sub_0_r. unfold ck_window.
    assert (Hseq : seq 0 S = 0 :: seq 1 (S - 1)).
    { destruct S as [|s]; [lia|]. cbn [seq]. rewrite Nat.sub_succ, Nat.sub_0_r. reflexivity. }
    assert (HM : (w * S + (S - 1) + 1) mod S = 0).
    { replace (w * S + (S - 1) + 1) with (0 + (w + 1) * S) by lia. rewrite Nat.mod_add by lia. apply Nat.mod_0_l. lia. }
    rewrite Hseq. cbn [map]. f_equal.
    + unfold ck_collect. rewrite HM. cbn [Nat.eqb]. unfold ck_L. rewrite Fd, Hf. f_equal.
      apply f_equal2; [lia|]. f_equal.
      rewrite <- ck_pow_succ, <- ck_pow_add. f_equal. lia.
    + apply map_ext_in. intros i Hi. apply in_seq in Hi. unfold ck_collect. rewrite HM.
      destruct (Nat.eqb_spec i 0) as [->|_]; [lia|].
      rewrite I4 by lia. unfold ck_L. rewrite Hf, <- ck_pow_add. reflexivity.
  - rewrite <- ck_pow_succ, <- ck_pow_add. f_equal. lia.
Qed.

Theorem ck_fresh_rows_aligned q f0 :
  let st := ck_steps (q * S) (ck_fresh f0) in
  ck_lines st = ck_rows_spec f0 q /\ ck_sp st = 0 /\ ck_ti st = q * S /\ ck_fld st = ck_pow (q * S) f0.
Proof.
  induction q as [|q IH]; cbv zeta.
  - cbn [Nat.mul ck_steps ck_fresh ck_lines ck_sp ck_ti ck_fld ck_pow]. unfold ck_rows_spec. cbn [seq flat_map].
    repeat split. unfold ck_collect, ck_L. rewrite Nat.mod_0_l by lia. reflexivity.
  - destruct IH as [I1 [I2 [I3 I4]]].
    replace (Datatypes.S q * S) with (q * S + S) by lia. rewrite ck_steps_add.
    destruct (ck_window_full q _ f0 I3 I4 I2) as [W1 [W2 [W3 W4]]].
    repeat split; try assumption.
    rewrite W1, I1. unfold ck_rows_spec. rewrite seq_S, flat_map_app. cbn [flat_map Nat.add].
    rewrite app_nil_r. reflexivity.
Qed.

(** the rows of an uninterrupted run ending on a save step (T = q * saveStep) *)
Theorem ck_run_rows_aligned tN orc f0 q : ck_count tN orc = q * S ->
  ck_lines (ck_run tN orc (ck_fresh f0)) = ck_rows_spec f0 q.
Proof.
  intros Hc. rewrite ck_run_unfold. replace (ck_ti (ck_fresh f0)) with 0 by reflexivity.
  rewrite Nat.sub_0_r, Hc. destruct (ck_fresh_rows_aligned q f0) as [I1 [I2 [I3 I4]]].
  unfold ck_final. rewrite I3, Nat.mod_mul by lia. cbn [Nat.eqb]. exact I1.
Qed.

(** ... which is every time 0..T exactly once *)
Lemma ck_map_shift (g : nat -> ck_line) a n : forall b, map (fun i => g (a + i)) (seq b n) = map g (seq (a + b) n).
Proof.
  induction n as [|n IH]; intros b; cbn [seq map]; [reflexivity|].
  f_equal. rewrite IH. replace (a + Datatypes.S b) with (Datatypes.S (a + b)) by lia. reflexivity.
Qed.

Lemma ck_window_perm f0 w : Permutation (ck_window f0 w) (map (ck_L f0) (seq (w * S + 1) S)).
Proof.
  unfold ck_window. rewrite ck_map_shift.
  assert (E : seq (w * S + 1) S = seq (w * S + 1) (S - 1) ++ [w * S + S]).
  { replace S with (Datatypes.S (S - 1)) at 2 by lia. rewrite seq_S. f_equal. f_equal. lia. }
  rewrite E, map_app. cbn [map]. apply Permutation_cons_append.
Qed.

Theorem ck_rows_spec_perm f0 q : Permutation (ck_rows_spec f0 q) (map (ck_L f0) (seq 0 (q * S + 1))).
Proof.
  unfold ck_rows_spec. replace (q * S + 1) with (Datatypes.S (q * S)) by lia. cbn [seq map].
  apply perm_skip. induction q as [|q IH]; [constructor|].
  rewrite seq_S, flat_map_app. cbn [flat_map Nat.add]. rewrite app_nil_r.
  replace (Datatypes.S q * S) with (q * S + S) by lia. rewrite seq_app, map_app.
  apply Permutation_app; [exact IH|]. replace (1 + q * S) with (q * S + 1) by lia. apply ck_window_perm.
Qed.

(** ** the rows of ANY uninterrupted run: T = q * S + r with r < S *)
Definition ck_rows_spec_any (f0 : F) (T : nat) : list ck_line :=
  ck_rows_spec f0 (T / S) ++ map (ck_L f0) (seq (T / S * S + 1) (T mod S)).

Theorem ck_fresh_rows_any T f0 :
  ck_lines (ck_final (ck_steps T (ck_fresh f0))) = ck_rows_spec_any f0 T.
Proof.
  unfold ck_rows_spec_any. set (q := T / S). set (r := T mod S).
  assert (Hr : r < S) by (apply Nat.mod_upper_bound; lia).
  assert (HT : T = q * S + r) by (pose proof (Nat.div_mod T S ltac:(lia)); unfold q, r; lia).
  rewrite HT at 1. rewrite ck_steps_add.
  destruct (ck_fresh_rows_aligned q f0) as [I1 [I2 [I3 I4]]].
  set (sq := ck_steps (q * S) (ck_fresh f0)) in *.
  destruct (ck_window_prefix q sq r I3 ltac:(lia)) as [W1 [W2 [W3 W4]]].
  pose proof (ck_steps_ti r sq) as Tr. rewrite I3 in Tr.
  unfold ck_final. rewrite Tr, ck_mod_in_window by exact Hr.
  destruct (Nat.eqb_spec r 0) as [E|NE].
  - rewrite W2, I1, E. cbn [seq map]. rewrite app_nil_r. reflexivity.
  - cbn [ck_lines]. rewrite W2, I1. f_equal. unfold ck_print.
    replace (r + 1 - 1) with r by lia.
    rewrite <- (ck_map_shift (ck_L f0) (q * S) r 1).
    apply map_ext_in. intros i Hi. apply in_seq in Hi.
    rewrite W4 by lia. unfold ck_L. rewrite I4, <- ck_pow_add. reflexivity.
Qed.

Theorem ck_run_rows_any tN orc f0 :
  ck_lines (ck_run tN orc (ck_fresh f0)) = ck_rows_spec_any f0 (ck_count tN orc).
Proof.
  rewrite ck_run_unfold. replace (ck_ti (ck_fresh f0)) with 0 by reflexivity.
  rewrite Nat.sub_0_r. apply ck_fresh_rows_any.
Qed.

(** every time 0..T exactly once, wherever the run ends *)
Theorem ck_rows_spec_any_perm f0 T : Permutation (ck_rows_spec_any f0 T) (map (ck_L f0) (seq 0 (T + 1))).
Proof.
  unfold ck_rows_spec_any.
  pose proof (Nat.div_mod T S ltac:(lia)) as HT.
  replace (T + 1) with ((T / S * S + 1) + T mod S) by lia.
  rewrite seq_app, map_app. apply Permutation_app; [apply ck_rows_spec_perm|].
  replace (0 + (T / S * S + 1)) with (T / S * S + 1) by lia. apply Permutation_refl.
Qed.

(** and so does a run that was stopped at multiples of saveStep only and restarted *)
Theorem ck_restart_aligned_rows_once tN1 orc1 tN2 orc2 f0 :
  let N := ck_count tN1 orc1 in
  let st1 := ck_run tN1 orc1 (ck_fresh f0) in
  N mod S = 0 ->
  forall st2r, ck_restart (ck_files st1) = Some st2r ->
  let st2 := ck_run tN2 orc2 st2r in
  Permutation (ck_lines st1 ++ ck_lines st2) (map (ck_L f0) (seq 0 (N + ck_count (tN2 - N) orc2 + 1))).
Proof.
  cbv zeta. intros HN st2r Hr.
  set (T := ck_count tN1 orc1 + ck_count (tN2 - ck_count tN1 orc1) orc2).
  destruct (ck_restart_equiv_aligned tN1 orc1 tN2 orc2 T [] f0 HN st2r Hr) as [E _].
  { rewrite ck_count_nil. reflexivity. }
  rewrite <- E, ck_run_rows_any, ck_count_nil. apply ck_rows_spec_any_perm.
Qed.

End Driver.

(** time stamps: the driver's t is k*dt (dt a positive integer: the collector indexes an array with
    t // dt), a checkpoint is named after t, the restart computes ti = t // dt *)
Definition ck_ti_of_time (dt t : nat) : nat := t / dt.
Lemma ck_ti_roundtrip dt k : 0 < dt -> ck_ti_of_time dt (k * dt) = k.
Proof. intros H. unfold ck_ti_of_time. apply Nat.div_mul. lia. Qed.

(** ** executable instance: the field is the number of steps applied to the initial one *)
Definition ck_line_time (l : option (nat * nat)) : option nat :=
  match l with Some (k, _) => Some k | None => None end.

(** result: (ti, field tag, nLoops, times of the files written, time index of every line printed) *)
Definition ck_run_nat (S tN : nat) (start : option nat) (orc : list bool)
  : nat * nat * nat * list (nat * nat) * list (option (nat * nat)) :=
  let st0 := match start with
             | None => ck_fresh nat nat (fun x => x) S 0
             | Some k => ck_resume nat nat (fun x => x) S k k
             end in
  let st := ck_run nat nat Datatypes.S (fun x => x) S tN orc st0 in
  (ck_ti _ _ st, ck_fld _ _ st, ck_nloops _ _ st, ck_files _ _ st, ck_lines _ _ st).

(** ** what the faithful model refutes (concrete histories, F = nat, step = S; [None] = zero row) *)
Definition ck_lines_unsplit_nat (S T : nat) : list (option nat) :=
  map ck_line_time (ck_lines _ _ (ck_run nat nat Datatypes.S (fun x => x) S T [] (ck_fresh nat nat (fun x => x) S 0))).

Definition ck_lines_split_nat (S N T : nat) : list (option nat) :=
  let st1 := ck_run nat nat Datatypes.S (fun x => x) S N [] (ck_fresh nat nat (fun x => x) S 0) in
  match ck_restart nat nat (fun x => x) S (ck_files _ _ st1) with
  | Some st2r => map ck_line_time (ck_lines _ _ st1 ++ ck_lines _ _ (ck_run nat nat Datatypes.S (fun x => x) S T [] st2r))
  | None => []
  end.

(** since f107601 a new simulation that ends between two save steps prints every row once
    (saveStep 3, 7 steps); see ck_run_rows_any for the general statement *)
Example ck_final_window_example :
  ck_lines_unsplit_nat 3 7 = [Some 0; Some 3; Some 1; Some 2; Some 6; Some 4; Some 5; Some 7].
Proof. vm_compute. reflexivity. Qed.

(** restart from a stop time that is not a multiple of saveStep (saveStep 3, stop after 1 step, continue
    to 6): the row of the stop time (1) is printed twice and the row of the first save time after the
    restart (3) is never printed *)
Theorem ck_restart_lines_refuted :
  ck_lines_unsplit_nat 3 6 = [Some 0; Some 3; Some 1; Some 2; Some 6; Some 4; Some 5] /\
  ck_lines_split_nat 3 1 6 = [Some 0; Some 1; Some 1; Some 2; Some 6; Some 4; Some 5].
Proof. vm_compute. split; reflexivity. Qed.

(** ... and if the restarted run ends before the next save step, it prints the never-collected slots
    as zero rows (saveStep 4, stop after 2 steps, continue to 3) *)
Theorem ck_restart_zero_rows_refuted :
  ck_lines_unsplit_nat 4 3 = [Some 0; Some 1; Some 2; Some 3] /\
  ck_lines_split_nat 4 2 3 = [Some 0; Some 1; Some 2; None; Some 2; Some 3].
Proof. vm_compute. split; reflexivity. Qed.

Theorem ck_restart_lines_not_general :
  ~ (forall S N T, 0 < S -> N <= T -> ck_lines_split_nat S N T = ck_lines_unsplit_nat S T).
Proof.
  intros H. specialize (H 3 1 6 ltac:(lia) ltac:(lia)).
  destruct ck_restart_lines_refuted as [A B]. rewrite A, B in H. discriminate.
Qed.

(** ** a proposed repair of the restart rows (NOT the code under verification; evidence for DESIGN 9 / the report)

    startPrint becomes "the first slot of the current save window that is not yet in phiDat.txt":
      startPrint = ti % saveStep + 1            at start-up (new run: 1; restart at N: the slot after N's)
      at a save:  print slot 0 (the save time) and slots startPrint .. saveStep-1;  startPrint = 1
      at the end: print slots startPrint .. ti % saveStep
    [chrono = false] prints slot 0 first (the uninterrupted output is byte-for-byte what the code prints now);
    [chrono = true] prints it last (rows in chronological order, restart-equivalence as equality of lists). *)
Section Patch.
Variables F D : Type.
Variable step : F -> F.
Variable diag : F -> D.
Variable S : nat.
Variable chrono : bool.

Definition ckp_iter (st : ck_st F D) : ck_st F D :=
  let ti := ck_ti _ _ st in
  let f' := step (ck_fld _ _ st) in
  let k := ti + 1 in
  let sl := ck_collect F D diag S k f' (ck_slots _ _ st) in
  if ti mod S =? S - 1
  then ck_mk _ _ k f' (ck_nloops _ _ st + 1) 1 sl
             (ck_files _ _ st ++ [(k, f')])
             (ck_lines _ _ st ++ (if chrono then ck_print D sl (ck_sp _ _ st) S ++ [sl 0]
                                   else sl 0 :: ck_print D sl (ck_sp _ _ st) S))
  else ck_mk _ _ k f' (ck_nloops _ _ st + 1) (ck_sp _ _ st) sl (ck_files _ _ st) (ck_lines _ _ st).

Definition ckp_final (st : ck_st F D) : ck_st F D :=
  if ck_ti _ _ st mod S =? 0 then st
  else ck_mk _ _ (ck_ti _ _ st) (ck_fld _ _ st) (ck_nloops _ _ st) (ck_sp _ _ st) (ck_slots _ _ st)
             (ck_files _ _ st ++ [(ck_ti _ _ st, ck_fld _ _ st)])
             (ck_lines _ _ st ++ ck_print D (ck_slots _ _ st) (ck_sp _ _ st) (ck_ti _ _ st mod S + 1)).

Fixpoint ckp_steps (j : nat) (st : ck_st F D) : ck_st F D :=
  match j with 0 => st | Datatypes.S j' => ckp_steps j' (ckp_iter st) end.

Definition ckp_fresh (f0 : F) : ck_st F D :=
  let sl := ck_collect F D diag S 0 f0 (fun _ => None) in
  ck_mk _ _ 0 f0 0 1 sl [(0, f0)] [sl 0].

Definition ckp_resume (k : nat) (f : F) : ck_st F D :=
  ck_mk _ _ k f 0 (k mod S + 1) (ck_collect F D diag S k f (fun _ => None)) [] [].

(** a history: new run to the first stop, then restart from the latest checkpoint to each further stop *)
Fixpoint ckp_segments (stops : list nat) (folder : list (nat * F)) (rows : list (ck_line D))
  : list (nat * F) * list (ck_line D) :=
  match stops with
  | [] => (folder, rows)
  | T :: more =>
      match ck_latest F folder with
      | Some (k, f) =>
          let st := ckp_final (ckp_steps (T - k) (ckp_resume k f)) in
          ckp_segments more (folder ++ ck_files _ _ st) (rows ++ ck_lines _ _ st)
      | None => (folder, rows)
      end
  end.

Definition ckp_history (f0 : F) (stops : list nat) : list (nat * F) * list (ck_line D) :=
  match stops with
  | [] => ([], [])
  | T :: more =>
      let st := ckp_final (ckp_steps T (ckp_fresh f0)) in
      ckp_segments more (ck_files _ _ st) (ck_lines _ _ st)
  end.
End Patch.

Definition ckp_rows_nat (chrono : bool) (S : nat) (stops : list nat) : list (option nat) :=
  map ck_line_time (snd (ckp_history nat nat Datatypes.S (fun x => x) S chrono 0 stops)).

Fixpoint ck_opt_list_eqb (a b : list (option nat)) : bool :=
  match a, b with
  | [], [] => true
  | Some x :: a', Some y :: b' => (x =? y) && ck_opt_list_eqb a' b'
  | None :: a', None :: b' => ck_opt_list_eqb a' b'
  | _, _ => false
  end.

Definition ck_once (T : nat) (rows : list (option nat)) : bool :=
  (length rows =? T + 1) &&
  forallb (fun k => existsb (fun r => match r with Some x => x =? k | None => false end) rows) (seq 0 (T + 1)).

(** all histories with up to two restarts: saveStep 1..6, stop points 0 <= N1 <= N2 <= T <= 12 *)
Definition ckp_all_histories : list (nat * list nat) :=
  flat_map (fun S => flat_map (fun T => flat_map (fun N2 => flat_map (fun N1 =>
     [(S, [T]); (S, [N2; T]); (S, [N1; N2; T])]) (seq 0 (N2 + 1))) (seq 0 (T + 1))) (seq 0 13)) (seq 1 6).

Definition ckp_last (l : list nat) : nat := last l 0.

(** chronological variant: the rows of every such history are exactly 0, 1, ..., T in this order, i.e.
    equal as lists to those of the uninterrupted run *)
Theorem ckp_chrono_restart_equiv_bounded :
  forallb (fun h => ck_opt_list_eqb (ckp_rows_nat true (fst h) (snd h))
                                    (map Some (seq 0 (ckp_last (snd h) + 1)))) ckp_all_histories = true.
Proof. vm_compute. reflexivity. Qed.

(** order-preserving variant: every time exactly once in every such history, and the uninterrupted run
    prints exactly what the current code prints *)
Theorem ckp_keep_order_restart_equiv_bounded :
  forallb (fun h => ck_once (ckp_last (snd h)) (ckp_rows_nat false (fst h) (snd h))) ckp_all_histories = true /\
  forallb (fun h => ck_opt_list_eqb (ckp_rows_nat false (fst h) [ckp_last (snd h)])
                                    (ck_lines_unsplit_nat (fst h) (ckp_last (snd h)))) ckp_all_histories = true.
Proof. vm_compute. split; reflexivity. Qed.

(** the same check fails for the current code as soon as a stop point is not a multiple of saveStep *)
Example ck_current_code_fails_check : ck_once 6 (ck_lines_split_nat 3 1 6) = false.
Proof. vm_compute. reflexivity. Qed.
