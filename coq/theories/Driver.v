(** C18 — the time loop of fullSimulation.py as a state machine.

    Time is counted in steps: the driver's [t] is [k * dt] and [ti = t // dt = k] ([ck_ti_of_time]).
    The physics of one loop iteration is an abstract function [step : F -> F] of the global field, the
    diagnostics of a field an abstract [diag : F -> D] (phi is a function of f), the wall-clock test
    [timeForLoop] an arbitrary oracle (a list of booleans, one per completed iteration).

    State = (ti, field, nLoops, startPrint, the [saveStep] slots of the DiagnosticCollector,
             checkpoint files written, lines appended to phiDat.txt).
    A slot that was never collected in this process prints as a zero row: [None].

    The slots of the collector are a numpy array of [saveStep] columns; they are modelled as a function
    of the column index.  Every index used by the driver is below [saveStep] ([k mod S], [0],
    [range(startPrint, saveStep)], [range(startPrint, ti mod S + 1)]), so no access is out of range.

    The model mirrors the tree after b2d9318: [startPrint] is the first slot of the current save window whose
    row is not yet in phiDat.txt ([ti mod S + 1] at start-up, 1 after a save). *)
From Coq Require Import List Arith Lia PeanoNat Bool Permutation ZArith.
Import ListNotations.

Section Driver.
Variables F D : Type.
Variable step : F -> F.
Variable diag : F -> D.
Variable S : nat.                      (* saveStep >= 1 *)

Definition ck_line : Type := option (nat * D).

Record ck_st : Type := ck_mk {
  ck_ti : nat;                          (* ti *)
  ck_fld : F;                           (* distribFunc (global field) *)
  ck_nloops : nat;                      (* nLoops *)
  ck_sp : nat;                          (* startPrint *)
  ck_slots : nat -> ck_line;            (* diagnostics.diagnostics[:, i] *)
  ck_files : list (nat * F);            (* writeH5Dataset calls, in order: (time index, field) *)
  ck_lines : list ck_line               (* lines appended to phiDat.txt, in order *)
}.

(** diagnostics.collect(f, phi, t): idx = (t // dt) mod saveStep *)
Definition ck_collect (k : nat) (f : F) (sl : nat -> ck_line) : nat -> ck_line :=
  fun i => if i =? k mod S then Some (k, diag f) else sl i.

(** for i in range(a, b): print(getLine(i)) *)
Definition ck_print (sl : nat -> ck_line) (a b : nat) : list ck_line := map sl (seq a (b - a)).

(** one iteration of the while loop *)
Definition ck_iter (st : ck_st) : ck_st :=
  let ti := ck_ti st in
  let f' := step (ck_fld st) in
  let k := ti + 1 in
  let sl := ck_collect k f' (ck_slots st) in
  if ti mod S =? S - 1                                  (* ti % saveStep == saveStepCut *)
  then (* print getLine(0), then range(startPrint, saveStep); startPrint = 1 *)
       ck_mk k f' (ck_nloops st + 1) 1 sl
             (ck_files st ++ [(k, f')])
             (ck_lines st ++ sl 0 :: ck_print sl (ck_sp st) S)
  else ck_mk k f' (ck_nloops st + 1) (ck_sp st) sl (ck_files st) (ck_lines st).

(** after the loop: if ti % saveStep != 0: for i in range(startPrint, ti % saveStep + 1) *)
Definition ck_final (st : ck_st) : ck_st :=
  if ck_ti st mod S =? 0 then st
  else ck_mk (ck_ti st) (ck_fld st) (ck_nloops st) (ck_sp st) (ck_slots st)
             (ck_files st ++ [(ck_ti st, ck_fld st)])
             (ck_lines st ++ ck_print (ck_slots st) (ck_sp st) (ck_ti st mod S + 1)).

(** while ti < tN and timeForLoop: n = tN - ti iterations at most; [orc] = successive values of the
    wall-clock test ([] = never stops) *)
Fixpoint ck_loop (n : nat) (orc : list bool) (st : ck_st) : ck_st :=
  match n with
  | 0 => st
  | Datatypes.S n' =>
      let st1 := ck_iter st in
      match orc with
      | false :: _ => st1
      | true :: o => ck_loop n' o st1
      | [] => ck_loop n' [] st1
      end
  end.

Definition ck_run (tN : nat) (orc : list bool) (st : ck_st) : ck_st :=
  ck_final (ck_loop (tN - ck_ti st) orc st).

(** a new simulation: t = 0, collect, save grid_000000, print line 0;  startPrint = 0 % saveStep + 1 *)
Definition ck_fresh (f0 : F) : ck_st :=
  let sl := ck_collect 0 f0 (fun _ => None) in
  ck_mk 0 f0 0 1 sl [(0, f0)] [sl 0].

(** a restart from the checkpoint (k, f): ti = nearest step of t ([ck_nearest_step]), collect, nothing saved
    or printed;
    startPrint = ti % saveStep + 1 *)
Definition ck_resume (k : nat) (f : F) : ck_st :=
  ck_mk k f 0 (k mod S + 1) (ck_collect k f (fun _ => None)) [] [].

(** the checkpoint picked by setupFromFile: the largest time (CkNames.v: max by the time key of the names) *)
Fixpoint ck_latest (fs : list (nat * F)) : option (nat * F) :=
  match fs with
  | [] => None
  | (k, f) :: r =>
      match ck_latest r with
      | Some (k', f') => if k <? k' then Some (k', f') else Some (k, f)
      | None => Some (k, f)
      end
  end.

Definition ck_restart (folder : list (nat * F)) : option ck_st :=
  match ck_latest folder with Some (k, f) => Some (ck_resume k f) | None => None end.

(** ** the loop runs a number of iterations that depends on the bound and the oracle only *)
Fixpoint ck_steps (j : nat) (st : ck_st) : ck_st :=
  match j with 0 => st | Datatypes.S j' => ck_steps j' (ck_iter st) end.

Fixpoint ck_count (n : nat) (orc : list bool) : nat :=
  match n with
  | 0 => 0
  | Datatypes.S n' =>
      match orc with
      | false :: _ => 1
      | true :: o => Datatypes.S (ck_count n' o)
      | [] => Datatypes.S (ck_count n' [])
      end
  end.

Lemma ck_loop_steps n : forall orc st, ck_loop n orc st = ck_steps (ck_count n orc) st.
Proof.
  induction n as [|n IH]; intros orc st; cbn [ck_loop ck_count]; [reflexivity|].
  destruct orc as [|[|] o]; cbn [ck_steps]; try apply IH. reflexivity.
Qed.

Lemma ck_count_le n : forall orc, ck_count n orc <= n.
Proof.
  induction n as [|n IH]; intros orc; cbn [ck_count]; [lia|].
  destruct orc as [|[|] o]; try (specialize (IH o)); try (specialize (IH [])); lia.
Qed.

Lemma ck_count_nil n : ck_count n [] = n.
Proof. induction n as [|n IH]; cbn [ck_count]; [reflexivity|]. rewrite IH. reflexivity. Qed.

(** every stop point 1 <= N <= n is reached by some oracle (N = n: by the empty one) *)
Lemma ck_count_stop n N : 1 <= N <= n -> ck_count n (repeat true (N - 1) ++ [false]) = N.
Proof.
  revert N. induction n as [|n IH]; intros N H; [lia|].
  destruct N as [|[|N]]; [lia| |].
  - reflexivity.
  - cbn [Nat.sub repeat app ck_count]. replace (N - 0) with N by lia.
    specialize (IH (Datatypes.S N) ltac:(lia)). cbn [Nat.sub] in IH. replace (N - 0) with N in IH by lia.
    rewrite IH. reflexivity.
Qed.

Lemma ck_steps_add a : forall b st, ck_steps (a + b) st = ck_steps b (ck_steps a st).
Proof. induction a as [|a IH]; intros b st; cbn [Nat.add ck_steps]; [reflexivity|]. apply IH. Qed.

Fixpoint ck_pow (j : nat) (f : F) : F :=
  match j with 0 => f | Datatypes.S j' => ck_pow j' (step f) end.

Lemma ck_pow_add a : forall b f, ck_pow (a + b) f = ck_pow b (ck_pow a f).
Proof. induction a as [|a IH]; intros b f; cbn [Nat.add ck_pow]; [reflexivity|]. apply IH. Qed.

Lemma ck_iter_ti st : ck_ti (ck_iter st) = ck_ti st + 1.
Proof. unfold ck_iter. destruct (_ =? _); reflexivity. Qed.
Lemma ck_iter_fld st : ck_fld (ck_iter st) = step (ck_fld st).
Proof. unfold ck_iter. destruct (_ =? _); reflexivity. Qed.

Lemma ck_steps_ti j : forall st, ck_ti (ck_steps j st) = ck_ti st + j.
Proof.
  induction j as [|j IH]; intros st; cbn [ck_steps]; [lia|]. rewrite IH, ck_iter_ti. lia.
Qed.
Lemma ck_steps_fld j : forall st, ck_fld (ck_steps j st) = ck_pow j (ck_fld st).
Proof.
  induction j as [|j IH]; intros st; cbn [ck_steps ck_pow]; [reflexivity|]. rewrite IH, ck_iter_fld. reflexivity.
Qed.

Lemma ck_final_ti st : ck_ti (ck_final st) = ck_ti st.
Proof. unfold ck_final. destruct (_ =? _); reflexivity. Qed.
Lemma ck_final_fld st : ck_fld (ck_final st) = ck_fld st.
Proof. unfold ck_final. destruct (_ =? _); reflexivity. Qed.

(** ** checkpoints written depend on (ti, field) only *)
Fixpoint ck_saves (a j : nat) (f : F) : list (nat * F) :=
  match j with
  | 0 => []
  | Datatypes.S j' =>
      let f' := step f in
      (if a mod S =? S - 1 then [(a + 1, f')] else []) ++ ck_saves (a + 1) j' f'
  end.

Definition ck_final_save (a : nat) (f : F) : list (nat * F) :=
  if a mod S =? 0 then [] else [(a, f)].

Lemma ck_steps_files j : forall st,
  ck_files (ck_steps j st) = ck_files st ++ ck_saves (ck_ti st) j (ck_fld st).
Proof.
  induction j as [|j IH]; intros st; cbn [ck_steps ck_saves]; [rewrite app_nil_r; reflexivity|].
  rewrite IH, ck_iter_ti, ck_iter_fld. unfold ck_iter at 1.
  destruct (ck_ti st mod S =? S - 1); cbn [ck_files]; rewrite <- ?app_assoc; reflexivity.
Qed.

Lemma ck_final_files st :
  ck_files (ck_final st) = ck_files st ++ ck_final_save (ck_ti st) (ck_fld st).
Proof.
  unfold ck_final, ck_final_save. destruct (_ =? _); cbn [ck_files]; [rewrite app_nil_r|]; reflexivity.
Qed.

Lemma ck_saves_add a : forall b t f,
  ck_saves t (a + b) f = ck_saves t a f ++ ck_saves (t + a) b (ck_pow a f).
Proof.
  induction a as [|a IH]; intros b t f; cbn [Nat.add ck_saves ck_pow].
  - rewrite Nat.add_0_r. reflexivity.
  - rewrite IH. rewrite <- app_assoc. replace (t + 1 + a) with (t + Datatypes.S a) by lia. reflexivity.
Qed.

Hypothesis HS : 0 < S.

Lemma ck_mod_cut a : a mod S = S - 1 <-> (a + 1) mod S = 0.
Proof.
  pose proof (Nat.div_mod a S ltac:(lia)) as E1.
  pose proof (Nat.mod_upper_bound a S ltac:(lia)) as U1.
  split; intros H.
  - apply Nat.mod_divide; [lia|]. exists (a / S + 1). lia.
  - apply Nat.mod_divide in H; [|lia]. destruct H as [q Hq].
    destruct (Nat.eq_dec (a mod S) (S - 1)) as [E|NE]; [exact E|exfalso].
    assert (Hlt : a mod S + 1 < S) by lia.
    assert (E2 : a + 1 = S * (a / S) + (a mod S + 1)) by lia.
    assert (E3 : (a + 1) mod S = a mod S + 1).
    { symmetry. apply (Nat.mod_unique (a + 1) S (a / S)); [exact Hlt|exact E2]. }
    assert (E4 : (a + 1) mod S = 0) by (rewrite Hq; apply Nat.mod_mul; lia).
    lia.
Qed.

(** which checkpoints the loop writes: exactly the multiples of saveStep in (a, a+j], with the field
    of that time *)
Lemma ck_saves_spec j : forall a f k g,
  In (k, g) (ck_saves a j f) <-> (a < k <= a + j /\ k mod S = 0 /\ g = ck_pow (k - a) f).
Proof.
  induction j as [|j IH]; intros a f k g; cbn [ck_saves].
  - split; [intros []|lia].
  - rewrite in_app_iff, IH. split.
    + intros [H|[H1 [H2 H3]]].
      * destruct (Nat.eqb_spec (a mod S) (S - 1)) as [E|E]; [|destruct H].
        destruct H as [H|[]]. inversion H; subst. apply ck_mod_cut in E.
        repeat split; try lia. replace (a + 1 - a) with 1 by lia. reflexivity.
      * repeat split; try lia. subst g.
        replace (k - a) with (Datatypes.S (k - (a + 1))) by lia. reflexivity.
    + intros [H1 [H2 H3]]. destruct (Nat.eq_dec k (a + 1)) as [->|NE].
      * left. apply ck_mod_cut in H2. rewrite (proj2 (Nat.eqb_eq _ _) H2). left.
        subst g. replace (a + 1 - a) with 1 by lia. reflexivity.
      * right. repeat split; try lia. subst g.
        replace (k - a) with (Datatypes.S (k - (a + 1))) by lia. reflexivity.
Qed.

(** ** the run of a new simulation: where it ends and what it has written *)
Definition ck_stop (tN : nat) (orc : list bool) (a : nat) : nat := a + ck_count (tN - a) orc.

Lemma ck_run_unfold tN orc st :
  ck_run tN orc st = ck_final (ck_steps (ck_count (tN - ck_ti st) orc) st).
Proof. unfold ck_run. rewrite ck_loop_steps. reflexivity. Qed.

Theorem ck_run_state tN orc st :
  ck_ti (ck_run tN orc st) = ck_stop tN orc (ck_ti st) /\
  ck_fld (ck_run tN orc st) = ck_pow (ck_count (tN - ck_ti st) orc) (ck_fld st).
Proof.
  rewrite ck_run_unfold, ck_final_ti, ck_final_fld, ck_steps_ti, ck_steps_fld. split; reflexivity.
Qed.

Theorem ck_run_files tN orc st :
  let j := ck_count (tN - ck_ti st) orc in
  ck_files (ck_run tN orc st) =
  ck_files st ++ ck_saves (ck_ti st) j (ck_fld st) ++ ck_final_save (ck_ti st + j) (ck_pow j (ck_fld st)).
Proof.
  cbv zeta. rewrite ck_run_unfold, ck_final_files, ck_steps_files, ck_steps_ti, ck_steps_fld.
  rewrite <- app_assoc. reflexivity.
Qed.

(** every checkpoint of a new simulation holds the field of its time; the times are 0, the multiples of
    saveStep up to the end N, and N itself *)
Theorem ck_fresh_files_spec tN orc f0 k g :
  let N := ck_count tN orc in
  In (k, g) (ck_files (ck_run tN orc (ck_fresh f0))) <->
  (g = ck_pow k f0 /\ k <= N /\ (k mod S = 0 \/ k = N)).
Proof.
  cbv zeta. rewrite ck_run_files. cbn [ck_fresh ck_ti ck_fld ck_files]. rewrite Nat.sub_0_r, Nat.add_0_l.
  set (N := ck_count tN orc). rewrite !in_app_iff, ck_saves_spec. unfold ck_final_save.
  cbn [In]. split.
  - intros [[H|[]]|[[H1 [H2 H3]]|H]].
    + inversion H; subst. repeat split; [lia|left; apply Nat.mod_0_l; lia].
    + rewrite Nat.sub_0_r in H3. repeat split; [exact H3|lia|left; exact H2].
    + destruct (N mod S =? 0); [destruct H|]. destruct H as [H|[]]. inversion H; subst.
      repeat split; [lia|right; reflexivity].
  - intros [Hg [Hk Hm]]. subst g. destruct (Nat.eq_dec k 0) as [->|NZ]; [left; left; reflexivity|].
    right. destruct (Nat.eq_dec (k mod S) 0) as [E|NE].
    + left. rewrite Nat.sub_0_r. repeat split; [lia|lia|exact E].
    + right. destruct Hm as [Hm| ->]; [contradiction|].
      rewrite (proj2 (Nat.eqb_neq _ _) NE). left. reflexivity.
Qed.

(** ** the checkpoint the restart loads *)
Lemma ck_latest_in fs : forall k f, ck_latest fs = Some (k, f) ->
  In (k, f) fs /\ forall k' f', In (k', f') fs -> k' <= k.
Proof.
  induction fs as [|[k0 f0] r IH]; intros k f H; cbn [ck_latest] in H; [discriminate|].
  destruct (ck_latest r) as [[k1 f1]|] eqn:E.
  - destruct (IH k1 f1 eq_refl) as [I1 I2].
    destruct (Nat.ltb_spec k0 k1) as [L|L]; inversion H; subst.
    + split; [right; exact I1|]. intros k' f' [X|X]; [inversion X; subst; lia|eapply I2; exact X].
    + split; [left; reflexivity|]. intros k' f' [X|X]; [inversion X; subst; lia|].
      specialize (I2 k' f' X). lia.
  - inversion H; subst. destruct r as [|[k2 f2] r].
    + split; [left; reflexivity|]. intros k' f' [X|[]]. inversion X; subst. lia.
    + cbn [ck_latest] in E. destruct (ck_latest r) as [[? ?]|]; [destruct (_ <? _)|]; discriminate.
Qed.

Lemma ck_latest_some fs : fs <> [] -> exists k f, ck_latest fs = Some (k, f).
Proof.
  destruct fs as [|[k0 f0] r]; [congruence|]. intros _. cbn [ck_latest].
  destruct (ck_latest r) as [[k1 f1]|]; [destruct (_ <? _)|]; eauto.
Qed.

(** the latest checkpoint of a (stopped) new simulation is its final state *)
Theorem ck_latest_is_final tN orc f0 :
  let N := ck_count tN orc in
  ck_latest (ck_files (ck_run tN orc (ck_fresh f0))) = Some (N, ck_pow N f0).
Proof.
  cbv zeta. set (N := ck_count tN orc). set (fs := ck_files _).
  assert (Hin : In (N, ck_pow N f0) fs).
  { apply ck_fresh_files_spec. repeat split; [fold N; lia|right; reflexivity]. }
  destruct (ck_latest_some fs) as [k [g E]]; [intros E; rewrite E in Hin; destruct Hin|].
  destruct (ck_latest_in fs k g E) as [I1 I2].
  apply ck_fresh_files_spec in I1. fold N in I1. destruct I1 as [-> [Hk _]].
  specialize (I2 N _ Hin). assert (k = N) by lia. subst k. exact E.
Qed.

(** ** restart: state and checkpoints *)

(** [restart_equiv], state and files.  A new simulation is stopped after N iterations (by tEnd or by
    the wall clock), restarted from its folder and stopped after j2 more.  Then the final time and field
    are those of the simulation that was never stopped, and the folder holds the same checkpoints, plus
    the one of the stop time N when N is not a multiple of saveStep. *)
Theorem ck_restart_equiv_state tN1 orc1 tN2 orc2 tNu orcu f0 :
  let N := ck_count tN1 orc1 in
  let st1 := ck_run tN1 orc1 (ck_fresh f0) in
  forall st2r, ck_restart (ck_files st1) = Some st2r ->
  let st2 := ck_run tN2 orc2 st2r in
  let stu := ck_run tNu orcu (ck_fresh f0) in
  ck_count tNu orcu = N + ck_count (tN2 - N) orc2 ->
  ck_ti st2 = ck_ti stu /\ ck_fld st2 = ck_fld stu /\
  exists A B, ck_files stu = A ++ B /\
              ck_files st1 ++ ck_files st2 = A ++ ck_final_save N (ck_pow N f0) ++ B.
Proof.
  cbv zeta. intros st2r Hr Hc. unfold ck_restart in Hr. rewrite ck_latest_is_final in Hr.
  inversion Hr; subst st2r; clear Hr.
  set (N := ck_count tN1 orc1) in *. set (j2 := ck_count (tN2 - N) orc2) in *.
  pose proof (ck_run_state tN2 orc2 (ck_resume N (ck_pow N f0))) as [T2 F2].
  pose proof (ck_run_state tNu orcu (ck_fresh f0)) as [Tu Fu].
  cbn [ck_resume ck_fresh ck_ti ck_fld] in T2, F2, Tu, Fu. unfold ck_stop in T2, Tu.
  rewrite Nat.sub_0_r in Tu, Fu. fold j2 in T2, F2. rewrite Hc in Tu, Fu.
  split; [lia|]. split; [rewrite F2, Fu, ck_pow_add; reflexivity|].
  rewrite !ck_run_files. cbn [ck_resume ck_fresh ck_ti ck_fld ck_files].
  rewrite !Nat.sub_0_r, !Nat.add_0_l. fold N. fold j2. rewrite Hc.
  rewrite ck_saves_add, ck_pow_add, Nat.add_0_l.
  exists ([(0, f0)] ++ ck_saves 0 N f0),
         (ck_saves N j2 (ck_pow N f0) ++ ck_final_save (N + j2) (ck_pow j2 (ck_pow N f0))).
  split; rewrite <- ?app_assoc; reflexivity.
Qed.

(** ** restart: diagnostic lines, when the stop time is a multiple of saveStep *)

(** two collectors agree on the slots that can be printed before they are overwritten *)
Definition ck_sim (st st' : ck_st) : Prop :=
  ck_ti st = ck_ti st' /\ ck_fld st = ck_fld st' /\ ck_sp st = ck_sp st' /\
  forall i, i <= ck_ti st mod S -> ck_slots st i = ck_slots st' i.

Lemma ck_mod_succ a : (a + 1) mod S = 0 /\ a mod S = S - 1 \/ (a + 1) mod S = a mod S + 1 /\ a mod S < S - 1.
Proof.
  pose proof (Nat.mod_upper_bound a S ltac:(lia)) as U.
  destruct (Nat.eq_dec (a mod S) (S - 1)) as [E|NE].
  - left. split; [apply ck_mod_cut; exact E|exact E].
  - right. split; [|lia]. symmetry. apply (Nat.mod_unique (a + 1) S (a / S)); [lia|].
    pose proof (Nat.div_mod a S ltac:(lia)). lia.
Qed.

Lemma ck_print_ext sl sl' a b : (forall i, a <= i < b -> sl i = sl' i) -> ck_print sl a b = ck_print sl' a b.
Proof. intros H. unfold ck_print. apply map_ext_in. intros i Hi. apply in_seq in Hi. apply H. lia. Qed.

Lemma ck_sim_iter st st' : ck_sim st st' ->
  ck_sim (ck_iter st) (ck_iter st') /\
  exists X Y, ck_files (ck_iter st) = ck_files st ++ X /\ ck_files (ck_iter st') = ck_files st' ++ X /\
              ck_lines (ck_iter st) = ck_lines st ++ Y /\ ck_lines (ck_iter st') = ck_lines st' ++ Y.
Proof.
  intros [Hti [Hf [Hsp Hsl]]].
  assert (Hcol : forall i, i <= (ck_ti st + 1) mod S \/ (ck_ti st mod S = S - 1 /\ i < S) ->
            ck_collect (ck_ti st + 1) (step (ck_fld st)) (ck_slots st) i =
            ck_collect (ck_ti st + 1) (step (ck_fld st)) (ck_slots st') i).
  { intros i Hi. unfold ck_collect.
    destruct (Nat.eqb_spec i ((ck_ti st + 1) mod S)) as [E|NE]; [reflexivity|].
    apply Hsl. destruct (ck_mod_succ (ck_ti st)) as [[M1 M2]|[M1 M2]]; lia. }
  unfold ck_iter. rewrite <- Hti, <- Hf, <- Hsp.
  destruct (Nat.eqb_spec (ck_ti st mod S) (S - 1)) as [E|NE].
  - split.
    + unfold ck_sim. cbn [ck_ti ck_fld ck_sp ck_slots]. repeat split.
      intros i Hi. apply Hcol. left. exact Hi.
    + eexists. eexists. cbn [ck_files ck_lines]. repeat split; try reflexivity.
      f_equal. f_equal.
      * symmetry. apply Hcol. right. split; [exact E|lia].
      * apply ck_print_ext. intros i Hi. symmetry. apply Hcol. right. split; [exact E|lia].
  - split.
    + unfold ck_sim. cbn [ck_ti ck_fld ck_sp ck_slots]. repeat split.
      intros i Hi. apply Hcol. left. exact Hi.
    + exists [], []. cbn [ck_files ck_lines]. rewrite !app_nil_r. repeat split; reflexivity.
Qed.

Lemma ck_sim_steps j : forall st st', ck_sim st st' ->
  ck_sim (ck_steps j st) (ck_steps j st') /\
  exists X Y, ck_files (ck_steps j st) = ck_files st ++ X /\ ck_files (ck_steps j st') = ck_files st' ++ X /\
              ck_lines (ck_steps j st) = ck_lines st ++ Y /\ ck_lines (ck_steps j st') = ck_lines st' ++ Y.
Proof.
  induction j as [|j IH]; intros st st' H; cbn [ck_steps].
  - split; [exact H|]. exists [], []. rewrite !app_nil_r. repeat split; reflexivity.
  - destruct (ck_sim_iter st st' H) as [H1 [X1 [Y1 [A1 [A2 [A3 A4]]]]]].
    destruct (IH _ _ H1) as [H2 [X2 [Y2 [B1 [B2 [B3 B4]]]]]].
    split; [exact H2|]. exists (X1 ++ X2), (Y1 ++ Y2).
    rewrite B1, B2, B3, B4, A1, A2, A3, A4, !app_assoc. repeat split; reflexivity.
Qed.

Lemma ck_sim_final st st' : ck_sim st st' ->
  exists X Y, ck_files (ck_final st) = ck_files st ++ X /\ ck_files (ck_final st') = ck_files st' ++ X /\
              ck_lines (ck_final st) = ck_lines st ++ Y /\ ck_lines (ck_final st') = ck_lines st' ++ Y.
Proof.
  intros [Hti [Hf [Hsp Hsl]]]. unfold ck_final. rewrite <- Hti, <- Hf, <- Hsp.
  destruct (ck_ti st mod S =? 0).
  - exists [], []. rewrite !app_nil_r. repeat split; reflexivity.
  - eexists. eexists. cbn [ck_files ck_lines]. repeat split; try reflexivity.
    f_equal. apply ck_print_ext. intros i Hi. symmetry. apply Hsl. lia.
Qed.

(** invariants of every run *)
Definition ck_last_ok (st : ck_st) : Prop :=
  ck_slots st (ck_ti st mod S) = Some (ck_ti st, diag (ck_fld st)).

Lemma ck_iter_last_ok st : ck_last_ok (ck_iter st).
Proof.
  unfold ck_last_ok. rewrite ck_iter_ti, ck_iter_fld. unfold ck_iter.
  destruct (_ =? S - 1); cbn [ck_slots]; unfold ck_collect; rewrite Nat.eqb_refl; reflexivity.
Qed.

Lemma ck_steps_last_ok j : forall st, ck_last_ok st -> ck_last_ok (ck_steps j st).
Proof.
  induction j as [|j IH]; intros st H; cbn [ck_steps]; [exact H|]. apply IH. apply ck_iter_last_ok.
Qed.

Lemma ck_steps_sp1 j : forall st, ck_sp st = 1 -> ck_sp (ck_steps j st) = 1.
Proof.
  induction j as [|j IH]; intros st H; cbn [ck_steps]; [exact H|]. apply IH.
  unfold ck_iter. destruct (_ =? _); cbn [ck_sp]; [reflexivity|exact H].
Qed.

Lemma ck_fresh_last_ok f0 : ck_last_ok (ck_fresh f0).
Proof.
  unfold ck_last_ok, ck_fresh. cbn [ck_slots ck_ti ck_fld]. unfold ck_collect.
  rewrite Nat.eqb_refl. reflexivity.
Qed.

(** [restart_equiv], lines: if the stop time N is a multiple of saveStep, phiDat.txt and the list of
    checkpoint writes of the stopped-and-restarted simulation are exactly those of the uninterrupted one *)
Theorem ck_restart_equiv_aligned tN1 orc1 tN2 orc2 tNu orcu f0 :
  let N := ck_count tN1 orc1 in
  let st1 := ck_run tN1 orc1 (ck_fresh f0) in
  N mod S = 0 ->
  forall st2r, ck_restart (ck_files st1) = Some st2r ->
  let st2 := ck_run tN2 orc2 st2r in
  let stu := ck_run tNu orcu (ck_fresh f0) in
  ck_count tNu orcu = N + ck_count (tN2 - N) orc2 ->
  ck_lines stu = ck_lines st1 ++ ck_lines st2 /\ ck_files stu = ck_files st1 ++ ck_files st2.
Proof.
  cbv zeta. intros HN st2r Hr Hc. unfold ck_restart in Hr. rewrite ck_latest_is_final in Hr.
  inversion Hr; subst st2r; clear Hr.
  set (N := ck_count tN1 orc1) in *. set (j2 := ck_count (tN2 - N) orc2) in *.
  rewrite !ck_run_unfold.
  replace (ck_ti (ck_fresh f0)) with 0 by reflexivity.
  replace (ck_ti (ck_resume N (ck_pow N f0))) with N by reflexivity.
  rewrite !Nat.sub_0_r. fold N. fold j2. rewrite Hc. rewrite ck_steps_add.
  set (sN := ck_steps N (ck_fresh f0)).
  assert (TN : ck_ti sN = N) by (unfold sN; rewrite ck_steps_ti; reflexivity).
  assert (FN : ck_fld sN = ck_pow N f0) by (unfold sN; rewrite ck_steps_fld; reflexivity).
  assert (E1 : ck_final sN = sN) by (unfold ck_final; rewrite TN, HN; reflexivity).
  assert (SP : ck_sp sN = 1) by (apply ck_steps_sp1; reflexivity).
  assert (LO : ck_last_ok sN) by (apply ck_steps_last_ok, ck_fresh_last_ok).
  assert (SIM : ck_sim sN (ck_resume N (ck_pow N f0))).
  { unfold ck_sim. cbn [ck_resume ck_ti ck_fld ck_sp ck_slots]. rewrite TN, FN, SP, HN.
    repeat split; try reflexivity. intros i Hi. assert (i = 0) by lia. subst i.
    unfold ck_last_ok in LO. rewrite TN, FN, HN in LO. rewrite LO.
    unfold ck_collect. rewrite HN. reflexivity. }
  destruct (ck_sim_steps j2 _ _ SIM) as [SIM2 [X [Y [A1 [A2 [A3 A4]]]]]].
  destruct (ck_sim_final _ _ SIM2) as [X' [Y' [B1 [B2 [B3 B4]]]]].
  rewrite E1. rewrite B1, B2, B3, B4, A1, A2, A3, A4.
  cbn [ck_resume ck_files ck_lines]. rewrite !app_nil_l, !app_assoc. split; reflexivity.
Qed.

(** ** the rows of an uninterrupted run that ends on a save step: every time once *)
Definition ck_L (f0 : F) (k : nat) : ck_line := Some (k, diag (ck_pow k f0)).

(** rows printed at the save step (w+1)*S: slot 0 holds that very time, slots 1..S-1 the times before *)
Definition ck_window (f0 : F) (w : nat) : list ck_line :=
  ck_L f0 (w * S + S) :: map (fun i => ck_L f0 (w * S + i)) (seq 1 (S - 1)).

Definition ck_rows_spec (f0 : F) (q : nat) : list ck_line := ck_L f0 0 :: flat_map (ck_window f0) (seq 0 q).

Lemma ck_steps_succ j st : ck_steps (j + 1) st = ck_iter (ck_steps j st).
Proof. rewrite ck_steps_add. reflexivity. Qed.

Lemma ck_pow_succ j f : ck_pow (j + 1) f = step (ck_pow j f).
Proof. rewrite ck_pow_add. reflexivity. Qed.

Lemma ck_mod_in_window w j : j < S -> (w * S + j) mod S = j.
Proof. intros H. rewrite Nat.add_comm, Nat.mod_add by lia. apply Nat.mod_small. exact H. Qed.

(** inside a save window nothing is written and the slots 1..j receive the times of the window *)
Lemma ck_window_prefix w st j : ck_ti st = w * S -> j <= S - 1 ->
  let st' := ck_steps j st in
  ck_files st' = ck_files st /\ ck_lines st' = ck_lines st /\ ck_sp st' = ck_sp st /\
  forall i, 1 <= i <= j -> ck_slots st' i = Some (w * S + i, diag (ck_pow i (ck_fld st))).
Proof.
  intros Hti. induction j as [|j IH]; intros Hj; cbv zeta.
  - cbn [ck_steps]. repeat split; try reflexivity. intros i Hi. lia.
  - replace (Datatypes.S j) with (j + 1) by lia. rewrite ck_steps_succ.
    destruct (IH ltac:(lia)) as [I1 [I2 [I3 I4]]].
    pose proof (ck_steps_ti j st) as T. pose proof (ck_steps_fld j st) as Fd. rewrite Hti in T.
    unfold ck_iter. rewrite T, ck_mod_in_window by lia.
    destruct (Nat.eqb_spec j (S - 1)) as [E|NE]; [lia|].
    cbn [ck_files ck_lines ck_sp ck_slots]. repeat split; try assumption.
    intros i Hi. unfold ck_collect.
    replace (w * S + j + 1) with (w * S + (j + 1)) by lia. rewrite ck_mod_in_window by lia.
    destruct (Nat.eqb_spec i (j + 1)) as [->|NE'].
    + rewrite Fd. f_equal. f_equal. f_equal. rewrite ck_pow_add. reflexivity.
    + apply I4. lia.
Qed.

(** a whole window: S iterations from a save step append one checkpoint and the rows of the window *)
Lemma ck_window_full w st f0 : ck_ti st = w * S -> ck_fld st = ck_pow (w * S) f0 -> ck_sp st = 1 ->
  let st' := ck_steps S st in
  ck_lines st' = ck_lines st ++ ck_window f0 w /\ ck_sp st' = 1 /\
  ck_ti st' = w * S + S /\ ck_fld st' = ck_pow (w * S + S) f0.
Proof.
  intros Hti Hf Hsp. cbv zeta.
  assert (E : ck_steps S st = ck_iter (ck_steps (S - 1) st)) by (rewrite <- ck_steps_succ; f_equal; lia).
  rewrite E. clear E.
  destruct (ck_window_prefix w st (S - 1) Hti ltac:(lia)) as [I1 [I2 [I3 I4]]].
  pose proof (ck_steps_ti (S - 1) st) as T. pose proof (ck_steps_fld (S - 1) st) as Fd. rewrite Hti in T.
  rewrite ck_iter_ti, ck_iter_fld, T, Fd, Hf.
  unfold ck_iter. rewrite T, ck_mod_in_window, Nat.eqb_refl by lia.
  cbn [ck_lines ck_sp]. repeat split; try lia.
  - rewrite I2, I3, Hsp. f_equal.
    unfold ck_print, ck_window.
    assert (HM : (w * S + (S - 1) + 1) mod S = 0).
    { replace (w * S + (S - 1) + 1) with (0 + (w + 1) * S) by lia. rewrite Nat.mod_add by lia. apply Nat.mod_0_l. lia. }
    f_equal.
    + unfold ck_collect. rewrite HM. cbn [Nat.eqb]. unfold ck_L. rewrite Fd, Hf. f_equal.
      apply f_equal2; [lia|]. f_equal.
      rewrite <- ck_pow_succ, <- ck_pow_add. f_equal. lia.
    + apply map_ext_in. intros i Hi. apply in_seq in Hi. unfold ck_collect. rewrite HM.
      destruct (Nat.eqb_spec i 0) as [->|_]; [lia|].
      rewrite I4 by lia. unfold ck_L. rewrite Hf, <- ck_pow_add. reflexivity.
  - rewrite <- ck_pow_succ, <- ck_pow_add. f_equal. lia.
Qed.

Theorem ck_fresh_rows_aligned q f0 :
  let st := ck_steps (q * S) (ck_fresh f0) in
  ck_lines st = ck_rows_spec f0 q /\ ck_sp st = 1 /\ ck_ti st = q * S /\ ck_fld st = ck_pow (q * S) f0.
Proof.
  induction q as [|q IH]; cbv zeta.
  - cbn [Nat.mul ck_steps ck_fresh ck_lines ck_sp ck_ti ck_fld ck_pow]. unfold ck_rows_spec. cbn [seq flat_map].
    repeat split. unfold ck_collect, ck_L. rewrite Nat.mod_0_l by lia. reflexivity.
  - destruct IH as [I1 [I2 [I3 I4]]].
    replace (Datatypes.S q * S) with (q * S + S) by lia. rewrite ck_steps_add.
    destruct (ck_window_full q _ f0 I3 I4 I2) as [W1 [W2 [W3 W4]]].
    repeat split; try assumption.
    rewrite W1, I1. unfold ck_rows_spec. rewrite seq_S, flat_map_app. cbn [flat_map Nat.add].
    rewrite app_nil_r. reflexivity.
Qed.

(** the rows of an uninterrupted run ending on a save step (T = q * saveStep) *)
Theorem ck_run_rows_aligned tN orc f0 q : ck_count tN orc = q * S ->
  ck_lines (ck_run tN orc (ck_fresh f0)) = ck_rows_spec f0 q.
Proof.
  intros Hc. rewrite ck_run_unfold. replace (ck_ti (ck_fresh f0)) with 0 by reflexivity.
  rewrite Nat.sub_0_r, Hc. destruct (ck_fresh_rows_aligned q f0) as [I1 [I2 [I3 I4]]].
  unfold ck_final. rewrite I3, Nat.mod_mul by lia. cbn [Nat.eqb]. exact I1.
Qed.

(** ... which is every time 0..T exactly once *)
Lemma ck_map_shift (g : nat -> ck_line) a n : forall b, map (fun i => g (a + i)) (seq b n) = map g (seq (a + b) n).
Proof.
  induction n as [|n IH]; intros b; cbn [seq map]; [reflexivity|].
  f_equal. rewrite IH. replace (a + Datatypes.S b) with (Datatypes.S (a + b)) by lia. reflexivity.
Qed.

Lemma ck_window_perm f0 w : Permutation (ck_window f0 w) (map (ck_L f0) (seq (w * S + 1) S)).
Proof.
  unfold ck_window. rewrite ck_map_shift.
  assert (E : seq (w * S + 1) S = seq (w * S + 1) (S - 1) ++ [w * S + S]).
  { replace S with (Datatypes.S (S - 1)) at 2 by lia. rewrite seq_S. f_equal. f_equal. lia. }
  rewrite E, map_app. cbn [map]. apply Permutation_cons_append.
Qed.

Theorem ck_rows_spec_perm f0 q : Permutation (ck_rows_spec f0 q) (map (ck_L f0) (seq 0 (q * S + 1))).
Proof.
  unfold ck_rows_spec. replace (q * S + 1) with (Datatypes.S (q * S)) by lia. cbn [seq map].
  apply perm_skip. induction q as [|q IH]; [constructor|].
  rewrite seq_S, flat_map_app. cbn [flat_map Nat.add]. rewrite app_nil_r.
  replace (Datatypes.S q * S) with (q * S + S) by lia. rewrite seq_app, map_app.
  apply Permutation_app; [exact IH|]. replace (1 + q * S) with (q * S + 1) by lia. apply ck_window_perm.
Qed.

(** ** the rows of ANY uninterrupted run: T = q * S + r with r < S *)
Definition ck_rows_spec_any (f0 : F) (T : nat) : list ck_line :=
  ck_rows_spec f0 (T / S) ++ map (ck_L f0) (seq (T / S * S + 1) (T mod S)).

Theorem ck_fresh_rows_any T f0 :
  ck_lines (ck_final (ck_steps T (ck_fresh f0))) = ck_rows_spec_any f0 T.
Proof.
  unfold ck_rows_spec_any. set (q := T / S). set (r := T mod S).
  assert (Hr : r < S) by (apply Nat.mod_upper_bound; lia).
  assert (HT : T = q * S + r) by (pose proof (Nat.div_mod T S ltac:(lia)); unfold q, r; lia).
  rewrite HT at 1. rewrite ck_steps_add.
  destruct (ck_fresh_rows_aligned q f0) as [I1 [I2 [I3 I4]]].
  set (sq := ck_steps (q * S) (ck_fresh f0)) in *.
  destruct (ck_window_prefix q sq r I3 ltac:(lia)) as [W1 [W2 [W3 W4]]].
  pose proof (ck_steps_ti r sq) as Tr. rewrite I3 in Tr.
  unfold ck_final. rewrite Tr, ck_mod_in_window by exact Hr.
  destruct (Nat.eqb_spec r 0) as [E|NE].
  - rewrite W2, I1, E. cbn [seq map]. rewrite app_nil_r. reflexivity.
  - cbn [ck_lines]. rewrite W2, I1, W3, I2. f_equal. unfold ck_print.
    replace (r + 1 - 1) with r by lia.
    rewrite <- (ck_map_shift (ck_L f0) (q * S) r 1).
    apply map_ext_in. intros i Hi. apply in_seq in Hi.
    rewrite W4 by lia. unfold ck_L. rewrite I4, <- ck_pow_add. reflexivity.
Qed.

Theorem ck_run_rows_any tN orc f0 :
  ck_lines (ck_run tN orc (ck_fresh f0)) = ck_rows_spec_any f0 (ck_count tN orc).
Proof.
  rewrite ck_run_unfold. replace (ck_ti (ck_fresh f0)) with 0 by reflexivity.
  rewrite Nat.sub_0_r. apply ck_fresh_rows_any.
Qed.

(** every time 0..T exactly once, wherever the run ends *)
Theorem ck_rows_spec_any_perm f0 T : Permutation (ck_rows_spec_any f0 T) (map (ck_L f0) (seq 0 (T + 1))).
Proof.
  unfold ck_rows_spec_any.
  pose proof (Nat.div_mod T S ltac:(lia)) as HT.
  replace (T + 1) with ((T / S * S + 1) + T mod S) by lia.
  rewrite seq_app, map_app. apply Permutation_app; [apply ck_rows_spec_perm|].
  replace (0 + (T / S * S + 1)) with (T / S * S + 1) by lia. apply Permutation_refl.
Qed.

(** and so does a run that was stopped at multiples of saveStep only and restarted *)
Theorem ck_restart_aligned_rows_once tN1 orc1 tN2 orc2 f0 :
  let N := ck_count tN1 orc1 in
  let st1 := ck_run tN1 orc1 (ck_fresh f0) in
  N mod S = 0 ->
  forall st2r, ck_restart (ck_files st1) = Some st2r ->
  let st2 := ck_run tN2 orc2 st2r in
  Permutation (ck_lines st1 ++ ck_lines st2) (map (ck_L f0) (seq 0 (N + ck_count (tN2 - N) orc2 + 1))).
Proof.
  cbv zeta. intros HN st2r Hr.
  set (T := ck_count tN1 orc1 + ck_count (tN2 - ck_count tN1 orc1) orc2).
  destruct (ck_restart_equiv_aligned tN1 orc1 tN2 orc2 T [] f0 HN st2r Hr) as [E _].
  { rewrite ck_count_nil. reflexivity. }
  rewrite <- E, ck_run_rows_any, ck_count_nil. apply ck_rows_spec_any_perm.
Qed.

(** ** any number of restarts, stop points anywhere (tree after b2d9318) *)

(** invariant of a run inside a history: [rows] = everything printed so far (earlier runs and this one).
    With r = ti mod S and base = ti - r: the rows of the times below base + startPrint are printed, each once;
    the slots startPrint..r hold the rows of the times base + startPrint .. ti, not yet printed. *)
Definition ck_rows_inv (f0 : F) (st : ck_st) (rows : list ck_line) : Prop :=
  ck_fld st = ck_pow (ck_ti st) f0 /\
  1 <= ck_sp st <= ck_ti st mod S + 1 /\
  (forall j, ck_sp st <= j <= ck_ti st mod S -> ck_slots st j = ck_L f0 (ck_ti st - ck_ti st mod S + j)) /\
  Permutation rows (map (ck_L f0) (seq 0 (ck_ti st - ck_ti st mod S + ck_sp st))).

Lemma ck_rows_inv_iter f0 prev st :
  ck_rows_inv f0 st (prev ++ ck_lines st) -> ck_rows_inv f0 (ck_iter st) (prev ++ ck_lines (ck_iter st)).
Proof.
  intros [Hf [Hsp [Hsl Hp]]].
  pose proof (Nat.mod_upper_bound (ck_ti st) S ltac:(lia)) as Ur.
  pose proof (Nat.mod_le (ck_ti st) S ltac:(lia)) as Lr.
  unfold ck_rows_inv. rewrite ck_iter_ti, ck_iter_fld.
  assert (Hf' : step (ck_fld st) = ck_pow (ck_ti st + 1) f0) by (rewrite Hf, ck_pow_succ; reflexivity).
  destruct (ck_mod_succ (ck_ti st)) as [[M1 M2]|[M1 M2]]; rewrite M1.
  - (* a save step *)
    unfold ck_iter. rewrite M2, Nat.eqb_refl. cbn [ck_sp ck_slots ck_lines].
    split; [exact Hf'|]. split; [lia|]. split; [intros j Hj; lia|].
    set (base := ck_ti st - ck_ti st mod S) in *.
    assert (Eb : ck_ti st + 1 = base + S) by (unfold base; lia).
    replace (ck_ti st + 1 - 0 + 1) with (base + ck_sp st + (S - ck_sp st) + 1) by lia.
    rewrite (seq_app (base + ck_sp st + (S - ck_sp st)) 1), (seq_app (base + ck_sp st) (S - ck_sp st)), !map_app.
    cbn [seq map]. rewrite <- app_assoc.
    rewrite app_assoc. apply Permutation_app; [exact Hp|].
    assert (E0 : ck_collect (ck_ti st + 1) (step (ck_fld st)) (ck_slots st) 0 = ck_L f0 (base + S)).
    { unfold ck_collect. rewrite M1. cbn [Nat.eqb]. unfold ck_L. rewrite Hf', Eb. reflexivity. }
    assert (EX : ck_print (ck_collect (ck_ti st + 1) (step (ck_fld st)) (ck_slots st)) (ck_sp st) S
                 = map (ck_L f0) (seq (0 + (base + ck_sp st)) (S - ck_sp st))).
    { unfold ck_print. replace (0 + (base + ck_sp st)) with (base + ck_sp st) by lia.
      rewrite <- (ck_map_shift (ck_L f0) base (S - ck_sp st) (ck_sp st)).
      apply map_ext_in. intros j Hj. apply in_seq in Hj. unfold ck_collect. rewrite M1.
      destruct (Nat.eqb_spec j 0) as [->|_]; [lia|]. apply Hsl. lia. }
    rewrite E0, EX.
    replace (0 + (base + ck_sp st + (S - ck_sp st))) with (base + S) by lia.
    apply Permutation_cons_append.
  - (* inside a save window *)
    unfold ck_iter. destruct (Nat.eqb_spec (ck_ti st mod S) (S - 1)) as [E|_]; [lia|].
    cbn [ck_sp ck_slots ck_lines].
    split; [exact Hf'|]. split; [lia|].
    replace (ck_ti st + 1 - (ck_ti st mod S + 1)) with (ck_ti st - ck_ti st mod S) by lia.
    split; [|exact Hp].
    intros j Hj. unfold ck_collect. rewrite M1.
    destruct (Nat.eqb_spec j (ck_ti st mod S + 1)) as [->|NE].
    + unfold ck_L. rewrite Hf'. f_equal. f_equal; [lia|]. f_equal. f_equal. lia.
    + apply Hsl. lia.
Qed.

Lemma ck_rows_inv_steps f0 prev j : forall st,
  ck_rows_inv f0 st (prev ++ ck_lines st) -> ck_rows_inv f0 (ck_steps j st) (prev ++ ck_lines (ck_steps j st)).
Proof.
  induction j as [|j IH]; intros st H; cbn [ck_steps]; [exact H|]. apply IH. apply ck_rows_inv_iter. exact H.
Qed.

Lemma ck_rows_inv_final f0 prev st :
  ck_rows_inv f0 st (prev ++ ck_lines st) ->
  Permutation (prev ++ ck_lines (ck_final st)) (map (ck_L f0) (seq 0 (ck_ti st + 1))).
Proof.
  intros [Hf [Hsp [Hsl Hp]]].
  pose proof (Nat.mod_le (ck_ti st) S ltac:(lia)) as Lr.
  unfold ck_final. destruct (Nat.eqb_spec (ck_ti st mod S) 0) as [E|NE].
  - rewrite E in *. assert (ck_sp st = 1) as E1 by lia. rewrite E1, Nat.sub_0_r in Hp. exact Hp.
  - cbn [ck_lines]. set (base := ck_ti st - ck_ti st mod S) in *.
    replace (ck_ti st + 1) with (base + ck_sp st + (ck_ti st mod S + 1 - ck_sp st)) by (unfold base; lia).
    rewrite seq_app, map_app, app_assoc. apply Permutation_app; [exact Hp|].
    unfold ck_print. replace (0 + (base + ck_sp st)) with (base + ck_sp st) by lia.
    rewrite <- (ck_map_shift (ck_L f0) base _ (ck_sp st)).
    erewrite map_ext_in; [apply Permutation_refl|].
    intros j Hj. apply in_seq in Hj. apply Hsl. lia.
Qed.

Lemma ck_rows_inv_fresh f0 : ck_rows_inv f0 (ck_fresh f0) ([] ++ ck_lines (ck_fresh f0)).
Proof.
  unfold ck_rows_inv, ck_fresh. cbn [ck_ti ck_fld ck_sp ck_slots ck_lines app ck_pow].
  rewrite Nat.mod_0_l by lia. cbn [Nat.sub Nat.add seq map].
  split; [reflexivity|]. split; [lia|]. split; [intros j Hj; lia|].
  unfold ck_collect, ck_L. rewrite Nat.mod_0_l by lia. cbn [Nat.eqb ck_pow]. apply Permutation_refl.
Qed.

Lemma ck_rows_inv_resume f0 prev N :
  Permutation prev (map (ck_L f0) (seq 0 (N + 1))) ->
  ck_rows_inv f0 (ck_resume N (ck_pow N f0)) (prev ++ ck_lines (ck_resume N (ck_pow N f0))).
Proof.
  intros H. unfold ck_rows_inv, ck_resume. cbn [ck_ti ck_fld ck_sp ck_slots ck_lines].
  pose proof (Nat.mod_le N S ltac:(lia)) as Lr.
  split; [reflexivity|]. split; [lia|]. split; [intros j Hj; lia|].
  rewrite app_nil_r. replace (N - N mod S + (N mod S + 1)) with (N + 1) by lia. exact H.
Qed.

(** one run of a history: from an invariant start state, rows / time / field at the end *)
Lemma ck_run_rows_inv f0 prev tN orc st :
  ck_rows_inv f0 st (prev ++ ck_lines st) ->
  Permutation (prev ++ ck_lines (ck_run tN orc st)) (map (ck_L f0) (seq 0 (ck_ti (ck_run tN orc st) + 1))).
Proof.
  intros H. rewrite ck_run_unfold, ck_final_ti.
  apply ck_rows_inv_final. apply ck_rows_inv_steps. exact H.
Qed.

Lemma ck_latest_of_spec folder T f0 :
  (forall k g, In (k, g) folder -> g = ck_pow k f0 /\ k <= T) -> In (T, ck_pow T f0) folder ->
  ck_latest folder = Some (T, ck_pow T f0).
Proof.
  intros Hall Hin.
  destruct (ck_latest_some folder) as [k [g E]]; [intros E; rewrite E in Hin; destruct Hin|].
  destruct (ck_latest_in folder k g E) as [I1 I2].
  destruct (Hall k g I1) as [-> Hk]. specialize (I2 T _ Hin). assert (k = T) by lia. subst k. exact E.
Qed.

(** a history: a new simulation, then any number of restarts from the folder; every run ends where its
    tEnd / wall clock says.  [stops] lists the end points N1 <= N2 <= ... of the runs. *)
Inductive ck_hist (f0 : F) : ck_st -> list (nat * F) -> list ck_line -> list nat -> Prop :=
| ck_hist_new tN orc st :
    st = ck_run tN orc (ck_fresh f0) ->
    ck_hist f0 st (ck_files st) (ck_lines st) [ck_ti st]
| ck_hist_restart st0 folder rows stops st1 tN orc st :
    ck_hist f0 st0 folder rows stops -> ck_restart folder = Some st1 ->
    st = ck_run tN orc st1 ->
    ck_hist f0 st (folder ++ ck_files st) (rows ++ ck_lines st) (stops ++ [ck_ti st]).

Definition ck_hist_ok (f0 : F) (st : ck_st) (folder : list (nat * F)) (rows : list ck_line) (stops : list nat) : Prop :=
  let T := ck_ti st in
  ck_fld st = ck_pow T f0 /\
  Permutation rows (map (ck_L f0) (seq 0 (T + 1))) /\
  (forall k g, In (k, g) folder <-> g = ck_pow k f0 /\ ((k mod S = 0 /\ k <= T) \/ In k stops)) /\
  (forall N, In N stops -> N <= T) /\ In T stops /\
  ck_latest folder = Some (T, ck_pow T f0).

Lemma ck_hist_ok_latest f0 st folder stops :
  ck_fld st = ck_pow (ck_ti st) f0 ->
  (forall k g, In (k, g) folder <-> g = ck_pow k f0 /\ ((k mod S = 0 /\ k <= ck_ti st) \/ In k stops)) ->
  (forall N, In N stops -> N <= ck_ti st) -> In (ck_ti st) stops ->
  ck_latest folder = Some (ck_ti st, ck_pow (ck_ti st) f0).
Proof.
  intros Hf Hs Hle Hin. apply ck_latest_of_spec.
  - intros k g H. apply Hs in H. destruct H as [-> [[_ H]|H]]; split; try reflexivity; [exact H|apply Hle; exact H].
  - apply Hs. split; [reflexivity|right; exact Hin].
Qed.

(** [restart_equiv] in full: for every save interval >= 1 and every history (any number of restarts, stop
    points anywhere) the final time and field are those of the uninterrupted run, the rows of all runs
    together are the times 0..T each exactly once, the folder holds the checkpoints of 0, the multiples of
    saveStep up to T and the stop points, each with the field of its time, and the next restart would resume
    from (T, field at T) *)
Theorem ck_hist_spec f0 st folder rows stops :
  ck_hist f0 st folder rows stops -> ck_hist_ok f0 st folder rows stops.
Proof.
  induction 1 as [tN orc st Est|st0 folder rows stops st1 tN orc st H IH Hr Est].
  - (* a new simulation *)
    pose proof (ck_run_state tN orc (ck_fresh f0)) as [T1 F1]. rewrite <- Est in T1, F1.
    cbn [ck_fresh ck_ti ck_fld] in T1, F1. unfold ck_stop in T1. rewrite Nat.sub_0_r, Nat.add_0_l in *.
    assert (Hfld : ck_fld st = ck_pow (ck_ti st) f0) by (rewrite F1, T1; reflexivity).
    assert (Hspec : forall k g, In (k, g) (ck_files st) <->
                      g = ck_pow k f0 /\ ((k mod S = 0 /\ k <= ck_ti st) \/ In k [ck_ti st])).
    { intros k g. rewrite Est at 1. rewrite ck_fresh_files_spec. rewrite <- T1. cbn [In]. split.
      - intros [Hg [Hk [Hm|Hm]]]; (split; [exact Hg|]).
        + left. split; assumption.
        + right. left. symmetry. exact Hm.
      - intros [Hg [[Hm Hk]|[Hm|[]]]]; (split; [exact Hg|]).
        + split; [exact Hk|left; exact Hm].
        + split; [lia|right; symmetry; exact Hm]. }
    unfold ck_hist_ok. cbv zeta. split; [exact Hfld|]. split.
    + pose proof (ck_run_rows_inv f0 [] tN orc (ck_fresh f0) (ck_rows_inv_fresh f0)) as P.
      rewrite <- Est in P. exact P.
    + split; [exact Hspec|]. split; [intros N [<-|[]]; lia|]. split; [left; reflexivity|].
      apply (ck_hist_ok_latest f0 st (ck_files st) [ck_ti st]); try assumption.
      * intros N [<-|[]]. lia.
      * left. reflexivity.
  - (* a restart *)
    destruct IH as [F0 [P0 [S0 [L0 [I0 Lat0]]]]].
    unfold ck_restart in Hr. rewrite Lat0 in Hr. inversion Hr; subst st1; clear Hr.
    set (N := ck_ti st0) in *.
    pose proof (ck_run_state tN orc (ck_resume N (ck_pow N f0))) as [T1 F1]. rewrite <- Est in T1, F1.
    cbn [ck_resume ck_ti ck_fld] in T1, F1. unfold ck_stop in T1.
    set (j := ck_count (tN - N) orc) in *.
    assert (Hfld : ck_fld st = ck_pow (ck_ti st) f0) by (rewrite F1, T1, <- ck_pow_add; reflexivity).
    assert (Hnew : ck_files st = ck_saves N j (ck_pow N f0) ++ ck_final_save (N + j) (ck_pow j (ck_pow N f0))).
    { rewrite Est, ck_run_files. cbn [ck_resume ck_ti ck_fld ck_files app]. reflexivity. }
    assert (Hspec : forall k g, In (k, g) (folder ++ ck_files st) <->
                      g = ck_pow k f0 /\ ((k mod S = 0 /\ k <= ck_ti st) \/ In k (stops ++ [ck_ti st]))).
    { intros k g. rewrite Hnew, !in_app_iff, S0, ck_saves_spec. unfold ck_final_save. rewrite T1. cbn [In].
      split.
      - intros [[Hg [[Hm Hk]|Hs]]|[[H1 [H2 H3]]|H3]].
        + split; [exact Hg|]. left. split; [exact Hm|lia].
        + split; [exact Hg|]. right. left. exact Hs.
        + split; [subst g; rewrite <- ck_pow_add; f_equal; lia|]. left. split; [exact H2|lia].
        + destruct ((N + j) mod S =? 0); [destruct H3|]. destruct H3 as [H3|[]]. inversion H3; subst.
          split; [rewrite <- ck_pow_add; reflexivity|]. right. right. left. reflexivity.
      - intros [Hg [[Hm Hk]|[Hs|[<-|[]]]]].
        + destruct (Nat.le_gt_cases k N) as [Le|Gt].
          * left. split; [exact Hg|]. left. split; assumption.
          * right. left. repeat split; [lia|lia|exact Hm|]. subst g. rewrite <- ck_pow_add. f_equal. lia.
        + left. split; [exact Hg|]. right. exact Hs.
        + destruct (Nat.eqb_spec ((N + j) mod S) 0) as [E|NE].
          * destruct (Nat.eq_dec j 0) as [->|NZ].
            -- left. split; [exact Hg|]. right. rewrite Nat.add_0_r. exact I0.
            -- right. left. repeat split; [lia|lia|exact E|]. subst g. rewrite <- ck_pow_add. f_equal. lia.
          * right. right. left. subst g. rewrite <- ck_pow_add. reflexivity. }
    assert (Hle : forall M, In M (stops ++ [ck_ti st]) -> M <= ck_ti st).
    { intros M HM. apply in_app_iff in HM. destruct HM as [HM|[<-|[]]]; [|lia]. specialize (L0 M HM). lia. }
    unfold ck_hist_ok. cbv zeta. split; [exact Hfld|]. split.
    + pose proof (ck_run_rows_inv f0 rows tN orc (ck_resume N (ck_pow N f0))
                    (ck_rows_inv_resume f0 rows N P0)) as P.
      rewrite <- Est in P. exact P.
    + split; [exact Hspec|]. split; [exact Hle|]. split; [apply in_app_iff; right; left; reflexivity|].
      apply (ck_hist_ok_latest f0 st _ (stops ++ [ck_ti st])); try assumption.
      apply in_app_iff. right. left. reflexivity.
Qed.

(** the uninterrupted run to the same time: same time and field (its rows are [ck_rows_spec_any], a
    permutation of the same times, and its checkpoints are those of the history minus the stop points) *)
Corollary ck_hist_vs_uninterrupted f0 st folder rows stops :
  ck_hist f0 st folder rows stops ->
  let stu := ck_run (ck_ti st) [] (ck_fresh f0) in
  ck_ti stu = ck_ti st /\ ck_fld stu = ck_fld st /\ Permutation rows (ck_lines stu) /\
  (forall k g, In (k, g) (ck_files stu) -> In (k, g) folder) /\
  (forall k g, In (k, g) folder -> In (k, g) (ck_files stu) \/ In k stops).
Proof.
  intros H. destruct (ck_hist_spec _ _ _ _ _ H) as [F0 [P0 [S0 [L0 [I0 _]]]]]. cbv zeta.
  pose proof (ck_run_state (ck_ti st) [] (ck_fresh f0)) as [T1 F1].
  cbn [ck_fresh ck_ti ck_fld] in T1, F1. unfold ck_stop in T1. rewrite Nat.sub_0_r, ck_count_nil in *.
  split; [exact T1|]. split; [rewrite F1, F0; reflexivity|]. split.
  - rewrite ck_run_rows_any, ck_count_nil. eapply Permutation_trans; [exact P0|].
    apply Permutation_sym. apply ck_rows_spec_any_perm.
  - split; intros k g Hin.
    + apply ck_fresh_files_spec in Hin. rewrite ck_count_nil in Hin. destruct Hin as [Hg [Hk [Hm| ->]]].
      * apply S0. split; [exact Hg|]. left. split; assumption.
      * apply S0. split; [exact Hg|]. right. exact I0.
    + apply S0 in Hin. destruct Hin as [Hg [[Hm Hk]|Hs]]; [left|right; exact Hs].
      apply ck_fresh_files_spec. rewrite ck_count_nil. repeat split; [exact Hg|exact Hk|left; exact Hm].
Qed.

End Driver.

(** time stamps: the driver's t is k*dt, a checkpoint is named after t, the restart derives ti from t.
    For an integer dt, t // dt is exact: *)
Definition ck_ti_of_time (dt t : nat) : nat := t / dt.
Lemma ck_ti_roundtrip dt k : 0 < dt -> ck_ti_of_time dt (k * dt) = k.
Proof. intros H. unfold ck_ti_of_time. apply Nat.div_mul. lia. Qed.

(** For a float dt the time of step k is accumulated (t += dt, k times) and differs from k*dt by rounding.
    Since eb78f61 / 56219e6 the driver and the collector take the NEAREST step, int(t/dt + 0.5).  Times and
    dt are binary64 numbers, i.e. integer multiples of a common unit (2^-1074): [t], [dt] below are those
    integers, and floor(t/dt + 1/2) = (2t + dt) / (2dt) in integer division.  (The float evaluation of
    t/dt + 0.5 carries a relative error of about 1e-16, far below the margin 1/2; the harness evaluates the
    exact formula on the exact values of every restart time of the non-dyadic histories.) *)
Definition ck_nearest_step (dt t : Z) : Z := ((2 * t + dt) / (2 * dt))%Z.
Definition ck_floor_step (dt t : Z) : Z := (t / dt)%Z.

(** nearest step of any time closer to k*dt than half a step is k ... *)
Lemma ck_nearest_step_spec dt t k : (0 < dt)%Z -> (2 * Z.abs (t - k * dt) < dt)%Z -> ck_nearest_step dt t = k.
Proof.
  intros Hd Ht. unfold ck_nearest_step. symmetry.
  apply (Z.div_unique_pos (2 * t + dt) (2 * dt) k (2 * (t - k * dt) + dt)); lia.
Qed.

Lemma ck_nearest_step_exact dt k : (0 < dt)%Z -> ck_nearest_step dt (k * dt) = k.
Proof. intros Hd. apply ck_nearest_step_spec; [exact Hd|]. replace (k * dt - k * dt)%Z with 0%Z by lia. cbn. lia. Qed.

(** ... whereas the floor t // dt of the pinned tree is one short as soon as the accumulated time is
    below k*dt by any amount (dt = 0.1: 0.5 // 0.1 = 4) *)
Lemma ck_floor_step_short dt t k : (0 < dt)%Z -> (k * dt - dt <= t < k * dt)%Z -> ck_floor_step dt t = (k - 1)%Z.
Proof.
  intros Hd Ht. unfold ck_floor_step. symmetry.
  apply (Z.div_unique_pos t dt (k - 1) (t - (k - 1) * dt)); lia.
Qed.

(** binary64: 0.1 = 3602879701896397 / 2^55 and 0.5 = 2^54 / 2^55: 0.5 // 0.1 = 4, nearest step 5 *)
Example ck_floor_vs_nearest_tenth :
  ck_floor_step 3602879701896397 18014398509481984 = 4%Z /\
  ck_nearest_step 3602879701896397 18014398509481984 = 5%Z.
Proof. vm_compute. split; reflexivity. Qed.

(** ** executable instance: the field is the number of steps applied to the initial one *)
Definition ck_line_time (l : option (nat * nat)) : option nat :=
  match l with Some (k, _) => Some k | None => None end.

(** result: (ti, field tag, nLoops, times of the files written, time index of every line printed) *)
Definition ck_run_nat (S tN : nat) (start : option nat) (orc : list bool)
  : nat * nat * nat * list (nat * nat) * list (option (nat * nat)) :=
  let st0 := match start with
             | None => ck_fresh nat nat (fun x => x) S 0
             | Some k => ck_resume nat nat (fun x => x) S k k
             end in
  let st := ck_run nat nat Datatypes.S (fun x => x) S tN orc st0 in
  (ck_ti _ _ st, ck_fld _ _ st, ck_nloops _ _ st, ck_files _ _ st, ck_lines _ _ st).

(** ** what the faithful model refutes (concrete histories, F = nat, step = S; [None] = zero row) *)
Definition ck_lines_unsplit_nat (S T : nat) : list (option nat) :=
  map ck_line_time (ck_lines _ _ (ck_run nat nat Datatypes.S (fun x => x) S T [] (ck_fresh nat nat (fun x => x) S 0))).

Definition ck_lines_split_nat (S N T : nat) : list (option nat) :=
  let st1 := ck_run nat nat Datatypes.S (fun x => x) S N [] (ck_fresh nat nat (fun x => x) S 0) in
  match ck_restart nat nat (fun x => x) S (ck_files _ _ st1) with
  | Some st2r => map ck_line_time (ck_lines _ _ st1 ++ ck_lines _ _ (ck_run nat nat Datatypes.S (fun x => x) S T [] st2r))
  | None => []
  end.

(** examples (F = nat, step = S): saveStep 3, 7 steps *)
Example ck_final_window_example :
  ck_lines_unsplit_nat 3 7 = [Some 0; Some 3; Some 1; Some 2; Some 6; Some 4; Some 5; Some 7].
Proof. vm_compute. reflexivity. Qed.

(** restarts from stop times that are not multiples of saveStep, the witnesses that were refutations before
    b2d9318 (then: [0;1;1;2;6;4;5] - row 1 twice, row 3 never - and [0;1;2;-;2;3] - a zero row) *)
Example ck_restart_unaligned_examples :
  ck_lines_unsplit_nat 3 6 = [Some 0; Some 3; Some 1; Some 2; Some 6; Some 4; Some 5] /\
  ck_lines_split_nat 3 1 6 = [Some 0; Some 1; Some 3; Some 2; Some 6; Some 4; Some 5] /\
  ck_lines_split_nat 4 2 3 = [Some 0; Some 1; Some 2; Some 3].
Proof. vm_compute. repeat split. Qed.
