(** C15: the mathematical discrete Fourier transform over an abstract field K with a primitive n-th root of
    unity w (w^n = 1, w^k <> 1 for 0 < k < n, n invertible in K):

      dft x k  = sum_{j<n} x j * w^(j k)            idft y j = (1/n) sum_{k<n} y k * w^((n-1) j k)

    Proved: the geometric sum (sum_j (w^t)^j = n if n | t, else 0), orthogonality, idft o dft = id and
    dft o idft = id, linearity, extensionality; and, for a conjugation (an involutive ring automorphism
    with conj w = w^(n-1)): the transform of a real line is conjugate symmetric, and the inverse transform
    of a conjugate-symmetric line is real. *)
From Coq Require Import List Arith Lia Field Ring PeanoNat Bool.
From PGV Require Import Sums QnModes.

Section Dft.
Variable K : Type.
Variables (k0 k1 : K) (kadd kmul ksub kdiv : K -> K -> K) (kopp kinv : K -> K).
Hypothesis Kth : field_theory k0 k1 kadd kmul ksub kopp kdiv kinv (@eq K).
Add Field DFTK : Kth.
Notation sumn := (sumn K k0 kadd).
Notation "x + y" := (kadd x y). Notation "x * y" := (kmul x y). Notation "x - y" := (ksub x y).

Fixpoint df_pow (w : K) (m : nat) : K := match m with O => k1 | S m' => w * df_pow w m' end.
Definition df_ofnat (n : nat) : K := sumn n (fun _ => k1).

Lemma df_pow_add w a b : df_pow w (a + b)%nat = df_pow w a * df_pow w b.
Proof. induction a as [|a IH]; cbn [df_pow Nat.add]; [ring|]. rewrite IH. ring. Qed.
Lemma df_pow_one m : df_pow k1 m = k1.
Proof. induction m as [|m IH]; cbn [df_pow]; [reflexivity|]. rewrite IH. ring. Qed.
Lemma df_pow_mul w a b : df_pow w (a * b)%nat = df_pow (df_pow w a) b.
Proof.
  induction b as [|b IH]; cbn [df_pow].
  - rewrite Nat.mul_0_r. reflexivity.
  - replace (a * S b)%nat with (a + a * b)%nat by lia. rewrite df_pow_add, IH. reflexivity.
Qed.

Lemma df_sumn_const n c : sumn n (fun _ => c) = c * df_ofnat n.
Proof. unfold df_ofnat. induction n as [|n IH]; cbn [Sums.sumn]; [ring|]. rewrite IH. ring. Qed.
Lemma df_sumn_zero n f : (forall j, (j < n)%nat -> f j = k0) -> sumn n f = k0.
Proof. induction n as [|n IH]; intros H; cbn [Sums.sumn]; [reflexivity|]. rewrite IH, H by (intros; try apply H; lia). ring. Qed.
(** a sum with a single non-zero term *)
Lemma df_sumn_delta n j f : (j < n)%nat -> (forall l, (l < n)%nat -> l <> j -> f l = k0) -> sumn n f = f j.
Proof.
  induction n as [|n IH]; intros Hj H; [lia|]. cbn [Sums.sumn].
  destruct (Nat.eq_dec j n) as [->|Hne].
  - rewrite df_sumn_zero by (intros l Hl; apply H; lia). ring.
  - rewrite IH by (try lia; intros l Hl Hlj; apply H; lia). rewrite (H n) by lia. ring.
Qed.

(** geometric sum, before dividing *)
Lemma df_geom z n : (z - k1) * sumn n (fun j => df_pow z j) = df_pow z n - k1.
Proof. induction n as [|n IH]; cbn [Sums.sumn df_pow]; [ring|]. transitivity ((z - k1) * sumn n (fun j => df_pow z j) + (z - k1) * df_pow z n); [ring|]. rewrite IH. ring. Qed.

(** primitive n-th root of unity *)
Record df_prim_root (n : nat) (w : K) : Prop := {
  pr_pos : (0 < n)%nat;
  pr_one : df_pow w n = k1;
  pr_prim : forall k, (0 < k < n)%nat -> df_pow w k <> k1;
  pr_ninv : df_ofnat n <> k0
}.

Section Root.
Variable n : nat.
Variable w : K.
Hypothesis PR : df_prim_root n w.

Lemma df_pow_n_mul m : df_pow w (n * m) = k1.
Proof. rewrite df_pow_mul, (pr_one n w PR). apply df_pow_one. Qed.
Lemma df_pow_mod m : df_pow w m = df_pow w (m mod n).
Proof.
  pose proof (pr_pos n w PR) as Hn. rewrite (Nat.div_mod m n) at 1 by lia.
  rewrite df_pow_add, df_pow_n_mul. ring.
Qed.

(** geometric-sum lemma: sum_{j<n} w^(j t) = n if n | t, else 0 *)
Theorem df_geom_sum t : sumn n (fun j => df_pow w (j * t)) = if (t mod n =? 0)%nat then df_ofnat n else k0.
Proof.
  pose proof (pr_pos n w PR) as Hn.
  assert (E : forall j, df_pow w (j * t) = df_pow (df_pow w (t mod n)) j).
  { intros j. rewrite Nat.mul_comm, df_pow_mul. f_equal. apply df_pow_mod. }
  rewrite (sumn_ext K k0 kadd n _ (fun j => df_pow (df_pow w (t mod n)) j)) by (intros; apply E).
  destruct (Nat.eqb_spec (t mod n) 0) as [H0|H0].
  - rewrite H0. cbn [df_pow]. rewrite (sumn_ext K k0 kadd n _ (fun _ => k1)) by (intros; apply df_pow_one).
    rewrite df_sumn_const. ring.
  - set (z := df_pow w (t mod n)).
    assert (Hz : z <> k1) by (apply (pr_prim n w PR); pose proof (Nat.mod_upper_bound t n); lia).
    assert (Hzn : df_pow z n = k1) by (unfold z; rewrite <- df_pow_mul, Nat.mul_comm; apply df_pow_n_mul).
    pose proof (df_geom z n) as G. rewrite Hzn in G.
    assert (Hz' : z - k1 <> k0) by (intros E0; apply Hz; transitivity ((z - k1) + k1); [ring|rewrite E0; ring]).
    transitivity (((z - k1) * sumn n (fun j => df_pow z j)) * kinv (z - k1)); [field; exact Hz'|].
    rewrite G. field. exact Hz'.
Qed.

Lemma df_cond_iff l k : (l < n)%nat -> (k < n)%nat -> ((l + (n - 1) * k) mod n = 0)%nat <-> l = k.
Proof.
  intros Hl Hk. pose proof (pr_pos n w PR) as Hn. split.
  - intros H. apply Nat.mod_divides in H; [|lia]. destruct H as [q Hq].
    assert (E : (l + n * k = n * q + k)%nat) by nia.
    destruct (Nat.lt_trichotomy q k) as [Hlt|[->|Hgt]]; [exfalso; nia|lia|exfalso; nia].
  - intros ->. replace (k + (n - 1) * k)%nat with (k * n)%nat by nia. apply Nat.mod_mul. lia.
Qed.

(** orthogonality *)
Theorem df_orth l k : (l < n)%nat -> (k < n)%nat ->
  sumn n (fun j => df_pow w (j * (l + (n - 1) * k))) = if (l =? k)%nat then df_ofnat n else k0.
Proof.
  intros Hl Hk. rewrite df_geom_sum. pose proof (df_cond_iff l k Hl Hk) as C.
  destruct (Nat.eqb_spec ((l + (n - 1) * k) mod n) 0) as [H|H], (Nat.eqb_spec l k) as [E|E]; try reflexivity; tauto.
Qed.

Definition df_dft (x : nat -> K) (k : nat) : K := sumn n (fun j => x j * df_pow w (j * k)).
Definition df_idft (y : nat -> K) (j : nat) : K := kinv (df_ofnat n) * sumn n (fun k => y k * df_pow w ((n - 1) * (j * k))).

Lemma df_dft_ext x y : (forall k, (k < n)%nat -> x k = y k) -> forall k, df_dft x k = df_dft y k.
Proof. intros H k. unfold df_dft. apply (sumn_ext K k0 kadd). intros j Hj. rewrite H by exact Hj. reflexivity. Qed.
Lemma df_idft_ext x y : (forall k, (k < n)%nat -> x k = y k) -> forall k, df_idft x k = df_idft y k.
Proof. intros H k. unfold df_idft. f_equal. apply (sumn_ext K k0 kadd). intros j Hj. rewrite H by exact Hj. reflexivity. Qed.

Lemma df_dft_lin c x y k : df_dft (fun j => c * x j + y j) k = c * df_dft x k + df_dft y k.
Proof.
  unfold df_dft. rewrite <- (sumn_scale K k0 k1 kadd kmul ksub kdiv kopp kinv Kth), <- (sumn_add K k0 k1 kadd kmul ksub kdiv kopp kinv Kth).
  apply (sumn_ext K k0 kadd). intros; ring.
Qed.
Lemma df_idft_lin c x y k : df_idft (fun j => c * x j + y j) k = c * df_idft x k + df_idft y k.
Proof.
  unfold df_idft.
  transitivity (kinv (df_ofnat n) * (c * sumn n (fun k1 => x k1 * df_pow w ((n - 1) * (k * k1))) + sumn n (fun k1 => y k1 * df_pow w ((n - 1) * (k * k1))))); [|ring].
  f_equal. rewrite <- (sumn_scale K k0 k1 kadd kmul ksub kdiv kopp kinv Kth), <- (sumn_add K k0 k1 kadd kmul ksub kdiv kopp kinv Kth).
  apply (sumn_ext K k0 kadd). intros; ring.
Qed.

(** idft o dft = id *)
Theorem df_round_trip x j : (j < n)%nat -> df_idft (df_dft x) j = x j.
Proof.
  intros Hj. unfold df_idft, df_dft.
  assert (E : sumn n (fun k => sumn n (fun l => x l * df_pow w (l * k)) * df_pow w ((n - 1) * (j * k)))
              = sumn n (fun l => x l * (if (l =? j)%nat then df_ofnat n else k0))).
  { rewrite (sumn_ext K k0 kadd n _ (fun k => sumn n (fun l => x l * df_pow w (k * (l + (n - 1) * j))))).
    2:{ intros k Hk.
        transitivity (sumn n (fun l => df_pow w ((n - 1) * (j * k)) * (x l * df_pow w (l * k)))); [|apply (sumn_ext K k0 kadd); intros l Hl].
        - rewrite (sumn_scale K k0 k1 kadd kmul ksub kdiv kopp kinv Kth). ring.
        - replace (k * (l + (n - 1) * j))%nat with (l * k + (n - 1) * (j * k))%nat by ring. rewrite df_pow_add. ring. }
    rewrite (sumn_swap K k0 k1 kadd kmul ksub kdiv kopp kinv Kth).
    apply (sumn_ext K k0 kadd). intros l Hl. rewrite (sumn_scale K k0 k1 kadd kmul ksub kdiv kopp kinv Kth).
    rewrite (df_orth l j Hl Hj). reflexivity. }
  rewrite E. rewrite (df_sumn_delta n j _ Hj); [|intros l Hl Hne; destruct (Nat.eqb_spec l j); [contradiction|ring]].
  rewrite Nat.eqb_refl. field. exact (pr_ninv n w PR).
Qed.

(** dft o idft = id *)
Theorem df_round_trip' y k : (k < n)%nat -> df_dft (df_idft y) k = y k.
Proof.
  intros Hk. unfold df_idft, df_dft.
  assert (E : sumn n (fun j => (kinv (df_ofnat n) * sumn n (fun l => y l * df_pow w ((n - 1) * (j * l)))) * df_pow w (j * k))
              = kinv (df_ofnat n) * sumn n (fun l => y l * (if (l =? k)%nat then df_ofnat n else k0))).
  { rewrite <- (sumn_scale K k0 k1 kadd kmul ksub kdiv kopp kinv Kth).
    rewrite (sumn_ext K k0 kadd n _ (fun j => sumn n (fun l => kinv (df_ofnat n) * (y l * df_pow w (j * (k + (n - 1) * l)))))).
    2:{ intros j Hj. transitivity (sumn n (fun l => (kinv (df_ofnat n) * df_pow w (j * k)) * (y l * df_pow w ((n - 1) * (j * l))))).
        - rewrite (sumn_scale K k0 k1 kadd kmul ksub kdiv kopp kinv Kth). ring.
        - apply (sumn_ext K k0 kadd); intros l Hl.
          replace (j * (k + (n - 1) * l))%nat with (j * k + (n - 1) * (j * l))%nat by ring. rewrite df_pow_add. ring. }
    rewrite (sumn_swap K k0 k1 kadd kmul ksub kdiv kopp kinv Kth).
    apply (sumn_ext K k0 kadd). intros l Hl.
    rewrite (sumn_ext K k0 kadd n _ (fun j => (kinv (df_ofnat n) * y l) * df_pow w (j * (k + (n - 1) * l)))) by (intros; ring).
    rewrite (sumn_scale K k0 k1 kadd kmul ksub kdiv kopp kinv Kth). rewrite (df_orth k l Hk Hl).
    rewrite (Nat.eqb_sym k l). ring. }
  rewrite E. rewrite (df_sumn_delta n k _ Hk); [|intros l Hl Hne; destruct (Nat.eqb_spec l k); [contradiction|ring]].
  rewrite Nat.eqb_refl. field. exact (pr_ninv n w PR).
Qed.

(** two powers of w with the same inverse are equal *)
Lemma df_pow_cancel a b c : df_pow w (a + c) = k1 -> df_pow w (b + c) = k1 -> df_pow w a = df_pow w b.
Proof.
  rewrite !df_pow_add. intros Ha Hb.
  transitivity (df_pow w a * (df_pow w b * df_pow w c)); [rewrite Hb; ring|].
  transitivity (df_pow w b * (df_pow w a * df_pow w c)); [ring|rewrite Ha; ring].
Qed.

(** w^(j * conj k) = w^((n-1) j k): the conjugate index carries the inverse power *)
Lemma df_pow_conj_index j k : (k < n)%nat -> df_pow w (j * qn_conj n k) = df_pow w ((n - 1) * (j * k)).
Proof.
  intros Hk. pose proof (pr_pos n w PR) as Hn. apply (df_pow_cancel _ _ (j * k)).
  - destruct (qn_conj_cases n k Hk) as [[-> ->]|[Hpos ->]].
    + rewrite Nat.mul_0_r. reflexivity.
    + replace (j * (n - k) + j * k)%nat with (n * j)%nat by nia. apply df_pow_n_mul.
  - replace ((n - 1) * (j * k) + j * k)%nat with (n * (j * k))%nat by nia. apply df_pow_n_mul.
Qed.

(* ------------------------------------------------------------------------------------------ *)
(** * Conjugation *)
Variable cj : K -> K.
Record df_conj_laws : Prop := {
  cj_add : forall a b, cj (a + b) = cj a + cj b;
  cj_mul : forall a b, cj (a * b) = cj a * cj b;
  cj_one : cj k1 = k1;
  cj_zero : cj k0 = k0;
  cj_invol : forall a, cj (cj a) = a;
  cj_root : cj w = df_pow w (n - 1)
}.
Hypothesis CJ : df_conj_laws.

Lemma df_cj_sumn m f : cj (sumn m f) = sumn m (fun j => cj (f j)).
Proof. induction m as [|m IH]; cbn [Sums.sumn]; [apply (cj_zero CJ)|]. rewrite (cj_add CJ), IH. reflexivity. Qed.
Lemma df_cj_pow m : cj (df_pow w m) = df_pow w ((n - 1) * m).
Proof.
  induction m as [|m IH]; cbn [df_pow].
  - rewrite Nat.mul_0_r. apply (cj_one CJ).
  - rewrite (cj_mul CJ), IH, (cj_root CJ). replace ((n - 1) * S m)%nat with ((n - 1) + (n - 1) * m)%nat by lia.
    rewrite df_pow_add. reflexivity.
Qed.
Lemma df_cj_ofnat m : cj (df_ofnat m) = df_ofnat m.
Proof. unfold df_ofnat. rewrite df_cj_sumn. apply (sumn_ext K k0 kadd). intros; apply (cj_one CJ). Qed.
Lemma df_cj_ninv : cj (kinv (df_ofnat n)) = kinv (df_ofnat n).
Proof.
  pose proof (pr_ninv n w PR) as Hn.
  assert (E : cj (kinv (df_ofnat n)) * df_ofnat n = k1).
  { assert (E0 : cj (kinv (df_ofnat n)) * cj (df_ofnat n) = k1).
    { transitivity (cj (kinv (df_ofnat n) * df_ofnat n)); [symmetry; apply (cj_mul CJ)|].
      transitivity (cj k1); [f_equal; field; exact Hn|apply (cj_one CJ)]. }
    rewrite df_cj_ofnat in E0. exact E0. }
  transitivity ((cj (kinv (df_ofnat n)) * df_ofnat n) * kinv (df_ofnat n)); [field; exact Hn|]. rewrite E. ring.
Qed.
(** (n-1)^2 = 1 mod n *)
Lemma df_pow_sq m : df_pow w ((n - 1) * ((n - 1) * m)) = df_pow w m.
Proof.
  apply (df_pow_cancel _ _ ((n - 1) * m)).
  - replace ((n - 1) * ((n - 1) * m) + (n - 1) * m)%nat with (n * ((n - 1) * m))%nat by (pose proof (pr_pos n w PR); nia). apply df_pow_n_mul.
  - replace (m + (n - 1) * m)%nat with (n * m)%nat by (pose proof (pr_pos n w PR); nia). apply df_pow_n_mul.
Qed.

(** conj (dft x k) = sum_j conj (x j) w^(j * conj k) *)
Lemma df_cj_dft x k : (k < n)%nat -> cj (df_dft x k) = df_dft (fun j => cj (x j)) (qn_conj n k).
Proof.
  intros Hk. unfold df_dft. rewrite df_cj_sumn. apply (sumn_ext K k0 kadd). intros j Hj.
  rewrite (cj_mul CJ), df_cj_pow, df_pow_conj_index by exact Hk. reflexivity.
Qed.

(** Hermitian symmetry of the transform of a real line *)
Theorem df_dft_conj x : (forall j, (j < n)%nat -> cj (x j) = x j) ->
  forall k, (k < n)%nat -> df_dft x (qn_conj n k) = cj (df_dft x k).
Proof.
  intros Hx k Hk. rewrite (df_cj_dft x k Hk). symmetry. apply df_dft_ext. exact Hx.
Qed.

(** the inverse transform of a conjugate-symmetric line is real *)
Theorem df_idft_real y : (forall k, (k < n)%nat -> y (qn_conj n k) = cj (y k)) ->
  forall j, (j < n)%nat -> cj (df_idft y j) = df_idft y j.
Proof.
  intros Hy j Hj. set (x := df_idft y).
  (* the transform of the conjugated line is y again, hence the conjugated line is x (dft is injective) *)
  assert (E : forall k, (k < n)%nat -> df_dft (fun l => cj (x l)) k = y k).
  { intros k Hk. pose proof (qn_conj_lt n k Hk) as Hc.
    pose proof (df_cj_dft x (qn_conj n k) Hc) as H1.
    assert (Hcc : qn_conj n (qn_conj n k) = k).
    { destruct (qn_conj_cases n k Hk) as [[-> ->]|[Hp ->]]; [destruct (qn_conj_cases n 0 Hk) as [[_ E0]|[E0 _]]; [exact E0|lia]|].
      destruct (qn_conj_cases n (n - k) ltac:(lia)) as [[E0 _]|[_ ->]]; lia. }
    rewrite Hcc in H1. rewrite <- H1. unfold x. rewrite (df_round_trip' y _ Hc). rewrite Hy by exact Hk. apply (cj_invol CJ). }
  transitivity (df_idft (df_dft (fun l => cj (x l))) j); [symmetry; exact (df_round_trip (fun l => cj (x l)) j Hj)|].
  apply df_idft_ext. exact E.
Qed.

End Root.
End Dft.
