(** C06: per-rank collective traces recorded from the implementation are validated by a boolean
    checker; if it accepts, the straight-line programs issuing those traces reach "all ranks done"
    under EVERY schedule (no deadlock, no mismatched signatures), by Collectives.no_deadlock.
    A communicator instance is the pair (communicator id, call signature): ranks calling the same
    communicator with different operations / roots / counts / datatypes never meet. *)
From Coq Require Import List Arith Lia Bool PeanoNat.
Import ListNotations.
From PGV Require Import Collectives.

Definition cid := (nat * nat)%type.                 (* communicator id, signature code *)
Definition cid_eqb (a b : cid) : bool := (fst a =? fst b) && (snd a =? snd b).
Lemma cid_eqb_spec a b : reflect (a = b) (cid_eqb a b).
Proof.
  destruct a as [a1 a2], b as [b1 b2]. unfold cid_eqb. cbn.
  destruct (Nat.eqb_spec a1 b1), (Nat.eqb_spec a2 b2); cbn; constructor; congruence.
Qed.

Section TraceCheck.
Variable mems : list (list nat).                   (* members (world ranks) of communicator id c *)
Definition tc_members (c : cid) : list nat := nth (fst c) mems [].
Definition tc_res (c : cid) (f : nat -> unit) (r : nat) : unit := tt.

Definition tproc := proc cid nat unit unit.
Fixpoint proc_of (tr : list cid) : tproc :=
  match tr with
  | [] => Done _ _ _ _
  | c :: r => Coll _ _ _ _ c (snd c) tt (fun _ => proc_of r)
  end.
Definition traces := list (list cid).
Definition st_of (ts : traces) : nat -> tproc := fun r => proc_of (nth r ts []).

Definition head_is (ts : traces) (c : cid) (r : nat) : bool :=
  match nth r ts [] with h :: _ => cid_eqb h c | [] => false end.
Definition enabled_b (ts : traces) (c : cid) : bool :=
  negb (match tc_members c with [] => true | _ => false end) && forallb (head_is ts c) (tc_members c).
Definition pop (ts : traces) (c : cid) : traces :=
  map (fun r => if existsb (Nat.eqb r) (tc_members c) then tl (nth r ts []) else nth r ts []) (seq 0 (length ts)).

(** greedy run: fire the communicator instance at the head of the first rank that is enabled *)
Definition first_enabled (ts : traces) : option cid :=
  find (enabled_b ts) (flat_map (fun t => match t with h :: _ => [h] | [] => [] end) ts).
Fixpoint greedy (fuel : nat) (ts : traces) : bool :=
  if forallb (fun t => match t with [] => true | _ => false end) ts then true else
  match fuel with
  | O => false
  | S f => match first_enabled ts with
           | Some c => greedy f (pop ts c)
           | None => false
           end
  end.
Definition members_in_range (ts : traces) : bool :=
  forallb (fun m => forallb (fun r => r <? length ts) m) mems.
Definition traces_ok (ts : traces) : bool :=
  members_in_range ts && greedy (length (concat ts)) ts.

Notation Enabled := (enabled cid nat unit unit cid_eqb tc_members).
Notation Fire := (fire cid nat unit unit tc_members tc_res tt).
Notation Runs := (runs cid nat unit unit cid_eqb tc_members tc_res tt).
Notation Terminal := (terminal cid nat unit unit cid_eqb tc_members).
Notation AllDone := (all_done cid nat unit unit).

Lemma at_comm_head ts c r : at_comm cid nat unit unit cid_eqb (st_of ts r) c = head_is ts c r.
Proof. unfold st_of, head_is. destruct (nth r ts []) as [|h t]; reflexivity. Qed.

Lemma enabled_b_sound ts c : enabled_b ts c = true -> Enabled (st_of ts) c.
Proof.
  unfold enabled_b. intros H. apply andb_prop in H. destruct H as [H1 H2]. split.
  - destruct (tc_members c); [discriminate|discriminate].
  - intros r Hr. rewrite at_comm_head. rewrite forallb_forall in H2. apply H2, Hr.
Qed.

Lemma mem_existsb r c : mem cid tc_members r c = existsb (Nat.eqb r) (tc_members c).
Proof. reflexivity. Qed.

Lemma nth_pop ts c r : r < length ts ->
  nth r (pop ts c) [] = if existsb (Nat.eqb r) (tc_members c) then tl (nth r ts []) else nth r ts [].
Proof.
  intros Hlt. unfold pop.
  set (f := fun r0 => if existsb (Nat.eqb r0) (tc_members c) then tl (nth r0 ts []) else nth r0 ts []).
  rewrite (nth_indep (map f (seq 0 (length ts))) [] (f 0)) by (rewrite map_length, seq_length; exact Hlt).
  rewrite map_nth, seq_nth by exact Hlt. reflexivity.
Qed.

Lemma fire_pop ts c : members_in_range ts = true -> enabled_b ts c = true ->
  forall r, Fire (st_of ts) c r = st_of (pop ts c) r.
Proof.
  intros Hrange Hen r. unfold fire. rewrite mem_existsb.
  destruct (Nat.lt_ge_cases r (length ts)) as [Hlt|Hge].
  - change (st_of (pop ts c) r) with (proc_of (nth r (pop ts c) [])). rewrite (nth_pop ts c r Hlt).
    destruct (existsb (Nat.eqb r) (tc_members c)) eqn:M; [|reflexivity].
    (* r is a member: its head is c *)
    unfold enabled_b in Hen. apply andb_prop in Hen. destruct Hen as [_ H2].
    rewrite forallb_forall in H2. apply existsb_exists in M. destruct M as [x [Hx E]].
    apply Nat.eqb_eq in E. subst x. specialize (H2 r Hx). unfold head_is in H2. unfold st_of.
    destruct (nth r ts []) as [|h t]; [discriminate|]. reflexivity.
  - (* beyond the recorded ranks: not a member of anything, and Done *)
    assert (M : existsb (Nat.eqb r) (tc_members c) = false).
    { destruct (existsb (Nat.eqb r) (tc_members c)) eqn:M; [|reflexivity]. exfalso.
      apply existsb_exists in M. destruct M as [x [Hx E]]. apply Nat.eqb_eq in E. subst x.
      unfold members_in_range in Hrange. rewrite forallb_forall in Hrange.
      unfold tc_members in Hx.
      destruct (Nat.lt_ge_cases (fst c) (length mems)) as [Hc|Hc].
      - specialize (Hrange _ (nth_In mems [] Hc)). rewrite forallb_forall in Hrange.
        specialize (Hrange r Hx). apply Nat.ltb_lt in Hrange. lia.
      - rewrite nth_overflow in Hx by exact Hc. destruct Hx. }
    rewrite M. unfold st_of. rewrite (nth_overflow ts) by exact Hge.
    rewrite (nth_overflow (pop ts c)) by (unfold pop; rewrite map_length, seq_length; exact Hge). reflexivity.
Qed.

Lemma pop_length ts c : length (pop ts c) = length ts.
Proof. unfold pop. rewrite map_length, seq_length. reflexivity. Qed.
Lemma pop_range ts c : members_in_range ts = true -> members_in_range (pop ts c) = true.
Proof. unfold members_in_range. rewrite pop_length. auto. Qed.

Lemma all_empty_done ts : forallb (fun t => match t with [] => true | _ => false end) ts = true -> AllDone (st_of ts).
Proof.
  intros H r. unfold st_of. destruct (Nat.lt_ge_cases r (length ts)) as [Hlt|Hge].
  - rewrite forallb_forall in H. specialize (H _ (nth_In ts [] Hlt)). destruct (nth r ts []); [reflexivity|discriminate].
  - rewrite nth_overflow by exact Hge. reflexivity.
Qed.

Lemma greedy_runs : forall fuel ts, members_in_range ts = true -> greedy fuel ts = true ->
  exists n T, Runs n (st_of ts) T /\ AllDone T.
Proof.
  induction fuel as [|f IH]; intros ts Hr Hg; cbn [greedy] in Hg.
  - destruct (forallb _ ts) eqn:E; [|discriminate].
    exists 0, (st_of ts). split; [intros r; reflexivity|apply all_empty_done, E].
  - destruct (forallb _ ts) eqn:E.
    + exists 0, (st_of ts). split; [intros r; reflexivity|apply all_empty_done, E].
    + destruct (first_enabled ts) as [c|] eqn:F; [|discriminate].
      unfold first_enabled in F. apply find_some in F. destruct F as [_ Hen].
      destruct (IH (pop ts c) (pop_range ts c Hr) Hg) as [n [T [HR HD]]].
      exists (S n), T. split; [|exact HD]. cbn [runs]. exists c. split; [apply enabled_b_sound, Hen|].
      eapply (runs_ext cid nat unit unit cid_eqb tc_members tc_res); [| |exact HR].
      * intros c0 f0 g0 _ r0. reflexivity.
      * intros r. symmetry. apply fire_pop; assumption.
Qed.

(** soundness of the checker: accepted traces cannot deadlock or mismatch under any schedule *)
Theorem traces_ok_sound ts : traces_ok ts = true ->
  forall m T', Runs m (st_of ts) T' -> Terminal T' -> AllDone T'.
Proof.
  unfold traces_ok. intros H. apply andb_prop in H. destruct H as [Hr Hg].
  destruct (greedy_runs _ ts Hr Hg) as [n [T [HR HD]]].
  intros m T' HR' HT'.
  exact (no_deadlock cid nat unit unit cid_eqb cid_eqb_spec tc_members tc_res
           (fun c0 f0 g0 _ r0 => eq_refl) tt n (st_of ts) T HR HD m T' HR' HT').
Qed.

(** and all maximal executions have the same number of collective firings and the same end state *)
Theorem traces_schedule_independent ts n T : Runs n (st_of ts) T -> Terminal T ->
  forall m T', Runs m (st_of ts) T' -> Terminal T' -> m = n /\ forall r, T r = T' r.
Proof.
  intros HR HT m T' HR' HT'.
  exact (schedule_independent cid nat unit unit cid_eqb cid_eqb_spec tc_members tc_res
           (fun c0 f0 g0 _ r0 => eq_refl) tt n (st_of ts) T HR HT m T' HR' HT').
Qed.
End TraceCheck.
