(** C07, second part: the uniform-cubic fast path and the general path are the same function.
    Equations between the executable entry points of SplineModel.v on the closed domain
    [xmin, xmax] of a uniform cubic space: cu_eval_* (knots = [xmin; xmax; dx; float ncells]) equals
    nu_eval_* on the uniform extension knot vector, values and first derivatives, 1-D and 2-D. *)
From Coq Require Import List Arith Lia ZArith Bool Field Ring Setoid.
Import ListNotations.
From PGV Require Import BasisCoxDeBoor CoxDeBoorGen FindSpan CubicUniform Sums SplineModel SplineTheory.

Section Paths.
Variable F : Type.
Variable K : sp_ops F.
Hypothesis HK : sp_laws K.
Add Field SPFp : (spl_field K HK).
Notation "x + y" := (spadd K x y). Notation "x * y" := (spmul K x y).
Notation "x - y" := (spsub K x y). Notation "x / y" := (spdiv K x y).
Notation "0" := (sp0 K). Notation "1" := (sp1 K).
Notation "x <= y" := (sp_le K x y). Notation "x < y" := (sp_lt K x y).
Notation sumr := (Sums.sumr F 0 (spadd K)).
Notation tUk xmin dx := (tU F 0 1 (spadd K) (spmul K) (spsub K) xmin dx).
Notation ofn := (sp_ofnat F K).
Notation kn := (sp_kn F K).
Notation ukn xmin dx n := (sp_uniform_knots F K xmin dx n).

(** a closed span that contains x (closed at the right only for S s = hi) is unique *)
Definition sp_closed_span (knots : list F) (hi : nat) (x : F) (s : nat) : Prop :=
  sp_span_ok F K knots s /\ kn knots s <= x /\ x <= kn knots (S s) /\ (S s <= hi)%nat /\
  (kn knots (S s) <= x -> S s = hi).

Lemma sp_closed_span_unique knots hi x s s' : sp_sorted F K knots ->
  sp_closed_span knots hi x s -> sp_closed_span knots hi x s' -> s = s'.
Proof.
  intros Hs [_ [H1 [H2 [H3 H4]]]] [_ [H1' [H2' [H3' H4']]]].
  destruct (Nat.lt_trichotomy s s') as [Hlt|[E|Hgt]]; [|exact E|]; exfalso.
  - assert (S s = hi); [|lia]. apply H4. apply (spl_le_trans K HK) with (kn knots s'); [|exact H1'].
    apply (sp_kn_mono F K HK); [exact Hs|lia].
  - assert (S s' = hi); [|lia]. apply H4'. apply (spl_le_trans K HK) with (kn knots s); [|exact H1].
    apply (sp_kn_mono F K HK); [exact Hs|lia].
Qed.

(** the span of cu_find_span is the closed span of x on the uniform extension knots *)
Lemma sp_cu_span_closed xmin dx n s o x : 0 < dx -> (3 <= s <= n + 2)%nat ->
  x = tUk xmin dx s + o * dx -> 0 <= o -> o <= 1 -> (o = 1 -> s = (n + 2)%nat) ->
  sp_closed_span (ukn xmin dx n) (n + 3) x s.
Proof.
  intros Hdx Hr Hx Ho0 Ho1 Hend.
  assert (Hdx0 : dx <> 0) by (intros E0; apply (proj2 Hdx); symmetry; exact E0).
  assert (Hs1 : kn (ukn xmin dx n) s = tUk xmin dx s) by (apply (sp_kn_uniform F K); lia).
  assert (Hs2 : kn (ukn xmin dx n) (S s) = tUk xmin dx s + dx)
    by (rewrite (sp_kn_uniform F K) by lia; apply (sp_tU_S F K HK)).
  unfold sp_closed_span, sp_span_ok. rewrite Hs1, Hs2. repeat split.
  - apply (sp_le_add_r F K HK), (proj1 Hdx).
  - intros E0. apply Hdx0. replace dx with ((tUk xmin dx s + dx) - tUk xmin dx s) by ring. rewrite <- E0. ring.
  - rewrite Hx. apply (sp_le_add_r F K HK). apply (spl_mul_nonneg K HK); [exact Ho0|exact (proj1 Hdx)].
  - rewrite Hx. apply (sp_add_le_l F K HK). replace dx with (1 * dx) at 2 by ring.
    apply (sp_mul_le_r F K HK); [exact Ho1|exact (proj1 Hdx)].
  - lia.
  - rewrite Hx. intros H. assert (H1 : 1 <= o).
    { apply (sp_nonneg_sub F K HK). apply (sp_mul_nonneg_cancel F K HK _ dx Hdx).
      replace ((o - 1) * dx) with ((tUk xmin dx s + o * dx) - (tUk xmin dx s + dx)) by ring.
      apply (sp_sub_nonneg F K HK), H. }
    rewrite (Hend (spl_le_antisym K HK _ _ Ho1 H1)). lia.
Qed.

(** facts about the uniform extension knot vector of a space with n >= 1 cells *)
Lemma sp_tU_3 xmin dx : tUk xmin dx 3 = xmin.
Proof. unfold tU. cbn [ofnat]. unfold three, two. ring. Qed.
Lemma sp_tU_n3 xmin dx n : tUk xmin dx (n + 3) = xmin + ofn n * dx.
Proof.
  unfold tU. fold (sp_ofnat F K (n + 3)). rewrite (sp_ofnat_add F K HK). unfold sp_ofnat. cbn [ofnat].
  unfold three, two. ring.
Qed.
Lemma sp_tU_lt xmin dx i : 0 < dx -> tUk xmin dx i < tUk xmin dx (S i).
Proof.
  intros Hdx. rewrite (sp_tU_S F K HK). split; [apply (sp_le_add_r F K HK), (proj1 Hdx)|].
  intros E. apply (proj2 Hdx). replace dx with ((tUk xmin dx i + dx) - tUk xmin dx i) by ring. rewrite <- E. ring.
Qed.

(** nu_find_span on the uniform extension knots returns the span of cu_find_span *)
Theorem sp_cu_span_eq_nu_span xmin xmax dx x n : sp_trunc_ok F K -> (1 <= n)%nat -> 0 < dx ->
  xmax = xmin + ofn n * dx -> xmin <= x -> x <= xmax ->
  exists s o, sp_cu_find_span F K xmin xmax dx x (Z.of_nat n) = SpOk (Z.of_nat s, o) /\
    sp_nu_find_span F K (ukn xmin dx n) 3 x = SpOk s /\
    (3 <= s <= n + 2)%nat /\ x = tUk xmin dx s + o * dx /\ sp_span_ok F K (ukn xmin dx n) s.
Proof.
  intros Htr Hn Hdx Hmax Hlo Hhi.
  destruct (sp_cu_find_span_spec F K HK xmin xmax dx x n Htr Hn Hdx Hmax Hlo Hhi) as [s [o [E [Hr [Hx [Ho0 [Ho1 Hend]]]]]]].
  pose proof (sp_cu_span_closed xmin dx n s o x Hdx Hr Hx Ho0 Ho1 Hend) as Hcl.
  pose proof (sp_uniform_sorted F K HK xmin dx n Hdx) as Hsort.
  pose proof (sp_uniform_knots_length F K xmin dx n) as Hlen.
  destruct (sp_nu_find_span_domain F K HK (ukn xmin dx n) 3 x Hsort) as [s' [E' [Hr' [Hp' [Hx1' [Hx2' Hend']]]]]].
  - rewrite Hlen. lia.
  - rewrite !(sp_kn_uniform F K) by lia. apply sp_tU_lt, Hdx.
  - rewrite Hlen. replace (n + 7 - 3 - 2)%nat with (n + 2)%nat by lia.
    replace (n + 7 - 1 - 3)%nat with (S (n + 2)) by lia. rewrite !(sp_kn_uniform F K) by lia. apply sp_tU_lt, Hdx.
  - rewrite (sp_kn_uniform F K) by lia. rewrite sp_tU_3. exact Hlo.
  - rewrite Hlen. replace (n + 7 - 1 - 3)%nat with (n + 3)%nat by lia. rewrite (sp_kn_uniform F K) by lia.
    rewrite sp_tU_n3, <- Hmax. exact Hhi.
  - rewrite Hlen in Hr', Hend'.
    assert (Hcl' : sp_closed_span (ukn xmin dx n) (n + 3) x s').
    { repeat split; try assumption; try apply Hp'; [lia|]. intros H. rewrite (Hend' H). lia. }
    assert (Es : s = s') by (apply (sp_closed_span_unique _ _ _ _ _ Hsort Hcl Hcl')). subst s'.
    exists s, o. repeat split; try assumption; try lia; apply Hcl.
Qed.

(** the two basis arrays agree there *)
Lemma sp_cu_basis_sel_eq_nu xmin dx n s o der : dx <> 0 -> (3 <= s <= n + 2)%nat -> (der <= 1)%nat ->
  (match der with 0%nat => sp_cu_basis_funs F K o | _ => sp_cu_basis_funs_1st_der F K o dx end)
  = sp_basis_of F K der (ukn xmin dx n) 3 (tUk xmin dx s + o * dx) s.
Proof.
  intros Hdx Hr Hder. destruct der as [|[|der]]; [| |lia]; cbn [sp_basis_of]; symmetry.
  - apply (sp_cu_basis_eq_A22 F K HK); [exact Hdx|lia|lia].
  - apply (sp_cu_ders_eq_nu F K HK); [exact Hdx|lia|lia].
Qed.

(** 1-D: cu_eval_spline_1d_scalar = nu_eval_spline_1d_scalar on the uniform extension knots,
    values and first derivatives, everywhere on [xmin, xmax] *)
Theorem sp_cu_path_eq_nu_path_1d xmin xmax dx fn rest n coeffs x der : sp_trunc_ok F K -> (1 <= n)%nat ->
  0 < dx -> xmax = xmin + ofn n * dx -> sptrunc K fn = Z.of_nat n -> xmin <= x -> x <= xmax ->
  length coeffs = (n + 3)%nat -> (der <= 1)%nat ->
  sp_cu_eval_1d_scalar F K x (xmin :: xmax :: dx :: fn :: rest) 3 coeffs der
  = sp_nu_eval_1d_scalar F K x (ukn xmin dx n) 3 coeffs der.
Proof.
  intros Htr Hn Hdx Hmax Hfn Hlo Hhi Hc Hder.
  destruct (sp_cu_span_eq_nu_span xmin xmax dx x n Htr Hn Hdx Hmax Hlo Hhi) as [s [o [E [E' [Hr [Hx Hp]]]]]].
  assert (Hdx0 : dx <> 0) by (intros E0; apply (proj2 Hdx); symmetry; exact E0).
  rewrite (sp_cu_eval_1d_scalar_spec F K HK xmin xmax dx fn rest coeffs x der (Z.of_nat s) o)
    by (try (rewrite Hfn; exact E); rewrite ?Nat2Z.id; lia).
  rewrite (sp_nu_eval_1d_scalar_spec F K HK (ukn xmin dx n) 3 coeffs x der s)
    by (try assumption; try (apply (sp_uniform_sorted F K HK), Hdx); rewrite ?(sp_uniform_knots_length F K); lia).
  rewrite Nat2Z.id. f_equal. apply Sums.sumr_ext. intros j _. f_equal. f_equal.
  rewrite Hx. apply sp_cu_basis_sel_eq_nu; assumption.
Qed.

(** hence for the vector entry points *)
Theorem sp_cu_path_eq_nu_path_1d_vector xmin xmax dx fn rest n coeffs xs der : sp_trunc_ok F K -> (1 <= n)%nat ->
  0 < dx -> xmax = xmin + ofn n * dx -> sptrunc K fn = Z.of_nat n ->
  (forall x, In x xs -> xmin <= x /\ x <= xmax) -> length coeffs = (n + 3)%nat -> (der <= 1)%nat ->
  sp_cu_eval_1d_vector F K xs (xmin :: xmax :: dx :: fn :: rest) 3 coeffs der
  = sp_nu_eval_1d_vector F K xs (ukn xmin dx n) 3 coeffs der.
Proof.
  intros Htr Hn Hdx Hmax Hfn Hxs Hc Hder.
  rewrite (sp_cu_eval_1d_vector_eq_map F K) by (try assumption; repeat eexists).
  rewrite (sp_nu_eval_1d_vector_eq_map F K) by assumption.
  apply sp_mapM_ext. intros x Hx. destruct (Hxs x Hx).
  apply (sp_cu_path_eq_nu_path_1d xmin xmax dx fn rest n coeffs x der); assumption.
Qed.

(** 2-D scalar: (der1, der2) in {0,1}^2, everywhere on [xmin,xmax] x [ymin,ymax] *)
Theorem sp_cu_path_eq_nu_path_2d xmin xmax dx fnx restx nx ymin ymax dy fny resty ny coeffs x y e1 e2 :
  sp_trunc_ok F K -> (1 <= nx)%nat -> (1 <= ny)%nat -> 0 < dx -> 0 < dy ->
  xmax = xmin + ofn nx * dx -> ymax = ymin + ofn ny * dy ->
  sptrunc K fnx = Z.of_nat nx -> sptrunc K fny = Z.of_nat ny ->
  xmin <= x -> x <= xmax -> ymin <= y -> y <= ymax ->
  length coeffs = (nx + 3)%nat -> (forall row, In row coeffs -> length row = (ny + 3)%nat) ->
  (e1 <= 1)%nat -> (e2 <= 1)%nat ->
  sp_cu_eval_2d_scalar F K x y (xmin :: xmax :: dx :: fnx :: restx) 3 (ymin :: ymax :: dy :: fny :: resty) 3 coeffs e1 e2
  = sp_nu_eval_2d_scalar F K x y (ukn xmin dx nx) 3 (ukn ymin dy ny) 3 coeffs e1 e2.
Proof.
  intros Htr Hnx Hny Hdx Hdy Hxmax Hymax Hfnx Hfny Hxlo Hxhi Hylo Hyhi Hc Hrows He1 He2.
  destruct (sp_cu_span_eq_nu_span xmin xmax dx x nx Htr Hnx Hdx Hxmax Hxlo Hxhi) as [s1 [o1 [E1 [E1' [Hr1 [Hx Hp1]]]]]].
  destruct (sp_cu_span_eq_nu_span ymin ymax dy y ny Htr Hny Hdy Hymax Hylo Hyhi) as [s2 [o2 [E2 [E2' [Hr2 [Hy Hp2]]]]]].
  assert (Hdx0 : dx <> 0) by (intros E0; apply (proj2 Hdx); symmetry; exact E0).
  assert (Hdy0 : dy <> 0) by (intros E0; apply (proj2 Hdy); symmetry; exact E0).
  rewrite (sp_cu_eval_2d_scalar_spec F K HK _ _ coeffs x y e1 e2 xmin xmax dx (Z.of_nat nx) ymin ymax dy (Z.of_nat ny)
             (Z.of_nat s1) o1 (Z.of_nat s2) o2);
    try assumption; try lia; try (cbn [sp_cu_unpack]; rewrite ?Hfnx, ?Hfny; reflexivity);
    try (rewrite Nat2Z.id; lia).
  2:{ intros row Hrow. rewrite Nat2Z.id, (Hrows row Hrow). lia. }
  rewrite (sp_nu_eval_2d_scalar_spec F K HK (ukn xmin dx nx) 3 (ukn ymin dy ny) 3 coeffs x y e1 e2 s1 s2);
    try assumption; try (apply (sp_uniform_sorted F K HK); assumption);
    rewrite ?(sp_uniform_knots_length F K); try lia.
  2:{ intros row Hrow. rewrite (Hrows row Hrow). lia. }
  rewrite !Nat2Z.id. f_equal. apply Sums.sumr_ext. intros i _.
  rewrite (sp_cu_basis_sel_eq_nu xmin dx nx s1 o1 e1), <- Hx by assumption. f_equal.
  apply Sums.sumr_ext. intros j _.
  rewrite (sp_cu_basis_sel_eq_nu ymin dy ny s2 o2 e2), <- Hy by assumption. reflexivity.
Qed.

(** on the domain the general 2-D scalar entry point returns a value *)
Lemma sp_nu_eval_2d_uniform_ok xmin xmax dx nx ymin ymax dy ny coeffs x y e1 e2 :
  sp_trunc_ok F K -> (1 <= nx)%nat -> (1 <= ny)%nat -> 0 < dx -> 0 < dy ->
  xmax = xmin + ofn nx * dx -> ymax = ymin + ofn ny * dy ->
  xmin <= x -> x <= xmax -> ymin <= y -> y <= ymax ->
  length coeffs = (nx + 3)%nat -> (forall row, In row coeffs -> length row = (ny + 3)%nat) ->
  (e1 <= 1)%nat -> (e2 <= 1)%nat ->
  exists v, sp_nu_eval_2d_scalar F K x y (ukn xmin dx nx) 3 (ukn ymin dy ny) 3 coeffs e1 e2 = SpOk v.
Proof.
  intros Htr Hnx Hny Hdx Hdy Hxmax Hymax Hxlo Hxhi Hylo Hyhi Hc Hrows He1 He2.
  destruct (sp_cu_span_eq_nu_span xmin xmax dx x nx Htr Hnx Hdx Hxmax Hxlo Hxhi) as [s1 [o1 [E1 [E1' [Hr1 [Hx Hp1]]]]]].
  destruct (sp_cu_span_eq_nu_span ymin ymax dy y ny Htr Hny Hdy Hymax Hylo Hyhi) as [s2 [o2 [E2 [E2' [Hr2 [Hy Hp2]]]]]].
  eexists.
  rewrite (sp_nu_eval_2d_scalar_spec F K HK (ukn xmin dx nx) 3 (ukn ymin dy ny) 3 coeffs x y e1 e2 s1 s2);
    try assumption; try (apply (sp_uniform_sorted F K HK); assumption);
    rewrite ?(sp_uniform_knots_length F K); try lia; [reflexivity|].
  intros row Hrow. rewrite (Hrows row Hrow). lia.
Qed.

Definition sp_val (r : sp_res F) : F := match r with SpOk v => v | _ => 0 end.

(** 2-D tensor-grid entry point *)
Theorem sp_cu_path_eq_nu_path_2d_cross xmin xmax dx fnx restx nx ymin ymax dy fny resty ny coeffs X Y e1 e2 :
  sp_trunc_ok F K -> (1 <= nx)%nat -> (1 <= ny)%nat -> 0 < dx -> 0 < dy ->
  xmax = xmin + ofn nx * dx -> ymax = ymin + ofn ny * dy ->
  sptrunc K fnx = Z.of_nat nx -> sptrunc K fny = Z.of_nat ny ->
  (forall x, In x X -> xmin <= x /\ x <= xmax) -> (forall y, In y Y -> ymin <= y /\ y <= ymax) -> Y <> [] ->
  length coeffs = (nx + 3)%nat -> (forall row, In row coeffs -> length row = (ny + 3)%nat) ->
  (e1 <= 1)%nat -> (e2 <= 1)%nat ->
  sp_cu_eval_2d_cross F K X Y (xmin :: xmax :: dx :: fnx :: restx) 3 (ymin :: ymax :: dy :: fny :: resty) 3 coeffs e1 e2
  = sp_nu_eval_2d_cross F K X Y (ukn xmin dx nx) 3 (ukn ymin dy ny) 3 coeffs e1 e2.
Proof.
  intros Htr Hnx Hny Hdx Hdy Hxmax Hymax Hfnx Hfny HX HY HYne Hc Hrows He1 He2.
  set (f := fun x y => sp_val (sp_nu_eval_2d_scalar F K x y (ukn xmin dx nx) 3 (ukn ymin dy ny) 3 coeffs e1 e2)).
  assert (Hnu : forall x y, In x X -> In y Y ->
    sp_nu_eval_2d_scalar F K x y (ukn xmin dx nx) 3 (ukn ymin dy ny) 3 coeffs e1 e2 = SpOk (f x y)).
  { intros x y Hx Hy. destruct (HX x Hx), (HY y Hy).
    destruct (sp_nu_eval_2d_uniform_ok xmin xmax dx nx ymin ymax dy ny coeffs x y e1 e2) as [v Ev]; try assumption.
    unfold f. rewrite Ev. reflexivity. }
  rewrite (sp_nu_eval_2d_cross_eq_grid F K X Y _ 3 _ 3 coeffs e1 e2 f He1 He2 HYne Hnu).
  apply (sp_cu_eval_2d_cross_eq_grid F K X Y (xmin :: xmax :: dx :: fnx :: restx) 3 (ymin :: ymax :: dy :: fny :: resty) 3 coeffs e1 e2 _ _ f eq_refl eq_refl He1 He2 HYne).
  intros x y Hx Hy. destruct (HX x Hx), (HY y Hy).
  rewrite (sp_cu_path_eq_nu_path_2d xmin xmax dx fnx restx nx ymin ymax dy fny resty ny coeffs x y e1 e2) by assumption.
  apply Hnu; assumption.
Qed.

(** 2-D pairwise entry point *)
Theorem sp_cu_path_eq_nu_path_2d_vector xmin xmax dx fnx restx nx ymin ymax dy fny resty ny coeffs xs ys e1 e2 :
  sp_trunc_ok F K -> (1 <= nx)%nat -> (1 <= ny)%nat -> 0 < dx -> 0 < dy ->
  xmax = xmin + ofn nx * dx -> ymax = ymin + ofn ny * dy ->
  sptrunc K fnx = Z.of_nat nx -> sptrunc K fny = Z.of_nat ny ->
  (forall x, In x xs -> xmin <= x /\ x <= xmax) -> (forall y, In y ys -> ymin <= y /\ y <= ymax) ->
  length xs = length ys ->
  length coeffs = (nx + 3)%nat -> (forall row, In row coeffs -> length row = (ny + 3)%nat) ->
  (e1 <= 1)%nat -> (e2 <= 1)%nat ->
  sp_cu_eval_2d_vector F K xs ys (xmin :: xmax :: dx :: fnx :: restx) 3 (ymin :: ymax :: dy :: fny :: resty) 3 coeffs e1 e2
  = sp_nu_eval_2d_vector F K xs ys (ukn xmin dx nx) 3 (ukn ymin dy ny) 3 coeffs e1 e2.
Proof.
  intros Htr Hnx Hny Hdx Hdy Hxmax Hymax Hfnx Hfny HX HY Hl Hc Hrows He1 He2.
  set (f := fun x y => sp_val (sp_nu_eval_2d_scalar F K x y (ukn xmin dx nx) 3 (ukn ymin dy ny) 3 coeffs e1 e2)).
  assert (Hnu : forall x y, In (x, y) (combine xs ys) ->
    sp_nu_eval_2d_scalar F K x y (ukn xmin dx nx) 3 (ukn ymin dy ny) 3 coeffs e1 e2 = SpOk (f x y)).
  { intros x y Hxy. destruct (HX x (in_combine_l _ _ _ _ Hxy)), (HY y (in_combine_r _ _ _ _ Hxy)).
    destruct (sp_nu_eval_2d_uniform_ok xmin xmax dx nx ymin ymax dy ny coeffs x y e1 e2) as [v Ev]; try assumption.
    unfold f. rewrite Ev. reflexivity. }
  rewrite (sp_nu_eval_2d_vector_eq_zip F K xs ys _ 3 _ 3 coeffs e1 e2 f He1 He2 Hl Hnu).
  apply (sp_cu_eval_2d_vector_eq_zip F K xs ys (xmin :: xmax :: dx :: fnx :: restx) 3 (ymin :: ymax :: dy :: fny :: resty) 3 coeffs e1 e2 _ _ f eq_refl eq_refl He1 He2 Hl).
  intros x y Hxy. destruct (HX x (in_combine_l _ _ _ _ Hxy)), (HY y (in_combine_r _ _ _ _ Hxy)).
  rewrite (sp_cu_path_eq_nu_path_2d xmin xmax dx fnx restx nx ymin ymax dy fny resty ny coeffs x y e1 e2) by assumption.
  apply Hnu; assumption.
Qed.

End Paths.
