(** C03: executable whole-memory model of the LayoutSwapper's single steps on lists (every world rank holds
    complete arrays source / dest / buf) and its frame; lift to the swapper's two redirects.
    Cross-handler steps (_transpose / _transpose_source_intact, layout.py:1286-1494):
      same, scatter : destView (= dest[:size']) [:] = ...  - only the first size' cells of dest are written,
                      with or without a spare buffer; source and buf are not written;
      gather        : without buffer  Allgather(source[:B] -> dest[:p*B]); unpack -> source[:size'];
                                      dest[:] = source[:]   (the whole array)
                      with buffer     Allgather(source[:B] -> buf[:p*B]); unpack -> dest[:size'].
    Handler-internal steps of a sub-handler on topology axes [ax]: TransposeFrame.mplain / mintact at the
    lifted coordinates (as SwapperRoute.sw_run_int_dist). *)
From Coq Require Import List Arith Lia PeanoNat Bool.
Import ListNotations.
From PGV Require Import NdIndex Blocks Layouts Handler TransposeStep TransposeExec TransposeFrame
  GatherStep GatherValid ScatterStep SwapperExec SwapperRoute FrameMem.

Section SwMem.
Variable V : Type.
Variable dflt : V.
Variables Nl nprocsT : list nat.
Variable d' : nat.
Let d := S d'.

Notation memf := (sw_srcf V dflt nprocsT).
Notation Nf := (sw_Nf Nl).
Notation PT := (sw_PT nprocsT).
Notation Pax := (sw_P nprocsT).
Notation cf := (sw_cfun nprocsT).
Notation nr := (sw_nranks nprocsT).
Notation shp := (sw_shape Nl nprocsT d').

Definition sw_msize (D : sw_lay) (w : nat) : nat := size (shp D w).

Lemma sw_memf_cfun m w A : w < nr -> memf m (cf w) A = cell V dflt m w A.
Proof. intros Hw. unfold sw_srcf, cell. rewrite sw_rank_of_cfun by exact Hw. reflexivity. Qed.

(** a step that writes the destination block only *)
Definition sw_mprefix (f : nat -> nat -> V) (D : sw_lay) (to : mems V) : mems V :=
  mat V (fun w A => if A <? sw_msize D w then f w A else cell V dflt to w A) to.

Definition sw_same_f (S D : sw_lay) (from : mems V) (w : nat) : nat -> V :=
  sm_dst V d Nf (sw_pif S) (sw_pif D) (sw_ipif D) (nat -> nat) (Pax (snd S)) (Pax (snd D))
         (sw_co (snd S)) (sw_co (snd D)) (memf from) (cf w).
Definition sw_scatter_f (S D : sw_lay) (is_ : nat) (from : mems V) (w : nat) : nat -> V :=
  sc_dst V d Nf (sw_pif S) (sw_pif D) (sw_ipif D) is_ (nat -> nat) (Pax (snd S)) (Pax (snd D))
         (sw_co (snd S)) (sw_co (snd D)) (memf from) (cf w).

Definition sw_gB (S : sw_lay) (is_ : nat) (w : nat) : nat :=
  GatherStep.B d Nf (sw_pif S) is_ (nat -> nat) (Pax (snd S)) (sw_co (snd S)) (cf w).
Definition sw_mgather_plain (S D : sw_lay) (is_ : nat) (from to : mems V) : mems V * mems V :=
  let x := mgather_plain V d Nf (sw_pif S) (sw_pif D) (sw_ipif D) is_ (nat -> nat)
             (fun c r => sw_upd c (nth is_ (snd S) 0) r) (Pax (snd S)) (Pax (snd D)) (sw_co (snd S)) (sw_co (snd D))
             (memf from) (memf to) in
  let s' := mat V (fun w => fst x (cf w)) from in (s', s').
Definition sw_mgather_intact (S D : sw_lay) (is_ : nat) (from to scratch : mems V) : mems V * mems V :=
  let x := mgather_intact V d Nf (sw_pif S) (sw_pif D) (sw_ipif D) is_ (nat -> nat)
             (fun c r => sw_upd c (nth is_ (snd S) 0) r) (Pax (snd S)) (Pax (snd D)) (sw_co (snd S)) (sw_co (snd D))
             (memf from) (memf to) (memf scratch) in
  (mat V (fun w => fst x (cf w)) to, mat V (fun w => snd x (cf w)) scratch).

(** handler-internal distributed swap *)
Definition sw_mint_plain (S D : sw_lay) (a0 : nat) (from to : mems V) : mems V * mems V :=
  (mat V (fun w => fst (mplain V d' Nf (Pax (snd S)) (sw_pif S) (sw_ipif S) (sw_pif D) (sw_ipif D) a0
                          (sw_src_w V dflt nprocsT (snd S) from w) (sw_src_w V dflt nprocsT (snd S) to w))
                       (sw_lco nprocsT (snd S) w)) from,
   mat V (fun w => snd (mplain V d' Nf (Pax (snd S)) (sw_pif S) (sw_ipif S) (sw_pif D) (sw_ipif D) a0
                          (sw_src_w V dflt nprocsT (snd S) from w) (sw_src_w V dflt nprocsT (snd S) to w))
                       (sw_lco nprocsT (snd S) w)) to).
Definition sw_mint_intact (S D : sw_lay) (a0 : nat) (from to scratch : mems V) : mems V * mems V :=
  (mat V (fun w => fst (mintact V d' Nf (Pax (snd S)) (sw_pif S) (sw_ipif S) (sw_pif D) (sw_ipif D) a0
                          (sw_src_w V dflt nprocsT (snd S) from w) (sw_src_w V dflt nprocsT (snd S) to w)
                          (sw_src_w V dflt nprocsT (snd S) scratch w))
                       (sw_lco nprocsT (snd S) w)) to,
   mat V (fun w => snd (mintact V d' Nf (Pax (snd S)) (sw_pif S) (sw_ipif S) (sw_pif D) (sw_ipif D) a0
                          (sw_src_w V dflt nprocsT (snd S) from w) (sw_src_w V dflt nprocsT (snd S) to w)
                          (sw_src_w V dflt nprocsT (snd S) scratch w))
                       (sw_lco nprocsT (snd S) w)) scratch).

(** ** dispatch: LayoutSwapper.transpose on one step of a route *)
Definition sw_m_plain (n1 n2 : sw_node) (from to : mems V) : mems V * mems V :=
  let S := snd n1 in let D := snd n2 in
  if fst n1 =? fst n2 then
    match swap_axes (map PT (snd S)) (fst S) (fst D) with
    | a0 :: _ => sw_mint_plain S D a0 from to
    | [] => (from, sw_mprefix (sw_same_f S D from) D to)
    end
  else if sw_nd nprocsT (snd D) =? sw_nd nprocsT (snd S) then (from, sw_mprefix (sw_same_f S D from) D to)
  else if sw_nd nprocsT (snd S) <? sw_nd nprocsT (snd D) then
    match sw_scatter_axis S D with
    | Some is_ => (from, sw_mprefix (sw_scatter_f S D is_ from) D to)
    | None => (from, to)
    end
  else
    match sw_gather_axis S D with
    | Some is_ => sw_mgather_plain S D is_ from to
    | None => (from, to)
    end.
Definition sw_m_intact (n1 n2 : sw_node) (from to scratch : mems V) : mems V * mems V :=
  let S := snd n1 in let D := snd n2 in
  if fst n1 =? fst n2 then
    match swap_axes (map PT (snd S)) (fst S) (fst D) with
    | a0 :: _ => sw_mint_intact S D a0 from to scratch
    | [] => (sw_mprefix (sw_same_f S D from) D to, scratch)
    end
  else if sw_nd nprocsT (snd D) =? sw_nd nprocsT (snd S) then (sw_mprefix (sw_same_f S D from) D to, scratch)
  else if sw_nd nprocsT (snd S) <? sw_nd nprocsT (snd D) then
    match sw_scatter_axis S D with
    | Some is_ => (sw_mprefix (sw_scatter_f S D is_ from) D to, scratch)
    | None => (to, scratch)
    end
  else
    match sw_gather_axis S D with
    | Some is_ => sw_mgather_intact S D is_ from to scratch
    | None => (to, scratch)
    end.

(** cells a step may touch on world rank w *)
Definition sw_m_extent (n1 n2 : sw_node) (w : nat) : nat :=
  let S := snd n1 in let D := snd n2 in
  if fst n1 =? fst n2 then
    match swap_axes (map PT (snd S)) (fst S) (fst D) with
    | a0 :: _ => Nat.max (sw_msize D w)
                   (Pax (snd S) a0 * bsize d' Nf (Pax (snd S)) (sw_pif S) (sw_ipif S) (sw_pif D) a0 (sw_lco nprocsT (snd S) w))
    | [] => sw_msize D w
    end
  else if sw_nd nprocsT (snd D) =? sw_nd nprocsT (snd S) then sw_msize D w
  else if sw_nd nprocsT (snd S) <? sw_nd nprocsT (snd D) then sw_msize D w
  else match sw_gather_axis S D with
       | Some is_ => Nat.max (sw_msize D w) (Pax (snd S) is_ * sw_gB S is_ w)
       | None => 0
       end.

Variable E : nat -> nat.
Definition sw_m_ok (n1 n2 : sw_node) : bool :=
  sw_any_wf_b Nl nprocsT d' n1 n2 && forallb (fun w => sw_m_extent n1 n2 w <=? E w) (seq 0 nr).
Definition sw_Wm (m : mems V) : Prop := length m = nr /\ forall w, w < nr -> E w <= length (nth w m []).

Lemma sw_Wm_len m1 m2 : same_len V m1 m2 -> sw_Wm m1 -> sw_Wm m2.
Proof. intros [H1 H2] [H3 H4]. split; [congruence|intros w Hw; rewrite <- H2; apply H4, Hw]. Qed.

Lemma sw_m_ok_extent n1 n2 w : sw_m_ok n1 n2 = true -> w < nr -> sw_m_extent n1 n2 w <= E w.
Proof.
  unfold sw_m_ok. intros H Hw. apply andb_prop in H. destruct H as [_ H].
  rewrite forallb_forall in H. specialize (H w ltac:(apply in_seq; lia)). apply Nat.leb_le in H. exact H.
Qed.

(** ** frames *)
Lemma sw_mprefix_fr f D to : (forall w, w < nr -> sw_msize D w <= E w) -> sw_Wm to ->
  fr V dflt E to (sw_mprefix f D to).
Proof.
  intros HE [Hl _]. apply fr_sym. unfold sw_mprefix. apply mat_fr. intros w A Hw HA HEA.
  rewrite Hl in Hw. specialize (HE w Hw). destruct (Nat.ltb_spec A (sw_msize D w)); [lia|reflexivity].
Qed.

Lemma sw_src_w_lco ax m w A : NoDup ax -> w < nr ->
  sw_src_w V dflt nprocsT ax m w (sw_lco nprocsT ax w) A = cell V dflt m w A.
Proof.
  intros Hnd Hw. unfold sw_src_w, sw_srcf, cell.
  assert (E1 : sw_rank_of nprocsT (sw_lift ax (sw_lco nprocsT ax w) (cf w)) = w).
  { unfold sw_rank_of. rewrite (mk_ext _ _ (cf w)) by (intros; apply (sw_lift_lco nprocsT d'), Hnd).
    apply sw_rank_of_cfun, Hw. }
  rewrite E1. reflexivity.
Qed.

Lemma sw_any_wf_nodup n1 n2 : sw_any_wf_b Nl nprocsT d' n1 n2 = true -> NoDup (snd (snd n1)).
Proof.
  unfold sw_any_wf_b. destruct (fst n1 =? fst n2); intros H.
  - unfold sw_int_wf_b in H. apply andb_prop in H. destruct H as [H _]. apply andb_prop in H. destruct H as [H _].
    destruct (sw_wf_parts Nl nprocsT d' _ _ H) as [_ [_ [_ [_ [[_ Hn] _]]]]]. exact Hn.
  - unfold sw_step_wf_b in H. apply andb_prop in H. destruct H as [H _].
    destruct (sw_wf_parts Nl nprocsT d' _ _ H) as [_ [_ [_ [_ [[_ Hn] _]]]]]. exact Hn.
Qed.

Lemma sw_int_size (S D : sw_lay) w : snd S = snd D ->
  size (mk d (TransposeStep.sh' Nf (Pax (snd S)) (sw_pif D) (sw_lco nprocsT (snd S) w))) = sw_msize D w.
Proof. intros Eax. unfold d, sw_msize, sw_shape, sw_shapef, TransposeStep.sh', sw_lco. rewrite <- Eax. reflexivity. Qed.

Lemma sw_mint_plain_fr (S D : sw_lay) a0 from to : NoDup (snd S) -> snd S = snd D ->
  (forall w, w < nr -> Nat.max (sw_msize D w)
     (Pax (snd S) a0 * bsize d' Nf (Pax (snd S)) (sw_pif S) (sw_ipif S) (sw_pif D) a0 (sw_lco nprocsT (snd S) w)) <= E w) ->
  sw_Wm from -> sw_Wm to ->
  fr V dflt E from (fst (sw_mint_plain S D a0 from to)) /\ fr V dflt E to (snd (sw_mint_plain S D a0 from to)).
Proof.
  intros Hnd Eax HE [Hlf Wf] [Hlt Wt]. unfold sw_mint_plain. cbn [fst snd].
  split; apply fr_sym; apply mat_fr; intros w A Hw HA HEA.
  - rewrite Hlf in Hw. specialize (HE w Hw). rewrite mplain_src_frame by (clear - HE HEA; lia).
    apply sw_src_w_lco; assumption.
  - rewrite Hlt in Hw. specialize (HE w Hw).
    pose proof (sw_int_size _ _ w Eax) as Es. unfold d in Es.
    rewrite mplain_dst_frame; [apply sw_src_w_lco; assumption|rewrite Es|]; clear - HE HEA; lia.
Qed.

Lemma sw_mint_intact_fr (S D : sw_lay) a0 from to scratch : NoDup (snd S) -> snd S = snd D ->
  (forall w, w < nr -> Nat.max (sw_msize D w)
     (Pax (snd S) a0 * bsize d' Nf (Pax (snd S)) (sw_pif S) (sw_ipif S) (sw_pif D) a0 (sw_lco nprocsT (snd S) w)) <= E w) ->
  sw_Wm to -> sw_Wm scratch ->
  fr V dflt E to (fst (sw_mint_intact S D a0 from to scratch)) /\
  fr V dflt E scratch (snd (sw_mint_intact S D a0 from to scratch)).
Proof.
  intros Hnd Eax HE [Hlt Wt] [Hls Ws]. unfold sw_mint_intact. cbn [fst snd].
  split; apply fr_sym; apply mat_fr; intros w A Hw HA HEA.
  - rewrite Hlt in Hw. specialize (HE w Hw).
    pose proof (sw_int_size _ _ w Eax) as Es. unfold d in Es.
    rewrite mintact_dst_frame; [apply sw_src_w_lco; assumption|rewrite Es|]; clear - HE HEA; lia.
  - rewrite Hls in Hw. specialize (HE w Hw). rewrite mintact_buf_frame by (clear - HE HEA; lia).
    apply sw_src_w_lco; assumption.
Qed.

Lemma sw_gather_size (D : sw_lay) w (S : sw_lay) :
  size (mk d (GatherStep.shD Nf (sw_pif D) (nat -> nat) (Pax (snd D)) (sw_co (snd D)) (cf w))) = sw_msize D w.
Proof. reflexivity. Qed.

Lemma sw_mgather_plain_fr (S D : sw_lay) is_ from to :
  (forall w, w < nr -> Nat.max (sw_msize D w) (Pax (snd S) is_ * sw_gB S is_ w) <= E w) -> sw_Wm from ->
  fr V dflt E from (fst (sw_mgather_plain S D is_ from to)) /\
  snd (sw_mgather_plain S D is_ from to) = fst (sw_mgather_plain S D is_ from to).
Proof.
  intros HE [Hlf Wf]. unfold sw_mgather_plain. cbn [fst snd]. split; [|reflexivity].
  apply fr_sym; apply mat_fr; intros w A Hw HA HEA.
  rewrite Hlf in Hw. specialize (HE w Hw).
  rewrite mgather_plain_src_frame by (rewrite (sw_gather_size D w S); clear - HE HEA; lia).
  apply sw_memf_cfun, Hw.
Qed.

Lemma sw_mgather_intact_fr (S D : sw_lay) is_ from to scratch :
  (forall w, w < nr -> Nat.max (sw_msize D w) (Pax (snd S) is_ * sw_gB S is_ w) <= E w) -> sw_Wm to -> sw_Wm scratch ->
  fr V dflt E to (fst (sw_mgather_intact S D is_ from to scratch)) /\
  fr V dflt E scratch (snd (sw_mgather_intact S D is_ from to scratch)).
Proof.
  intros HE [Hlt Wt] [Hls Ws]. unfold sw_mgather_intact. cbn [fst snd].
  split; apply fr_sym; apply mat_fr; intros w A Hw HA HEA.
  - rewrite Hlt in Hw. specialize (HE w Hw).
    rewrite mgather_intact_dst_frame by (rewrite (sw_gather_size D w S); clear - HE HEA; lia).
    apply sw_memf_cfun, Hw.
  - rewrite Hls in Hw. specialize (HE w Hw).
    rewrite mgather_intact_buf_frame by (unfold sw_gB in HE; clear - HE HEA; lia).
    apply sw_memf_cfun, Hw.
Qed.

Lemma sw_m_ok_int_eax n1 n2 : sw_m_ok n1 n2 = true -> (fst n1 =? fst n2) = true -> snd (snd n1) = snd (snd n2).
Proof.
  unfold sw_m_ok, sw_any_wf_b. intros H Eh. rewrite Eh in H. apply andb_prop in H. destruct H as [H _].
  unfold sw_int_wf_b in H. apply andb_prop in H. destruct H as [H _]. apply andb_prop in H. destruct H as [_ H].
  apply sw_list_eqb_eq, H.
Qed.

Theorem sw_m_plain_frame n1 n2 from to : sw_m_ok n1 n2 = true -> sw_Wm from -> sw_Wm to ->
  fr V dflt E from (fst (sw_m_plain n1 n2 from to)) /\
  (fr V dflt E to (snd (sw_m_plain n1 n2 from to)) \/ fr V dflt E from (snd (sw_m_plain n1 n2 from to))).
Proof.
  intros Hok Wf Wt.
  assert (HE : forall w, w < nr -> sw_m_extent n1 n2 w <= E w) by (intros; apply sw_m_ok_extent; assumption).
  assert (Hnd : NoDup (snd (snd n1))).
  { unfold sw_m_ok in Hok. apply andb_prop in Hok. destruct Hok as [Hok' _]. apply (sw_any_wf_nodup _ _ Hok'). }
  pose proof (sw_m_ok_int_eax n1 n2 Hok) as Eax.
  revert HE. unfold sw_m_plain, sw_m_extent. cbv zeta.
  destruct (fst n1 =? fst n2).
  - specialize (Eax eq_refl). destruct (swap_axes _ _ _) as [|a0 rest]; intros HE; cbn [fst snd].
    + split; [apply fr_refl|left]. apply sw_mprefix_fr; assumption.
    + destruct (sw_mint_plain_fr (snd n1) (snd n2) a0 from to Hnd Eax HE Wf Wt) as [H1 H2]. split; [exact H1|left; exact H2].
  - destruct (sw_nd nprocsT (snd (snd n2)) =? sw_nd nprocsT (snd (snd n1))).
    + intros HE. cbn [fst snd]. split; [apply fr_refl|left]. apply sw_mprefix_fr; assumption.
    + destruct (sw_nd nprocsT (snd (snd n1)) <? sw_nd nprocsT (snd (snd n2))).
      * intros HE. destruct (sw_scatter_axis (snd n1) (snd n2)); cbn [fst snd].
        -- split; [apply fr_refl|left]. apply sw_mprefix_fr; assumption.
        -- split; [apply fr_refl|left; apply fr_refl].
      * destruct (sw_gather_axis (snd n1) (snd n2)) as [is_|]; intros HE.
        -- destruct (sw_mgather_plain_fr (snd n1) (snd n2) is_ from to HE Wf) as [H1 H2].
           split; [exact H1|right]. rewrite H2. exact H1.
        -- cbn [fst snd]. split; [apply fr_refl|left; apply fr_refl].
Qed.

Theorem sw_m_intact_frame n1 n2 from to scratch : sw_m_ok n1 n2 = true -> sw_Wm from -> sw_Wm to -> sw_Wm scratch ->
  fr V dflt E to (fst (sw_m_intact n1 n2 from to scratch)) /\ fr V dflt E scratch (snd (sw_m_intact n1 n2 from to scratch)).
Proof.
  intros Hok Wf Wt Ws.
  assert (HE : forall w, w < nr -> sw_m_extent n1 n2 w <= E w) by (intros; apply sw_m_ok_extent; assumption).
  assert (Hnd : NoDup (snd (snd n1))).
  { unfold sw_m_ok in Hok. apply andb_prop in Hok. destruct Hok as [Hok' _]. apply (sw_any_wf_nodup _ _ Hok'). }
  pose proof (sw_m_ok_int_eax n1 n2 Hok) as Eax.
  revert HE. unfold sw_m_intact, sw_m_extent. cbv zeta.
  destruct (fst n1 =? fst n2).
  - specialize (Eax eq_refl). destruct (swap_axes _ _ _) as [|a0 rest]; intros HE; cbn [fst snd].
    + split; [|apply fr_refl]. apply sw_mprefix_fr; assumption.
    + apply sw_mint_intact_fr; assumption.
  - destruct (sw_nd nprocsT (snd (snd n2)) =? sw_nd nprocsT (snd (snd n1))).
    + intros HE. cbn [fst snd]. split; [|apply fr_refl]. apply sw_mprefix_fr; assumption.
    + destruct (sw_nd nprocsT (snd (snd n1)) <? sw_nd nprocsT (snd (snd n2))).
      * intros HE. destruct (sw_scatter_axis (snd n1) (snd n2)); cbn [fst snd].
        -- split; [|apply fr_refl]. apply sw_mprefix_fr; assumption.
        -- split; apply fr_refl.
      * destruct (sw_gather_axis (snd n1) (snd n2)) as [is_|]; intros HE.
        -- apply sw_mgather_intact_fr; assumption.
        -- cbn [fst snd]. split; apply fr_refl.
Qed.

(** ** the block prefix of dest is the output of the prefix-level model sw_run_any *)
Lemma sw_mprefix_cell f (D : sw_lay) to w A : sw_Wm to -> w < nr -> A < sw_msize D w -> sw_msize D w <= E w ->
  cell V dflt (sw_mprefix f D to) w A = f w A.
Proof.
  intros [Hl W] Hw HA HE. unfold sw_mprefix. rewrite mat_cell; [|rewrite Hl; exact Hw|specialize (W w Hw); lia].
  destruct (Nat.ltb_spec A (sw_msize D w)); [reflexivity|lia].
Qed.

Lemma sw_mat_cell f (m : mems V) w A : sw_Wm m -> w < nr -> A < E w -> cell V dflt (mat V f m) w A = f w A.
Proof. intros [Hl W] Hw HA. apply mat_cell; [rewrite Hl; exact Hw|specialize (W w Hw); lia]. Qed.

Lemma sw_int_dist_hyps (S D : sw_lay) a0 : sw_cfg_wf_b Nl nprocsT d' S D = true -> sw_int_dist_wf_b nprocsT d' S D a0 = true ->
  a0 < d /\ (forall a, 0 < Pax (snd S) a) /\
  (forall a, a < d -> sw_pif S a < d /\ sw_ipif S (sw_pif S a) = a) /\
  (forall e, e < d -> sw_ipif S e < d /\ sw_pif S (sw_ipif S e) = e) /\
  (forall a, a < d -> sw_pif D a < d /\ sw_ipif D (sw_pif D a) = a) /\
  (forall e, e < d -> sw_ipif D e < d /\ sw_pif D (sw_ipif D e) = e) /\
  (forall a, a < d -> a <> a0 -> 1 < Pax (snd S) a -> sw_pif S a = sw_pif D a) /\
  sw_pif S a0 <> sw_pif D a0.
Proof.
  intros Hwf Hd.
  destruct (sw_wf_parts Nl nprocsT d' S D Hwf) as [HlN [Hp [Hp' [Hpos _]]]].
  unfold sw_int_dist_wf_b in Hd. apply andb_prop in Hd. destruct Hd as [Hd Hall].
  apply andb_prop in Hd. destruct Hd as [Ha0 Hdiff].
  apply Nat.ltb_lt in Ha0. apply negb_true_iff, Nat.eqb_neq in Hdiff.
  split; [exact Ha0|]. split; [exact (sw_P_pos nprocsT Hpos (snd S))|].
  split; [exact (perm_fwd d (fst S) Hp)|]. split; [exact (perm_bwd d (fst S) Hp)|].
  split; [exact (perm_fwd d (fst D) Hp')|]. split; [exact (perm_bwd d (fst D) Hp')|].
  split; [|exact Hdiff].
  intros a Ha Hne H1. rewrite forallb_forall in Hall. specialize (Hall a ltac:(apply in_seq; unfold d in Ha; lia)).
  destruct (Nat.eqb_spec a a0); [contradiction|]. destruct (Nat.ltb_spec 1 (Pax (snd S) a)); [|lia].
  cbn in Hall. apply Nat.eqb_eq in Hall. exact Hall.
Qed.

Lemma sw_int_shape (S D : sw_lay) w : snd S = snd D ->
  shp D w = mk d (TransposeStep.sh' Nf (Pax (snd S)) (sw_pif D) (sw_lco nprocsT (snd S) w)).
Proof. intros Eax. unfold d, sw_shape, sw_shapef, TransposeStep.sh', sw_lco. rewrite <- Eax. reflexivity. Qed.

Lemma sw_lco_valid ax w : w < nr -> TransposeStep.valid d' (Pax ax) (sw_lco nprocsT ax w).
Proof. intros Hw a _. unfold sw_lco. apply sw_co_lt, sw_cfun_valid, Hw. Qed.

Lemma sw_run_int_dist_nth (S D : sw_lay) a0 from w A : w < nr -> A < sw_msize D w ->
  nth A (nth w (sw_run_int_dist V dflt Nl nprocsT d' S D a0 from) []) dflt
  = TransposeStep.dst V d' Nf (Pax (snd S)) (sw_pif S) (sw_ipif S) (sw_pif D) (sw_ipif D) a0
      (sw_src_w V dflt nprocsT (snd S) from w) (sw_lco nprocsT (snd S) w) A.
Proof.
  intros Hw HA. unfold sw_run_int_dist. rewrite sw_nth_map_seq_list by exact Hw.
  rewrite sw_nth_map_seq by exact HA. reflexivity.
Qed.

(** the hypotheses of the gather theorems from the boolean checks (as in sw_gather_correct) *)
Lemma sw_gather_hyps (S D : sw_lay) is_ : sw_cfg_wf_b Nl nprocsT d' S D = true -> sw_gather_wf_b nprocsT d' S D is_ = true ->
  let X := nth is_ (snd S) 0 in
  is_ < d /\
  (forall a, a < d -> sw_pif S a < d /\ sw_ipif S (sw_pif S a) = a) /\
  (forall e, e < d -> sw_ipif D e < d /\ sw_pif D (sw_ipif D e) = e) /\
  0 < Pax (snd S) is_ /\
  (forall (q : nat -> nat) a, sw_valid nprocsT q -> a < d -> a <> is_ ->
     Pax (snd D) (sw_ipif D (sw_pif S a)) = Pax (snd S) a /\ sw_co (snd D) q (sw_ipif D (sw_pif S a)) = sw_co (snd S) q a) /\
  (Pax (snd D) (sw_ipif D (sw_pif S is_)) = 1 /\
   forall q : nat -> nat, sw_valid nprocsT q -> sw_co (snd D) q (sw_ipif D (sw_pif S is_)) = 0) /\
  (forall (q : nat -> nat) r, sw_valid nprocsT q -> r < Pax (snd S) is_ -> sw_co (snd S) (sw_upd q X r) is_ = r) /\
  (forall (q : nat -> nat) r a, sw_valid nprocsT q -> r < Pax (snd S) is_ -> a <> is_ ->
     sw_co (snd S) (sw_upd q X r) a = sw_co (snd S) q a).
Proof.
  intros Hwf Hs X. destruct (sw_wf_parts Nl nprocsT d' S D Hwf) as [HlN [Hp [Hp' [Hpos [[HlS HndS] _]]]]].
  unfold sw_gather_wf_b in Hs. apply andb_prop in Hs. destruct Hs as [Hs _].
  apply andb_prop in Hs. destruct Hs as [Hs Hfull].
  apply andb_prop in Hs. destruct Hs as [His Hall]. apply Nat.ltb_lt in His. apply Nat.eqb_eq in Hfull.
  split; [unfold d; lia|].
  split; [exact (perm_fwd d (fst S) Hp)|]. split; [exact (perm_bwd d (fst D) Hp')|].
  split; [exact (sw_P_pos nprocsT Hpos _ _)|].
  split; [|split; [|split]].
  - intros q a Hq Ha Hne. apply sw_axis_same_spec; [|exact Hq].
    rewrite forallb_forall in Hall. specialize (Hall a ltac:(apply in_seq; unfold d in Ha; lia)).
    destruct (Nat.eqb_spec a is_); [contradiction|]. exact Hall.
  - split; [exact Hfull|]. intros q Hq.
    pose proof (sw_co_lt nprocsT (snd D) q (sw_ipif D (sw_pif S is_)) Hq) as H.
    unfold sw_ipif, sw_pif in H. rewrite Hfull in H. unfold sw_ipif, sw_pif. lia.
  - intros q r _ _. unfold sw_co, sw_upd. destruct (Nat.ltb_spec is_ (length (snd S))); [|lia].
    fold X. rewrite Nat.eqb_refl. reflexivity.
  - intros q r a _ _ Hne. unfold sw_co, sw_upd. destruct (Nat.ltb_spec a (length (snd S))) as [Ha|Ha]; [|reflexivity].
    destruct (Nat.eqb_spec (nth a (snd S) 0) X) as [E0|E0]; [|reflexivity].
    exfalso. apply Hne. apply (proj1 (NoDup_nth (snd S) 0) HndS); assumption.
Qed.

Lemma sw_run_gather_nth (S D : sw_lay) is_ from w A : w < nr -> A < sw_msize D w ->
  nth A (nth w (sw_run_gather V dflt Nl nprocsT d' S D is_ from) []) dflt
  = GatherStep.dst V d Nf (sw_pif S) (sw_pif D) (sw_ipif D) is_ (nat -> nat)
      (fun c r => sw_upd c (nth is_ (snd S) 0) r) (Pax (snd S)) (Pax (snd D)) (sw_co (snd S)) (sw_co (snd D))
      (memf from) (cf w) A.
Proof.
  intros Hw HA. unfold sw_run_gather. rewrite sw_nth_map_seq_list by exact Hw.
  rewrite sw_nth_map_seq by exact HA. reflexivity.
Qed.

Theorem sw_m_plain_prefix n1 n2 from to w j : sw_m_ok n1 n2 = true -> sw_Wm from -> sw_Wm to -> w < nr ->
  inb (shp (snd n2) w) j ->
  cell V dflt (snd (sw_m_plain n1 n2 from to)) w (ravel (shp (snd n2) w) j)
  = nth (ravel (shp (snd n2) w) j) (nth w (sw_run_any V dflt Nl nprocsT d' n1 n2 from) []) dflt.
Proof.
  intros Hok Wf Wt Hw Hj.
  pose proof (sw_m_ok_extent n1 n2 w Hok Hw) as HE.
  pose proof (ravel_lt _ _ Hj) as HA. fold (sw_msize (snd n2) w) in HA.
  pose proof (sw_m_ok_int_eax n1 n2 Hok) as Eax.
  unfold sw_m_ok in Hok. apply andb_prop in Hok. destruct Hok as [Hwf _].
  revert HE Hwf. unfold sw_m_plain, sw_m_extent, sw_run_any, sw_any_wf_b. cbv zeta.
  destruct (fst n1 =? fst n2).
  - specialize (Eax eq_refl). unfold sw_int_wf_b, sw_run_int.
    destruct (swap_axes _ _ _) as [|a0 rest]; intros HE Hwf; cbn [snd].
    + rewrite sw_mprefix_cell by assumption. unfold sw_same_f, sw_run_same.
      rewrite sw_nth_map_seq_list by exact Hw. rewrite sw_nth_map_seq by exact HA. reflexivity.
    + apply andb_prop in Hwf. destruct Hwf as [Hwf Hd]. apply andb_prop in Hwf. destruct Hwf as [Hwf _].
      destruct (sw_int_dist_hyps _ _ a0 Hwf Hd) as [Ha0 [HP [Hpi [Hipi [Hpi' [Hipi' [Hc Hdf]]]]]]].
      unfold sw_mint_plain. cbn [snd]. rewrite sw_mat_cell by (assumption || (clear - HA HE; lia)).
      rewrite sw_run_int_dist_nth by assumption.
      rewrite (sw_int_shape _ _ w Eax) in Hj |- *.
      apply (mplain_dst_prefix V d' Nf (Pax (snd (snd n1))) (sw_pif (snd n1)) (sw_ipif (snd n1)) (sw_pif (snd n2)) (sw_ipif (snd n2))
               a0 Ha0 HP Hpi Hipi Hpi' Hipi' Hc Hdf _ _ _ j (sw_lco_valid _ w Hw) Hj).
  - unfold sw_step_wf_b, sw_run_step.
    destruct (sw_nd nprocsT (snd (snd n2)) =? sw_nd nprocsT (snd (snd n1))).
    + intros HE Hwf. cbn [snd]. rewrite sw_mprefix_cell by assumption. unfold sw_same_f, sw_run_same.
      rewrite sw_nth_map_seq_list by exact Hw. rewrite sw_nth_map_seq by exact HA. reflexivity.
    + destruct (sw_nd nprocsT (snd (snd n1)) <? sw_nd nprocsT (snd (snd n2))).
      * intros HE Hwf. destruct (sw_scatter_axis (snd n1) (snd n2)) as [is_|]; cbn [snd].
        -- rewrite sw_mprefix_cell by assumption. unfold sw_scatter_f, sw_run_scatter.
           rewrite sw_nth_map_seq_list by exact Hw. rewrite sw_nth_map_seq by exact HA. reflexivity.
        -- apply andb_prop in Hwf. destruct Hwf as [_ Hwf]. discriminate.
      * destruct (sw_gather_axis (snd n1) (snd n2)) as [is_|]; intros HE Hwf.
        -- apply andb_prop in Hwf. destruct Hwf as [Hwf Hg].
           destruct (sw_gather_hyps _ _ is_ Hwf Hg) as [His [Hpi [Hipi' [Hp [Hsame [HF [HsI HsO]]]]]]].
           unfold sw_mgather_plain. cbn [snd]. rewrite sw_mat_cell by (assumption || (clear - HA HE; lia)).
           rewrite sw_run_gather_nth by assumption.
           exact (mgather_plain_prefix V d Nf (sw_pif (snd n1)) (sw_ipif (snd n1)) (sw_pif (snd n2)) (sw_ipif (snd n2)) is_
                    (nat -> nat) (sw_valid nprocsT) _ _ _ _ _ His Hpi Hipi' Hp Hsame HF HsI HsO _ _ (cf w) j
                    (sw_cfun_valid nprocsT w Hw) Hj).
        -- apply andb_prop in Hwf. destruct Hwf as [_ Hwf]. discriminate.
Qed.

Theorem sw_m_intact_prefix n1 n2 from to scratch w j : sw_m_ok n1 n2 = true -> sw_Wm to -> w < nr ->
  inb (shp (snd n2) w) j ->
  cell V dflt (fst (sw_m_intact n1 n2 from to scratch)) w (ravel (shp (snd n2) w) j)
  = nth (ravel (shp (snd n2) w) j) (nth w (sw_run_any V dflt Nl nprocsT d' n1 n2 from) []) dflt.
Proof.
  intros Hok Wt Hw Hj.
  pose proof (sw_m_ok_extent n1 n2 w Hok Hw) as HE.
  pose proof (ravel_lt _ _ Hj) as HA. fold (sw_msize (snd n2) w) in HA.
  pose proof (sw_m_ok_int_eax n1 n2 Hok) as Eax.
  unfold sw_m_ok in Hok. apply andb_prop in Hok. destruct Hok as [Hwf _].
  revert HE Hwf. unfold sw_m_intact, sw_m_extent, sw_run_any, sw_any_wf_b. cbv zeta.
  destruct (fst n1 =? fst n2).
  - specialize (Eax eq_refl). unfold sw_int_wf_b, sw_run_int.
    destruct (swap_axes _ _ _) as [|a0 rest]; intros HE Hwf; cbn [fst].
    + rewrite sw_mprefix_cell by assumption. unfold sw_same_f, sw_run_same.
      rewrite sw_nth_map_seq_list by exact Hw. rewrite sw_nth_map_seq by exact HA. reflexivity.
    + apply andb_prop in Hwf. destruct Hwf as [Hwf Hd]. apply andb_prop in Hwf. destruct Hwf as [Hwf _].
      destruct (sw_int_dist_hyps _ _ a0 Hwf Hd) as [Ha0 [HP [Hpi [Hipi [Hpi' [Hipi' [Hc Hdf]]]]]]].
      unfold sw_mint_intact. cbn [fst]. rewrite sw_mat_cell by (assumption || (clear - HA HE; lia)).
      rewrite sw_run_int_dist_nth by assumption.
      rewrite (sw_int_shape _ _ w Eax) in Hj |- *.
      apply (mintact_dst_prefix V d' Nf (Pax (snd (snd n1))) (sw_pif (snd n1)) (sw_ipif (snd n1)) (sw_pif (snd n2)) (sw_ipif (snd n2))
               a0 Ha0 HP Hpi Hipi Hpi' Hipi' Hc Hdf _ _ _ _ j (sw_lco_valid _ w Hw) Hj).
  - unfold sw_step_wf_b, sw_run_step.
    destruct (sw_nd nprocsT (snd (snd n2)) =? sw_nd nprocsT (snd (snd n1))).
    + intros HE Hwf. cbn [fst]. rewrite sw_mprefix_cell by assumption. unfold sw_same_f, sw_run_same.
      rewrite sw_nth_map_seq_list by exact Hw. rewrite sw_nth_map_seq by exact HA. reflexivity.
    + destruct (sw_nd nprocsT (snd (snd n1)) <? sw_nd nprocsT (snd (snd n2))).
      * intros HE Hwf. destruct (sw_scatter_axis (snd n1) (snd n2)) as [is_|]; cbn [fst].
        -- rewrite sw_mprefix_cell by assumption. unfold sw_scatter_f, sw_run_scatter.
           rewrite sw_nth_map_seq_list by exact Hw. rewrite sw_nth_map_seq by exact HA. reflexivity.
        -- apply andb_prop in Hwf. destruct Hwf as [_ Hwf]. discriminate.
      * destruct (sw_gather_axis (snd n1) (snd n2)) as [is_|]; intros HE Hwf.
        -- apply andb_prop in Hwf. destruct Hwf as [Hwf Hg].
           destruct (sw_gather_hyps _ _ is_ Hwf Hg) as [His [Hpi [Hipi' [Hp [Hsame [HF [HsI HsO]]]]]]].
           unfold sw_mgather_intact. cbn [fst]. rewrite sw_mat_cell by (assumption || (clear - HA HE; lia)).
           rewrite sw_run_gather_nth by assumption.
           exact (mgather_intact_prefix V d Nf (sw_pif (snd n1)) (sw_ipif (snd n1)) (sw_pif (snd n2)) (sw_ipif (snd n2)) is_
                    (nat -> nat) (sw_valid nprocsT) _ _ _ _ _ His Hpi Hipi' Hp Hsame HF HsI HsO _ _ _ (cf w) j
                    (sw_cfun_valid nprocsT w Hw) Hj).
        -- apply andb_prop in Hwf. destruct Hwf as [_ Hwf]. discriminate.
Qed.

(** hence both variants transport the global field (sw_any_correct) *)
Variable G : list nat -> V.

Theorem sw_m_plain_correct n1 n2 from to : sw_m_ok n1 n2 = true -> sw_Wm from -> sw_Wm to ->
  HoldsS V dflt Nl nprocsT d' G (snd n1) from -> HoldsS V dflt Nl nprocsT d' G (snd n2) (snd (sw_m_plain n1 n2 from to)).
Proof.
  intros Hok Wf Wt HL w Hw j Hj.
  fold (cell V dflt (snd (sw_m_plain n1 n2 from to)) w (ravel (shp (snd n2) w) j)).
  rewrite sw_m_plain_prefix by assumption.
  unfold sw_m_ok in Hok. apply andb_prop in Hok. destruct Hok as [Hok _].
  exact (sw_any_correct V dflt Nl nprocsT d' G n1 n2 from Hok HL w Hw j Hj).
Qed.
Theorem sw_m_intact_correct n1 n2 from to scratch : sw_m_ok n1 n2 = true -> sw_Wm to ->
  HoldsS V dflt Nl nprocsT d' G (snd n1) from ->
  HoldsS V dflt Nl nprocsT d' G (snd n2) (fst (sw_m_intact n1 n2 from to scratch)).
Proof.
  intros Hok Wt HL w Hw j Hj.
  fold (cell V dflt (fst (sw_m_intact n1 n2 from to scratch)) w (ravel (shp (snd n2) w) j)).
  rewrite sw_m_intact_prefix by assumption.
  unfold sw_m_ok in Hok. apply andb_prop in Hok. destruct Hok as [Hok _].
  exact (sw_any_correct V dflt Nl nprocsT d' G n1 n2 from Hok HL w Hw j Hj).
Qed.

(** ** the swapper's redirects (LayoutSwapper._transposeRedirect / _transposeRedirect_source_intact) *)
Definition sw_m_redirect := redirect_m V sw_node sw_m_plain.
Definition sw_m_redirect_intact := redirect_intact_m V sw_node sw_m_plain sw_m_intact.
Definition sw_m_route_ok := route_ok sw_node sw_m_ok.

Definition sw_m_copy (cur : sw_node) (src dst : mems V) : mems V :=
  mat V (fun w A => if A <? sw_msize (snd cur) w then cell V dflt src w A else cell V dflt dst w A) dst.
Definition sw_m_transpose := transpose_m V sw_node sw_m_plain sw_m_intact sw_m_copy.

(** without a spare buffer: beyond E each of the two arrays holds what the source or the dest array held
    (a gather copies the whole source array into dest; every other step leaves both untouched there) *)
Theorem sw_m_redirect_frame cur steps src dst : sw_m_route_ok cur steps = true -> sw_Wm src -> sw_Wm dst ->
  among V dflt E (fst (sw_m_redirect cur steps src dst)) [src; dst] /\
  among V dflt E (snd (sw_m_redirect cur steps src dst)) [src; dst].
Proof.
  apply (redirect_among V dflt sw_node sw_m_plain sw_m_ok E sw_Wm sw_Wm_len).
  intros l l' f t Hok Wf Wt. apply sw_m_plain_frame; assumption.
Qed.
(** with a spare buffer: the source array is no output of the model; beyond E dest and buf hold what dest or
    buf held *)
Theorem sw_m_redirect_intact_frame cur steps src dst buf : sw_m_route_ok cur steps = true ->
  sw_Wm src -> sw_Wm dst -> sw_Wm buf ->
  among V dflt E (fst (sw_m_redirect_intact cur steps src dst buf)) [dst; buf] /\
  among V dflt E (snd (sw_m_redirect_intact cur steps src dst buf)) [dst; buf].
Proof.
  apply (redirect_intact_among V dflt sw_node sw_m_plain sw_m_intact sw_m_ok E sw_Wm sw_Wm_len).
  - intros l l' f t Hok Wf Wt. apply sw_m_plain_frame; assumption.
  - intros l l' f t s Hok Wf Wt Ws. apply sw_m_intact_frame; assumption.
Qed.

Theorem sw_m_redirect_correct cur steps src dst : sw_m_route_ok cur steps = true -> sw_Wm src -> sw_Wm dst ->
  HoldsS V dflt Nl nprocsT d' G (snd cur) src ->
  HoldsS V dflt Nl nprocsT d' G (snd (last steps cur)) (snd (sw_m_redirect cur steps src dst)).
Proof.
  apply (redirect_hdw V dflt sw_node sw_m_plain sw_m_ok E sw_Wm sw_Wm_len
           ltac:(intros l l' f t Hok Wf Wt; apply sw_m_plain_frame; assumption)
           (fun n m => HoldsS V dflt Nl nprocsT d' G (snd n) m)).
  intros l l' f t Hok Wf Wt. apply sw_m_plain_correct; assumption.
Qed.
Theorem sw_m_redirect_intact_correct cur steps src dst buf : steps <> [] -> sw_m_route_ok cur steps = true ->
  sw_Wm src -> sw_Wm dst -> sw_Wm buf -> HoldsS V dflt Nl nprocsT d' G (snd cur) src ->
  HoldsS V dflt Nl nprocsT d' G (snd (last steps cur)) (fst (sw_m_redirect_intact cur steps src dst buf)).
Proof.
  apply (redirect_intact_hdw V dflt sw_node sw_m_plain sw_m_intact sw_m_ok E sw_Wm sw_Wm_len
           ltac:(intros l l' f t Hok Wf Wt; apply sw_m_plain_frame; assumption)
           ltac:(intros l l' f t s Hok Wf Wt Ws; apply sw_m_intact_frame; assumption)
           (fun n m => HoldsS V dflt Nl nprocsT d' G (snd n) m)).
  - intros l l' f t Hok Wf Wt. apply sw_m_plain_correct; assumption.
  - intros l l' f t s Hok Wf Wt Ws. apply sw_m_intact_correct; assumption.
Qed.

End SwMem.
