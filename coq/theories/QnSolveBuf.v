(** C15: DiffEqSolver.solveEquation / _solveMode and the SHARED work buffer self._coeffs.

    The solver owns one coefficient buffer of nbasis entries (np.empty: arbitrary content at first, the
    coefficients of the last solve afterwards).  For every mode of the rank, solveEquation sets
    [_coeffs[0] = 0; _coeffs[-1] = 0] and calls _solveMode, which for every z slice assigns
    [coeffs[:] = spsolve(stiffnessMatrix, massMat.dot(interpolant))] through the view
    [coeffs = _coeffs[_coeff_range[I]]] and then evaluates the spline whose coefficients are the WHOLE buffer.

    Model: the buffer is threaded through a fold over modes and z slices.  [usolve par line] stands for the
    vector assigned to the view (interpolation of the line, mass-matrix rows, sparse solve): a function of
    the mode's parameters and of the mode's right-hand-side line only (the interpolant's own coefficient
    array is completely overwritten by compute_interpolant - C08).  Slice assignment with a wrong length is
    an explicit error (numpy: ValueError).

    Theorem: for every initial buffer content, the result of the sequence of solves is the list of
    independent solves [evalr (zeros a ++ usolve par line ++ zeros (nb - b))]. *)
From Coq Require Import List Arith Lia PeanoNat Bool ZArith.
Import ListNotations.
From PGV Require Import QnModes.

Section SolveBuf.
Variable T : Type.                      (* a coefficient *)
Variable t0 : T.                        (* 0 *)
Variables Line Out P : Type.            (* right-hand-side line of a mode at one z; line written to phi; per-mode parameters *)
Variable crange : P -> nat * nat.       (* self._coeff_range[I] = slice(a, b) *)
Variable usolve : P -> Line -> list T.  (* spsolve(stiffnessMatrix, massMat.dot(self._spline.coeffs)) *)
Variable evalr : list T -> Out.         (* real and imaginary splines with coefficients self._coeffs at the radial points *)

(** l[i] = v (no effect outside the list) *)
Fixpoint qs_set (i : nat) (v : T) (l : list T) : list T :=
  match l with
  | [] => []
  | x :: r => match i with O => v :: r | S i' => x :: qs_set i' v r end
  end.
(** buf[a:b] = u through a view; None = ValueError (could not broadcast) *)
Definition qs_assign (buf : list T) (a b : nat) (u : list T) : option (list T) :=
  if (a <=? b) && (b <=? length buf) && (length u =? b - a) then Some (firstn a buf ++ u ++ skipn b buf) else None.

(** one z slice of _solveMode *)
Definition qs_solve_line (par : P) (buf : list T) (line : Line) : option (list T * Out) :=
  match qs_assign buf (fst (crange par)) (snd (crange par)) (usolve par line) with
  | Some buf' => Some (buf', evalr buf')
  | None => None
  end.
(** _solveMode: the z slices in order *)
Fixpoint qs_solve_lines (par : P) (buf : list T) (lines : list Line) : option (list T * list Out) :=
  match lines with
  | [] => Some (buf, [])
  | ln :: r => match qs_solve_line par buf ln with
               | None => None
               | Some (buf', o) => match qs_solve_lines par buf' r with
                                   | None => None
                                   | Some (buf'', os) => Some (buf'', o :: os)
                                   end
               end
  end.
(** self._coeffs[0] = 0; self._coeffs[-1] = 0 *)
Definition qs_reset (buf : list T) : list T := qs_set (length buf - 1) t0 (qs_set 0 t0 buf).
(** one iteration of the loop of solveEquation *)
Definition qs_solve_mode (par : P) (buf : list T) (lines : list Line) := qs_solve_lines par (qs_reset buf) lines.
(** solveEquation: the modes of this rank in order, each with its z slices *)
Fixpoint qs_solve_equation (buf : list T) (modes : list (P * list Line)) : option (list T * list (list Out)) :=
  match modes with
  | [] => Some (buf, [])
  | (par, lines) :: r => match qs_solve_mode par buf lines with
                         | None => None
                         | Some (buf', os) => match qs_solve_equation buf' r with
                                              | None => None
                                              | Some (buf'', oss) => Some (buf'', os :: oss)
                                              end
                         end
  end.

(** the independent solve of one (mode, z): the coefficient vector is zero outside the mode's unknown range *)
Definition qs_indep (nb : nat) (par : P) (line : Line) : list T :=
  repeat t0 (fst (crange par)) ++ usolve par line ++ repeat t0 (nb - snd (crange par)).

(** what the per-mode slices of DiffEqSolver guarantee (QnModes.qn_coeff_range: a in {0,1}, b in {nb-1, nb}) and
    what the linear solve returns (one value per unknown) *)
Definition qs_adm (nb : nat) (par : P) (line : Line) : Prop :=
  fst (crange par) <= 1 /\ nb - 1 <= snd (crange par) <= nb /\ fst (crange par) <= snd (crange par) /\
  length (usolve par line) = snd (crange par) - fst (crange par).

(* ---- list facts *)
Lemma qs_set_length i v l : length (qs_set i v l) = length l.
Proof. revert i. induction l as [|x r IH]; intros [|i]; cbn; try reflexivity. rewrite IH. reflexivity. Qed.
Lemma qs_set_same i v l d : i < length l -> nth i (qs_set i v l) d = v.
Proof. revert i. induction l as [|x r IH]; intros [|i] H; cbn in *; try lia; [reflexivity|]. apply IH. lia. Qed.
Lemma qs_set_other i j v l d : i <> j -> nth j (qs_set i v l) d = nth j l d.
Proof. revert i j. induction l as [|x r IH]; intros [|i] [|j] H; cbn; try reflexivity; try lia. apply IH. lia. Qed.
Lemma qs_skipn_last (l : list T) m d : length l = S m -> skipn m l = [nth m l d].
Proof.
  revert l. induction m as [|m IH]; intros l H.
  - destruct l as [|x [|y r]]; cbn in H; try lia. reflexivity.
  - destruct l as [|x r]; cbn in H; [lia|]. cbn [skipn nth]. apply IH. lia.
Qed.

Definition qs_inv (nb a b : nat) (buf : list T) : Prop :=
  length buf = nb /\ (a = 1 -> nth 0 buf t0 = t0) /\ (S b = nb -> nth b buf t0 = t0).

Lemma qs_reset_inv nb a b buf : 1 <= nb -> length buf = nb -> qs_inv nb a b (qs_reset buf).
Proof.
  intros Hnb Hl. unfold qs_reset, qs_inv. rewrite !qs_set_length. split; [exact Hl|]. split.
  - intros _. destruct (Nat.eq_dec (length buf - 1) 0) as [E|E].
    + rewrite E. apply qs_set_same. rewrite qs_set_length. lia.
    + rewrite qs_set_other by exact E. apply qs_set_same. lia.
  - intros Hb. replace (length buf - 1) with b by lia. apply qs_set_same. rewrite qs_set_length. lia.
Qed.

Lemma qs_assign_inv nb a b buf u :
  qs_inv nb a b buf -> a <= 1 -> nb - 1 <= b <= nb -> a <= b -> length u = b - a ->
  qs_assign buf a b u = Some (repeat t0 a ++ u ++ repeat t0 (nb - b)).
Proof.
  intros [Hl [H0 Hlast]] Ha Hb Hab Hu. unfold qs_assign.
  replace ((a <=? b) && (b <=? length buf) && (length u =? b - a)) with true.
  2:{ symmetry. rewrite !andb_true_iff. repeat split; [apply Nat.leb_le; lia|apply Nat.leb_le; lia|apply Nat.eqb_eq; exact Hu]. }
  f_equal. f_equal; [|f_equal].
  - destruct a as [|[|a]]; [reflexivity| |lia]. destruct buf as [|x r]; [cbn in Hl; lia|].
    cbn. f_equal. apply (H0 eq_refl).
  - destruct (Nat.eq_dec b nb) as [->|Hne].
    + rewrite Nat.sub_diag. rewrite <- Hl. apply skipn_all.
    + assert (Hs : S b = nb) by lia. replace (nb - b) with 1 by lia. cbn [repeat].
      rewrite (qs_skipn_last buf b t0) by lia. f_equal. apply (Hlast Hs).
Qed.

Lemma qs_indep_inv nb par line : qs_adm nb par line -> qs_inv nb (fst (crange par)) (snd (crange par)) (qs_indep nb par line).
Proof.
  intros [Ha [Hb [Hab Hu]]]. unfold qs_indep, qs_inv. rewrite !app_length, !repeat_length, Hu.
  split; [lia|]. split.
  - intros E. rewrite E. reflexivity.
  - intros Hs. rewrite app_nth2 by (rewrite repeat_length; lia). rewrite repeat_length.
    rewrite app_nth2 by lia. rewrite Hu. replace (snd (crange par) - fst (crange par) - (snd (crange par) - fst (crange par))) with 0 by lia.
    replace (nb - snd (crange par)) with 1 by lia. reflexivity.
Qed.

Lemma qs_solve_lines_spec nb par lines : forall buf,
  qs_inv nb (fst (crange par)) (snd (crange par)) buf ->
  (forall ln, In ln lines -> qs_adm nb par ln) ->
  exists buf', qs_solve_lines par buf lines = Some (buf', map (fun ln => evalr (qs_indep nb par ln)) lines) /\ length buf' = nb.
Proof.
  induction lines as [|ln r IH]; intros buf Hinv Hadm; cbn [qs_solve_lines map].
  - exists buf. split; [reflexivity|apply Hinv].
  - pose proof (Hadm ln (or_introl eq_refl)) as A. destruct A as [Ha [Hb [Hab Hu]]].
    unfold qs_solve_line. rewrite (qs_assign_inv nb _ _ buf _ Hinv Ha Hb Hab Hu).
    fold (qs_indep nb par ln).
    destruct (IH (qs_indep nb par ln) (qs_indep_inv nb par ln (Hadm ln (or_introl eq_refl))) (fun l H => Hadm l (or_intror H))) as [buf' [E L]].
    rewrite E. exists buf'. split; [reflexivity|exact L].
Qed.

(** the result of a sequence of solves equals the list of independent solves, whatever the buffer held before *)
Theorem qs_solve_equation_independent nb modes : 1 <= nb -> forall buf, length buf = nb ->
  (forall par lines ln, In (par, lines) modes -> In ln lines -> qs_adm nb par ln) ->
  exists buf', qs_solve_equation buf modes
               = Some (buf', map (fun ml => map (fun ln => evalr (qs_indep nb (fst ml) ln)) (snd ml)) modes)
               /\ length buf' = nb.
Proof.
  intros Hnb. induction modes as [|[par lines] r IH]; intros buf Hl Hadm; cbn [qs_solve_equation map fst snd].
  - exists buf. split; [reflexivity|exact Hl].
  - unfold qs_solve_mode.
    destruct (qs_solve_lines_spec nb par lines (qs_reset buf) (qs_reset_inv nb _ _ buf Hnb Hl)
                (fun ln H => Hadm par lines ln (or_introl eq_refl) H)) as [buf1 [E1 L1]].
    rewrite E1. destruct (IH buf1 L1 (fun p ls ln H H' => Hadm p ls ln (or_intror H) H')) as [buf2 [E2 L2]].
    rewrite E2. exists buf2. split; [reflexivity|exact L2].
Qed.

(** in particular two histories of the shared buffer give the same lines *)
Corollary qs_history_free nb modes buf1 buf2 : 1 <= nb -> length buf1 = nb -> length buf2 = nb ->
  (forall par lines ln, In (par, lines) modes -> In ln lines -> qs_adm nb par ln) ->
  option_map snd (qs_solve_equation buf1 modes) = option_map snd (qs_solve_equation buf2 modes).
Proof.
  intros Hnb H1 H2 Hadm.
  destruct (qs_solve_equation_independent nb modes Hnb buf1 H1 Hadm) as [b1 [E1 _]].
  destruct (qs_solve_equation_independent nb modes Hnb buf2 H2 Hadm) as [b2 [E2 _]].
  rewrite E1, E2. reflexivity.
Qed.

(** a zero right-hand side (zero vector from the solve) gives the zero coefficient vector *)
Theorem qs_zero_rhs nb par line : snd (crange par) <= nb -> fst (crange par) <= snd (crange par) ->
  usolve par line = repeat t0 (snd (crange par) - fst (crange par)) -> qs_indep nb par line = repeat t0 nb.
Proof.
  intros Hb Hab E. unfold qs_indep. rewrite E, <- !repeat_app. f_equal. lia.
Qed.

(** the boundary coefficients are those the boundary rule sets: 0 where the mode is Dirichlet (index outside the
    unknown range), the first / last unknown where it is Neumann *)
Theorem qs_boundary nb par line : qs_adm nb par line -> 1 <= nb ->
  (fst (crange par) = 1 -> nth 0 (qs_indep nb par line) t0 = t0) /\
  (fst (crange par) = 0 -> snd (crange par) <> 0 -> nth 0 (qs_indep nb par line) t0 = nth 0 (usolve par line) t0) /\
  (S (snd (crange par)) = nb -> nth (nb - 1) (qs_indep nb par line) t0 = t0) /\
  (snd (crange par) = nb -> fst (crange par) < nb ->
   nth (nb - 1) (qs_indep nb par line) t0 = nth (nb - 1 - fst (crange par)) (usolve par line) t0).
Proof.
  intros A Hnb. pose proof (qs_indep_inv nb par line A) as [_ [I0 I1]]. destruct A as [Ha [Hb [Hab Hu]]].
  repeat split.
  - exact I0.
  - intros E Hne. unfold qs_indep. rewrite E. cbn [repeat app]. apply app_nth1. lia.
  - intros E. replace (nb - 1) with (snd (crange par)) by lia. exact (I1 E).
  - intros E Hlt. unfold qs_indep. rewrite app_nth2 by (rewrite repeat_length; lia). rewrite repeat_length.
    apply app_nth1. lia.
Qed.

(** * The variant that skips empty right-hand sides (what a "the trivial solution is already in the buffer"
      shortcut would do) is NOT history free *)
Variable is_zero : Line -> bool.
Definition qs_solve_line_skip (par : P) (buf : list T) (line : Line) : option (list T * Out) :=
  if is_zero line then Some (buf, evalr buf) else qs_solve_line par buf line.

End SolveBuf.

(** the per-mode coefficient slices of DiffEqSolver are admissible for the theorem above *)
Theorem qs_adm_of_qn_ranges (nb : Z) (lN uN : list Z) (m : Z) : (2 <= nb)%Z ->
  let a := Z.to_nat (fst (qn_coeff_range nb lN uN m)) in let b := Z.to_nat (snd (qn_coeff_range nb lN uN m)) in
  a <= 1 /\ Z.to_nat nb - 1 <= b <= Z.to_nat nb /\ a <= b /\
  (* one unknown per row of the sliced stiffness matrix *)
  b - a = Z.to_nat (snd (qn_stiff_range nb lN uN m) - fst (qn_stiff_range nb lN uN m)).
Proof.
  intros Hnb. pose proof (qn_ranges_consistent nb lN uN m) as [C1 C2].
  unfold qn_coeff_range in *. cbn [fst snd] in *.
  destruct (qn_mem m lN), (qn_mem m uN); cbn zeta; repeat split; lia.
Qed.

(* ------------------------------------------------------------------------------------------ *)
(** * Non-vacuity, and the shortcut refuted *)
Section SkipFold.
Variables (T Line Out P : Type) (t0 : T).
Variable step : P -> list T -> Line -> option (list T * Out).
Fixpoint qs_lines_with (par : P) (buf : list T) (lines : list Line) : option (list T * list Out) :=
  match lines with
  | [] => Some (buf, [])
  | ln :: r => match step par buf ln with
               | None => None
               | Some (buf', o) => match qs_lines_with par buf' r with
                                   | None => None
                                   | Some (buf'', os) => Some (buf'', o :: os)
                                   end
               end
  end.
Fixpoint qs_equation_with (buf : list T) (modes : list (P * list Line)) : option (list T * list (list Out)) :=
  match modes with
  | [] => Some (buf, [])
  | (par, lines) :: r => match qs_lines_with par (qs_reset T t0 buf) lines with
                         | None => None
                         | Some (buf', os) => match qs_equation_with buf' r with
                                              | None => None
                                              | Some (buf'', oss) => Some (buf'', os :: oss)
                                              end
                         end
  end.
End SkipFold.

(** the fold with the code's step is [qs_solve_equation] *)
Lemma qs_equation_with_code (T Line Out P : Type) (t0 : T) crange usolve evalr buf modes :
  qs_equation_with T Line Out P t0 (qs_solve_line T Line Out P crange usolve evalr) buf modes
  = qs_solve_equation T t0 Line Out P crange usolve evalr buf modes.
Proof.
  revert buf. induction modes as [|[par lines] r IH]; intros buf; cbn [qs_equation_with qs_solve_equation]; [reflexivity|].
  unfold qs_solve_mode.
  assert (E : forall b, qs_lines_with T Line Out P (qs_solve_line T Line Out P crange usolve evalr) par b lines
                        = qs_solve_lines T Line Out P crange usolve evalr par b lines).
  { induction lines as [|ln l IHl]; intros b; cbn [qs_lines_with qs_solve_lines]; [reflexivity|].
    destruct (qs_solve_line T Line Out P crange usolve evalr par b ln) as [[b' o]|]; [|reflexivity]. rewrite IHl. reflexivity. }
  rewrite E. destruct (qs_solve_lines T Line Out P crange usolve evalr par (qs_reset T t0 buf) lines) as [[b' os]|]; [|reflexivity].
  rewrite IH. reflexivity.
Qed.

(** toy instance: integer coefficients, a line is the solved vector itself, parameters are the slice *)
Definition qsx_crange (p : nat * nat) := p.
Definition qsx_usolve (p : nat * nat) (ln : list Z) : list Z := ln.
Definition qsx_eval (c : list Z) : list Z := c.
Definition qsx_is_zero (ln : list Z) : bool := forallb (Z.eqb 0) ln.
Definition qsx_run (buf : list Z) modes :=
  option_map snd (qs_solve_equation Z 0%Z (list Z) (list Z) (nat * nat) qsx_crange qsx_usolve qsx_eval buf modes).
Definition qsx_run_skip (buf : list Z) modes :=
  option_map snd (qs_equation_with Z (list Z) (list Z) (nat * nat) 0%Z
                    (qs_solve_line_skip Z (list Z) (list Z) (nat * nat) qsx_crange qsx_usolve qsx_eval qsx_is_zero) buf modes).

Example qs_example :
  (* Dirichlet at both ends (slice 1:3 of 4), a garbage buffer, a non-empty then an empty right-hand side; then a mode that
     is Neumann at the lower end (slice 0:3) *)
  qsx_run [9; 9; 9; 9]%Z [((1, 3), [[5; 7]; [0; 0]]%Z); ((0, 3), [[1; 2; 3]]%Z)]
    = Some [[[0; 5; 7; 0]; [0; 0; 0; 0]]; [[1; 2; 3; 0]]]%Z
  /\ qsx_run [9; 9; 9; 9]%Z [((1, 3), [[5; 7]; [0; 0]]%Z)] = qsx_run [-1; 4; 4; 8]%Z [((1, 3), [[5; 7]; [0; 0]]%Z)]
  (* a solve that returns a vector of the wrong length is an error, not a silent partial write *)
  /\ qsx_run [9; 9; 9; 9]%Z [((1, 3), [[5; 7; 1]]%Z)] = None.
Proof. vm_compute. repeat split. Qed.

(** the shortcut "an empty right-hand side needs no solve" returns the coefficients of the PREVIOUS solve for the empty
    mode: the sequence of solves is no longer the list of independent solves *)
Theorem qs_skip_refuted : exists buf modes,
  qsx_run_skip buf modes <> qsx_run buf modes /\
  qsx_run buf modes = Some (map (fun ml => map (fun ln => qsx_eval (qs_indep Z 0%Z (list Z) (nat * nat) qsx_crange qsx_usolve 4 (fst ml) ln)) (snd ml)) modes).
Proof.
  exists [9; 9; 9; 9]%Z, [((1, 3), [[5; 7]; [0; 0]]%Z)]. split; [vm_compute; discriminate|vm_compute; reflexivity].
Qed.
