(** C03: the gather step of GatherStep.v relativised to the processes that exist.
    GatherStep.gather_correct quantifies its premise [Holds_src] and the law [coS (setX q r) is_ = r] over
    every inhabitant of [rank] and every [r] (virtual ranks beyond the communicator size included), so it
    cannot be instantiated at the buffers of an actual run.  Here the same functions ([GatherStep.dst],
    [rcv], [B], [shS], [shD], [globS], [globD]) are shown to satisfy the statement with every premise
    restricted to [valid] ranks and [r < p]; the proof follows gather_correct step by step (the only
    source rank that is read is [setX q r] with [r = owner ... < p]). *)
From Coq Require Import List Arith Lia PeanoNat Bool.
Import ListNotations.
From PGV Require Import NdIndex Blocks GatherStep.

Section GatherV.
Variable V : Type.
Variable d : nat.
Variable N : nat -> nat.
Variables pi ipi pi' ipi' : nat -> nat.
Variable is_ : nat.
Variable rank : Type.
Variable valid : rank -> Prop.
Variable setX : rank -> nat -> rank.
Variable PSa : nat -> nat.
Variable PDa : nat -> nat.
Variable coS : rank -> nat -> nat.
Variable coD : rank -> nat -> nat.

Hypothesis His : is_ < d.
Hypothesis Hpi : forall a, a < d -> pi a < d /\ ipi (pi a) = a.
Hypothesis Hipi : forall e, e < d -> ipi e < d /\ pi (ipi e) = e.
Hypothesis Hipi' : forall e, e < d -> ipi' e < d /\ pi' (ipi' e) = e.
Let id_ := ipi' (pi is_).
Let p := PSa is_.
Let n0 := N (pi is_).
Let mb := bmax n0 p.
Hypothesis Hp : 0 < p.

Hypothesis Hsame : forall q a, valid q -> a < d -> a <> is_ ->
  PDa (ipi' (pi a)) = PSa a /\ coD q (ipi' (pi a)) = coS q a.
Hypothesis Hfull : PDa id_ = 1 /\ forall q, valid q -> coD q id_ = 0.
Hypothesis HsetX_valid : forall q r, valid q -> r < p -> valid (setX q r).
Hypothesis HsetX_is : forall q r, valid q -> r < p -> coS (setX q r) is_ = r.
Hypothesis HsetX_other : forall q r a, valid q -> r < p -> a <> is_ -> coS (setX q r) a = coS q a.

Notation shS := (GatherStep.shS N pi rank PSa coS).
Notation shD := (GatherStep.shD N pi' rank PDa coD).
Notation B := (GatherStep.B d N pi is_ rank PSa coS).
Notation globS := (GatherStep.globS d N ipi rank PSa coS).
Notation globD := (GatherStep.globD d N ipi' rank PDa coD).

Variable G : list nat -> V.
Variable src : rank -> nat -> V.
Notation dst := (GatherStep.dst V d N pi pi' ipi' is_ rank setX PSa PDa coS coD src).

Definition gv_Holds_src := forall q, valid q -> forall j, inb (mk d (shS q)) j ->
  src q (ravel (mk d (shS q)) j) = G (globS q j).
Definition gv_Holds_dst := forall q, valid q -> forall j', inb (mk d (shD q)) j' ->
  dst q (ravel (mk d (shD q)) j') = G (globD q j').

Lemma gv_id_lt : id_ < d. Proof. unfold id_. apply Hipi', Hpi, His. Qed.
Lemma gv_pi'_id : pi' id_ = pi is_. Proof. unfold id_. apply Hipi', Hpi, His. Qed.

Lemma gv_size_map_le (f g : nat -> nat) l : (forall a, In a l -> f a <= g a) -> size (map f l) <= size (map g l).
Proof. induction l as [|x l IH]; intros H; cbn; [lia|]. fold (size (map f l)) (size (map g l)).
  apply Nat.mul_le_mono; [apply H; left; reflexivity|apply IH; intros; apply H; right; assumption]. Qed.

Lemma gv_shS_setX_other q r a : valid q -> r < p -> a <> is_ -> shS (setX q r) a = shS q a.
Proof. intros Hq Hr H. unfold GatherStep.shS. rewrite HsetX_other by assumption. reflexivity. Qed.

Theorem gather_correct_valid : gv_Holds_src -> gv_Holds_dst.
Proof.
  intros HS q Hq j' Hj'.
  unfold GatherStep.dst. rewrite (unravel_ravel _ _ Hj').
  pose proof (inb_mk_inv _ _ _ Hj') as Hjlt.
  pose proof gv_id_lt as Hid. destruct Hfull as [HPid Hcid].
  fold id_ n0 p.
  set (g := rd j' id_). set (r := owner n0 p g). set (t := g - bstart n0 p r).
  assert (Hg : g < n0).
  { pose proof (Hjlt id_ Hid) as H. unfold GatherStep.shD in H. rewrite gv_pi'_id, HPid, (Hcid q Hq) in H.
    rewrite blen_one in H by reflexivity. exact H. }
  destruct (owner_spec n0 p g Hp Hg) as [Hr [Hlo Hhi]]. fold r in Hr, Hlo, Hhi.
  assert (Ht : t < blen n0 p r) by (unfold t, blen; lia).
  set (I := fun a => if a =? is_ then t else rd j' (ipi' (pi a))).
  assert (Hinb : inb (mk d (shS (setX q r))) (mk d I)).
  { apply inb_mk. intros a Ha. unfold I.
    destruct (Nat.eqb_spec a is_) as [->|Hne].
    - unfold GatherStep.shS. rewrite HsetX_is by assumption. fold n0 p. exact Ht.
    - rewrite gv_shS_setX_other by assumption.
      destruct (Hsame q a Hq Ha Hne) as [E1 E2].
      destruct (Hpi a Ha) as [Hpa _]. destruct (Hipi' _ Hpa) as [Hx Hy].
      pose proof (Hjlt _ Hx) as H. unfold GatherStep.shD in H. rewrite Hy, E1, E2 in H. exact H. }
  assert (HR : ravel (mk d (shS (setX q r))) (mk d I) < B q).
  { eapply Nat.lt_le_trans; [apply ravel_lt, Hinb|]. unfold GatherStep.B, mk. apply gv_size_map_le.
    intros a Ha. apply in_seq in Ha.
    destruct (Nat.eqb_spec a is_) as [->|Hne].
    - unfold GatherStep.shS. rewrite HsetX_is by assumption. fold n0 p. apply blen_le_bmax; assumption.
    - rewrite gv_shS_setX_other by assumption. lia. }
  assert (HB : B q <> 0) by lia.
  unfold GatherStep.rcv.
  rewrite Nat.div_add_l by exact HB. rewrite (Nat.div_small _ _ HR), Nat.add_0_r.
  replace (r * B q + ravel (mk d (shS (setX q r))) (mk d I))
    with (ravel (mk d (shS (setX q r))) (mk d I) + r * B q) by lia.
  rewrite Nat.mod_add by exact HB. rewrite (Nat.mod_small _ _ HR).
  rewrite (HS _ (HsetX_valid q r Hq Hr) _ Hinb). f_equal.
  unfold GatherStep.globS, GatherStep.globD. apply mk_ext. intros e He.
  destruct (Hipi e He) as [Hae Hpe]. rewrite rd_mk by exact Hae. unfold I.
  destruct (Nat.eqb_spec (ipi e) is_) as [E|E].
  - assert (e = pi is_) by (rewrite <- Hpe, E; reflexivity). subst e.
    rewrite E, HsetX_is by assumption. fold id_ n0 p. rewrite HPid, (Hcid q Hq), bstart_0. fold g. unfold t. lia.
  - rewrite HsetX_other by assumption.
    destruct (Hsame q (ipi e) Hq Hae E) as [E1 E2]. rewrite Hpe in E1, E2. rewrite E1, E2, Hpe. reflexivity.
Qed.

(** replicas: the result does not depend on the coordinate along X *)
Corollary gather_replicas_equal_valid : gv_Holds_src ->
  (forall q r' a, valid q -> r' < p -> coD (setX q r') a = coD q a) ->
  forall q r' j', valid q -> r' < p -> inb (mk d (shD q)) j' ->
  dst (setX q r') (ravel (mk d (shD (setX q r'))) j') = dst q (ravel (mk d (shD q)) j').
Proof.
  intros HS HcoD q r' j' Hq Hr' Hj'.
  assert (E : forall a, shD (setX q r') a = shD q a)
    by (intros; unfold GatherStep.shD; rewrite HcoD by assumption; reflexivity).
  assert (Hj2 : inb (mk d (shD (setX q r'))) j') by (rewrite (mk_ext d _ (shD q)); [exact Hj'|intros; apply E]).
  rewrite (gather_correct_valid HS _ (HsetX_valid q r' Hq Hr') _ Hj2), (gather_correct_valid HS _ Hq _ Hj'). f_equal.
  unfold GatherStep.globD. apply mk_ext. intros e He. rewrite HcoD by assumption. reflexivity.
Qed.
(** ** memory level: the gather as operations on whole arrays, and its frame (layout.py:1341-1391, 1447-1494).
    Allgather(source[:B], X[:p*B]) overwrites exactly the first p*B cells of X (X = dest without a spare
    buffer, buf with one); the unpack writes exactly the first size' cells of its target (source without a
    spare buffer - followed by dest[:] = source[:], a copy of the whole array - dest with one). *)
Definition gunpack_addr (q : rank) (A' : nat) : nat :=
  let j' := unravel (mk d (shD q)) A' in
  let g := rd j' id_ in
  let r := owner n0 p g in
  let t := g - bstart n0 p r in
  r * B q + ravel (mk d (shS (setX q r))) (mk d (fun a => if a =? is_ then t else rd j' (ipi' (pi a)))).

Definition gmem := rank -> nat -> V.
Definition mallgather (sbuf old : gmem) : gmem :=
  fun q A => if A <? p * B q then sbuf (setX q (A / B q)) (A mod B q) else old q A.
Definition mgunpack (rbuf data : gmem) : gmem :=
  fun q A' => if A' <? size (mk d (shD q)) then rbuf q (gunpack_addr q A') else data q A'.

(** _transpose, gather branch: returns (source', dest') *)
Definition mgather_plain (msrc mdst : gmem) : gmem * gmem :=
  let d1 := mallgather msrc mdst in
  let s1 := mgunpack d1 msrc in
  (s1, s1).
(** _transpose_source_intact, gather branch: returns (dest', buf'); source is not written *)
Definition mgather_intact (msrc mdst mbuf : gmem) : gmem * gmem :=
  let b1 := mallgather msrc mbuf in
  (mgunpack b1 mdst, b1).

Lemma gv_addr_lt q j' : valid q -> inb (mk d (shD q)) j' -> gunpack_addr q (ravel (mk d (shD q)) j') < p * B q.
Proof.
  intros Hq Hj'. unfold gunpack_addr. rewrite (unravel_ravel _ _ Hj').
  pose proof (inb_mk_inv _ _ _ Hj') as Hjlt.
  pose proof gv_id_lt as Hid. destruct Hfull as [HPid Hcid].
  set (g := rd j' id_). set (r := owner n0 p g). set (t := g - bstart n0 p r).
  assert (Hg : g < n0).
  { pose proof (Hjlt id_ Hid) as H. unfold GatherStep.shD in H. rewrite gv_pi'_id, HPid, (Hcid q Hq) in H.
    rewrite blen_one in H by reflexivity. exact H. }
  destruct (owner_spec n0 p g Hp Hg) as [Hr [Hlo Hhi]]. fold r in Hr, Hlo, Hhi.
  assert (Ht : t < blen n0 p r) by (unfold t, blen; lia).
  set (I := fun a => if a =? is_ then t else rd j' (ipi' (pi a))).
  assert (Hinb : inb (mk d (shS (setX q r))) (mk d I)).
  { apply inb_mk. intros a Ha. unfold I.
    destruct (Nat.eqb_spec a is_) as [->|Hne].
    - unfold GatherStep.shS. rewrite HsetX_is by assumption. fold n0 p. exact Ht.
    - rewrite gv_shS_setX_other by assumption.
      destruct (Hsame q a Hq Ha Hne) as [E1 E2].
      destruct (Hpi a Ha) as [Hpa _]. destruct (Hipi' _ Hpa) as [Hx Hy].
      pose proof (Hjlt _ Hx) as H. unfold GatherStep.shD in H. rewrite Hy, E1, E2 in H. exact H. }
  assert (HR : ravel (mk d (shS (setX q r))) (mk d I) < B q).
  { eapply Nat.lt_le_trans; [apply ravel_lt, Hinb|]. unfold GatherStep.B, mk. apply gv_size_map_le.
    intros a Ha. apply in_seq in Ha.
    destruct (Nat.eqb_spec a is_) as [->|Hne].
    - unfold GatherStep.shS. rewrite HsetX_is by assumption. fold n0 p. apply blen_le_bmax; assumption.
    - rewrite gv_shS_setX_other by assumption. lia. }
  nia.
Qed.

(** the unpack reads gathered cells only: the block prefix is the value GatherStep.dst describes *)
Lemma mgunpack_reads (msrc old data : gmem) q j' : valid q -> inb (mk d (shD q)) j' ->
  mgunpack (mallgather msrc old) data q (ravel (mk d (shD q)) j')
  = GatherStep.dst V d N pi pi' ipi' is_ rank setX PSa PDa coS coD msrc q (ravel (mk d (shD q)) j').
Proof.
  intros Hq Hj'. pose proof (gv_addr_lt q j' Hq Hj') as Hlt.
  unfold mgunpack. destruct (Nat.ltb_spec (ravel (mk d (shD q)) j') (size (mk d (shD q)))) as [_|H];
    [|pose proof (ravel_lt _ _ Hj'); lia].
  unfold mallgather. destruct (Nat.ltb_spec (gunpack_addr q (ravel (mk d (shD q)) j')) (p * B q)) as [_|H]; [|lia].
  reflexivity.
Qed.

Theorem mgather_plain_prefix msrc mdst q j' : valid q -> inb (mk d (shD q)) j' ->
  snd (mgather_plain msrc mdst) q (ravel (mk d (shD q)) j')
  = GatherStep.dst V d N pi pi' ipi' is_ rank setX PSa PDa coS coD msrc q (ravel (mk d (shD q)) j').
Proof. intros. unfold mgather_plain. cbn [snd]. apply mgunpack_reads; assumption. Qed.
Theorem mgather_intact_prefix msrc mdst mbuf q j' : valid q -> inb (mk d (shD q)) j' ->
  fst (mgather_intact msrc mdst mbuf) q (ravel (mk d (shD q)) j')
  = GatherStep.dst V d N pi pi' ipi' is_ rank setX PSa PDa coS coD msrc q (ravel (mk d (shD q)) j').
Proof. intros. unfold mgather_intact. cbn [fst]. apply mgunpack_reads; assumption. Qed.

(** frames.  Without a spare buffer the source array keeps everything beyond the destination block, and dest
    becomes a copy of the whole source array (so beyond the block it holds the old *source* cells); with a
    spare buffer the source is not written, dest keeps everything beyond the block, buf everything beyond p*B *)
Theorem mgather_plain_src_frame msrc mdst q A : size (mk d (shD q)) <= A -> fst (mgather_plain msrc mdst) q A = msrc q A.
Proof. intros H. clear - H. unfold mgather_plain, mgunpack. cbn [fst].
  destruct (Nat.ltb_spec A (size (mk d (shD q)))); [lia|reflexivity]. Qed.
Theorem mgather_plain_dst_is_src msrc mdst : snd (mgather_plain msrc mdst) = fst (mgather_plain msrc mdst).
Proof. reflexivity. Qed.
Theorem mgather_intact_dst_frame msrc mdst mbuf q A : size (mk d (shD q)) <= A -> fst (mgather_intact msrc mdst mbuf) q A = mdst q A.
Proof. intros H. clear - H. unfold mgather_intact, mgunpack. cbn [fst].
  destruct (Nat.ltb_spec A (size (mk d (shD q)))); [lia|reflexivity]. Qed.
Theorem mgather_intact_buf_frame msrc mdst mbuf q A : p * B q <= A -> snd (mgather_intact msrc mdst mbuf) q A = mbuf q A.
Proof. intros H. clear - H. unfold mgather_intact, mallgather. cbn [snd].
  destruct (Nat.ltb_spec A (p * B q)); [lia|reflexivity]. Qed.
Theorem mgather_intact_buf_scratch msrc mdst mbuf q A : A < p * B q ->
  snd (mgather_intact msrc mdst mbuf) q A = msrc (setX q (A / B q)) (A mod B q).
Proof. intros H. clear - H. unfold mgather_intact, mallgather. cbn [snd].
  destruct (Nat.ltb_spec A (p * B q)); [reflexivity|lia]. Qed.
End GatherV.
