(** C09: uniform periodic spaces of every degree (general path): the collocation matrix is circulant.
    Algorithm A2.2 reads the knots only through left[k] = x - t_{s-k} and right[k] = t_{s+1+k} - x; on uniform knots
    t_j = t_0 + j dx and points x_i = x_0 + i dx these differences do not depend on i (span s_i = s_0 + i), so every row
    of the collocation matrix carries the same basis values, shifted by one column: the columns sum to one
    ([CirculantTheory.ip_cols_sum_circulant]).  This discharges the column hypothesis of [ip_weights_equal_cert]. *)
From Coq Require Import List Arith Lia ZArith Bool Field Ring Setoid.
Import ListNotations.
From PGV Require Import BasisCoxDeBoor CoxDeBoorGen FindSpan CubicUniform CollocRow Sums SplineModel SplineTheory InterpModel InterpTheory QuadTheory GrevilleTheory CirculantTheory.

Section UniformPeriodic.
Variable F : Type.
Variable K : sp_ops F.
Hypothesis HK : sp_laws K.
Add Field IPFU : (spl_field K HK).
Notation "x + y" := (spadd K x y). Notation "x * y" := (spmul K x y).
Notation "x - y" := (spsub K x y). Notation "x / y" := (spdiv K x y).
Notation "0" := (sp0 K). Notation "1" := (sp1 K).
Notation "x <= y" := (sp_le K x y). Notation "x < y" := (sp_lt K x y).
Notation sumn := (Sums.sumn F 0 (spadd K)).
Notation kn := (sp_kn F K).
Notation ofn := (sp_ofnat F K).
Notation Lk := (L F (spsub K)).
Notation Rk := (R F (spsub K)).
Notation swp := (sweep F (spadd K) (spmul K) (spsub K) (spdiv K)).
Notation bfrom := (basis_from F 0 (spadd K) (spmul K) (spsub K) (spdiv K)).

(** A2.2 depends on the knots and on x only through left[] and right[] *)
Lemma ip_sweep_ext (t t' : nat -> F) x x' s s' j : forall vals r saved,
  (forall k, (r <= k < r + length vals)%nat -> Rk t x s k = Rk t' x' s' k /\ Lk t x s (j - k) = Lk t' x' s' (j - k)) ->
  swp t x s j r vals saved = swp t' x' s' j r vals saved.
Proof.
  induction vals as [|v vs IH]; intros r saved H; cbn [sweep]; [reflexivity|].
  destruct (H r ltac:(cbn [length]; lia)) as [ER EL]. rewrite ER, EL. f_equal. apply IH.
  intros k Hk. apply H. cbn [length]. lia.
Qed.
Lemma ip_basis_from_ext (t t' : nat -> F) x x' s s' : forall k j vals, length vals = S j ->
  (forall i, (i < j + k)%nat -> Rk t x s i = Rk t' x' s' i /\ Lk t x s i = Lk t' x' s' i) ->
  bfrom t x s j k vals = bfrom t' x' s' j k vals.
Proof.
  induction k as [|k IH]; intros j vals Hl H; cbn [basis_from]; [reflexivity|].
  rewrite (ip_sweep_ext t t' x x' s s' j vals 0 0).
  - apply IH; [rewrite sweep_length, Hl; reflexivity|]. intros i Hi. apply H. lia.
  - intros i Hi. rewrite Hl in Hi. split; [apply H; lia|apply H; lia].
Qed.
Lemma ip_A22_ext knots knots' p x x' s s' :
  (forall i, (i < p)%nat -> kn knots (s + 1 + i) - x = kn knots' (s' + 1 + i) - x' /\ x - kn knots (s - i) = x' - kn knots' (s' - i)) ->
  sp_A22 F K knots p x s = sp_A22 F K knots' p x' s'.
Proof. intros H. unfold sp_A22, basis_funs. apply ip_basis_from_ext; [reflexivity|]. intros i Hi. apply H. lia. Qed.

(** nu_find_span on a point bracketed by two knots *)
Lemma ip_fs_bracket knots p x m : sp_sorted F K knots -> (2 * p + 1 < length knots)%nat ->
  kn knots p < kn knots (S p) -> (p <= m)%nat -> (m <= length knots - p - 2)%nat ->
  kn knots m <= x -> ~ kn knots (S m) <= x -> sp_nu_find_span F K knots p x = SpOk m.
Proof.
  intros Hs Hlen Hfirst Hpm Hm H1 H2.
  assert (Hmono := sp_kn_mono F K HK knots Hs).
  assert (Hdom : kn knots p < kn knots (length knots - 1 - p)).
  { apply (sp_lt_le_trans F K HK) with (kn knots (S p)); [exact Hfirst|apply Hmono; lia]. }
  destruct (sp_nu_find_span_spec F K HK knots p x Hlen Hdom) as [s [E [_ Hc]]]. rewrite E. f_equal.
  destruct Hc as [[Hx ->]|[[_ [Hx ->]]|[Ha Hb]]].
  - destruct (Nat.eq_dec m p) as [->|Hne]; [reflexivity|]. exfalso.
    apply (ip_lt_not_le F K HK _ _ Hfirst). apply (spl_le_trans K HK) with x; [|exact Hx].
    apply (spl_le_trans K HK) with (kn knots m); [apply Hmono; lia|exact H1].
  - exfalso. apply H2. apply (spl_le_trans K HK) with (kn knots (length knots - 1 - p)); [apply Hmono; lia|exact Hx].
  - destruct (Nat.lt_trichotomy s m) as [Hlt|[Heq|Hgt]]; [|exact Heq|].
    + exfalso. apply Hb. apply (spl_le_trans K HK) with (kn knots m); [apply Hmono; lia|exact H1].
    + exfalso. apply H2. apply (spl_le_trans K HK) with (kn knots s); [apply Hmono; lia|exact Ha].
Qed.


(* ---------------------------------------------------------------------------------------- *)
(** * exactly uniform periodic knots t_j = t_0 + j dx and points x_i = x_0 + i dx, x_0 in the first cell *)
Section Uniform.
Variable knots : list F.
Variable p : nat.
Variables t0 dx x0 : F.
Hypothesis Hdx : 0 < dx.
Hypothesis Hlen : (2 * p + 1 < length knots)%nat.
Hypothesis HU : forall j, (j < length knots)%nat -> kn knots j = t0 + ofn j * dx.
Hypothesis Hx0 : kn knots p <= x0 /\ ~ kn knots (S p) <= x0.
Notation n := (length knots - 2 * p - 1)%nat.
Notation xs := (map (fun i => x0 + ofn i * dx) (seq 0 n)).

Lemma ip_unif_step j : (S j < length knots)%nat -> kn knots j < kn knots (S j).
Proof.
  intros Hj. rewrite !HU by lia. rewrite (sp_ofnat_S F K). destruct Hdx as [Hle Hne]. split.
  - apply (sp_nonneg_sub F K HK). replace (t0 + (ofn j + 1) * dx - (t0 + ofn j * dx)) with dx by ring. exact Hle.
  - intros E. apply Hne. replace dx with ((t0 + (ofn j + 1) * dx) - (t0 + ofn j * dx)) by ring. rewrite <- E. ring.
Qed.
Lemma ip_unif_sorted : sp_sorted F K knots.
Proof. intros i Hi. apply (ip_unif_step i Hi). Qed.
Lemma ip_unif_shift j i : (j + i < length knots)%nat -> kn knots (j + i) = kn knots j + ofn i * dx.
Proof. intros H. rewrite !HU by lia. rewrite (sp_ofnat_add F K HK). ring. Qed.

(** span and basis values of the i-th point: span p + i, the basis values of the first point *)
Lemma ip_unif_span_basis i : (i < n)%nat ->
  sp_nu_find_span F K knots p (x0 + ofn i * dx) = SpOk (p + i)%nat /\
  sp_A22 F K knots p (x0 + ofn i * dx) (p + i) = sp_A22 F K knots p x0 p.
Proof.
  intros Hi. destruct Hx0 as [Hlo Hhi]. split.
  - apply (ip_fs_bracket knots p _ (p + i)%nat ip_unif_sorted Hlen); try lia.
    + apply ip_unif_step. lia.
    + rewrite ip_unif_shift by lia. apply (spl_add_le K HK). exact Hlo.
    + intros H. apply Hhi. replace (S (p + i)) with (S p + i)%nat in H by lia. rewrite ip_unif_shift in H by lia.
      apply (sp_nonneg_sub F K HK). apply (sp_sub_nonneg F K HK) in H.
      replace (x0 - kn knots (S p)) with (x0 + ofn i * dx - (kn knots (S p) + ofn i * dx)) by ring. exact H.
  - apply ip_A22_ext. intros r Hr. split.
    + replace (p + i + 1 + r)%nat with ((p + 1 + r) + i)%nat by lia. rewrite ip_unif_shift by lia. ring.
    + replace (p + i - r)%nat with ((p - r) + i)%nat by lia. rewrite ip_unif_shift by lia. ring.
Qed.

(** the collocation matrix is circulant: its columns sum to one *)
Theorem ip_cols_sum_one_uniform A :
  ip_colloc F K n knots p true false xs = SpOk A ->
  forall k, (k < n)%nat -> ip_sum F K n (fun i => ip_mget F K A i k) = 1.
Proof.
  intros EA k Hk.
  assert (Hsp : sp_span_ok F K knots p) by (apply ip_unif_step; lia).
  rewrite (ip_cols_sum_circulant F K HK n p p (sp_A22 F K knots p x0 p) A ltac:(lia) (le_n p)); [| |exact Hk].
  - rewrite <- (sp_A22_sum_one F K HK knots p x0 p ip_unif_sorted Hsp (le_n p)).
    rewrite (ip_sumF_sumn F K HK), (sp_A22_length F K). reflexivity.
  - intros i Hi. destruct (ip_mapM_spec _ 0 [] _ _ EA) as [HlA HA]. rewrite map_length, seq_length in HA.
    specialize (HA i Hi). rewrite (ip_nth_map_seq (fun i => x0 + ofn i * dx)) in HA by exact Hi. cbn [Nat.add] in HA.
    destruct (ip_colloc_row_spec _ _ _ _ _ _ _ _ _ HA) as [s [b [Hsb [_ [_ [_ Erow]]]]]].
    destruct (ip_unif_span_basis i Hi) as [Efs Ebs].
    unfold ip_span_basis in Hsb. rewrite Efs in Hsb. cbn [sp_bind] in Hsb.
    unfold sp_nu_basis_funs in Hsb.
    destruct ((p <=? p + i)%nat && (p + i + p <? length knots)%nat); [|discriminate].
    destruct (sp_denoms_ok F K (kn knots) (x0 + ofn i * dx) (p + i) p); [|discriminate].
    cbn [sp_bind] in Hsb. inversion Hsb. subst s b. rewrite Erow, Ebs. f_equal. lia.
Qed.

(** equal weights on a uniform periodic space of ANY degree: with the circulant structure proved, what remains to be
    checked per instance is that the folded integrals are all dx' (true with dx' = dx, see the evidence) and the inverse *)
Theorem ip_weights_equal_uniform Il w A Ainv dx' :
  ip_nbasis F K knots p true false = n ->
  ip_quad_from F K knots p true false xs Il = SpOk w ->
  ip_colloc F K n knots p true false xs = SpOk A -> ip_inverse_ok F K n A Ainv = true ->
  (forall j, (j < n)%nat -> nth j (ip_quad_rhs F K n p true Il) 0 = dx') ->
  forall i, (i < n)%nat -> nth i w 0 = dx'.
Proof.
  intros Enb Hq EA Hinv HI.
  pose proof (ip_weights_equal_cert F K HK knots p true false xs Il w A Ainv dx') as W. cbv zeta in W. rewrite Enb in W.
  apply (W Hq EA Hinv); [apply ip_cols_sum_one_uniform, EA|exact HI].
Qed.

End Uniform.
End UniformPeriodic.
