From Coq Require Import ZArith Lia Bool List.
Open Scope Z_scope.

Inductive res := Ok (a b : Z) | Err | OOF.

Section ProcGrid.
Variables mpi m1 m2 : Z.
Hypothesis Hmpi : 1 <= mpi.
Hypothesis Hm1 : 1 <= m1.
Hypothesis Hm2 : 1 <= m2.
(* new_ratio < ratio, abstract (float comparison in the code) *)
Variable better : Z -> Z -> Z -> Z -> bool.   (* better new_n1 new_n2 n1 n2 *)

Definition divides (n : Z) := mpi mod n =? 0.
Definition lim := Z.min mpi m1.

(* inner while of the first loop: while n <= lim and not divides n: n += 1 *)
Fixpoint scan1 (fuel : nat) (n : Z) : option Z :=
  match fuel with
  | O => None
  | S f => if (n <=? lim) && negb (divides n) then scan1 f (n + 1) else Some n
  end.
(* inner while of the second loop: while n < m1 and not divides n: n += 1 *)
Fixpoint scan2 (fuel : nat) (n : Z) : option Z :=
  match fuel with
  | O => None
  | S f => if (n <? m1) && negb (divides n) then scan2 f (n + 1) else Some n
  end.

Definition F1 := Z.to_nat (lim + 2).
Definition F2 := Z.to_nat (m1 + 2).

Fixpoint phase1 (fuel : nat) (n1 n2 : Z) : res :=
  match fuel with
  | O => OOF
  | S f =>
    if n2 >? m2 then
      match scan1 F1 (n1 + 1) with
      | None => OOF
      | Some n1' => if n1' >? lim then Err else phase1 f n1' (mpi / n1')
      end
    else Ok n1 n2
  end.

Fixpoint phase2 (fuel : nat) (n1 n2 : Z) : res :=
  match fuel with
  | O => OOF
  | S f =>
    match scan2 F2 (n1 + 1) with
    | None => OOF
    | Some new1 =>
      let new2 := mpi / new1 in
      if new1 >? lim then Ok n1 n2
      else if new2 <=? m2 then
        (if better new1 new2 n1 n2 then phase2 f new1 new2 else Ok n1 n2)
      else phase2 f n1 n2          (* the code would spin here *)
    end
  end.

Definition compute : res :=
  match phase1 F1 1 mpi with
  | Ok n1 n2 => phase2 F1 n1 n2
  | r => r
  end.

(* ---------- scans ---------- *)
Lemma scan1_spec : forall fuel n, 1 <= n -> (Z.to_nat (lim + 1 - n) < fuel)%nat ->
  exists n', scan1 fuel n = Some n' /\ n <= n' /\ (lim < n' \/ divides n' = true) /\
             (forall k, n <= k < n' -> k <= lim /\ divides k = false).
Proof.
  induction fuel as [|f IH]; intros n Hn Hf; [lia|]. cbn [scan1].
  destruct (Z.leb_spec n lim) as [Hle|Hgt]; cbn [andb].
  - destruct (divides n) eqn:Hd; cbn [negb].
    + exists n. repeat split; try lia. right. exact Hd.
    + destruct (IH (n + 1) ltac:(lia) ltac:(lia)) as [n' [E [H1 [H2 H3]]]].
      exists n'. repeat split; try assumption; try lia.
      * intros. destruct (Z.eq_dec k n) as [->|]; [lia|]. apply H3. lia.
      * intros. destruct (Z.eq_dec k n) as [->|]; [exact Hd|]. apply H3. lia.
  - exists n. repeat split; try lia.
Qed.

Lemma scan2_spec : forall fuel n, 1 <= n -> (Z.to_nat (m1 + 1 - n) < fuel)%nat ->
  exists n', scan2 fuel n = Some n' /\ n <= n' /\ (m1 <= n' \/ divides n' = true) /\ (n' <= Z.max n m1).
Proof.
  induction fuel as [|f IH]; intros n Hn Hf; [lia|]. cbn [scan2].
  destruct (Z.ltb_spec n m1) as [Hlt|Hge]; cbn [andb].
  - destruct (divides n) eqn:Hd; cbn [negb].
    + exists n. repeat split; try lia. right. exact Hd.
    + destruct (IH (n + 1) ltac:(lia) ltac:(lia)) as [n' [E [H1 [H2 H3]]]].
      exists n'. repeat split; try assumption; try lia.
  - exists n. repeat split; try lia.
Qed.

Lemma divides_mul n : 0 < n -> divides n = true -> n * (mpi / n) = mpi.
Proof. unfold divides. intros Hn H. apply Z.eqb_eq in H. pose proof (Z.div_mod mpi n ltac:(lia)). lia. Qed.

Lemma div_antitone a b : 0 < a <= b -> mpi / b <= mpi / a.
Proof. intros H. apply Z.div_le_compat_l; lia. Qed.

(* ---------- phase 1: smallest admissible divisor, or proof that none exists ---------- *)
Definition admissible (d : Z) := 1 <= d <= lim /\ divides d = true /\ mpi / d <= m2.

Lemma phase1_spec : forall fuel n1, 1 <= n1 <= lim -> divides n1 = true ->
  (forall d, 1 <= d < n1 -> divides d = true -> m2 < mpi / d) ->
  (Z.to_nat (lim + 1 - n1) < fuel)%nat ->
  match phase1 fuel n1 (mpi / n1) with
  | Ok a b => admissible a /\ b = mpi / a
  | Err => forall d, ~ admissible d
  | OOF => False
  end.
Proof.
  induction fuel as [|f IH]; intros n1 Hn Hd Hprev Hf; [lia|]. cbn [phase1].
  destruct (Z.gtb_spec (mpi / n1) m2) as [Hgt|Hle].
  - destruct (scan1_spec F1 (n1 + 1) ltac:(lia) ltac:(unfold F1; lia)) as [n' [E [H1 [H2 H3]]]].
    rewrite E. destruct (Z.gtb_spec n' lim) as [Hbig|Hsmall].
    + intros d [Hd1 [Hd2 Hd3]].
      destruct (Z_lt_le_dec d n1) as [Hlt|Hge].
      * specialize (Hprev d ltac:(lia) Hd2). lia.
      * destruct (Z.eq_dec d n1) as [->|Hne]; [lia|].
        destruct (H3 d ltac:(lia)) as [_ Hnd]. congruence.
    + destruct H2 as [H2|H2]; [lia|].
      apply IH; try lia; try assumption.
      intros d Hd1 Hd2.
      destruct (Z_lt_le_dec d n1) as [Hlt|Hge]; [apply Hprev; [lia|exact Hd2]|].
      destruct (Z.eq_dec d n1) as [->|Hne]; [lia|].
      destruct (H3 d ltac:(lia)) as [_ Hnd]. congruence.
  - split; [|reflexivity]. repeat split; try lia; assumption.
Qed.

(* ---------- phase 2 keeps a valid factorisation and never spins ---------- *)
Definition validpair (a b : Z) := a * b = mpi /\ 1 <= a <= m1 /\ 1 <= b <= m2.
(* the ratio test rejects a candidate that is not a divisor (from better_sound + the 1+1/mpi margin) *)
Hypothesis better_rejects_nondivisor : forall new1 n1 n2, validpair n1 n2 -> n1 < new1 <= lim ->
  divides new1 = false -> m1 <= new1 -> better new1 (mpi / new1) n1 n2 = false.

Lemma phase2_spec : forall fuel n1 n2, validpair n1 n2 -> n1 <= lim ->
  (Z.to_nat (lim + 1 - n1) < fuel)%nat ->
  match phase2 fuel n1 n2 with
  | Ok a b => validpair a b
  | Err => False
  | OOF => False
  end.
Proof.
  induction fuel as [|f IH]; intros n1 n2 Hv Hl Hf; [lia|]. cbn [phase2].
  destruct (scan2_spec F2 (n1 + 1) ltac:(destruct Hv; lia) ltac:(unfold F2; destruct Hv; lia))
    as [new1 [E [H1 [H2 H3]]]].
  rewrite E. cbv zeta.
  destruct (Z.gtb_spec new1 lim) as [Hbig|Hsmall]; [exact Hv|].
  destruct Hv as [Hmul [Ha Hb]].
  assert (Hn2 : n2 = mpi / n1) by (apply Z.div_unique_exact; lia).
  assert (Hnew2 : mpi / new1 <= n2).
  { rewrite Hn2. apply div_antitone. lia. }
  destruct (Z.leb_spec (mpi / new1) m2) as [Hok|Hbad]; [|lia].
  destruct (better new1 (mpi / new1) n1 n2) eqn:Hb'; [|repeat split; lia].
  assert (Hdiv : divides new1 = true).
  { destruct (divides new1) eqn:D; [reflexivity|].
    rewrite (better_rejects_nondivisor new1 n1 n2) in Hb'; [discriminate|repeat split; lia|lia|exact D|].
    destruct H2 as [H2|H2]; [exact H2|congruence]. }
  apply IH; try lia.
  pose proof (divides_mul new1 ltac:(lia) Hdiv).
  assert (1 <= mpi / new1).
  { apply Z.div_le_lower_bound; unfold lim in *; lia. }
  unfold lim in *. repeat split; lia.
Qed.

(* ---------- the function as a whole ---------- *)
Theorem compute_spec :
  match compute with
  | Ok a b => validpair a b
  | Err => forall a b, ~ validpair a b
  | OOF => False
  end.
Proof.
  unfold compute.
  assert (D1 : divides 1 = true) by (unfold divides; rewrite Z.mod_1_r; reflexivity).
  pose proof (phase1_spec F1 1 ltac:(unfold lim; lia) D1 ltac:(intros; lia) ltac:(unfold F1, lim; lia)) as H.
  rewrite Z.div_1_r in H.
  destruct (phase1 F1 1 mpi) as [a b| |].
  - destruct H as [[Ha [Hd Hq]] ->].
    pose proof (divides_mul a ltac:(lia) Hd).
    assert (1 <= mpi / a) by (apply Z.div_le_lower_bound; unfold lim in *; lia).
    pose proof (phase2_spec F1 a (mpi / a)) as H2.
    assert (Hv : validpair a (mpi / a)) by (unfold lim in *; repeat split; lia).
    specialize (H2 Hv ltac:(lia) ltac:(unfold F1; lia)).
    destruct (phase2 F1 a (mpi / a)); [exact H2|contradiction|exact H2].
  - intros a b [Hmul [Ha Hb]]. apply (H a). unfold admissible.
    assert (b = mpi / a) by (apply Z.div_unique_exact; lia). subst b.
    repeat split; unfold lim; try lia.
    + nia.
    + unfold divides. apply Z.eqb_eq. rewrite <- Hmul. rewrite Z.mul_comm. apply Z.mod_mul. lia.
  - exact H.
Qed.
End ProcGrid.

(* the exact (rational) ratio test, cross-multiplied, does reject non-divisors: margin >= 1 + 1/mpi *)
Section Exact.
Variables mpi m1 m2 : Z.
Hypothesis Hmpi : 1 <= mpi. Hypothesis Hm1 : 1 <= m1. Hypothesis Hm2 : 1 <= m2.
Definition better_exact (new1 new2 n1 n2 : Z) : bool :=
  let X := m1 * n2 in let Y := m2 * n1 in let X' := m1 * new2 in let Y' := m2 * new1 in
  Z.max X' Y' * Z.min X Y <? Z.max X Y * Z.min X' Y'.

Lemma better_exact_rejects new1 n1 n2 : validpair mpi m1 m2 n1 n2 -> n1 < new1 <= lim mpi m1 ->
  divides mpi new1 = false -> m1 <= new1 ->
  better_exact new1 (mpi / new1) n1 n2 = false.
Proof.
  intros [Hmul [Ha Hb]] Hn Hd Hm.
  unfold lim in Hn. assert (new1 = m1) by lia. subst new1.
  unfold divides in Hd. apply Z.eqb_neq in Hd.
  pose proof (Z.div_mod mpi m1 ltac:(lia)) as DM. pose proof (Z.mod_pos_bound mpi m1 ltac:(lia)) as MB.
  set (q := mpi / m1) in *.
  assert (Hq : m1 * q <= mpi - 1) by lia.
  assert (Hq0 : 0 <= q) by (apply Z.div_pos; lia).
  assert (Hq2 : q <= n2). { assert (m1 * q < m1 * n2 + m1) by nia. nia. }
  unfold better_exact. apply Z.ltb_ge.
  assert (E1 : Z.max (m1 * q) (m2 * m1) = m2 * m1) by (apply Z.max_r; nia).
  assert (E2 : Z.min (m1 * q) (m2 * m1) = m1 * q) by (apply Z.min_l; nia).
  rewrite E1, E2.
  destruct (Z_le_gt_dec (m2 * n1) (m1 * n2)) as [C|C].
  - rewrite Z.max_l, Z.min_r by lia.
    assert (n2 * (m1 * q) <= n1 * (m2 * m2)). { assert (n2 * (m1 * q) <= n2 * (n1 * n2)) by nia. nia. }
    nia.
  - rewrite Z.max_r, Z.min_l by lia. nia.
Qed.
End Exact.

(** * Instances *)

(** the exact (rational) reading of the ratio test *)
Definition compute_exact (mpi m1 m2 : Z) : res := compute mpi m1 m2 (better_exact m1 m2).

Theorem compute_exact_spec mpi m1 m2 : 1 <= mpi -> 1 <= m1 -> 1 <= m2 ->
  match compute_exact mpi m1 m2 with
  | Ok a b => validpair mpi m1 m2 a b
  | Err => forall a b, ~ validpair mpi m1 m2 a b
  | OOF => False
  end.
Proof.
  intros Hmpi Hm1 Hm2. unfold compute_exact.
  apply compute_spec; try assumption.
  intros new1 n1 n2 Hv Hn Hd Hm. apply better_exact_rejects; assumption.
Qed.

(** what a caller of the Python function sees: npts -> maxima *)
Definition compute_npts (better : Z -> Z -> Z -> Z -> Z -> Z -> bool) (n0 n2 n3 mpi : Z) : res :=
  let m1 := Z.min n0 n3 in let m2 := Z.min n2 n3 in
  compute mpi m1 m2 (better m1 m2).

(** the IEEE-754 reading: Python evaluates max_proc/nprocs and the ratio in binary64 *)
From Coq Require Import PrimFloat Uint63.
Definition fz (z : Z) : float := PrimFloat.of_uint63 (Uint63.of_Z z).
Definition fmax (a b : float) : float := if PrimFloat.ltb a b then b else a.   (* Python max(a,b) *)
Definition fmin (a b : float) : float := if PrimFloat.ltb b a then b else a.   (* Python min(a,b) *)
Definition ratio_f (m1 m2 n1 n2 : Z) : float :=
  let d1 := PrimFloat.div (fz m1) (fz n1) in
  let d2 := PrimFloat.div (fz m2) (fz n2) in
  PrimFloat.div (fmax d1 d2) (fmin d1 d2).
Definition better_float (m1 m2 new1 new2 n1 n2 : Z) : bool :=
  PrimFloat.ltb (ratio_f m1 m2 new1 new2) (ratio_f m1 m2 n1 n2).
Definition compute_float (mpi m1 m2 : Z) : res := compute mpi m1 m2 (better_float m1 m2).

(** For the float instance the hypothesis of [compute_spec] is a statement about rounding;
    it is carried as a hypothesis here and established per instance by the harness
    (every comparison against a non-divisor candidate is re-evaluated exactly). *)
Theorem compute_float_spec mpi m1 m2 : 1 <= mpi -> 1 <= m1 -> 1 <= m2 ->
  (forall new1 n1 n2, validpair mpi m1 m2 n1 n2 -> n1 < new1 <= lim mpi m1 ->
     divides mpi new1 = false -> m1 <= new1 -> better_float m1 m2 new1 (mpi / new1) n1 n2 = false) ->
  match compute_float mpi m1 m2 with
  | Ok a b => validpair mpi m1 m2 a b
  | Err => forall a b, ~ validpair mpi m1 m2 a b
  | OOF => False
  end.
Proof. intros. apply compute_spec; assumption. Qed.

(** boolean form of the only situation in which the float comparison matters for validity:
    the candidate [m1] itself when it does not divide [mpi]; checked by the harness with
    [vm_compute] on a sample and in OCaml on every case *)
Definition float_side_condition_b (mpi m1 m2 n1 n2 : Z) : bool :=
  if (m1 <=? Z.min mpi m1) && negb (divides mpi m1) && (n1 <? m1)
  then negb (better_float m1 m2 m1 (mpi / m1) n1 n2) else true.
