(** C03: LayoutSwapper.__init__'s choice of the topology and of the sub-communicator (topology axis) for every
    distribution direction of every handler (layout.py:927-1033).
    Input: per handler the dimension orders of its layouts (dict order) and its process counts
    (np.atleast_1d(nprocs[h])).  Output: index of the largest handler, the topology extents, and per
    handler the list of topology axes - or None where the constructor asserts. *)
From Coq Require Import List Arith Lia PeanoNat Bool.
Import ListNotations.
From PGV Require Import NdIndex.

Definition sw_is (n : nat) (x : option nat) : bool := match x with Some m => m =? n | None => false end.
(** availableSubcomms.count(n) / .index(n) / np.nonzero(available == n) *)
Definition sw_count (n : nat) (l : list (option nat)) : nat := length (filter (sw_is n) l).
Definition sw_positions (n : nat) (l : list (option nat)) : list nat :=
  filter (fun i => sw_is n (nth i l None)) (seq 0 (length l)).
Definition sw_index (n : nat) (l : list (option nat)) : option nat := hd_error (sw_positions n l).

Fixpoint sw_set_none (l : list (option nat)) (i : nat) : list (option nat) :=
  match l, i with
  | [], _ => []
  | _ :: r, 0 => None :: r
  | x :: r, S j => x :: sw_set_none r j
  end.

(** nPossTrans = sum([DimInPos.count(d) for d in DimToPos]) *)
Definition sw_ntrans (Lmax Lh : list (list nat)) (axis i : nat) : nat :=
  fold_right Nat.add 0
    (map (fun lh => length (filter (fun lm => nth axis lm 0 =? nth i lh 0) Lmax)) Lh).

(** max(res, key=lambda x: x[1])[0]: the first pair with the largest second component *)
Definition sw_argmax (res : list (nat * nat)) : option nat :=
  match res with
  | [] => None
  | p :: r => Some (fst (fold_left (fun best x => if snd best <? snd x then x else best) r p))
  end.

Definition sw_choose_axis (Lmax Lh : list (list nat)) (n i : nat) (avail : list (option nat)) : option nat :=
  if sw_count n avail =? 1 then sw_index n avail
  else sw_argmax (filter (fun p => 0 <? snd p)
                         (map (fun ax => (ax, sw_ntrans Lmax Lh ax i)) (sw_positions n avail))).

Fixpoint sw_choose (Lmax Lh : list (list nat)) (procs : list nat) (i : nat) (avail : list (option nat))
  : option (list nat) :=
  match procs with
  | [] => Some []
  | n :: r =>
      match sw_choose_axis Lmax Lh n i avail with
      | None => None
      | Some axis =>
          match sw_choose Lmax Lh r (S i) (sw_set_none avail axis) with
          | None => None
          | Some rest => Some (axis :: rest)
          end
      end
  end.

Definition sw_ndims (p : list nat) : nat := Nat.max (length p - count_occ Nat.eq_dec p 1) 1.

(** index of the first maximum (max(enumerate(l), key=itemgetter(1)) / stable reverse sort) *)
Fixpoint sw_first_max (l : list nat) (i best bi : nat) : nat :=
  match l with
  | [] => bi
  | x :: r => if best <? x then sw_first_max r (S i) x i else sw_first_max r (S i) best bi
  end.

Fixpoint sw_all_some {A : Type} (l : list (option A)) : option (list A) :=
  match l with
  | [] => Some []
  | None :: _ => None
  | Some x :: r => match sw_all_some r with Some t => Some (x :: t) | None => None end
  end.

Definition sw_ctor (layoutsH : list (list (list nat))) (nprocsH : list (list nat))
  : option (nat * list nat * list (list nat)) :=
  let nd := map sw_ndims nprocsH in
  let maxDims := fold_right Nat.max 0 (map (@length nat) nprocsH) in
  let mx := match nd with [] => 0 | x :: r => sw_first_max r 1 x 0 end in
  let pm := nth mx nprocsH [] in
  let topo := pm ++ repeat 1 (maxDims - length pm) in
  let tot := size topo in
  if negb (length layoutsH =? length nprocsH) then None
  else if negb (forallb (fun p => match size p with 0 => false | S _ => tot mod (size p) =? 0 end) nprocsH) then None
  else
    match sw_all_some
            (map (fun h => if h =? mx then Some (seq 0 maxDims)
                           else sw_choose (nth mx layoutsH []) (nth h layoutsH []) (nth h nprocsH []) 0 (map Some topo))
                 (seq 0 (length nprocsH))) with
    | Some axes => Some (mx, topo, axes)
    | None => None
    end.

(** ** what the choice guarantees: distinct axes whose extents are the requested process counts *)
Lemma sw_positions_spec n l i : In i (sw_positions n l) -> i < length l /\ nth i l None = Some n.
Proof.
  unfold sw_positions. intros H. apply filter_In in H. destruct H as [H1 H2]. apply in_seq in H1.
  split; [lia|]. unfold sw_is in H2. destruct (nth i l None) as [m|]; [|discriminate].
  apply Nat.eqb_eq in H2. congruence.
Qed.

Lemma sw_argmax_in res a : sw_argmax res = Some a -> In a (map fst res).
Proof.
  destruct res as [|p r]; [discriminate|]. cbn [sw_argmax]. intros H. injection H as <-.
  assert (G : forall r p, In (fold_left (fun best x : nat * nat => if snd best <? snd x then x else best) r p) (p :: r)).
  { clear. induction r as [|x r IH]; intros p; cbn [fold_left]; [left; reflexivity|].
    destruct (snd p <? snd x).
    - destruct (IH x) as [E|E]; [right; left; exact E|right; right; exact E].
    - destruct (IH p) as [E|E]; [left; exact E|right; right; exact E]. }
  apply in_map, G.
Qed.

Lemma sw_choose_axis_spec Lmax Lh n i avail a : sw_choose_axis Lmax Lh n i avail = Some a ->
  a < length avail /\ nth a avail None = Some n.
Proof.
  unfold sw_choose_axis. destruct (sw_count n avail =? 1).
  - unfold sw_index. intros H. apply sw_positions_spec.
    destruct (sw_positions n avail) as [|x r]; [discriminate|]. injection H as <-. left. reflexivity.
  - intros H. apply sw_argmax_in in H. apply in_map_iff in H. destruct H as [[a' v] [E H]]. cbn in E. subst a'.
    apply filter_In in H. destruct H as [H _]. apply in_map_iff in H. destruct H as [ax [E H]].
    injection E as -> _. apply sw_positions_spec, H.
Qed.

Lemma sw_set_none_length l i : length (sw_set_none l i) = length l.
Proof. revert i. induction l as [|x l IH]; intros [|i]; cbn; auto. Qed.
Lemma sw_set_none_same l i : i < length l -> nth i (sw_set_none l i) None = None.
Proof. revert i. induction l as [|x l IH]; intros [|i] H; cbn in *; try lia; auto. apply IH. lia. Qed.
Lemma sw_set_none_other l i j : i <> j -> nth j (sw_set_none l i) None = nth j l None.
Proof. revert i j. induction l as [|x l IH]; intros [|i] [|j] H; cbn; auto; try lia. Qed.
Lemma sw_set_none_some l i j n : nth j (sw_set_none l i) None = Some n -> j <> i /\ nth j l None = Some n.
Proof.
  intros H. destruct (Nat.eq_dec j i) as [->|Hne].
  - destruct (Nat.lt_ge_cases i (length l)) as [Hl|Hl].
    + rewrite sw_set_none_same in H by exact Hl. discriminate.
    + rewrite nth_overflow in H by (rewrite sw_set_none_length; exact Hl). discriminate.
  - split; [exact Hne|]. rewrite sw_set_none_other in H by congruence. exact H.
Qed.

Theorem sw_choose_spec Lmax Lh : forall procs i avail axs, sw_choose Lmax Lh procs i avail = Some axs ->
  length axs = length procs /\ NoDup axs /\
  forall k, k < length procs -> nth k axs 0 < length avail /\ nth (nth k axs 0) avail None = Some (nth k procs 0).
Proof.
  induction procs as [|n r IH]; intros i avail axs H; cbn [sw_choose] in H.
  - injection H as <-. split; [reflexivity|]. split; [constructor|]. cbn. intros; lia.
  - destruct (sw_choose_axis Lmax Lh n i avail) as [axis|] eqn:Ha; [|discriminate].
    destruct (sw_choose Lmax Lh r (S i) (sw_set_none avail axis)) as [rest|] eqn:Hr; [|discriminate].
    injection H as <-. destruct (sw_choose_axis_spec _ _ _ _ _ _ Ha) as [Hlt Hn].
    destruct (IH _ _ _ Hr) as [Hl [Hnd Hk]]. rewrite sw_set_none_length in Hk.
    split; [cbn; congruence|]. split.
    + constructor; [|exact Hnd]. intros Hin. apply In_nth with (d := 0) in Hin. destruct Hin as [k [Hk1 Hk2]].
      rewrite Hl in Hk1. destruct (Hk k Hk1) as [_ Hs]. rewrite Hk2 in Hs.
      apply sw_set_none_some in Hs. destruct Hs as [Hs _]. contradiction.
    + intros [|k] Hlk; cbn [nth]; [split; assumption|]. cbn in Hlk.
      destruct (Hk k ltac:(lia)) as [H1 H2]. split; [exact H1|]. apply sw_set_none_some in H2. apply H2.
Qed.
