From Coq Require Import List Arith Lia Field Ring Setoid Bool.
Import ListNotations.

Section Basis.
(* abstract ordered field, Leibniz equality *)
Variable F : Type.
Variables (f0 f1 : F) (fadd fmul fsub fdiv : F -> F -> F) (fopp finv : F -> F).
Variable fle : F -> F -> Prop.
Hypothesis Fth : field_theory f0 f1 fadd fmul fsub fopp fdiv finv (@eq F).
Add Field FF : Fth.
Notation "x + y" := (fadd x y). Notation "x * y" := (fmul x y).
Notation "x - y" := (fsub x y). Notation "x / y" := (fdiv x y).
Notation "0" := f0. Notation "1" := f1.
Notation "x <= y" := (fle x y).
Definition flt x y := x <= y /\ x <> y.
Notation "x < y" := (flt x y).
Hypothesis le_refl : forall x, x <= x.
Hypothesis le_trans : forall x y z, x <= y -> y <= z -> x <= z.
Hypothesis le_antisym : forall x y, x <= y -> y <= x -> x = y.
Hypothesis le_total : forall x y, x <= y \/ y <= x.
Hypothesis add_le : forall x y z, x <= y -> x + z <= y + z.
Hypothesis mul_nonneg : forall x y, 0 <= x -> 0 <= y -> 0 <= x * y.
Hypothesis F_1_neq_0' : f1 <> f0.

(* ---- Algorithm A2.2 as written in spline_eval_funcs.py ---- *)
Variable t : nat -> F.      (* knots *)
Variable x : F.
Variable s : nat.           (* span *)
Definition L (k : nat) : F := x - t (s - k)%nat.           (* left[k]  *)
Definition R (k : nat) : F := t (s + 1 + k)%nat - x.       (* right[k] *)

(* inner loop over r for a fixed j; vals are values[r..j], saved as in the code *)
Fixpoint sweep (j r : nat) (vals : list F) (saved : F) : list F :=
  match vals with
  | [] => [saved]                                        (* values[j+1] = saved *)
  | v :: vs => let temp := v / (R r + L (j - r)%nat) in
               (saved + R r * temp) :: sweep j (S r) vs (L (j - r)%nat * temp)
  end.
(* outer loop: j = 0 .. degree-1, starting from values[0] = 1 *)
Fixpoint basis_from (j k : nat) (vals : list F) : list F :=
  match k with
  | O => vals
  | S k' => basis_from (S j) k' (sweep j 0 vals 0)
  end.
Definition basis_funs (degree : nat) : list F := basis_from 0 degree [1].

Fixpoint sumF (l : list F) : F := match l with [] => 0 | v :: vs => v + sumF vs end.

Lemma sweep_length j : forall vals r saved, length (sweep j r vals saved) = S (length vals).
Proof. induction vals; intros; cbn; [reflexivity|]. rewrite IHvals. reflexivity. Qed.

Lemma sweep_sum j : forall vals r saved,
  (forall k, (k < length vals)%nat -> R (r + k)%nat + L (j - (r + k))%nat <> 0) ->
  sumF (sweep j r vals saved) = saved + sumF vals.
Proof.
  induction vals as [|v vs IH]; intros r saved Hnz; cbn [sweep sumF].
  - ring.
  - rewrite IH.
    + assert (H0 : R r + L (j - r)%nat <> 0).
      { specialize (Hnz O). rewrite !Nat.add_0_r in Hnz. apply Hnz. cbn. lia. }
      field. exact H0.
    + intros k Hk. specialize (Hnz (S k)). rewrite <- Nat.add_succ_comm in Hnz. apply Hnz. cbn. lia.
Qed.

(* knots non-decreasing and the span is a genuine interval *)
Hypothesis t_mono : forall a b, (a <= b)%nat -> t a <= t b.
Hypothesis span_pos : t s < t (S s).

Lemma le_sub_nonneg a b : a <= b -> 0 <= b - a.
Proof. intros H. replace 0 with (a + fopp a) by ring. replace (b - a) with (b + fopp a) by ring. apply add_le, H. Qed.
Lemma sub_nonneg_le a b : 0 <= b - a -> a <= b.
Proof. intros H. replace a with (0 + a) by ring. replace b with ((b - a) + a) by ring. apply add_le, H. Qed.

Lemma denom_ne0 j r : (r <= j)%nat -> (j <= s)%nat -> R r + L (j - r)%nat <> 0.
Proof.
  intros Hr Hj. unfold R, L.
  replace (t (s + 1 + r)%nat - x + (x - t (s - (j - r))%nat)) with (t (s + 1 + r)%nat - t (s - (j - r))%nat) by ring.
  intros E.
  assert (H1 : t (s + 1 + r)%nat = t (s - (j - r))%nat).
  { replace (t (s + 1 + r)%nat) with ((t (s + 1 + r)%nat - t (s - (j - r))%nat) + t (s - (j - r))%nat) by ring. rewrite E. ring. }
  destruct span_pos as [Hle Hne]. apply Hne. apply le_antisym; [exact Hle|].
  apply le_trans with (t (s + 1 + r)%nat); [apply t_mono; lia|]. rewrite H1. apply t_mono. lia.
Qed.

Lemma basis_from_sum : forall k j vals, length vals = S j -> (j + k <= s)%nat ->
  sumF (basis_from j k vals) = sumF vals.
Proof.
  induction k as [|k IH]; intros j vals Hlen Hjs; cbn [basis_from]; [reflexivity|].
  rewrite IH; [|rewrite sweep_length, Hlen; reflexivity|lia].
  rewrite sweep_sum; [ring|].
  intros r Hr. rewrite Hlen in Hr. cbn [Nat.add]. apply denom_ne0; lia.
Qed.

Theorem basis_sum_one degree : (degree <= s)%nat -> sumF (basis_funs degree) = 1.
Proof. intros H. unfold basis_funs. rewrite basis_from_sum; [cbn; ring|reflexivity|lia]. Qed.

(* ---------- Cox - de Boor recursion and equality with A2.2 ---------- *)
Variable feqb : F -> F -> bool.
Hypothesis feqb_spec : forall a b, reflect (a = b) (feqb a b).
Variable fleb : F -> F -> bool.
Hypothesis fleb_spec : forall a b, reflect (a <= b) (fleb a b).

Definition inhalf (i : nat) : bool := fleb (t i) x && negb (fleb (t (S i)) x).
Definition frac (num den : F) : F := if feqb den 0 then 0 else num / den.

Fixpoint N (k i : nat) : F :=
  match k with
  | O => if inhalf i then 1 else 0
  | S k' => frac (x - t i) (t (i + k' + 1)%nat - t i) * N k' i
            + frac (t (i + k' + 2)%nat - x) (t (i + k' + 2)%nat - t (S i)) * N k' (S i)
  end.

Lemma frac_ne0 num den : den <> 0 -> frac num den = num / den.
Proof. intros H. unfold frac. destruct (feqb_spec den 0); [contradiction|reflexivity]. Qed.

(* local support *)
Lemma N_support : forall k i, (~ t i <= x) \/ t (i + k + 1)%nat <= x -> N k i = 0.
Proof.
  induction k as [|k IH]; intros i H.
  - cbn [N]. unfold inhalf. replace (i + 0 + 1)%nat with (S i) in H by lia.
    destruct (fleb_spec (t i) x), (fleb_spec (t (S i)) x); cbn; try reflexivity. tauto.
  - cbn [N]. rewrite (IH i), (IH (S i)); [ring| |].
    + destruct H as [H|H]; [left|right].
      * intros H1. apply H. apply le_trans with (t (S i)); [apply t_mono; lia|exact H1].
      * replace (S i + k + 1)%nat with (i + S k + 1)%nat by lia. exact H.
    + destruct H as [H|H]; [left; exact H|right].
      apply le_trans with (t (i + S k + 1)%nat); [apply t_mono; lia|exact H].
Qed.

Hypothesis x_in_span : t s <= x /\ ~ t (S s) <= x.

(* temp of the inner loop *)
Definition A (j q : nat) : F := N j (s - j + q)%nat / (R q + L (j - q)%nat).

Lemma N_step j q : (S j <= s)%nat -> (q <= S j)%nat ->
  N (S j) (s - S j + q)%nat =
    (if (q =? 0)%nat then 0 else L (j - (q - 1))%nat * A j (q - 1)%nat)
  + (if (q =? S j)%nat then 0 else R q * A j q).
Proof.
  intros Hj Hq. cbn [N].
  set (i := (s - S j + q)%nat).
  (* first term *)
  assert (T1 : frac (x - t i) (t (i + j + 1)%nat - t i) * N j i
             = (if (q =? 0)%nat then 0 else L (j - (q - 1))%nat * A j (q - 1)%nat)).
  { destruct (Nat.eqb_spec q 0) as [->|Hq0].
    - rewrite (N_support j i); [ring|]. right. subst i.
      replace (s - S j + 0 + j + 1)%nat with s by lia. apply x_in_span.
    - assert (Ei : i = (s - j + (q - 1))%nat) by (subst i; lia).
      assert (Hden : t (i + j + 1)%nat - t i = R (q - 1)%nat + L (j - (q - 1))%nat).
      { unfold R, L. replace (s + 1 + (q - 1))%nat with (i + j + 1)%nat by (subst i; lia).
        replace (s - (j - (q - 1)))%nat with i by (subst i; lia). ring. }
      rewrite Hden, frac_ne0 by (apply denom_ne0; lia).
      unfold A. rewrite <- Ei.
      replace (x - t i) with (L (j - (q - 1))%nat) by (unfold L; f_equal; f_equal; subst i; lia).
      field. apply denom_ne0; lia. }
  assert (T2 : frac (t (i + j + 2)%nat - x) (t (i + j + 2)%nat - t (S i)) * N j (S i)
             = (if (q =? S j)%nat then 0 else R q * A j q)).
  { destruct (Nat.eqb_spec q (S j)) as [->|Hqj].
    - rewrite (N_support j (S i)); [ring|]. left. subst i.
      replace (S (s - S j + S j))%nat with (S s) by lia. apply x_in_span.
    - assert (Ei : S i = (s - j + q)%nat) by (subst i; lia).
      assert (Hden : t (i + j + 2)%nat - t (S i) = R q + L (j - q)%nat).
      { unfold R, L. replace (s + 1 + q)%nat with (i + j + 2)%nat by (subst i; lia).
        replace (s - (j - q))%nat with (S i) by (subst i; lia). ring. }
      rewrite Hden, frac_ne0 by (apply denom_ne0; lia).
      unfold A. rewrite <- Ei.
      replace (t (i + j + 2)%nat - x) with (R q) by (unfold R; f_equal; f_equal; subst i; lia).
      field. apply denom_ne0; lia. }
  rewrite T1, T2. reflexivity.
Qed.

(* the inner loop computes the next row of the Cox - de Boor triangle *)
Lemma sweep_spec j : (S j <= s)%nat -> forall n r saved, (r + n = S j)%nat ->
  saved = (if (r =? 0)%nat then 0 else L (j - (r - 1))%nat * A j (r - 1)%nat) ->
  sweep j r (map (fun q => N j (s - j + q)%nat) (seq r n)) saved
  = map (fun q => N (S j) (s - S j + q)%nat) (seq r (S n)).
Proof.
  intros Hj. induction n as [|n IH]; intros r saved Hrn Hs.
  - cbn [seq map sweep]. f_equal. rewrite N_step by lia.
    replace (r =? S j)%nat with true by (symmetry; apply Nat.eqb_eq; lia).
    rewrite Hs. ring.
  - cbn [seq map sweep]. f_equal.
    + rewrite N_step by lia.
      replace (r =? S j)%nat with false by (symmetry; apply Nat.eqb_neq; lia).
      rewrite Hs. unfold A. field. apply denom_ne0; lia.
    + apply IH; [lia|]. cbn [Nat.eqb]. replace (S r - 1)%nat with r by lia.
      unfold A. field. apply denom_ne0; lia.
Qed.

Lemma basis_from_spec : forall k j, (j + k <= s)%nat ->
  basis_from j k (map (fun q => N j (s - j + q)%nat) (seq 0 (S j)))
  = map (fun q => N (j + k) (s - (j + k) + q)%nat) (seq 0 (S (j + k))).
Proof.
  induction k as [|k IH]; intros j H; cbn [basis_from].
  - rewrite Nat.add_0_r. reflexivity.
  - rewrite (sweep_spec j ltac:(lia) (S j) 0 0 ltac:(lia) eq_refl).
    rewrite IH by lia. replace (S j + k)%nat with (j + S k)%nat by lia. reflexivity.
Qed.

(* Algorithm A2.2 returns the degree+1 Cox - de Boor B-splines that are non-zero on the span *)
Theorem basis_eq_coxdeboor degree : (degree <= s)%nat ->
  basis_funs degree = map (fun q => N degree (s - degree + q)%nat) (seq 0 (S degree)).
Proof.
  intros H. unfold basis_funs.
  assert (E : [1] = map (fun q => N 0 (s - 0 + q)%nat) (seq 0 1)).
  { cbn [seq map N]. rewrite Nat.sub_0_r, Nat.add_0_r. unfold inhalf.
    destruct x_in_span as [H1 H2].
    destruct (fleb_spec (t s) x); [|contradiction]. destruct (fleb_spec (t (S s)) x); [contradiction|reflexivity]. }
  rewrite E. rewrite (basis_from_spec degree 0) by lia. reflexivity.
Qed.

End Basis.
