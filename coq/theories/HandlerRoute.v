(** C01: routes (sequences of single-axis swaps) and the ping-pong buffer discipline of
    LayoutHandler._transposeRedirect / _transposeRedirect_source_intact (layout.py:553-625). *)
From Coq Require Import List Arith Lia PeanoNat Bool.
Import ListNotations.
From PGV Require Import NdIndex Blocks Layouts Handler TransposeStep TransposeLocal TransposeExec.

Section Route.
Variable V : Type.
Variable dflt : V.
Variables Nl nprocs : list nat.
Variable d' : nat.
Variable G : list nat -> V.

(** a single step is acceptable when the configuration is well formed and the swap axes returned by
    _get_swap_axes describe either a local transpose or one distributed swap *)
Definition step_ok_b (cur nxt : list nat) : bool :=
  cfg_wf_b Nl nprocs cur nxt d' &&
  match swap_axes nprocs cur nxt with
  | a0 :: _ => dist_wf_b nprocs cur nxt d' a0
  | [] => local_wf_b nprocs cur nxt d'
  end.

Theorem run_step_correct cur nxt bufs : step_ok_b cur nxt = true ->
  HoldsL V dflt Nl nprocs d' G cur bufs ->
  HoldsL V dflt Nl nprocs d' G nxt (run_step V dflt Nl nprocs cur nxt d' bufs).
Proof.
  unfold step_ok_b, run_step. intros H HL. apply andb_prop in H. destruct H as [Hwf Hs].
  destruct (swap_axes nprocs cur nxt) as [|a0 rest].
  - apply run_local_correct; assumption.
  - apply run_dist_correct; assumption.
Qed.

Fixpoint run_route (cur : list nat) (route : list (list nat)) (bufs : list (list V)) : list (list V) :=
  match route with
  | [] => bufs
  | nxt :: r => run_route nxt r (run_step V dflt Nl nprocs cur nxt d' bufs)
  end.
Fixpoint route_ok_b (cur : list nat) (route : list (list nat)) : bool :=
  match route with
  | [] => true
  | nxt :: r => step_ok_b cur nxt && route_ok_b nxt r
  end.

(** any route whose steps are acceptable preserves the global field *)
Theorem run_route_correct : forall route cur bufs, route_ok_b cur route = true ->
  HoldsL V dflt Nl nprocs d' G cur bufs ->
  HoldsL V dflt Nl nprocs d' G (last route cur) (run_route cur route bufs).
Proof.
  induction route as [|nxt r IH]; intros cur bufs Hok HL; cbn [run_route last]; [exact HL|].
  cbn [route_ok_b] in Hok. apply andb_prop in Hok. destruct Hok as [H1 H2].
  replace (match r with [] => nxt | _ :: _ => last r cur end) with (last r nxt).
  - apply IH; [exact H2|]. apply run_step_correct; assumption.
  - destruct r; [reflexivity|]. clear. revert l. induction r as [|x r IHr]; intros l; [reflexivity|].
    cbn [last]. destruct r; [reflexivity|]. apply (IHr x).
Qed.

End Route.

(** * Buffer discipline of the redirects, on labels.
    A physical buffer holds the field in some layout ([Data l]) or unspecified contents ([Junk]).
    Contract of the single steps (proved above for the data; the write sets are exercised by the tie):
    [_transpose from to]: to := Data l', from := Junk;
    [_transpose_source_intact from to scratch]: to := Data l', scratch := Junk, from untouched. *)
Inductive content (L : Type) := Junk | Data (l : L).
Arguments Junk {L}. Arguments Data {L} l.
Inductive bname := BSrc | BDst | BBuf.
Definition bname_eqb (a b : bname) : bool :=
  match a, b with BSrc, BSrc | BDst, BDst | BBuf, BBuf => true | _, _ => false end.

Section Redirect.
Variable L : Type.
Definition bst := bname -> content L.
Definition bset (s : bst) (b : bname) (c : content L) : bst := fun x => if bname_eqb x b then c else s x.

Definition t_plain (s : bst) (from to : bname) (l' : L) : bst := bset (bset s from Junk) to (Data l').
Definition t_intact (s : bst) (from to scratch : bname) (l' : L) : bst := bset (bset s scratch Junk) to (Data l').

(** _transposeRedirect: ping-pong between source and dest, final dest[:] = source on even length *)
Fixpoint pingpong (s : bst) (from to : bname) (steps : list L) : bst * bname :=
  match steps with
  | [] => (s, from)
  | l' :: r => pingpong (t_plain s from to l') to from r
  end.
Definition redirect (s : bst) (steps : list L) : bst :=
  let '(s', holder) := pingpong s BSrc BDst steps in
  if Nat.even (length steps) then bset s' BDst (s' BSrc) else s'.

(** _transposeRedirect_source_intact: the first step is chosen by parity so that the result lands in dest *)
Definition redirect_intact (s : bst) (steps : list L) : bst :=
  match steps with
  | [] => s
  | l1 :: r =>
      if Nat.even (length steps)
      then fst (pingpong (t_intact s BSrc BBuf BDst l1) BBuf BDst r)
      else fst (pingpong (t_intact s BSrc BDst BBuf l1) BDst BBuf r)
  end.

Lemma last_cons (x : L) r dv : last (x :: r) dv = last r x.
Proof.
  revert x dv. induction r as [|y r IH]; intros x dv; [reflexivity|].
  change (last (x :: y :: r) dv) with (last (y :: r) dv). rewrite !IH. reflexivity.
Qed.

Lemma bset_same s b c : bset s b c b = c.
Proof. unfold bset. destruct b; reflexivity. Qed.
Lemma bset_other s b c x : x <> b -> bset s b c x = s x.
Proof. unfold bset. destruct x, b; cbn; intros H; try reflexivity; contradiction. Qed.

Lemma pingpong_spec : forall steps s from to cur, from <> to -> s from = Data cur ->
  snd (pingpong s from to steps) = (if Nat.even (length steps) then from else to) /\
  fst (pingpong s from to steps) (snd (pingpong s from to steps)) = Data (last steps cur) /\
  (forall b, b <> from -> b <> to -> fst (pingpong s from to steps) b = s b).
Proof.
  induction steps as [|l' r IH]; intros s from to cur Hne Hs; cbn [pingpong].
  - cbn. repeat split; auto.
  - specialize (IH (t_plain s from to l') to from l' ltac:(congruence)
                   ltac:(unfold t_plain; apply bset_same)).
    destruct IH as [Hh [Hd Hf]]. rewrite last_cons. split; [|split].
    + rewrite Hh. cbn [length]. rewrite Nat.even_succ, <- Nat.negb_even. destruct (Nat.even (length r)); reflexivity.
    + exact Hd.
    + intros b Hb1 Hb2. rewrite (Hf b Hb2 Hb1). unfold t_plain.
      rewrite bset_other by exact Hb2. apply bset_other. exact Hb1.
Qed.

(** without a spare buffer: the result is found in dest whatever the parity of the route *)
Theorem redirect_lands_in_dest s steps cur : steps <> [] -> s BSrc = Data cur ->
  redirect s steps BDst = Data (last steps cur).
Proof.
  intros Hne Hs. unfold redirect.
  destruct (pingpong_spec steps s BSrc BDst cur ltac:(discriminate) Hs) as [Hh [Hd _]].
  destruct (pingpong s BSrc BDst steps) as [s' holder]. cbn [fst snd] in *.
  destruct (Nat.even (length steps)); subst holder.
  - rewrite bset_same. exact Hd.
  - exact Hd.
Qed.

(** with a spare buffer: the result is found in dest and the source block is still the source *)
Theorem redirect_intact_spec s steps cur : steps <> [] -> s BSrc = Data cur ->
  redirect_intact s steps BDst = Data (last steps cur) /\ redirect_intact s steps BSrc = Data cur.
Proof.
  intros Hne Hs. destruct steps as [|l1 r]; [contradiction|]. unfold redirect_intact.
  rewrite last_cons. cbn [length]. rewrite Nat.even_succ, <- Nat.negb_even.
  destruct (Nat.even (length r)) eqn:Ev; cbn [negb].
  - (* odd route: first step source -> dest with buf as scratch *)
    destruct (pingpong_spec r (t_intact s BSrc BDst BBuf l1) BDst BBuf l1 ltac:(discriminate)
                ltac:(unfold t_intact; apply bset_same)) as [Hh [Hd Hf]].
    rewrite Ev in Hh. rewrite Hh in Hd. split; [exact Hd|].
    rewrite Hf by discriminate. unfold t_intact.
    rewrite !bset_other by discriminate. exact Hs.
  - (* even route: first step source -> buf with dest as scratch *)
    destruct (pingpong_spec r (t_intact s BSrc BBuf BDst l1) BBuf BDst l1 ltac:(discriminate)
                ltac:(unfold t_intact; apply bset_same)) as [Hh [Hd Hf]].
    rewrite Ev in Hh. rewrite Hh in Hd. split; [exact Hd|].
    rewrite Hf by discriminate. unfold t_intact.
    rewrite !bset_other by discriminate. exact Hs.
Qed.
End Redirect.
