(** C16: the density kernels of pygyro/poisson/poisson_tools.py and the way DensityFinder calls them.

    [dn_get_perturbed_rho] / [dn_get_rho] are the quadruple loops of the code, executed on nested lists
    over an abstract field (run at Qc, see DensityQc below): for every cell (i, j, k) of the shape of
    [rho] the accumulator starts at 0 and receives, for l = 0 .. nc-1 in this order,
    [q[l] * (grid[i,j,k,l] - feq[i,l])].  Every array access is explicit: an index outside an array is
    the result [None] (Python: IndexError), nothing is read through a default value.

    [dn_feq_rows] is the fancy index [self._fEq[rIndices]] with
    [rIndices = range(starts[0], ends[0])] of DensityFinder.getPerturbedRho. *)
From Coq Require Import List Arith Lia Field Ring PeanoNat.
Import ListNotations.
From PGV Require Import Blocks Sums GridSteps.

Fixpoint dn_mapM {A B : Type} (f : A -> option B) (l : list A) : option (list B) :=
  match l with
  | [] => Some []
  | a :: r => match f a with
              | Some b => match dn_mapM f r with Some bs => Some (b :: bs) | None => None end
              | None => None
              end
  end.

Lemma dn_mapM_seq_spec {B : Type} (f : nat -> option B) n s out :
  dn_mapM f (seq s n) = Some out ->
  length out = n /\ forall i, i < n -> nth_error out i = f (s + i).
Proof.
  revert s out. induction n as [|n IH]; intros s out H; cbn [seq dn_mapM] in H.
  - inversion H. split; [reflexivity|]. intros i Hi; lia.
  - destruct (f s) as [b|] eqn:Eb; [|discriminate].
    destruct (dn_mapM f (seq (S s) n)) as [bs|] eqn:Er; [|discriminate].
    inversion H; subst out. destruct (IH _ _ Er) as [Hl Hn]. split; [cbn; lia|].
    intros [|i] Hi; cbn [nth_error].
    + rewrite Nat.add_0_r. symmetry; exact Eb.
    + rewrite Hn by lia. f_equal. lia.
Qed.

Lemma dn_mapM_seq_some {B : Type} (f : nat -> option B) (g : nat -> B) n s :
  (forall i, i < n -> f (s + i) = Some (g (s + i))) ->
  dn_mapM f (seq s n) = Some (map g (seq s n)).
Proof.
  revert s. induction n as [|n IH]; intros s H; cbn [seq dn_mapM map]; [reflexivity|].
  specialize (H 0 ltac:(lia)) as H0. rewrite Nat.add_0_r in H0. rewrite H0.
  rewrite IH; [reflexivity|]. intros i Hi. replace (S s + i) with (s + S i) by lia. apply H. lia.
Qed.

Lemma dn_mapM_seq_none {B : Type} (f : nat -> option B) n s i :
  i < n -> f (s + i) = None -> dn_mapM f (seq s n) = None.
Proof.
  revert s i. induction n as [|n IH]; intros s i Hi Hn; [lia|]. cbn [seq dn_mapM].
  destruct i as [|i].
  - rewrite Nat.add_0_r in Hn. rewrite Hn. reflexivity.
  - destruct (f s); [|reflexivity]. rewrite (IH (S s) i); [reflexivity|lia|].
    replace (S s + i) with (s + S i) by lia. exact Hn.
Qed.

Section DnModel.
Variable F : Type.
Variables (f0 : F) (fadd fmul fsub : F -> F -> F).

Definition dn_at2 (a : list (list F)) (i l : nat) : option F :=
  match nth_error a i with Some r => nth_error r l | None => None end.
Definition dn_at3 (a : list (list (list F))) (i j k : nat) : option F :=
  match nth_error a i with Some r => dn_at2 r j k | None => None end.
Definition dn_at4 (a : list (list (list (list F)))) (i j k l : nat) : option F :=
  match nth_error a i with Some r => dn_at3 r j k l | None => None end.

(** the innermost loop: [fuel] iterations starting at index [l] with accumulator [acc] *)
Fixpoint dn_sum_from (fuel l : nat) (acc : F) (term : nat -> option F) : option F :=
  match fuel with
  | O => Some acc
  | S f => match term l with
           | Some t => dn_sum_from f (S l) (fadd acc t) term
           | None => None
           end
  end.

(** [quad_coeffs[l] * (grid[i,j,k,l] - feq[i,l])] *)
Definition dn_pterm (feq : list (list F)) (grid : list (list (list (list F)))) (q : list F) (i j k l : nat) : option F :=
  match nth_error q l, dn_at4 grid i j k l, dn_at2 feq i l with
  | Some a, Some b, Some c => Some (fmul a (fsub b c))
  | _, _, _ => None
  end.
(** [quad_coeffs[l] * grid[i,j,k,l]] *)
Definition dn_term (grid : list (list (list (list F)))) (q : list F) (i j k l : nat) : option F :=
  match nth_error q l, dn_at4 grid i j k l with
  | Some a, Some b => Some (fmul a b)
  | _, _ => None
  end.

Definition dn_tab3 (n m p : nat) (cell : nat -> nat -> nat -> option F) : option (list (list (list F))) :=
  dn_mapM (fun i => dn_mapM (fun j => dn_mapM (fun k => cell i j k) (seq 0 p)) (seq 0 m)) (seq 0 n).

(** get_perturbed_rho(rho, feq, grid, quad_coeffs) with rho.shape = (n, m, p); the returned table is the
    new content of rho *)
Definition dn_get_perturbed_rho (n m p : nat) (feq : list (list F)) (grid : list (list (list (list F)))) (q : list F) :=
  dn_tab3 n m p (fun i j k => dn_sum_from (length q) 0 f0 (dn_pterm feq grid q i j k)).
(** get_rho(rho, grid, quad_coeffs) *)
Definition dn_get_rho (n m p : nat) (grid : list (list (list (list F)))) (q : list F) :=
  dn_tab3 n m p (fun i j k => dn_sum_from (length q) 0 f0 (dn_term grid q i j k)).

(** [self._fEq[rIndices]], rIndices = range(s, s + len): a new table whose row i is row s + i *)
Definition dn_feq_rows (fEq : list (list F)) (s len : nat) : option (list (list F)) :=
  dn_mapM (fun I => nth_error fEq I) (seq s len).

(** DensityFinder.getPerturbedRho on a rank whose block of radii is [s, s + n) *)
Definition dn_finder_perturbed_rho (fEq : list (list F)) (s n m p : nat) grid q :=
  match dn_feq_rows fEq s n with
  | Some rows => dn_get_perturbed_rho n m p rows grid q
  | None => None
  end.

(** complex128 storage of rho: [rho[i,j,k] = 0.0] then [+= real]: the imaginary part is 0 *)
Definition dn_store_complex (v : F) : F * F := (v, f0).

(* ------------------------------------------------------------------------------------------ *)
(** * What the loops compute *)
Notation sumn := (sumn F f0 fadd).

Lemma dn_sum_from_spec term t k : forall l,
  (forall x, l <= x < l + k -> term x = Some (t x)) ->
  dn_sum_from k l (sumn l t) term = Some (sumn (l + k) t).
Proof.
  induction k as [|k IH]; intros l H; cbn [dn_sum_from].
  - rewrite Nat.add_0_r. reflexivity.
  - rewrite (H l) by lia. change (fadd (sumn l t) (t l)) with (sumn (S l) t).
    rewrite IH by (intros; apply H; lia). f_equal. f_equal. lia.
Qed.

Lemma dn_sum_from_none term k : forall l acc x,
  l <= x < l + k -> term x = None -> dn_sum_from k l acc term = None.
Proof.
  induction k as [|k IH]; intros l acc x Hx Hn; [lia|]. cbn [dn_sum_from].
  destruct (Nat.eq_dec x l) as [->|Hne]; [rewrite Hn; reflexivity|].
  destruct (term l); [|reflexivity]. apply (IH (S l) _ x); [lia|exact Hn].
Qed.

Lemma dn_tab3_spec n m p cell out :
  dn_tab3 n m p cell = Some out ->
  forall i j k, i < n -> j < m -> k < p -> dn_at3 out i j k = cell i j k.
Proof.
  unfold dn_tab3. intros H i j k Hi Hj Hk.
  destruct (dn_mapM_seq_spec _ _ _ _ H) as [L1 H1]. specialize (H1 i Hi). cbn beta iota delta [Nat.add] in H1.
  unfold dn_at3. rewrite H1.
  destruct (dn_mapM (fun j0 => dn_mapM (fun k0 => cell i j0 k0) (seq 0 p)) (seq 0 m)) as [oi|] eqn:E1.
  2:{ exfalso. apply nth_error_None in H1. lia. }
  destruct (dn_mapM_seq_spec _ _ _ _ E1) as [L2 H2]. specialize (H2 j Hj). cbn beta iota delta [Nat.add] in H2.
  unfold dn_at2. rewrite H2.
  destruct (dn_mapM (fun k0 => cell i j k0) (seq 0 p)) as [oj|] eqn:E2.
  2:{ exfalso. apply nth_error_None in H2. lia. }
  destruct (dn_mapM_seq_spec _ _ _ _ E2) as [_ H3]. exact (H3 k Hk).
Qed.

Lemma dn_tab3_some n m p cell (v : nat -> nat -> nat -> F) :
  (forall i j k, i < n -> j < m -> k < p -> cell i j k = Some (v i j k)) ->
  dn_tab3 n m p cell = Some (map (fun i => map (fun j => map (fun k => v i j k) (seq 0 p)) (seq 0 m)) (seq 0 n)).
Proof.
  intros H. unfold dn_tab3.
  apply (dn_mapM_seq_some _ (fun i => map (fun j => map (fun k => v i j k) (seq 0 p)) (seq 0 m))).
  intros i Hi. cbn [Nat.add].
  apply (dn_mapM_seq_some _ (fun j => map (fun k => v i j k) (seq 0 p))).
  intros j Hj. cbn [Nat.add].
  apply (dn_mapM_seq_some _ (fun k => v i j k)). intros k Hk. cbn [Nat.add]. apply H; assumption.
Qed.

Lemma dn_tab3_none n m p cell i j k :
  i < n -> j < m -> k < p -> cell i j k = None -> dn_tab3 n m p cell = None.
Proof.
  intros Hi Hj Hk Hn. unfold dn_tab3. apply (dn_mapM_seq_none _ n 0 i Hi). cbn [Nat.add].
  apply (dn_mapM_seq_none _ m 0 j Hj). cbn [Nat.add].
  apply (dn_mapM_seq_none _ p 0 k Hk). exact Hn.
Qed.

(** the value of one cell, as a function of the entries: [sum_l q l * (g l - e l)] *)
Definition dn_rho_fn (nc : nat) (qf gf ef : nat -> F) : F := sumn nc (fun l => fmul (qf l) (fsub (gf l) (ef l))).
Definition dn_rho0_fn (nc : nat) (qf gf : nat -> F) : F := sumn nc (fun l => fmul (qf l) (gf l)).

(** rho_formula: when every entry the loops read exists, the call does not raise and cell (i, j, k) of rho
    holds [sum_l q[l] * (grid[i,j,k,l] - feq[i,l])] *)
Theorem dn_rho_formula n m p feq grid q (qf : nat -> F) (gf : nat -> nat -> nat -> nat -> F) (ef : nat -> nat -> F) :
  (forall l, l < length q -> nth_error q l = Some (qf l)) ->
  (forall i j k l, i < n -> j < m -> k < p -> l < length q -> dn_at4 grid i j k l = Some (gf i j k l)) ->
  (forall i l, i < n -> l < length q -> dn_at2 feq i l = Some (ef i l)) ->
  exists rho, dn_get_perturbed_rho n m p feq grid q = Some rho /\
    forall i j k, i < n -> j < m -> k < p ->
      dn_at3 rho i j k = Some (dn_rho_fn (length q) qf (gf i j k) (ef i)).
Proof.
  intros Hq Hg He.
  assert (Hc : forall i j k, i < n -> j < m -> k < p ->
     dn_sum_from (length q) 0 f0 (dn_pterm feq grid q i j k) = Some (dn_rho_fn (length q) qf (gf i j k) (ef i))).
  { intros i j k Hi Hj Hk. unfold dn_rho_fn.
    change f0 with (sumn 0 (fun l => fmul (qf l) (fsub (gf i j k l) (ef i l)))).
    rewrite (dn_sum_from_spec _ (fun l => fmul (qf l) (fsub (gf i j k l) (ef i l)))); [reflexivity|].
    intros x Hx. unfold dn_pterm. rewrite Hq, Hg, He by lia. reflexivity. }
  pose proof (dn_tab3_some n m p _ _ Hc) as E.
  eexists. split; [exact E|].
  intros i j k Hi Hj Hk. etransitivity; [exact (dn_tab3_spec n m p _ _ E i j k Hi Hj Hk)|]. apply Hc; assumption.
Qed.

Theorem dn_rho0_formula n m p grid q (qf : nat -> F) (gf : nat -> nat -> nat -> nat -> F) :
  (forall l, l < length q -> nth_error q l = Some (qf l)) ->
  (forall i j k l, i < n -> j < m -> k < p -> l < length q -> dn_at4 grid i j k l = Some (gf i j k l)) ->
  exists rho, dn_get_rho n m p grid q = Some rho /\
    forall i j k, i < n -> j < m -> k < p ->
      dn_at3 rho i j k = Some (dn_rho0_fn (length q) qf (gf i j k)).
Proof.
  intros Hq Hg.
  assert (Hc : forall i j k, i < n -> j < m -> k < p ->
     dn_sum_from (length q) 0 f0 (dn_term grid q i j k) = Some (dn_rho0_fn (length q) qf (gf i j k))).
  { intros i j k Hi Hj Hk. unfold dn_rho0_fn.
    change f0 with (sumn 0 (fun l => fmul (qf l) (gf i j k l))).
    rewrite (dn_sum_from_spec _ (fun l => fmul (qf l) (gf i j k l))); [reflexivity|].
    intros x Hx. unfold dn_term. rewrite Hq, Hg by lia. reflexivity. }
  pose proof (dn_tab3_some n m p _ _ Hc) as E.
  eexists. split; [exact E|].
  intros i j k Hi Hj Hk. etransitivity; [exact (dn_tab3_spec n m p _ _ E i j k Hi Hj Hk)|]. apply Hc; assumption.
Qed.

(** and an entry that is read but does not exist makes the call fail (IndexError), it is never defaulted *)
Theorem dn_rho_index_error n m p feq grid q i j k l :
  i < n -> j < m -> k < p -> l < length q ->
  dn_at4 grid i j k l = None \/ dn_at2 feq i l = None ->
  dn_get_perturbed_rho n m p feq grid q = None.
Proof.
  intros Hi Hj Hk Hl Hn. unfold dn_get_perturbed_rho. apply (dn_tab3_none n m p _ i j k Hi Hj Hk).
  apply (dn_sum_from_none _ (length q) 0 f0 l); [lia|]. unfold dn_pterm.
  destruct (nth_error q l); [|reflexivity].
  destruct Hn as [Hn|Hn]; rewrite Hn; [reflexivity|]. destruct (dn_at4 grid i j k l); reflexivity.
Qed.

(** * The equilibrium rows: looked up by global radius *)
Theorem dn_feq_rows_spec fEq s len :
  s + len <= length fEq ->
  exists rows, dn_feq_rows fEq s len = Some rows /\ length rows = len /\
    forall i, i < len -> nth_error rows i = nth_error fEq (s + i).
Proof.
  intros Hl. unfold dn_feq_rows.
  assert (H : forall i, i < len -> nth_error fEq (s + i) = Some (nth (s + i) fEq [])).
  { intros i Hi. apply nth_error_nth'. lia. }
  pose proof (dn_mapM_seq_some (fun I => nth_error fEq I) (fun I => nth I fEq []) len s H) as E.
  eexists. split; [exact E|]. destruct (dn_mapM_seq_spec _ _ _ _ E) as [Hlen Hn]. split; [exact Hlen|exact Hn].
Qed.

(** rho_global_r: on the rank at coordinate [a] of [pr] processes along r (block [bstart nr pr a], length
    [blen nr pr a]) the equilibrium row paired with local radius i is the row of global radius
    [bstart + i] of the whole-grid table - the [GlobalTab] lookup of GridSteps.op_density *)
Theorem dn_rho_global_r (fEq : list (list F)) nr pr a i :
  0 < pr -> a < pr -> length fEq = nr -> i < blen nr pr a ->
  exists rows, dn_feq_rows fEq (bstart nr pr a) (blen nr pr a) = Some rows /\
    nth i rows [] = nth (bstart nr pr a + i) fEq [] /\
    nth i rows [] = resolve (list F) [] GlobalTab fEq (bstart nr pr a) (blen nr pr a) i /\
    In GlobalTab (axis0_lookups op_density).
Proof.
  intros Hp Ha Hl Hi.
  assert (Hb : bstart nr pr a + blen nr pr a <= length fEq).
  { rewrite bstart_blen by exact Hp. rewrite Hl. rewrite <- (bstart_p nr pr Hp) at 2. apply bstart_mono; [exact Hp|lia]. }
  destruct (dn_feq_rows_spec fEq _ _ Hb) as [rows [E [Hlen Hn]]].
  exists rows. split; [exact E|].
  assert (H1 : nth i rows [] = nth (bstart nr pr a + i) fEq []).
  { specialize (Hn i Hi). apply nth_error_nth with (d := @nil F) in Hn || idtac.
    assert (Hs : nth_error fEq (bstart nr pr a + i) = Some (nth (bstart nr pr a + i) fEq [])) by (apply nth_error_nth'; lia).
    rewrite Hs in Hn. apply nth_error_nth with (d := @nil F) in Hn. exact Hn. }
  split; [exact H1|]. split; [rewrite H1; reflexivity|]. cbn. left; reflexivity.
Qed.

End DnModel.

(* ------------------------------------------------------------------------------------------ *)
(** * Algebraic properties of the cell value (any field) *)
Section DnTheory.
Variable F : Type.
Variables (f0 f1 : F) (fadd fmul fsub fdiv : F -> F -> F) (fopp finv : F -> F).
Hypothesis Fth : field_theory f0 f1 fadd fmul fsub fopp fdiv finv (@eq F).
Add Field DNF : Fth.
Notation sumn := (sumn F f0 fadd).
Notation rho_fn := (dn_rho_fn F f0 fadd fmul fsub).
Notation rho0_fn := (dn_rho0_fn F f0 fadd fmul).

Lemma dn_sumn_zero n (f : nat -> F) : (forall l, l < n -> f l = f0) -> sumn n f = f0.
Proof. induction n as [|n IH]; intros H; cbn [Sums.sumn]; [reflexivity|]. rewrite IH, H by (intros; try apply H; lia). ring. Qed.

(** rho_linear *)
Theorem dn_rho_linear nc qf (a b : F) g1 g2 e1 e2 :
  rho_fn nc qf (fun l => fadd (fmul a (g1 l)) (fmul b (g2 l))) (fun l => fadd (fmul a (e1 l)) (fmul b (e2 l)))
  = fadd (fmul a (rho_fn nc qf g1 e1)) (fmul b (rho_fn nc qf g2 e2)).
Proof.
  unfold dn_rho_fn.
  rewrite <- (sumn_scale F f0 f1 fadd fmul fsub fdiv fopp finv Fth nc a),
          <- (sumn_scale F f0 f1 fadd fmul fsub fdiv fopp finv Fth nc b),
          <- (sumn_add F f0 f1 fadd fmul fsub fdiv fopp finv Fth).
  apply (sumn_ext F f0 fadd). intros l _. ring.
Qed.

(** the perturbed density is the density of the distribution minus the density of the equilibrium *)
Theorem dn_rho_perturbed_is_difference nc qf g e :
  rho_fn nc qf g e = fsub (rho0_fn nc qf g) (rho0_fn nc qf e).
Proof.
  unfold dn_rho_fn, dn_rho0_fn. induction nc as [|nc IH]; cbn [Sums.sumn]; [ring|]. rewrite IH. ring.
Qed.

(** rho_equilibrium_zero: a distribution equal to the equilibrium rows has zero perturbed density *)
Theorem dn_rho_equilibrium_zero nc qf g e :
  (forall l, l < nc -> g l = e l) -> rho_fn nc qf g e = f0.
Proof. intros H. unfold dn_rho_fn. apply dn_sumn_zero. intros l Hl. rewrite H by exact Hl. ring. Qed.

(** rho_exact: if the quadrature coefficients solve the transposed collocation system C^T q = I (what
    get_quadrature_coefficients does: trans='T' solve against the basis integrals I) and the nodal values
    along v are those of a spline with coefficients c (C c = g), the density is sum_j I_j c_j: the integral
    of the interpolant whenever I_j is the integral of basis function j (that is C09's subject and is a
    hypothesis here) *)
Theorem dn_rho_exact nc (C : nat -> nat -> F) (qf g c I : nat -> F) :
  (forall j, j < nc -> sumn nc (fun i => fmul (C i j) (qf i)) = I j) ->
  (forall i, i < nc -> sumn nc (fun j => fmul (C i j) (c j)) = g i) ->
  rho0_fn nc qf g = sumn nc (fun j => fmul (I j) (c j)).
Proof. intros HT HC. unfold dn_rho0_fn. exact (weights_dual F f0 f1 fadd fmul fsub fdiv fopp finv Fth nc C qf g c I HT HC). Qed.

Lemma dn_sumn_sub n (I c ce : nat -> F) :
  sumn n (fun j => fmul (I j) (fsub (c j) (ce j)))
  = fsub (sumn n (fun j => fmul (I j) (c j))) (sumn n (fun j => fmul (I j) (ce j))).
Proof. induction n as [|n IHn]; cbn [Sums.sumn]; [ring|]. rewrite IHn. ring. Qed.

(** ... and the perturbed density is the integral of the interpolant of f - f_eq *)
Theorem dn_rho_perturbed_exact nc (C : nat -> nat -> F) (qf g e c ce I : nat -> F) :
  (forall j, j < nc -> sumn nc (fun i => fmul (C i j) (qf i)) = I j) ->
  (forall i, i < nc -> sumn nc (fun j => fmul (C i j) (c j)) = g i) ->
  (forall i, i < nc -> sumn nc (fun j => fmul (C i j) (ce j)) = e i) ->
  rho_fn nc qf g e = sumn nc (fun j => fmul (I j) (fsub (c j) (ce j))).
Proof.
  intros HT HC HE. rewrite dn_rho_perturbed_is_difference.
  rewrite (dn_rho_exact nc C qf g c I HT HC), (dn_rho_exact nc C qf e ce I HT HE).
  symmetry. apply dn_sumn_sub.
Qed.

(** rho does not depend on how r (and z) are distributed: a rank computes, for its local radius i, the cell
    value with the equilibrium row of global radius start + i; assembled over the blocks of any process
    grid this is the serial table (the argument of GridSteps.assembled_eq_serial with the density cell as
    slice kernel and the equilibrium row as parameter) *)
Definition dn_rank_rho (nc : nat) (qf : nat -> F) nr nz pr pz (fld : nat -> nat -> nat -> F)
  (rowloc : nat -> nat -> nat -> nat -> nat -> F) (a b i j : nat) : F :=
  rho_fn nc qf (fld (bstart nr pr a + i) (bstart nz pz b + j)) (rowloc a b i j).
Definition dn_assembled_rho nc qf nr nz pr pz fld rowloc (R Z : nat) : F :=
  let a := owner nr pr R in let b := owner nz pz Z in
  dn_rank_rho nc qf nr nz pr pz fld rowloc a b (R - bstart nr pr a) (Z - bstart nz pz b).

Theorem dn_rho_decomposition_free (nc : nat) (qf : nat -> F) nr nz pr pz (fld : nat -> nat -> nat -> F) (feq : nat -> nat -> F)
  (rowloc : nat -> nat -> nat -> nat -> nat -> F) :
  0 < pr -> 0 < pz ->
  (forall a b i j, a < pr -> b < pz -> i < blen nr pr a -> j < blen nz pz b ->
     rowloc a b i j = feq (bstart nr pr a + i)) ->
  forall R Z, R < nr -> Z < nz ->
  dn_assembled_rho nc qf nr nz pr pz fld rowloc R Z = rho_fn nc qf (fld R Z) (feq R).
Proof.
  intros Hpr Hpz Hrow R Z HR HZ. unfold dn_assembled_rho, dn_rank_rho.
  destruct (owner_spec nr pr R Hpr HR) as [Ha [Hl0 Hu0]].
  destruct (owner_spec nz pz Z Hpz HZ) as [Hb [Hl1 Hu1]].
  rewrite Hrow; try assumption; try (unfold blen; lia).
  replace (bstart nr pr (owner nr pr R) + (R - bstart nr pr (owner nr pr R))) with R by lia.
  replace (bstart nz pz (owner nz pz Z) + (Z - bstart nz pz (owner nz pz Z))) with Z by lia.
  reflexivity.
Qed.

End DnTheory.
