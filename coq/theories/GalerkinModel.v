(** Executable model of pygyro/poisson/poisson_solver.py, class DiffEqSolver, over an abstract field
    (record [sp_ops] of SplineModel.v; executed at [Qc], see GalerkinQc.v).

    Inputs that the code obtains from numpy (the Gauss-Legendre points mapped to the cells, the
    weights, the factor that multiplies them in every cell - today one [multFactor] for all cells -, the values of the coefficient functions A, B, C, D, E at the points)
    are inputs of the model.  The B-spline values at the points are those of SplineModel.v
    ([sp_nu_find_span], [sp_nu_basis_funs], [sp_nu_basis_funs_1st_der]): the code evaluates
    [self._rspline[a].eval(pts, der)], a spline with unit coefficient vector, on a non-uniform
    (general) space - for a cubic_uniform radial space the constructor rebuilds a general space
    on [make_knots(breaks, 3, False)], so the uniform-cubic fast path is never used here.

    Matrices: row = test function, column = trial function.  The assembly is the code's:
    for every row i and every s_j in i .. min(i+p, nbasis-1) the sums run over the cells
    [max(start_i,start_j), min(end_i,end_j)) only and are stored in diagonal storage; mass,
    k2PhiPsi and PhiPsi keep ONE array for the diagonals +k and -k ([coeffs.extend(coeffs[-2::-1])]),
    dPhidPsi and dPhiPsi keep 2p+1 arrays and write index 2p-j from the integrand with the roles
    of the two splines exchanged; scipy.sparse.diags places array k at offset k-p. *)
From Coq Require Import List Arith Lia ZArith Bool.
Import ListNotations.
From PGV Require Import BasisCoxDeBoor FindSpan CubicUniform Sums SplineModel.

Inductive gk_kind : Type := GkMass | GkK2 | GkPhiPsi | GkDD | GkD1.

Section GkModel.
Variable F : Type.
Variable K : sp_ops F.
Notation "x + y" := (spadd K x y). Notation "x * y" := (spmul K x y).
Notation "x - y" := (spsub K x y). Notation "x / y" := (spdiv K x y).
Notation "0" := (sp0 K). Notation "1" := (sp1 K).
Notation gsum := (Sums.sumn F 0 (spadd K)).

(** a table indexed by (cell, point of the cell) *)
Definition gk_at (T : list (list F)) (c q : nat) : F := nth q (nth c T []) 0.

(* ------------------------------------------------------------------------------------------ *)
(** * B-spline values at the quadrature points *)

(** span, values and first derivatives of the p+1 B-splines that do not vanish at x *)
Definition gk_pt : Type := (nat * (list F * list F))%type.

Definition gk_point (knots : list F) (p : nat) (x : F) : sp_res gk_pt :=
  sp_bind (sp_nu_find_span F K knots p x) (fun s =>
  sp_bind (sp_nu_basis_funs F K knots p x s) (fun v =>
  sp_bind (sp_nu_basis_funs_1st_der F K knots p x s) (fun d => SpOk (s, (v, d))))).

Definition gk_table (knots : list F) (p : nat) (pts : list (list F)) : sp_res (list (list gk_pt)) :=
  sp_mapM (fun row => sp_mapM (gk_point knots p) row) pts.

(** value at a point of span s of the spline with the unit coefficient vector e_a: the local
    array holds the B-splines s-p .. s *)
Definition gk_pick (p s a : nat) (l : list F) : F :=
  if (s - p <=? a)%nat && (a <=? s)%nat then nth (a - (s - p)) l 0 else 0.

Definition gk_phi (p : nat) (T : list (list gk_pt)) (e a c q : nat) : F :=
  match nth q (nth c T []) (0%nat, ([], [])) with
  | (s, (v, d)) => gk_pick p s a (match e with 0%nat => v | _ => d end)
  end.

(** every point of cell c has span p + c *)
Definition gk_spans_ok (p : nat) (T : list (list gk_pt)) (nc nq : nat) : bool :=
  forallb (fun c => forallb (fun q => (fst (nth q (nth c T []) (0%nat, ([], []))) =? p + c)%nat) (seq 0 nq)) (seq 0 nc).

(* ------------------------------------------------------------------------------------------ *)
(** * assembly *)
Section GkCore.
Variables (p nc nq : nat).
Variable phi : nat -> nat -> nat -> nat -> F.       (* derivative order, basis function, cell, point *)
Variables W X Av Bv Cv Dv Ev : nat -> nat -> F.     (* weight*multFactor, point, coefficient values *)

(** the integrand the code writes for the entry (row a = test, column b = trial) *)
Definition gk_g (k : gk_kind) (a b c q : nat) : F :=
  match k with
  | GkMass => W c q * Ev c q * phi 0%nat b c q * phi 0%nat a c q * X c q
  | GkK2 => W c q * Dv c q * phi 0%nat b c q * phi 0%nat a c q * X c q
  | GkPhiPsi => W c q * Cv c q * phi 0%nat b c q * phi 0%nat a c q * X c q
  | GkDD => W c q * spopp K (Av c q) * phi 1%nat b c q * phi 1%nat a c q * X c q
            + W c q * spopp K (Av c q) * phi 1%nat b c q * phi 0%nat a c q
  | GkD1 => W c q * Bv c q * phi 1%nat b c q * phi 0%nat a c q * X c q
  end.

(** sum over the cells lo .. lo+n-1 and the points of each cell *)
Definition gk_cellsum (k : gk_kind) (a b lo n : nat) : F :=
  gsum n (fun i => gsum nq (fun q => gk_g k a b (lo + i)%nat q)).

(** the dense Galerkin matrix: all cells *)
Definition gk_dense (k : gk_kind) (a b : nat) : F := gk_cellsum k a b 0 nc.

(** overlap of the supports of splines i and s_j as the code computes it *)
Definition gk_start (i sj : nat) : nat := Nat.max (i - p) (sj - p).
Definition gk_end (i sj : nat) : nat := Nat.min (Nat.min nc (i + 1)) (Nat.min nc (sj + 1)).
Definition gk_ov (k : gk_kind) (a b i sj : nat) : F :=
  gk_cellsum k a b (gk_start i sj) (gk_end i sj - gk_start i sj).

Definition gk_sym (k : gk_kind) : bool := match k with GkDD | GkD1 => false | _ => true end.

(** diagonal storage: array j (0 .. 2p, offset j-p), position i.
    symmetric kinds: arrays j and 2p-j are the same object, written through index j >= p only;
    dPhidPsi / dPhiPsi: index j > p from (test i, trial s_j), index 2p-j' <= p from (test s_j, trial i)
    (for j' = p both statements write the same cell, the second one stays). *)
Definition gk_diag (k : gk_kind) (j i : nat) : F :=
  if gk_sym k then
    let jj := if (p <=? j)%nat then j else (2 * p - j)%nat in
    gk_ov k i (i + (jj - p))%nat i (i + (jj - p))%nat
  else if (p <? j)%nat then gk_ov k i (i + (j - p))%nat i (i + (j - p))%nat
  else gk_ov k (i + (p - j))%nat i i (i + (p - j))%nat.

Definition gk_diags (k : gk_kind) (nb : nat) : list (list F) :=
  map (fun j => map (fun i => gk_diag k j i) (seq 0 (nb - (if (p <=? j)%nat then j - p else p - j))%nat))
      (seq 0 (2 * p + 1)).

(** scipy.sparse.diags(arrays, range(-p, p+1), (nb, nb)): array j lies on offset j - p;
    offset o >= 0 : M[t, t+o] = array[t];  offset o < 0 : M[t-o, t] = array[t] *)
Definition gk_entry (dgs : list (list F)) (a b : nat) : F :=
  if (a <=? b)%nat then (if (b - a <=? p)%nat then nth a (nth (p + (b - a)) dgs []) 0 else 0)
  else (if (a - b <=? p)%nat then nth b (nth (p - (a - b)) dgs []) 0 else 0).

End GkCore.

(* ------------------------------------------------------------------------------------------ *)
(** * boundary conditions: which coefficients are unknowns *)
Definition gk_memZ (m : Z) (l : list Z) : bool := existsb (Z.eqb m) l.

Definition gk_start_range (lN : list Z) : nat := match lN with [] => 1%nat | _ => 0%nat end.
Definition gk_end_range (nb : nat) (uN : list Z) : nat := match uN with [] => (nb - 1)%nat | _ => nb end.
Definition gk_excl (uN : list Z) : nat := match uN with [] => 1%nat | _ => 0%nat end.
Definition gk_nunk (nb : nat) (lN uN : list Z) : nat := (gk_end_range nb uN - gk_start_range lN)%nat.

(** _coeff_range[I] = slice(lo, hi) for the mode value m *)
Definition gk_coeff_lo (lN : list Z) (m : Z) : nat := if gk_memZ m lN then 0%nat else 1%nat.
Definition gk_coeff_hi (nb : nat) (uN : list Z) (m : Z) : nat := (nb - (if gk_memZ m uN then 0 else 1))%nat.
(** _stiffness_range[I] = slice(lo, hi) inside the matrices already cut to range_slice *)
Definition gk_stiff_lo (lN : list Z) (m : Z) : nat :=
  if gk_memZ m lN then 0%nat else (1 - gk_start_range lN)%nat.
Definition gk_stiff_hi (nb : nat) (lN uN : list Z) (m : Z) : nat :=
  (gk_nunk nb lN uN - (if gk_memZ m uN then 0 else 1 - gk_excl uN))%nat.

(** the constructor raises ValueError:  [b for b in lNeumannIdx if b in uNeumannIdx] is not empty
    and rFactor is zero at every quadrature point *)
Definition gk_refuses (lN uN : list Z) (Ctab : list (list F)) : bool :=
  existsb (fun b => gk_memZ b uN) lN && forallb (forallb (fun v => speqb K v 0)) Ctab.

(* ------------------------------------------------------------------------------------------ *)
(** * dense linear algebra over the field: Gauss-Jordan as an oracle, accepted only after checks *)
Definition gk_dot (n : nat) (r y : list F) : F := gsum n (fun j => nth j r 0 * nth j y 0).
Definition gk_mv (n : nat) (A : list (list F)) (y : list F) : list F :=
  map (fun i => gk_dot n (nth i A []) y) (seq 0 n).
Definition gk_mm (n : nat) (A B : list (list F)) : list (list F) :=
  map (fun i => map (fun j => gsum n (fun k => nth k (nth i A []) 0 * nth j (nth k B []) 0)) (seq 0 n)) (seq 0 n).
Definition gk_is_id (n : nat) (M : list (list F)) : bool :=
  forallb (fun i => forallb (fun j => speqb K (nth j (nth i M []) 0) (if (i =? j)%nat then 1 else 0)) (seq 0 n)) (seq 0 n).
Definition gk_vec_eqb (n : nat) (u v : list F) : bool :=
  forallb (fun i => speqb K (nth i u 0) (nth i v 0)) (seq 0 n).

Fixpoint gk_find_pivot (col : nat) (rows : list (list F)) : option (list F * list (list F)) :=
  match rows with
  | [] => None
  | r :: rest =>
    if speqb K (nth col r 0) 0 then
      match gk_find_pivot col rest with
      | Some (pr, others) => Some (pr, r :: others)
      | None => None
      end
    else Some (r, rest)
  end.
Fixpoint gk_axpy (c : F) (r1 r2 : list F) : list F :=       (* r2 - c*r1 *)
  match r1, r2 with
  | u :: r1', v :: r2' => (v - c * u) :: gk_axpy c r1' r2'
  | _, _ => []
  end.
Fixpoint gk_gj (fuel col : nat) (done todo : list (list F)) : option (list (list F)) :=
  match fuel with
  | O => Some done
  | S f =>
    match gk_find_pivot col todo with
    | None => None
    | Some (pr, rest) =>
      let piv := nth col pr 0 in
      let pr' := map (fun v => v / piv) pr in
      let elim := fun r => gk_axpy (nth col r 0) pr' r in
      gk_gj f (S col) (map elim done ++ [pr']) (map elim rest)
    end
  end.
Definition gk_unit_row (n i : nat) : list F := map (fun j => if (i =? j)%nat then 1 else 0) (seq 0 n).

(** x with A x = b; SpDivErr when the elimination meets a zero column or a check fails *)
Definition gk_lin_solve (n : nat) (A : list (list F)) (b : list F) : sp_res (list F) :=
  match gk_gj n 0 [] (map (fun i => firstn n (nth i A []) ++ gk_unit_row n i) (seq 0 n)) with
  | None => SpDivErr
  | Some R =>
    let Ai := map (skipn n) R in
    let x := gk_mv n Ai b in
    if gk_is_id n (gk_mm n Ai A) && gk_vec_eqb n (gk_mv n A x) b then SpOk x else SpDivErr
  end.

(* ------------------------------------------------------------------------------------------ *)
(** * the solver *)

(** everything the constructor stores, as the five diagonal storages *)
Record gk_asm : Type := GkAsm {
  gka_p : nat; gka_nb : nat;
  gka_mass : list (list F); gka_k2 : list (list F); gka_phipsi : list (list F);
  gka_dd : list (list F); gka_d1 : list (list F);
  gka_tab : list (list gk_pt);
  gka_E : list (list F)          (* self._rhoFactor at the points, used by _solveModeFunc *)
}.

Definition gk_assemble (knots : list F) (p nc nq : nat) (pts : list (list F)) (wts : list F) (mf : list F)
  (At Bt Ct Dt Et : list (list F)) : sp_res gk_asm :=
  sp_bind (gk_table knots p pts) (fun T =>
  if gk_spans_ok p T nc nq then
    let phi := gk_phi p T in
    let W := fun (c q : nat) => nth q wts 0 * nth c mf 0 in
    let dg := fun k => gk_diags p nc nq phi W (gk_at pts) (gk_at At) (gk_at Bt) (gk_at Ct) (gk_at Dt) (gk_at Et) k (nc + p) in
    SpOk (GkAsm p (nc + p) (dg GkMass) (dg GkK2) (dg GkPhiPsi) (dg GkDD) (dg GkD1) T Et)
  else SpArgErr).

Definition gk_msq (m : Z) : F := sp_ofZ F K (m * m).

(** (self._stiffnessMatrix - self._mVals[I]*self._k2PhiPsi), entry (a, b) in global indices *)
Definition gk_stiff (S : gk_asm) (m : Z) (a b : nat) : F :=
  gk_entry (gka_p S) (gka_dd S) a b + gk_entry (gka_p S) (gka_d1 S) a b + gk_entry (gka_p S) (gka_phipsi S) a b
  - gk_msq m * gk_entry (gka_p S) (gka_k2 S) a b.

Definition gk_mode_matrix (S : gk_asm) (m : Z) (lo hi : nat) : list (list F) :=
  map (fun a => map (fun b => gk_stiff S m a b) (seq lo (hi - lo))) (seq lo (hi - lo)).

(** massMat.dot(rho coefficients): rows lo .. hi-1, all nb columns *)
Definition gk_rhs_discrete (S : gk_asm) (lo hi : nat) (rho : list F) : list F :=
  map (fun a => gsum (gka_nb S) (fun b => gk_entry (gka_p S) (gka_mass S) a b * nth b rho 0)) (seq lo (hi - lo)).

(** rhoVec[a] = sum over ALL points of w*multFactor*B_a(x)*x*E(x)*rho(x)   (E = self._rhoFactor) *)
Definition gk_rhs_func (S : gk_asm) (nc nq : nat) (pts : list (list F)) (wts : list F) (mf : list F)
  (rhot : list (list F)) (lo hi : nat) : list F :=
  map (fun a => gsum nc (fun c => gsum nq (fun q =>
        nth q wts 0 * nth c mf 0 * gk_phi (gka_p S) (gka_tab S) 0 a c q * gk_at pts c q * gk_at (gka_E S) c q * gk_at rhot c q)))
      (seq lo (hi - lo)).

(** coeffs[:] = solution with self._coeffs[0] = self._coeffs[-1] = 0 set before: [buf] is the content
    of the shared buffer self._coeffs left by the previous mode *)
Definition gk_store (nb lo hi : nat) (buf sol : list F) : list F :=
  map (fun i => if (lo <=? i)%nat && (i <? hi)%nat then nth (i - lo) sol 0
                else if (i =? 0)%nat || (i =? nb - 1)%nat then 0 else nth i buf 0) (seq 0 nb).

Definition gk_solve_rhs (S : gk_asm) (lN uN : list Z) (m : Z) (buf rhs : list F) : sp_res (list F) :=
  let lo := gk_coeff_lo lN m in
  let hi := gk_coeff_hi (gka_nb S) uN m in
  sp_bind (gk_lin_solve (hi - lo) (gk_mode_matrix S m lo hi) rhs) (fun sol =>
  SpOk (gk_store (gka_nb S) lo hi buf sol)).

(** _solveMode for one mode and one z: spline coefficients of phi *)
Definition gk_solve_mode (S : gk_asm) (lN uN : list Z) (m : Z) (buf rho : list F) : sp_res (list F) :=
  gk_solve_rhs S lN uN m buf
    (gk_rhs_discrete S (gk_coeff_lo lN m) (gk_coeff_hi (gka_nb S) uN m) rho).

(** _solveModeFunc *)
Definition gk_solve_mode_func (S : gk_asm) (lN uN : list Z) (m : Z) (buf : list F)
  (nc nq : nat) (pts : list (list F)) (wts : list F) (mf : list F) (rhot : list (list F)) : sp_res (list F) :=
  gk_solve_rhs S lN uN m buf
    (gk_rhs_func S nc nq pts wts mf rhot (gk_coeff_lo lN m) (gk_coeff_hi (gka_nb S) uN m)).

(** the loop over the modes of solveEquation / solveEquationForFunction: the buffer self._coeffs is
    threaded from one mode to the next.  A work item is (mode value, coefficients of rho) or
    (mode value, table of rho(x) at the quadrature points). *)
Definition gk_work : Type := (Z * (list F + list (list F)))%type.

Definition gk_solve_item (S : gk_asm) (lN uN : list Z) (nc nq : nat) (pts : list (list F)) (wts : list F) (mf : list F)
  (buf : list F) (w : gk_work) : sp_res (list F) :=
  match snd w with
  | inl rho => gk_solve_mode S lN uN (fst w) buf rho
  | inr rhot => gk_solve_mode_func S lN uN (fst w) buf nc nq pts wts mf rhot
  end.

Fixpoint gk_solve_all (S : gk_asm) (lN uN : list Z) (nc nq : nat) (pts : list (list F)) (wts : list F) (mf : list F)
  (buf : list F) (work : list gk_work) : sp_res (list (list F)) :=
  match work with
  | [] => SpOk []
  | w :: rest =>
    sp_bind (gk_solve_item S lN uN nc nq pts wts mf buf w) (fun c =>
    sp_bind (gk_solve_all S lN uN nc nq pts wts mf c rest) (fun cs => SpOk (c :: cs)))
  end.

(** values of the solution at the radial nodes: _real_spline.eval_vector(r, ...) *)
Definition gk_eval (knots : list F) (p : nat) (coeffs rs : list F) : sp_res (list F) :=
  sp_nu_eval_1d_vector F K rs knots p coeffs 0.

End GkModel.
