(** C15: mode bookkeeping of DiffEqSolver / QuasiNeutralitySolver (pygyro/poisson/poisson_solver.py).

    Executable part (integers): the order of [np.fft.fftfreq(nTheta, 1/nTheta)] as numpy builds it (two
    aranges), its squares ([self._mVals *= self._mVals]), the per-mode slices [_coeff_range] /
    [_stiffness_range] with [i in lNeumannIdx] evaluated on the mode VALUES, the choice of matrix in
    QuasiNeutralitySolver.solveEquation ([self._mVals[I] == 0] -> the UNSLICED [_stiffness0]) and the
    matrices that make up [_stiffness0] (chi).
    The scaling [results * (1/(n*d))] with [d = 1/n] is the identity in exact arithmetic; the model
    therefore holds the integer mode numbers.  (In binary64 [n*(1/n)] is not 1 for n = 49, 98, 103, ...:
    the harness reports those sizes.) *)
From Coq Require Import List Arith Lia ZArith Bool PeanoNat.
Import ListNotations.
From PGV Require Import Blocks GridSteps.

(* ------------------------------------------------------------------------------------------ *)
(** * fftfreq *)
(** numpy: N = (n-1)//2 + 1; results[:N] = arange(0, N); results[N:] = arange(-(n//2), 0) *)
Definition qn_fftfreq (n : nat) : list Z :=
  match n with
  | O => []
  | S _ => let N := S ((n - 1) / 2) in
           map Z.of_nat (seq 0 N) ++ map (fun k => (- Z.of_nat (n / 2) + Z.of_nat k)%Z) (seq 0 (n - N))
  end.
(** the mode number held at index i *)
Definition qn_mode (n i : nat) : Z := if 2 * i <? n then Z.of_nat i else (Z.of_nat i - Z.of_nat n)%Z.
(** self._mVals after [self._mVals *= self._mVals] *)
Definition qn_msq (n : nat) : list Z := map (fun m => (m * m)%Z) (qn_fftfreq n).
(** index of the complex-conjugate mode *)
Definition qn_conj (n i : nat) : nat := (n - i) mod n.

Lemma qn_split_facts n : 0 < n ->
  S ((n - 1) / 2) <= n /\ S ((n - 1) / 2) + n / 2 = n /\ (forall i, i < S ((n - 1) / 2) <-> 2 * i < n).
Proof.
  intros Hn.
  pose proof (Nat.div_mod (n - 1) 2 ltac:(lia)) as H1. pose proof (Nat.mod_upper_bound (n - 1) 2 ltac:(lia)) as H2.
  pose proof (Nat.div_mod n 2 ltac:(lia)) as H3. pose proof (Nat.mod_upper_bound n 2 ltac:(lia)) as H4.
  repeat split; try lia.
Qed.

Lemma qn_fftfreq_pos n : 0 < n ->
  qn_fftfreq n = map Z.of_nat (seq 0 (S ((n - 1) / 2)))
                 ++ map (fun k => (- Z.of_nat (n / 2) + Z.of_nat k)%Z) (seq 0 (n - S ((n - 1) / 2))).
Proof. destruct n; [lia|reflexivity]. Qed.

Theorem qn_fftfreq_length n : length (qn_fftfreq n) = n.
Proof.
  destruct (Nat.eq_dec n 0) as [->|Hn]; [reflexivity|]. rewrite qn_fftfreq_pos by lia.
  destruct (qn_split_facts n ltac:(lia)) as [H1 _].
  rewrite app_length, !map_length, !seq_length. lia.
Qed.

(** mvals_spec *)
Theorem qn_mvals_spec n i : i < n -> nth i (qn_fftfreq n) 0%Z = qn_mode n i.
Proof.
  intros Hi. rewrite qn_fftfreq_pos by lia.
  destruct (qn_split_facts n ltac:(lia)) as [H1 [H2 H3]]. unfold qn_mode.
  destruct (2 * i <? n) eqn:E.
  - apply Nat.ltb_lt in E. apply H3 in E.
    rewrite app_nth1 by (rewrite map_length, seq_length; exact E).
    rewrite (nth_indep _ 0%Z (Z.of_nat 0)) by (rewrite map_length, seq_length; exact E).
    rewrite map_nth, seq_nth by exact E. reflexivity.
  - apply Nat.ltb_ge in E. assert (Hge : S ((n - 1) / 2) <= i) by (destruct (Nat.lt_ge_cases i (S ((n - 1) / 2))) as [Hlt|]; [apply H3 in Hlt; lia|assumption]).
    rewrite app_nth2 by (rewrite map_length, seq_length; exact Hge).
    rewrite map_length, seq_length.
    set (f := fun k => (- Z.of_nat (n / 2) + Z.of_nat k)%Z).
    assert (Hk : i - S ((n - 1) / 2) < n - S ((n - 1) / 2)) by lia.
    rewrite (nth_indep _ 0%Z (f 0)) by (rewrite map_length, seq_length; exact Hk).
    rewrite (map_nth f), seq_nth by exact Hk. unfold f. lia.
Qed.

(** the two cases of the statement, spelled out *)
Corollary qn_mvals_even h i : 0 < h -> i < 2 * h ->
  nth i (qn_fftfreq (2 * h)) 0%Z = if i <? h then Z.of_nat i else (Z.of_nat i - Z.of_nat (2 * h))%Z.
Proof.
  intros Hh Hi. rewrite qn_mvals_spec by exact Hi. unfold qn_mode.
  destruct (2 * i <? 2 * h) eqn:E1, (i <? h) eqn:E2; try reflexivity;
    [apply Nat.ltb_lt in E1; apply Nat.ltb_ge in E2|apply Nat.ltb_ge in E1; apply Nat.ltb_lt in E2]; lia.
Qed.
Corollary qn_mvals_odd h i : i < 2 * h + 1 ->
  nth i (qn_fftfreq (2 * h + 1)) 0%Z = if i <=? h then Z.of_nat i else (Z.of_nat i - Z.of_nat (2 * h + 1))%Z.
Proof.
  intros Hi. rewrite qn_mvals_spec by exact Hi. unfold qn_mode.
  destruct (2 * i <? 2 * h + 1) eqn:E1, (i <=? h) eqn:E2; try reflexivity;
    [apply Nat.ltb_lt in E1; apply Nat.leb_gt in E2|apply Nat.ltb_ge in E1; apply Nat.leb_le in E2]; lia.
Qed.

(** the mode number is the representative of i modulo n in [-(n/2), (n-1)/2] *)
Theorem qn_mode_range n i : i < n ->
  (- Z.of_nat (n / 2) <= qn_mode n i <= Z.of_nat ((n - 1) / 2))%Z /\
  (qn_mode n i = Z.of_nat i \/ qn_mode n i = Z.of_nat i - Z.of_nat n)%Z.
Proof.
  intros Hi. destruct (qn_split_facts n ltac:(lia)) as [H1 [H2 H3]]. unfold qn_mode.
  destruct (2 * i <? n) eqn:E.
  - apply Nat.ltb_lt in E. apply H3 in E. split; [lia|left; reflexivity].
  - apply Nat.ltb_ge in E. split; [|right; reflexivity].
    assert (~ i < S ((n - 1) / 2)) by (intros Hlt; apply H3 in Hlt; lia). lia.
Qed.

Lemma qn_msq_nth n i : i < n -> nth i (qn_msq n) 0%Z = (qn_mode n i * qn_mode n i)%Z.
Proof.
  intros Hi. unfold qn_msq. change 0%Z with ((fun m => (m * m)%Z) 0%Z) at 1. rewrite map_nth.
  rewrite qn_mvals_spec by exact Hi. reflexivity.
Qed.

Theorem qn_mode_zero_iff n i : i < n -> (qn_mode n i = 0%Z <-> i = 0).
Proof.
  intros Hi. unfold qn_mode. destruct (2 * i <? n) eqn:E; [lia|]. apply Nat.ltb_ge in E. lia.
Qed.

(** the test [self._mVals[I] == 0] on the squared values singles out exactly the index 0 *)
Theorem qn_msq_zero_iff n i : i < n -> (nth i (qn_msq n) 0%Z = 0%Z <-> i = 0).
Proof.
  intros Hi. rewrite qn_msq_nth by exact Hi. rewrite <- (qn_mode_zero_iff n i Hi). nia.
Qed.
(** ... and the squares are never negative, so [<= 0] would be the same test *)
Theorem qn_msq_nonneg n i : (0 <= nth i (qn_msq n) 0%Z)%Z.
Proof.
  destruct (Nat.lt_ge_cases i n) as [Hi|Hi]; [rewrite qn_msq_nth by exact Hi; nia|].
  rewrite nth_overflow; [lia|]. unfold qn_msq. rewrite map_length, qn_fftfreq_length. exact Hi.
Qed.

Lemma qn_conj_lt n i : i < n -> qn_conj n i < n.
Proof. intros Hi. unfold qn_conj. apply Nat.mod_upper_bound. lia. Qed.

Lemma qn_conj_cases n i : i < n -> (i = 0 /\ qn_conj n i = 0) \/ (0 < i /\ qn_conj n i = n - i).
Proof.
  intros Hi. unfold qn_conj. destruct i as [|i]; [left; split; [reflexivity|]|right; split; [lia|]].
  - rewrite Nat.sub_0_r. apply Nat.mod_same. lia.
  - apply Nat.mod_small. lia.
Qed.

(** the conjugate index holds the opposite mode number, except the Nyquist index of an even size, which is
    its own conjugate; either way the squares agree *)
Theorem qn_mode_conj n i : i < n ->
  qn_mode n (qn_conj n i) = (- qn_mode n i)%Z \/ (2 * i = n /\ qn_conj n i = i).
Proof.
  intros Hi. destruct (qn_conj_cases n i Hi) as [[-> Hc]|[Hpos Hc]]; rewrite Hc.
  - left. unfold qn_mode. destruct (2 * 0 <? n) eqn:E; [reflexivity|apply Nat.ltb_ge in E; lia].
  - unfold qn_mode. destruct (Nat.ltb_spec (2 * (n - i)) n) as [E1|E1], (Nat.ltb_spec (2 * i) n) as [E2|E2].
    + lia.
    + left. lia.
    + left. lia.
    + right. lia.
Qed.

Theorem qn_msq_conj n i : i < n -> nth (qn_conj n i) (qn_msq n) 0%Z = nth i (qn_msq n) 0%Z.
Proof.
  intros Hi. rewrite !qn_msq_nth by (try apply qn_conj_lt; exact Hi).
  destruct (qn_mode_conj n i Hi) as [H|[_ H]]; [rewrite H; ring|rewrite H; reflexivity].
Qed.

Lemma qn_mode_conj_zero n i : i < n -> (qn_mode n (qn_conj n i) = 0%Z <-> qn_mode n i = 0%Z).
Proof.
  intros Hi. destruct (qn_mode_conj n i Hi) as [H|[_ H]]; [rewrite H; lia|rewrite H; tauto].
Qed.

(* ------------------------------------------------------------------------------------------ *)
(** * The per-mode slices *)
Definition qn_mem (m : Z) (l : list Z) : bool := existsb (Z.eqb m) l.     (* [i in lNeumannIdx], numeric equality *)
Definition qn_null (l : list Z) : bool := match l with [] => true | _ => false end.

Section Ranges.
Variable nb : Z.                 (* self._rspline.nbasis *)
Variables lN uN : list Z.        (* lNeumannIdx, uNeumannIdx *)
Definition qn_start_range : Z := if qn_null lN then 1 else 0.
Definition qn_end_range : Z := if qn_null uN then nb - 1 else nb.
Definition qn_excluded_end : Z := if qn_null uN then 1 else 0.
Definition qn_nunknowns : Z := qn_end_range - qn_start_range.
(** slice(0 if i in lNeumannIdx else 1, nbasis - (0 if i in uNeumannIdx else 1)) *)
Definition qn_coeff_range (m : Z) : Z * Z :=
  ((if qn_mem m lN then 0 else 1), nb - (if qn_mem m uN then 0 else 1))%Z.
(** slice(0 if i in lNeumannIdx else (1-start_range), nUnknowns - (0 if i in uNeumannIdx else (1-excluded_end_pts))) *)
Definition qn_stiff_range (m : Z) : Z * Z :=
  ((if qn_mem m lN then 0 else 1 - qn_start_range), qn_nunknowns - (if qn_mem m uN then 0 else 1 - qn_excluded_end))%Z.

Definition qn_coeff_ranges (n : nat) : list (Z * Z) := map qn_coeff_range (qn_fftfreq n).
Definition qn_stiff_ranges (n : nat) : list (Z * Z) := map qn_stiff_range (qn_fftfreq n).

Lemma qn_mem_not_null m l : qn_mem m l = true -> qn_null l = false.
Proof. destruct l; [discriminate|reflexivity]. Qed.

(** the matrices are stored sliced by [range_slice = slice(start_range, end_range)]: stiffness index s is basis
    function start_range + s.  Both per-mode slices then select the same basis functions. *)
Theorem qn_ranges_consistent m :
  (qn_start_range + fst (qn_stiff_range m) = fst (qn_coeff_range m) /\
   qn_start_range + snd (qn_stiff_range m) = snd (qn_coeff_range m))%Z.
Proof.
  unfold qn_stiff_range, qn_coeff_range, qn_nunknowns, qn_start_range, qn_end_range, qn_excluded_end. cbn [fst snd].
  destruct (qn_mem m lN) eqn:E1; [rewrite (qn_mem_not_null _ _ E1)|];
  (destruct (qn_mem m uN) eqn:E2; [rewrite (qn_mem_not_null _ _ E2)|]);
  destruct (qn_null lN); destruct (qn_null uN); split; lia.
Qed.

(** mode0_range_full, general form: the slice of a mode covers ALL stored unknowns - so that an unsliced matrix
    has the same unknowns as the sliced one - exactly when the mode is Neumann (or nobody is) at each end *)
Theorem qn_range_full_iff m :
  qn_stiff_range m = (0, qn_nunknowns)%Z <->
  (qn_mem m lN = true \/ lN = []) /\ (qn_mem m uN = true \/ uN = []).
Proof.
  unfold qn_stiff_range, qn_start_range, qn_excluded_end. split.
  - intros H. injection H as H1 H2. split.
    + destruct (qn_mem m lN); [left; reflexivity|]. destruct lN; [right; reflexivity|cbn in H1; lia].
    + destruct (qn_mem m uN); [left; reflexivity|]. destruct uN; [right; reflexivity|cbn in H2; lia].
  - intros [[H1|H1] [H2|H2]]; try rewrite H1; try rewrite H2; cbn; f_equal; try lia;
      try (destruct (qn_mem m []) eqn:E; [discriminate E|]); cbn; try lia.
    all: destruct (qn_mem m uN); destruct (qn_mem m lN); cbn; lia.
Qed.
End Ranges.

(** the configuration QuasiNeutralitySolver hard-codes: lNeumannIdx = [0], no uNeumannIdx *)
Definition qn_QN_lN : list Z := [0%Z].
Definition qn_QN_uN : list Z := [].

(** mode0_range_full: in that configuration the m = 0 mode is sliced by (0, nUnknowns): the unsliced
    [_stiffness0] has the unknowns of the sliced mass matrix rows / coefficient slice used with it *)
Theorem qn_mode0_range_full nb :
  qn_stiff_range nb qn_QN_lN qn_QN_uN 0 = (0, qn_nunknowns nb qn_QN_lN qn_QN_uN)%Z /\
  qn_coeff_range nb qn_QN_lN qn_QN_uN 0 = (0, nb - 1)%Z /\
  (qn_nunknowns nb qn_QN_lN qn_QN_uN = nb - 1)%Z.
Proof.
  unfold qn_stiff_range, qn_coeff_range, qn_nunknowns, qn_start_range, qn_end_range, qn_excluded_end, qn_QN_lN, qn_QN_uN.
  cbn. repeat split; first [lia | apply f_equal2; lia].
Qed.

(** it would NOT be so for another Neumann list, e.g. lNeumannIdx = [1]: mode 0 is then sliced (1, nU) but the
    unsliced matrix keeps nU unknowns.  QuasiNeutralitySolver does not forward Neumann lists, so this
    configuration cannot be reached through it. *)
Example qn_mode0_unsliced_needs_neumann0 :
  qn_stiff_range 8 [1%Z] [] 0 = (1, 7)%Z /\ qn_nunknowns 8 [1%Z] [] = 7%Z.
Proof. split; reflexivity. Qed.

(** in the QN configuration a mode and its conjugate have the same slices (the membership test sees m = 0 only) *)
Theorem qn_QN_ranges_sym nb n i : i < n ->
  qn_stiff_range nb qn_QN_lN qn_QN_uN (qn_mode n (qn_conj n i)) = qn_stiff_range nb qn_QN_lN qn_QN_uN (qn_mode n i) /\
  qn_coeff_range nb qn_QN_lN qn_QN_uN (qn_mode n (qn_conj n i)) = qn_coeff_range nb qn_QN_lN qn_QN_uN (qn_mode n i).
Proof.
  intros Hi. pose proof (qn_mode_conj_zero n i Hi) as Hz.
  unfold qn_stiff_range, qn_coeff_range, qn_QN_lN, qn_QN_uN, qn_mem. cbn [existsb]. rewrite !orb_false_r.
  destruct (Z.eqb_spec (qn_mode n (qn_conj n i)) 0) as [E1|E1], (Z.eqb_spec (qn_mode n i) 0) as [E2|E2];
    try (split; reflexivity); tauto.
Qed.
(** with a general list the membership test is made on the SIGNED mode value: a list naming mode 1 does not
    name mode -1, and the two conjugate modes get different boundary conditions *)
Example qn_neumann_list_is_sign_sensitive :
  qn_coeff_range 8 [1%Z] [] (qn_mode 8 1) = (0, 7)%Z /\ qn_coeff_range 8 [1%Z] [] (qn_mode 8 (qn_conj 8 1)) = (1, 7)%Z.
Proof. split; reflexivity. Qed.

(* ------------------------------------------------------------------------------------------ *)
(** * Choice of the matrix in QuasiNeutralitySolver.solveEquation, per-mode parameters *)
Inductive qn_matsel :=
| QnStiff0                                   (* self._stiffness0, NOT sliced *)
| QnSliced (msq : Z) (rng : Z * Z).          (* (stiffnessMatrix - msq * k2PhiPsi)[rng, rng] *)

Record qn_param := { qp_sel : qn_matsel; qp_mass_rows : Z * Z; qp_coeffs : Z * Z }.

Definition qn_param_of (nb : Z) (lN uN : list Z) (m : Z) : qn_param :=
  let q := (m * m)%Z in
  {| qp_sel := if (q =? 0)%Z then QnStiff0 else QnSliced q (qn_stiff_range nb lN uN m);
     qp_mass_rows := qn_stiff_range nb lN uN m; qp_coeffs := qn_coeff_range nb lN uN m |}.
(** what mode index I is solved with: None = IndexError *)
Definition qn_params (nb : Z) (lN uN : list Z) (n : nat) : list qn_param := map (qn_param_of nb lN uN) (qn_fftfreq n).
Definition qn_solve_param (nb : Z) lN uN (n I : nat) : option qn_param := nth_error (qn_params nb lN uN n) I.

Lemma qn_params_nth nb lN uN n I d : I < n -> nth I (qn_params nb lN uN n) d = qn_param_of nb lN uN (qn_mode n I).
Proof.
  intros HI. unfold qn_params.
  rewrite (nth_indep _ d (qn_param_of nb lN uN 0%Z)) by (rewrite map_length, qn_fftfreq_length; exact HI).
  rewrite map_nth, qn_mvals_spec by exact HI. reflexivity.
Qed.

(** mode0_uses_stiffness0 *)
Theorem qn_mode0_uses_stiffness0 nb lN uN n I : I < n ->
  (qp_sel (qn_param_of nb lN uN (qn_mode n I)) = QnStiff0 <-> I = 0).
Proof.
  intros HI. cbn [qn_param_of qp_sel]. rewrite <- (qn_mode_zero_iff n I HI).
  destruct (Z.eqb_spec (qn_mode n I * qn_mode n I) 0) as [E|E]; split; intros H; try reflexivity; try discriminate; nia.
Qed.

(** in the QN configuration the parameters of conjugate modes coincide: the solve for m and -m is the same map *)
Theorem qn_QN_param_conj nb n i : i < n ->
  qn_param_of nb qn_QN_lN qn_QN_uN (qn_mode n (qn_conj n i)) = qn_param_of nb qn_QN_lN qn_QN_uN (qn_mode n i).
Proof.
  intros Hi. destruct (qn_QN_ranges_sym nb n i Hi) as [H1 H2]. unfold qn_param_of. rewrite H1, H2.
  pose proof (qn_msq_conj n i Hi) as Hq. rewrite !qn_msq_nth in Hq by (try apply qn_conj_lt; exact Hi). rewrite Hq. reflexivity.
Qed.

(** the loop of solveEquation reads [_mVals[I]], [_stiffness_range[I]], [_coeff_range[I]] with
    I = starts[0] + i (GridSteps.op_qn_solve: GlobalTab): on every rank the parameters of local mode line i are
    those of its global mode index *)
Theorem qn_param_lookup_global nb lN uN n p a i d : 0 < p -> a < p -> i < blen n p a ->
  resolve qn_param d GlobalTab (qn_params nb lN uN n) (bstart n p a) (blen n p a) i
  = qn_param_of nb lN uN (qn_mode n (bstart n p a + i)) /\ In GlobalTab (axis0_lookups op_qn_solve).
Proof.
  intros Hp Ha Hi. split; [|cbn; left; reflexivity]. cbn [resolve]. apply qn_params_nth.
  assert (bstart n p a + blen n p a <= n); [|lia].
  rewrite bstart_blen by exact Hp. rewrite <- (bstart_p n p Hp) at 2. apply bstart_mono; [exact Hp|lia].
Qed.

(* ------------------------------------------------------------------------------------------ *)
(** * chi: which matrices make up _stiffness0 *)
Inductive qn_term := QnDPhidPsi | QnDPhiPsi | QnPhiPsi.
(** self._stiffnessMatrix = self._dPhidPsi + self._dPhiPsi + self._PhiPsi *)
Definition qn_stiffness_terms : list qn_term := [QnDPhidPsi; QnDPhiPsi; QnPhiPsi].
(** None = ValueError("The argument chi must be either 0 or 1") *)
Definition qn_stiffness0_terms (adiabatic : bool) (chi : Z) : option (list qn_term) :=
  if adiabatic then
    (if (chi =? 0)%Z then Some qn_stiffness_terms
     else if (chi =? 1)%Z then Some [QnDPhidPsi; QnDPhiPsi] else None)
  else Some qn_stiffness_terms.
