(** C05: grid-level operators do not depend on the process decomposition.
    Every gridStep of pygyro loops over the local indices (i, j) of the two distributed axes of the
    current layout and applies a slice kernel to slice (i, j) with parameters looked up in tables.
    A table is either built for the rank's own block (r[starts:ends], e.g. FluxSurfaceAdvection._shifts,
    ParallelGradient._bz) and indexed locally, or built for the whole grid (DensityFinder._fEq,
    ParallelGradient._thetaVals, the parallel gradient parGradVals along z, QuasiNeutralitySolver._mVals)
    and indexed by global index = start + local index.  The model records, per operator, which of the
    two the (repaired) code does; the theorems say that each lookup yields the entry of the slice's own
    global coordinate, and that the field assembled over all ranks is then the serial result. *)
From Coq Require Import List Arith Lia PeanoNat Bool.
Import ListNotations.
From PGV Require Import Blocks.

Section Tables.
Variable T : Type.
Variable dT : T.
(** tab[s : s+len] *)
Definition slice_tab (tab : list T) (s len : nat) : list T := firstn len (skipn s tab).

Lemma nth_firstn_lt (l : list T) len i : i < len -> nth i (firstn len l) dT = nth i l dT.
Proof.
  revert l i. induction len as [|len IH]; intros l i Hi; [lia|].
  destruct l as [|x l]; [destruct i; reflexivity|]. destruct i as [|i]; [reflexivity|].
  cbn [firstn nth]. apply IH. lia.
Qed.
Lemma nth_skipn_add (l : list T) s i : nth i (skipn s l) dT = nth (s + i) l dT.
Proof.
  revert l. induction s as [|s IH]; intros l; [reflexivity|].
  destruct l as [|x l]; [destruct i; reflexivity|]. cbn [skipn Nat.add nth]. apply IH.
Qed.
Lemma slice_tab_nth tab s len i : i < len -> s + len <= length tab ->
  nth i (slice_tab tab s len) dT = nth (s + i) tab dT.
Proof. intros Hi _. unfold slice_tab. rewrite nth_firstn_lt by exact Hi. apply nth_skipn_add. Qed.
End Tables.

(** how a gridStep obtains one parameter of local slice index i on a rank whose block starts at s *)
Inductive lookup := LocalTab    (* table built from eta[s:s+len], indexed by i *)
                  | GlobalTab   (* table built from the whole eta, indexed by s + i *)
                  | GlobalTabLocalIdx.  (* table built from the whole eta but indexed by i: the defect of the pinned tree *)

Section Lookup.
Variable T : Type.
Variable dT : T.
Definition resolve (k : lookup) (tab : list T) (s len i : nat) : T :=
  match k with
  | LocalTab => nth i (slice_tab T tab s len) dT
  | GlobalTab => nth (s + i) tab dT
  | GlobalTabLocalIdx => nth i tab dT
  end.

(** both sound kinds deliver the entry of the slice's own global index *)
Theorem resolve_global k tab s len i : k <> GlobalTabLocalIdx -> i < len -> s + len <= length tab ->
  resolve k tab s len i = nth (s + i) tab dT.
Proof.
  intros Hk Hi Hl. destruct k; cbn [resolve]; [apply slice_tab_nth; assumption|reflexivity|contradiction].
Qed.
End Lookup.

(** the code's choices, operator by operator (layout axes 0 and 1 are the distributed ones) *)
Record opspec := { op_name : nat; axis0_lookups : list lookup; axis1_lookups : list lookup }.
Definition op_flux_surface  := {| op_name := 0; axis0_lookups := [LocalTab];             axis1_lookups := [LocalTab] |}.
  (* step(slice(i,j), cIdx=j, rIdx=i): _shifts/_thetaShifts/_lagrangeCoeffs[rIdx, cIdx] are built for the local r and v *)
Definition op_v_parallel    := {| op_name := 1; axis0_lookups := [LocalTab; GlobalTab; LocalTab]; axis1_lookups := [GlobalTab] |}.
  (* r from getCoords(0); parallel_gradient(i): _bz[i] local, _thetaVals[_rStart+i] global; parGradVals[i, zStart+j, k] *)
Definition op_poloidal      := {| op_name := 2; axis0_lookups := [LocalTab];             axis1_lookups := [LocalTab] |}.
  (* v from getCoords(0); _phiSplines[j] filled from phi.get2DSlice(j) of the same z block *)
Definition op_density       := {| op_name := 3; axis0_lookups := [GlobalTab];            axis1_lookups := [] |}.
  (* _fEq[rIndices] with rIndices = getGlobalIdxVals(0) *)
Definition op_qn_solve      := {| op_name := 4; axis0_lookups := [GlobalTab; GlobalTab]; axis1_lookups := [] |}.
  (* _mVals[I], _stiffness_range[I] with I from getGlobalIdxVals(0) *)
Definition op_initialise    := {| op_name := 5; axis0_lookups := [LocalTab];             axis1_lookups := [LocalTab] |}.
  (* getCoords(0), getCoords(1): eta[dims[i]][starts[i]:ends[i]] *)
Definition all_ops := [op_flux_surface; op_v_parallel; op_poloidal; op_density; op_qn_solve; op_initialise].

Definition op_sound (o : opspec) : bool :=
  forallb (fun k => match k with GlobalTabLocalIdx => false | _ => true end) (axis0_lookups o ++ axis1_lookups o).

Lemma all_ops_sound : forallb op_sound all_ops = true.
Proof. reflexivity. Qed.

(** * Assembly over ranks equals the serial result *)
Section Assembly.
Variables S P : Type.                 (* slice contents, parameters *)
Variable K : P -> S -> S.             (* the slice kernel *)
Variables n0 n1 p0 p1 : nat.          (* extents of the two distributed axes, process grid *)
Hypothesis Hp0 : 0 < p0. Hypothesis Hp1 : 0 < p1.
Variable F : nat -> nat -> S.         (* global field as slices indexed by global (I, J) *)
Variable Pglob : nat -> nat -> P.     (* parameters of global slice (I, J): what the serial run uses *)
(** parameters the parallel run passes on rank (a, b) for local (i, j) *)
Variable Ploc : nat -> nat -> nat -> nat -> P.

Definition serial_result (I J : nat) : S := K (Pglob I J) (F I J).
(** rank (a, b) computes, for its local (i, j), the slice at global (start0 + i, start1 + j) *)
Definition rank_result (a b i j : nat) : S :=
  K (Ploc a b i j) (F (bstart n0 p0 a + i) (bstart n1 p1 b + j)).
(** the global field assembled from the blocks: slice (I, J) is taken from its owner *)
Definition assembled (I J : nat) : S :=
  let a := owner n0 p0 I in let b := owner n1 p1 J in
  rank_result a b (I - bstart n0 p0 a) (J - bstart n1 p1 b).

Hypothesis Hparams : forall a b i j, a < p0 -> b < p1 -> i < blen n0 p0 a -> j < blen n1 p1 b ->
  Ploc a b i j = Pglob (bstart n0 p0 a + i) (bstart n1 p1 b + j).

Theorem assembled_eq_serial I J : I < n0 -> J < n1 -> assembled I J = serial_result I J.
Proof.
  intros HI HJ. unfold assembled, rank_result, serial_result.
  destruct (owner_spec n0 p0 I Hp0 HI) as [Ha [Hl0 Hu0]].
  destruct (owner_spec n1 p1 J Hp1 HJ) as [Hb [Hl1 Hu1]].
  rewrite Hparams; try assumption; try (unfold blen; lia).
  replace (bstart n0 p0 (owner n0 p0 I) + (I - bstart n0 p0 (owner n0 p0 I))) with I by lia.
  replace (bstart n1 p1 (owner n1 p1 J) + (J - bstart n1 p1 (owner n1 p1 J))) with J by lia.
  reflexivity.
Qed.

(** and every rank's local slice is some global slice with the right parameters: nothing else is computed *)
Theorem rank_result_is_serial a b i j : a < p0 -> b < p1 -> i < blen n0 p0 a -> j < blen n1 p1 b ->
  rank_result a b i j = serial_result (bstart n0 p0 a + i) (bstart n1 p1 b + j).
Proof. intros. unfold rank_result, serial_result. rewrite Hparams by assumption. reflexivity. Qed.
End Assembly.

(** two process grids give the same assembled field (in particular any grid vs. the serial run p0 = p1 = 1) *)
Theorem decomposition_free (S P : Type) (K : P -> S -> S) n0 n1 p0 p1 q0 q1 F Pglob Ploc Ploc' :
  0 < p0 -> 0 < p1 -> 0 < q0 -> 0 < q1 ->
  (forall a b i j, a < p0 -> b < p1 -> i < blen n0 p0 a -> j < blen n1 p1 b ->
     Ploc a b i j = Pglob (bstart n0 p0 a + i) (bstart n1 p1 b + j)) ->
  (forall a b i j, a < q0 -> b < q1 -> i < blen n0 q0 a -> j < blen n1 q1 b ->
     Ploc' a b i j = Pglob (bstart n0 q0 a + i) (bstart n1 q1 b + j)) ->
  forall I J, I < n0 -> J < n1 ->
  assembled S P K n0 n1 p0 p1 F Ploc I J = assembled S P K n0 n1 q0 q1 F Ploc' I J.
Proof.
  intros Hp0 Hp1 Hq0 Hq1 H1 H2 I J HI HJ.
  rewrite (assembled_eq_serial S P K n0 n1 p0 p1 Hp0 Hp1 F Pglob Ploc H1 I J HI HJ).
  rewrite (assembled_eq_serial S P K n0 n1 q0 q1 Hq0 Hq1 F Pglob Ploc' H2 I J HI HJ).
  reflexivity.
Qed.

(** the parameters obtained through sound lookups satisfy the hypothesis above *)
Theorem sound_lookup_params (T : Type) (dT : T) k tab n p a i :
  k <> GlobalTabLocalIdx -> 0 < p -> a < p -> length tab = n -> i < blen n p a ->
  resolve T dT k tab (bstart n p a) (blen n p a) i = nth (bstart n p a + i) tab dT.
Proof.
  intros Hk Hp Ha Hl Hi. apply resolve_global; try assumption.
  rewrite bstart_blen by exact Hp. rewrite Hl.
  rewrite <- (bstart_p n p Hp) at 2. apply bstart_mono; [exact Hp|lia].
Qed.

(** the defect of the pinned tree, as a refutation: a global table indexed locally picks the parameter of
    another coordinate as soon as the block does not start at 0 *)
Example local_index_into_global_table_refuted :
  resolve nat 0 GlobalTabLocalIdx [10; 11; 12; 13] (bstart 4 2 1) (blen 4 2 1) 0 <> nth (bstart 4 2 1 + 0) [10; 11; 12; 13] 0.
Proof. vm_compute. discriminate. Qed.
