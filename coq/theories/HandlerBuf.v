(** C02: the buffer size computed for a compatible pair (l1, l2) holds the block of l1 itself
    (pair_bufsize >= l_size l1): the padded send buffer is at least as large as the data it is filled from. *)
From Coq Require Import List Arith Lia PeanoNat Bool.
Import ListNotations.
From PGV Require Import NdIndex Blocks Layouts Handler TransposeExec.

Lemma size_set_nth l i v : i < length l -> size (set_nth l i v) * nth i l 0 = size l * v.
Proof.
  revert i. induction l as [|x l IH]; intros i Hi; cbn in Hi; [lia|].
  destruct i as [|i]; cbn [set_nth nth]; rewrite !size_cons.
  - lia.
  - specialize (IH i ltac:(lia)). nia.
Qed.

Lemma prod_bound X S b0 b1 M1 M2 p :
  X * b1 * b0 = S * M1 * M2 -> b0 <= M1 -> b1 <= M2 * p -> (b0 = 0 \/ b1 = 0 -> S = 0) -> S <= X * p.
Proof.
  intros E H0 H1 HZ.
  destruct (Nat.eq_dec b0 0) as [Z0|Z0]; [rewrite HZ by (left; exact Z0); lia|].
  destruct (Nat.eq_dec b1 0) as [Z1|Z1]; [rewrite HZ by (right; exact Z1); lia|].
  assert (H : S * (b0 * b1) <= X * p * (b0 * b1)).
  { replace (X * p * (b0 * b1)) with (X * b1 * b0 * p) by lia. rewrite E.
    assert (b0 * b1 <= M1 * (M2 * p)) by (apply Nat.mul_le_mono; assumption). nia. }
  assert (0 < b0 * b1) by nia.
  apply (Nat.mul_le_mono_pos_r _ _ (b0 * b1)); assumption.
Qed.

Lemma size_zero_of_nth l i : i < length l -> nth i l 0 = 0 -> size l = 0.
Proof.
  revert i. induction l as [|x l IH]; intros i Hi Hz; cbn in Hi; [lia|].
  rewrite size_cons. destruct i as [|i]; cbn in Hz; [subst; lia|].
  rewrite (IH i ltac:(lia) Hz). lia.
Qed.

Lemma filter_two (f : nat -> bool) l a b : NoDup l -> In a l -> In b l -> a <> b -> f a = true -> f b = true ->
  2 <= length (filter f l).
Proof.
  induction l as [|x l IH]; intros Hnd Ha Hb Hne Fa Fb; [destruct Ha|].
  inversion Hnd as [|? ? Hni Hnd']; subst. cbn [filter].
  assert (Hone : forall c, In c l -> f c = true -> 1 <= length (filter f l)).
  { clear. induction l as [|y l IH]; intros c Hc Fc; [destruct Hc|]. cbn [filter].
    destruct Hc as [->|Hc]; [rewrite Fc; cbn; lia|]. destruct (f y); cbn; [lia|apply (IH c); assumption]. }
  destruct Ha as [->|Ha]; destruct Hb as [->|Hb].
  - contradiction.
  - rewrite Fa. cbn. pose proof (Hone b Hb Fb). lia.
  - rewrite Fb. cbn. pose proof (Hone a Ha Fa). lia.
  - destruct (f x); cbn; [pose proof (IH Hnd' Ha Hb Hne Fa Fb); lia|apply IH; assumption].
Qed.

Section PairBuf.
Variables N nprocs coords l1 l2 : list nat.
Let d := length l1.
Hypothesis Hl2 : length l2 = d.
Hypothesis Hnd1 : NoDup l1.
Hypothesis Hnd2 : NoDup l2.
Hypothesis Hin : forall a, a < d -> In (nth a l2 0) l1.       (* both are orders of the same dimensions *)
Hypothesis Hnp : length nprocs <= d.
Hypothesis Hpos : forall a, 0 < np_at nprocs a.
Hypothesis Hrk : forall a, rk_at coords a < np_at nprocs a.   (* a valid rank *)
Hypothesis Hcompat : compatible nprocs l1 l2 = true.

Lemma l_shape_nth dims i : i < length dims ->
  nth i (l_shape N nprocs dims coords) 0 = blen (nth (nth i dims 0) N 0) (np_at nprocs i) (rk_at coords i).
Proof. intros H. unfold l_shape.
  exact (nth_map_seq (fun i => blen (nth (nth i dims 0) N 0) (np_at nprocs i) (rk_at coords i)) (length dims) i H). Qed.
Lemma l_shape_length dims : length (l_shape N nprocs dims coords) = length dims.
Proof. unfold l_shape. rewrite map_length, seq_length. reflexivity. Qed.
Lemma l_max_shape_nth dims i : i < length dims ->
  nth i (l_max_shape N nprocs dims) 0 = bmax (nth (nth i dims 0) N 0) (np_at nprocs i).
Proof. intros H. unfold l_max_shape.
  exact (nth_map_seq (fun i => bmax (nth (nth i dims 0) N 0) (np_at nprocs i)) (length dims) i H). Qed.

Lemma bmax_mul_ge n p : 0 < p -> n <= bmax n p * p.
Proof.
  intros Hp. unfold bmax. pose proof (Nat.div_mod n p ltac:(lia)). pose proof (Nat.mod_upper_bound n p ltac:(lia)).
  destruct (Nat.eqb_spec (n mod p) 0); nia.
Qed.

Definition scond (i : nat) : bool := (1 <? nth i nprocs 1) && negb (nth i l1 0 =? nth i l2 0).

Lemma swap_axes_head a0 a1 rest : swap_axes nprocs l1 l2 = a0 :: a1 :: rest ->
  a0 < length nprocs /\ scond a0 = true /\ a1 = index_of l1 (nth a0 l2 0).
Proof.
  unfold swap_axes.
  assert (G : forall l, (forall x, In x l -> x < length nprocs) ->
            flat_map (fun i => if (1 <? nth i nprocs 1) && negb (nth i l1 0 =? nth i l2 0)
               then [i; index_of l1 (nth i l2 0); index_of l2 (nth i l1 0)] else []) l = a0 :: a1 :: rest ->
            a0 < length nprocs /\ scond a0 = true /\ a1 = index_of l1 (nth a0 l2 0)).
  { induction l as [|x l IH]; intros Hr H; cbn [flat_map] in H; [discriminate|].
    destruct ((1 <? nth x nprocs 1) && negb (nth x l1 0 =? nth x l2 0)) eqn:C.
    - cbn in H. injection H as <- <- _. repeat split; [apply Hr; left; reflexivity|exact C].
    - cbn in H. apply IH; [intros y Hy; apply Hr; right; exact Hy|exact H]. }
  apply G. intros x Hx. apply in_seq in Hx. lia.
Qed.

Lemma swap_axes_not_single a0 : swap_axes nprocs l1 l2 <> [a0].
Proof.
  unfold swap_axes. intros E.
  assert (H : forall l, length (flat_map (fun i => if (1 <? nth i nprocs 1) && negb (nth i l1 0 =? nth i l2 0)
               then [i; index_of l1 (nth i l2 0); index_of l2 (nth i l1 0)] else []) l) <> 1).
  { induction l as [|x l IH]; cbn [flat_map]; [cbn; lia|]. rewrite app_length.
    destruct ((1 <? nth x nprocs 1) && negb (nth x l1 0 =? nth x l2 0)); cbn [length]; lia. }
  apply (H (seq 0 (length nprocs))). rewrite E. reflexivity.
Qed.

(** the padded p-fold send buffer of the pair is at least as large as the block of l1 *)
Theorem pair_bufsize_ge_size : l_size N nprocs l1 coords <= pair_bufsize N nprocs coords l1 l2.
Proof.
  unfold pair_bufsize, l_size.
  destruct (swap_axes nprocs l1 l2) as [|a0 [|a1 rest]] eqn:E; [lia|exfalso; exact (swap_axes_not_single a0 E)|].
  destruct (swap_axes_head a0 a1 rest E) as [Ha0 [Hc0 Ha1]].
  assert (Hc0' := Hc0). unfold scond in Hc0'. apply andb_prop in Hc0'. destruct Hc0' as [Hp Hdiff].
  apply Nat.ltb_lt in Hp. apply negb_true_iff, Nat.eqb_neq in Hdiff.
  assert (Ha0d : a0 < d) by lia.
  destruct (nth_index_of l1 (nth a0 l2 0) (Hin a0 Ha0d)) as [Ha1d Hv1]. rewrite <- Ha1 in Ha1d, Hv1.
  assert (Hne : a0 <> a1) by (intros ->; apply Hdiff; exact Hv1).
  (* a1 is not distributed: otherwise two distributed axes would change their dimension *)
  assert (Hp1 : np_at nprocs a1 = 1).
  { pose proof (Hpos a1) as H0. destruct (Nat.eq_dec (np_at nprocs a1) 1) as [E1|E1]; [exact E1|exfalso].
    assert (Hgt : 1 < np_at nprocs a1) by lia.
    assert (Ha1n : a1 < length nprocs).
    { destruct (Nat.lt_ge_cases a1 (length nprocs)) as [H|H]; [exact H|]. unfold np_at in Hgt. rewrite nth_overflow in Hgt by exact H. lia. }
    assert (Hc1 : scond a1 = true).
    { unfold scond. unfold np_at in Hgt. apply andb_true_intro. split; [apply Nat.ltb_lt; exact Hgt|].
      apply negb_true_iff, Nat.eqb_neq. intros Eq. rewrite Hv1 in Eq.
      (* l2[a0] = l2[a1] contradicts NoDup l2 *)
      apply Hne. apply (proj1 (NoDup_nth l2 0) Hnd2); [rewrite Hl2; exact Ha0d|rewrite Hl2; exact Ha1d|exact Eq]. }
    unfold compatible, differing_axes in Hcompat. apply Nat.ltb_lt in Hcompat.
    pose proof (filter_two scond (seq 0 (length nprocs)) a0 a1 (seq_NoDup _ _)
                  ltac:(apply in_seq; lia) ltac:(apply in_seq; lia) Hne Hc0 Hc1) as H2.
    unfold scond in H2. lia. }
  set (bs := l_shape N nprocs l1 coords).
  assert (Lbs : length bs = d) by apply l_shape_length.
  set (M1 := nth a0 (l_max_shape N nprocs l1) 0). set (M2 := nth a0 (l_max_shape N nprocs l2) 0).
  set (T := set_nth bs a0 M1).
  assert (E1 : size T * nth a0 bs 0 = size bs * M1) by (apply size_set_nth; lia).
  assert (E2 : size (set_nth T a1 M2) * nth a1 T 0 = size T * M2) by (apply size_set_nth; unfold T; rewrite set_nth_length; lia).
  assert (E3 : nth a1 T 0 = nth a1 bs 0) by (unfold T; apply nth_set_nth_ne; exact Hne).
  rewrite E3 in E2.
  assert (B0 : nth a0 bs 0 <= M1).
  { unfold bs, M1. rewrite l_shape_nth, l_max_shape_nth by exact Ha0d. apply blen_le_bmax; [apply Hpos|apply Hrk]. }
  assert (B1 : nth a1 bs 0 <= M2 * nth a0 nprocs 1).
  { unfold bs, M2. rewrite l_shape_nth by exact Ha1d. rewrite l_max_shape_nth by (rewrite Hl2; exact Ha0d).
    rewrite Hv1, Hp1. rewrite blen_one by (pose proof (Hrk a1); lia). apply bmax_mul_ge. apply Hpos. }
  apply (prod_bound _ (size bs) (nth a0 bs 0) (nth a1 bs 0) M1 M2 (nth a0 nprocs 1)); try assumption.
  - replace (size (set_nth T a1 M2) * nth a1 bs 0 * nth a0 bs 0) with ((size (set_nth T a1 M2) * nth a1 bs 0) * nth a0 bs 0) by lia.
    rewrite E2. replace (size T * M2 * nth a0 bs 0) with ((size T * nth a0 bs 0) * M2) by lia. rewrite E1. lia.
  - intros [Z|Z]; [apply (size_zero_of_nth bs a0); [lia|exact Z]|apply (size_zero_of_nth bs a1); [lia|exact Z]].
Qed.
End PairBuf.
