(** Executable model of pygyro/splines/spline_eval_funcs.py and cubic_uniform_spline_eval_funcs.py
    over an abstract field (record [sp_ops]; executed at [Qc], see SplineQc.v).

    The loops are those of the code: Algorithm A2.2 with left/right/saved/temp is [basis_funs] of
    BasisCoxDeBoor.v, the binary search is [find_span] of FindSpan.v, the uniform-cubic closed
    form is [cu_basis] of CubicUniform.v - the definitions about which the seed theorems are
    stated are the ones that are executed.  Knots and coefficients are lists, indices are [nat].

    Every function returns an [sp_res]: an index outside an array, exhausted fuel, a zero
    denominator and an unsupported argument ([der] outside {0,1}, degree 0 with der = 1 ...)
    are explicit constructors; no theorem is carried by a default value. *)
From Coq Require Import List Arith Lia ZArith Bool.
Import ListNotations.
From PGV Require Import BasisCoxDeBoor FindSpan CubicUniform.

Inductive sp_res (A : Type) : Type :=
| SpOk (a : A)
| SpIndexErr        (* Python: IndexError / negative index / shape mismatch of a slice *)
| SpFuelErr         (* the while loop did not stop within the fuel (never, see sp_find_span_spec) *)
| SpDivErr          (* ZeroDivisionError *)
| SpArgErr.         (* arguments for which the code leaves its result undefined *)
Arguments SpOk {A} a. Arguments SpIndexErr {A}. Arguments SpFuelErr {A}.
Arguments SpDivErr {A}. Arguments SpArgErr {A}.

Definition sp_bind {A B : Type} (r : sp_res A) (f : A -> sp_res B) : sp_res B :=
  match r with
  | SpOk a => f a
  | SpIndexErr => SpIndexErr | SpFuelErr => SpFuelErr | SpDivErr => SpDivErr | SpArgErr => SpArgErr
  end.

Fixpoint sp_mapM {A B : Type} (f : A -> sp_res B) (l : list A) : sp_res (list B) :=
  match l with
  | [] => SpOk []
  | a :: r => sp_bind (f a) (fun b => sp_bind (sp_mapM f r) (fun bs => SpOk (b :: bs)))
  end.

(** operations of the field the model computes in *)
Record sp_ops (F : Type) : Type := SpOps {
  sp0 : F; sp1 : F;
  spadd : F -> F -> F; spmul : F -> F -> F; spsub : F -> F -> F; spdiv : F -> F -> F;
  spopp : F -> F; spinv : F -> F;
  spleb : F -> F -> bool;          (* a <= b *)
  speqb : F -> F -> bool;          (* a == b *)
  sptrunc : F -> Z                 (* Python int(): truncation towards zero *)
}.
Arguments sp0 {F}. Arguments sp1 {F}. Arguments spadd {F}. Arguments spmul {F}.
Arguments spsub {F}. Arguments spdiv {F}. Arguments spopp {F}. Arguments spinv {F}.
Arguments spleb {F}. Arguments speqb {F}. Arguments sptrunc {F}.

Section Model.
Variable F : Type.
Variable K : sp_ops F.
Notation "x + y" := (spadd K x y). Notation "x * y" := (spmul K x y).
Notation "x - y" := (spsub K x y). Notation "x / y" := (spdiv K x y).
Notation "0" := (sp0 K). Notation "1" := (sp1 K).

(** knots[i]; beyond the end the last knot is repeated, so that a sorted list is a non-decreasing
    function on all of nat.  Every access made by the model is guarded to be inside the list. *)
Definition sp_kn (knots : list F) (i : nat) : F := nth i knots (last knots 0).

(** int -> float *)
Definition sp_ofnat (n : nat) : F := ofnat F 0 1 (spadd K) n.
Fixpoint sp_ofpos (p : positive) : F :=
  match p with
  | xH => 1
  | xO q => (1 + 1) * sp_ofpos q
  | xI q => (1 + 1) * sp_ofpos q + 1
  end.
Definition sp_ofZ (z : Z) : F :=
  match z with Z0 => 0 | Zpos p => sp_ofpos p | Zneg p => spopp K (sp_ofpos p) end.

(* ------------------------------------------------------------------------------------------ *)
(** * spline_eval_funcs.py *)

(** nu_find_span.  [find_span] (FindSpan.v) is the code's function with the while loop fuelled by
    high - low <= len(knots). *)
Definition sp_nu_find_span (knots : list F) (degree : nat) (x : F) : sp_res nat :=
  let len := length knots in
  if (2 * degree + 1 <? len)%nat then
    match find_span F (spleb K) (fun z => sp_kn knots (Z.to_nat z)) (Z.of_nat len) (Z.of_nat degree) x with
    | Some s => SpOk (Z.to_nat s)
    | None => SpFuelErr
    end
  else SpArgErr.

(** all denominators right[r] + left[j-r] of A2.2 are non-zero *)
Definition sp_denoms_ok (t : nat -> F) (x : F) (span degree : nat) : bool :=
  forallb (fun j => forallb (fun r =>
      negb (speqb K (R F (spsub K) t x span r + L F (spsub K) t x span (j - r)) 0)) (seq 0 (S j)))
    (seq 0 degree).

(** nu_basis_funs: Algorithm A2.2, [basis_funs] of BasisCoxDeBoor.v *)
Definition sp_A22 (knots : list F) (degree : nat) (x : F) (span : nat) : list F :=
  basis_funs F 0 1 (spadd K) (spmul K) (spsub K) (spdiv K) (sp_kn knots) x span degree.

Definition sp_nu_basis_funs (knots : list F) (degree : nat) (x : F) (span : nat) : sp_res (list F) :=
  if (degree <=? span)%nat && (span + degree <? length knots)%nat then
    if sp_denoms_ok (sp_kn knots) x span degree then SpOk (sp_A22 knots degree x span)
    else SpDivErr
  else SpIndexErr.

(** nu_basis_funs_1st_der.  term j is  degree*values[j]/(knots[span+j+1]-knots[span+j+1-degree]) *)
Definition sp_der_den (knots : list F) (degree span j : nat) : F :=
  sp_kn knots (span + j + 1) - sp_kn knots (span + j + 1 - degree).
Definition sp_der_term (knots : list F) (degree span : nat) (values : list F) (j : nat) : F :=
  sp_ofnat degree * nth j values 0 / sp_der_den knots degree span j.
(* the loop j = 1 .. degree-1 with saved/temp, then ders[degree] = saved *)
Fixpoint sp_ders_loop (terms : list F) (saved : F) : list F :=
  match terms with
  | [] => [saved]
  | sv :: rest => (saved - sv) :: sp_ders_loop rest sv
  end.
Definition sp_ders_of_terms (terms : list F) : list F :=
  match terms with
  | [] => []
  | s0 :: rest => spopp K s0 :: sp_ders_loop rest s0
  end.
Definition sp_ders_raw (knots : list F) (degree : nat) (x : F) (span : nat) : list F :=
  let values := sp_A22 knots (degree - 1) x span in
  sp_ders_of_terms (map (sp_der_term knots degree span values) (seq 0 degree)).

Definition sp_nu_basis_funs_1st_der (knots : list F) (degree : nat) (x : F) (span : nat) : sp_res (list F) :=
  match degree with
  | 0%nat => SpArgErr
  | S d =>
    if (d <=? span)%nat && (span + degree <? length knots)%nat then
      if sp_denoms_ok (sp_kn knots) x span d
         && forallb (fun j => negb (speqb K (sp_der_den knots degree span j) 0)) (seq 0 degree)
      then SpOk (sp_ders_raw knots degree x span)
      else SpDivErr
    else SpIndexErr
  end.

(** y = 0.0; for j in range(n): y += coeffs[start+j]*basis[j] *)
Definition sp_dot_loop (coeffs : list F) (start n : nat) (basis : list F) : F :=
  fold_left (fun y j => y + nth (start + j) coeffs 0 * nth j basis 0) (seq 0 n) 0.

Definition sp_dot_checked (coeffs : list F) (span degree : nat) (basis : list F) : sp_res F :=
  if (degree <=? span)%nat && (span <? length coeffs)%nat
  then SpOk (sp_dot_loop coeffs (span - degree) (S degree) basis) else SpIndexErr.

(* one point with value basis / derivative basis *)
Definition sp_nu_point0 (knots : list F) (degree : nat) (coeffs : list F) (x : F) : sp_res F :=
  sp_bind (sp_nu_find_span knots degree x) (fun span =>
  sp_bind (sp_nu_basis_funs knots degree x span) (fun basis =>
  sp_dot_checked coeffs span degree basis)).
Definition sp_nu_point1 (knots : list F) (degree : nat) (coeffs : list F) (x : F) : sp_res F :=
  sp_bind (sp_nu_find_span knots degree x) (fun span =>
  sp_bind (sp_nu_basis_funs_1st_der knots degree x span) (fun basis =>
  sp_dot_checked coeffs span degree basis)).

(** nu_eval_spline_1d_scalar *)
Definition sp_nu_eval_1d_scalar (x : F) (knots : list F) (degree : nat) (coeffs : list F) (der : nat) : sp_res F :=
  sp_bind (sp_nu_find_span knots degree x) (fun span =>
  sp_bind (match der with
           | 0%nat => sp_nu_basis_funs knots degree x span
           | 1%nat => sp_nu_basis_funs_1st_der knots degree x span
           | _ => SpArgErr
           end) (fun basis =>
  sp_dot_checked coeffs span degree basis)).

(** nu_eval_spline_1d_vector: the branch on der is outside the loop *)
Definition sp_nu_eval_1d_vector (xs : list F) (knots : list F) (degree : nat) (coeffs : list F) (der : nat)
  : sp_res (list F) :=
  match der with
  | 0%nat => sp_mapM (sp_nu_point0 knots degree coeffs) xs
  | 1%nat => sp_mapM (sp_nu_point1 knots degree coeffs) xs
  | _ => SpArgErr
  end.

(** the theCoeffs accumulation of the 2-D entry points:
      theCoeffs[i,0] = theCoeffs[i,0]*basis2[0]
      for j in 1..deg2: theCoeffs[i,0] += theCoeffs[i,j]*basis2[j]
      z += theCoeffs[i,0]*basis1[i] *)
Definition sp_row_acc (row : list F) (start2 deg2 : nat) (basis2 : list F) : F :=
  fold_left (fun acc j => acc + nth (start2 + j) row 0 * nth j basis2 0) (seq 1 deg2)
            (nth start2 row 0 * nth 0%nat basis2 0).
Definition sp_tensor_loop (coeffs : list (list F)) (start1 deg1 start2 deg2 : nat) (basis1 basis2 : list F) : F :=
  fold_left (fun z i => z + sp_row_acc (nth (start1 + i) coeffs []) start2 deg2 basis2 * nth i basis1 0)
            (seq 0 (S deg1)) 0.
(* coeffs[span1-deg1:span1+1, span2-deg2:span2+1] has the shape (deg1+1, deg2+1) *)
Definition sp_tensor_checked (coeffs : list (list F)) (span1 deg1 span2 deg2 : nat) (basis1 basis2 : list F) : sp_res F :=
  if (deg1 <=? span1)%nat && (span1 <? length coeffs)%nat && (deg2 <=? span2)%nat
     && forallb (fun row => (span2 <? length row)%nat) coeffs
  then SpOk (sp_tensor_loop coeffs (span1 - deg1) deg1 (span2 - deg2) deg2 basis1 basis2)
  else SpIndexErr.

Definition sp_nu_basis_sel (der : nat) (knots : list F) (degree : nat) (x : F) (span : nat) : sp_res (list F) :=
  match der with
  | 0%nat => sp_nu_basis_funs knots degree x span
  | 1%nat => sp_nu_basis_funs_1st_der knots degree x span
  | _ => SpArgErr
  end.

(** nu_eval_spline_2d_scalar *)
Definition sp_nu_eval_2d_scalar (x y : F) (kts1 : list F) (deg1 : nat) (kts2 : list F) (deg2 : nat)
  (coeffs : list (list F)) (der1 der2 : nat) : sp_res F :=
  sp_bind (sp_nu_find_span kts1 deg1 x) (fun span1 =>
  sp_bind (sp_nu_find_span kts2 deg2 y) (fun span2 =>
  sp_bind (sp_nu_basis_sel der1 kts1 deg1 x span1) (fun basis1 =>
  sp_bind (sp_nu_basis_sel der2 kts2 deg2 y span2) (fun basis2 =>
  sp_tensor_checked coeffs span1 deg1 span2 deg2 basis1 basis2)))).

(** nu_eval_spline_2d_cross: span1/basis1 computed once per x, inside: span2/basis2 per y *)
Definition sp_nu_eval_2d_cross (X Y : list F) (kts1 : list F) (deg1 : nat) (kts2 : list F) (deg2 : nat)
  (coeffs : list (list F)) (der1 der2 : nat) : sp_res (list (list F)) :=
  match der1, der2 with
  | 0%nat, 0%nat | 0%nat, 1%nat | 1%nat, 0%nat | 1%nat, 1%nat =>
    sp_mapM (fun x =>
      sp_bind (sp_nu_find_span kts1 deg1 x) (fun span1 =>
      sp_bind (sp_nu_basis_sel der1 kts1 deg1 x span1) (fun basis1 =>
      sp_mapM (fun y =>
        sp_bind (sp_nu_find_span kts2 deg2 y) (fun span2 =>
        sp_bind (sp_nu_basis_sel der2 kts2 deg2 y span2) (fun basis2 =>
        sp_tensor_checked coeffs span1 deg1 span2 deg2 basis1 basis2))) Y))) X
  | _, _ => SpArgErr
  end.

(** nu_eval_spline_2d_vector: pairs (x[i], y[i]); len(y) < len(x) is an IndexError *)
Fixpoint sp_zipM {B : Type} (f : F -> F -> sp_res B) (xs ys : list F) : sp_res (list B) :=
  match xs with
  | [] => SpOk []
  | x :: xr => match ys with
               | [] => SpIndexErr
               | y :: yr => sp_bind (f x y) (fun b => sp_bind (sp_zipM f xr yr) (fun bs => SpOk (b :: bs)))
               end
  end.
Definition sp_nu_eval_2d_vector (xs ys : list F) (kts1 : list F) (deg1 : nat) (kts2 : list F) (deg2 : nat)
  (coeffs : list (list F)) (der1 der2 : nat) : sp_res (list F) :=
  match der1, der2 with
  | 0%nat, 0%nat | 0%nat, 1%nat | 1%nat, 0%nat | 1%nat, 1%nat =>
    sp_zipM (fun x y =>
      sp_bind (sp_nu_find_span kts1 deg1 x) (fun span1 =>
      sp_bind (sp_nu_find_span kts2 deg2 y) (fun span2 =>
      sp_bind (sp_nu_basis_sel der1 kts1 deg1 x span1) (fun basis1 =>
      sp_bind (sp_nu_basis_sel der2 kts2 deg2 y span2) (fun basis2 =>
      sp_tensor_checked coeffs span1 deg1 span2 deg2 basis1 basis2))))) xs ys
  | _, _ => SpArgErr
  end.

(* ------------------------------------------------------------------------------------------ *)
(** * cubic_uniform_spline_eval_funcs.py *)

(** the "knots" of a uniform cubic space are [xmin; xmax; dx; float(ncells)] *)
Definition sp_cu_unpack (knots : list F) : sp_res (F * F * F * Z) :=
  match knots with
  | xmin :: xmax :: dx :: fn :: _ => SpOk (xmin, xmax, dx, sptrunc K fn)
  | _ => SpIndexErr
  end.

(** cu_find_span: (span, offset) *)
Definition sp_cu_find_span (xmin xmax dx x : F) (ncells : Z) : sp_res (Z * F) :=
  if speqb K dx 0 then SpDivErr else
  let normalised_pos := (x - xmin) / dx in
  let span := sptrunc K normalised_pos in
  let offset := normalised_pos - sp_ofZ span in
  if (span =? ncells)%Z then SpOk ((span + 2)%Z, 1) else SpOk ((span + 3)%Z, offset).

(** cu_basis_funs: [cu_basis] of CubicUniform.v *)
Definition sp_cu_basis_funs (offset : F) : list F :=
  cu_basis F 1 (spadd K) (spmul K) (spsub K) (spdiv K) offset.

Definition sp_two : F := 1 + 1.
Definition sp_three : F := sp_two + 1.
Definition sp_half : F := 1 / sp_two.

(** cu_basis_funs_1st_der *)
Definition sp_cu_basis_funs_1st_der (offset dx : F) : list F :=
  let b := 1 - offset in
  let o := offset in
  let coeff := sp_half / dx in
  [ spopp K coeff * b * b ;
    spopp K coeff * (1 + sp_two * b - sp_three * b * b) ;
    coeff * (1 + sp_two * o - sp_three * o * o) ;
    coeff * o * o ].

Definition sp_cu_basis_sel (der : nat) (offset dx : F) : sp_res (list F) :=
  match der with
  | 0%nat => SpOk (sp_cu_basis_funs offset)
  | 1%nat => SpOk (sp_cu_basis_funs_1st_der offset dx)
  | _ => SpArgErr
  end.

(* span as an index: span-3 >= 0 (a negative index is reported, not wrapped) *)
Definition sp_span_nat (span : Z) : sp_res nat :=
  if (3 <=? span)%Z then SpOk (Z.to_nat span) else SpIndexErr.

Definition sp_cu_point (der : nat) (xmin xmax dx : F) (ncells : Z) (coeffs : list F) (x : F) : sp_res F :=
  sp_bind (sp_cu_find_span xmin xmax dx x ncells) (fun so =>
  sp_bind (sp_cu_basis_sel der (snd so) dx) (fun basis =>
  sp_bind (sp_span_nat (fst so)) (fun span =>
  sp_dot_checked coeffs span 3 basis))).

(** cu_eval_spline_1d_scalar *)
Definition sp_cu_eval_1d_scalar (x : F) (knots : list F) (degree : nat) (coeffs : list F) (der : nat) : sp_res F :=
  sp_bind (sp_cu_unpack knots) (fun k => let '(xmin, xmax, dx, ncells) := k in
  sp_cu_point der xmin xmax dx ncells coeffs x).

(** cu_eval_spline_1d_vector *)
Definition sp_cu_eval_1d_vector (xs : list F) (knots : list F) (degree : nat) (coeffs : list F) (der : nat)
  : sp_res (list F) :=
  sp_bind (sp_cu_unpack knots) (fun k => let '(xmin, xmax, dx, ncells) := k in
  match der with
  | 0%nat | 1%nat => sp_mapM (sp_cu_point der xmin xmax dx ncells coeffs) xs
  | _ => SpArgErr
  end).

(* the slice coeffs[span1-deg1:span1+1, ...] is assigned to a 4x4 array: deg1 = deg2 = 3 *)
Definition sp_cu_tensor (coeffs : list (list F)) (span1 : Z) (deg1 : nat) (span2 : Z) (deg2 : nat)
  (basis1 basis2 : list F) : sp_res F :=
  if (deg1 =? 3)%nat && (deg2 =? 3)%nat then
    sp_bind (sp_span_nat span1) (fun s1 => sp_bind (sp_span_nat span2) (fun s2 =>
    sp_tensor_checked coeffs s1 3 s2 3 basis1 basis2))
  else SpIndexErr.

(** cu_eval_spline_2d_scalar *)
Definition sp_cu_eval_2d_scalar (x y : F) (kts1 : list F) (deg1 : nat) (kts2 : list F) (deg2 : nat)
  (coeffs : list (list F)) (der1 der2 : nat) : sp_res F :=
  sp_bind (sp_cu_unpack kts1) (fun k1 => let '(xmin, xmax, dx, ncx) := k1 in
  sp_bind (sp_cu_unpack kts2) (fun k2 => let '(ymin, ymax, dy, ncy) := k2 in
  sp_bind (sp_cu_find_span xmin xmax dx x ncx) (fun so1 =>
  sp_bind (sp_cu_find_span ymin ymax dy y ncy) (fun so2 =>
  sp_bind (sp_cu_basis_sel der1 (snd so1) dx) (fun basis1 =>
  sp_bind (sp_cu_basis_sel der2 (snd so2) dy) (fun basis2 =>
  sp_cu_tensor coeffs (fst so1) deg1 (fst so2) deg2 basis1 basis2)))))).

(** cu_eval_spline_2d_cross *)
Definition sp_cu_eval_2d_cross (X Y : list F) (kts1 : list F) (deg1 : nat) (kts2 : list F) (deg2 : nat)
  (coeffs : list (list F)) (der1 der2 : nat) : sp_res (list (list F)) :=
  sp_bind (sp_cu_unpack kts1) (fun k1 => let '(xmin, xmax, dx, ncx) := k1 in
  sp_bind (sp_cu_unpack kts2) (fun k2 => let '(ymin, ymax, dy, ncy) := k2 in
  match der1, der2 with
  | 0%nat, 0%nat | 0%nat, 1%nat | 1%nat, 0%nat | 1%nat, 1%nat =>
    sp_mapM (fun x =>
      sp_bind (sp_cu_find_span xmin xmax dx x ncx) (fun so1 =>
      sp_bind (sp_cu_basis_sel der1 (snd so1) dx) (fun basis1 =>
      sp_mapM (fun y =>
        sp_bind (sp_cu_find_span ymin ymax dy y ncy) (fun so2 =>
        sp_bind (sp_cu_basis_sel der2 (snd so2) dy) (fun basis2 =>
        sp_cu_tensor coeffs (fst so1) deg1 (fst so2) deg2 basis1 basis2))) Y))) X
  | _, _ => SpArgErr
  end)).

(** cu_eval_spline_2d_vector *)
Definition sp_cu_eval_2d_vector (xs ys : list F) (kts1 : list F) (deg1 : nat) (kts2 : list F) (deg2 : nat)
  (coeffs : list (list F)) (der1 der2 : nat) : sp_res (list F) :=
  sp_bind (sp_cu_unpack kts1) (fun k1 => let '(xmin, xmax, dx, ncx) := k1 in
  sp_bind (sp_cu_unpack kts2) (fun k2 => let '(ymin, ymax, dy, ncy) := k2 in
  match der1, der2 with
  | 0%nat, 0%nat | 0%nat, 1%nat | 1%nat, 0%nat | 1%nat, 1%nat =>
    sp_zipM (fun x y =>
      sp_bind (sp_cu_find_span xmin xmax dx x ncx) (fun so1 =>
      sp_bind (sp_cu_find_span ymin ymax dy y ncy) (fun so2 =>
      sp_bind (sp_cu_basis_sel der1 (snd so1) dx) (fun basis1 =>
      sp_bind (sp_cu_basis_sel der2 (snd so2) dy) (fun basis2 =>
      sp_cu_tensor coeffs (fst so1) deg1 (fst so2) deg2 basis1 basis2))))) xs ys
  | _, _ => SpArgErr
  end)).

(** the knot vector on which the uniform-cubic fast path really evaluates: the uniform extension
    t_i = xmin + (i-3) dx, i = 0 .. ncells+6 *)
Definition sp_uniform_knots (xmin dx : F) (ncells : nat) : list F :=
  map (tU F 0 1 (spadd K) (spmul K) (spsub K) xmin dx) (seq 0 (ncells + 7)).

End Model.
